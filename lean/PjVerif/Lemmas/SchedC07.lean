/-
  Lemmas/SchedC07.lean — helper lemmas for Props/C07.lean (pass-level reasoning on top of Lemmas/SchedPass.lean).
-/
import PjVerif.Lemmas.SchedPass
import PjVerif.Spec.Sched2
namespace Pj

/-! ### `minT` / `maxT` folds -/

theorem minT_le_left (a b : Time) : minT a b ≤ a := by unfold minT; split <;> grind
theorem minT_le_right (a b : Time) : minT a b ≤ b := by unfold minT; split <;> grind
theorem minT_cases (a b : Time) : minT a b = a ∨ minT a b = b := by unfold minT; split <;> simp
theorem le_maxT_left (a b : Time) : a ≤ maxT a b := by unfold maxT; split <;> grind
theorem le_maxT_right (a b : Time) : b ≤ maxT a b := by unfold maxT; split <;> grind
theorem maxT_cases (a b : Time) : maxT a b = a ∨ maxT a b = b := by unfold maxT; split <;> simp

theorem foldl_minT_le : ∀ (l : List Time) (a : Time), l.foldl minT a ≤ a ∧ ∀ x ∈ l, l.foldl minT a ≤ x
  | [], a => by simp
  | y :: l, a => by
    obtain ⟨h1, h2⟩ := foldl_minT_le l (minT a y)
    have := minT_le_left a y
    have := minT_le_right a y
    refine ⟨by simp only [List.foldl_cons]; grind, ?_⟩
    intro x hx
    simp only [List.foldl_cons]
    rcases List.mem_cons.1 hx with rfl | hx
    · grind
    · exact h2 x hx

theorem foldl_minT_mem : ∀ (l : List Time) (a : Time), l.foldl minT a = a ∨ l.foldl minT a ∈ l
  | [], a => by simp
  | y :: l, a => by
    simp only [List.foldl_cons, List.mem_cons]
    rcases foldl_minT_mem l (minT a y) with h | h
    · rcases minT_cases a y with h' | h'
      · left; rw [h, h']
      · right; left; rw [h, h']
    · right; right; exact h

theorem le_foldl_maxT : ∀ (l : List Time) (a : Time), a ≤ l.foldl maxT a ∧ ∀ x ∈ l, x ≤ l.foldl maxT a
  | [], a => by simp
  | y :: l, a => by
    obtain ⟨h1, h2⟩ := le_foldl_maxT l (maxT a y)
    have := le_maxT_left a y
    have := le_maxT_right a y
    refine ⟨by simp only [List.foldl_cons]; grind, ?_⟩
    intro x hx
    simp only [List.foldl_cons]
    rcases List.mem_cons.1 hx with rfl | hx
    · grind
    · exact h2 x hx

theorem foldl_maxT_mem : ∀ (l : List Time) (a : Time), l.foldl maxT a = a ∨ l.foldl maxT a ∈ l
  | [], a => by simp
  | y :: l, a => by
    simp only [List.foldl_cons, List.mem_cons]
    rcases foldl_maxT_mem l (maxT a y) with h | h
    · rcases maxT_cases a y with h' | h'
      · left; rw [h, h']
      · right; left; rw [h, h']
    · right; right; exact h

theorem minOpt_spec (l : List Time) (m : Time) (h : minOpt l = some m) : m ∈ l ∧ ∀ x ∈ l, m ≤ x := by
  cases l with
  | nil => cases h
  | cons a l =>
    simp only [minOpt, Option.some.injEq] at h
    subst h
    obtain ⟨h1, h2⟩ := foldl_minT_le l a
    refine ⟨?_, ?_⟩
    · rcases foldl_minT_mem l a with h | h
      · rw [h]; exact List.mem_cons_self
      · exact List.mem_cons_of_mem _ h
    · intro x hx
      rcases List.mem_cons.1 hx with rfl | hx
      · exact h1
      · exact h2 x hx

theorem maxOpt_spec (l : List Time) (m : Time) (h : maxOpt l = some m) : m ∈ l ∧ ∀ x ∈ l, x ≤ m := by
  cases l with
  | nil => cases h
  | cons a l =>
    simp only [maxOpt, Option.some.injEq] at h
    subst h
    obtain ⟨h1, h2⟩ := le_foldl_maxT l a
    refine ⟨?_, ?_⟩
    · rcases foldl_maxT_mem l a with h | h
      · rw [h]; exact List.mem_cons_self
      · exact List.mem_cons_of_mem _ h
    · intro x hx
      rcases List.mem_cons.1 hx with rfl | hx
      · exact h1
      · exact h2 x hx

theorem minOpt_isSome (l : List Time) (h : l ≠ []) : ∃ m, minOpt l = some m := by
  cases l with
  | nil => exact absurd rfl h
  | cons a l => exact ⟨_, rfl⟩

theorem maxOpt_isSome (l : List Time) (h : l ≠ []) : ∃ m, maxOpt l = some m := by
  cases l with
  | nil => exact absurd rfl h
  | cons a l => exact ⟨_, rfl⟩

/-- two lists with the same least element have the same `minOpt` -/
theorem minOpt_eq_of (l l' : List Time) (hsub : ∀ x ∈ l, x ∈ l') (hle : ∀ y ∈ l', ∃ x ∈ l, x ≤ y)
    : minOpt l = minOpt l' := by
  cases hl : l with
  | nil =>
    cases hl' : l' with
    | nil => rfl
    | cons b l'' =>
      obtain ⟨x, hx, _⟩ := hle b (by simp [hl'])
      rw [hl] at hx; cases hx
  | cons a l0 =>
    obtain ⟨m, hm⟩ := minOpt_isSome l (by simp [hl])
    have hne' : l' ≠ [] := by
      intro hc
      have := hsub a (by simp [hl])
      rw [hc] at this; cases this
    obtain ⟨m', hm'⟩ := minOpt_isSome l' hne'
    rw [← hl, hm, hm']
    obtain ⟨h1, h2⟩ := minOpt_spec l m hm
    obtain ⟨h1', h2'⟩ := minOpt_spec l' m' hm'
    have a1 : m' ≤ m := h2' m (hsub m h1)
    obtain ⟨x, hx, hxm⟩ := hle m' h1'
    have a2 : m ≤ x := h2 x hx
    congr 1
    grind

theorem maxOpt_eq_of (l l' : List Time) (hsub : ∀ x ∈ l, x ∈ l') (hle : ∀ y ∈ l', ∃ x ∈ l, y ≤ x)
    : maxOpt l = maxOpt l' := by
  cases hl : l with
  | nil =>
    cases hl' : l' with
    | nil => rfl
    | cons b l'' =>
      obtain ⟨x, hx, _⟩ := hle b (by simp [hl'])
      rw [hl] at hx; cases hx
  | cons a l0 =>
    obtain ⟨m, hm⟩ := maxOpt_isSome l (by simp [hl])
    have hne' : l' ≠ [] := by
      intro hc
      have := hsub a (by simp [hl])
      rw [hc] at this; cases this
    obtain ⟨m', hm'⟩ := maxOpt_isSome l' hne'
    rw [← hl, hm, hm']
    obtain ⟨h1, h2⟩ := maxOpt_spec l m hm
    obtain ⟨h1', h2'⟩ := maxOpt_spec l' m' hm'
    have a1 : m ≤ m' := h2' m (hsub m h1)
    obtain ⟨x, hx, hxm⟩ := hle m' h1'
    have a2 : x ≤ m := h2 x hx
    congr 1
    grind

theorem filterMap_congr' {α β : Type} : ∀ (l : List α) (f g : α → Option β), (∀ x ∈ l, f x = g x) →
    l.filterMap f = l.filterMap g
  | [], _, _, _ => rfl
  | a :: l, f, g, h => by
    simp only [List.filterMap_cons, h a List.mem_cons_self,
      filterMap_congr' l f g (fun x hx => h x (List.mem_cons_of_mem _ hx))]

/-! ### `sumOpt` -/

theorem sumOpt_aux : ∀ (l : List (Option Rat)) (acc e : Rat),
    l.foldlM (fun acc v => match v with | some x => (pure (acc + x) : Res Rat) | none => (throw (Err.crash .type) : Res Rat)) acc = .ok e →
    e = acc + (l.map (fun v => v.getD 0)).sum ∧ ∀ v ∈ l, v.isSome
  | [], acc, e, h => by
    simp only [List.foldlM_nil, pure, Except.pure] at h
    cases h; simp; grind
  | v :: l, acc, e, h => by
    simp only [List.foldlM_cons, bind, Except.bind] at h
    cases v with
    | none => simp [throw, throwThe, MonadExceptOf.throw] at h
    | some x =>
      simp only [pure, Except.pure] at h
      obtain ⟨h1, h2⟩ := sumOpt_aux l (acc + x) e h
      refine ⟨?_, ?_⟩
      · simp only [List.map_cons, Option.getD_some, List.sum_cons]; grind
      · intro v hv
        rcases List.mem_cons.1 hv with rfl | hv
        · rfl
        · exact h2 v hv

theorem sumOpt_spec (l : List (Option Rat)) (e : Rat) (h : sumOpt l = .ok e) :
    e = (l.map (fun v => v.getD 0)).sum := by
  have := (sumOpt_aux l 0 e h).1
  grind

/-! ### what the stages of a placement do to the fields of the task -/

theorem setF_f_same (σ : SS) (t : Uid) (g : Fields → Fields) : (setF σ t g).f t = g (σ.f t) := by
  simp [setF, upd]

theorem fwdStart_fields (env : Env) (cal : Cal) (used : Int → Rat) (t : Uid) (m : Time) (σ σ' : SS)
    (h : fwdStart env cal used t m σ = .ok σ') :
    ∃ s, σ'.f t = { σ.f t with start := some s } ∧ (∀ s0, (σ.f t).start = some s0 → s = s0) ∧
      ((σ.f t).start = none → (env.info t).children.isEmpty = false →
        s = (minOpt ((env.info t).children.filterMap (fun c => (σ.f c).start))).getD epoch) := by
  unfold fwdStart at h
  simp only at h
  split at h
  · rename_i s0 hs0
    cases h
    refine ⟨s0, ?_, ?_, ?_⟩
    · rw [← hs0]
    · intro s1 h1; rw [hs0] at h1; cases h1; rfl
    · intro h1; rw [hs0] at h1; cases h1
  · rename_i hs0
    split at h
    · rename_i hleaf
      simp only [bind, Except.bind] at h
      split at h
      · cases h
      · rename_i s hs
        cases h
        refine ⟨s, ?_, ?_, ?_⟩
        · rw [setF_f_same]; rfl
        · intro s1 h1; rw [hs0] at h1; cases h1
        · intro _ h2; rw [hleaf] at h2; cases h2
    · split at h
      · rename_i hcs
        cases h
        refine ⟨epoch, ?_, ?_, ?_⟩
        · rw [setF_f_same]
        · intro s1 h1; rw [hs0] at h1; cases h1
        · intro _ _; rw [hcs]; rfl
      · rename_i c rest hcs
        cases h
        refine ⟨rest.foldl minT c, ?_, ?_, ?_⟩
        · rw [setF_f_same]
        · intro s1 h1; rw [hs0] at h1; cases h1
        · intro _ _; rw [hcs]; rfl

theorem fwdEnd_fields (env : Env) (cal : Cal) (used : Int → Rat) (t : Uid) (σ σ' : SS)
    (h : fwdEnd env cal used t σ = .ok σ') :
    ∃ e, σ'.f t = { σ.f t with end_ := some e } ∧ (∀ e0, (σ.f t).end_ = some e0 → e = e0) ∧
      ((σ.f t).end_ = none → (env.info t).children.isEmpty = true → ((σ.f t).start).getD epoch ≤ e) ∧
      ((σ.f t).end_ = none → (env.info t).children.isEmpty = false →
        some e = maxOpt ((env.info t).children.filterMap (fun c => (σ.f c).end_))) := by
  unfold fwdEnd at h
  simp only at h
  split at h
  · rename_i e0 he0
    cases h
    refine ⟨e0, ?_, ?_, ?_, ?_⟩
    · rw [← he0]
    · intro s1 h1; rw [he0] at h1; cases h1; rfl
    · intro h1; rw [he0] at h1; cases h1
    · intro h1; rw [he0] at h1; cases h1
  · rename_i he0
    split at h
    · rename_i hleaf
      simp only [bind, Except.bind] at h
      split at h
      · cases h
      · rename_i v hv
        obtain ⟨e, rows⟩ := v
        cases h
        refine ⟨maxT (if env.bound < (now env (addRows (now env σ).2 (env.info t).resource t rows)).1
            then maxT e (now env (addRows (now env σ).2 (env.info t).resource t rows)).1 else e)
          ((σ.f t).start.getD epoch), ?_, ?_, ?_, ?_⟩
        · rw [setF_f_same]; rfl
        · intro s1 h1; rw [he0] at h1; cases h1
        · intro _ _; exact le_maxT_right _ _
        · intro _ h2; rw [hleaf] at h2; cases h2
    · rename_i hleaf
      split at h
      · cases h
      · rename_i c rest hcs
        cases h
        refine ⟨rest.foldl maxT c, ?_, ?_, ?_, ?_⟩
        · rw [setF_f_same]
        · intro s1 h1; rw [he0] at h1; cases h1
        · intro _ h2; exact absurd h2 hleaf
        · intro _ _; rw [hcs]; rfl

theorem fillEst_fields (env : Env) (t : Uid) (σ σ' : SS) (ht : t ∉ (env.info t).children)
    (h : fillEst env t σ = .ok σ') :
    ∃ e sp, σ'.f t = { σ.f t with est := some e, spent := some sp } ∧
      ((σ.f t).est = none → (env.info t).children.isEmpty = false →
        e = ((env.info t).children.map (fun c => ((σ.f c).est).getD 0)).sum) ∧
      ((σ.f t).spent = none → (env.info t).children.isEmpty = false →
        sp = ((env.info t).children.map (fun c => ((σ.f c).spent).getD 0)).sum) := by
  unfold fillEst at h
  simp only [bind, Except.bind] at h
  split at h
  · cases h
  · rename_i σ1 h1
    have s1 : ∃ e, σ1.f t = { σ.f t with est := some e } ∧ (∀ x, x ≠ t → σ1.f x = σ.f x) ∧
        ((σ.f t).est = none → (env.info t).children.isEmpty = false →
          e = ((env.info t).children.map (fun c => ((σ.f c).est).getD 0)).sum) := by
      split at h1
      · rename_i e0 he0
        cases h1
        exact ⟨e0, by rw [← he0], fun _ _ => rfl, fun hc => by rw [he0] at hc; cases hc⟩
      · rename_i he0
        split at h1
        · rename_i hleaf
          cases h1
          exact ⟨_, by rw [setF_f_same], fun x hx => by simp [setF, upd, hx],
            fun _ hc => by rw [hleaf] at hc; cases hc⟩
        · split at h1
          · cases h1
          · rename_i e he
            cases h1
            refine ⟨e, by rw [setF_f_same], fun x hx => by simp [setF, upd, hx], fun _ _ => ?_⟩
            have := sumOpt_spec _ _ he
            rw [List.map_map] at this
            exact this
    obtain ⟨e, hf1, hoth, he⟩ := s1
    have hch : ∀ c ∈ (env.info t).children, σ1.f c = σ.f c := fun c hc => hoth c (fun hct => ht (hct ▸ hc))
    have hsp1 : (σ1.f t).spent = (σ.f t).spent := by rw [hf1]
    split at h
    · rename_i sp0 hsp0
      cases h
      refine ⟨e, sp0, ?_, he, ?_⟩
      · rw [hf1]; rw [hf1] at hsp0; simp only at hsp0; rw [← hsp0]
      · intro hc; rw [hsp1] at hsp0; rw [hsp0] at hc; cases hc
    · rename_i hsp0
      split at h
      · rename_i hleaf
        cases h
        exact ⟨e, 0, by rw [setF_f_same, hf1], he, fun _ hc => by rw [hleaf] at hc; cases hc⟩
      · split at h
        · cases h
        · rename_i sp hsp
          cases h
          refine ⟨e, sp, by rw [setF_f_same, hf1], he, fun _ _ => ?_⟩
          have := sumOpt_spec _ _ hsp
          rw [List.map_map] at this
          rw [this]
          congr 1
          apply List.map_congr_left
          intro c hc
          simp only [Function.comp]
          rw [hch c hc]

theorem bwdEnd_fields (env : Env) (cal : Cal) (used : Int → Rat) (t : Uid) (m m' : Time) (σ σ' : SS)
    (h : bwdEnd env cal used t m m' σ = .ok σ') :
    ∃ e, σ'.f t = { σ.f t with end_ := some e } ∧ (∀ e0, (σ.f t).end_ = some e0 → e = e0) ∧
      ((σ.f t).end_ = none → (env.info t).children.isEmpty = false →
        e = (maxOpt ((env.info t).children.filterMap (fun c => (σ.f c).end_))).getD m) := by
  unfold bwdEnd at h
  simp only at h
  split at h
  · rename_i e0 he0
    cases h
    refine ⟨e0, ?_, ?_, ?_⟩
    · rw [← he0]
    · intro s1 h1; rw [he0] at h1; cases h1; rfl
    · intro h1; rw [he0] at h1; cases h1
  · rename_i he0
    split at h
    · rename_i hleaf
      simp only [bind, Except.bind] at h
      split at h
      · cases h
      · rename_i e he
        cases h
        refine ⟨e + 1, ?_, ?_, ?_⟩
        · rw [setF_f_same]
        · intro s1 h1; rw [he0] at h1; cases h1
        · intro _ h2; rw [hleaf] at h2; cases h2
    · split at h
      · rename_i hcs
        cases h
        refine ⟨m, ?_, ?_, ?_⟩
        · rw [setF_f_same]
        · intro s1 h1; rw [he0] at h1; cases h1
        · intro _ _; rw [hcs]; rfl
      · rename_i c rest hcs
        cases h
        refine ⟨rest.foldl maxT c, ?_, ?_, ?_⟩
        · rw [setF_f_same]
        · intro s1 h1; rw [he0] at h1; cases h1
        · intro _ _; rw [hcs]; rfl

theorem shiftBwd_le (cal : Cal) (used : Int → Rat) (en : Time) (left : Rat) (s : Time)
    (rows : List (Int × Rat)) (hl : 0 ≤ left) (hu : ∀ d, 0 ≤ used d)
    (h : shiftBwd cal used en left = .ok (s, rows)) : s ≤ en := by
  obtain ⟨h0, h1⟩ := shiftBwd_spec cal used en left s rows hl hu h
  by_cases hz : left = 0
  · rw [(h0 hz).1]; exact Rat.le_refl
  · obtain ⟨dayL, hs, hne, _, hlt⟩ := h1 (by grind)
    cases rows with
    | nil => exact absurd rfl hne
    | cons p l =>
      have hr := (hs.range p (by simp))
      have h2 : dayL + 1 ≤ dayOf en := by omega
      have h3 : ((dayL + 1 : Int) : Rat) ≤ en := Rat.le_floor_iff.1 h2
      rw [Rat.intCast_add] at h3
      have : ((1 : Int) : Rat) = 1 := rfl
      grind

theorem bwdStart_fields (env : Env) (cal : Cal) (used : Int → Rat) (t : Uid) (m : Time) (σ σ' : SS)
    (hu : ∀ d, 0 ≤ used d) (h : bwdStart env cal used t m σ = .ok σ') :
    ∃ s, σ'.f t = { σ.f t with start := some s } ∧
      ((env.info t).children.isEmpty = true → s ≤ ((σ.f t).end_).getD epoch) ∧
      ((env.info t).children.isEmpty = false →
        some s = minOpt ((env.info t).children.filterMap (fun c => (σ.f c).start))) := by
  unfold bwdStart at h
  simp only at h
  split at h
  · rename_i hleaf
    simp only [bind, Except.bind] at h
    split at h
    · cases h
    · rename_i v hv
      obtain ⟨s, rows⟩ := v
      cases h
      have h1 := shiftBwd_le _ _ _ _ _ _ (leftOf_nonneg _ _) hu hv
      have h2 := minT_le_left (((σ.f t).end_).getD epoch) m
      refine ⟨(match (σ.f t).start with | some old => minT old s | none => s), ?_, ?_, ?_⟩
      · rw [setF_f_same]; rfl
      · intro _
        split
        · have := minT_le_right ‹Time› s
          grind
        · grind
      · intro h2; rw [hleaf] at h2; cases h2
  · rename_i hleaf
    split at h
    · cases h
    · rename_i c rest hcs
      cases h
      refine ⟨rest.foldl minT c, ?_, ?_, ?_⟩
      · rw [setF_f_same]
      · intro h2; exact absurd h2 hleaf
      · intro _; rw [hcs]; rfl

/-! ### a whole placement -/

theorem fwdPlace_fields (env : Env) (σ σ' : SS) (t : Uid) (v : Time) (ht : t ∉ (env.info t).children)
    (h : fwdPlace env σ t v = .ok σ') :
    ((env.info t).milestone = true → σ'.f t = ⟨some v, some v, some 0, some 0⟩) ∧
    ((env.info t).milestone = false → ∃ s e es sp, σ'.f t = ⟨some s, some e, some es, some sp⟩ ∧
      (∀ s0, (σ.f t).start = some s0 → s = s0) ∧
      ((σ.f t).start = none → (env.info t).children.isEmpty = false →
        s = (minOpt ((env.info t).children.filterMap (fun c => (σ.f c).start))).getD epoch) ∧
      (∀ e0, (σ.f t).end_ = some e0 → e = e0) ∧
      ((σ.f t).end_ = none → (env.info t).children.isEmpty = true → s ≤ e) ∧
      ((σ.f t).end_ = none → (env.info t).children.isEmpty = false →
        some e = maxOpt ((env.info t).children.filterMap (fun c => (σ.f c).end_))) ∧
      ((σ.f t).est = none → (env.info t).children.isEmpty = false →
        es = ((env.info t).children.map (fun c => ((σ.f c).est).getD 0)).sum) ∧
      ((σ.f t).spent = none → (env.info t).children.isEmpty = false →
        sp = ((env.info t).children.map (fun c => ((σ.f c).spent).getD 0)).sum)) := by
  unfold fwdPlace at h
  rcases hr : resLookup σ.res (env.info t).resource with ⟨res', cal⟩
  simp only [hr, bind, Except.bind, pure, Except.pure] at h
  split at h
  · rename_i hm
    cases h
    refine ⟨fun _ => ?_, fun hc => by rw [hm] at hc; cases hc⟩
    simp only [markDone, setF_f_same]
  · rename_i hm
    refine ⟨fun hc => absurd hc hm, fun _ => ?_⟩
    split at h
    · cases h
    · rename_i σ1 h1
      split at h
      · cases h
      · rename_i σ2 h2
        split at h
        · cases h
        · rename_i σ3 h3
          cases h
          have st1 := fwdStart_stage _ _ _ _ _ _ _ h1
          have st2 := fillEst_stage _ _ _ _ h2
          obtain ⟨s, f1, a1, a2⟩ := fwdStart_fields _ _ _ _ _ _ _ h1
          obtain ⟨es, sp, f2, b1, b2⟩ := fillEst_fields _ _ _ _ ht h2
          obtain ⟨e, f3, c1, c2, c3⟩ := fwdEnd_fields _ _ _ _ _ _ h3
          have hc1 : ∀ c ∈ (env.info t).children, σ1.f c = σ.f c := fun c hc =>
            st1.f c (fun hct => ht (hct ▸ hc))
          have hc2 : ∀ c ∈ (env.info t).children, σ2.f c = σ.f c := fun c hc =>
            (st2.f c (fun hct => ht (hct ▸ hc))).trans (hc1 c hc)
          have e1 : (env.info t).children.map (fun c => ((σ1.f c).est).getD 0) =
              (env.info t).children.map (fun c => ((σ.f c).est).getD 0) :=
            List.map_congr_left (fun c hc => by rw [hc1 c hc])
          have e2 : (env.info t).children.map (fun c => ((σ1.f c).spent).getD 0) =
              (env.info t).children.map (fun c => ((σ.f c).spent).getD 0) :=
            List.map_congr_left (fun c hc => by rw [hc1 c hc])
          have e3 : (env.info t).children.filterMap (fun c => (σ2.f c).end_) =
              (env.info t).children.filterMap (fun c => (σ.f c).end_) :=
            filterMap_congr' _ _ _ (fun c hc => by rw [hc2 c hc])
          rw [e1] at b1
          rw [e2] at b2
          rw [e3] at c3
          refine ⟨s, e, es, sp, ?_, a1, a2, ?_, ?_, ?_, ?_, ?_⟩
          · show σ3.f t = _
            rw [f3, f2, f1]
          · intro e0 he0
            exact c1 e0 (by rw [f2, f1]; exact he0)
          · intro he0 hl
            have := c2 (by rw [f2, f1]; exact he0) hl
            rw [f2, f1] at this
            exact this
          · intro he0 hl
            exact c3 (by rw [f2, f1]; exact he0) hl
          · intro he0 hl
            exact b1 (by rw [f1]; exact he0) hl
          · intro he0 hl
            exact b2 (by rw [f1]; exact he0) hl

theorem bwdPlace_fields (env : Env) (σ σ' : SS) (t : Uid) (m v : Time) (ht : t ∉ (env.info t).children)
    (hu : ∀ d, 0 ≤ usedBy env σ.rows (env.info t).resource t d)
    (h : bwdPlace env σ t m v = .ok σ') :
    ((env.info t).milestone = true → σ'.f t = ⟨some v, some v, some 0, some 0⟩) ∧
    ((env.info t).milestone = false → ∃ s e es sp, σ'.f t = ⟨some s, some e, some es, some sp⟩ ∧
      ((env.info t).children.isEmpty = true → s ≤ e) ∧
      ((env.info t).children.isEmpty = false →
        some s = minOpt ((env.info t).children.filterMap (fun c => (σ.f c).start))) ∧
      ((σ.f t).end_ = none → (env.info t).children.isEmpty = false →
        e = (maxOpt ((env.info t).children.filterMap (fun c => (σ.f c).end_))).getD m) ∧
      ((σ.f t).est = none → (env.info t).children.isEmpty = false →
        es = ((env.info t).children.map (fun c => ((σ.f c).est).getD 0)).sum) ∧
      ((σ.f t).spent = none → (env.info t).children.isEmpty = false →
        sp = ((env.info t).children.map (fun c => ((σ.f c).spent).getD 0)).sum)) := by
  unfold bwdPlace at h
  rcases hr : resLookup σ.res (env.info t).resource with ⟨res', cal⟩
  simp only [hr, bind, Except.bind, pure, Except.pure] at h
  split at h
  · rename_i hm
    cases h
    refine ⟨fun _ => ?_, fun hc => by rw [hm] at hc; cases hc⟩
    simp only [markDone, setF_f_same]
  · rename_i hm
    refine ⟨fun hc => absurd hc hm, fun _ => ?_⟩
    split at h
    · cases h
    · rename_i σ1 h1
      split at h
      · cases h
      · rename_i σ2 h2
        split at h
        · cases h
        · rename_i σ3 h3
          cases h
          have st1 := bwdEnd_stage _ _ _ _ _ _ _ _ h1
          have st2 := fillEst_stage _ _ _ _ h2
          obtain ⟨e, f1, a1, a2⟩ := bwdEnd_fields _ _ _ _ _ _ _ _ h1
          obtain ⟨es, sp, f2, b1, b2⟩ := fillEst_fields _ _ _ _ ht h2
          obtain ⟨s, f3, c1, c2⟩ := bwdStart_fields _ _ _ _ _ _ _ hu h3
          have hc1 : ∀ c ∈ (env.info t).children, σ1.f c = σ.f c := fun c hc =>
            st1.f c (fun hct => ht (hct ▸ hc))
          have hc2 : ∀ c ∈ (env.info t).children, σ2.f c = σ.f c := fun c hc =>
            (st2.f c (fun hct => ht (hct ▸ hc))).trans (hc1 c hc)
          have e1 : (env.info t).children.map (fun c => ((σ1.f c).est).getD 0) =
              (env.info t).children.map (fun c => ((σ.f c).est).getD 0) :=
            List.map_congr_left (fun c hc => by rw [hc1 c hc])
          have e2 : (env.info t).children.map (fun c => ((σ1.f c).spent).getD 0) =
              (env.info t).children.map (fun c => ((σ.f c).spent).getD 0) :=
            List.map_congr_left (fun c hc => by rw [hc1 c hc])
          have e3 : (env.info t).children.filterMap (fun c => (σ2.f c).start) =
              (env.info t).children.filterMap (fun c => (σ.f c).start) :=
            filterMap_congr' _ _ _ (fun c hc => by rw [hc2 c hc])
          rw [e1] at b1
          rw [e2] at b2
          rw [e3] at c2
          refine ⟨s, e, es, sp, ?_, ?_, c2, a2, ?_, ?_⟩
          · show σ3.f t = _
            rw [f3, f2, f1]
          · intro hl
            have := c1 hl
            rw [f2, f1] at this
            exact this
          · intro he0 hl
            exact b1 (by rw [f1]; exact he0) hl
          · intro he0 hl
            exact b2 (by rw [f1]; exact he0) hl

/-! ### the invariant of the passes -/

def AllSome (g : Fields) : Prop := g.start.isSome ∧ g.end_.isSome ∧ g.est.isSome ∧ g.spent.isSome

def SLE (g : Fields) : Prop := ∀ s e, g.start = some s → g.end_ = some e → s ≤ e

/-- the fields of `t` are the roll-ups of its children's -/
def RollupAt (env : Env) (f : Uid → Fields) (t : Uid) : Prop :=
  (f t).start = minOpt ((env.info t).children.filterMap (fun c => (f c).start)) ∧
  (f t).end_ = maxOpt ((env.info t).children.filterMap (fun c => (f c).end_)) ∧
  (f t).est = some (((env.info t).children.map (fun c => ((f c).est).getD 0)).sum) ∧
  (f t).spent = some (((env.info t).children.map (fun c => ((f c).spent).getD 0)).sum)

theorem RollupAt.congr {env : Env} {f f' : Uid → Fields} {t : Uid} (h : RollupAt env f t) (ht : f' t = f t)
    (hc : ∀ c ∈ (env.info t).children, f' c = f c) : RollupAt env f' t := by
  unfold RollupAt at h ⊢
  rw [ht]
  rw [filterMap_congr' _ (fun c => (f' c).start) (fun c => (f c).start) (fun c hcc => by rw [hc c hcc]),
    filterMap_congr' _ (fun c => (f' c).end_) (fun c => (f c).end_) (fun c hcc => by rw [hc c hcc]),
    List.map_congr_left (f := fun c => ((f' c).est).getD 0) (g := fun c => ((f c).est).getD 0)
      (fun c hcc => by rw [hc c hcc]),
    List.map_congr_left (f := fun c => ((f' c).spent).getD 0) (g := fun c => ((f c).spent).getD 0)
      (fun c hcc => by rw [hc c hcc])]
  exact h

/-- start ≤ end of a rolled-up task whose children all have start ≤ end -/
theorem RollupAt.sle {env : Env} {f : Uid → Fields} {t : Uid} (h : RollupAt env f t)
    (hne : (env.info t).children.isEmpty = false)
    (hall : ∀ c ∈ (env.info t).children, AllSome (f c)) (hsle : ∀ c ∈ (env.info t).children, SLE (f c)) :
    SLE (f t) := by
  intro s e hs he
  obtain ⟨h1, h2, _, _⟩ := h
  cases hch : (env.info t).children with
  | nil => rw [hch] at hne; cases hne
  | cons c0 rest =>
    have hc0 : c0 ∈ (env.info t).children := by rw [hch]; exact List.mem_cons_self
    obtain ⟨a1, a2, _, _⟩ := hall c0 hc0
    obtain ⟨s0, hs0⟩ := Option.isSome_iff_exists.1 a1
    obtain ⟨e0, he0⟩ := Option.isSome_iff_exists.1 a2
    have m1 : s0 ∈ (env.info t).children.filterMap (fun c => (f c).start) :=
      List.mem_filterMap.2 ⟨c0, hc0, hs0⟩
    have m2 : e0 ∈ (env.info t).children.filterMap (fun c => (f c).end_) :=
      List.mem_filterMap.2 ⟨c0, hc0, he0⟩
    have b1 := (minOpt_spec _ s (by rw [← h1, hs])).2 s0 m1
    have b2 := (maxOpt_spec _ e (by rw [← h2, he])).2 e0 m2
    have b3 := hsle c0 hc0 s0 e0 hs0 he0
    grind

structure C07Inv (env : Env) (fi : Uid → Fields) (C : Prop) (σ : SS) : Prop where
  init : ∀ x, x ∉ σ.done → σ.f x = fi x
  closed : DoneClosed env σ
  all : ∀ x ∈ σ.done, AllSome (σ.f x)
  roll : ∀ x ∈ σ.done, (env.info x).children.isEmpty = false → (env.info x).milestone = false →
    RollupAt env σ.f x
  sle : C → ∀ x ∈ σ.done, SLE (σ.f x)

theorem C07Inv.start (env : Env) (fi : Uid → Fields) (C : Prop) (σ : SS) (hf : σ.f = fi) (hd : σ.done = []) :
    C07Inv env fi C σ := by
  refine ⟨fun x _ => by rw [hf], ?_, ?_, ?_, ?_⟩
  · intro x hx; rw [hd] at hx; cases hx
  · intro x hx; rw [hd] at hx; cases hx
  · intro x hx; rw [hd] at hx; cases hx
  · intro _ x hx; rw [hd] at hx; cases hx

/-- a placement that leaves its task complete (and rolled up / start ≤ end where required) keeps the invariant -/
theorem place_c07 (env : Env) (fi : Uid → Fields) (C : Prop) (σ σ' : SS) (t : Uid)
    (hi : C07Inv env fi C σ) (ht : t ∉ σ.done) (hk : ∀ c ∈ (env.info t).children, c ∈ σ.done)
    (hd : σ'.done = σ.done ++ [t]) (hf : ∀ x, x ≠ t → σ'.f x = σ.f x)
    (hall : AllSome (σ'.f t))
    (hroll : (env.info t).children.isEmpty = false → (env.info t).milestone = false → RollupAt env σ'.f t)
    (hsle : C → ((env.info t).children.isEmpty = true ∨ (env.info t).milestone = true) → SLE (σ'.f t)) :
    C07Inv env fi C σ' := by
  have hold : ∀ x ∈ σ.done, σ'.f x = σ.f x := fun x hx => hf x (fun hc => ht (hc ▸ hx))
  have hkid : ∀ c ∈ (env.info t).children, σ'.f c = σ.f c := fun c hc => hold c (hk c hc)
  refine ⟨?_, place_doneClosed env σ σ' t hi.closed hk hd, ?_, ?_, ?_⟩
  · intro x hx
    rw [hd] at hx
    have hxt : x ≠ t := fun hc => hx (by simp [hc])
    rw [hf x hxt]
    exact hi.init x (fun hc => hx (List.mem_append_left _ hc))
  · intro x hx
    rw [hd] at hx
    rcases List.mem_append.1 hx with hx | hx
    · rw [hold x hx]; exact hi.all x hx
    · simp only [List.mem_singleton] at hx
      subst hx; exact hall
  · intro x hx hl hm
    rw [hd] at hx
    rcases List.mem_append.1 hx with hx | hx
    · exact (hi.roll x hx hl hm).congr (hold x hx) (fun c hc => hold c (hi.closed x hx c hc))
    · simp only [List.mem_singleton] at hx
      subst hx; exact hroll hl hm
  · intro hC x hx
    rw [hd] at hx
    rcases List.mem_append.1 hx with hx | hx
    · rw [hold x hx]; exact hi.sle hC x hx
    · simp only [List.mem_singleton] at hx
      subst hx
      by_cases hl : (env.info x).children.isEmpty = true
      · exact hsle hC (Or.inl hl)
      · by_cases hm : (env.info x).milestone = true
        · exact hsle hC (Or.inr hm)
        · have hl' : (env.info x).children.isEmpty = false := by simpa using hl
          have hm' : (env.info x).milestone = false := by simpa using hm
          refine (hroll hl' hm').sle hl' ?_ ?_
          · intro c hc; rw [hkid c hc]; exact hi.all c (hk c hc)
          · intro c hc; rw [hkid c hc]; exact hi.sle hC c (hk c hc)

/-- the roll-up equations for a freshly placed summary task, from what the placement computed -/
theorem rollupAt_of_placed (env : Env) (f f' : Uid → Fields) (t : Uid) (s e es sp : Rat)
    (hft : f' t = ⟨some s, some e, some es, some sp⟩) (hc : ∀ c ∈ (env.info t).children, f' c = f c)
    (h1 : some s = minOpt ((env.info t).children.filterMap (fun c => (f c).start)))
    (h2 : some e = maxOpt ((env.info t).children.filterMap (fun c => (f c).end_)))
    (h3 : es = ((env.info t).children.map (fun c => ((f c).est).getD 0)).sum)
    (h4 : sp = ((env.info t).children.map (fun c => ((f c).spent).getD 0)).sum) : RollupAt env f' t := by
  unfold RollupAt
  rw [hft]
  rw [filterMap_congr' _ (fun c => (f' c).start) (fun c => (f c).start) (fun c hcc => by rw [hc c hcc]),
    filterMap_congr' _ (fun c => (f' c).end_) (fun c => (f c).end_) (fun c hcc => by rw [hc c hcc]),
    List.map_congr_left (f := fun c => ((f' c).est).getD 0) (g := fun c => ((f c).est).getD 0)
      (fun c hcc => by rw [hc c hcc]),
    List.map_congr_left (f := fun c => ((f' c).spent).getD 0) (g := fun c => ((f c).spent).getD 0)
      (fun c hcc => by rw [hc c hcc])]
  exact ⟨h1, h2, by rw [h3], by rw [h4]⟩

/-- when all children have a date the optional minimum / maximum over them exists -/
theorem minOpt_children_some (f : Uid → Fields) (ch : List Uid) (hne : ch.isEmpty = false)
    (hall : ∀ c ∈ ch, AllSome (f c)) :
    (∃ m, minOpt (ch.filterMap (fun c => (f c).start)) = some m) ∧
    (∃ m, maxOpt (ch.filterMap (fun c => (f c).end_)) = some m) := by
  cases ch with
  | nil => cases hne
  | cons c0 rest =>
    obtain ⟨a1, a2, _, _⟩ := hall c0 List.mem_cons_self
    obtain ⟨s0, hs0⟩ := Option.isSome_iff_exists.1 a1
    obtain ⟨e0, he0⟩ := Option.isSome_iff_exists.1 a2
    constructor
    · apply minOpt_isSome
      simp [hs0]
    · apply maxOpt_isSome
      simp [he0]

section placement
variable (env : Env) (fi : Uid → Fields) (C : Prop)
  (hprep : ∀ t, (env.info t).member = true → (env.info t).children.isEmpty = false → fi t = ⟨none, none, none, none⟩)

include hprep in
theorem fwdPlace_c07
    (hfix : C → ∀ t, (env.info t).member = true → (env.info t).children.isEmpty = true →
      (env.info t).milestone = false → ∀ e0, (fi t).end_ = some e0 → ∃ s0, (fi t).start = some s0 ∧ s0 ≤ e0)
    (σ σ' : SS) (t : Uid) (v : Time) (hq : (env.info t).member = true) (hi : C07Inv env fi C σ)
    (ht : t ∉ σ.done) (hk : ∀ c ∈ (env.info t).children, c ∈ σ.done) (h : fwdPlace env σ t v = .ok σ') :
    C07Inv env fi C σ' := by
  have htc : t ∉ (env.info t).children := fun hc => ht (hk t hc)
  obtain ⟨new, σm, hs, hσ', _⟩ := fwdPlace_stage env σ σ' t v h
  have hf : ∀ x, x ≠ t → σ'.f x = σ.f x := fun x hx => by rw [hσ']; exact hs.f x hx
  have hkid : ∀ c ∈ (env.info t).children, σ'.f c = σ.f c := fun c hc => hf c (fun hct => htc (hct ▸ hc))
  have hd := (fwdPlace_ext env σ σ' t v ht h).2
  obtain ⟨hm1, hm2⟩ := fwdPlace_fields env σ σ' t v htc h
  have hinit := hi.init t ht
  by_cases hm : (env.info t).milestone = true
  · have hft := hm1 hm
    refine place_c07 env fi C σ σ' t hi ht hk hd hf ?_ ?_ ?_
    · rw [hft]; exact ⟨rfl, rfl, rfl, rfl⟩
    · intro _ hc; rw [hm] at hc; cases hc
    · intro _ _ s e h1 h2
      rw [hft] at h1 h2
      cases h1; cases h2; exact Rat.le_refl
  · have hm' : (env.info t).milestone = false := by simpa using hm
    obtain ⟨s, e, es, sp, hft, a1, a2, a3, a4, a5, a6, a7⟩ := hm2 hm'
    refine place_c07 env fi C σ σ' t hi ht hk hd hf ?_ ?_ ?_
    · rw [hft]; exact ⟨rfl, rfl, rfl, rfl⟩
    · intro hl _
      have hnone : σ.f t = ⟨none, none, none, none⟩ := by rw [hinit]; exact hprep t hq hl
      obtain ⟨⟨m1, hm1⟩, ⟨m2, hm2⟩⟩ := minOpt_children_some σ.f _ hl (fun c hc => hi.all c (hk c hc))
      refine rollupAt_of_placed env σ.f σ'.f t s e es sp hft hkid ?_ ?_ ?_ ?_
      · rw [a2 (by rw [hnone]) hl, hm1]; rfl
      · exact a5 (by rw [hnone]) hl
      · exact a6 (by rw [hnone]) hl
      · exact a7 (by rw [hnone]) hl
    · intro hC hlm
      rcases hlm with hl | hc
      · intro s' e' h1 h2
        rw [hft] at h1 h2
        cases h1; cases h2
        cases hend : (σ.f t).end_ with
        | none => exact a4 hend hl
        | some e0 =>
          obtain ⟨s0, hs0, hle⟩ := hfix hC t hq hl hm' e0 (by rw [← hinit]; exact hend)
          rw [← hinit] at hs0
          rw [a1 s0 hs0, a3 e0 hend]
          exact hle
      · exact absurd hc hm

include hprep in
theorem bwdPlace_c07 (σ σ' : SS) (t : Uid) (m v : Time) (hq : (env.info t).member = true)
    (hi : C07Inv env fi True σ) (hl : LedgerOK env σ)
    (ht : t ∉ σ.done) (hk : ∀ c ∈ (env.info t).children, c ∈ σ.done) (h : bwdPlace env σ t m v = .ok σ') :
    C07Inv env fi True σ' := by
  have htc : t ∉ (env.info t).children := fun hc => ht (hk t hc)
  obtain ⟨new, σm, hs, hσ', _⟩ := bwdPlace_stage env σ σ' t m v h
  have hf : ∀ x, x ≠ t → σ'.f x = σ.f x := fun x hx => by rw [hσ']; exact hs.f x hx
  have hkid : ∀ c ∈ (env.info t).children, σ'.f c = σ.f c := fun c hc => hf c (fun hct => htc (hct ▸ hc))
  have hd := (bwdPlace_ext env σ σ' t m v ht h).2
  have hu : ∀ d, 0 ≤ usedBy env σ.rows (env.info t).resource t d := fun d => reserved_nonneg _ hl.pos _ _ _
  obtain ⟨hm1, hm2⟩ := bwdPlace_fields env σ σ' t m v htc hu h
  have hinit := hi.init t ht
  by_cases hm : (env.info t).milestone = true
  · have hft := hm1 hm
    refine place_c07 env fi True σ σ' t hi ht hk hd hf ?_ ?_ ?_
    · rw [hft]; exact ⟨rfl, rfl, rfl, rfl⟩
    · intro _ hc; rw [hm] at hc; cases hc
    · intro _ _ s e h1 h2
      rw [hft] at h1 h2
      cases h1; cases h2; exact Rat.le_refl
  · have hm' : (env.info t).milestone = false := by simpa using hm
    obtain ⟨s, e, es, sp, hft, a1, a2, a3, a4, a5⟩ := hm2 hm'
    refine place_c07 env fi True σ σ' t hi ht hk hd hf ?_ ?_ ?_
    · rw [hft]; exact ⟨rfl, rfl, rfl, rfl⟩
    · intro hl _
      have hnone : σ.f t = ⟨none, none, none, none⟩ := by rw [hinit]; exact hprep t hq hl
      obtain ⟨⟨m1, hm1⟩, ⟨m2, hm2⟩⟩ := minOpt_children_some σ.f _ hl (fun c hc => hi.all c (hk c hc))
      refine rollupAt_of_placed env σ.f σ'.f t s e es sp hft hkid (a2 hl) ?_ ?_ ?_
      · rw [a3 (by rw [hnone]) hl, hm2]; rfl
      · exact a4 (by rw [hnone]) hl
      · exact a5 (by rw [hnone]) hl
    · intro _ hlm
      rcases hlm with hl | hc
      · intro s' e' h1 h2
        rw [hft] at h1 h2
        cases h1; cases h2
        exact a1 hl
      · exact absurd hc hm

end placement

/-! ### the runs -/

theorem prepare_summary (env : Env) (f0 : Uid → Fields) (mem : List Uid) (t : Uid) (ht : t ∈ mem)
    (hl : (env.info t).children.isEmpty = false) : prepare env f0 mem t = ⟨none, none, none, none⟩ := by
  simp [prepare, hl, ht]

theorem prepare_leaf (env : Env) (f0 : Uid → Fields) (mem : List Uid) (t : Uid)
    (hl : (env.info t).children.isEmpty = true) : prepare env f0 mem t = f0 t := by
  simp [prepare, hl]

theorem c07_of_inv (env : Env) (fi : Uid → Fields) (C : Prop) (σ : SS) (mem : List Uid)
    (hm : members env = some mem) (hi : C07Inv env fi C σ) (hdone : ∀ t ∈ mem, t ∈ σ.done) (o : Output)
    (ho : o = { f := σ.f, rows := σ.rows, res := σ.res }) :
    c07Rollup env o = true ∧ (C → c07StartLeEnd env o = true) := by
  subst ho
  constructor
  · simp only [c07Rollup, List.all_eq_true, memberList_eq env mem hm]
    intro t ht
    by_cases hl : isLeaf env t = true
    · simp [hl]
    · by_cases hms : (env.info t).milestone = true
      · simp [hms]
      · have hl' : (env.info t).children.isEmpty = false := by simpa [isLeaf] using hl
        have hms' : (env.info t).milestone = false := by simpa using hms
        obtain ⟨h1, h2, h3, h4⟩ := hi.roll t (hdone t ht) hl' hms'
        simp only [Bool.or_eq_true, Bool.and_eq_true, beq_iff_eq]
        exact Or.inr ⟨⟨⟨h1, h2⟩, h3⟩, h4⟩
  · intro hC
    simp only [c07StartLeEnd, List.all_eq_true, memberList_eq env mem hm]
    intro t ht
    obtain ⟨a1, a2, _, _⟩ := hi.all t (hdone t ht)
    obtain ⟨s0, hs0⟩ := Option.isSome_iff_exists.1 a1
    obtain ⟨e0, he0⟩ := Option.isSome_iff_exists.1 a2
    simp only [hs0, he0, decide_eq_true_eq]
    exact hi.sle hC t (hdone t ht) s0 e0 hs0 he0

theorem members_done (env : Env) (mem : List Uid) (hm : members env = some mem) (σ : SS)
    (hcl : DoneClosed env σ) (hroots : ∀ r ∈ env.roots, r ∈ σ.done) : ∀ t ∈ mem, t ∈ σ.done := by
  intro t ht
  obtain ⟨rt, hrt, l, hl, htl⟩ := (members_spec env mem hm).2 t ht
  exact hcl.subtree (hroots rt hrt) _ l hl t htl

theorem consistentFixed_spec (env : Env) (f0 : Uid → Fields) (mem : List Uid) (hm : members env = some mem)
    (h : consistentFixed env f0 = true) (t : Uid) (ht : t ∈ mem) (hl : (env.info t).children.isEmpty = true)
    (hms : (env.info t).milestone = false) (e0 : Time) (he : (f0 t).end_ = some e0) :
    ∃ s0, (f0 t).start = some s0 ∧ s0 ≤ e0 := by
  simp only [consistentFixed, List.all_eq_true, memberList_eq env mem hm] at h
  have := h t ht
  simp only [isLeaf, hl, hms, he] at this
  cases hs : (f0 t).start with
  | none => simp [hs] at this
  | some s0 =>
    simp [hs] at this
    exact ⟨s0, rfl, this⟩

/-- the final state of a successful forward run satisfies the invariant and every member is done -/
theorem fwdRun_inv (env : Env) (f0 : Uid → Fields) (res0 : List (Option Nat × Cal)) (o : Output) (C : Prop)
    (hf : env.flagsOK) (hC : C → consistentFixed env f0 = true) (h : fwdRun env f0 res0 = .ok o) :
    ∃ mem σ, members env = some mem ∧ o = { f := σ.f, rows := σ.rows, res := σ.res } ∧
      C07Inv env (prepare env f0 mem) C σ ∧ ∀ t ∈ mem, t ∈ σ.done := by
  obtain ⟨mem, σ, hm, hp, ho⟩ := fwdRun_ok env f0 res0 o h
  have hmemb : ∀ t, (env.info t).member = true ↔ t ∈ mem := fun t => by rw [← memberList_eq env mem hm]; exact hf t
  have hprep : ∀ t, (env.info t).member = true → (env.info t).children.isEmpty = false →
      prepare env f0 mem t = ⟨none, none, none, none⟩ := fun t hq hl =>
    prepare_summary env f0 mem t ((hmemb t).1 hq) hl
  have hfix : C → ∀ t, (env.info t).member = true → (env.info t).children.isEmpty = true →
      (env.info t).milestone = false → ∀ e0, (prepare env f0 mem t).end_ = some e0 →
      ∃ s0, (prepare env f0 mem t).start = some s0 ∧ s0 ≤ e0 := by
    intro hc t hq hl hms e0 he
    rw [prepare_leaf env f0 mem t hl] at he ⊢
    exact consistentFixed_spec env f0 mem hm (hC hc) t ((hmemb t).1 hq) hl hms e0 he
  have hI : C07Inv env (prepare env f0 mem) C σ := by
    refine passList_inv (C07Inv env (prepare env f0 mem) C) _ _ ?_ _ _ (C07Inv.start _ _ _ _ rfl rfl) hp
    intro a x b hx ha hh
    exact fwdPass_inv env (C07Inv env (prepare env f0 mem) C) (fun t => (env.info t).member = true)
      (fun s s' t v hq hi ht hk h => fwdPlace_c07 env _ C hprep hfix s s' t v hq hi ht hk h)
      (fun t c hq hc => (hmemb c).2 (members_children env mem hm t ((hmemb t).1 hq) c hc))
      (fun t p hq _ he => he.trans hq) _ _ _ _ _ _ ((hmemb x).2 (members_root env mem hm x hx)) ha hh
  have hroots : ∀ r ∈ env.roots, r ∈ σ.done :=
    passList_all_done _ _ (fun a x b _ hh => fwdPass_ext env _ _ _ _ _ _ hh) _ _ hp
  exact ⟨mem, σ, hm, ho, hI, members_done env mem hm σ hI.closed hroots⟩

theorem fwdRun_c07 (env : Env) (f0 : Uid → Fields) (res0 : List (Option Nat × Cal)) (o : Output) (C : Prop)
    (hf : env.flagsOK) (hC : C → consistentFixed env f0 = true) (h : fwdRun env f0 res0 = .ok o) :
    c07Rollup env o = true ∧ (C → c07StartLeEnd env o = true) := by
  obtain ⟨mem, σ, hm, ho, hI, hdone⟩ := fwdRun_inv env f0 res0 o C hf hC h
  exact c07_of_inv env _ C σ mem hm hI hdone o ho

theorem bwdRun_inv (env : Env) (f0 : Uid → Fields) (res0 : List (Option Nat × Cal)) (o : Output)
    (hf : env.flagsOK) (h : bwdRun env f0 res0 = .ok o) :
    ∃ mem σ, members env = some mem ∧ o = { f := σ.f, rows := σ.rows, res := σ.res } ∧
      C07Inv env (prepare env f0 mem) True σ ∧ ∀ t ∈ mem, t ∈ σ.done := by
  obtain ⟨mem, σ, hm, hp, ho⟩ := bwdRun_ok env f0 res0 o h
  have hmemb : ∀ t, (env.info t).member = true ↔ t ∈ mem := fun t => by rw [← memberList_eq env mem hm]; exact hf t
  have hprep : ∀ t, (env.info t).member = true → (env.info t).children.isEmpty = false →
      prepare env f0 mem t = ⟨none, none, none, none⟩ := fun t hq hl =>
    prepare_summary env f0 mem t ((hmemb t).1 hq) hl
  have hI : C07Inv env (prepare env f0 mem) True σ ∧ LedgerOK env σ := by
    refine passList_inv (fun s => C07Inv env (prepare env f0 mem) True s ∧ LedgerOK env s) _ _ ?_ _ _
      ⟨C07Inv.start _ _ _ _ rfl rfl, LedgerOK.init env _ rfl⟩ hp
    intro a x b hx ha hh
    exact bwdPass_inv env (fun s => C07Inv env (prepare env f0 mem) True s ∧ LedgerOK env s)
      (fun t => (env.info t).member = true)
      (fun s s' t m v hq hi ht hk h => ⟨bwdPlace_c07 env _ hprep s s' t m v hq hi.1 hi.2 ht hk h,
        bwdPlace_ledger env s s' t m v hi.2 h⟩)
      (fun t c hq hc => (hmemb c).2 (members_children env mem hm t ((hmemb t).1 hq) c hc))
      (fun t p hq _ he => he.trans hq) _ _ _ _ _ _
      ((hmemb x).2 (members_root env mem hm x (List.mem_reverse.1 hx))) ha hh
  have hroots : ∀ r ∈ env.roots, r ∈ σ.done := fun r hr =>
    passList_all_done _ _ (fun a x b _ hh => bwdPass_ext env _ _ _ _ _ _ hh) _ _ hp r (List.mem_reverse.2 hr)
  exact ⟨mem, σ, hm, ho, hI.1, members_done env mem hm σ hI.1.closed hroots⟩

theorem bwdRun_c07 (env : Env) (f0 : Uid → Fields) (res0 : List (Option Nat × Cal)) (o : Output)
    (hf : env.flagsOK) (h : bwdRun env f0 res0 = .ok o) :
    c07StartLeEnd env o = true ∧ c07Rollup env o = true := by
  obtain ⟨mem, σ, hm, ho, hI, hdone⟩ := bwdRun_inv env f0 res0 o hf h
  have := c07_of_inv env _ True σ mem hm hI hdone o ho
  exact ⟨this.2 trivial, this.1⟩

/-! ### `WBS.start` / `WBS.end` -/

theorem c07Rollup_spec (env : Env) (o : Output) (hr : c07Rollup env o = true) (t : Uid) (ht : t ∈ memberList env)
    (hl : (env.info t).children.isEmpty = false) (hms : (env.info t).milestone = false) : RollupAt env o.f t := by
  simp only [c07Rollup, List.all_eq_true] at hr
  have := hr t ht
  simp only [isLeaf, hl, hms, Bool.or_eq_true, Bool.and_eq_true, beq_iff_eq, Bool.false_eq_true, false_or] at this
  obtain ⟨⟨⟨h1, h2⟩, h3⟩, h4⟩ := this
  exact ⟨h1, h2, h3, h4⟩

section wbs
variable (env : Env) (o : Output) (hr : c07Rollup env o = true)
  (hall : ∀ t ∈ memberList env, (o.f t).start.isSome ∧ (o.f t).end_.isSome)
  (hms : ∀ t ∈ memberList env, (env.info t).milestone = true → isLeaf env t = true)
  (hch : ∀ x ∈ memberList env, ∀ c ∈ (env.info x).children, c ∈ memberList env)

include hr hms in
/-- a child starts no earlier and ends no later than its parent -/
theorem wbs_child_le (a c : Uid) (ha : a ∈ memberList env) (hc : c ∈ (env.info a).children) (sa sc ea ec : Time)
    (h1 : (o.f a).start = some sa) (h2 : (o.f c).start = some sc) (h3 : (o.f a).end_ = some ea)
    (h4 : (o.f c).end_ = some ec) : sa ≤ sc ∧ ec ≤ ea := by
  have hl : (env.info a).children.isEmpty = false := by
    cases hch : (env.info a).children with
    | nil => rw [hch] at hc; cases hc
    | cons _ _ => rfl
  have hm : (env.info a).milestone = false := by
    cases hmm : (env.info a).milestone with
    | false => rfl
    | true =>
      have := hms a ha hmm
      simp only [isLeaf] at this
      rw [hl] at this; cases this
  obtain ⟨r1, r2, _, _⟩ := c07Rollup_spec env o hr a ha hl hm
  constructor
  · exact (minOpt_spec _ sa (by rw [← r1, h1])).2 sc (List.mem_filterMap.2 ⟨c, hc, h2⟩)
  · exact (maxOpt_spec _ ea (by rw [← r2, h3])).2 ec (List.mem_filterMap.2 ⟨c, hc, h4⟩)

include hr hall hms hch in
theorem wbs_desc_le (a b : Uid) (h : TC (fun a b => b ∈ (env.info a).children) a b) (ha : a ∈ memberList env) :
    b ∈ memberList env ∧ ∀ sa sb ea eb, (o.f a).start = some sa → (o.f b).start = some sb →
      (o.f a).end_ = some ea → (o.f b).end_ = some eb → sa ≤ sb ∧ eb ≤ ea := by
  induction h with
  | single h =>
    exact ⟨hch a ha _ h, fun sa sb ea eb h1 h2 h3 h4 => wbs_child_le env o hr hms a _ ha h sa sb ea eb h1 h2 h3 h4⟩
  | @tail b c _ hbc ih =>
    obtain ⟨hb, hle⟩ := ih
    refine ⟨hch b hb c hbc, ?_⟩
    intro sa sc ea ec h1 h2 h3 h4
    obtain ⟨s1, s2⟩ := hall b hb
    obtain ⟨sb, hsb⟩ := Option.isSome_iff_exists.1 s1
    obtain ⟨eb, heb⟩ := Option.isSome_iff_exists.1 s2
    have := hle sa sb ea eb h1 hsb h3 heb
    have := wbs_child_le env o hr hms b c hb hbc sb sc eb ec hsb h2 heb h4
    grind

end wbs

/-- `C07_wbs_start_end` under the assumption that the roots belong to the member list (which holds whenever the
    enumeration of the WBS succeeds, in particular for every result of `forwardCalc`/`backwardCalc`) -/
theorem C07_wbs_start_end_v2 (env : Env) (o : Output) (hr : c07Rollup env o = true)
    (hall : ∀ t ∈ memberList env, (o.f t).start.isSome ∧ (o.f t).end_.isSome)
    (hms : ∀ t ∈ memberList env, (env.info t).milestone = true → isLeaf env t = true)
    (hroots : ∀ r ∈ env.roots, r ∈ memberList env) :
    minOpt (env.roots.filterMap (fun r => (o.f r).start)) = minOpt ((memberList env).filterMap (fun t => (o.f t).start)) ∧
    maxOpt (env.roots.filterMap (fun r => (o.f r).end_)) = maxOpt ((memberList env).filterMap (fun t => (o.f t).end_)) := by
  cases hm : members env with
  | none =>
    have hml : memberList env = [] := by unfold memberList; rw [hm]; rfl
    have hr0 : env.roots = [] := by
      cases hrr : env.roots with
      | nil => rfl
      | cons r _ =>
        have := hroots r (by rw [hrr]; exact List.mem_cons_self)
        rw [hml] at this; cases this
    rw [hml, hr0]; exact ⟨rfl, rfl⟩
  | some mem =>
    have hch := members_children env mem hm
    rw [← memberList_eq env mem hm] at hch
    -- every member lies below (or is) a root
    have hroot : ∀ t ∈ memberList env, ∃ r ∈ env.roots, r = t ∨ TC (fun a b => b ∈ (env.info a).children) r t := by
      intro t ht
      rw [memberList_eq env mem hm] at ht
      obtain ⟨r, hr', l, hl, htl⟩ := (members_spec env mem hm).2 t ht
      simp only [subtreeF, Option.map_eq_some_iff] at hl
      obtain ⟨d, hd, rfl⟩ := hl
      rcases List.mem_cons.1 htl with rfl | htd
      · exact ⟨t, hr', Or.inl rfl⟩
      · exact ⟨r, hr', Or.inr (descF_sound _ _ _ _ hd t htd)⟩
    have key : ∀ t ∈ memberList env, ∃ r ∈ env.roots, ∀ sr st er et, (o.f r).start = some sr →
        (o.f t).start = some st → (o.f r).end_ = some er → (o.f t).end_ = some et → sr ≤ st ∧ et ≤ er := by
      intro t ht
      obtain ⟨r, hr', hrt⟩ := hroot t ht
      refine ⟨r, hr', ?_⟩
      rcases hrt with rfl | htc
      · intro sr st er et h1 h2 h3 h4
        rw [h1] at h2; rw [h3] at h4
        cases h2; cases h4
        exact ⟨Rat.le_refl, Rat.le_refl⟩
      · exact (wbs_desc_le env o hr hall hms hch r t htc (hroots r hr')).2
    constructor
    · apply minOpt_eq_of
      · intro x hx
        obtain ⟨r, hr', hx⟩ := List.mem_filterMap.1 hx
        exact List.mem_filterMap.2 ⟨r, hroots r hr', hx⟩
      · intro y hy
        obtain ⟨t, ht, hy⟩ := List.mem_filterMap.1 hy
        obtain ⟨r, hr', hle⟩ := key t ht
        obtain ⟨s1, s2⟩ := hall r (hroots r hr')
        obtain ⟨sr, hsr⟩ := Option.isSome_iff_exists.1 s1
        obtain ⟨er, her⟩ := Option.isSome_iff_exists.1 s2
        obtain ⟨et, het⟩ := Option.isSome_iff_exists.1 (hall t ht).2
        exact ⟨sr, List.mem_filterMap.2 ⟨r, hr', hsr⟩, (hle sr y er et hsr hy her het).1⟩
    · apply maxOpt_eq_of
      · intro x hx
        obtain ⟨r, hr', hx⟩ := List.mem_filterMap.1 hx
        exact List.mem_filterMap.2 ⟨r, hroots r hr', hx⟩
      · intro y hy
        obtain ⟨t, ht, hy⟩ := List.mem_filterMap.1 hy
        obtain ⟨r, hr', hle⟩ := key t ht
        obtain ⟨s1, s2⟩ := hall r (hroots r hr')
        obtain ⟨sr, hsr⟩ := Option.isSome_iff_exists.1 s1
        obtain ⟨er, her⟩ := Option.isSome_iff_exists.1 s2
        obtain ⟨st, hst⟩ := Option.isSome_iff_exists.1 (hall t ht).1
        exact ⟨er, List.mem_filterMap.2 ⟨r, hr', her⟩, (hle sr st er y hsr hst her hy).2⟩

/-- same, with the hypothesis that the enumeration of the WBS succeeds -/
theorem C07_wbs_start_end_of_members (env : Env) (o : Output) (hr : c07Rollup env o = true)
    (hall : ∀ t ∈ memberList env, (o.f t).start.isSome ∧ (o.f t).end_.isSome)
    (hms : ∀ t ∈ memberList env, (env.info t).milestone = true → isLeaf env t = true)
    (hmem : (members env).isSome = true) :
    minOpt (env.roots.filterMap (fun r => (o.f r).start)) = minOpt ((memberList env).filterMap (fun t => (o.f t).start)) ∧
    maxOpt (env.roots.filterMap (fun r => (o.f r).end_)) = maxOpt ((memberList env).filterMap (fun t => (o.f t).end_)) := by
  obtain ⟨mem, hm⟩ := Option.isSome_iff_exists.1 hmem
  exact C07_wbs_start_end_v2 env o hr hall hms
    (fun r hr' => by rw [memberList_eq env mem hm]; exact members_root env mem hm r hr')

/-- `C07_wbs_start_end` as stated (without a hypothesis that makes the roots members) fails when the enumeration of
    the WBS runs out of fuel (`members env = none`, e.g. a task that is its own child): the member list is then empty,
    so all hypotheses hold vacuously, while the roots still carry dates -/
example : ∃ (env : Env) (o : Output), c07Rollup env o = true ∧
    (∀ t ∈ memberList env, (o.f t).start.isSome ∧ (o.f t).end_.isSome) ∧
    (∀ t ∈ memberList env, (env.info t).milestone = true → isLeaf env t = true) ∧
    minOpt (env.roots.filterMap (fun r => (o.f r).start)) ≠
      minOpt ((memberList env).filterMap (fun t => (o.f t).start)) := by
  refine ⟨{ n := 0, info := fun _ => { (default : TaskInfo) with children := [0] }, roots := [0],
            balance := false, defaultEst := 1, clock := fun _ => 0, bound := 0 },
          { f := fun _ => ⟨some 0, some 0, none, none⟩, rows := [], res := [] }, ?_, ?_, ?_, ?_⟩
  all_goals simp [c07Rollup, memberList, members, subtreeF, descF, minOpt]

/-- for the result of a forward calculation the premises of `C07_wbs_start_end` about the output hold by themselves -/
theorem forwardCalc_wbs_start_end (env : Env) (f0 : Uid → Fields) (res0 : List (Option Nat × Cal)) (o : Output)
    (hf : env.flagsOK) (h : forwardCalc env f0 res0 = .ok o)
    (hms : ∀ t ∈ memberList env, (env.info t).milestone = true → isLeaf env t = true) :
    minOpt (env.roots.filterMap (fun r => (o.f r).start)) = minOpt ((memberList env).filterMap (fun t => (o.f t).start)) ∧
    maxOpt (env.roots.filterMap (fun r => (o.f r).end_)) = maxOpt ((memberList env).filterMap (fun t => (o.f t).end_)) := by
  obtain ⟨mem, σ, hm, ho, hI, hdone⟩ := fwdRun_inv env f0 res0 o False hf False.elim (forwardCalc_run env f0 res0 o h)
  refine C07_wbs_start_end_of_members env o (c07_of_inv env _ False σ mem hm hI hdone o ho).1 ?_ hms (by rw [hm]; rfl)
  intro t ht
  rw [memberList_eq env mem hm] at ht
  subst ho
  exact ⟨(hI.all t (hdone t ht)).1, (hI.all t (hdone t ht)).2.1⟩

theorem backwardCalc_wbs_start_end (env : Env) (f0 : Uid → Fields) (res0 : List (Option Nat × Cal)) (o : Output)
    (hf : env.flagsOK) (h : backwardCalc env f0 res0 = .ok o)
    (hms : ∀ t ∈ memberList env, (env.info t).milestone = true → isLeaf env t = true) :
    minOpt (env.roots.filterMap (fun r => (o.f r).start)) = minOpt ((memberList env).filterMap (fun t => (o.f t).start)) ∧
    maxOpt (env.roots.filterMap (fun r => (o.f r).end_)) = maxOpt ((memberList env).filterMap (fun t => (o.f t).end_)) := by
  obtain ⟨mem, σ, hm, ho, hI, hdone⟩ := bwdRun_inv env f0 res0 o hf (backwardCalc_run env f0 res0 o h)
  refine C07_wbs_start_end_of_members env o (c07_of_inv env _ True σ mem hm hI hdone o ho).1 ?_ hms (by rw [hm]; rfl)
  intro t ht
  rw [memberList_eq env mem hm] at ht
  subst ho
  exact ⟨(hI.all t (hdone t ht)).1, (hI.all t (hdone t ht)).2.1⟩

end Pj
