/-
  Lemmas/CsvSrcW5.lean — CSV I/O, the WRITE side, part 5: one task row, the rows loop.
-/
import PjVerif.Lemmas.CsvSrcW4
namespace Pj.CsvSrc
open Pj.PyLite Pj.Extracted.Csv Pj.Csv

def rowE : Expr :=
  .bin .add (.listCons (.attr (.var "task") "id") (.listCons (nameCellE "name") (.listCons (nameCellE "resource") (.listCons (timeCellE "start") (.listCons (timeCellE "end") (.listCons (.attr (.var "task") "estimate") (.listCons (.attr (.var "task") "spent") (.listCons (.attr (.var "task") "milestone") (.listCons (.attr (.var "task") "parent_id") (.listCons predsE .listNil)))))))))) customE

theorem src_write_csv_shape : src_write_csv =
    [.assign "raws" (.callFn fn_tasks_to_raws (.listCons (.prim "tasks" (.listCons (.var "wbs") .listNil)) .listNil)),
     .assign "output_file" (.newBox .listNil),
     .assign "csvwriter" (.listCons (.var "output_file") (.listCons (.var "delimiter") .listNil)),
     .assign "fields" .dictNil,
     .forIn "t" (.var "raws") fieldsOuter,
     .assign "field_list" (.listComp (.prim "str" (.listCons (.var "k") .listNil)) "k" (.var "fields") (.bool true)),
     writeStmt (.bin .add tenLits (.var "field_list")),
     .forIn "task" (.var "raws") [writeStmt rowE]] := rfl

def rowAtoms (L : IOLib) (W : WbsD) (d : TaskD) (cols : List Str) : List Atom :=
  [.num (d.id : Rat), strA (orEmpty d.name), strA (orEmpty d.resource), timeA L d.start, timeA L d.end_,
   optNum d.estimate, optNum d.spent, .bool d.milestone, parentIdA W d,
   strA (joinWith ';' (d.preds.map (idStr L W)))] ++
  cols.map (fun col => customAtom L (rawEnv W d) (String.ofList col))

theorem eval_rowE (L : IOLib) (F : Nat) (W : WbsD) (hWF : WF W) (env : PyLite.Env) (st : PState) (r : Nat) (d : TaskD)
    (cols : List Str) (hdm : d ∈ W.tasks) (hr : st.heap r = rawEnv W d)
    (ht : env.get? "task" = some (.atom (.ref r))) (hfl : env.get? "field_list" = some (.list (cols.map strA)))
    (hcols : ∀ col ∈ cols, defaultFields.contains col = false) :
    rowE.evalP (HH L (F + 1)) [] env st = .ok (.list (rowAtoms L W d cols), st) := by
  have hc := hWF.custom d hdm
  have hat : ∀ f v, (rawEnv W d).get? f = some v →
      (Expr.attr (.var "task") f).evalP (HH L (F + 1)) [] env st = .ok (v, st) :=
    fun f v h => eval_attr (eval_var ht) (by rw [hr]; exact h)
  have hcust := eval_customE L F env st r cols ht hfl
    (by rw [hr]; exact (rawEnv_isTask W d).2 (fun p hp => (notReserved (hc.fresh p hp).1).2.2.1))
    (fun col hcol => by rw [hr]; exact rawEnv_custom_ok W d hc col (hcols col hcol))
  rw [hr] at hcust
  exact eval_bin (op := .add)
    (eval_cons (hat _ _ (rawEnv_id W d))
      (eval_cons (eval_nameCell L (F + 1) env st r "name" d.name ht (by rw [hr]; exact rawEnv_name W d))
      (eval_cons (eval_nameCell L (F + 1) env st r "resource" d.resource ht (by rw [hr]; exact rawEnv_resource W d))
      (eval_cons (eval_timeCell L (F + 1) env st r "start" d.start ht (by rw [hr]; exact rawEnv_start W d))
      (eval_cons (eval_timeCell L (F + 1) env st r "end" d.end_ ht (by rw [hr]; exact rawEnv_end W d))
      (eval_cons (hat _ _ (rawEnv_estimate W d)) (eval_cons (hat _ _ (rawEnv_spent W d))
      (eval_cons (hat _ _ (rawEnv_milestone W d)) (eval_cons (hat _ _ (rawEnv_parent_id W d))
      (eval_cons (eval_preds L (F + 1) W env st r d.preds (hWF.preds d hdm) ht
        (by rw [hr]; exact rawEnv_predecessor_ids W d)) eval_nil)))))))))) hcust rfl

theorem mapM_append_ok {α β} (f : α → Res β) : ∀ (l1 l2 : List α) (r1 r2 : List β), l1.mapM f = .ok r1 →
    l2.mapM f = .ok r2 → (l1 ++ l2).mapM f = .ok (r1 ++ r2)
  | [], l2, r1, r2, h1, h2 => by
    have : r1 = [] := by simpa [pure, Except.pure] using h1.symm
    subst this; exact h2
  | a :: l1, l2, r1, r2, h1, h2 => by
    rw [mapM_cons_res] at h1
    rw [List.cons_append, mapM_cons_res]
    cases ha : f a with
    | error e => rw [ha] at h1; cases h1
    | ok b =>
      rw [ha] at h1
      cases hl : l1.mapM f with
      | error e => rw [hl] at h1; cases h1
      | ok bs =>
        rw [hl] at h1
        simp only [Except.ok.injEq] at h1
        subst h1
        rw [mapM_append_ok f l1 l2 bs r2 hl h2]; rfl

theorem mapM_map_ok {α β γ} (f : β → Res γ) (g : α → β) (h : α → γ) : ∀ (l : List α), (∀ a ∈ l, f (g a) = .ok (h a)) →
    (l.map g).mapM f = .ok (l.map h)
  | [], _ => rfl
  | a :: l, hl => by
    rw [List.map_cons, mapM_cons_res, hl a (List.mem_cons_self ..),
      mapM_map_ok f g h l (fun x hx => hl x (List.mem_cons_of_mem _ hx))]; rfl

theorem row_atoms_cell (L : IOLib) (W : WbsD) (d : TaskD) (cols : List Str) (hc : CustomOK d.custom)
    (hcols : ∀ col ∈ cols, defaultFields.contains col = false) :
    (rowAtoms L W d cols).mapM L.cell = .ok (rowCells cols (recOf L W d)) := by
  unfold rowAtoms rowCells
  apply mapM_append_ok
  · simp only [mapM_cons_res, cell_strA, cell_timeA, cell_optNum, cell_parentId, List.mapM_nil, recOf]
    rfl
  · exact mapM_map_ok _ _ _ cols (fun col hcol => cell_custom L W d hc col (hcols col hcol))

end Pj.CsvSrc
