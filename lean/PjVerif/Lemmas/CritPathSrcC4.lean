/-
  Lemmas/CritPathSrcC4.lean — stage 3 of the translated tie for alg/critical_path.py: `calc` on the network of `__init__`
  (`Built`, Lemmas/CritPathSrcC2.lean): the begin and the end node are wired in (`Wired`, CritPathSrcC3.lean), the two
  passes compute the model's earliest / latest finish, the tolerance test selects the model's critical tasks.
  See Lemmas/CritPathSrc.lean.
-/
import PjVerif.Lemmas.CritPathSrcC3
namespace Pj.CritPathSrc
open Pj.PyLite Pj.CPEnv
set_option linter.unusedSimpArgs false
set_option linter.unusedVariables false

section prelude
variable (B : Nat)

/-- the address holds a node -/
def IsNode (σ : Store) (a : Nat) : Prop := ∃ fw bw su eu, getO B σ a = some (.node fw bw su eu)

theorem isNode_of_inArcs {σ : Store} {a : Nat} {L : List (Nat × Rat)} (h : inArcs B σ a = some L) : IsNode B σ a := by
  obtain ⟨fw, bw, su, eu, hg, _⟩ := inArcs_some B h
  exact ⟨fw, bw, su, eu, hg⟩

theorem IsNode.lt {σ : Store} {a : Nat} (h : IsNode B σ a) : a < B + σ.length := by
  obtain ⟨_, _, _, _, hg⟩ := h
  have := getO_some_lt B hg
  omega

/-! #### a bare `_PNode()` -/

theorem append_stable (σ : Store) (o : Obj) : LinkStable B σ (σ ++ [o]) :=
  fun l s e u hl => getO_append_old B _ hl

theorem append_inArcs (σ : Store) (o : Obj) {b : Nat} {L : List (Nat × Rat)} (h : inArcs B σ b = some L) :
    inArcs B (σ ++ [o]) b = some L := by
  obtain ⟨fw, bw, su, eu, hg, _⟩ := inArcs_some B h
  exact inArcs_stable B (append_stable B σ o) (by rw [getO_append_old B _ hg, hg]) h

theorem append_outArcs (σ : Store) (o : Obj) {b : Nat} {L : List (Nat × Rat)} (h : outArcs B σ b = some L) :
    outArcs B (σ ++ [o]) b = some L := by
  obtain ⟨fw, bw, su, eu, hg, _⟩ := outArcs_some B h
  exact outArcs_stable B (append_stable B σ o) (by rw [getO_append_old B _ hg, hg]) h

theorem append_new_inArcs (σ : Store) : inArcs B (σ ++ [Obj.node [] [] none none]) (B + σ.length) = some [] := by
  simp only [inArcs, getO_append_new]; rfl

theorem append_new_outArcs (σ : Store) : outArcs B (σ ++ [Obj.node [] [] none none]) (B + σ.length) = some [] := by
  simp only [outArcs, getO_append_new]; rfl

theorem append_suOf (σ : Store) (b : Nat) : suOf B (σ ++ [Obj.node [] [] none none]) b = suOf B σ b := by
  by_cases hb : b < B + σ.length
  · simp only [suOf, getO_append_lt B σ _ hb]
  · by_cases hb' : b = B + σ.length
    · subst hb'
      simp only [suOf, getO_append_new, getO_ge_none B (Nat.le_refl _)]
    · have h1 : getO B σ b = none := getO_ge_none B (by omega)
      have h2 : getO B (σ ++ [Obj.node [] [] none none]) b = none := getO_ge_none B (by simp; omega)
      simp only [suOf, h1, h2]

theorem append_euOf (σ : Store) (b : Nat) : euOf B (σ ++ [Obj.node [] [] none none]) b = euOf B σ b := by
  by_cases hb : b < B + σ.length
  · simp only [euOf, getO_append_lt B σ _ hb]
  · by_cases hb' : b = B + σ.length
    · subst hb'
      simp only [euOf, getO_append_new, getO_ge_none B (Nat.le_refl _)]
    · have h1 : getO B σ b = none := getO_ge_none B (by omega)
      have h2 : getO B (σ ++ [Obj.node [] [] none none]) b = none := getO_ge_none B (by simp; omega)
      simp only [euOf, h1, h2]

/-! #### the loops that connect the begin / the end node -/

/-- `for n in ns: self.__connect(bg, n, 0)` -/
theorem connect_from (bg : Nat) : ∀ (ns : List Nat) (σ : Store), ns.Nodup → IsNode B σ bg →
    (∀ n ∈ ns, IsNode B σ n ∧ n ≠ bg) →
    ∃ σ', ns.foldlM (fun σ n => (connectA B σ bg n 0).map (·.2)) σ = some σ' ∧
      (∀ b L, inArcs B σ b = some L → inArcs B σ' b = some (if b ∈ ns then L ++ [(bg, (0 : Rat))] else L)) ∧
      (∀ b L, outArcs B σ b = some L →
        outArcs B σ' b = some (if b = bg then L ++ ns.map (fun n => (n, (0 : Rat))) else L)) ∧
      (∀ b, suOf B σ' b = suOf B σ b) ∧ (∀ b, euOf B σ' b = euOf B σ b) ∧
      (∀ b o, getO B σ b = some o → (∀ fw bw su eu, o ≠ .node fw bw su eu) → getO B σ' b = some o) ∧
      (∀ b, IsNode B σ b → IsNode B σ' b) := by
  intro ns
  induction ns with
  | nil =>
    intro σ _ _ _
    exact ⟨σ, rfl, fun b L h => by simpa using h, fun b L h => by simpa using h, fun _ => rfl, fun _ => rfl,
      fun b o h _ => h, fun b h => h⟩
  | cons n ns ih =>
    intro σ hnd hbg hns
    obtain ⟨hn_notin, hnd'⟩ := List.nodup_cons.mp hnd
    obtain ⟨⟨fn, bn, sn, en', hgn⟩, hnb⟩ := hns n List.mem_cons_self
    obtain ⟨fb, bb, sb, eb, hgb⟩ := hbg
    obtain ⟨σ1, hrun, hc⟩ := connectA_spec B 0 hgb hgn (Ne.symm hnb)
    have hnode1 : ∀ b, IsNode B σ b → IsNode B σ1 b := by
      rintro b ⟨fw, bw, su, eu, hg⟩
      obtain ⟨fw', bw', hg'⟩ := hc.node B hg
      exact ⟨fw', bw', su, eu, hg'⟩
    obtain ⟨σ', hfold, hin, hout, hsu, heu, hoth, hnode⟩ := ih σ1 hnd' (hnode1 bg ⟨fb, bb, sb, eb, hgb⟩)
      (fun m hm => ⟨hnode1 m (hns m (List.mem_cons_of_mem _ hm)).1, (hns m (List.mem_cons_of_mem _ hm)).2⟩)
    refine ⟨σ', ?_, ?_, ?_, ?_, ?_, ?_, fun b hb => hnode b (hnode1 b hb)⟩
    · simp only [List.foldlM_cons, hrun, Option.map_some, bind, Option.bind]
      exact hfold
    · intro b L hL
      rw [hin b _ (hc.inArcs B hL)]
      by_cases hbn : b = n
      · subst hbn
        simp [hn_notin]
      · by_cases hbs : b ∈ ns
        · simp [hbn, hbs]
        · simp [hbn, hbs]
    · intro b L hL
      rw [hout b _ (hc.outArcs B hL)]
      by_cases hbb : b = bg
      · simp [hbb, List.append_assoc]
      · simp [hbb]
    · intro b; rw [hsu b, hc.suOf B b]
    · intro b; rw [heu b, hc.euOf B b]
    · intro b o hb hno
      exact hoth b o (hc.other B hb hno) hno

/-- `for n in ns: self.__connect(n, en, 0)` -/
theorem connect_to (en : Nat) : ∀ (ns : List Nat) (σ : Store), ns.Nodup → IsNode B σ en →
    (∀ n ∈ ns, IsNode B σ n ∧ n ≠ en) →
    ∃ σ', ns.foldlM (fun σ n => (connectA B σ n en 0).map (·.2)) σ = some σ' ∧
      (∀ b L, inArcs B σ b = some L →
        inArcs B σ' b = some (if b = en then L ++ ns.map (fun n => (n, (0 : Rat))) else L)) ∧
      (∀ b L, outArcs B σ b = some L → outArcs B σ' b = some (if b ∈ ns then L ++ [(en, (0 : Rat))] else L)) ∧
      (∀ b, suOf B σ' b = suOf B σ b) ∧ (∀ b, euOf B σ' b = euOf B σ b) ∧
      (∀ b o, getO B σ b = some o → (∀ fw bw su eu, o ≠ .node fw bw su eu) → getO B σ' b = some o) ∧
      (∀ b, IsNode B σ b → IsNode B σ' b) := by
  intro ns
  induction ns with
  | nil =>
    intro σ _ _ _
    exact ⟨σ, rfl, fun b L h => by simpa using h, fun b L h => by simpa using h, fun _ => rfl, fun _ => rfl,
      fun b o h _ => h, fun b h => h⟩
  | cons n ns ih =>
    intro σ hnd hen hns
    obtain ⟨hn_notin, hnd'⟩ := List.nodup_cons.mp hnd
    obtain ⟨⟨fn, bn, sn, en', hgn⟩, hnb⟩ := hns n List.mem_cons_self
    obtain ⟨fb, bb, sb, eb, hgb⟩ := hen
    obtain ⟨σ1, hrun, hc⟩ := connectA_spec B 0 hgn hgb hnb
    have hnode1 : ∀ b, IsNode B σ b → IsNode B σ1 b := by
      rintro b ⟨fw, bw, su, eu, hg⟩
      obtain ⟨fw', bw', hg'⟩ := hc.node B hg
      exact ⟨fw', bw', su, eu, hg'⟩
    obtain ⟨σ', hfold, hin, hout, hsu, heu, hoth, hnode⟩ := ih σ1 hnd' (hnode1 en ⟨fb, bb, sb, eb, hgb⟩)
      (fun m hm => ⟨hnode1 m (hns m (List.mem_cons_of_mem _ hm)).1, (hns m (List.mem_cons_of_mem _ hm)).2⟩)
    refine ⟨σ', ?_, ?_, ?_, ?_, ?_, ?_, fun b hb => hnode b (hnode1 b hb)⟩
    · simp only [List.foldlM_cons, hrun, Option.map_some, bind, Option.bind]
      exact hfold
    · intro b L hL
      rw [hin b _ (hc.inArcs B hL)]
      by_cases hbb : b = en
      · simp [hbb, List.append_assoc]
      · simp [hbb]
    · intro b L hL
      rw [hout b _ (hc.outArcs B hL)]
      by_cases hbn : b = n
      · subst hbn
        simp [hn_notin]
      · by_cases hbs : b ∈ ns
        · simp [hbn, hbs]
        · simp [hbn, hbs]
    · intro b; rw [hsu b, hc.suOf B b]
    · intro b; rw [heu b, hc.euOf B b]
    · intro b o hb hno
      exact hoth b o (hc.other B hb hno) hno

/-! #### the two comprehensions -/

theorem filterO_eq (c : Nat → Option Bool) (l : List Nat) (h : ∀ n ∈ l, ∃ b, c n = some b) :
    filterO c l = some (l.filter (fun n => c n == some true)) := by
  induction l with
  | nil => rfl
  | cons n l ih =>
    obtain ⟨b, hb⟩ := h n List.mem_cons_self
    simp only [filterO, hb, ih (fun m hm => h m (List.mem_cons_of_mem _ hm)), Option.map_some, List.filter_cons]
    cases b <;> simp

theorem noBw_of_inArcs {σ : Store} {a : Nat} {L : List (Nat × Rat)} (h : inArcs B σ a = some L) :
    noBw B σ a = some (decide (L.length = 0)) := by
  obtain ⟨fw, bw, su, eu, hg, hm⟩ := inArcs_some B h
  simp only [noBw, hg, mapM_length _ _ _ hm]

theorem noFw_of_outArcs {σ : Store} {a : Nat} {L : List (Nat × Rat)} (h : outArcs B σ a = some L) :
    noFw B σ a = some (decide (L.length = 0)) := by
  obtain ⟨fw, bw, su, eu, hg, hm⟩ := outArcs_some B h
  simp only [noFw, hg, mapM_length _ _ _ hm]

end prelude

/-! ### the arrows of the finished network -/

section arrows
variable (e : CPEnv)

theorem arrowsOf_cons (s : Uid) (done : List Uid) :
    arrowsOf e (s :: done) = (prereqs e s).map (fun p => (p, s)) ++ arrowsOf e done := by
  simp [arrowsOf]

theorem filter_snd_map (l : List Uid) (s t : Uid) :
    (l.map (fun p => (p, s))).filter (fun a => decide (a.2 = t)) = if s = t then l.map (fun p => (p, s)) else [] := by
  by_cases h : s = t
  · subst h
    simp
  · simp [h]

theorem arrowsOf_filter_snd_notin (done : List Uid) (t : Uid) (ht : t ∉ done) :
    (arrowsOf e done).filter (fun a => decide (a.2 = t)) = [] := by
  induction done with
  | nil => rfl
  | cons s done ih =>
    rw [arrowsOf_cons, List.filter_append, filter_snd_map, ih (fun h => ht (List.mem_cons_of_mem _ h))]
    have : s ≠ t := fun h => ht (h ▸ List.mem_cons_self)
    simp [this]

theorem arrowsOf_filter_snd (done : List Uid) (hnd : done.Nodup) (t : Uid) (ht : t ∈ done) :
    (arrowsOf e done).filter (fun a => decide (a.2 = t)) = (prereqs e t).map (fun p => (p, t)) := by
  induction done with
  | nil => cases ht
  | cons s done ih =>
    obtain ⟨hs, hnd'⟩ := List.nodup_cons.mp hnd
    rw [arrowsOf_cons, List.filter_append, filter_snd_map]
    by_cases hst : s = t
    · subst hst
      rw [arrowsOf_filter_snd_notin e done s hs]
      simp
    · rcases List.mem_cons.mp ht with h | h
      · exact absurd h.symm hst
      · simp [hst, ih hnd' h]

theorem filter_fst_map (l : List Uid) (hl : l.Nodup) (s t : Uid) :
    (l.map (fun p => (p, s))).filter (fun a => decide (a.1 = t)) = if l.contains t then [(t, s)] else [] := by
  induction l with
  | nil => rfl
  | cons x l ih =>
    obtain ⟨hx, hl'⟩ := List.nodup_cons.mp hl
    simp only [List.map_cons, List.filter_cons, List.contains_cons]
    by_cases hxt : x = t
    · subst hxt
      have : l.contains x = false := by simpa using hx
      rw [ih hl', this]
      simp
    · have h1 : (t == x) = false := by simpa using fun h => hxt h.symm
      simp only [hxt, decide_false, Bool.false_eq_true, if_false, h1, Bool.false_or]
      exact ih hl'

theorem arrowsOf_filter_fst (done : List Uid) (t : Uid) :
    (arrowsOf e done).filter (fun a => decide (a.1 = t)) = (succsIn e done t).map (fun s => (t, s)) := by
  induction done with
  | nil => rfl
  | cons s done ih =>
    rw [arrowsOf_cons, List.filter_append, filter_fst_map _ (by rw [prereqs_eq]; exact nodup_eraseDups _), ih]
    unfold succsIn
    simp only [List.filter_cons]
    by_cases h : t ∈ prereqs e s
    · simp [h]
    · simp [h]

theorem nodes_nodup {done : List Uid} {S E : Uid → Nat} (hnd : done.Nodup)
    (hinj : ∀ t ∈ done, ∀ t' ∈ done, (S t = S t' → t = t') ∧ (E t = E t' → t = t') ∧ S t ≠ E t') :
    (done.flatMap (fun t => [S t, E t])).Nodup := by
  induction done with
  | nil => simp
  | cons t done ih =>
    obtain ⟨ht, hnd'⟩ := List.nodup_cons.mp hnd
    simp only [List.flatMap_cons, List.cons_append, List.nil_append]
    have hrest := ih hnd' (fun a ha b hb => hinj a (List.mem_cons_of_mem _ ha) b (List.mem_cons_of_mem _ hb))
    have hmem : ∀ n, n ∈ done.flatMap (fun t => [S t, E t]) → ∃ x ∈ done, n = S x ∨ n = E x := by
      intro n hn
      obtain ⟨x, hx, hnx⟩ := List.mem_flatMap.mp hn
      simp only [List.mem_cons, List.not_mem_nil, or_false] at hnx
      exact ⟨x, hx, hnx⟩
    refine List.nodup_cons.mpr ⟨?_, List.nodup_cons.mpr ⟨?_, hrest⟩⟩
    · intro h
      rcases List.mem_cons.mp h with h | h
      · exact (hinj t List.mem_cons_self t List.mem_cons_self).2.2 h
      · obtain ⟨x, hx, hn⟩ := hmem _ h
        rcases hn with hn | hn
        · have := (hinj t List.mem_cons_self x (List.mem_cons_of_mem _ hx)).1 hn
          exact ht (this ▸ hx)
        · exact (hinj t List.mem_cons_self x (List.mem_cons_of_mem _ hx)).2.2 hn
    · intro h
      obtain ⟨x, hx, hn⟩ := hmem _ h
      rcases hn with hn | hn
      · exact (hinj x (List.mem_cons_of_mem _ hx) t List.mem_cons_self).2.2 hn.symm
      · have := (hinj t List.mem_cons_self x (List.mem_cons_of_mem _ hx)).2.1 hn
        exact ht (this ▸ hx)

end arrows

/-! ### the first half of `calc`: the begin and the end node -/

section wire
variable (e : CPEnv) (tid : Uid → Int) (B : Nat)

/-- the arcs of the network of `__init__`, by prerequisites and successors -/
theorem Built.views {σ : Store} {done : List Uid} {S E L : Uid → Nat} (hb : Built e tid B σ done [] S E L) :
    (∀ t ∈ done, inArcs B σ (S t) = some ((prereqs e t).map (fun p => (E p, (0 : Rat))))) ∧
    (∀ t ∈ done, outArcs B σ (E t) = some ((succsIn e done t).map (fun s => (S s, (0 : Rat))))) := by
  constructor
  · intro t ht
    rw [hb.net.inS t ht, arrowsOf_filter_snd e done hb.nodup t ht, List.map_map]
    rfl
  · intro t ht
    rw [hb.net.outE t ht, arrowsOf_filter_fst e done t, List.map_map]
    rfl

theorem calc_prelude {σ : Store} {done : List Uid} {S E L : Uid → Nat} (hb : Built e tid B σ done [] S E L) :
    ∃ startNodes endNodes σ1 σ2 σ3,
      filterO (noBw B σ) (done.flatMap (fun t => [S t, E t])) = some startNodes ∧
      filterO (noFw B σ) (done.flatMap (fun t => [S t, E t])) = some endNodes ∧
      setSU B (newPNode B σ).2 (newPNode B σ).1 (some 0) = some σ1 ∧
      startNodes.foldlM (fun σ' n => (connectA B σ' (newPNode B σ).1 n 0).map (·.2)) σ1 = some σ2 ∧
      endNodes.foldlM (fun σ' n => (connectA B σ' n (newPNode B σ2).1 0).map (·.2)) (newPNode B σ2).2 = some σ3 ∧
      Wired e B σ3 done S E (B + σ.length) (B + σ2.length) endNodes ∧
      suOf B σ3 (B + σ.length) = some 0 ∧ (∀ a, a ≠ B + σ.length → suOf B σ3 a = none) ∧ (∀ a, euOf B σ3 a = none) ∧
      getO B σ3 B = getO B σ B ∧ (∀ t ∈ done, getO B σ3 (L t) = some (.link (S t) (E t) (e.dur t))) ∧
      IsNode B σ3 (B + σ2.length) := by
  obtain ⟨hinS, houtE⟩ := hb.views e tid B
  have hnet := hb.net
  obtain ⟨tasks, hcalc, _, _⟩ := hb.hcalc
  let nodes := done.flatMap (fun t => [S t, E t])
  have hnodes : ∀ n, n ∈ nodes ↔ ∃ t ∈ done, n = S t ∨ n = E t := by
    intro n
    simp only [nodes, List.mem_flatMap, List.mem_cons, List.not_mem_nil, or_false]
  have hnd : nodes.Nodup := nodes_nodup hb.nodup hnet.inj
  -- the comprehensions
  have hbwS : ∀ t ∈ done, noBw B σ (S t) = some (decide ((prereqs e t).length = 0)) := by
    intro t ht; rw [noBw_of_inArcs B (hinS t ht)]; simp
  have hbwE : ∀ t ∈ done, noBw B σ (E t) = some false := by
    intro t ht; rw [noBw_of_inArcs B (hnet.inE t ht)]; simp
  have hfwS : ∀ t ∈ done, noFw B σ (S t) = some false := by
    intro t ht; rw [noFw_of_outArcs B (hnet.outS t ht)]; simp
  have hfwE : ∀ t ∈ done, noFw B σ (E t) = some (decide ((succsIn e done t).length = 0)) := by
    intro t ht; rw [noFw_of_outArcs B (houtE t ht)]; simp
  have hstart := filterO_eq (noBw B σ) nodes (by
    intro n hn
    obtain ⟨t, ht, h | h⟩ := (hnodes n).mp hn
    · exact ⟨_, h ▸ hbwS t ht⟩
    · exact ⟨_, h ▸ hbwE t ht⟩)
  have hend := filterO_eq (noFw B σ) nodes (by
    intro n hn
    obtain ⟨t, ht, h | h⟩ := (hnodes n).mp hn
    · exact ⟨_, h ▸ hfwS t ht⟩
    · exact ⟨_, h ▸ hfwE t ht⟩)
  let startNodes := nodes.filter (fun n => noBw B σ n == some true)
  let endNodes := nodes.filter (fun n => noFw B σ n == some true)
  have hSstart : ∀ t ∈ done, (S t ∈ startNodes ↔ prereqs e t = []) := by
    intro t ht
    simp only [startNodes, List.mem_filter, hbwS t ht, beq_iff_eq, Option.some.injEq, decide_eq_true_eq]
    constructor
    · rintro ⟨_, h⟩; exact List.length_eq_zero_iff.mp h
    · intro h; exact ⟨(hnodes _).mpr ⟨t, ht, Or.inl rfl⟩, by rw [h]; rfl⟩
  have hEstart : ∀ t ∈ done, E t ∉ startNodes := by
    intro t ht h
    simp only [startNodes, List.mem_filter, hbwE t ht, beq_iff_eq, Option.some.injEq] at h
    exact absurd h.2 (by simp)
  have hSend : ∀ t ∈ done, S t ∉ endNodes := by
    intro t ht h
    simp only [endNodes, List.mem_filter, hfwS t ht, beq_iff_eq, Option.some.injEq] at h
    exact absurd h.2 (by simp)
  have hEend : ∀ t ∈ done, (E t ∈ endNodes ↔ succsIn e done t = []) := by
    intro t ht
    simp only [endNodes, List.mem_filter, hfwE t ht, beq_iff_eq, Option.some.injEq, decide_eq_true_eq]
    constructor
    · rintro ⟨_, h⟩; exact List.length_eq_zero_iff.mp h
    · intro h; exact ⟨(hnodes _).mpr ⟨t, ht, Or.inr rfl⟩, by rw [h]; rfl⟩
  have hnodeOld : ∀ n ∈ nodes, IsNode B σ n := by
    intro n hn
    obtain ⟨t, ht, h | h⟩ := (hnodes n).mp hn
    · exact h ▸ isNode_of_inArcs B (hinS t ht)
    · exact h ▸ isNode_of_inArcs B (hnet.inE t ht)
  -- the begin node
  have hbgnew : getO B (σ ++ [Obj.node [] [] none none]) (B + σ.length) = some (.node [] [] none none) :=
    getO_append_new B σ _
  have hset1 := setSU_isSome B hbgnew (some 0)
  have hsame1 : SameF B (σ ++ [Obj.node [] [] none none])
      (setO B (σ ++ [Obj.node [] [] none none]) (B + σ.length) (.node [] [] (some 0) none)) := SameF.of_setSU B hset1
  let σ1 := setO B (σ ++ [Obj.node [] [] none none]) (B + σ.length) (.node [] [] (some 0) none)
  have hin1 : ∀ b L, inArcs B σ b = some L → inArcs B σ1 b = some L := by
    intro b L h; rw [← hsame1.inArcs_eq B]; exact append_inArcs B σ _ h
  have hout1 : ∀ b L, outArcs B σ b = some L → outArcs B σ1 b = some L := by
    intro b L h; rw [← hsame1.outArcs_eq B]; exact append_outArcs B σ _ h
  have hbg1 : IsNode B σ1 (B + σ.length) := ⟨_, _, _, _, getO_setO_same B _ hbgnew⟩
  have hnode1 : ∀ n, IsNode B σ n → IsNode B σ1 n := by
    rintro n ⟨fw, bw, su, eu, hg⟩
    obtain ⟨su', hg'⟩ := hsame1.node B (getO_append_old B [Obj.node [] [] none none] hg)
    exact ⟨fw, bw, su', eu, hg'⟩
  obtain ⟨σ2, hfold2, hin2, hout2, hsu2, heu2, hoth2, hnode2⟩ := connect_from B (B + σ.length) startNodes σ1
    (List.Nodup.sublist List.filter_sublist hnd) hbg1 (by
      intro n hn
      have hn' := hnodeOld n (List.mem_filter.mp hn).1
      exact ⟨hnode1 n hn', by have := hn'.lt B; omega⟩)
  -- the end node
  have hennew : getO B (σ2 ++ [Obj.node [] [] none none]) (B + σ2.length) = some (.node [] [] none none) :=
    getO_append_new B σ2 _
  have hen2a : IsNode B (σ2 ++ [Obj.node [] [] none none]) (B + σ2.length) := ⟨_, _, _, _, hennew⟩
  have hnode2a : ∀ n, IsNode B σ2 n → IsNode B (σ2 ++ [Obj.node [] [] none none]) n := by
    rintro n ⟨fw, bw, su, eu, hg⟩
    exact ⟨fw, bw, su, eu, getO_append_old B _ hg⟩
  obtain ⟨σ3, hfold3, hin3, hout3, hsu3, heu3, hoth3, hnode3⟩ := connect_to B (B + σ2.length) endNodes
    (σ2 ++ [Obj.node [] [] none none]) (List.Nodup.sublist List.filter_sublist hnd) hen2a (by
      intro n hn
      have hn' := hnode2 n (hnode1 n (hnodeOld n (List.mem_filter.mp hn).1))
      exact ⟨hnode2a n hn', by have := hn'.lt B; omega⟩)
  -- the arcs of an old node after all this
  have hold_lt : ∀ n, IsNode B σ n → n ≠ B + σ.length ∧ n ≠ B + σ2.length := by
    intro n hn
    have h1 := hn.lt B
    have h2 := (hnode2 n (hnode1 n hn)).lt B
    omega
  have hinF : ∀ b L, inArcs B σ b = some L →
      inArcs B σ3 b = some (if b ∈ startNodes then L ++ [(B + σ.length, (0 : Rat))] else L) := by
    intro b L h
    have hb' := hold_lt b (isNode_of_inArcs B h)
    rw [hin3 b _ (append_inArcs B σ2 _ (hin2 b L (hin1 b L h))), if_neg hb'.2]
  have houtF : ∀ b L, outArcs B σ b = some L →
      outArcs B σ3 b = some (if b ∈ endNodes then L ++ [(B + σ2.length, (0 : Rat))] else L) := by
    intro b L h
    obtain ⟨_, _, _, _, hg, _⟩ := outArcs_some B h
    have hb' := hold_lt b ⟨_, _, _, _, hg⟩
    have h2 := hout2 b L (hout1 b L h)
    rw [if_neg hb'.1] at h2
    exact hout3 b _ (append_outArcs B σ2 _ h2)
  have hσ1len : σ1.length = σ.length + 1 := by simp [σ1, length_setO]
  refine ⟨startNodes, endNodes, σ1, σ2, σ3, hstart, hend, hset1, hfold2, hfold3, ⟨?_, ?_, ?_, ?_, ?_, ?_, ?_, ?_⟩,
    ?_, ?_, ?_, ?_, ?_, hnode3 _ hen2a⟩
  · intro t ht
    rw [hinF _ _ (hinS t ht)]
    by_cases h : prereqs e t = []
    · rw [if_pos ((hSstart t ht).mpr h), if_pos h]
    · rw [if_neg (fun hx => h ((hSstart t ht).mp hx)), if_neg h, List.append_nil]
  · intro t ht
    rw [hinF _ _ (hnet.inE t ht), if_neg (hEstart t ht)]
  · intro t ht
    rw [houtF _ _ (hnet.outS t ht), if_neg (hSend t ht)]
  · intro t ht
    rw [houtF _ _ (houtE t ht)]
    by_cases h : succsIn e done t = []
    · rw [if_pos ((hEend t ht).mpr h), if_pos h]
    · rw [if_neg (fun hx => h ((hEend t ht).mp hx)), if_neg h, List.append_nil]
  · -- the begin node has no incoming arc
    have h1 : inArcs B σ1 (B + σ.length) = some [] := by
      rw [← hsame1.inArcs_eq B]; exact append_new_inArcs B σ
    have hnot : B + σ.length ∉ startNodes := by
      intro hx
      have := (hnodeOld _ (List.mem_filter.mp hx).1).lt B
      omega
    have h2 := hin2 _ _ h1
    rw [if_neg hnot] at h2
    have h3 := hin3 _ _ (append_inArcs B σ2 _ h2)
    have hne : B + σ.length ≠ B + σ2.length := by
      have := (hnode2 _ hbg1).lt B
      omega
    rw [if_neg hne] at h3
    exact h3
  · have h3 := hin3 _ _ (append_new_inArcs B σ2)
    rw [if_pos rfl, List.nil_append] at h3
    exact h3
  · have h3 := hout3 _ _ (append_new_outArcs B σ2)
    have hnot : B + σ2.length ∉ endNodes := by
      intro hx
      have := (hnode2 _ (hnode1 _ (hnodeOld _ (List.mem_filter.mp hx).1))).lt B
      omega
    rw [if_neg hnot] at h3
    exact h3
  · intro n
    constructor
    · intro hn
      obtain ⟨t, ht, h | h⟩ := (hnodes n).mp (List.mem_filter.mp hn).1
      · subst h; exact absurd hn (hSend t ht)
      · subst h; exact ⟨t, ht, rfl, (hEend t ht).mp hn⟩
    · rintro ⟨t, ht, rfl, hs⟩
      exact (hEend t ht).mpr hs
  · rw [hsu3, append_suOf, hsu2]
    simp only [suOf, σ1, getO_setO_same B _ hbgnew]
  · intro a ha
    rw [hsu3, append_suOf, hsu2]
    have h1 : suOf B σ1 a = suOf B (σ ++ [Obj.node [] [] none none]) a := by
      have := suOf_setSU B hset1 a
      rw [if_neg ha] at this
      exact this
    rw [h1, append_suOf]
    exact (hnet.fresh a).1
  · intro a
    rw [heu3, append_euOf, heu2, ← hsame1.euOf_eq B, append_euOf]
    exact (hnet.fresh a).2
  · have h0 : getO B (σ ++ [Obj.node [] [] none none]) B = getO B σ B := by
      rw [hcalc]; exact getO_append_old B _ hcalc
    have hneB : B + σ.length ≠ B := by
      have := (getO_some_lt B hcalc).2
      omega
    have h1 : getO B σ1 B = getO B σ B := by
      rw [← h0]
      exact getO_setO_ne B _ (by omega) hneB
    rw [hcalc] at h1 ⊢
    have h2 := hoth2 B _ h1 (by intro _ _ _ _ hx; cases hx)
    exact hoth3 B _ (getO_append_old B _ h2) (by intro _ _ _ _ hx; cases hx)
  · intro t ht
    have h0 := getO_append_old B [Obj.node [] [] none none] (hnet.link t ht)
    have hne : B + σ.length ≠ L t := by
      have := (getO_some_lt B (hnet.link t ht)).2
      omega
    have h1 : getO B σ1 (L t) = some (.link (S t) (E t) (e.dur t)) := by
      rw [← h0]
      exact getO_setO_ne B _ (by omega) hne
    have h2 := hoth2 _ _ h1 (by intro _ _ _ _ hx; cases hx)
    exact hoth3 _ _ (getO_append_old B _ h2) (by intro _ _ _ _ hx; cases hx)

end wire

/-! ### the second half of `calc` -/

section final
variable (e : CPEnv) (tid : Uid → Int) (B : Nat)

theorem suOf_some_node {σ : Store} {a : Nat} {v : Rat} (h : suOf B σ a = some v) :
    ∃ fw bw eu, getO B σ a = some (.node fw bw (some v) eu) := by
  unfold suOf at h
  split at h
  · next fw bw su eu hg => subst h; exact ⟨fw, bw, eu, hg⟩
  · cases h

theorem euOf_some_node {σ : Store} {a : Nat} {v : Rat} (h : euOf B σ a = some v) :
    ∃ fw bw su, getO B σ a = some (.node fw bw su (some v)) := by
  unfold euOf at h
  split at h
  · next fw bw su eu hg => subst h; exact ⟨fw, bw, su, hg⟩
  · cases h

theorem SameF.calcObj {σ0 σ : Store} (h : SameF B σ0 σ) {a : Nat} {n : List Nat} {l t : List (Atom × Atom)} {ed : Atom}
    {m : List Atom} (h0 : getO B σ0 a = some (.calc n l t ed m)) : getO B σ a = some (.calc n l t ed m) := by
  have := h a
  rw [h0] at this
  cases hg : getO B σ a with
  | none => rw [hg] at this; cases this
  | some o =>
    rw [hg] at this
    cases o <;> simp [Obj.eraseSU] at this
    obtain ⟨rfl, rfl, rfl, rfl, rfl⟩ := this; rfl

theorem SameB.calcObj {σ0 σ : Store} (h : SameB B σ0 σ) {a : Nat} {n : List Nat} {l t : List (Atom × Atom)} {ed : Atom}
    {m : List Atom} (h0 : getO B σ0 a = some (.calc n l t ed m)) : getO B σ a = some (.calc n l t ed m) := by
  have := h a
  rw [h0] at this
  cases hg : getO B σ a with
  | none => rw [hg] at this; cases this
  | some o =>
    rw [hg] at this
    cases o <;> simp [Obj.eraseEU] at this
    obtain ⟨rfl, rfl, rfl, rfl, rfl⟩ := this; rfl

/-- the model's test on a leaf: zero float -/
def critOf (len : Rat) (t : Uid) : Bool :=
  match ef e t, lfF e len (e.n + 1) t with
  | some f, some l => decide (l - (f - e.dur t) - e.dur t = 0)
  | _, _ => false

/-- on this WBS the tolerance test of the source and the exact test of the model select the same tasks -/
def TolExact : Prop :=
  ∀ len, projectLen e = some len → ∀ t ∈ leaves e, ∀ f l, ef e t = some f → lfF e len (e.n + 1) t = some l →
    ((if l - (f - e.dur t) - e.dur t < 0 then -(l - (f - e.dur t) - e.dur t) else l - (f - e.dur t) - e.dur t) ≤
        (1 / 1000000000 : Rat) * max 1 len ↔ l - (f - e.dur t) - e.dur t = 0)

/-- the last loop of `calc` -/
theorem res_loop {σ : Store} {done : List Uid} {S E L : Uid → Nat} {en : Nat} {len : Rat}
    {nodes : List Nat} {links tasks : List (Atom × Atom)} {ed : Atom} {mem : List Atom}
    (hc : getO B σ B = some (.calc nodes links tasks ed mem))
    (hlinks : ∀ t ∈ done, Dict.get? links (idA (tid t)) = some (.ref (L t)))
    (htasks : ∀ t ∈ done, Dict.get? tasks (idA (tid t)) = some (.ref t))
    (hlink : ∀ t ∈ done, getO B σ (L t) = some (.link (S t) (E t) (e.dur t)))
    (hen : suOf B σ en = some len)
    (hval : ∀ t ∈ done, ∃ f l, ef e t = some f ∧ lfF e len (e.n + 1) t = some l ∧
      suOf B σ (S t) = some (f - e.dur t) ∧ euOf B σ (E t) = some l)
    (htol : ∀ t ∈ done, ∀ f l, ef e t = some f → lfF e len (e.n + 1) t = some l →
      ((if l - (f - e.dur t) - e.dur t < 0 then -(l - (f - e.dur t) - e.dur t) else l - (f - e.dur t) - e.dur t) ≤
        (1 / 1000000000 : Rat) * max 1 len ↔ l - (f - e.dur t) - e.dur t = 0)) :
    ∀ (ds : List Uid), (∀ t ∈ ds, t ∈ done) → ∀ (res : List Atom),
      (ds.map (fun t => idA (tid t))).foldlM (resStep B en σ) res =
        some (res ++ (ds.filter (critOf e len)).map Atom.ref) := by
  intro ds
  induction ds with
  | nil => intro _ res; simp
  | cons t ds ih =>
    intro hds res
    have ht := hds t List.mem_cons_self
    obtain ⟨f, l, hf, hl, hsu, heu⟩ := hval t ht
    obtain ⟨fwS, bwS, euS, hgS⟩ := suOf_some_node B hsu
    obtain ⟨fwE, bwE, suE, hgE⟩ := euOf_some_node B heu
    obtain ⟨fwN, bwN, euN, hgN⟩ := suOf_some_node B hen
    have hcrit : critOf e len t = decide (l - (f - e.dur t) - e.dur t = 0) := by
      simp only [critOf, hf, hl]
    have hstep : resStep B en σ res (idA (tid t)) =
        some (if critOf e len t = true then res ++ [Atom.ref t] else res) := by
      simp only [resStep, hc, hlinks t ht, hlink t ht, hgE, hgS, hgN, pyMaxR_eq_max, htasks t ht]
      by_cases hz : l - (f - e.dur t) - e.dur t = 0
      · have := (htol t ht f l hf hl).mpr hz
        rw [if_pos this, hcrit]
        simp [hz]
      · have := fun hx => hz ((htol t ht f l hf hl).mp hx)
        rw [if_neg this, hcrit]
        simp [hz]
    simp only [List.map_cons, List.foldlM_cons, hstep, bind, Option.bind]
    rw [ih (fun x hx => hds x (List.mem_cons_of_mem _ hx))]
    by_cases hcr : critOf e len t = true
    · simp [hcr, List.filter_cons]
    · simp [hcr, List.filter_cons]

theorem calc_ok (hid : IdInj e tid) (hac : acyclicB e = true) (htol : TolExact e) {σ : Store} {done : List Uid}
    {S E L : Uid → Nat} (hb : Built e tid B σ done [] S E L) (hdone : ∀ t, t ∈ done ↔ t ∈ leaves e)
    {len : Rat} (hlen : projectLen e = some len) (f : Nat) (hf : 2 * (e.n + 1) + 2 ≤ f) :
    ∃ σ5, calcA B f σ = some ((done.filter (critOf e len)).map Atom.ref, σ5) := by
  obtain ⟨tasks, hcalc, _, htk2⟩ := hb.hcalc
  obtain ⟨startNodes, endNodes, σ1, σ2, σ3, hstart, hend, hset1, hfold2, hfold3, hw, hsubg, hsun, heun, hc3, hlk3, hen3⟩ :=
    calc_prelude e tid B hb
  rw [hcalc] at hc3
  have hpre := hb.preDone
  have hefl : ∀ t ∈ done, ∃ v, efF e (e.n + 1) t = some v := fun t ht => ef_of_acyclic e hac ((hdone t).mp ht)
  have hlfl : ∀ t ∈ done, ∃ v, lfF e len (e.n + 1) t = some v := fun t ht => lfF_total e len hac t ((hdone t).mp ht)
  -- the forward pass
  have hinv3 : FwdInv B σ3 σ3 := ⟨SameF.refl B σ3, by
    intro a v hv
    by_cases ha : a = B + σ.length
    · subst ha
      rw [hsubg] at hv
      cases hv
      exact ⟨1, lp_bg e B hw 0⟩
    · rw [hsun a ha] at hv; cases hv⟩
  have hlpn : ∀ n ∈ done.flatMap (fun t => [S t, E t]) ++ [B + σ2.length], ∃ v, lpF (inArcs B σ3) f n = some v := by
    intro n hn
    rcases List.mem_append.mp hn with hn | hn
    · obtain ⟨t, ht, hnt⟩ := List.mem_flatMap.mp hn
      obtain ⟨v, hv⟩ := hefl t ht
      have := lp_task_le e B hw hpre ht hv (k := f) (by omega)
      simp only [List.mem_cons, List.not_mem_nil, or_false] at hnt
      rcases hnt with h | h
      · exact ⟨_, h ▸ this.1⟩
      · exact ⟨_, h ▸ this.2⟩
    · simp only [List.mem_singleton] at hn
      subst hn
      exact ⟨len, lpF_mono_le _ _ _ hf _ _ (lp_end e B hw hpre hdone hac hlen)⟩
  obtain ⟨σ4, hfold4, hinv4, _, hset4⟩ := fwd_all B σ3 f _ σ3 hinv3 hlpn
  have hc4 : getO B σ4 B = some (.calc (done.flatMap (fun t => [S t, E t]))
      (done.map (fun t => (idA (tid t), Atom.ref (L t)))) tasks .none (memOf e.members)) := hinv4.same.calcObj B hc3
  have hsuS : ∀ t ∈ done, ∀ v, efF e (e.n + 1) t = some v → suOf B σ4 (S t) = some (v - e.dur t) := by
    intro t ht v hv
    exact hinv4.su_eq B (lp_task_le e B hw hpre ht hv (k := f) (by omega)).1
      (hset4 _ (List.mem_append_left _ (List.mem_flatMap.mpr ⟨t, ht, List.mem_cons_self⟩)))
  have hsuEn : suOf B σ4 (B + σ2.length) = some len :=
    hinv4.su_eq B (lpF_mono_le _ _ _ hf _ _ (lp_end e B hw hpre hdone hac hlen))
      (hset4 _ (List.mem_append_right _ List.mem_cons_self))
  -- the backward pass
  have hw4 := hw.of_same e B hinv4.same
  have hinv4b : BwdInv B σ4 σ4 := ⟨SameB.refl B σ4, by
    intro a v hv
    rw [← hinv4.same.euOf_eq B, heun a] at hv; cases hv⟩
  have hltn : ∀ n ∈ done.flatMap (fun t => [S t, E t]), ∃ v, ltF (outArcs B σ4) (suOf B σ4) f n = some v := by
    intro n hn
    obtain ⟨t, ht, hnt⟩ := List.mem_flatMap.mp hn
    obtain ⟨v, hv⟩ := hlfl t ht
    have := lt_task_le e B hw4 hdone (suOf B σ4) hsuEn ht hv (k := f) (by omega)
    simp only [List.mem_cons, List.not_mem_nil, or_false] at hnt
    rcases hnt with h | h
    · exact ⟨_, h ▸ this.2⟩
    · exact ⟨_, h ▸ this.1⟩
  obtain ⟨σ5, hfold5, hinv5, _, hset5⟩ := bwd_all B σ4 f _ σ4 hinv4b hltn
  have hc5 := hinv5.same.calcObj B hc4
  have heuE : ∀ t ∈ done, ∀ v, lfF e len (e.n + 1) t = some v → euOf B σ5 (E t) = some v := by
    intro t ht v hv
    exact hinv5.eu_eq B (lt_task_le e B hw4 hdone (suOf B σ4) hsuEn ht hv (k := f) (by omega)).1
      (hset5 _ (List.mem_flatMap.mpr ⟨t, ht, by simp⟩))
  -- the result
  have hres := res_loop e tid B (σ := σ5) (done := done) (S := S) (E := E) (L := L) (en := B + σ2.length) (len := len) hc5
    (fun t ht => get?_map_idA tid (fun x => Atom.ref (L x)) done t ht
      (fun x hx hxt => hid x (hb.doneLeaf x hx) t (hb.doneLeaf t ht) hxt))
    (fun t ht => htk2 t (Or.inl ht))
    (fun t ht => (hinv5.same.link B).mp ((hinv4.same.link B).mp (hlk3 t ht)))
    (by rw [← hinv5.same.suOf_eq B]; exact hsuEn)
    (by
      intro t ht
      obtain ⟨v, hv⟩ := hefl t ht
      obtain ⟨l, hl⟩ := hlfl t ht
      exact ⟨v, l, hv, hl, by rw [← hinv5.same.suOf_eq B]; exact hsuS t ht v hv, heuE t ht l hl⟩)
    (fun t ht v l hv hl => htol len hlen t ((hdone t).mp ht) v l hv hl)
    done (fun t ht => ht) []
  refine ⟨σ5, ?_⟩
  have hn3 : nodesOf B σ3 = some (done.flatMap (fun t => [S t, E t])) := by simp only [nodesOf, hc3]
  have hn4 : nodesOf B σ4 = some (done.flatMap (fun t => [S t, E t])) := by simp only [nodesOf, hc4]
  have hkeys : (done.map (fun t => (idA (tid t), Atom.ref (L t)))).map (·.1) = done.map (fun t => idA (tid t)) := by
    rw [List.map_map]; rfl
  simp only [calcA, hcalc, hstart, hend, hset1, hfold2, hfold3, hn3]
  rw [show (newPNode B σ2).1 = B + σ2.length from rfl]
  simp only [hfold4, hn4, hfold5, hc5, hkeys, hres, List.nil_append, if_true]

end final

end Pj.CritPathSrc
