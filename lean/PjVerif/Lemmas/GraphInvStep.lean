/-
  Lemmas/GraphInvStep.lean — every operation preserves the full invariant; which errors are possible; which
  operations are atomic.
-/
import PjVerif.Lemmas.GraphInv
namespace Pj

/-- the three list-level operations that apply a setter element by element (known finding G12: not atomic) -/
def Op.elementwise : Op → Bool
  | .listLshift _ _ => true
  | .listRshift _ _ => true
  | .listSetParent _ _ => true
  | _ => false

/-! ### congruence: `OwnerOK` and `UniqueIds` only read parent / owner / tid -/

theorem par_eq_of_parent_eq {s s' : G} (hp : s'.parent = s.parent) : par s' = par s := by
  funext a b; simp only [par, hp]

theorem OwnerOK_of_fields_eq {s s' : G} (hp : s'.parent = s.parent) (ho : s'.owner = s.owner) (ht : s'.tid = s.tid)
    (h : OwnerOK s) : OwnerOK s' := by
  have hh : ∀ u, s'.hidden u = s.hidden u := hidden_of_tid s s' ht
  constructor
  · intro t p; rw [hp, ho]; exact h.inherit t p
  · intro r; rw [hh, ho]; exact h.root r
  · intro t; rw [hp, hh, ho]; exact h.free t
  · intro t w; rw [ho, hh]; exact h.isRoot t w

theorem UniqueIds_of_fields_eq {s s' : G} (hp : s'.parent = s.parent) (ht : s'.tid = s.tid)
    (h : UniqueIds s) : UniqueIds s' := by
  have hh : ∀ u, s'.hidden u = s.hidden u := hidden_of_tid s s' ht
  intro a b hab ha hb hst
  rw [hh] at ha hb
  rw [ht]
  refine h a b hab ha hb ?_
  unfold SameTree at hst ⊢
  rw [par_eq_of_parent_eq hp] at hst
  exact hst

theorem setPreds_fields (s : G) (t : Uid) (l : List Uid) :
    (setPreds s t l).1.parent = s.parent ∧ (setPreds s t l).1.owner = s.owner ∧ (setPreds s t l).1.tid = s.tid := by
  unfold setPreds
  split
  · exact ⟨rfl, rfl, rfl⟩
  · exact ⟨rfl, rfl, rfl⟩

theorem setSuccs_fields (s : G) (t : Uid) (l : List Uid) :
    (setSuccs s t l).1.parent = s.parent ∧ (setSuccs s t l).1.owner = s.owner ∧ (setSuccs s t l).1.tid = s.tid := by
  unfold setSuccs
  split
  · exact ⟨rfl, rfl, rfl⟩
  · exact ⟨rfl, rfl, rfl⟩

theorem setPreds_Inv (s : G) (t : Uid) (l : List Uid) (hi : Inv s) (ht : s.hidden t = false)
    (hl : ∀ v ∈ l, s.hidden v = false) (htn : t < s.n) (hln : ∀ v ∈ l, v < s.n) : Inv (setPreds s t l).1 := by
  obtain ⟨hp, ho, htid⟩ := setPreds_fields s t l
  exact ⟨setPreds_WF s t l hi.wf ht hl, OwnerOK_of_fields_eq hp ho htid hi.own, UniqueIds_of_fields_eq hp htid hi.ids,
    setPreds_Bounded s t l hi.bnd htn hln⟩

theorem setSuccs_Inv (s : G) (t : Uid) (l : List Uid) (hi : Inv s) (ht : s.hidden t = false)
    (hl : ∀ v ∈ l, s.hidden v = false) (htn : t < s.n) (hln : ∀ v ∈ l, v < s.n) : Inv (setSuccs s t l).1 := by
  obtain ⟨hp, ho, htid⟩ := setSuccs_fields s t l
  exact ⟨setSuccs_WF s t l hi.wf ht hl, OwnerOK_of_fields_eq hp ho htid hi.own, UniqueIds_of_fields_eq hp htid hi.ids,
    setSuccs_Bounded s t l hi.bnd htn hln⟩

/-- replacing one children list by a permutation of itself -/
theorem permChildren_Inv (s : G) (h : Uid) (l : List Uid) (hi : Inv s) (hp : l.Perm (s.children h)) :
    Inv { s with children := upd s.children h l } := by
  refine ⟨permChildren_WF s h l hi.wf hp, OwnerOK_of_fields_eq (s := s) rfl rfl rfl hi.own,
    UniqueIds_of_fields_eq (s := s) rfl rfl hi.ids, ?_⟩
  refine ⟨hi.bnd.parent, ?_, hi.bnd.preds, hi.bnd.succs, hi.bnd.owner⟩
  intro u c hc
  apply hi.bnd.children u c
  by_cases hu : u = h
  · subst hu
    have : c ∈ l := by simpa using hc
    exact hp.mem_iff.1 this
  · have : c ∈ s.children u := by simpa [upd, hu] using hc
    exact this

/-- legality of an operation depends only on `n` and `tid`, which no operation changes -/
theorem legal_of_same (s s' : G) (op : Op) (hn : s'.n = s.n) (ht : s'.tid = s.tid) (hl : op.legal s) :
    op.legal s' := by
  refine ⟨?_, visible_of_tid s s' ht op hl.visible, ?_⟩
  · intro u hu; rw [hn]; exact hl.inRange u hu
  · intro w t h; rw [hidden_of_tid s s' ht]; exact hl.wbs w t h

/-! ### members of the stored lists are visible objects of the universe -/

theorem children_ok (s : G) (hi : Inv s) (h v : Uid) (hv : v ∈ s.children h) : s.hidden v = false ∧ v < s.n :=
  ⟨child_not_hidden s hi.wf h v hv, (hi.bnd.children h v hv).2⟩

theorem preds_ok (s : G) (hi : Inv s) (t v : Uid) (hv : v ∈ s.preds t) : s.hidden v = false ∧ v < s.n :=
  ⟨pred_not_hidden s hi.wf t v hv, (hi.bnd.preds t v hv).2⟩

theorem succs_ok (s : G) (hi : Inv s) (t v : Uid) (hv : v ∈ s.succs t) : s.hidden v = false ∧ v < s.n :=
  ⟨succ_not_hidden s hi.wf t v hv, (hi.bnd.succs t v hv).2⟩

theorem filter_children_ok (s : G) (hi : Inv s) (h : Uid) (p : Uid → Bool) :
    ∀ v ∈ (s.children h).filter p, s.hidden v = false ∧ v < s.n :=
  fun v hv => children_ok s hi h v (List.mem_filter.1 hv).1

theorem insert_children_ok (s : G) (hi : Inv s) (h : Uid) (i : Int) (t : Uid) (ht : s.hidden t = false)
    (htn : t < s.n) : ∀ v ∈ pyInsert ((s.children h).filter (fun x => x != t)) i t, s.hidden v = false ∧ v < s.n := by
  intro v hv
  rcases mem_pyInsert _ _ _ _ hv with rfl | hv
  · exact ⟨ht, htn⟩
  · exact filter_children_ok s hi h _ v hv

theorem append_children_ok (s : G) (hi : Inv s) (h : Uid) (l : List Uid) (hl : ∀ v ∈ l, s.hidden v = false)
    (hln : ∀ v ∈ l, v < s.n) : ∀ v ∈ s.children h ++ l, s.hidden v = false ∧ v < s.n := by
  intro v hv
  rcases List.mem_append.1 hv with hv | hv
  · exact children_ok s hi h v hv
  · exact ⟨hl v hv, hln v hv⟩

theorem append_preds_ok (s : G) (hi : Inv s) (t : Uid) (l : List Uid) (hl : ∀ v ∈ l, s.hidden v = false)
    (hln : ∀ v ∈ l, v < s.n) : ∀ v ∈ s.preds t ++ l, s.hidden v = false ∧ v < s.n := by
  intro v hv
  rcases List.mem_append.1 hv with hv | hv
  · exact preds_ok s hi t v hv
  · exact ⟨hl v hv, hln v hv⟩

theorem append_succs_ok (s : G) (hi : Inv s) (t : Uid) (l : List Uid) (hl : ∀ v ∈ l, s.hidden v = false)
    (hln : ∀ v ∈ l, v < s.n) : ∀ v ∈ s.succs t ++ l, s.hidden v = false ∧ v < s.n := by
  intro v hv
  rcases List.mem_append.1 hv with hv | hv
  · exact succs_ok s hi t v hv
  · exact ⟨hl v hv, hln v hv⟩

/-! ### the façades preserve the invariant -/

theorem chRemove_Inv (s : G) (h t : Uid) (hi : Inv s) : Inv (chRemove s h t).1 := by
  unfold chRemove
  split
  · rename_i hc
    have hc' : t ∈ s.children h := by simpa using hc
    exact setChildren_Inv s h _ hi (fun v hv => (filter_children_ok s hi h _ v hv).1)
      (hi.bnd.children h t hc').1 (fun v hv => (filter_children_ok s hi h _ v hv).2)
  · exact hi

theorem chInsert_Inv (s : G) (h : Uid) (i : Int) (t : Uid) (hi : Inv s) (ht : s.hidden t = false)
    (hh : h < s.n) (htn : t < s.n) : Inv (chInsert s h i t).1 :=
  setChildren_Inv s h _ hi (fun v hv => (insert_children_ok s hi h i t ht htn v hv).1) hh
    (fun v hv => (insert_children_ok s hi h i t ht htn v hv).2)

theorem floordiv_Inv (s : G) (h : Uid) (l : List Uid) (hi : Inv s) (hl : ∀ v ∈ l, s.hidden v = false)
    (hh : h < s.n) (hln : ∀ v ∈ l, v < s.n) : Inv (floordiv s h l).1 :=
  setChildren_Inv s h _ hi (fun v hv => (append_children_ok s hi h l hl hln v hv).1) hh
    (fun v hv => (append_children_ok s hi h l hl hln v hv).2)

theorem lshift_Inv (s : G) (t : Uid) (l : List Uid) (hi : Inv s) (ht : s.hidden t = false)
    (hl : ∀ v ∈ l, s.hidden v = false) (htn : t < s.n) (hln : ∀ v ∈ l, v < s.n) : Inv (lshift s t l).1 :=
  setPreds_Inv s t _ hi ht (fun v hv => (append_preds_ok s hi t l hl hln v hv).1) htn
    (fun v hv => (append_preds_ok s hi t l hl hln v hv).2)

theorem rshift_Inv (s : G) (t : Uid) (l : List Uid) (hi : Inv s) (ht : s.hidden t = false)
    (hl : ∀ v ∈ l, s.hidden v = false) (htn : t < s.n) (hln : ∀ v ∈ l, v < s.n) : Inv (rshift s t l).1 :=
  setSuccs_Inv s t _ hi ht (fun v hv => (append_succs_ok s hi t l hl hln v hv).1) htn
    (fun v hv => (append_succs_ok s hi t l hl hln v hv).2)

theorem prRemove_Inv (s : G) (t x : Uid) (hi : Inv s) (ht : s.hidden t = false) (htn : t < s.n) :
    Inv (prRemove s t x).1 := by
  unfold prRemove
  split
  · exact setPreds_Inv s t _ hi ht (fun v hv => (preds_ok s hi t v (List.mem_filter.1 hv).1).1) htn
      (fun v hv => (preds_ok s hi t v (List.mem_filter.1 hv).1).2)
  · exact hi

theorem suRemove_Inv (s : G) (t x : Uid) (hi : Inv s) (ht : s.hidden t = false) (htn : t < s.n) :
    Inv (suRemove s t x).1 := by
  unfold suRemove
  split
  · exact setSuccs_Inv s t _ hi ht (fun v hv => (succs_ok s hi t v (List.mem_filter.1 hv).1).1) htn
      (fun v hv => (succs_ok s hi t v (List.mem_filter.1 hv).1).2)
  · exact hi

theorem chMove_Inv (s : G) (h : Uid) (ts : List Uid) (b a : Option Uid) (hi : Inv s) :
    Inv (chMove s h ts b a).1 := by
  unfold chMove
  dsimp only
  by_cases c1 : (ts.any fun t => !(s.children h).contains t) = true
  · rw [if_pos c1]; exact hi
  · rw [if_neg c1]
    have hin := mem_of_not_any_not_contains _ _ c1
    cases b <;> cases a <;> simp only [] <;> (repeat' split) <;>
      first
      | exact hi
      | (apply permChildren_Inv _ _ _ hi
         apply foldMove_perm
         · simp_all
         · exact hin
         · exact List.Perm.refl _)

theorem chSort_Inv (s : G) (h : Uid) (key : Uid → Int) (rev : Bool) (hi : Inv s) :
    Inv (chSort s h key rev).1 := by
  unfold chSort
  apply permChildren_Inv _ _ _ hi
  unfold sortBy
  split
  · exact List.mergeSort_perm _ _
  · exact List.mergeSort_perm _ _

theorem chReorder_Inv (s : G) (h : Uid) (ids : List Int) (hi : Inv s) : Inv (chReorder s h ids).1 := by
  unfold chReorder
  split
  · exact hi
  · rename_i l hl
    apply permChildren_Inv _ _ _ hi
    exact reorderLoop_perm s _ ids [] _ l hl (by simp)

theorem wbsRemove_Inv (s : G) (w t : Uid) (hi : Inv s) : Inv (wbsRemove s w t).1 :=
  wbsRemove_preserves Inv t (fun s cur hs => chRemove_Inv s cur t hs) s w hi

/-- element-by-element application: the invariant together with the two constants legality reads -/
theorem forEach_Inv (f : G → Uid → G × Option Err) (s : G) (ts : List Uid) (hi : Inv s)
    (hn : ∀ s t, (f s t).1.n = s.n) (htid : ∀ s t, (f s t).1.tid = s.tid)
    (hf : ∀ s' t, t ∈ ts → Inv s' → s'.n = s.n → s'.tid = s.tid → Inv (f s' t).1) :
    Inv (forEach f s ts).1 := by
  have := forEach_preserves_mem (fun s' => Inv s' ∧ s'.n = s.n ∧ s'.tid = s.tid) f ts s
    (fun s' t ht hs => ⟨hf s' t ht hs.1 hs.2.1 hs.2.2, (hn s' t).trans hs.2.1, (htid s' t).trans hs.2.2⟩)
    ⟨hi, rfl, rfl⟩
  exact this.1

/-- one step of any public mutator preserves the invariant, whether the call returns or raises -/
theorem step_Inv (s : G) (op : Op) (hi : Inv s) (hl : op.legal s) : Inv (step s op).1 := by
  have hv := hl.visible
  have hr := hl.inRange
  cases op with
  | setParent t p =>
    refine setParent_Inv s t p hi (hv t (by simp [Op.taskArgs])) (hr t (by simp [Op.allUids])) ?_
    intro q hq; subst hq; exact hr q (by simp [Op.allUids])
  | setChildren h l =>
    exact setChildren_Inv s h l hi (fun v hvl => hv v (by simpa [Op.taskArgs] using hvl))
      (hr h (by simp [Op.allUids])) (fun v hvl => hr v (by simp [Op.allUids, hvl]))
  | chAppend h t =>
    refine setParent_Inv s t (some h) hi (hv t (by simp [Op.taskArgs])) (hr t (by simp [Op.allUids])) ?_
    intro q hq; cases hq; exact hr h (by simp [Op.allUids])
  | chRemove h t => exact chRemove_Inv s h t hi
  | chInsert h i t =>
    exact chInsert_Inv s h i t hi (hv t (by simp [Op.taskArgs])) (hr h (by simp [Op.allUids]))
      (hr t (by simp [Op.allUids]))
  | chMove h ts b a => exact chMove_Inv s h ts b a hi
  | chSort h keys rev => exact chSort_Inv s h _ rev hi
  | chReorder h ids => exact chReorder_Inv s h ids hi
  | setPreds t l =>
    exact setPreds_Inv s t l hi (hv t (by simp [Op.taskArgs])) (fun v hvl => hv v (by simp [Op.taskArgs, hvl]))
      (hr t (by simp [Op.allUids])) (fun v hvl => hr v (by simp [Op.allUids, hvl]))
  | setSuccs t l =>
    exact setSuccs_Inv s t l hi (hv t (by simp [Op.taskArgs])) (fun v hvl => hv v (by simp [Op.taskArgs, hvl]))
      (hr t (by simp [Op.allUids])) (fun v hvl => hr v (by simp [Op.allUids, hvl]))
  | prAppend t x =>
    exact lshift_Inv s t [x] hi (hv t (by simp [Op.taskArgs]))
      (fun v hvl => hv v (by simp only [List.mem_singleton] at hvl; simp [Op.taskArgs, hvl]))
      (hr t (by simp [Op.allUids]))
      (fun v hvl => hr v (by simp only [List.mem_singleton] at hvl; simp [Op.allUids, hvl]))
  | prRemove t x => exact prRemove_Inv s t x hi (hv t (by simp [Op.taskArgs])) (hr t (by simp [Op.allUids]))
  | suAppend t x =>
    exact rshift_Inv s t [x] hi (hv t (by simp [Op.taskArgs]))
      (fun v hvl => hv v (by simp only [List.mem_singleton] at hvl; simp [Op.taskArgs, hvl]))
      (hr t (by simp [Op.allUids]))
      (fun v hvl => hr v (by simp only [List.mem_singleton] at hvl; simp [Op.allUids, hvl]))
  | suRemove t x => exact suRemove_Inv s t x hi (hv t (by simp [Op.taskArgs])) (hr t (by simp [Op.allUids]))
  | floordiv h l =>
    exact floordiv_Inv s h l hi (fun v hvl => hv v (by simpa [Op.taskArgs] using hvl))
      (hr h (by simp [Op.allUids])) (fun v hvl => hr v (by simp [Op.allUids, hvl]))
  | lshift t l =>
    exact lshift_Inv s t l hi (hv t (by simp [Op.taskArgs])) (fun v hvl => hv v (by simp [Op.taskArgs, hvl]))
      (hr t (by simp [Op.allUids])) (fun v hvl => hr v (by simp [Op.allUids, hvl]))
  | rshift t l =>
    exact rshift_Inv s t l hi (hv t (by simp [Op.taskArgs])) (fun v hvl => hv v (by simp [Op.taskArgs, hvl]))
      (hr t (by simp [Op.allUids])) (fun v hvl => hr v (by simp [Op.allUids, hvl]))
  | listLshift ts l =>
    apply forEach_Inv _ s ts hi (fun s t => setPreds_n s t _) (fun s t => setPreds_tid s t _)
    intro s' t ht hi' hn htid
    apply lshift_Inv s' t l hi'
    · rw [hidden_of_tid s s' htid]; exact hv t (by simp [Op.taskArgs, ht])
    · intro v hvl; rw [hidden_of_tid s s' htid]; exact hv v (by simp [Op.taskArgs, hvl])
    · rw [hn]; exact hr t (by simp [Op.allUids, ht])
    · intro v hvl; rw [hn]; exact hr v (by simp [Op.allUids, hvl])
  | listRshift ts l =>
    apply forEach_Inv _ s ts hi (fun s t => setSuccs_n s t _) (fun s t => setSuccs_tid s t _)
    intro s' t ht hi' hn htid
    apply rshift_Inv s' t l hi'
    · rw [hidden_of_tid s s' htid]; exact hv t (by simp [Op.taskArgs, ht])
    · intro v hvl; rw [hidden_of_tid s s' htid]; exact hv v (by simp [Op.taskArgs, hvl])
    · rw [hn]; exact hr t (by simp [Op.allUids, ht])
    · intro v hvl; rw [hn]; exact hr v (by simp [Op.allUids, hvl])
  | listSetParent ts p =>
    apply forEach_Inv _ s ts hi (fun s t => setParent_n s t p) (fun s t => setParent_tid s t p)
    intro s' t ht hi' hn htid
    apply setParent_Inv s' t p hi'
    · rw [hidden_of_tid s s' htid]; exact hv t (by simp [Op.taskArgs, ht])
    · rw [hn]; exact hr t (by simp [Op.allUids, ht])
    · intro q hq; subst hq; rw [hn]; exact hr q (by simp [Op.allUids])
  | wbsRemove w t => exact wbsRemove_Inv s w t hi
  | wbsRemoveAll w ts =>
    exact forEach_Inv _ s ts hi (fun s t => wbsRemove_n s w t) (fun s t => wbsRemove_tid s w t)
      (fun s' t _ hi' _ _ => wbsRemove_Inv s' w t hi')
  | chRemoveAll h ts =>
    exact forEach_Inv _ s ts hi (fun s t => chRemove_n s h t) (fun s t => chRemove_tid s h t)
      (fun s' t _ hi' _ _ => chRemove_Inv s' h t hi')

theorem run_Inv (ops : List Op) (s : G) (hi : Inv s) (hl : ∀ op ∈ ops, op.legal s) : Inv (run s ops) := by
  induction ops generalizing s with
  | nil => exact hi
  | cons op ops ih =>
    show Inv (run (step s op).1 ops)
    apply ih _ (step_Inv s op hi (hl op List.mem_cons_self))
    intro op' hop'
    exact legal_of_same s _ op' (step_n s op) (step_tid s op) (hl op' (List.mem_cons_of_mem _ hop'))

/-! ### which errors are possible on a reachable state -/

theorem chkParentSome_err (s : G) (t p : Uid) (hi : Inv s) (e : Err) (h : chkParentSome s t p = some e) :
    e = .runtime := by
  obtain ⟨b, hb⟩ := hasIdIntersection_total s hi.wf hi.bnd p [t]
  obtain ⟨desc, hdesc⟩ := descF_children_total s hi.wf hi.bnd t
  obtain ⟨anc, hanc⟩ := ancF_parent_total s hi.wf hi.bnd p
  unfold chkParentSome at h
  simp only [hb, hdesc, hanc] at h
  split at h
  · rename_i c1 e' hc1
    cases h
    cases b <;> simp only [] at hc1 <;> (repeat' split at hc1) <;> simp_all
  · repeat' split at h
    all_goals simp_all

theorem mutParentSome_no_err (s : G) (t p : Uid) (hi : Inv s) : (mutParentSome s t p).2 = none := by
  obtain ⟨sub, hsub⟩ := subtreeF_children_total s hi.wf hi.bnd t
  unfold mutParentSome
  simp only [hsub]

theorem setParentSome_err (s : G) (t p : Uid) (hi : Inv s) (e : Err) (h : (setParentSome s t p).2 = some e) :
    e = .runtime := by
  unfold setParentSome at h
  split at h
  · rename_i e' hc
    cases h
    exact chkParentSome_err s t p hi _ hc
  · rw [mutParentSome_no_err s t p hi] at h; cases h

theorem setParent_err (s : G) (t : Uid) (p : Option Uid) (hi : Inv s) (e : Err)
    (h : (setParent s t p).2 = some e) : e = .runtime := by
  cases p with
  | some p => exact setParentSome_err s t p hi e h
  | none =>
    simp only [setParent, setParentNone] at h
    split at h
    · exact setParentSome_err s t _ hi e h
    · cases h

theorem chkChildren_err (s : G) (h : Uid) (l : List Uid) (hi : Inv s) (e : Err) (hc : chkChildren s h l = some e) :
    e = .runtime := by
  obtain ⟨b, hb⟩ := hasIdIntersection_total s hi.wf hi.bnd h l
  obtain ⟨anc, hanc⟩ := ancF_parent_total s hi.wf hi.bnd h
  unfold chkChildren at hc
  simp only [hb, hanc] at hc
  split at hc
  · rename_i e' hc1
    cases hc
    repeat' split at hc1
    all_goals simp_all
  · cases b
    case true => simp only [] at hc; cases hc; rfl
    case false =>
      simp only [] at hc
      obtain ⟨ch, _, hch⟩ := List.exists_of_findSome?_eq_some hc
      obtain ⟨desc, hdesc⟩ := descF_children_total s hi.wf hi.bnd ch
      simp only [hdesc] at hch
      repeat' split at hch
      all_goals simp_all

theorem setChildren_err (s : G) (h : Uid) (l : List Uid) (hi : Inv s)
    (hv : ∀ v ∈ l, s.hidden v = false) (hh : h < s.n) (hl : ∀ v ∈ l, v < s.n) (e : Err)
    (he : (setChildren s h l).2 = some e) : e = .runtime := by
  cases hc : chkChildren s h l with
  | none => rw [setChildren_atomic s h l hi hv hh hl hc] at he; cases he
  | some e' =>
    unfold setChildren at he
    simp only [hc] at he
    cases he
    exact chkChildren_err s h l hi _ hc

theorem chkLinks_err (s : G) (next : Uid → List Uid) (hn : ∀ v, ∃ r, descF next s.fuel v = some r)
    (t : Uid) (l : List Uid) (hi : Inv s) (e : Err) (hc : chkLinks s next t l = some e) : e = .runtime := by
  obtain ⟨anc, hanc⟩ := ancF_parent_total s hi.wf hi.bnd t
  obtain ⟨desc, hdesc⟩ := descF_children_total s hi.wf hi.bnd t
  unfold chkLinks at hc
  simp only [hanc, hdesc] at hc
  split at hc
  · cases hc; rfl
  · obtain ⟨v, _, hv⟩ := List.exists_of_findSome?_eq_some hc
    obtain ⟨r, hr⟩ := hn v
    simp only [hr] at hv
    repeat' split at hv
    all_goals simp_all

theorem setPreds_err (s : G) (t : Uid) (l : List Uid) (hi : Inv s) (e : Err) (he : (setPreds s t l).2 = some e) :
    e = .runtime := by
  unfold setPreds at he
  split at he
  · rename_i e' hc
    cases he
    exact chkLinks_err s s.preds (descF_preds_total s hi.wf hi.bnd) t l hi _ hc
  · cases he

theorem setSuccs_err (s : G) (t : Uid) (l : List Uid) (hi : Inv s) (e : Err) (he : (setSuccs s t l).2 = some e) :
    e = .runtime := by
  unfold setSuccs at he
  split at he
  · rename_i e' hc
    cases he
    exact chkLinks_err s s.succs (descF_succs_total s hi.wf hi.bnd) t l hi _ hc
  · cases he

/-- `chRemove_ok` without the range hypothesis: an object outside the universe has no children -/
theorem chRemove_ok' (s : G) (h t : Uid) (hi : Inv s) : (chRemove s h t).2 = none := by
  by_cases hc : (s.children h).contains t = true
  · have hc' : t ∈ s.children h := by simpa using hc
    exact chRemove_ok s h t hi (hi.bnd.children h t hc').1
  · unfold chRemove
    rw [if_neg hc]

theorem prRemove_err (s : G) (t x : Uid) (hi : Inv s) (e : Err) (he : (prRemove s t x).2 = some e) :
    e = .runtime := by
  unfold prRemove at he
  split at he
  · exact setPreds_err s t _ hi e he
  · cases he

theorem suRemove_err (s : G) (t x : Uid) (hi : Inv s) (e : Err) (he : (suRemove s t x).2 = some e) :
    e = .runtime := by
  unfold suRemove at he
  split at he
  · exact setSuccs_err s t _ hi e he
  · cases he

theorem chMove_err (s : G) (h : Uid) (ts : List Uid) (b a : Option Uid) (e : Err)
    (he : (chMove s h ts b a).2 = some e) : e = .runtime := by
  unfold chMove at he
  dsimp only at he
  repeat' split at he
  all_goals first | (cases he; rfl) | cases he

/-! ### `WBS.remove` neither runs out of fuel nor raises -/

theorem removeRec_none_descF (t : Uid) (s : G) :
    ∀ (f : Nat) (cur : Uid), removeRec t f s cur = none → descF s.children f cur = none := by
  intro f
  induction f with
  | zero => intro cur _; rfl
  | succ f ih =>
    intro cur h
    rw [removeRec.eq_2] at h
    split at h
    · cases h
    · have hgo : ∀ cs : List Uid, removeRec.go t f s cs = none → ∃ c ∈ cs, removeRec t f s c = none := by
        intro cs
        induction cs with
        | nil => intro h; rw [removeRec.go.eq_1] at h; cases h
        | cons c cs ihc =>
          intro h
          rw [removeRec.go.eq_2] at h
          split at h
          · rename_i heq; exact ⟨c, List.mem_cons_self, heq⟩
          · cases h
          · cases h
          · obtain ⟨c', hc', h'⟩ := ihc h
            exact ⟨c', List.mem_cons_of_mem _ hc', h'⟩
      obtain ⟨c, hc, hcn⟩ := hgo _ h
      have hd := ih c hcn
      rw [descF]
      cases hm : (s.children cur).mapM (fun c => (descF s.children f c).map (fun r => c :: r)) with
      | none => rfl
      | some ll =>
        obtain ⟨b, _, hb⟩ := mapM_some_mem _ _ _ hm c hc
        rw [hd] at hb; cases hb

theorem removeRec_ok (t : Uid) (s : G) (hi : Inv s) :
    ∀ (f : Nat) (cur : Uid) (r : G × Option Err × Bool), removeRec t f s cur = some r → r.2.1 = none := by
  intro f
  induction f with
  | zero => intro cur r h; rw [removeRec.eq_1] at h; cases h
  | succ f ih =>
    intro cur r h
    rw [removeRec.eq_2] at h
    split at h
    · cases h; exact chRemove_ok' s cur t hi
    · have hgo : ∀ (cs : List Uid) (r : G × Option Err × Bool), removeRec.go t f s cs = some r → r.2.1 = none := by
        intro cs
        induction cs with
        | nil => intro r h; rw [removeRec.go.eq_1] at h; cases h; rfl
        | cons c cs ihc =>
          intro r h
          rw [removeRec.go.eq_2] at h
          split at h
          · cases h
          · rename_i heq; cases h; exact ih c _ heq
          · rename_i heq; cases h; rfl
          · exact ihc r h
      exact hgo _ r h

theorem wbsRemove_ok (s : G) (w t : Uid) (hi : Inv s) : (wbsRemove s w t).2 = none := by
  unfold wbsRemove
  split
  · rename_i heq
    have h1 := removeRec_none_descF t s _ w heq
    obtain ⟨l, hl⟩ := descF_children_total s hi.wf hi.bnd w
    rw [hl] at h1; cases h1
  · rename_i s' e b heq
    exact removeRec_ok t s hi _ w _ heq

/-! ### element-by-element application: which errors, and never-raising elements -/

theorem forEach_err (P : G → Prop) (Q : Err → Prop) (f : G → Uid → G × Option Err) :
    ∀ (ts : List Uid) (s : G), (∀ s t, t ∈ ts → P s → P (f s t).1) →
      (∀ s t e, t ∈ ts → P s → (f s t).2 = some e → Q e) → P s →
      ∀ e, (forEach f s ts).2 = some e → Q e := by
  intro ts
  induction ts with
  | nil => intro s _ _ _ e h; simp only [forEach] at h; cases h
  | cons t ts ih =>
    intro s hf hq hs e h
    have h1 := hf s t List.mem_cons_self hs
    have h2 := hq s t
    simp only [forEach] at h
    split at h
    · rename_i s' e' heq
      rw [heq] at h2
      cases h
      exact h2 _ List.mem_cons_self hs rfl
    · rename_i s' heq
      rw [heq] at h1
      exact ih s' (fun s t ht => hf s t (List.mem_cons_of_mem _ ht))
        (fun s t e ht => hq s t e (List.mem_cons_of_mem _ ht)) h1 e h

theorem forEach_ok (P : G → Prop) (f : G → Uid → G × Option Err) (ts : List Uid) (s : G)
    (hf : ∀ s t, t ∈ ts → P s → P (f s t).1) (hq : ∀ s t, t ∈ ts → P s → (f s t).2 = none) (hs : P s) :
    (forEach f s ts).2 = none := by
  cases h : (forEach f s ts).2 with
  | none => rfl
  | some e =>
    exact (forEach_err P (fun _ => False) f ts s hf
      (fun s t e ht hp he => by rw [hq s t ht hp] at he; cases he) hs e h).elim

/-- on a reachable state the only exceptions other than RuntimeError come from `reorder` with an unknown or
    repeated id (StopIteration / ValueError); RecursionError cannot occur -/
theorem step_err_kind (s : G) (op : Op) (hi : Inv s) (hl : op.legal s) (e : Err)
    (he : (step s op).2 = some e) : e = .runtime ∨ ∃ h ids, op = .chReorder h ids := by
  have hv := hl.visible
  have hr := hl.inRange
  cases op with
  | setParent t p => exact Or.inl (setParent_err s t p hi e he)
  | setChildren h l =>
    exact Or.inl (setChildren_err s h l hi (fun v hvl => hv v (by simpa [Op.taskArgs] using hvl))
      (hr h (by simp [Op.allUids])) (fun v hvl => hr v (by simp [Op.allUids, hvl])) e he)
  | chAppend h t => exact Or.inl (setParent_err s t (some h) hi e he)
  | chRemove h t =>
    have : (chRemove s h t).2 = some e := he
    rw [chRemove_ok' s h t hi] at this; cases this
  | chInsert h i t =>
    have ht := hv t (by simp [Op.taskArgs])
    have htn := hr t (by simp [Op.allUids])
    exact Or.inl (setChildren_err s h _ hi (fun v hv => (insert_children_ok s hi h i t ht htn v hv).1)
      (hr h (by simp [Op.allUids])) (fun v hv => (insert_children_ok s hi h i t ht htn v hv).2) e he)
  | chMove h ts b a => exact Or.inl (chMove_err s h ts b a e he)
  | chSort h keys rev => cases he
  | chReorder h ids => exact Or.inr ⟨h, ids, rfl⟩
  | setPreds t l => exact Or.inl (setPreds_err s t l hi e he)
  | setSuccs t l => exact Or.inl (setSuccs_err s t l hi e he)
  | prAppend t x => exact Or.inl (setPreds_err s t _ hi e he)
  | prRemove t x => exact Or.inl (prRemove_err s t x hi e he)
  | suAppend t x => exact Or.inl (setSuccs_err s t _ hi e he)
  | suRemove t x => exact Or.inl (suRemove_err s t x hi e he)
  | floordiv h l =>
    have hlv : ∀ v ∈ l, s.hidden v = false := fun v hvl => hv v (by simpa [Op.taskArgs] using hvl)
    have hln : ∀ v ∈ l, v < s.n := fun v hvl => hr v (by simp [Op.allUids, hvl])
    exact Or.inl (setChildren_err s h _ hi (fun v hv => (append_children_ok s hi h l hlv hln v hv).1)
      (hr h (by simp [Op.allUids])) (fun v hv => (append_children_ok s hi h l hlv hln v hv).2) e he)
  | lshift t l => exact Or.inl (setPreds_err s t _ hi e he)
  | rshift t l => exact Or.inl (setSuccs_err s t _ hi e he)
  | listLshift ts l =>
    refine Or.inl (forEach_err (fun s' => Inv s' ∧ s'.n = s.n ∧ s'.tid = s.tid) (fun e => e = .runtime)
      (fun s t => lshift s t l) ts s ?_ ?_ ⟨hi, rfl, rfl⟩ e he)
    · intro s' t ht ⟨hi', hn, htid⟩
      refine ⟨?_, (setPreds_n s' t _).trans hn, (setPreds_tid s' t _).trans htid⟩
      apply lshift_Inv s' t l hi'
      · rw [hidden_of_tid s s' htid]; exact hv t (by simp [Op.taskArgs, ht])
      · intro v hvl; rw [hidden_of_tid s s' htid]; exact hv v (by simp [Op.taskArgs, hvl])
      · rw [hn]; exact hr t (by simp [Op.allUids, ht])
      · intro v hvl; rw [hn]; exact hr v (by simp [Op.allUids, hvl])
    · intro s' t e' _ hp he'
      exact setPreds_err s' t _ hp.1 e' he'
  | listRshift ts l =>
    refine Or.inl (forEach_err (fun s' => Inv s' ∧ s'.n = s.n ∧ s'.tid = s.tid) (fun e => e = .runtime)
      (fun s t => rshift s t l) ts s ?_ ?_ ⟨hi, rfl, rfl⟩ e he)
    · intro s' t ht ⟨hi', hn, htid⟩
      refine ⟨?_, (setSuccs_n s' t _).trans hn, (setSuccs_tid s' t _).trans htid⟩
      apply rshift_Inv s' t l hi'
      · rw [hidden_of_tid s s' htid]; exact hv t (by simp [Op.taskArgs, ht])
      · intro v hvl; rw [hidden_of_tid s s' htid]; exact hv v (by simp [Op.taskArgs, hvl])
      · rw [hn]; exact hr t (by simp [Op.allUids, ht])
      · intro v hvl; rw [hn]; exact hr v (by simp [Op.allUids, hvl])
    · intro s' t e' _ hp he'
      exact setSuccs_err s' t _ hp.1 e' he'
  | listSetParent ts p =>
    refine Or.inl (forEach_err (fun s' => Inv s' ∧ s'.n = s.n ∧ s'.tid = s.tid) (fun e => e = .runtime)
      (fun s t => setParent s t p) ts s ?_ ?_ ⟨hi, rfl, rfl⟩ e he)
    · intro s' t ht ⟨hi', hn, htid⟩
      refine ⟨?_, (setParent_n s' t p).trans hn, (setParent_tid s' t p).trans htid⟩
      apply setParent_Inv s' t p hi'
      · rw [hidden_of_tid s s' htid]; exact hv t (by simp [Op.taskArgs, ht])
      · rw [hn]; exact hr t (by simp [Op.allUids, ht])
      · intro q hq; subst hq; rw [hn]; exact hr q (by simp [Op.allUids])
    · intro s' t e' _ hp he'
      exact setParent_err s' t p hp.1 e' he'
  | wbsRemove w t =>
    have : (wbsRemove s w t).2 = some e := he
    rw [wbsRemove_ok s w t hi] at this; cases this
  | wbsRemoveAll w ts =>
    have : (forEach (fun s t => wbsRemove s w t) s ts).2 = some e := he
    rw [forEach_ok Inv _ ts s (fun s' t _ hp => wbsRemove_Inv s' w t hp)
      (fun s' t _ hp => wbsRemove_ok s' w t hp) hi] at this
    cases this
  | chRemoveAll h ts =>
    have : (forEach (fun s t => chRemove s h t) s ts).2 = some e := he
    rw [forEach_ok Inv _ ts s (fun s' t _ hp => chRemove_Inv s' h t hp)
      (fun s' t _ hp => chRemove_ok' s' h t hp) hi] at this
    cases this

/-! ### a call that raises leaves the state unchanged -/

theorem setParentSome_err_unchanged (s : G) (t p : Uid) (he : (setParentSome s t p).2 ≠ none) :
    (setParentSome s t p).1 = s := by
  unfold setParentSome at he ⊢
  split
  · rfl
  · rename_i hc
    simp only [hc] at he
    unfold mutParentSome at he ⊢
    split
    · rfl
    · rename_i sub hsub
      simp only [hsub] at he
      exact absurd rfl he

theorem setParent_err_unchanged (s : G) (t : Uid) (p : Option Uid) (he : (setParent s t p).2 ≠ none) :
    (setParent s t p).1 = s := by
  cases p with
  | some p => exact setParentSome_err_unchanged s t p he
  | none =>
    simp only [setParent, setParentNone] at he ⊢
    split
    · rename_i w hw
      simp only [hw] at he
      exact setParentSome_err_unchanged s t w he
    · rename_i hw
      simp only [hw] at he
      exact absurd rfl he

theorem setPreds_err_unchanged (s : G) (t : Uid) (l : List Uid) (he : (setPreds s t l).2 ≠ none) :
    (setPreds s t l).1 = s := by
  unfold setPreds at he ⊢
  split
  · rfl
  · rename_i hc
    simp only [hc] at he
    exact absurd rfl he

theorem setSuccs_err_unchanged (s : G) (t : Uid) (l : List Uid) (he : (setSuccs s t l).2 ≠ none) :
    (setSuccs s t l).1 = s := by
  unfold setSuccs at he ⊢
  split
  · rfl
  · rename_i hc
    simp only [hc] at he
    exact absurd rfl he

theorem prRemove_err_unchanged (s : G) (t x : Uid) (he : (prRemove s t x).2 ≠ none) : (prRemove s t x).1 = s := by
  unfold prRemove at he ⊢
  split
  · rename_i hc
    simp only [hc, if_true] at he
    exact setPreds_err_unchanged s t _ he
  · rfl

theorem suRemove_err_unchanged (s : G) (t x : Uid) (he : (suRemove s t x).2 ≠ none) : (suRemove s t x).1 = s := by
  unfold suRemove at he ⊢
  split
  · rename_i hc
    simp only [hc, if_true] at he
    exact setSuccs_err_unchanged s t _ he
  · rfl

theorem chMove_cases (s : G) (h : Uid) (ts : List Uid) (b a : Option Uid) :
    chMove s h ts b a = (s, some .runtime) ∨ (chMove s h ts b a).2 = none := by
  unfold chMove
  dsimp only
  repeat' split
  all_goals first | exact Or.inl rfl | exact Or.inr rfl

theorem chMove_err_unchanged (s : G) (h : Uid) (ts : List Uid) (b a : Option Uid)
    (he : (chMove s h ts b a).2 ≠ none) : (chMove s h ts b a).1 = s := by
  rcases chMove_cases s h ts b a with h1 | h1
  · rw [h1]
  · exact absurd h1 he

theorem chReorder_err_unchanged (s : G) (h : Uid) (ids : List Int) (he : (chReorder s h ids).2 ≠ none) :
    (chReorder s h ids).1 = s := by
  unfold chReorder at he ⊢
  split
  · rfl
  · rename_i l hl
    simp only [hl] at he
    exact absurd rfl he

/-- C15 for every operation except the three element-wise ones: a call that raises changes nothing -/
theorem step_err_unchanged (s : G) (op : Op) (hi : Inv s) (hl : op.legal s) (hne : op.elementwise = false)
    (he : (step s op).2 ≠ none) : (step s op).1 = s := by
  have hv := hl.visible
  have hr := hl.inRange
  cases op with
  | setParent t p => exact setParent_err_unchanged s t p he
  | setChildren h l =>
    exact setChildren_err_unchanged s h l hi (fun v hvl => hv v (by simpa [Op.taskArgs] using hvl))
      (hr h (by simp [Op.allUids])) (fun v hvl => hr v (by simp [Op.allUids, hvl])) he
  | chAppend h t => exact setParent_err_unchanged s t (some h) he
  | chRemove h t => exact absurd (chRemove_ok' s h t hi) he
  | chInsert h i t =>
    have ht := hv t (by simp [Op.taskArgs])
    have htn := hr t (by simp [Op.allUids])
    exact setChildren_err_unchanged s h _ hi (fun v hv => (insert_children_ok s hi h i t ht htn v hv).1)
      (hr h (by simp [Op.allUids])) (fun v hv => (insert_children_ok s hi h i t ht htn v hv).2) he
  | chMove h ts b a => exact chMove_err_unchanged s h ts b a he
  | chSort h keys rev => exact absurd rfl he
  | chReorder h ids => exact chReorder_err_unchanged s h ids he
  | setPreds t l => exact setPreds_err_unchanged s t l he
  | setSuccs t l => exact setSuccs_err_unchanged s t l he
  | prAppend t x => exact setPreds_err_unchanged s t _ he
  | prRemove t x => exact prRemove_err_unchanged s t x he
  | suAppend t x => exact setSuccs_err_unchanged s t _ he
  | suRemove t x => exact suRemove_err_unchanged s t x he
  | floordiv h l =>
    have hlv : ∀ v ∈ l, s.hidden v = false := fun v hvl => hv v (by simpa [Op.taskArgs] using hvl)
    have hln : ∀ v ∈ l, v < s.n := fun v hvl => hr v (by simp [Op.allUids, hvl])
    exact setChildren_err_unchanged s h _ hi (fun v hv => (append_children_ok s hi h l hlv hln v hv).1)
      (hr h (by simp [Op.allUids])) (fun v hv => (append_children_ok s hi h l hlv hln v hv).2) he
  | lshift t l => exact setPreds_err_unchanged s t _ he
  | rshift t l => exact setSuccs_err_unchanged s t _ he
  | listLshift ts l => cases hne
  | listRshift ts l => cases hne
  | listSetParent ts p => cases hne
  | wbsRemove w t => exact absurd (wbsRemove_ok s w t hi) he
  | wbsRemoveAll w ts =>
    exact absurd (forEach_ok Inv _ ts s (fun s' t _ hp => wbsRemove_Inv s' w t hp)
      (fun s' t _ hp => wbsRemove_ok s' w t hp) hi) he
  | chRemoveAll h ts =>
    exact absurd (forEach_ok Inv _ ts s (fun s' t _ hp => chRemove_Inv s' h t hp)
      (fun s' t _ hp => chRemove_ok' s' h t hp) hi) he
end Pj
