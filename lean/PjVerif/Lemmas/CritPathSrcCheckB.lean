/-
  Lemmas/CritPathSrcCheckB.lean — stage 1 of the translated tie for alg/critical_path.py: kernel-checked concrete runs of
  `wbs.critical_path()` (Extracted/CritPathSrc.lean) against Model/CritPath.lean.  See Lemmas/CritPathSrc.lean.
  Every example states (a) the exact list the translated program returns - it is the list the real Python returns on
  the same WBS (scratch run of src/pjplan, insertion order of `__links`) - and (b) `agree`: that list and the model's
  `criticalPath` are the same SET of tasks, each once.
-/
import PjVerif.Lemmas.CritPathSrcCheck
namespace Pj.CritPathSrc
open Pj.PyLite Pj.Extracted.CritPath

namespace Check

/-- links on summaries: 3 (leaves 4, 6, 7) waits for 0 (leaves 1, 2); 8 waits for the summary 3; 7 waits for 4; the estimate of a summary is ignored -/
def summaries : CPEnv := mkEnv
  [(none, [1, 2], [], some 50, none),
   (some 0, [], [], some 2, none),
   (some 0, [], [], some 4, none),
   (none, [4, 5], [0], none, none),
   (some 3, [], [], some 1, none),
   (some 3, [6, 7], [], none, none),
   (some 5, [], [], some 3, none),
   (some 5, [], [4], some 1, none),
   (none, [], [3], some 2, none)]
  [0, 1, 2, 3, 4, 5, 6, 7, 8]
example : interpCriticalPath FC summaries tidOf = .ok (refs [2, 6, 8]) := by decide +kernel   -- Python: the same list
example : agree summaries tidOf = true := by decide +kernel

/-- predecessors outside the calculated set (0, and the summary 4 with its leaf 5) are ignored -/
def outside : CPEnv := mkEnv
  [(none, [], [], some 9, none),
   (none, [], [0], some 1, none),
   (none, [], [1], some 2, none),
   (none, [], [], some 1, none),
   (none, [5], [], none, none),
   (some 4, [], [], some 8, none),
   (none, [], [4, 3], some 1, none)]
  [1, 2, 3, 6]
example : interpCriticalPath FC outside tidOf = .ok (refs [1, 2]) := by decide +kernel   -- Python: the same list
example : agree outside tidOf = true := by decide +kernel

/-- tasks 0 and 1 share the id 7, only 0 is a member; 2 waits for the non-member 1, 3 for the member 0 -/
def sharedid : CPEnv := mkEnv
  [(none, [], [], some 5, none),
   (none, [], [], some 1, none),
   (none, [], [1], some 2, none),
   (none, [], [0], some 1, none)]
  [0, 2, 3]
def sharedidTid (u : Uid) : Int := if u = 0 then 7 else if u = 1 then 7 else if u = 2 then 8 else if u = 3 then 9 else 0
example : interpCriticalPath FC sharedid sharedidTid = .ok (refs [0, 3]) := by decide +kernel   -- Python: the same list
example : agree sharedid sharedidTid = true := by decide +kernel

/-- spent above the estimate (0, 3): length 0 -/
def overspent : CPEnv := mkEnv
  [(none, [], [], some 2, some 5),
   (none, [], [0], some 3, none),
   (none, [], [], some 2, none),
   (none, [], [2], none, some 4),
   (none, [], [3], some 1, none)]
  [0, 1, 2, 3, 4]
example : interpCriticalPath FC overspent tidOf = .ok (refs [0, 1, 2, 3, 4]) := by decide +kernel   -- Python: the same list
example : agree overspent tidOf = true := by decide +kernel

/-- durations on the grid of eighths, a tie -/
def eighths : CPEnv := mkEnv
  [(none, [], [], some (3/8), none),
   (none, [], [0], some (5/8), some (1/8)),
   (none, [], [0], some (1/2), none),
   (none, [], [1, 2], some (1/4), none),
   (none, [], [2], some (1/8), none)]
  [0, 1, 2, 3, 4]
example : interpCriticalPath FC eighths tidOf = .ok (refs [0, 1, 2, 3]) := by decide +kernel   -- Python: the same list
example : agree eighths tidOf = true := by decide +kernel

/-- nested summaries: 4 waits for the summary 1; the summary 5 waits for the summary 0; 9 waits for 4 -/
def deep : CPEnv := mkEnv
  [(none, [1, 4], [], none, none),
   (some 0, [2, 3], [], none, none),
   (some 1, [], [], some 1, none),
   (some 1, [], [2], some 2, none),
   (some 0, [], [1], some 1, none),
   (none, [6], [0], none, none),
   (some 5, [7, 8], [], none, none),
   (some 6, [], [], some 2, none),
   (some 6, [], [7], some 2, none),
   (none, [], [4], some 5, none)]
  [0, 1, 2, 3, 4, 5, 6, 7, 8, 9]
example : interpCriticalPath FC deep tidOf = .ok (refs [2, 3, 4, 9]) := by decide +kernel   -- Python: the same list
example : agree deep tidOf = true := by decide +kernel

/-- a predecessor named twice and both as a leaf and through its summary: de-duplicated -/
def dupes : CPEnv := mkEnv
  [(none, [1, 2], [], none, none),
   (some 0, [], [], some 2, none),
   (some 0, [], [], some 3, none),
   (none, [], [0, 1, 0, 2], some 1, none),
   (none, [], [3, 3], some 1, none)]
  [0, 1, 2, 3, 4]
example : interpCriticalPath FC dupes tidOf = .ok (refs [2, 3, 4]) := by decide +kernel   -- Python: the same list
example : agree dupes tidOf = true := by decide +kernel

/-- members listed in an order that is not topological -/
def order : CPEnv := mkEnv
  [(none, [], [2], some 1, none),
   (none, [], [], some 4, none),
   (none, [], [1], some 1, none),
   (none, [], [0], some 1, none)]
  [3, 0, 1, 2]
example : interpCriticalPath FC order tidOf = .ok (refs [1, 2, 0, 3]) := by decide +kernel   -- Python: the same list
example : agree order tidOf = true := by decide +kernel

/-! #### outside the hypotheses of the general theorem -/

-- Python: ['rejected by the library', '101 exists in 100 predecessors. Cyclic dependency']
/-- a dependency cycle: KeyError -/
def cycle : CPEnv := mkEnv
  [(none, [], [1], some 1, none),
   (none, [], [0], some 1, none)]
  [0, 1]
example : interpCriticalPath FC cycle tidOf = .error (.crash .key) := by decide +kernel
example : agree cycle tidOf = true := by decide +kernel

-- Python: ['rejected by the library', "Can't set parent as predecessor"]
/-- a cycle through the hierarchy: the leaf 2 waits for its own summary, i.e. for 1 and for itself -/
def hcycle : CPEnv := mkEnv
  [(none, [1, 2], [], none, none),
   (some 0, [], [], some 1, none),
   (some 0, [], [0], some 1, none)]
  [0, 1, 2]
-- DISAGREEMENT (not reachable: the library rejects the link): the leaf is its own prerequisite; the source connects the
-- end of its arc to its start (`__links[id]` is set before the loop of `__add_work`) and `__forward` never ends;
-- the model reports KeyError
example : interpCriticalPath FC hcycle tidOf = .error (.crash .recursion) := by decide +kernel
example : interpCriticalPath 200 hcycle tidOf = .error (.crash .recursion) := by decide +kernel
example : hcycle.criticalPath = .error (.crash .key) := by decide +kernel

-- Python: ['err', 'KeyError']
/-- a cycle that closes through the hierarchy (the library accepts it): 1 waits for 3, 3 for the summary 0 of 1: KeyError -/
def hcycle2 : CPEnv := mkEnv
  [(none, [1, 2], [], none, none),
   (some 0, [], [3], some 1, none),
   (some 0, [], [], some 1, none),
   (none, [], [0], some 2, none)]
  [0, 1, 2, 3]
example : interpCriticalPath FC hcycle2 tidOf = .error (.crash .key) := by decide +kernel
example : agree hcycle2 tidOf = true := by decide +kernel

-- Python: ['ok', [0, 1]]
/-- a float of 1e-10: within the tolerance of the source, not zero for the model -/
def offgrid : CPEnv := mkEnv
  [(none, [], [], some 1, none),
   (none, [], [], some (9999999999/10000000000), none)]
  [0, 1]
example : interpCriticalPath FC offgrid tidOf = .ok (refs [0, 1]) := by decide +kernel   -- Python: the same list
-- DISAGREEMENT off the grid: the tolerance of the source accepts the float 1e-10
example : offgrid.criticalPath = .ok [0] := by decide +kernel

-- Python: ['ok', [0, 2]]
/-- two MEMBERS share an id (impossible inside one WBS): the source keeps only the first -/
def sharedmembers : CPEnv := mkEnv
  [(none, [], [], some 1, none),
   (none, [], [], some 5, none),
   (none, [], [0], some 1, none)]
  [0, 1, 2]
def sharedmembersTid (u : Uid) : Int := if u = 0 then 7 else if u = 1 then 7 else if u = 2 then 8 else 0
example : interpCriticalPath FC sharedmembers sharedmembersTid = .ok (refs [0, 2]) := by decide +kernel   -- Python: the same list
-- DISAGREEMENT when two members share an id (not reachable inside one WBS: C05)
example : sharedmembers.criticalPath = .ok [1] := by decide +kernel

end Check
end Pj.CritPathSrc
