/-
  Lemmas/CsvSrcCheckA.lean — STAGE 1, kernel-checked: the cell formatters / parsers of csv_io.py, translated, on concrete
  cells with the library `sampleLib`, against the model's cell functions (`nonEmpty`, `splitOn`, the milestone flag,
  `headerIndex`) composed with the library's parsers.
-/
import PjVerif.Lemmas.CsvSrcCheck
namespace Pj.CsvSrc.Check
open Pj.PyLite Pj.Extracted.Csv Pj.Csv Pj.CsvSrc


def cellS (k : Nat) (s : String) : Res Val := interpCell sampleLib FF k (litA s)

/-- `__parse_str`: '' ↦ None (`nonEmpty`) -/
example : cellS fn_parse_str "" = .ok (.atom (optStr (nonEmpty "".toList))) := by decide +kernel
example : cellS fn_parse_str "a b" = .ok (.atom (optStr (nonEmpty "a b".toList))) := by decide +kernel
/-- `__parse_date` -/
example : cellS fn_parse_date "" = .ok (.atom .none) := by decide +kernel
example : cellS fn_parse_date "15.01.24" = .ok (.atom (.time (day 2024 1 15))) := by decide +kernel
example : cellS fn_parse_date "31.12.68" = .ok (.atom (.time (day 2068 12 31))) := by decide +kernel
example : cellS fn_parse_date "01.01.69" = .ok (.atom (.time (day 1969 1 1))) := by decide +kernel
example : cellS fn_parse_date "2024-01-15" = .error (.crash .value) := by decide +kernel
/-- `__parse_float`, `__parse_int` -/
example : cellS fn_parse_float "" = .ok (.atom .none) := by decide +kernel
example : cellS fn_parse_float "2.5" = .ok (.atom (.num (5/2))) := by decide +kernel
example : cellS fn_parse_float "-0.125" = .ok (.atom (.num (-1/8))) := by decide +kernel
example : cellS fn_parse_float "x" = .error (.crash .value) := by decide +kernel
example : cellS fn_parse_int "" = .ok (.atom .none) := by decide +kernel
example : cellS fn_parse_int "-3" = .ok (.atom (.num (-3))) := by decide +kernel
example : cellS fn_parse_int "0" = .ok (.atom (.num 0)) := by decide +kernel
/-- `__parse_bool`: the model's `ms == "True"` -/
example : cellS fn_parse_bool "True" = .ok (.atom (.bool ("True".toList == "True".toList))) := by decide +kernel
example : cellS fn_parse_bool "False" = .ok (.atom (.bool false)) := by decide +kernel
example : cellS fn_parse_bool "" = .ok (.atom (.bool false)) := by decide +kernel
example : cellS fn_parse_bool "true" = .ok (.atom (.bool false)) := by decide +kernel
/-- `__parse_predecessors`: the model's `splitOn ';'`, every id through `int` -/
example : cellS fn_parse_predecessors "" = .ok (.list []) := by decide +kernel
example : cellS fn_parse_predecessors "-3;5;0" = .ok (.list [.num (-3), .num 5, .num 0]) := by decide +kernel
example : cellS fn_parse_predecessors "1;;2" = .error (.crash .value) := by decide +kernel
/-- `__format_custom`: a datetime is formatted, anything else (falsy values too) is passed on -/
example : interpCell sampleLib FF fn_format_custom (.time (day 2024 3 9)) = .ok (.atom (litA "09.03.24")) := by decide +kernel
example : interpCell sampleLib FF fn_format_custom (.num 0) = .ok (.atom (.num 0)) := by decide +kernel
example : interpCell sampleLib FF fn_format_custom (.bool false) = .ok (.atom (.bool false)) := by decide +kernel
example : interpCell sampleLib FF fn_format_custom .none = .ok (.atom .none) := by decide +kernel
example : interpCell sampleLib FF fn_format_custom (litA "") = .ok (.atom (litA "")) := by decide +kernel

/-- `__parse_header` on a row (a list object): name ↦ index, BOM removed, a repeated name keeps the last = `headerIndex` -/
def headerRun (hdr : List String) : Res Val :=
  (runIO sampleLib csvFuns FF fn_parse_header [.atom (.box 0)]
    { emptySt with boxes := [hdr.map litA] }).map (·.1)

def headerModel (hdr : List String) : Val :=
  let h := hdr.map String.toList
  let clean := (h.map (fun x => x.filter (fun c => c != '﻿'))).eraseDups
  .dict (clean.filterMap (fun n => (headerIndex h n).map (fun i => (strA n, Atom.num ((i : Nat) : Rat)))))

example : headerRun ["﻿id", "name", "x", "name"] = .ok (headerModel ["﻿id", "name", "x", "name"]) := by
  decide +kernel
example : headerRun [] = .ok (headerModel []) := by decide +kernel

/-- round trip of the sample library on the dates / numbers used -/
example : sampleStrptime (sampleStrftime (day 1999 12 31)) = .ok (day 1999 12 31) := by decide +kernel
example : sampleFloat (sampleStrNum (5/2)) = .ok (5/2) := by decide +kernel

end Pj.CsvSrc.Check
