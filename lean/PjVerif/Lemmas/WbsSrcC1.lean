/-
  Lemmas/WbsSrcC1.lean — stage 3 of the translated tie for wbs.py, part 1: the dicts `all_tasks` / `cloned_tasks`
  (keyed by task id) against the model's identity-based `dedupFirst` / `cloneOf`, dict comprehensions, the
  constructors.  See Lemmas/WbsSrc.lean.
-/
import PjVerif.Lemmas.WbsSrcB
namespace Pj.WbsSrc
open Pj.PyLite Pj.Extracted Pj.TaskSrc
set_option linter.unusedSimpArgs false
set_option linter.unusedVariables false

/-! ### dicts keyed by task id -/

/-- the id of `x` is carried by no other task of `l` -/
def IdInjOn (s : G) (l : List Uid) (x : Uid) : Prop := ∀ a ∈ l, s.tid a = s.tid x → a = x

/-- `{task.id: task for task in l}` when the ids are distinct -/
def allDict (s : G) (l : List Uid) : List (Atom × Atom) := l.map (fun t => (idA (s.tid t), Atom.ref t))

/-- `{task.id: <clone of task> for task in l}`, the clones being the objects `m, m + 1, …` -/
def cloneDict (s : G) : Nat → List Uid → List (Atom × Atom)
  | _, [] => []
  | m, t :: l => (idA (s.tid t), Atom.ref m) :: cloneDict s (m + 1) l

theorem insert_present (s : G) (x : Uid) : ∀ (l : List Uid), x ∈ l → IdInjOn s l x →
    Dict.insert (allDict s l) (idA (s.tid x)) (Atom.ref x) = allDict s l := by
  intro l
  induction l with
  | nil => intro h; cases h
  | cons h l ih =>
    intro hx hinj
    simp only [allDict, List.map_cons, Dict.insert, pyEq_idA]
    by_cases e : s.tid h = s.tid x
    · have : h = x := hinj h List.mem_cons_self e
      subst this
      simp
    · have hne : h ≠ x := fun e' => e (by rw [e'])
      have hx' : x ∈ l := by
        rcases List.mem_cons.1 hx with e' | e'
        · exact absurd e'.symm hne
        · exact e'
      simp only [e, decide_false, Bool.false_eq_true, if_false]
      congr 1
      exact ih hx' (fun a ha => hinj a (List.mem_cons_of_mem _ ha))

theorem insert_absent (s : G) (k v : Atom) (i : Int) (hk : k = idA i) : ∀ (l : List Uid), (∀ a ∈ l, s.tid a ≠ i) →
    Dict.insert (allDict s l) k v = allDict s l ++ [(k, v)] := by
  intro l
  subst hk
  induction l with
  | nil => intro _; rfl
  | cons h l ih =>
    intro hne
    have e : s.tid h ≠ i := hne h List.mem_cons_self
    simp only [allDict, List.map_cons, Dict.insert, pyEq_idA, e, decide_false, Bool.false_eq_true, if_false,
      List.cons_append]
    congr 1
    exact ih (fun a ha => hne a (List.mem_cons_of_mem _ ha))

/-- the dict built from the list `L` of tasks (with repetitions) holds one entry per task, in the order of the first
    occurrences, provided different tasks of `L` have different ids -/
theorem ofList_allDict (s : G) (L : List Uid) (hinj : ∀ x ∈ L, IdInjOn s L x) :
    Dict.ofList (L.map (fun t => (idA (s.tid t), Atom.ref t))) = allDict s L.eraseDups := by
  unfold Dict.ofList
  rw [eraseDups_eq_fold]
  have key : ∀ (l : List Uid) (bs : List Uid), (∀ x ∈ bs ++ l, IdInjOn s (bs ++ l) x) →
      (l.map (fun t => (idA (s.tid t), Atom.ref t))).foldl (fun d p => Dict.insert d p.1 p.2) (allDict s bs.reverse) =
        allDict s (l.foldl uniqStep bs).reverse := by
    intro l
    induction l with
    | nil => intro bs _; rfl
    | cons a l ih =>
      intro bs hI
      simp only [List.map_cons, List.foldl_cons]
      have hI' : ∀ x ∈ (uniqStep bs a) ++ l, IdInjOn s (uniqStep bs a ++ l) x := by
        have hsub : ∀ y, y ∈ uniqStep bs a ++ l → y ∈ bs ++ a :: l := by
          intro y hy
          unfold uniqStep at hy
          split at hy
          · rcases List.mem_append.1 hy with h | h
            · exact List.mem_append_left _ h
            · exact List.mem_append_right _ (List.mem_cons_of_mem _ h)
          · rcases List.mem_append.1 hy with h | h
            · rcases List.mem_cons.1 h with h | h
              · subst h; exact List.mem_append_right _ List.mem_cons_self
              · exact List.mem_append_left _ h
            · exact List.mem_append_right _ (List.mem_cons_of_mem _ h)
        intro x hx b hb
        exact hI x (hsub x hx) b (hsub b hb)
      have hstep : Dict.insert (allDict s bs.reverse) (idA (s.tid a)) (Atom.ref a) =
          allDict s (uniqStep bs a).reverse := by
        unfold uniqStep
        by_cases hc : bs.contains a = true
        · rw [if_pos hc]
          have ha : a ∈ bs.reverse := by simpa using hc
          apply insert_present s a _ ha
          intro b hb
          exact hI a (List.mem_append_right _ List.mem_cons_self) b
            (List.mem_append_left _ (by simpa using hb))
        · rw [if_neg hc]
          have ha : a ∉ bs := by simpa using hc
          rw [insert_absent s _ _ (s.tid a) rfl]
          · simp [allDict]
          · intro b hb e
            have hb' : b ∈ bs := by simpa using hb
            have := hI a (List.mem_append_right _ List.mem_cons_self) b (List.mem_append_left _ hb') e
            exact ha (this ▸ hb')
      rw [hstep]
      exact ih (uniqStep bs a) hI'
  have := key L [] (by simpa using hinj)
  simpa [allDict] using this

theorem allDict_get (s : G) (x : Uid) : ∀ (l : List Uid), x ∈ l → IdInjOn s l x →
    Dict.get? (allDict s l) (idA (s.tid x)) = some (Atom.ref x) := by
  intro l
  induction l with
  | nil => intro h; cases h
  | cons h l ih =>
    intro hx hinj
    simp only [allDict, List.map_cons, Dict.get?, List.find?_cons, pyEq_idA]
    by_cases e : s.tid h = s.tid x
    · have : h = x := hinj h List.mem_cons_self e
      subst this
      simp
    · have hne : h ≠ x := fun e' => e (by rw [e'])
      have hx' : x ∈ l := by
        rcases List.mem_cons.1 hx with e' | e'
        · exact absurd e'.symm hne
        · exact e'
      simp only [e, decide_false]
      exact ih hx' (fun a ha => hinj a (List.mem_cons_of_mem _ ha))

theorem allDict_values (s : G) (l : List Uid) : (allDict s l).map (·.2) = l.map Atom.ref := by
  simp [allDict]

theorem cloneOf_cons (n : Nat) (h : Uid) (l : List Uid) (x : Uid) :
    cloneOf n (h :: l) x = if h = x then some n else cloneOf (n + 1) l x := by
  unfold cloneOf
  simp only [List.idxOf?_cons]
  by_cases e : h = x
  · simp [e]
  · have : (h == x) = false := by simpa using e
    simp only [this, e, if_false, Bool.false_eq_true]
    cases l.idxOf? x with
    | none => rfl
    | some i => simp only [Option.map_some]; exact congrArg some (by show (n + (i + 1) : Nat) = n + 1 + i; omega)

/-- looking the id of `x` up in `cloned_tasks` = the model's `cloneOf`, provided no other selected task has that id -/
theorem cloneDict_get (s : G) (x : Uid) : ∀ (l : List Uid) (m : Nat), IdInjOn s l x →
    Dict.get? (cloneDict s m l) (idA (s.tid x)) = (cloneOf m l x).map Atom.ref := by
  intro l
  induction l with
  | nil => intro m _; rfl
  | cons h l ih =>
    intro m hinj
    simp only [cloneDict, Dict.get?, List.find?_cons, pyEq_idA, cloneOf_cons]
    by_cases e : s.tid h = s.tid x
    · have : h = x := hinj h List.mem_cons_self e
      subst this
      simp
    · have hne : h ≠ x := fun e' => e (by rw [e'])
      simp only [e, decide_false, hne, if_false]
      exact ih (m + 1) (fun a ha => hinj a (List.mem_cons_of_mem _ ha))

/-- the pairs of `cloned_tasks` have distinct keys: the dict is the list of the pairs -/
theorem ofList_cloneDict (s : G) : ∀ (l : List Uid) (m : Nat), l.Nodup → (∀ x ∈ l, IdInjOn s l x) →
    ∀ (pre : List (Atom × Atom)), (∀ p ∈ pre, ∀ x ∈ l, p.1.pyEq (idA (s.tid x)) = false) →
      (cloneDict s m l).foldl (fun d p => Dict.insert d p.1 p.2) pre = pre ++ cloneDict s m l := by
  intro l
  induction l with
  | nil => intro m _ _ pre _; simp [cloneDict]
  | cons h l ih =>
    intro m hnd hinj pre hpre
    simp only [cloneDict, List.foldl_cons]
    have hins : Dict.insert pre (idA (s.tid h)) (Atom.ref m) = pre ++ [(idA (s.tid h), Atom.ref m)] := by
      clear ih
      induction pre with
      | nil => rfl
      | cons p pre ihp =>
        have := hpre p List.mem_cons_self h List.mem_cons_self
        simp only [Dict.insert, this, Bool.false_eq_true, if_false, List.cons_append]
        congr 1
        exact ihp (fun q hq => hpre q (List.mem_cons_of_mem _ hq))
    rw [hins, ih (m + 1) (List.nodup_cons.1 hnd).2
      (fun x hx a ha => hinj x (List.mem_cons_of_mem _ hx) a (List.mem_cons_of_mem _ ha))]
    · simp
    · intro p hp x hx
      rcases List.mem_append.1 hp with hp | hp
      · exact hpre p hp x (List.mem_cons_of_mem _ hx)
      · simp only [List.mem_singleton] at hp
        subst hp
        rw [pyEq_idA]
        have hne : h ≠ x := fun e => (List.nodup_cons.1 hnd).1 (e ▸ hx)
        have : s.tid h ≠ s.tid x := fun e =>
          hne (hinj x (List.mem_cons_of_mem _ hx) h List.mem_cons_self e)
        simpa using this

theorem ofList_cloneDict' (s : G) (l : List Uid) (m : Nat) (hnd : l.Nodup) (hinj : ∀ x ∈ l, IdInjOn s l x) :
    Dict.ofList (cloneDict s m l) = cloneDict s m l := by
  unfold Dict.ofList
  rw [ofList_cloneDict s l m hnd hinj [] (fun p hp => by cases hp)]
  rfl

/-! ### dict comprehensions -/

theorem pairLoopP_pure (f : Atom → PState → Res (Option (Atom × Atom) × PState)) (g : Atom → Option (Atom × Atom))
    (st : PState) (vs : List Atom) (h : ∀ v ∈ vs, f v st = .ok (g v, st)) :
    pairLoopP f vs st = .ok (vs.filterMap g, st) := by
  induction vs with
  | nil => rfl
  | cons v vs ih =>
    have h1 := h v (List.mem_cons_self)
    have h2 := ih (fun w hw => h w (List.mem_cons_of_mem _ hw))
    simp only [pairLoopP, h1, h2, bind, Except.bind, pure, Except.pure, List.filterMap_cons]
    cases g v <;> rfl

/-- `{k: v for x in it}` whose key and value only read -/
theorem evalP_dictComp_pure (H : PHandlers) (self ρ : PyLite.Env) (st0 st : PState) (k v it : Expr) (x : String)
    (vs : List Atom) (ke ve : Atom → Atom)
    (hit : it.evalP H self ρ st0 = .ok (.list vs, st))
    (hk : ∀ a ∈ vs, k.evalP H self (ρ.set x a) st = .ok (.atom (ke a), st))
    (hv : ∀ a ∈ vs, v.evalP H self (ρ.set x a) st = .ok (.atom (ve a), st)) :
    (Expr.dictComp k v x it (.bool true)).evalP H self ρ st0 =
      .ok (.dict (Dict.ofList (vs.map (fun a => (ke a, ve a)))), st) := by
  simp only [Expr.evalP, hit, bind, Except.bind, pure, Except.pure, iterOf]
  rw [pairLoopP_pure (g := fun a => some (ke a, ve a))]
  · simp [List.filterMap_eq_map']
  · intro a ha
    simp [hk a ha, hv a ha, truthP, pure, Except.pure]

/-! ### the constructors -/

/-- the state with another store and allocation pointer -/
def setHR (st : PState) (h : Nat → PyLite.Env) (r : Nat) : PState := { st with heap := h, reads := r }

@[simp] theorem setHR_heap (st : PState) (h : Nat → PyLite.Env) (r : Nat) : (setHR st h r).heap = h := rfl
@[simp] theorem setHR_reads (st : PState) (h : Nat → PyLite.Env) (r : Nat) : (setHR st h r).reads = r := rfl
theorem setHR_setHR (st : PState) (h h' : Nat → PyLite.Env) (r r' : Nat) :
    setHR (setHR st h r) h' r' = setHR st h' r' := rfl
theorem withG_setHR (st : PState) (h : Nat → PyLite.Env) (r : Nat) (s : G) :
    withG (setHR st h r) s = setHR st (encHeap s) r := rfl
theorem setHR_self (st : PState) : setHR st st.heap st.reads = st := rfl
theorem alloc_eq (st : PState) (obj : PyLite.Env) :
    alloc st obj = setHR st (fun j => if j = st.reads then obj else st.heap j) (st.reads + 1) := rfl

/-- the store after `Task.clone()` of the tasks `l`, in order, starting at the object `m` -/
def cloneHeap (s : G) (h : Nat → PyLite.Env) (m : Nat) (l : List Uid) : Nat → PyLite.Env :=
  fun u => if m ≤ u ∧ u < m + l.length then newTask (.atom (idA (s.tid (l.getD (u - m) 0)))) .none else h u

theorem cloneHeap_nil (s : G) (h : Nat → PyLite.Env) (m : Nat) : cloneHeap s h m [] = h := by
  funext u
  simp only [cloneHeap, List.length_nil, Nat.add_zero]
  rw [if_neg (by omega)]

theorem cloneHeap_cons (s : G) (h : Nat → PyLite.Env) (m : Nat) (t : Uid) (l : List Uid) :
    cloneHeap s (fun j => if j = m then newTask (.atom (idA (s.tid t))) .none else h j) (m + 1) l =
      cloneHeap s h m (t :: l) := by
  funext u
  simp only [cloneHeap, List.length_cons]
  by_cases h1 : m + 1 ≤ u ∧ u < m + 1 + l.length
  · rw [if_pos h1, if_pos (by omega)]
    have : u - m = (u - (m + 1)) + 1 := by omega
    rw [this, List.getD_cons_succ]
  · rw [if_neg h1]
    by_cases h2 : u = m
    · subst h2
      rw [if_pos rfl, if_pos (by omega)]
      simp
    · rw [if_neg h2, if_neg (by omega)]

/-- `{task.id: task.clone() for task in l}`: the clones are the objects `reads, reads + 1, …`; `f` = one step of the
    comprehension -/
theorem pairLoopP_clone (s : G) (f : Atom → PState → Res (Option (Atom × Atom) × PState))
    (hf : ∀ t st, (st.heap t).get? "id" = some (.atom (idA (s.tid t))) →
      f (.ref t) st = .ok (some (idA (s.tid t), .ref st.reads), alloc st (newTask (.atom (idA (s.tid t))) .none))) :
    ∀ (l : List Uid) (st : PState),
      (∀ t ∈ l, t < st.reads ∧ (st.heap t).get? "id" = some (.atom (idA (s.tid t)))) →
      pairLoopP f (l.map Atom.ref) st =
        .ok (cloneDict s st.reads l, setHR st (cloneHeap s st.heap st.reads l) (st.reads + l.length)) := by
  intro l
  induction l with
  | nil =>
    intro st _
    simp only [List.map_nil, pairLoopP, cloneDict, pure, Except.pure, cloneHeap_nil, List.length_nil, Nat.add_zero]
    rfl
  | cons t l ih =>
    intro st hl
    obtain ⟨ht, hid⟩ := hl t List.mem_cons_self
    have hstep : ∀ u ∈ l, u < (alloc st (newTask (.atom (idA (s.tid t))) .none)).reads ∧
        ((alloc st (newTask (.atom (idA (s.tid t))) .none)).heap u).get? "id" = some (.atom (idA (s.tid u))) := by
      intro u hu
      obtain ⟨hu1, hu2⟩ := hl u (List.mem_cons_of_mem _ hu)
      refine ⟨Nat.lt_succ_of_lt hu1, ?_⟩
      simp only [alloc]
      rw [if_neg (Nat.ne_of_lt hu1)]
      exact hu2
    have := ih _ hstep
    simp only [List.map_cons, pairLoopP, hf t st hid, this, bind, Except.bind, pure, Except.pure]
    simp only [cloneDict, alloc_eq, setHR_heap, setHR_reads, setHR_setHR, cloneHeap_cons, List.length_cons]
    have e : st.reads + 1 + l.length = st.reads + (l.length + 1) := by omega
    rw [e]

/-! ### `link_target` -/

variable (filt : List Atom → PState → List Uid)

theorem wf_link_target : wbsFuns fn_WBS_clone_tasks_link_target =
    some (src_WBS_clone_tasks_link_target_params, src_WBS_clone_tasks_link_target) := rfl

/-- the closure `link_target(task)` of `__clone_tasks`: a task of another WBS / a detached task is returned as it is,
    a member of this WBS is looked up by its id in `cloned_tasks` -/
theorem link_target_spec (g : G) (st : PState) (hh : st.heap = encHeap g) (w x : Uid) (D : List (Atom × Atom))
    (F : Nat) :
    (Hw filt (F + 1)).fnV fn_WBS_clone_tasks_link_target [.atom (.ref w), .dict D, .atom (.ref x)] st =
      .ok (.atom (if g.owner x = some w then (match Dict.get? D (idA (g.tid x)) with | some v => v | none => .none)
        else .ref x), st) := by
  rw [fnW_top _ _ _ _ _ wf_link_target]
  cases ho : g.owner x with
  | none =>
    pyw [src_WBS_clone_tasks_link_target_params, src_WBS_clone_tasks_link_target, hh, ho, pyEq_none_ref]
  | some w' =>
    by_cases e : w' = w
    · subst e
      cases hd : Dict.get? D (idA (g.tid x)) <;>
        pyw [src_WBS_clone_tasks_link_target_params, src_WBS_clone_tasks_link_target, hh, ho, pyEq_ref, hd]
    · have e' : ¬ (some w' = some w) := fun h => e (Option.some.inj h)
      pyw [src_WBS_clone_tasks_link_target_params, src_WBS_clone_tasks_link_target, hh, ho, pyEq_ref, e, e']

/-! ### `__clone_tasks`: collecting the selection -/

theorem wf_clone_tasks : wbsFuns fn_WBS_clone_tasks = some (src_WBS_clone_tasks_params, src_WBS_clone_tasks) := rfl

def ctCollect : Stmt := match src_WBS_clone_tasks with | _ :: l :: _ => l | _ => .pass
def ctCollectBody : List Stmt := match ctCollect with | .forIn _ _ b => b | _ => []
def ctLoop : Stmt := match src_WBS_clone_tasks with | [_, _, _, _, l, _] => l | _ => .pass
def ctBody : List Stmt := match ctLoop with | .forIn _ _ b => b | _ => []

theorem ct_shape : src_WBS_clone_tasks =
    [.assign "all_tasks_list" .listNil, ctCollect,
     .assign "all_tasks" (.dictComp (.attr (.var "task") "id") (.var "task") "task" (.var "all_tasks_list") (.bool true)),
     .assign "cloned_tasks" (.dictComp (.attr (.var "task") "id")
       (.callVal (.fnRef pf_Task_clone) (.listCons (.var "task") .listNil)) "task" (.dictValues (.var "all_tasks"))
       (.bool true)),
     ctLoop, .ret (.var "cloned_tasks")] := rfl
theorem ctCollect_eq : ctCollect = .forIn "r" (.var "roots") ctCollectBody := rfl
theorem ctCollectBody_eq : ctCollectBody =
    [.aug "all_tasks_list" .add (.listCons (.var "r") .listNil),
     .aug "all_tasks_list" .add (.listComp (.var "t") "t"
       (.callFn fn_Task_get_all_children (.listCons (.var "r") .listNil)) (.bool true))] := rfl
theorem ctLoop_eq : ctLoop = .forIn "t" (.dictValues (.var "all_tasks")) ctBody := rfl

/-- the selection of the model: every root followed by everything below it -/
theorem subs_eq (s : G) (roots : List Uid) (subs : List (List Uid))
    (h : roots.mapM (fun r => subtreeF s.children s.fuel r) = some subs) :
    subs = roots.map (fun r => r :: dsc s.children s.fuel r) ∧
    ∀ r ∈ roots, descF s.children s.fuel r = some (dsc s.children s.fuel r) := by
  constructor
  · apply mapM_some_eq_map _ _ _ _ h
    intro a _ b hb
    unfold subtreeF at hb
    cases hd : descF s.children s.fuel a with
    | none => rw [hd] at hb; cases hb
    | some d => rw [hd] at hb; simp only [Option.map_some] at hb; cases hb; simp [dsc, hd]
  · intro r hr
    obtain ⟨b, _, hb⟩ := mapM_some_mem _ _ _ h r hr
    unfold subtreeF at hb
    cases hd : descF s.children s.fuel r with
    | none => rw [hd] at hb; cases hb
    | some d => simp [dsc, hd]

/-- `for r in roots: all_tasks_list.append(r); all_tasks_list += [t for t in r.all_children]` -/
theorem ct_collect (s : G) (st : PState) (hh : st.heap = encHeap s) (roots : List Uid) (subs : List (List Uid))
    (hsubs : roots.mapM (fun r => subtreeF s.children s.fuel r) = some subs) (F : Nat) (hF : s.n + 2 ≤ F)
    (ρ : PyLite.Env) (hroots : ρ.get? "roots" = some (refs roots))
    (hacc : ρ.get? "all_tasks_list" = some (.list [])) :
    ∃ ρ', ctCollect.execP (Hw filt F) [] noRec ρ st = .normal ρ' st ∧
      ρ'.get? "all_tasks_list" = some (refs subs.flatten) ∧
      ∀ x, x ≠ "r" → x ≠ "all_tasks_list" → ρ'.get? x = ρ.get? x := by
  obtain ⟨hsub, hdesc⟩ := subs_eq s roots subs hsubs
  rw [ctCollect_eq, execP_forIn (vs := roots.map Atom.ref) (st' := st) (hit := evalP_var _ _ _ _ _ _ hroots)]
  have hl := forLoopP_acc "r" "all_tasks_list" (fun ρ st => execBlockP (Hw filt F) [] noRec ctCollectBody ρ st)
    (fun ρ' => ∀ x, x ≠ "r" → x ≠ "all_tasks_list" → ρ'.get? x = ρ.get? x)
    (fun a => match a with | .ref r => (r :: dsc s.children s.fuel r).map Atom.ref | _ => []) st
    (roots.map Atom.ref)
    (by
      intro ρ1 a v hv hP ha
      obtain ⟨r, hr, rfl⟩ := List.mem_map.1 hv
      obtain ⟨F', rfl⟩ : ∃ F', F = F' + 1 := ⟨F - 1, by omega⟩
      have hg := get_all_children_spec s st hh s.fuel r _ (hdesc r hr) (F' + 1) (by unfold G.fuel; omega)
      refine ⟨Env.set (Env.set (Env.set ρ1 "r" (.atom (.ref r))) "all_tasks_list" (.list (a ++ [Atom.ref r])))
        "all_tasks_list" (.list (a ++ [Atom.ref r] ++ (dsc s.children s.fuel r).map Atom.ref)), ?_, ?_, ?_⟩
      · intro x h1 h2
        rw [Env.get?_set, if_neg (Ne.symm h2), Env.get?_set, if_neg (Ne.symm h2), Env.get?_set, if_neg (Ne.symm h1)]
        exact hP x h1 h2
      · rw [Env.get?_set, if_pos rfl]
        simp
      · rw [ctCollectBody_eq, execBlockP_cons]
        have h1 : (Stmt.aug "all_tasks_list" .add (.listCons (.var "r") .listNil)).execP (Hw filt (F' + 1)) [] noRec
            (Env.set ρ1 "r" (.atom (.ref r))) st =
            .normal (Env.set (Env.set ρ1 "r" (.atom (.ref r))) "all_tasks_list" (.list (a ++ [Atom.ref r]))) st := by
          have hget : (Env.set ρ1 "r" (.atom (.ref r))).get? "all_tasks_list" = some (.list a) := by
            rw [Env.get?_set, if_neg (by decide)]; exact ha
          simp only [Stmt.execP, hget, Expr.evalP, Env.get?_set, if_true, bind, Except.bind, pure, Except.pure,
            arithP]
        rw [h1]
        simp only []
        rw [execBlockP_cons]
        have h2 : (Stmt.aug "all_tasks_list" .add (.listComp (.var "t") "t"
            (.callFn fn_Task_get_all_children (.listCons (.var "r") .listNil)) (.bool true))).execP
            (Hw filt (F' + 1)) [] noRec
            (Env.set (Env.set ρ1 "r" (.atom (.ref r))) "all_tasks_list" (.list (a ++ [Atom.ref r]))) st =
            .normal (Env.set (Env.set (Env.set ρ1 "r" (.atom (.ref r))) "all_tasks_list" (.list (a ++ [Atom.ref r])))
              "all_tasks_list" (.list (a ++ [Atom.ref r] ++ (dsc s.children s.fuel r).map Atom.ref))) st := by
          have hget : (Env.set (Env.set ρ1 "r" (.atom (.ref r))) "all_tasks_list" (.list (a ++ [Atom.ref r]))).get?
              "all_tasks_list" = some (.list (a ++ [Atom.ref r])) := by
            rw [Env.get?_set, if_pos rfl]
          have hcomp := evalP_listComp_id (Hw filt (F' + 1)) []
            (Env.set (Env.set ρ1 "r" (.atom (.ref r))) "all_tasks_list" (.list (a ++ [Atom.ref r]))) st st
            (.callFn fn_Task_get_all_children (.listCons (.var "r") .listNil)) "t"
            ((dsc s.children s.fuel r).map Atom.ref)
            (by
              rw [evalP_callFn1 (ha := evalP_var _ _ _ _ _ _
                (by rw [Env.get?_set, if_neg (by decide), Env.get?_set, if_pos rfl])),
                fnW_base _ _ _ wf_base_get_all_children, hg]
              rfl)
          simp only [Stmt.execP, hget, hcomp, arithP, pure, Except.pure]
        rw [h2]
        rfl)
    ρ [] (fun _ _ _ => rfl) hacc
  obtain ⟨ρ', hP', hacc', hloop⟩ := hl
  refine ⟨ρ', hloop, ?_, hP'⟩
  rw [hacc', hsub]
  simp only [List.nil_append, refs]
  congr 2
  clear hloop hacc' hP' hsubs hsub hdesc hroots
  induction roots with
  | nil => rfl
  | cons r roots ih =>
    simp only [List.map_cons, List.flatMap_cons, List.flatten_cons, List.map_append]
    simp only [List.map_cons] at ih
    rw [ih]

end Pj.WbsSrc
