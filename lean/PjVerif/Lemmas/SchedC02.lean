/-
  Lemmas/SchedC02.lean — helper lemmas for Props/C02.lean (pass-level reasoning on top of Lemmas/SchedPass.lean):
  the invariant `C02Inv` carried through the forward pass, the collapse of `prereqLeaves` to the own predecessors
  when no summary task carries a link, `C02_partial_v2` (the provable form of `C02_partial`) and kernel-checked
  counterexamples showing that its two extra hypotheses cannot be dropped.
-/
import PjVerif.Lemmas.SchedPass
import PjVerif.Spec.Sched2
namespace Pj

/-! helper lemmas live in `Pj.C02` (sibling lemma files use some of the same short names) -/
namespace C02

theorem dayOf_mono {a b : Time} (h : a ≤ b) : dayOf a ≤ dayOf b := by
  unfold dayOf
  have h1 : ((a.floor : Int) : Rat) ≤ a := Rat.le_floor_iff.1 (Int.le_refl _)
  exact Rat.le_floor_iff.2 (Rat.le_trans h1 h)

theorem maxT_ge_left (a b : Time) : a ≤ maxT a b := by unfold maxT; split <;> grind
theorem maxT_ge_right (a b : Time) : b ≤ maxT a b := by unfold maxT; split <;> grind

theorem foldl_maxT_ge : ∀ (l : List Time) (a : Time), a ≤ l.foldl maxT a ∧ ∀ x ∈ l, x ≤ l.foldl maxT a
  | [], a => ⟨Rat.le_refl, by simp⟩
  | y :: ys, a => by
    obtain ⟨h1, h2⟩ := foldl_maxT_ge ys (maxT a y)
    simp only [List.foldl_cons]
    refine ⟨Rat.le_trans (maxT_ge_left a y) h1, ?_⟩
    intro x hx
    rcases List.mem_cons.1 hx with rfl | hx
    · exact Rat.le_trans (maxT_ge_right a x) h1
    · exact h2 x hx

theorem foldl_maxT_swap : ∀ (l : List Time) (a b : Time), l.foldl maxT (maxT a b) = maxT (l.foldl maxT a) b
  | [], _, _ => rfl
  | y :: ys, a, b => by
    simp only [List.foldl_cons]
    rw [← foldl_maxT_swap ys (maxT a y) b]
    congr 1
    unfold maxT; split <;> split <;> (try split) <;> (try split) <;> grind

/-- `max(ends + [bound])` in the terms of `latestPrereqEnd` -/
theorem foldl_maxT_maxOpt (l : List Time) (b : Time) :
    l.foldl maxT b = (match maxOpt l with | some e => maxT e b | none => b) := by
  cases l with
  | nil => rfl
  | cons x xs =>
    simp only [List.foldl_cons, maxOpt]
    rw [← foldl_maxT_swap]
    congr 1
    unfold maxT; split <;> split <;> grind

theorem maxEnds_ge (σ : SS) (l : List Uid) (m : Time) :
    m ≤ maxEnds σ l m ∧ ∀ p ∈ l, ∀ e, (σ.f p).end_ = some e → e ≤ maxEnds σ l m := by
  unfold maxEnds
  obtain ⟨h1, h2⟩ := foldl_maxT_ge (l.filterMap (fun t => (σ.f t).end_)) m
  refine ⟨h1, fun p hp e he => h2 e ?_⟩
  exact List.mem_filterMap.2 ⟨p, hp, he⟩

theorem maxEnds_congr (σ σ' : SS) (l : List Uid) (m : Time) (h : ∀ p ∈ l, σ'.f p = σ.f p) :
    maxEnds σ' l m = maxEnds σ l m := by
  unfold maxEnds
  congr 1
  induction l with
  | nil => rfl
  | cons x xs ih =>
    simp only [List.filterMap_cons, h x List.mem_cons_self]
    rw [ih (fun p hp => h p (List.mem_cons_of_mem _ hp))]



/-- `fillEst` touches neither dates nor rows -/
theorem fillEst_dates (env : Env) (t : Uid) (σ σ' : SS) (h : fillEst env t σ = .ok σ') :
    (σ'.f t).start = (σ.f t).start ∧ (σ'.f t).end_ = (σ.f t).end_ ∧ σ'.rows = σ.rows ∧ σ'.reads = σ.reads := by
  unfold fillEst at h
  simp only [bind, Except.bind] at h
  split at h
  · cases h
  · rename_i σ1 h1
    have s1 : (σ1.f t).start = (σ.f t).start ∧ (σ1.f t).end_ = (σ.f t).end_ ∧ σ1.rows = σ.rows ∧ σ1.reads = σ.reads := by
      split at h1
      · cases h1; exact ⟨rfl, rfl, rfl, rfl⟩
      · split at h1
        · cases h1; simp [setF]
        · split at h1
          · cases h1
          · cases h1; simp [setF]
    have s2 : (σ'.f t).start = (σ1.f t).start ∧ (σ'.f t).end_ = (σ1.f t).end_ ∧ σ'.rows = σ1.rows ∧ σ'.reads = σ1.reads := by
      split at h
      · cases h; exact ⟨rfl, rfl, rfl, rfl⟩
      · split at h
        · cases h; simp [setF]
        · split at h
          · cases h
          · cases h; simp [setF]
    exact ⟨s2.1.trans s1.1, s2.2.1.trans s1.2.1, s2.2.2.1.trans s1.2.2.1, s2.2.2.2.trans s1.2.2.2⟩

/-- the start the pass chooses for a leaf whose start is not fixed -/
theorem fwdStart_leaf (env : Env) (cal : Cal) (used : Int → Rat) (t : Uid) (v : Time) (σ σ' : SS)
    (hk : (env.info t).children = []) (hs : (σ.f t).start = none)
    (h : fwdStart env cal used t v σ = .ok σ') :
    ∃ s, nearestFwd cal used (maxT (maxT v (env.clock σ.reads)) ((env.info t).minStart.getD epoch)) = .ok s ∧
      (σ'.f t).start = some s ∧ σ'.rows = σ.rows := by
  unfold fwdStart at h
  simp only [hs, hk, List.isEmpty_nil, if_true, bind, Except.bind, now] at h
  split at h
  · cases h
  · rename_i s hn
    cases h
    exact ⟨s, hn, by simp [setF], rfl⟩

/-- the rows a leaf reserves lie on or after the day of its start; the start is kept -/
theorem fwdEnd_leaf (env : Env) (cal : Cal) (used : Int → Rat) (t : Uid) (σ σ' : SS)
    (hk : (env.info t).children = []) (hu : ∀ d, 0 ≤ used d)
    (h : fwdEnd env cal used t σ = .ok σ') :
    (σ'.f t).start = (σ.f t).start ∧
    ∃ new : List (Int × Rat), σ'.rows = σ.rows ++ new.map (mkRow (env.info t).resource t) ∧
      ∀ p ∈ new, dayOf (((σ.f t).start).getD epoch) ≤ p.1 := by
  unfold fwdEnd at h
  simp only at h
  split at h
  · cases h; exact ⟨rfl, [], by simp, by simp⟩
  · simp only [hk, List.isEmpty_nil, if_true, bind, Except.bind, now] at h
    split at h
    · cases h
    · rename_i r hr
      obtain ⟨e, rows⟩ := r
      cases h
      refine ⟨by simp [setF, addRows], rows, by simp [setF, addRows, mkRow], ?_⟩
      intro p hp
      obtain ⟨h0, h1⟩ := shiftFwd_spec cal used _ _ e rows (leftOf_nonneg _ _) hu hr
      by_cases hz : leftOf { σ with reads := σ.reads + 1 } t = 0
      · rw [(h0 hz).2] at hp; cases hp
      · obtain ⟨dayL, dauL, hsp, _⟩ := h1 (by have := leftOf_nonneg { σ with reads := σ.reads + 1 } t; grind)
        have := (hsp.range p hp).1
        have hm : dayOf (((σ.f t).start).getD epoch) ≤ dayOf (maxT (((σ.f t).start).getD epoch) (env.clock σ.reads)) :=
          dayOf_mono (maxT_ge_left _ _)
        omega


theorem fwdPlace_milestone (env : Env) (σ σ' : SS) (t : Uid) (v : Time) (hm : (env.info t).milestone = true)
    (h : fwdPlace env σ t v = .ok σ') :
    (σ'.f t).start = some v ∧ (σ'.f t).end_ = some v ∧ σ'.rows = σ.rows := by
  unfold fwdPlace at h
  rcases hr : resLookup σ.res (env.info t).resource with ⟨res', cal⟩
  simp only [hr, hm, if_true, bind, Except.bind, pure, Except.pure] at h
  cases h
  simp [markDone, setF]

/-- placement of a leaf whose start is not fixed: the start day is not before the day of the bound handed down,
    of the clock reading, of `min_start`; all rows lie on or after the start day -/
theorem fwdPlace_leaf (env : Env) (σ σ' : SS) (t : Uid) (v : Time)
    (hk : (env.info t).children = []) (hm : (env.info t).milestone = false) (hs : (σ.f t).start = none)
    (hpos : ∀ r ∈ σ.rows, 0 < r.units) (h : fwdPlace env σ t v = .ok σ') :
    ∃ s, (σ'.f t).start = some s ∧ dayOf v ≤ dayOf s ∧ dayOf (env.clock σ.reads) ≤ dayOf s ∧
      (∀ m, (env.info t).minStart = some m → dayOf m ≤ dayOf s) ∧
      ∃ new : List (Int × Rat), σ'.rows = σ.rows ++ new.map (mkRow (env.info t).resource t) ∧ ∀ p ∈ new, dayOf s ≤ p.1 := by
  unfold fwdPlace at h
  rcases hr : resLookup σ.res (env.info t).resource with ⟨res', cal⟩
  simp only [hr, hm, bind, Except.bind, pure, Except.pure] at h
  have hu : ∀ d, 0 ≤ usedBy env σ.rows (env.info t).resource t d := fun d => reserved_nonneg _ hpos _ _ _
  simp only [Bool.false_eq_true, if_false] at h
  split at h
  · cases h
  · rename_i σ1 h1
    split at h
    · cases h
    · rename_i σ2 h2
      split at h
      · cases h
      · rename_i σ3 h3
        cases h
        obtain ⟨s, hn, hs1, hr1⟩ := fwdStart_leaf env cal _ t v { σ with res := res' } σ1 hk hs h1
        obtain ⟨hs2, _, hr2, _⟩ := fillEst_dates env t σ1 σ2 h2
        obtain ⟨hs3, new, hr3, hnew⟩ := fwdEnd_leaf env cal _ t σ2 σ3 hk hu h3
        obtain ⟨d, c, hd, _, _, _, hds, _⟩ := nearestFwd_spec cal _ _ s hu hn
        have hs2' : (σ2.f t).start = some s := hs2.trans hs1
        refine ⟨s, hs3.trans hs2', ?_, ?_, ?_, new, ?_, ?_⟩
        · exact Int.le_trans (dayOf_mono (Rat.le_trans (maxT_ge_left _ _) (maxT_ge_left _ _))) (hds ▸ hd)
        · exact Int.le_trans (dayOf_mono (Rat.le_trans (maxT_ge_right _ _) (maxT_ge_left _ _))) (hds ▸ hd)
        · intro m hmm
          rw [hmm] at hd
          exact Int.le_trans (dayOf_mono (maxT_ge_right _ _)) (hds ▸ hd)
        · show σ3.rows = _
          rw [hr3, hr2, hr1]
        · intro p hp
          have := hnew p hp
          rw [hs2'] at this
          exact this

/-! ### a pass invariant whose placement step also knows that the same-side links are done -/

theorem passList_done_if (step : SS → Uid → Res SS) (P : Uid → Prop) :
    ∀ (xs : List Uid), (∀ σ x σ', x ∈ xs → step σ x = .ok σ' → Ext σ σ' ∧ (P x → x ∈ σ'.done)) →
      ∀ (σ σ' : SS), passList step σ xs = .ok σ' → ∀ x ∈ xs, P x → x ∈ σ'.done := by
  intro xs
  induction xs with
  | nil => intro _ σ σ' _ x hx; cases hx
  | cons y xs ih =>
    intro hstep σ σ' h x hx hp
    simp only [passList, bind, Except.bind] at h
    split at h
    · cases h
    · rename_i σ1 h1
      have hrest := fun σ z σ' (hz : z ∈ xs) => hstep σ z σ' (List.mem_cons_of_mem _ hz)
      rcases List.mem_cons.1 hx with rfl | hx
      · have he : Ext σ1 σ' := passList_rel Ext Ext.refl (fun _ _ _ => Ext.trans) step xs
          (fun σ z σ' hz hh => (hrest σ z σ' hz hh).1) σ1 σ' h
        exact he.done_sub ((hstep σ x σ1 List.mem_cons_self h1).2 hp)
      · exact ih hrest σ1 σ' h x hx hp

section generic2
variable (env : Env) (links kids : Uid → List Uid) (agg : SS → List Uid → Time → Time)
  (place : SS → Uid → Time → Time → Res SS)
  (hplace_ext : ∀ σ σ' t m v, t ∉ σ.done → place σ t m v = .ok σ' → Ext σ σ' ∧ σ'.done = σ.done ++ [t])
include hplace_ext

/-- like `gPass_inv`, with the date handed down tracked by `Q`; the placement step sees the state `σ1` the
    aggregate was computed in, knows that the links followed are done there, and that nothing happened in between
    when the task has no children -/
theorem gPass_inv2 (I : SS → Prop) (Q : Uid → Time → Prop)
    (hplace : ∀ σ1 σ σ' t m, Q t m → I σ → t ∉ σ.done → (∀ c ∈ kids t, c ∈ σ.done) → Ext σ1 σ →
      (∀ p ∈ links t, (env.info p).member = (env.info t).member → p ∈ σ1.done) → (kids t = [] → σ = σ1) →
      place σ t m (agg σ1 (links t) m) = .ok σ' → I σ')
    (hkids : ∀ σ t c m, Q t m → c ∈ kids t → Q c (agg σ (links t) m))
    (hlinks : ∀ t p m, Q t m → p ∈ links t → (env.info p).member = (env.info t).member → Q p m) :
    ∀ (fuel : Nat) (stk : List Uid) (σ : SS) (t : Uid) (m : Time) (σ' : SS),
      Q t m → I σ → gPass env links kids agg place fuel stk σ t m = .ok σ' → I σ' := by
  intro fuel
  induction fuel with
  | zero => intro stk σ t m σ' _ _ h; cases h
  | succ fuel ih =>
    intro stk σ t m σ' hq hi h
    rcases gPass_succ_cases env links kids agg place fuel stk σ t m σ' h with ⟨hd, rfl⟩ | ⟨hd, hs, σ1, σ2, h1, h2, h3⟩
    · exact hi
    · have hx := gPass_extS env links kids agg place hplace_ext fuel (t :: stk)
      have e1 : ExtS (t :: stk) σ σ1 := passList_extS _ _ _ (fun a x b _ hh => by
        split at hh
        · exact (hx _ _ _ _ hh).1
        · cases hh; exact ExtS.refl _ _) _ _ h1
      have e2 : ExtS (t :: stk) σ1 σ2 := passList_extS _ _ _ (fun a x b _ hh => (hx _ _ _ _ hh).1) _ _ h2
      have ht2 : t ∉ σ2.done := (e1.trans e2).2 t List.mem_cons_self hd
      have i1 : I σ1 := passList_inv I _ _ (fun a x b hxl ha hh => by
        split at hh
        · rename_i hm
          exact ih _ _ _ _ _ (hlinks t x m hq hxl (by simpa using hm)) ha hh
        · cases hh; exact ha) _ _ hi h1
      have i2 : I σ2 := passList_inv I _ _ (fun a x b hxl ha hh => ih _ _ _ _ _ (hkids σ1 t x m hq hxl) ha hh) _ _ i1 h2
      have hk : ∀ c ∈ kids t, c ∈ σ2.done := passList_all_done _ _ (fun a x b _ hh =>
        ⟨(hx _ _ _ _ hh).1.1, (hx _ _ _ _ hh).2⟩) _ _ h2
      have hl : ∀ p ∈ links t, (env.info p).member = (env.info t).member → p ∈ σ1.done :=
        passList_done_if _ (fun p => (env.info p).member = (env.info t).member) _ (fun a x b _ hh => by
          split at hh
          · exact ⟨(hx _ _ _ _ hh).1.1, fun _ => (hx _ _ _ _ hh).2⟩
          · rename_i hm
            cases hh
            exact ⟨Ext.refl _, fun hc => absurd (by simpa using hc) hm⟩) _ _ h1
      have h12 : kids t = [] → σ2 = σ1 := by
        intro hk0
        rw [hk0] at h2
        cases h2
        rfl
      exact hplace σ1 σ2 σ' t m hq i2 ht2 hk e2.1 hl h12 h3

end generic2

theorem fwdPass_inv2 (env : Env) (I : SS → Prop) (Q : Uid → Time → Prop)
    (hplace : ∀ σ1 σ σ' t m, Q t m → I σ → t ∉ σ.done → (∀ c ∈ (env.info t).children, c ∈ σ.done) → Ext σ1 σ →
      (∀ p ∈ (env.info t).preds, (env.info p).member = (env.info t).member → p ∈ σ1.done) →
      ((env.info t).children = [] → σ = σ1) →
      fwdPlace env σ t (maxEnds σ1 (env.info t).preds m) = .ok σ' → I σ')
    (hkids : ∀ σ t c m, Q t m → c ∈ (env.info t).children → Q c (maxEnds σ (env.info t).preds m))
    (hlinks : ∀ t p m, Q t m → p ∈ (env.info t).preds → (env.info p).member = (env.info t).member → Q p m)
    (fuel : Nat) (stk : List Uid) (σ : SS) (t : Uid) (m : Time) (σ' : SS) (hq : Q t m) (hi : I σ)
    (h : fwdPass env fuel stk σ t m = .ok σ') : I σ' := by
  rw [fwdPass_eq_gPass] at h
  exact gPass_inv2 env _ _ _ _ (fwdPlace_ext' env) I Q hplace hkids hlinks fuel stk σ t m σ' hq hi h

/-! ### the invariant behind C02 -/

/-- day `D` is not before the project start, the clock, `min_start` and the ends of the own predecessors -/
def Lower (env : Env) (σ : SS) (t : Uid) (D : Int) : Prop :=
  dayOf env.bound ≤ D ∧ dayOf (env.clock 0) ≤ D ∧ (∀ m, (env.info t).minStart = some m → dayOf m ≤ D) ∧
  ∀ p ∈ (env.info t).preds, ∀ e, (σ.f p).end_ = some e → dayOf e ≤ D

/-- what C02 says about a placed leaf, relative to the current state -/
def Good (env : Env) (finit : Uid → Fields) (σ : SS) (t : Uid) : Prop :=
  (∀ p ∈ (env.info t).preds, (env.info p).member = true → p ∈ σ.done) ∧
  ((env.info t).milestone = true →
    (σ.f t).start = some (maxEnds σ (env.info t).preds env.bound) ∧
    (σ.f t).end_ = some (maxEnds σ (env.info t).preds env.bound)) ∧
  ((env.info t).milestone = false → (finit t).start = none →
    ∃ s, (σ.f t).start = some s ∧ Lower env σ t (dayOf s) ∧ ∀ r ∈ σ.rows, r.task = t → dayOf s ≤ r.day)

structure C02Inv (env : Env) (finit : Uid → Fields) (σ : SS) : Prop where
  ledger : LedgerOK env σ
  doneMem : ∀ x ∈ σ.done, (env.info x).member = true
  init : ∀ x, x ∉ σ.done → σ.f x = finit x
  rowsDone : ∀ r ∈ σ.rows, r.task ∈ σ.done
  good : ∀ t ∈ σ.done, (env.info t).children = [] → Good env finit σ t

/-- the fields of the predecessors of a placed leaf do not change any more: the member ones are done, the
    others are never placed -/
theorem preds_frozen (env : Env) (σ σ' : SS) (t : Uid) (hext : Ext σ σ')
    (hdm : ∀ x ∈ σ'.done, (env.info x).member = true)
    (hp : ∀ p ∈ (env.info t).preds, (env.info p).member = true → p ∈ σ.done) :
    ∀ p ∈ (env.info t).preds, σ'.f p = σ.f p := by
  intro p hpp
  by_cases hm : (env.info p).member = true
  · exact hext.frozen p (hp p hpp hm)
  · exact hext.untouched p (fun hc => hm (hdm p hc))

theorem Good.ext {env : Env} {finit : Uid → Fields} {σ σ' : SS} {t : Uid} (hg : Good env finit σ t)
    (hext : Ext σ σ') (hdm : ∀ x ∈ σ'.done, (env.info x).member = true) (ht : t ∈ σ.done) :
    Good env finit σ' t := by
  obtain ⟨g1, g2, g3⟩ := hg
  have hpf := preds_frozen env σ σ' t hext hdm g1
  have htf : σ'.f t = σ.f t := hext.frozen t ht
  have hme := maxEnds_congr σ σ' (env.info t).preds env.bound hpf
  refine ⟨fun p hp hm => hext.done_sub (g1 p hp hm), ?_, ?_⟩
  · intro hm
    rw [htf, hme]; exact g2 hm
  · intro hm hs
    obtain ⟨s, h1, ⟨l1, l2, l3, l4⟩, h3⟩ := g3 hm hs
    refine ⟨s, by rw [htf]; exact h1, ⟨l1, l2, l3, ?_⟩, ?_⟩
    · intro p hp e he
      rw [hpf p hp] at he
      exact l4 p hp e he
    · intro r hr hrt
      obtain ⟨new, hnew, hn⟩ := hext.rows
      rw [hnew] at hr
      rcases List.mem_append.1 hr with hr | hr
      · exact h3 r hr hrt
      · exact absurd (hrt ▸ ht) (hn r hr).2

/-- one placement (of a member, under the project start as bound) keeps the invariant -/
theorem place_c02Inv (env : Env) (finit : Uid → Fields)
    (hclock : ∀ k, dayOf (env.clock k) = dayOf (env.clock 0))
    (σ σ' : SS) (t : Uid) (hmem : (env.info t).member = true) (hi : C02Inv env finit σ) (ht : t ∉ σ.done)
    (hl : ∀ p ∈ (env.info t).preds, (env.info p).member = (env.info t).member → p ∈ σ.done)
    (h : fwdPlace env σ t (maxEnds σ (env.info t).preds env.bound) = .ok σ') : C02Inv env finit σ' := by
  obtain ⟨hext, hd⟩ := fwdPlace_ext env σ σ' t _ ht h
  have hdm : ∀ x ∈ σ'.done, (env.info x).member = true := by
    intro x hx
    rw [hd] at hx
    rcases List.mem_append.1 hx with hx | hx
    · exact hi.doneMem x hx
    · simp only [List.mem_singleton] at hx
      subst hx; exact hmem
  refine ⟨fwdPlace_ledger env σ σ' t _ hi.ledger h, hdm, ?_, ?_, ?_⟩
  · intro x hx
    rw [hext.untouched x hx]
    exact hi.init x (fun hc => hx (hext.done_sub hc))
  · intro r hr
    obtain ⟨new, hnew, hn⟩ := hext.rows
    rw [hnew] at hr
    rcases List.mem_append.1 hr with hr | hr
    · exact hext.done_sub (hi.rowsDone r hr)
    · exact (hn r hr).1
  · intro t' ht' hk
    rw [hd] at ht'
    rcases List.mem_append.1 ht' with ht' | ht'
    · exact (hi.good t' ht' hk).ext hext hdm ht'
    · simp only [List.mem_singleton] at ht'
      subst ht'
      have g1 : ∀ p ∈ (env.info t').preds, (env.info p).member = true → p ∈ σ.done :=
        fun p hp hm => hl p hp (hm.trans hmem.symm)
      have hpf := preds_frozen env σ σ' t' hext hdm g1
      have hme := maxEnds_congr σ σ' (env.info t').preds env.bound hpf
      refine ⟨fun p hp hm => hext.done_sub (g1 p hp hm), ?_, ?_⟩
      · intro hm
        obtain ⟨h1, h2, _⟩ := fwdPlace_milestone env σ σ' t' _ hm h
        rw [hme]; exact ⟨h1, h2⟩
      · intro hm hs
        have hs' : (σ.f t').start = none := by rw [hi.init t' ht]; exact hs
        obtain ⟨s, h1, h2, h3, h4, new, hnew, hn⟩ :=
          fwdPlace_leaf env σ σ' t' _ hk hm hs' hi.ledger.pos h
        obtain ⟨m1, m2⟩ := maxEnds_ge σ (env.info t').preds env.bound
        refine ⟨s, h1, ⟨Int.le_trans (dayOf_mono m1) h2, (hclock σ.reads) ▸ h3, h4, ?_⟩, ?_⟩
        · intro p hp e he
          rw [hpf p hp] at he
          exact Int.le_trans (dayOf_mono (m2 p hp e he)) h2
        · intro r hr hrt
          rw [hnew] at hr
          rcases List.mem_append.1 hr with hr | hr
          · exact absurd (hrt ▸ hi.rowsDone r hr) ht
          · obtain ⟨p, hp, rfl⟩ := List.mem_map.1 hr
            exact hn p hp

/-! ### the whole run -/

theorem fwdPass_c02Inv (env : Env) (finit : Uid → Fields) (mem : List Uid)
    (hmemb : ∀ t, (env.info t).member = true ↔ t ∈ mem)
    (hkm : ∀ t ∈ mem, ∀ c ∈ (env.info t).children, c ∈ mem)
    (hsum : ∀ t ∈ mem, (env.info t).children ≠ [] → (env.info t).preds = [])
    (hclock : ∀ k, dayOf (env.clock k) = dayOf (env.clock 0))
    (fuel : Nat) (stk : List Uid) (σ : SS) (t : Uid) (σ' : SS) (ht : t ∈ mem) (hi : C02Inv env finit σ)
    (h : fwdPass env fuel stk σ t env.bound = .ok σ') : C02Inv env finit σ' := by
  refine fwdPass_inv2 env (C02Inv env finit) (fun t m => t ∈ mem ∧ m = env.bound) ?_ ?_ ?_
    fuel stk σ t env.bound σ' ⟨ht, rfl⟩ hi h
  · intro σ1 σ σ' t m hq hi ht _ _ hl h12 hpl
    obtain ⟨htm, rfl⟩ := hq
    by_cases hk : (env.info t).children = []
    · have := h12 hk
      subst this
      exact place_c02Inv env finit hclock σ σ' t ((hmemb t).2 htm) hi ht hl hpl
    · have hp0 := hsum t htm hk
      refine place_c02Inv env finit hclock σ σ' t ((hmemb t).2 htm) hi ht ?_ ?_
      · rw [hp0]; intro p hp; cases hp
      · rw [hp0] at hpl ⊢
        exact hpl
  · intro σ t c m hq hc
    obtain ⟨htm, rfl⟩ := hq
    have hp0 := hsum t htm (fun h0 => by rw [h0] at hc; cases hc)
    refine ⟨hkm t htm c hc, ?_⟩
    rw [hp0]; rfl
  · intro t p m hq hp hm
    exact ⟨(hmemb p).1 (hm.trans ((hmemb t).2 hq.1)), hq.2⟩

theorem ancestors_preds_nil (env : Env) (mem : List Uid)
    (hpar : ∀ t p, t ∈ mem → (env.info t).parent = some p → p ∈ mem ∧ t ∈ (env.info p).children)
    (hsum : ∀ t ∈ mem, (env.info t).children ≠ [] → (env.info t).preds = []) :
    ∀ (k : Nat) (t : Uid), t ∈ mem → ∀ x ∈ ancestorsOf env k t, (env.info x).preds = [] := by
  intro k
  induction k with
  | zero => intro t _ x hx; cases hx
  | succ k ih =>
    intro t ht x hx
    unfold ancestorsOf at hx
    cases hp : (env.info t).parent with
    | none => rw [hp] at hx; cases hx
    | some p =>
      rw [hp] at hx
      obtain ⟨hpm, htc⟩ := hpar t p ht hp
      rcases List.mem_cons.1 hx with rfl | hx
      · exact hsum x hpm (fun h0 => by rw [h0] at htc; cases htc)
      · exact ih p hpm x hx

theorem flatMap_singleton {α : Type} (g : α → List α) : ∀ (l : List α), (∀ p ∈ l, g p = [p]) → l.flatMap g = l
  | [], _ => rfl
  | x :: xs, h => by
    rw [List.flatMap_cons, h x List.mem_cons_self, flatMap_singleton g xs (fun p hp => h p (List.mem_cons_of_mem _ hp))]
    rfl

/-- without links on summary tasks the prerequisites of a member leaf are its own predecessors -/
theorem prereqLeaves_leaf (env : Env) (mem : List Uid)
    (hpar : ∀ t p, t ∈ mem → (env.info t).parent = some p → p ∈ mem ∧ t ∈ (env.info p).children)
    (hsum : ∀ t ∈ mem, (env.info t).children ≠ [] → (env.info t).preds = [])
    (t : Uid) (ht : t ∈ mem) (hlp : ∀ p ∈ (env.info t).preds, (env.info p).children = []) :
    prereqLeaves env t = (env.info t).preds := by
  unfold prereqLeaves waitsFor
  have ha : (ancestorsOf env (env.n + 1) t).flatMap (fun x => (env.info x).preds) = [] := by
    rw [List.flatMap_eq_nil_iff]
    exact ancestors_preds_nil env mem hpar hsum _ t ht
  rw [List.flatMap_cons, ha, List.append_nil]
  apply flatMap_singleton
  intro p hp
  simp [leavesOf, hlp p hp]

/-- the final state of a successful forward run satisfies the C02 invariant, and every member is done -/
theorem fwdRun_c02 (env : Env) (f0 : Uid → Fields) (res0 : List (Option Nat × Cal)) (o : Output)
    (hf : env.flagsOK) (hc : env.clockOK) (hs : noSummaryLinks env = true)
    (h : fwdRun env f0 res0 = .ok o) :
    ∃ mem σ, members env = some mem ∧ o = { f := σ.f, rows := σ.rows, res := σ.res } ∧
      C02Inv env (prepare env f0 mem) σ ∧ ∀ t ∈ mem, t ∈ σ.done := by
  obtain ⟨mem, σ, hm, hp, ho⟩ := fwdRun_ok env f0 res0 o h
  have hML := memberList_eq env mem hm
  have hmemb : ∀ t, (env.info t).member = true ↔ t ∈ mem := fun t => by rw [← hML]; exact hf t
  have hsum : ∀ t ∈ mem, (env.info t).children ≠ [] → (env.info t).preds = [] := by
    intro t ht hk
    simp only [noSummaryLinks, hML, List.all_eq_true, Bool.or_eq_true, Bool.and_eq_true, isLeaf,
      List.isEmpty_iff] at hs
    rcases hs t ht with h1 | h1
    · exact absurd h1 hk
    · exact h1.1
  refine ⟨mem, σ, hm, ho, ?_⟩
  have hI : DoneClosed env σ ∧ C02Inv env (prepare env f0 mem) σ := by
    refine passList_inv (fun s => DoneClosed env s ∧ C02Inv env (prepare env f0 mem) s) _ _ ?_ _ _ ⟨?_, ?_⟩ hp
    · intro a x b hx ha hh
      exact ⟨fwdPass_doneClosed env _ _ _ _ _ _ ha.1 hh,
        fwdPass_c02Inv env _ mem hmemb (members_children env mem hm) hsum hc.2 _ _ _ _ _
          (members_root env mem hm x hx) ha.2 hh⟩
    · intro x hx; cases hx
    · exact ⟨LedgerOK.init env _ rfl, fun x hx => (by cases hx), fun _ _ => rfl, fun r hr => (by cases hr),
        fun t ht => (by cases ht)⟩
  have hroots : ∀ r ∈ env.roots, r ∈ σ.done :=
    passList_all_done _ _ (fun a x b _ hh => fwdPass_ext env _ _ _ _ _ _ hh) _ _ hp
  refine ⟨hI.2, ?_⟩
  intro t ht
  obtain ⟨rt, hrt, l, hl, htl⟩ := (members_spec env mem hm).2 t ht
  exact hI.1.subtree (hroots rt hrt) _ l hl t htl

theorem prepare_leaf (env : Env) (f0 : Uid → Fields) (mem : List Uid) (t : Uid)
    (hk : (env.info t).children = []) : prepare env f0 mem t = f0 t := by
  simp [prepare, hk]

end C02

/-- C02 for inputs without links on summary tasks, given that the parent pointers agree with the children lists
    and that links are stored on both ends (without either the statement fails, see the counterexamples below) -/
theorem C02_partial_v2 (env : Env) (f0 : Uid → Fields) (res0 : List (Option Nat × Cal)) (o : Output)
    (hf : env.flagsOK) (hc : env.clockOK) (hs : noSummaryLinks env = true) (ho : outsideLeaves env = true)
    (hp : env.parentsOK) (hl : env.linksSym)
    (h : forwardCalc env f0 res0 = .ok o) :
    c02Leaf env f0 o = true ∧ c02Milestone env o = true := by
  obtain ⟨mem, σ, hm, rfl, hI, hdone⟩ := C02.fwdRun_c02 env f0 res0 o hf hc hs (forwardCalc_run env f0 res0 o h)
  have hML := memberList_eq env mem hm
  have hs' := hs
  simp only [noSummaryLinks, hML, List.all_eq_true, Bool.or_eq_true, Bool.and_eq_true, isLeaf,
    List.isEmpty_iff] at hs'
  have hsum : ∀ t ∈ mem, (env.info t).children ≠ [] → (env.info t).preds = [] := by
    intro t ht hk
    rcases hs' t ht with h1 | h1
    · exact absurd h1 hk
    · exact h1.1
  have hlp : ∀ t ∈ mem, ∀ p ∈ (env.info t).preds, (env.info p).children = [] := by
    intro t ht p hpp
    simp only [outsideLeaves, hML, List.all_eq_true, Bool.or_eq_true, List.contains_iff_mem,
      List.isEmpty_iff] at ho
    rcases ho t ht p hpp with h1 | h1
    · rcases hs' p h1 with h2 | h2
      · exact h2
      · have := (hl p t).1 hpp
        rw [h2.2] at this; cases this
    · exact h1
  have hpar : ∀ t p, t ∈ mem → (env.info t).parent = some p → p ∈ mem ∧ t ∈ (env.info p).children := by
    intro t p ht; rw [← hML] at ht ⊢; exact hp t p ht
  have hpre : ∀ t ∈ mem, (env.info t).children = [] → prereqLeaves env t = (env.info t).preds :=
    fun t ht _ => C02.prereqLeaves_leaf env mem hpar hsum t ht (hlp t ht)
  constructor
  · simp only [c02Leaf, hML, List.all_eq_true, Bool.or_eq_true]
    intro t ht
    by_cases hk : (env.info t).children = []
    · by_cases hmi : (env.info t).milestone = true
      · exact Or.inl (Or.inl (Or.inr hmi))
      · cases hst : (f0 t).start with
        | some s0 => exact Or.inl (Or.inr rfl)
        | none =>
          right
          obtain ⟨_, _, g3⟩ := hI.good t (hdone t ht) hk
          obtain ⟨s, h1, ⟨l1, l2, l3, l4⟩, h3⟩ := g3 (by simpa using hmi) (by rw [C02.prepare_leaf env f0 mem t hk]; exact hst)
          simp only [h1, hpre t ht hk]
          have hrows : ∀ d, d ≤ dayOf s → (rowsOf σ.rows t).all (fun r => decide (d ≤ r.day)) = true := by
            intro d hd
            simp only [rowsOf, List.all_eq_true, List.mem_filter, beq_iff_eq, decide_eq_true_eq]
            intro r hr
            exact Int.le_trans hd (h3 r hr.1 hr.2)
          simp only [List.all_eq_true, Bool.and_eq_true, decide_eq_true_eq]
          intro d hd
          have hle : d ≤ dayOf s := by
            simp only [List.mem_append, List.mem_cons, List.mem_map, List.mem_filterMap, Option.mem_toList,
              Option.map_eq_some_iff, List.not_mem_nil, or_false] at hd
            rcases hd with ((rfl | rfl) | ⟨m, hm1, rfl⟩) | ⟨p, hp1, e, he, rfl⟩
            · exact l1
            · exact l2
            · exact l3 m hm1
            · exact l4 p hp1 e he
          exact ⟨hle, by simpa [List.all_eq_true] using hrows d hle⟩
    · exact Or.inl (Or.inl (Or.inl (by simpa [isLeaf, List.isEmpty_iff] using hk)))
  · simp only [c02Milestone, hML, List.all_eq_true, Bool.or_eq_true]
    intro t ht
    by_cases hk : (env.info t).children = []
    · by_cases hmi : (env.info t).milestone = true
      · right
        obtain ⟨_, g2, _⟩ := hI.good t (hdone t ht) hk
        obtain ⟨h1, h2⟩ := g2 hmi
        have hfold := C02.foldl_maxT_maxOpt ((env.info t).preds.filterMap (fun p => (σ.f p).end_)) env.bound
        have hlat : latestPrereqEnd env { f := σ.f, rows := σ.rows, res := σ.res } t =
            maxOpt ((env.info t).preds.filterMap (fun p => (σ.f p).end_)) := by
          unfold latestPrereqEnd
          rw [hpre t ht hk]
        rw [hlat, h1, h2]
        unfold maxEnds
        cases hq : maxOpt ((env.info t).preds.filterMap (fun p => (σ.f p).end_)) with
        | none => rw [hq] at hfold; simp [hfold]
        | some e => rw [hq] at hfold; simp [hfold]
      · exact Or.inl (Or.inl (by simpa using hmi))
    · exact Or.inl (Or.inr (by simpa [isLeaf, List.isEmpty_iff] using hk))

/-! ### where the extra hypotheses come from, and why they are needed -/

/-- `parentsOK` follows from the forest invariants of the graph family (`EnvWF.parentIff`, `EnvWF.rootsTop`) -/
theorem parentsOK_of_forest (env : Env)
    (hpi : ∀ c p, (env.info c).parent = some p ↔ c ∈ (env.info p).children)
    (hrt : ∀ r ∈ env.roots, (env.info r).parent = none) : env.parentsOK := by
  intro t p ht hp
  cases hm : members env with
  | none => simp [memberList, hm] at ht
  | some mem =>
    rw [memberList_eq env mem hm] at ht ⊢
    refine ⟨?_, (hpi t p).1 hp⟩
    obtain ⟨r, hr, l, hl, htl⟩ := (members_spec env mem hm).2 t ht
    obtain ⟨l', hl', hsub⟩ := (members_spec env mem hm).1 r hr
    rw [hl] at hl'
    cases hl'
    simp only [subtreeF, Option.map_eq_some_iff] at hl
    obtain ⟨d, hd, rfl⟩ := hl
    rcases List.mem_cons.1 htl with rfl | htd
    · rw [hrt t hr] at hp; cases hp
    · have htc := descF_sound _ _ _ _ hd t htd
      have key : ∀ b, t ∈ (env.info b).children → b = p := by
        intro b hb
        have := (hpi t b).2 hb
        rw [hp] at this
        cases this; rfl
      rcases htc.tail_cases with h1 | ⟨b, hb1, hb2⟩
      · rw [← key r h1]; exact hsub r List.mem_cons_self
      · rw [← key b hb2]
        exact hsub b (List.mem_cons_of_mem _ (descF_complete _ _ _ _ hd b hb1))

namespace C02Cex

/-- a member leaf whose `parent` field points at a task outside the WBS that has a predecessor -/
def env1 : Env :=
  { n := 3,
    info := fun u => match u with
      | 0 => { tid := 1, parent := some 1, children := [], preds := [], succs := [], member := true, resource := none, milestone := false, minStart := none }
      | 1 => { tid := 2, parent := none, children := [], preds := [2], succs := [], member := false, resource := none, milestone := false, minStart := none }
      | 2 => { tid := 3, parent := none, children := [], preds := [], succs := [1], member := false, resource := none, milestone := false, minStart := none }
      | _ => { tid := 0, parent := none, children := [], preds := [], succs := [], member := false, resource := none, milestone := false, minStart := none },
    roots := [0], balance := false, defaultEst := 1, clock := fun _ => 100, bound := 100 }

def f1 : Uid → Fields := fun u => match u with
  | 2 => { start := some 1000, end_ := some 1000, est := none, spent := none }
  | _ => { start := none, end_ := none, est := none, spent := none }

/-- a milestone with a child, and a link stored on the successor's side only -/
def env2 : Env :=
  { n := 3,
    info := fun u => match u with
      | 0 => { tid := 1, parent := none, children := [1], preds := [], succs := [], member := true, resource := none, milestone := true, minStart := none }
      | 1 => { tid := 2, parent := some 0, children := [], preds := [], succs := [], member := true, resource := some 0, milestone := false, minStart := none }
      | 2 => { tid := 3, parent := none, children := [], preds := [0], succs := [], member := true, resource := some 1, milestone := false, minStart := none }
      | _ => { tid := 0, parent := none, children := [], preds := [], succs := [], member := false, resource := none, milestone := false, minStart := none },
    roots := [0, 2], balance := false, defaultEst := 100, clock := fun _ => 100, bound := 100 }

def f2 : Uid → Fields := fun _ => { start := none, end_ := none, est := none, spent := none }

end C02Cex

open C02Cex in
/-- `C02_partial` as stated in Props/C02.lean is false: nothing ties the `parent` fields to the `children` lists -/
theorem C02_partial_needs_parentsOK :
    ∃ env f0 res0 o, env.flagsOK ∧ env.clockOK ∧ noSummaryLinks env = true ∧ outsideLeaves env = true ∧
      env.linksSym ∧ forwardCalc env f0 res0 = .ok o ∧ c02Leaf env f0 o = false := by
  have hev : (match forwardCalc env1 f1 [] with
     | .ok o => c02Leaf env1 f1 o == false
     | .error _ => false) = true := by decide +kernel
  cases hc : forwardCalc env1 f1 [] with
  | error e => rw [hc] at hev; cases hev
  | ok o =>
    rw [hc] at hev
    refine ⟨env1, f1, [], o, ?_, ⟨fun _ _ _ => Rat.le_refl, fun _ => rfl⟩, by decide +kernel, by decide +kernel, ?_, hc,
      by simpa using hev⟩
    · intro t
      have hm : memberList env1 = [0] := by decide +kernel
      rw [hm]
      match t with
      | 0 => simp [env1]
      | 1 => simp [env1]
      | 2 => simp [env1]
      | (k+3) => simp [env1]
    · intro a b
      match a, b with
      | 0, 0 | 0, 1 | 0, 2 | 0, (k+3) => simp [env1]
      | 1, 0 | 1, 1 | 1, 2 | 1, (k+3) => simp [env1]
      | 2, 0 | 2, 1 | 2, 2 | 2, (k+3) => simp [env1]
      | (j+3), 0 | (j+3), 1 | (j+3), 2 | (j+3), (k+3) => simp [env1]

open C02Cex in
/-- with `parentsOK` but without `linksSym` the statement is still false -/
theorem C02_partial_needs_linksSym :
    ∃ env f0 res0 o, env.flagsOK ∧ env.clockOK ∧ noSummaryLinks env = true ∧ outsideLeaves env = true ∧
      env.parentsOK ∧ forwardCalc env f0 res0 = .ok o ∧ c02Leaf env f0 o = false := by
  have hev : (match forwardCalc env2 f2 [] with
     | .ok o => c02Leaf env2 f2 o == false
     | .error _ => false) = true := by decide +kernel
  have hm : memberList env2 = [0, 1, 2] := by decide +kernel
  cases hc : forwardCalc env2 f2 [] with
  | error e => rw [hc] at hev; cases hev
  | ok o =>
    rw [hc] at hev
    refine ⟨env2, f2, [], o, ?_, ⟨fun _ _ _ => Rat.le_refl, fun _ => rfl⟩, by decide +kernel, by decide +kernel, ?_, hc,
      by simpa using hev⟩
    · intro t
      rw [hm]
      match t with
      | 0 => simp [env2]
      | 1 => simp [env2]
      | 2 => simp [env2]
      | (k+3) => simp [env2]
    · intro t p ht hp
      rw [hm] at ht ⊢
      match t with
      | 0 => simp [env2] at hp
      | 1 =>
        simp only [env2, Option.some.injEq] at hp
        subst hp
        simp [env2]
      | 2 => simp [env2] at hp
      | (k+3) => simp at ht

end Pj
