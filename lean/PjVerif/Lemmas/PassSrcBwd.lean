/-
  Lemmas/PassSrcBwd.lean — the hand-written model of the recursive backward pass (Model/Sched.lean: `bwdPass`,
  `bwdPlace`, `bwdEnd`, `fillEst`, `bwdStart`, `minStarts`, `resLookup`, …) and of `__prepare_tasks` (`prepare`)
  equals the interpretation of the CURRENT SOURCE of

    BackwardScheduler.__backward_pass(self, _task, min_date, resource_usage, calculated)
    ForwardScheduler.__prepare_tasks(project) / BackwardScheduler.__prepare_tasks(project)

  (Extracted/PassSrc.lean, regenerated from src/pjplan/schedule.py by tools/extract_pass.py on every check), run by
  the pass layer of PyLite (`callP` / `Stmt.execP` / `Expr.evalP`).  Companion of Lemmas/PassSrc.lean (the forward
  pass), whose infrastructure is reused: `encKey`, `encWbs`, `optTime`, `optNum`, `passSelf`, `calRef`, `decS`,
  `view`, `estPart` / `spentPart`, the `foldList` / `sumLoop` / `compLoopP` lemmas, `execBlockP_*`.

  Setting (differences to Lemmas/PassSrc.lean).
  * `encSB env ms σ` is `PassSrc.encS env ms σ` whose task objects (`encTaskB`) ALSO have the attribute `successors`
    (`info.succs` as a list of references).  `PassSrc.encTask` has no such attribute, so on `encS` the backward
    method would end in AttributeError at `_task.successors`; everything else (ledger rows, `calculated`, the
    resource table, the clock counter, `wbs`, the own `milestone` flag `ms u`, …) is encoded exactly as in `encS`,
    and `decS` reads both encodings back (`decS_encSB`).
  * handlers `passHB env wfuel calR`: as `PassSrc.passH`, but the two calls
    `self.__get_resource_nearest_available_date(…)` / `self.__shift_by_resource_usage_and_calendar(…)` run the
    translated source of the BACKWARD scheduler's methods (`interpNearestBwd` / `interpShiftBwd` of
    Lemmas/ScheduleSrc.lean, whose theorems turn them into the model's `nearestBwd` / `shiftBwd`).
  * constructs of the source that the forward pass does not use: `reversed(_task.children)` (PyLite `reversed`),
    `min(a, b)` on datetimes (PyLite `min`, through `pyMin`), `timedelta(days=1)`, and `_task.end += timedelta(days=1)`,
    which the translator emits as `_task.end = _task.end + timedelta(days=1)` (see tools/extract_pass.py).

  Results.
    Stage 1  `Check.*` (end of the file): on 7 concrete environments (a leaf; a summary with two leaves sharing a
             supplied resource, with and without balancing - the order `reversed` matters there; a successor chain
             leaving the WBS, also with too little fuel; a milestone and a flagged summary; a summary with a successor
             whose children are linked; user-fixed end / start / start and end; TypeError and ValueError runs)
             `decide +kernel` checks
               (interpBwdPass … (encSB σ0) t m).map (view n ∘ decS) = (bwdPass env fuel [] σ0 t m).map (view n).
    Stage 2  `bwdTail_eq`: the statements after the two recursion loops (`bwdTail`: from `resource = …setdefault…` to
             `calculated.append(id(_task))`), run on `encSB env ms σ` in ANY local environment `ρ` that binds `_task`
             to `ref t`, `min_date` to `md` and `min_successor_starts` to `mp`, end in `encSB env ms σ'` if
             `bwdPlace env σ t md mp = ok σ'` and raise `e` if it is `error e`.  Hypotheses: `hms` (the model's
             `milestone` is the effective one: `(env.info u).milestone = (ms u && children.isEmpty)`);
             `bwdShiftMaxSteps < wfuel`; `calR (resRef k) = (resLookup σ.res k).2` for the task's resource name `k`.
    Stage 3  `interpBwdPass_eq`: for every env, fuel ≤ fuel', stk, σ, t, minDate with
                 bwdPass env fuel stk σ t minDate ≠ error (crash recursion)
             interpBwdPass env wfuel (calRef σ.res) fuel' (encSB env ms σ) t minDate
                 = (bwdPass env fuel stk σ t minDate).map (encSB env ms)
             (`interpBwdPass_eq'`: relative to an initial table `res0` with `calOf σ.res = calOf res0`;
             `callP_bwdPass`: the form used in the induction; `interpBwdPass_ok`: successful runs).  The proviso is
             exactly the case the model adds to the source (fuel 0 / the in-progress check `stk.contains t`).
             `children.reverse` of the model is `reversed(_task.children)` (`it3_ok`); the `member` filter is
             `pred.wbs is _task.wbs` on `encWbs` (`body1_ok`).
    Stage 4  `callP_prepare` (generic in the encoding of task objects, `TaskEnc`), `interpFwdPrepare_eq`,
             `interpBwdPrepare_eq`: the translated static method `__prepare_tasks(project)`, run on a state whose
             heap encodes the fields `σ.f` and holds the WBS object `ref w` (`wbsState`: its attribute `tasks` is the
             list `mem` of member tasks, `w ∉ mem`), ends in the state that encodes `prepare env σ.f mem` - the
             `σ0.f` of `fwdRun` / `bwdRun` - with nothing else changed.  `src_Bwd_prepare_eq`: the two methods have
             the same text.  Not modelled: `WBS.tasks` is a property (it builds the list `__root.all_children`);
             here it is an attribute read once when the loop starts, and `mem` is a parameter of the theorem.
  No disagreement between the model and the translated methods was found.  As for the forward pass, one disagreement
  between the model and the PROGRAM lies outside the translated method and outside PyLite (attributes are plain
  slots): the property setter `Task.estimate` raises RuntimeError on a negative value, so with `default_estimate < 0` a
  leaf without estimate makes Python raise RuntimeError("Estimate < 0") where `fillEst` stores the negative estimate
  (checked on the snapshot: `BackwardScheduler(end=…, default_estimate=-1).calc(wbs)` with one task).

  A semantic edit of the methods makes a `*_ok` / `*_shape` lemma (and usually some `Check` example) fail to compile
  or is a Miss of the translator: see the negative check at the end.
-/
import PjVerif.Extracted.PassSrc
import PjVerif.Lemmas.PassSrc
namespace Pj.PassSrcBwd
open Pj.PyLite Pj.Extracted Pj.SchedSrc Pj.PassSrc
set_option linter.unusedSimpArgs false

/-! ### the model's state as a Python state (with `successors`) -/

/-- the attributes of a task object: those of `PassSrc.encTask` and `successors` -/
def encTaskB (info : TaskInfo) (flag : Bool) (fl : Fields) : PyLite.Env :=
  [("predecessors", .list (info.preds.map Atom.ref)), ("successors", .list (info.succs.map Atom.ref)),
   ("children", .list (info.children.map Atom.ref)),
   ("wbs", encWbs info.member), ("milestone", .atom (.bool flag)), ("resource", .atom (encKey info.resource)),
   ("min_start", optTime info.minStart), ("start", optTime fl.start), ("end", optTime fl.end_),
   ("estimate", optNum fl.est), ("spent", optNum fl.spent)]

def encHeapB (env : Pj.Env) (ms : Uid → Bool) (f : Uid → Fields) : Nat → PyLite.Env :=
  fun u => encTaskB (env.info u) (ms u) (f u)

/-- `PassSrc.encS` with the task objects of `encTaskB` -/
def encSB (env : Pj.Env) (ms : Uid → Bool) (σ : SS) : PState :=
  { L := σ.rows.map encRow
    heap := encHeapB env ms σ.f
    done := σ.done
    res := σ.res.map (fun p => (encKey p.1, resRef p.1))
    reads := σ.reads }

/-- the handlers of the backward scheduler: as `PassSrc.passH`, the two inner loops being the BACKWARD ones
    (`interpNearestBwd`, `interpShiftBwd` of Lemmas/ScheduleSrc.lean: the translated source of
    `BackwardScheduler.__get_resource_nearest_available_date` / `__shift_by_resource_usage_and_calendar`) -/
def passHB (env : Pj.Env) (wfuel : Nat) (calR : Nat → Cal) : PHandlers :=
  { clock := env.clock
    call := fun m args L =>
      if m = "get_resource_nearest_available_date" then
        match args with
        | [.ref r, .time s, .ref t] =>
          (interpNearestBwd (calR r) env.balance r t L s).map (fun p => (Val.atom (.time p.1), p.2))
        | _ => throw stuck
      else if m = "shift_by_resource_usage_and_calendar" then
        match args with
        | [.ref r, .time s, .ref t, .num left] =>
          (interpShiftBwd wfuel (calR r) env.balance r t L s left).map (fun p => (Val.atom (.time p.1), p.2))
        | _ => throw stuck
      else throw stuck
    newResource := fun a =>
      match a with
      | .none => pure 0
      | .str n => pure (n + 1)
      | _ => throw stuck }

/-- run the translated `__backward_pass(ref t, minDate, <ledger>, <calculated>)` with at most `fuel` nested
    activations; `wfuel` bounds the `while` loop of `__shift_by_resource_usage_and_calendar` -/
def interpBwdPass (env : Pj.Env) (wfuel : Nat) (calR : Nat → Cal) (fuel : Nat) (st : PState) (t : Uid)
    (minDate : Time) : Res PState :=
  (callP (passHB env wfuel calR) (passSelf env) src_Bwd_pass_params src_Bwd_pass fuel
    [.ref t, .time minDate] st).map (·.2)

/-! ### attributes of an encoded task, the heap -/
section attrs
variable (info : TaskInfo) (flag : Bool) (fl : Fields)
theorem encTaskB_succs : (encTaskB info flag fl).get? "successors" = some (.list (info.succs.map Atom.ref)) := by
  simp [encTaskB, Env.get?]
theorem encTaskB_children : (encTaskB info flag fl).get? "children" = some (.list (info.children.map Atom.ref)) := by
  simp [encTaskB, Env.get?]
theorem encTaskB_wbs : (encTaskB info flag fl).get? "wbs" = some (encWbs info.member) := by simp [encTaskB, Env.get?]
theorem encTaskB_milestone : (encTaskB info flag fl).get? "milestone" = some (.atom (.bool flag)) := by simp [encTaskB, Env.get?]
theorem encTaskB_resource : (encTaskB info flag fl).get? "resource" = some (.atom (encKey info.resource)) := by simp [encTaskB, Env.get?]
theorem encTaskB_start : (encTaskB info flag fl).get? "start" = some (optTime fl.start) := by simp [encTaskB, Env.get?]
theorem encTaskB_end : (encTaskB info flag fl).get? "end" = some (optTime fl.end_) := by simp [encTaskB, Env.get?]
theorem encTaskB_estimate : (encTaskB info flag fl).get? "estimate" = some (optNum fl.est) := by simp [encTaskB, Env.get?]
theorem encTaskB_spent : (encTaskB info flag fl).get? "spent" = some (optNum fl.spent) := by simp [encTaskB, Env.get?]

theorem encTaskB_set_start (v : Option Time) :
    Env.set (encTaskB info flag fl) "start" (optTime v) = encTaskB info flag { fl with start := v } := by
  simp [encTaskB, Env.set]
theorem encTaskB_set_end (v : Option Time) :
    Env.set (encTaskB info flag fl) "end" (optTime v) = encTaskB info flag { fl with end_ := v } := by
  simp [encTaskB, Env.set]
theorem encTaskB_set_estimate (v : Option Rat) :
    Env.set (encTaskB info flag fl) "estimate" (optNum v) = encTaskB info flag { fl with est := v } := by
  simp [encTaskB, Env.set]
theorem encTaskB_set_spent (v : Option Rat) :
    Env.set (encTaskB info flag fl) "spent" (optNum v) = encTaskB info flag { fl with spent := v } := by
  simp [encTaskB, Env.set]
end attrs

theorem heapSetB_enc (env : Pj.Env) (ms : Uid → Bool) (f : Uid → Fields) (t : Uid) (a : String) (v : Val) (g : Fields)
    (h : Env.set (encTaskB (env.info t) (ms t) (f t)) a v = encTaskB (env.info t) (ms t) g) :
    heapSet (encHeapB env ms f) t a v = encHeapB env ms (upd f t g) := by
  funext j
  by_cases hj : j = t
  · subst hj; simp [heapSet, encHeapB, h]
  · simp [heapSet, encHeapB, upd, hj]

theorem heapSetB_start (env : Pj.Env) (ms : Uid → Bool) (f : Uid → Fields) (t : Uid) (v : Time) :
    heapSet (encHeapB env ms f) t "start" (.atom (.time v)) = encHeapB env ms (upd f t { f t with start := some v }) :=
  heapSetB_enc env ms f t _ _ _ (encTaskB_set_start _ _ _ (some v))
theorem heapSetB_end (env : Pj.Env) (ms : Uid → Bool) (f : Uid → Fields) (t : Uid) (v : Time) :
    heapSet (encHeapB env ms f) t "end" (.atom (.time v)) = encHeapB env ms (upd f t { f t with end_ := some v }) :=
  heapSetB_enc env ms f t _ _ _ (encTaskB_set_end _ _ _ (some v))
theorem heapSetB_estimate (env : Pj.Env) (ms : Uid → Bool) (f : Uid → Fields) (t : Uid) (v : Rat) :
    heapSet (encHeapB env ms f) t "estimate" (.atom (.num v)) = encHeapB env ms (upd f t { f t with est := some v }) :=
  heapSetB_enc env ms f t _ _ _ (encTaskB_set_estimate _ _ _ (some v))
theorem heapSetB_spent (env : Pj.Env) (ms : Uid → Bool) (f : Uid → Fields) (t : Uid) (v : Rat) :
    heapSet (encHeapB env ms f) t "spent" (.atom (.num v)) = encHeapB env ms (upd f t { f t with spent := some v }) :=
  heapSetB_enc env ms f t _ _ _ (encTaskB_set_spent _ _ _ (some v))

theorem encHeapB_apply (env : Pj.Env) (ms : Uid → Bool) (f : Uid → Fields) (u : Uid) :
    encHeapB env ms f u = encTaskB (env.info u) (ms u) (f u) := rfl

/-! ### the parts of the method -/

/-- the statements up to and including the loop over the children / after it -/
def bwdHead : List Stmt := src_Bwd_pass.take 4
def bwdTail : List Stmt := src_Bwd_pass.drop 4

structure TailParts where
  g0 : List Stmt
  msCond : Expr
  msThen : List Stmt
  iEnd : Stmt
  iEst : Stmt
  iSpent : Stmt
  iStart : Stmt
  fin : Stmt

def tailParts : TailParts :=
  match bwdTail with
  | [a, b, .ifElse c th [s1, s2, s3, s4], f] => ⟨[a, b], c, th, s1, s2, s3, s4, f⟩
  | _ => ⟨[], .none, [], .pass, .pass, .pass, .pass, .pass⟩

theorem bwdTail_shape : bwdTail = tailParts.g0 ++ [.ifElse tailParts.msCond tailParts.msThen
    [tailParts.iEnd, tailParts.iEst, tailParts.iSpent, tailParts.iStart], tailParts.fin] := rfl

theorem passHB_call_nearest (env : Pj.Env) (wfuel : Nat) (calR : Nat → Cal) (rows : List Row) (k : Option Nat) (t : Uid)
    (s : Time) :
    (passHB env wfuel calR).call "get_resource_nearest_available_date" [.ref (resRef k), .time s, .ref t] (rows.map encRow) =
      (nearestBwd (calR (resRef k)) (usedBy env rows k t) s).map (fun e => (Val.atom (.time e), rows.map encRow)) := by
  simp only [passHB, if_true, interpNearestBwd_eq, usedOf_usedBy]
  cases nearestBwd (calR (resRef k)) (usedBy env rows k t) s <;> rfl

theorem passHB_call_shift (env : Pj.Env) (wfuel : Nat) (hw : Extracted.bwdShiftMaxSteps < wfuel) (calR : Nat → Cal)
    (rows : List Row) (k : Option Nat) (t : Uid) (s : Time) (left : Rat) :
    (passHB env wfuel calR).call "shift_by_resource_usage_and_calendar" [.ref (resRef k), .time s, .ref t, .num left]
        (rows.map encRow) =
      (shiftBwd (calR (resRef k)) (usedBy env rows k t) s left).map
        (fun p => (Val.atom (.time p.1), (rows ++ p.2.map (SchedSrc.mkRow k t)).map encRow)) := by
  have : ("shift_by_resource_usage_and_calendar" = "get_resource_nearest_available_date") = False := by decide
  simp only [passHB, this, if_false, if_true, interpShiftBwd_eq _ _ _ _ _ _ _ _ hw, usedOf_usedBy]
  cases shiftBwd (calR (resRef k)) (usedBy env rows k t) s left <;> rfl

/-- the locals the statements after the loops rely on -/
structure TailEnv (ρ : PyLite.Env) (t : Uid) (md mp : Time) (r : Nat) (leaf : Bool) : Prop where
  task : ρ.get? "_task" = some (.atom (.ref t))
  md : ρ.get? "min_date" = some (.atom (.time md))
  mp : ρ.get? "min_successor_starts" = some (.atom (.time mp))
  res : ρ.get? "resource" = some (.atom (.ref r))
  leaf : ρ.get? "is_leaf" = some (.atom (.bool leaf))

theorem TailEnv.set {ρ : PyLite.Env} {t : Uid} {md mp : Time} {r : Nat} {leaf : Bool} (h : TailEnv ρ t md mp r leaf)
    (x : String) (v : Val) (h1 : x ≠ "_task") (h0 : x ≠ "min_date") (h2 : x ≠ "min_successor_starts")
    (h3 : x ≠ "resource") (h4 : x ≠ "is_leaf") : TailEnv (Env.set ρ x v) t md mp r leaf :=
  ⟨by rw [Env.get?_set, if_neg h1]; exact h.task, by rw [Env.get?_set, if_neg h0]; exact h.md,
   by rw [Env.get?_set, if_neg h2]; exact h.mp,
   by rw [Env.get?_set, if_neg h3]; exact h.res, by rw [Env.get?_set, if_neg h4]; exact h.leaf⟩

macro "tail_envb" h:ident : tactic =>
  `(tactic| (repeat' (first | exact $h | (refine TailEnv.set ?_ _ _ (by decide) (by decide) (by decide) (by decide) (by decide)))))

syntax "pylite_b" (" [" Lean.Parser.Tactic.simpLemma,* "]")? : tactic
macro_rules
  | `(tactic| pylite_b) => `(tactic| pylite_b [])
  | `(tactic| pylite_b [$ls,*]) => `(tactic|
      simp [execBlockP, Stmt.execP, Expr.evalP, iterOf, truthP, arithP, arith, arithTime,
        PyLite.compare, cmpRat, Atom.asNum?, pyMax_time, pyMin_time, pyMax_num, pure, Except.pure, bind, Except.bind,
        throw, throwThe, MonadExceptOf.throw, Env.get?_set, encHeapB_apply,
        encTaskB_succs, encTaskB_children, encTaskB_wbs, encTaskB_milestone, encTaskB_resource,
        encTaskB_start, encTaskB_end, encTaskB_estimate, encTaskB_spent,
        heapSetB_start, heapSetB_end, heapSetB_estimate, heapSetB_spent, $ls,*])

/-- `[x.a for x in <tasks> if x.a is not None]` for a datetime attribute `a` -/
theorem evalP_comp_time (H : PHandlers) (self ρ : PyLite.Env) (env : Pj.Env) (ms : Uid → Bool) (f : Uid → Fields)
    (st : PState) (hh : st.heap = encHeapB env ms f) (x a : String) (proj : Fields → Option Time)
    (hattr : ∀ info flag fl, (encTaskB info flag fl).get? a = some (optTime (proj fl)))
    (it : Expr) (lst : List Uid) (hit : it.evalP H self ρ st = .ok (.list (lst.map Atom.ref), st)) :
    (Expr.listComp (.attr (.var x) a) x it (.isNotNone (.attr (.var x) a))).evalP H self ρ st =
      .ok (.list ((lst.filterMap (fun c => proj (f c))).map Atom.time), st) := by
  simp only [Expr.evalP, hit, bind, Except.bind, iterOf, pure, Except.pure]
  rw [compLoopP_pure (g := fun v => match v with | .ref c => (proj (f c)).map Atom.time | _ => none)]
  · simp only [List.filterMap_map, List.map_filterMap]
    congr 3
  · intro v hv
    obtain ⟨c, _, rfl⟩ := List.mem_map.1 hv
    cases hp : proj (f c) <;>
      simp [Expr.evalP, Env.get?_set, hh, encHeapB_apply, hattr, hp, optTime, truthP, bind, Except.bind, pure, Except.pure]

/-- `[x.a for x in <tasks>]` for a numeric attribute `a` -/
theorem evalP_comp_num (H : PHandlers) (self ρ : PyLite.Env) (env : Pj.Env) (ms : Uid → Bool) (f : Uid → Fields)
    (st : PState) (hh : st.heap = encHeapB env ms f) (x a : String) (proj : Fields → Option Rat)
    (hattr : ∀ info flag fl, (encTaskB info flag fl).get? a = some (optNum (proj fl)))
    (it : Expr) (lst : List Uid) (hit : it.evalP H self ρ st = .ok (.list (lst.map Atom.ref), st)) :
    (Expr.listComp (.attr (.var x) a) x it (.bool true)).evalP H self ρ st =
      .ok (.list ((lst.map (fun c => proj (f c))).map optNumA), st) := by
  simp only [Expr.evalP, hit, bind, Except.bind, iterOf, pure, Except.pure]
  rw [compLoopP_pure (g := fun v => match v with | .ref c => some (optNumA (proj (f c))) | _ => none)]
  · simp only [List.filterMap_map, List.map_map]
    congr 2
    rw [← List.filterMap_eq_map]
    rfl
  · intro v hv
    obtain ⟨c, _, rfl⟩ := List.mem_map.1 hv
    simp [Expr.evalP, Env.get?_set, hh, encHeapB_apply, hattr, optNum_eq, truthP, bind, Except.bind, pure, Except.pure]

/-! ### stage 2: the statements after the two loops -/

/-- a statement (after the loops) does what a stage of the model's placement does -/
def StmtOK (H : PHandlers) (self : PyLite.Env) (rec : List Atom → PState → Res (Val × PState)) (s : Stmt)
    (ρ : PyLite.Env) (env : Pj.Env) (ms : Uid → Bool) (σ : SS) (r : Res SS) (t : Uid) (md mp : Time) (rr : Nat)
    (leaf : Bool) : Prop :=
  match r with
  | .ok σ' => ∃ ρ', s.execP H self rec ρ (encSB env ms σ) = .normal ρ' (encSB env ms σ') ∧ TailEnv ρ' t md mp rr leaf
  | .error e => s.execP H self rec ρ (encSB env ms σ) = .raise e

section
variable (env : Pj.Env) (ms : Uid → Bool) (wfuel : Nat) (calR : Nat → Cal)
  (rec : List Atom → PState → Res (Val × PState)) (σ : SS) (t : Uid) (md mp : Time) (ρ : PyLite.Env)

theorem iEnd_ok (hρ : TailEnv ρ t md mp (resRef (env.info t).resource) (env.info t).children.isEmpty) :
    StmtOK (passHB env wfuel calR) (passSelf env) rec tailParts.iEnd ρ env ms σ
      (bwdEnd env (calR (resRef (env.info t).resource)) (usedBy env σ.rows (env.info t).resource t) t md mp σ)
      t md mp (resRef (env.info t).resource) (env.info t).children.isEmpty := by
  unfold StmtOK bwdEnd
  cases hs : (σ.f t).end_ with
  | some s0 =>
    refine ⟨ρ, ?_, hρ⟩
    pylite_b [tailParts, bwdTail, src_Bwd_pass, encSB, hρ.task, hs, optTime]
  | none =>
    cases hleaf : (env.info t).children.isEmpty with
    | true =>
      rw [hleaf] at hρ
      simp only [hleaf, if_true]
      pylite_b [tailParts, bwdTail, src_Bwd_pass, encSB, hρ.task, hρ.mp, hρ.md, hρ.res, hρ.leaf, hs, optTime,
        passHB_call_nearest, Except.map, upd_upd]
      rcases nearestBwd _ _ _ with e | s
      · simp
      · pylite_b [hρ.task, setF, optTime, upd_upd]
        exact hρ
    | false =>
      rw [hleaf] at hρ
      have hc := evalP_comp_time (passHB env wfuel calR) (passSelf env) ρ env ms σ.f (encSB env ms σ) rfl "t" "end"
        (·.end_) encTaskB_end (.attr (.var "_task") "children") (env.info t).children
        (evalP_task_attr _ _ _ _ _ _ t _ hρ.task (encTaskB_children _ _ _))
      simp only [hleaf, Bool.false_eq_true, if_false]
      simp only [encSB] at hc
      rcases hcs : (env.info t).children.filterMap (fun c => (σ.f c).end_) with _ | ⟨c, rest⟩ <;>
      rw [hcs] at hc <;>
      pylite_b [↓hc, tailParts, bwdTail, src_Bwd_pass, encSB, hρ.task, hρ.mp, hρ.md, hρ.res, hρ.leaf, hs, optTime,
        pyEq_num, natCast_succ_ne_zero, foldList, foldLoop, foldLoop_max_times, setF, epoch] <;>
      tail_envb hρ

theorem iEst_ok (hρ : TailEnv ρ t md mp (resRef (env.info t).resource) (env.info t).children.isEmpty) :
    StmtOK (passHB env wfuel calR) (passSelf env) rec tailParts.iEst ρ env ms σ (estPart env t σ)
      t md mp (resRef (env.info t).resource) (env.info t).children.isEmpty := by
  unfold StmtOK estPart
  cases hs : (σ.f t).est with
  | some s0 =>
    refine ⟨ρ, ?_, hρ⟩
    pylite_b [tailParts, bwdTail, src_Bwd_pass, encSB, hρ.task, hs, optNum]
  | none =>
    cases hleaf : (env.info t).children.isEmpty with
    | true =>
      rw [hleaf] at hρ
      simp only [if_true]
      refine ⟨ρ, ?_, hρ⟩
      pylite_b [tailParts, bwdTail, src_Bwd_pass, encSB, hρ.task, hρ.leaf, hs, optNum, passSelf_default, setF]
    | false =>
      rw [hleaf] at hρ
      have hc := evalP_comp_num (passHB env wfuel calR) (passSelf env) ρ env ms σ.f (encSB env ms σ) rfl "ch" "estimate"
        (·.est) encTaskB_estimate (.attr (.var "_task") "children") (env.info t).children
        (evalP_task_attr _ _ _ _ _ _ t _ hρ.task (encTaskB_children _ _ _))
      simp only [Bool.false_eq_true, if_false]
      simp only [encSB] at hc
      unfold sumOpt
      pylite_b [↓hc, tailParts, bwdTail, src_Bwd_pass, encSB, hρ.task, hρ.leaf, hs, optNum, sumLoop_opt', Except.map]
      rcases List.foldlM _ _ _ with e | q
      · simp
      · simp [setF, heapSetB_estimate]
        exact hρ

theorem iSpent_ok (hρ : TailEnv ρ t md mp (resRef (env.info t).resource) (env.info t).children.isEmpty) :
    StmtOK (passHB env wfuel calR) (passSelf env) rec tailParts.iSpent ρ env ms σ (spentPart env t σ)
      t md mp (resRef (env.info t).resource) (env.info t).children.isEmpty := by
  unfold StmtOK spentPart
  cases hs : (σ.f t).spent with
  | some s0 =>
    refine ⟨ρ, ?_, hρ⟩
    pylite_b [tailParts, bwdTail, src_Bwd_pass, encSB, hρ.task, hs, optNum]
  | none =>
    cases hleaf : (env.info t).children.isEmpty with
    | true =>
      rw [hleaf] at hρ
      simp only [if_true]
      refine ⟨ρ, ?_, hρ⟩
      pylite_b [tailParts, bwdTail, src_Bwd_pass, encSB, hρ.task, hρ.leaf, hs, optNum, setF]
    | false =>
      rw [hleaf] at hρ
      have hc := evalP_comp_num (passHB env wfuel calR) (passSelf env) ρ env ms σ.f (encSB env ms σ) rfl "ch" "spent"
        (·.spent) encTaskB_spent (.attr (.var "_task") "children") (env.info t).children
        (evalP_task_attr _ _ _ _ _ _ t _ hρ.task (encTaskB_children _ _ _))
      simp only [Bool.false_eq_true, if_false]
      simp only [encSB] at hc
      unfold sumOpt
      pylite_b [↓hc, tailParts, bwdTail, src_Bwd_pass, encSB, hρ.task, hρ.leaf, hs, optNum, sumLoop_opt', Except.map]
      rcases List.foldlM _ _ _ with e | q
      · simp
      · simp [setF, heapSetB_spent]
        exact hρ

theorem iStart_ok (hw : Extracted.bwdShiftMaxSteps < wfuel)
    (hρ : TailEnv ρ t md mp (resRef (env.info t).resource) (env.info t).children.isEmpty)
    (h1 : (σ.f t).end_.isSome) (h2 : (σ.f t).est.isSome) (h3 : (σ.f t).spent.isSome) :
    StmtOK (passHB env wfuel calR) (passSelf env) rec tailParts.iStart ρ env ms σ
      (bwdStart env (calR (resRef (env.info t).resource)) (usedBy env σ.rows (env.info t).resource t) t md σ)
      t md mp (resRef (env.info t).resource) (env.info t).children.isEmpty := by
  unfold StmtOK bwdStart
  obtain ⟨en, hen⟩ := Option.isSome_iff_exists.1 h1
  obtain ⟨es, hes⟩ := Option.isSome_iff_exists.1 h2
  obtain ⟨sp, hsp⟩ := Option.isSome_iff_exists.1 h3
  cases hleaf : (env.info t).children.isEmpty with
  | true =>
    rw [hleaf] at hρ
    simp only [hleaf, if_true]
    cases hst : (σ.f t).start <;>
    pylite_b [tailParts, bwdTail, src_Bwd_pass, encSB, hρ.task, hρ.mp, hρ.md, hρ.res, hρ.leaf, hst, hen, hes, hsp, optTime, optNum,
      passHB_call_shift _ _ hw, Except.map, leftOf, addRows, epoch] <;>
    (rcases shiftBwd _ _ _ _ with e | ⟨e, new⟩
     · simp
     · pylite_b [hρ.task, setF, hst, optTime, SchedSrc.mkRow]
       tail_envb hρ)
  | false =>
    rw [hleaf] at hρ
    have hc := evalP_comp_time (passHB env wfuel calR) (passSelf env) ρ env ms σ.f (encSB env ms σ) rfl "t" "start"
      (·.start) encTaskB_start (.attr (.var "_task") "children") (env.info t).children
      (evalP_task_attr _ _ _ _ _ _ t _ hρ.task (encTaskB_children _ _ _))
    simp only [hleaf, Bool.false_eq_true, if_false]
    simp only [encSB] at hc
    rcases hcs : (env.info t).children.filterMap (fun c => (σ.f c).start) with _ | ⟨c, rest⟩ <;>
    rw [hcs] at hc <;>
    pylite_b [↓hc, tailParts, bwdTail, src_Bwd_pass, encSB, hρ.task, hρ.mp, hρ.res, hρ.leaf, optTime,
      foldList, foldLoop, foldLoop_min_times, setF, epoch] <;>
    tail_envb hρ

theorem g0_ok (h1 : ρ.get? "_task" = some (.atom (.ref t))) (h0 : ρ.get? "min_date" = some (.atom (.time md)))
    (h2 : ρ.get? "min_successor_starts" = some (.atom (.time mp))) :
    ∃ ρ', execBlockP (passHB env wfuel calR) (passSelf env) rec tailParts.g0 ρ (encSB env ms σ) =
        .normal ρ' (encSB env ms { σ with res := (resLookup σ.res (env.info t).resource).1 }) ∧
      TailEnv ρ' t md mp (resRef (env.info t).resource) (env.info t).children.isEmpty := by
  have hk : (encKey (env.info t).resource).isName = true := by cases (env.info t).resource <;> rfl
  have hn : (passHB env wfuel calR).newResource (encKey (env.info t).resource) = .ok (resRef (env.info t).resource) := by
    cases (env.info t).resource <;> rfl
  unfold resLookup
  cases hf : σ.res.find? (fun p => p.1 == (env.info t).resource) with
  | some p =>
    have hp : p.1 = (env.info t).resource := by simpa using List.find?_some hf
    pylite_b [tailParts, bwdTail, src_Bwd_pass, encSB, h1, h2, hk, hn, find_enc, hf, pyEq_num, natCast_eq_zero, hp]
    exact ⟨by simp [Env.get?_set, h1], by simp [Env.get?_set, h0], by simp [Env.get?_set, h2], by simp [Env.get?_set],
      by simp [Env.get?_set, decide_nil]⟩
  | none =>
    pylite_b [tailParts, bwdTail, src_Bwd_pass, encSB, h1, h2, hk, hn, find_enc, hf, pyEq_num, natCast_eq_zero]
    exact ⟨by simp [Env.get?_set, h1], by simp [Env.get?_set, h0], by simp [Env.get?_set, h2], by simp [Env.get?_set],
      by simp [Env.get?_set, decide_nil]⟩

theorem msCond_ok (leaf : Bool) (r : Nat) (hρ : TailEnv ρ t md mp r leaf) :
    (do let (v, st') ← tailParts.msCond.evalP (passHB env wfuel calR) (passSelf env) ρ (encSB env ms σ)
        pure ((← truthP v), st')) = .ok ((ms t && leaf), encSB env ms σ) := by
  cases hm : ms t <;> cases leaf <;>
    pylite_b [tailParts, bwdTail, src_Bwd_pass, encSB, hρ.task, hρ.leaf, hm]

theorem msThen_ok (leaf : Bool) (r : Nat) (hρ : TailEnv ρ t md mp r leaf) :
    ∃ ρ', execBlockP (passHB env wfuel calR) (passSelf env) rec tailParts.msThen ρ (encSB env ms σ) =
        .normal ρ' (encSB env ms (setF σ t (fun _ => { start := some mp, end_ := some mp, est := some 0, spent := some 0 }))) ∧
      TailEnv ρ' t md mp r leaf := by
  pylite_b [tailParts, bwdTail, src_Bwd_pass, encSB, hρ.task, hρ.mp, setF, upd_upd]
  tail_envb hρ

theorem fin_ok (leaf : Bool) (r : Nat) (hρ : TailEnv ρ t md mp r leaf) :
    tailParts.fin.execP (passHB env wfuel calR) (passSelf env) rec ρ (encSB env ms σ) =
      .normal ρ (encSB env ms (markDone σ t)) := by
  pylite_b [tailParts, bwdTail, src_Bwd_pass, encSB, hρ.task, markDone]
end

/-! facts about the model's stages -/

theorem bwdEnd_some (env : Pj.Env) (cal : Cal) (used : Int → Rat) (t : Uid) (m m' : Time) (σ σ' : SS)
    (h : bwdEnd env cal used t m m' σ = .ok σ') : (σ'.f t).end_.isSome := by
  unfold bwdEnd at h
  cases hs : (σ.f t).end_ with
  | some s => simp [hs, pure, Except.pure] at h; subst h; simp [hs]
  | none =>
    simp only [hs] at h
    split at h
    · simp only [bind, Except.bind] at h
      split at h
      · cases h
      · cases h; simp [setF]
    · split at h <;> (cases h; simp [setF])

theorem bwdEnd_rows (env : Pj.Env) (cal : Cal) (used : Int → Rat) (t : Uid) (m m' : Time) (σ σ' : SS)
    (h : bwdEnd env cal used t m m' σ = .ok σ') : σ'.rows = σ.rows := by
  have := (bwdEnd_stage env cal used t m m' σ σ' h).rows
  simpa using this

theorem estPart_end (env : Pj.Env) (t : Uid) (σ σ' : SS) (h : estPart env t σ = .ok σ') :
    (σ'.f t).end_ = (σ.f t).end_ := by
  unfold estPart at h
  cases hs : (σ.f t).est with
  | some s => simp [hs, pure, Except.pure] at h; subst h; rfl
  | none =>
    simp only [hs] at h
    split at h
    · cases h; simp [setF]
    · simp only [bind, Except.bind] at h
      split at h
      · cases h
      · cases h; simp [setF]

theorem spentPart_end (env : Pj.Env) (t : Uid) (σ σ' : SS) (h : spentPart env t σ = .ok σ') :
    (σ'.f t).end_ = (σ.f t).end_ := by
  unfold spentPart at h
  cases hs : (σ.f t).spent with
  | some s => simp [hs, pure, Except.pure] at h; subst h; rfl
  | none =>
    simp only [hs] at h
    split at h
    · cases h; simp [setF]
    · simp only [bind, Except.bind] at h
      split at h
      · cases h
      · cases h; simp [setF]

section
variable (env : Pj.Env) (ms : Uid → Bool) (wfuel : Nat) (calR : Nat → Cal)
  (rec : List Atom → PState → Res (Val × PState)) (σ : SS) (t : Uid) (md mp : Time) (ρ : PyLite.Env)

/-- the four statements of the non-milestone branch -/
theorem msElse_ok (hw : Extracted.bwdShiftMaxSteps < wfuel)
    (hρ : TailEnv ρ t md mp (resRef (env.info t).resource) (env.info t).children.isEmpty) :
    match (do
      let σ1 ← bwdEnd env (calR (resRef (env.info t).resource)) (usedBy env σ.rows (env.info t).resource t) t md mp σ
      let σ2 ← fillEst env t σ1
      bwdStart env (calR (resRef (env.info t).resource)) (usedBy env σ.rows (env.info t).resource t) t md σ2) with
    | .ok σ' => ∃ ρ', execBlockP (passHB env wfuel calR) (passSelf env) rec
          [tailParts.iEnd, tailParts.iEst, tailParts.iSpent, tailParts.iStart] ρ (encSB env ms σ) =
          .normal ρ' (encSB env ms σ') ∧ TailEnv ρ' t md mp (resRef (env.info t).resource) (env.info t).children.isEmpty
    | .error e => execBlockP (passHB env wfuel calR) (passSelf env) rec
          [tailParts.iEnd, tailParts.iEst, tailParts.iSpent, tailParts.iStart] ρ (encSB env ms σ) = .raise e := by
  have h1 := iEnd_ok env ms wfuel calR rec σ t md mp ρ hρ
  simp only [bind, Except.bind, fillEst_eq]
  rcases hs1 : bwdEnd env (calR (resRef (env.info t).resource)) (usedBy env σ.rows (env.info t).resource t) t md mp σ
    with e | σ1
  · simp only [StmtOK, hs1] at h1; simp [execBlockP_cons, h1]
  simp only [StmtOK, hs1] at h1
  obtain ⟨ρ1, hx1, hρ1⟩ := h1
  have h2 := iEst_ok env ms wfuel calR rec σ1 t md mp ρ1 hρ1
  rcases hs2 : estPart env t σ1 with e | σ2
  · simp only [StmtOK, hs2] at h2; simp [execBlockP_cons, hx1, h2, hs2]
  simp only [StmtOK, hs2] at h2
  obtain ⟨ρ2, hx2, hρ2⟩ := h2
  have h3 := iSpent_ok env ms wfuel calR rec σ2 t md mp ρ2 hρ2
  rcases hs3 : spentPart env t σ2 with e | σ3
  · simp only [StmtOK, hs3] at h3; simp [execBlockP_cons, hx1, hx2, h3, hs2, hs3]
  simp only [StmtOK, hs3] at h3
  obtain ⟨ρ3, hx3, hρ3⟩ := h3
  have e2 := estPart_spec env t σ1 σ2 hs2
  have e3 := spentPart_spec env t σ2 σ3 hs3
  have hrows : σ3.rows = σ.rows := by rw [e3.2.2.2.1, e2.2.2.2.1, bwdEnd_rows _ _ _ _ _ _ _ _ hs1]
  have h4 := iStart_ok env ms wfuel calR rec σ3 t md mp ρ3 hw hρ3
    (by rw [spentPart_end _ _ _ _ hs3, estPart_end _ _ _ _ hs2]; exact bwdEnd_some _ _ _ _ _ _ _ _ hs1)
    (by rw [e3.2.2.1]; exact e2.1) e3.1
  rw [hrows] at h4
  rcases hs4 : bwdStart env (calR (resRef (env.info t).resource)) (usedBy env σ.rows (env.info t).resource t) t md σ3
    with e | σ4
  · simp only [StmtOK, hs4] at h4; simp [hs2, hs3, hs4, execBlockP_cons, hx1, hx2, hx3, h4]
  simp only [StmtOK, hs4] at h4
  obtain ⟨ρ4, hx4, hρ4⟩ := h4
  simp only [hs2, hs3, hs4]
  exact ⟨ρ4, by simp [execBlockP_cons, execBlockP_nil, hx1, hx2, hx3, hx4], hρ4⟩

/-- STAGE 2.  The statements of `__backward_pass` after the two recursion loops (from `resource = …setdefault…` to
    `calculated.append(id(_task))`), run on the encoding of a model state, do exactly what `bwdPlace` does. -/
theorem bwdTail_eq (hms : ∀ u, (env.info u).milestone = (ms u && (env.info u).children.isEmpty))
    (hw : Extracted.bwdShiftMaxSteps < wfuel)
    (hcal : calR (resRef (env.info t).resource) = (resLookup σ.res (env.info t).resource).2)
    (h1 : ρ.get? "_task" = some (.atom (.ref t))) (h0 : ρ.get? "min_date" = some (.atom (.time md)))
    (h2 : ρ.get? "min_successor_starts" = some (.atom (.time mp))) :
    match bwdPlace env σ t md mp with
    | .ok σ' => ∃ ρ', execBlockP (passHB env wfuel calR) (passSelf env) rec bwdTail ρ (encSB env ms σ) =
        .normal ρ' (encSB env ms σ')
    | .error e => execBlockP (passHB env wfuel calR) (passSelf env) rec bwdTail ρ (encSB env ms σ) = .raise e := by
  obtain ⟨ρ0, hx0, hρ0⟩ := g0_ok env ms wfuel calR rec σ t md mp ρ h1 h0 h2
  have hc := msCond_ok env ms wfuel calR { σ with res := (resLookup σ.res (env.info t).resource).1 } t md mp ρ0 _ _ hρ0
  rw [bwdTail_shape, execBlockP_append, hx0]
  simp only [execBlockP_cons, execBlockP_nil]
  simp only [Stmt.execP, hc]
  unfold bwdPlace
  simp only [hms t]
  cases hm : (ms t && (env.info t).children.isEmpty) with
  | true =>
    obtain ⟨ρ1, hx1, hρ1⟩ := msThen_ok env ms wfuel calR rec
      { σ with res := (resLookup σ.res (env.info t).resource).1 } t md mp ρ0 _ _ hρ0
    simp only [if_true, hx1, fin_ok env ms wfuel calR rec _ t md mp ρ1 _ _ hρ1, pure, Except.pure]
    exact ⟨_, rfl⟩
  | false =>
    have he := msElse_ok env ms wfuel calR rec { σ with res := (resLookup σ.res (env.info t).resource).1 } t md mp ρ0 hw hρ0
    simp only [Bool.false_eq_true, if_false, ← hcal, bind, Except.bind] at he ⊢
    rcases hs1 : bwdEnd env (calR (resRef (env.info t).resource)) (usedBy env σ.rows (env.info t).resource t) t md mp
        { σ with res := (resLookup σ.res (env.info t).resource).1 } with e | σ1
    · simp only [hs1] at he ⊢; simp [he]
    simp only [hs1] at he ⊢
    rcases hs2 : fillEst env t σ1 with e | σ2
    · simp only [hs2] at he ⊢; simp [he]
    simp only [hs2] at he ⊢
    rcases hs3 : bwdStart env (calR (resRef (env.info t).resource)) (usedBy env σ.rows (env.info t).resource t) t md σ2
      with e | σ3
    · simp only [hs3] at he ⊢; simp [he]
    simp only [hs3] at he ⊢
    obtain ⟨ρ1, hx1, hρ1⟩ := he
    simp only [hx1, fin_ok env ms wfuel calR rec _ t md mp ρ1 _ _ hρ1, pure, Except.pure]
    exact ⟨_, rfl⟩
end

/-! ### stage 3: the recursion -/

theorem minT_comm (a b : Time) : minT a b = minT b a := by unfold minT; grind
theorem minT_assoc (a b c : Time) : minT (minT a b) c = minT a (minT b c) := by unfold minT; grind

theorem foldl_minT_swap (es : List Time) (e m : Time) : minT (es.foldl minT e) m = es.foldl minT (minT m e) := by
  induction es generalizing e with
  | nil => exact minT_comm _ _
  | cons x xs ih => simp only [List.foldl_cons, ih, minT_assoc]

/-- Python's `min(starts + [m])` is the model's fold that starts from `m` -/
theorem min_append_single (starts : List Time) (m : Time) :
    foldList pyMin (.list ((starts ++ [m]).map Atom.time)) = .ok (.atom (.time (starts.foldl minT m))) := by
  rw [foldList_min_times]
  cases starts with
  | nil => rfl
  | cons e es =>
    simp only [List.cons_append, List.foldl_append, List.foldl_cons, List.foldl_nil, foldl_minT_swap]

/-- a `for x in <tasks>:` loop whose body does one step of the model's `passList` -/
theorem forLoopP_passList (H : PHandlers) (self : PyLite.Env) (rec : List Atom → PState → Res (Val × PState))
    (env : Pj.Env) (ms : Uid → Bool) (x : String) (body : List Stmt) (step : SS → Uid → Res SS)
    (P : PyLite.Env → Prop) (Inv : SS → Prop)
    (hP : ∀ ρ v, P ρ → P (ρ.set x v))
    (hInv : ∀ σ u σ', Inv σ → step σ u = .ok σ' → Inv σ')
    (hbody : ∀ ρ σ u, P ρ → Inv σ → step σ u ≠ .error (.crash .recursion) →
      execBlockP H self rec body (ρ.set x (.atom (.ref u))) (encSB env ms σ) =
        match step σ u with
        | .ok σ' => .normal (ρ.set x (.atom (.ref u))) (encSB env ms σ')
        | .error e => .raise e) :
    ∀ (l : List Uid) (ρ : PyLite.Env) (σ : SS), P ρ → Inv σ → passList step σ l ≠ .error (.crash .recursion) →
      match passList step σ l with
      | .ok σ' => ∃ ρ', forLoopP x (fun ρ st => execBlockP H self rec body ρ st) (l.map Atom.ref) ρ (encSB env ms σ) =
          .normal ρ' (encSB env ms σ') ∧ P ρ' ∧ Inv σ'
      | .error e => forLoopP x (fun ρ st => execBlockP H self rec body ρ st) (l.map Atom.ref) ρ (encSB env ms σ) =
          .raise e := by
  intro l
  induction l with
  | nil => intro ρ σ hp hi _; exact ⟨ρ, rfl, hp, hi⟩
  | cons u l ih =>
    intro ρ σ hp hi hne
    simp only [passList, bind, Except.bind, List.map_cons, forLoopP] at hne ⊢
    rcases hs : step σ u with e | σ1
    · rw [hs] at hne
      have hb := hbody ρ σ u hp hi (by rw [hs]; exact hne)
      rw [hs] at hb
      simp only [hb]
    · rw [hs] at hne
      have hb := hbody ρ σ u hp hi (by rw [hs]; exact fun h => by cases h)
      rw [hs] at hb
      simp only [hb]
      exact ih _ σ1 (hP _ _ hp) (hInv _ _ _ hi hs) hne

structure HeadParts where
  s0 : Stmt
  x1 : String
  it1 : Expr
  body1 : List Stmt
  s2 : Stmt
  x3 : String
  it3 : Expr
  body3 : List Stmt

def headParts : HeadParts :=
  match bwdHead with
  | [a, .forIn x1 it1 b1, c, .forIn x3 it3 b3] => ⟨a, x1, it1, b1, c, x3, it3, b3⟩
  | _ => ⟨.pass, "", .none, [], .pass, "", .none, []⟩

theorem src_Bwd_pass_shape : src_Bwd_pass =
    [headParts.s0, .forIn headParts.x1 headParts.it1 headParts.body1, headParts.s2,
     .forIn headParts.x3 headParts.it3 headParts.body3] ++ bwdTail := rfl

section
variable (env : Pj.Env) (ms : Uid → Bool) (wfuel : Nat) (calR : Nat → Cal)
  (rec : List Atom → PState → Res (Val × PState)) (σ : SS) (t : Uid) (m : Time) (ρ : PyLite.Env)

theorem s0_ok (h : ρ.get? "_task" = some (.atom (.ref t))) :
    headParts.s0.execP (passHB env wfuel calR) (passSelf env) rec ρ (encSB env ms σ) =
      if σ.done.contains t then .ret (.atom .none) (encSB env ms σ) else .normal ρ (encSB env ms σ) := by
  by_cases hd : σ.done.contains t <;>
    pylite_b [headParts, bwdHead, src_Bwd_pass, encSB, h, hd]

theorem it1_ok (h : ρ.get? "_task" = some (.atom (.ref t))) :
    (do let (v, st') ← headParts.it1.evalP (passHB env wfuel calR) (passSelf env) ρ (encSB env ms σ)
        pure ((← iterOf v), st')) = .ok ((env.info t).succs.map Atom.ref, encSB env ms σ) := by
  pylite_b [headParts, bwdHead, src_Bwd_pass, encSB, h]

/-- `reversed(_task.children)` -/
theorem it3_ok (h : ρ.get? "_task" = some (.atom (.ref t))) :
    (do let (v, st') ← headParts.it3.evalP (passHB env wfuel calR) (passSelf env) ρ (encSB env ms σ)
        pure ((← iterOf v), st')) = .ok ((env.info t).children.reverse.map Atom.ref, encSB env ms σ) := by
  pylite_b [headParts, bwdHead, src_Bwd_pass, encSB, h, List.map_reverse]

theorem body1_ok (h1 : ρ.get? "_task" = some (.atom (.ref t))) (h2 : ρ.get? "min_date" = some (.atom (.time m)))
    (u : Uid) (R : Res SS)
    (hrec : (env.info u).member = (env.info t).member →
      rec [.ref u, .time m] (encSB env ms σ) = R.map (fun σ' => (Val.atom .none, encSB env ms σ'))) :
    execBlockP (passHB env wfuel calR) (passSelf env) rec headParts.body1 (ρ.set headParts.x1 (.atom (.ref u)))
        (encSB env ms σ) =
      match (if (env.info u).member == (env.info t).member then R else pure σ) with
      | .ok σ' => .normal (ρ.set headParts.x1 (.atom (.ref u))) (encSB env ms σ')
      | .error e => .raise e := by
  by_cases hm : (env.info u).member = (env.info t).member
  · have hr := hrec hm
    simp only [encSB] at hr
    cases h3 : (env.info u).member <;> rw [h3] at hm <;> rcases R with e | σ' <;>
      pylite_b [headParts, bwdHead, src_Bwd_pass, encSB, h1, h2, ← hm, h3, encWbs, hr, Except.map]
  · cases h3 : (env.info u).member <;> cases h4 : (env.info t).member <;> simp only [h3, h4] at hm <;>
      first
      | exact absurd trivial hm
      | pylite_b [headParts, bwdHead, src_Bwd_pass, encSB, h1, h2, h3, h4, encWbs]

theorem body3_ok
    (h2 : ρ.get? "min_successor_starts" = some (.atom (.time m)))
    (u : Uid) (R : Res SS)
    (hrec : rec [.ref u, .time m] (encSB env ms σ) = R.map (fun σ' => (Val.atom .none, encSB env ms σ'))) :
    execBlockP (passHB env wfuel calR) (passSelf env) rec headParts.body3 (ρ.set headParts.x3 (.atom (.ref u)))
        (encSB env ms σ) =
      match (generalizing := false) R with
      | .ok σ' => .normal (ρ.set headParts.x3 (.atom (.ref u))) (encSB env ms σ')
      | .error e => .raise e := by
  simp only [encSB] at hrec
  rcases R with e | σ' <;>
    pylite_b [headParts, bwdHead, src_Bwd_pass, encSB, h2, hrec, Except.map]

theorem s2_ok (h1 : ρ.get? "_task" = some (.atom (.ref t))) (h2 : ρ.get? "min_date" = some (.atom (.time m))) :
    headParts.s2.execP (passHB env wfuel calR) (passSelf env) rec ρ (encSB env ms σ) =
      .normal (ρ.set "min_successor_starts" (.atom (.time (minStarts σ (env.info t).succs m)))) (encSB env ms σ) := by
  have hc := evalP_comp_time (passHB env wfuel calR) (passSelf env) ρ env ms σ.f (encSB env ms σ) rfl "t" "start"
    (·.start) encTaskB_start (.attr (.var "_task") "successors") (env.info t).succs
    (evalP_task_attr _ _ _ _ _ _ t _ h1 (encTaskB_succs _ _ _))
  simp only [encSB] at hc
  have hmx := min_append_single ((env.info t).succs.filterMap (fun c => (σ.f c).start)) m
  simp only [List.map_append, List.map_cons, List.map_nil] at hmx
  pylite_b [↓hc, headParts, bwdHead, src_Bwd_pass, encSB, h1, h2, hmx, minStarts]

end

/-! the resource table along the model's run -/

theorem bwdPlace_res (env : Pj.Env) (σ σ' : SS) (t : Uid) (m v : Time) (h : bwdPlace env σ t m v = .ok σ') :
    σ'.res = (resLookup σ.res (env.info t).resource).1 := by
  obtain ⟨new, σm, hst, rfl, _⟩ := bwdPlace_stage env σ σ' t m v h
  simp [markDone, hst.res]

theorem bwdPass_calOf (env : Pj.Env) (res0 : List (Option Nat × Cal)) (fuel : Nat) (stk : List Uid) (σ σ' : SS)
    (t : Uid) (m : Time) (hi : ∀ k, calOf σ.res k = calOf res0 k) (h : bwdPass env fuel stk σ t m = .ok σ') :
    ∀ k, calOf σ'.res k = calOf res0 k :=
  bwdPass_inv env (fun σ => ∀ k, calOf σ.res k = calOf res0 k) (fun _ => True)
    (fun σ σ' t m v _ hi _ _ h k => by rw [bwdPlace_res env σ σ' t m v h, calOf_resLookup]; exact hi k)
    (fun _ _ _ _ => trivial) (fun _ _ _ _ _ => trivial) fuel stk σ t m σ' trivial hi h

theorem bwdPass_zero (env : Pj.Env) (stk : List Uid) (σ : SS) (t : Uid) (m : Time) :
    bwdPass env 0 stk σ t m = .error (.crash .recursion) := rfl

def stepSucc (env : Pj.Env) (fuel : Nat) (stk : List Uid) (t : Uid) (m : Time) : SS → Uid → Res SS :=
  fun σ p => if (env.info p).member == (env.info t).member then bwdPass env fuel (t :: stk) σ p m else pure σ

def stepCh (env : Pj.Env) (fuel : Nat) (stk : List Uid) (t : Uid) (mp : Time) : SS → Uid → Res SS :=
  fun σ c => bwdPass env fuel (t :: stk) σ c mp

theorem bwdPass_succ (env : Pj.Env) (fuel : Nat) (stk : List Uid) (σ : SS) (t : Uid) (m : Time) :
    bwdPass env (fuel + 1) stk σ t m =
      (if σ.done.contains t then pure σ
      else if stk.contains t then throw (.crash .recursion)
      else do
        let σ1 ← passList (stepSucc env fuel stk t m) σ (env.info t).succs
        let σ2 ← passList (stepCh env fuel stk t (minStarts σ1 (env.info t).succs m)) σ1 (env.info t).children.reverse
        bwdPlace env σ2 t m (minStarts σ1 (env.info t).succs m)) := rfl

section
variable (env : Pj.Env) (ms : Uid → Bool) (wfuel : Nat)

/-- STAGE 3 (in terms of `callP`) -/
theorem callP_bwdPass (hms : ∀ u, (env.info u).milestone = (ms u && (env.info u).children.isEmpty))
    (hw : Extracted.bwdShiftMaxSteps < wfuel) (res0 : List (Option Nat × Cal)) :
    ∀ (fuel fuel' : Nat), fuel ≤ fuel' → ∀ (stk : List Uid) (σ : SS) (t : Uid) (m : Time),
      (∀ k, calOf σ.res k = calOf res0 k) →
      bwdPass env fuel stk σ t m ≠ .error (.crash .recursion) →
      callP (passHB env wfuel (calRef res0)) (passSelf env) src_Bwd_pass_params src_Bwd_pass fuel'
          [.ref t, .time m] (encSB env ms σ) =
        (bwdPass env fuel stk σ t m).map (fun σ' => (Val.atom .none, encSB env ms σ')) := by
  intro fuel
  induction fuel with
  | zero => intro fuel' _ stk σ t m _ hne; exact absurd (bwdPass_zero env stk σ t m) hne
  | succ fuel ih =>
    intro fuel' hle stk σ t m hinv hne
    obtain ⟨f', rfl⟩ : ∃ f', fuel' = f' + 1 := ⟨fuel' - 1, by omega⟩
    have hf : fuel ≤ f' := by omega
    rw [bwdPass_succ] at hne ⊢
    have hρ1 : Env.get? [("_task", Val.atom (.ref t)), ("min_date", Val.atom (.time m))] "_task" = some (.atom (.ref t)) := rfl
    have hρ2 : Env.get? [("_task", Val.atom (.ref t)), ("min_date", Val.atom (.time m))] "min_date" = some (.atom (.time m)) := rfl
    have hrec := ih f' hf
    simp only [callP, src_Bwd_pass_params, bindParams, pure, Except.pure, bind, Except.bind] at hrec ⊢
    generalize callP (passHB env wfuel (calRef res0)) (passSelf env) ["_task", "min_date"] src_Bwd_pass f' = rec at hrec ⊢
    generalize hρ : [("_task", Val.atom (.ref t)), ("min_date", Val.atom (.time m))] = ρ0 at hρ1 hρ2 ⊢
    rw [src_Bwd_pass_shape, execBlockP_append, execBlockP_cons, s0_ok _ _ _ _ _ _ _ _ hρ1]
    simp only [List.contains_iff_mem, Except.map, pure, Except.pure, bind, Except.bind, throw, throwThe,
      MonadExceptOf.throw] at hne ⊢
    by_cases hd : t ∈ σ.done
    · simp [hd]
    simp only [hd, if_false] at hne ⊢
    by_cases hs : t ∈ stk
    · simp [hs] at hne
    simp only [hs, if_false] at hne ⊢
    -- the loop over the successors
    have hx1a : headParts.x1 ≠ "_task" := by decide
    have hx1b : headParts.x1 ≠ "min_date" := by decide
    have L1 := forLoopP_passList (passHB env wfuel (calRef res0)) (passSelf env) rec env ms headParts.x1 headParts.body1
      (stepSucc env fuel stk t m)
      (fun ρ => ρ.get? "_task" = some (.atom (.ref t)) ∧ ρ.get? "min_date" = some (.atom (.time m)))
      (fun σ => ∀ k, calOf σ.res k = calOf res0 k)
      (fun ρ v h => ⟨by rw [Env.get?_set, if_neg hx1a]; exact h.1, by rw [Env.get?_set, if_neg hx1b]; exact h.2⟩)
      (fun σ u σ' hi h => by
        unfold stepSucc at h
        split at h
        · exact bwdPass_calOf env res0 fuel _ σ σ' u m hi h
        · cases h; exact hi)
      (fun ρ σ u hp hi hn => by
        have := body1_ok env ms wfuel (calRef res0) rec σ t m ρ hp.1 hp.2 u (bwdPass env fuel (t :: stk) σ u m)
          (fun hm => hrec (t :: stk) σ u m hi (by simpa [stepSucc, hm] using hn))
        simpa [stepSucc, pure, Except.pure] using this)
      (env.info t).succs ρ0 σ ⟨hρ1, hρ2⟩ hinv
    rw [execBlockP_cons]
    simp only [Stmt.execP, it1_ok env ms wfuel (calRef res0) σ t ρ0 hρ1]
    rcases h1 : passList (stepSucc env fuel stk t m) σ (env.info t).succs with e | σ1
    · simp only [h1] at hne L1 ⊢
      simp [L1 (by simpa using hne)]
    simp only [h1] at hne L1 ⊢
    obtain ⟨ρ1, hx1, ⟨hρ1a, hρ1b⟩, hinv1⟩ := L1 (fun h => by cases h)
    simp only [hx1]
    -- min_successor_starts
    rw [execBlockP_cons, s2_ok env ms wfuel (calRef res0) rec σ1 t m ρ1 hρ1a hρ1b]
    simp only []
    generalize hmp : minStarts σ1 (env.info t).succs m = mp at hne ⊢
    -- the loop over the children, last first
    have hx3a : headParts.x3 ≠ "_task" := by decide
    have hx3b : headParts.x3 ≠ "min_successor_starts" := by decide
    have hx3c : headParts.x3 ≠ "min_date" := by decide
    have hρ2a : (Env.set ρ1 "min_successor_starts" (.atom (.time mp))).get? "_task" = some (.atom (.ref t)) := by
      rw [Env.get?_set, if_neg (by decide)]; exact hρ1a
    have hρ2c : (Env.set ρ1 "min_successor_starts" (.atom (.time mp))).get? "min_date" = some (.atom (.time m)) := by
      rw [Env.get?_set, if_neg (by decide)]; exact hρ1b
    have hρ2b : (Env.set ρ1 "min_successor_starts" (.atom (.time mp))).get? "min_successor_starts" =
        some (.atom (.time mp)) := by
      rw [Env.get?_set, if_pos rfl]
    have L3 := forLoopP_passList (passHB env wfuel (calRef res0)) (passSelf env) rec env ms headParts.x3 headParts.body3
      (stepCh env fuel stk t mp)
      (fun ρ => ρ.get? "_task" = some (.atom (.ref t)) ∧ ρ.get? "min_successor_starts" = some (.atom (.time mp)) ∧
        ρ.get? "min_date" = some (.atom (.time m)))
      (fun σ => ∀ k, calOf σ.res k = calOf res0 k)
      (fun ρ v h => ⟨by rw [Env.get?_set, if_neg hx3a]; exact h.1, by rw [Env.get?_set, if_neg hx3b]; exact h.2.1,
        by rw [Env.get?_set, if_neg hx3c]; exact h.2.2⟩)
      (fun σ u σ' hi h => bwdPass_calOf env res0 fuel _ σ σ' u mp hi h)
      (fun ρ σ u hp hi hn =>
        body3_ok env ms wfuel (calRef res0) rec σ mp ρ hp.2.1 u (bwdPass env fuel (t :: stk) σ u mp)
          (hrec (t :: stk) σ u mp hi hn))
      (env.info t).children.reverse _ σ1 ⟨hρ2a, hρ2b, hρ2c⟩ hinv1
    rw [execBlockP_cons]
    simp only [Stmt.execP, it3_ok env ms wfuel (calRef res0) σ1 t _ hρ2a]
    simp only [List.map_reverse] at L3 ⊢
    rcases h3 : passList (stepCh env fuel stk t mp) σ1 (env.info t).children.reverse with e | σ2
    · simp only [h3] at hne L3 ⊢
      simp [L3 (by simpa using hne)]
    simp only [h3] at hne L3 ⊢
    obtain ⟨ρ3, hx3, ⟨hρ3a, hρ3b, hρ3c⟩, hinv3⟩ := L3 (fun h => by cases h)
    simp only [hx3, execBlockP_nil]
    -- the placement
    have hT := bwdTail_eq env ms wfuel (calRef res0) rec σ2 t m mp ρ3 hms hw
      (by rw [calRef_resRef, resLookup_snd, hinv3]) hρ3a hρ3c hρ3b
    rcases h4 : bwdPlace env σ2 t m mp with e | σ3
    · simp only [h4] at hT ⊢; simp [hT]
    · simp only [h4] at hT ⊢
      obtain ⟨ρ4, hx4⟩ := hT
      simp [hx4]

/-- STAGE 3.  Interpreting the translated `__backward_pass` on the encoding of a model state computes the encoding of
    the model's `bwdPass`, PROVIDED the model's run does not end in RecursionError (`.crash .recursion`: the fuel
    of the model runs out, or the model meets a task that is in progress - `stk.contains t`, a check Python does
    not have: there the recursion goes on until the recursion limit, which the fuel of the interpreter plays).
    The interpreter may have more fuel than the model.  `stk` is arbitrary. -/
theorem interpBwdPass_eq (hms : ∀ u, (env.info u).milestone = (ms u && (env.info u).children.isEmpty))
    (hw : Extracted.bwdShiftMaxSteps < wfuel) (fuel fuel' : Nat) (hle : fuel ≤ fuel') (stk : List Uid) (σ : SS)
    (t : Uid) (minDate : Time) (hne : bwdPass env fuel stk σ t minDate ≠ .error (.crash .recursion)) :
    interpBwdPass env wfuel (calRef σ.res) fuel' (encSB env ms σ) t minDate =
      (bwdPass env fuel stk σ t minDate).map (encSB env ms) := by
  unfold interpBwdPass
  rw [callP_bwdPass env ms wfuel hms hw σ.res fuel fuel' hle stk σ t minDate (fun _ => rfl) hne]
  cases bwdPass env fuel stk σ t minDate <;> rfl

/-- the same inside a run that started from the resource table `res0` (`calOf σ.res = calOf res0`: the table only
    grows by default resources) -/
theorem interpBwdPass_eq' (hms : ∀ u, (env.info u).milestone = (ms u && (env.info u).children.isEmpty))
    (hw : Extracted.bwdShiftMaxSteps < wfuel) (res0 : List (Option Nat × Cal)) (fuel fuel' : Nat) (hle : fuel ≤ fuel')
    (stk : List Uid) (σ : SS) (t : Uid) (minDate : Time) (hres : ∀ k, calOf σ.res k = calOf res0 k)
    (hne : bwdPass env fuel stk σ t minDate ≠ .error (.crash .recursion)) :
    interpBwdPass env wfuel (calRef res0) fuel' (encSB env ms σ) t minDate =
      (bwdPass env fuel stk σ t minDate).map (encSB env ms) := by
  unfold interpBwdPass
  rw [callP_bwdPass env ms wfuel hms hw res0 fuel fuel' hle stk σ t minDate hres hne]
  cases bwdPass env fuel stk σ t minDate <;> rfl

/-- in particular a successful run of the model is reproduced by the translated source -/
theorem interpBwdPass_ok (hms : ∀ u, (env.info u).milestone = (ms u && (env.info u).children.isEmpty))
    (hw : Extracted.bwdShiftMaxSteps < wfuel) (fuel : Nat) (σ σ' : SS) (t : Uid) (minDate : Time)
    (h : bwdPass env fuel [] σ t minDate = .ok σ') :
    interpBwdPass env wfuel (calRef σ.res) fuel (encSB env ms σ) t minDate = .ok (encSB env ms σ') := by
  rw [interpBwdPass_eq env ms wfuel hms hw fuel fuel (Nat.le_refl _) [] σ t minDate (by rw [h]; exact fun h => by cases h), h]
  rfl

end

/-- reading back an encoded state (`calR` must know the calendars of the table) -/
theorem decS_encSB (env : Pj.Env) (ms : Uid → Bool) (calR : Nat → Cal) (σ : SS)
    (hc : ∀ p ∈ σ.res, calR (resRef p.1) = p.2) : decS calR (encSB env ms σ) = σ := by
  have h := decS_encS env ms calR σ hc
  have hf : (fun u => decFields ((encSB env ms σ).heap u)) = fun u => decFields ((encS env ms σ).heap u) := by
    funext u
    simp only [decFields, encSB, encS, encHeapB_apply, encHeap_apply, encTaskB_start, encTaskB_end, encTaskB_estimate,
      encTaskB_spent, encTask_start, encTask_end, encTask_estimate, encTask_spent]
  simp only [decS] at h ⊢
  rw [hf]
  exact h

/-! ### stage 4: `__prepare_tasks` (both schedulers)

  `@staticmethod def __prepare_tasks(project: WBS)`: the WBS object is the heap object `ref w` whose attribute
  `tasks` is the list of the member tasks (`withWbs`); the task objects are those of `PassSrc.encS` (forward) or
  `encSB` (backward) - the proof is generic in the encoding of a task (`TaskEnc`). -/

/-- what the proof needs of an encoding of task objects -/
structure TaskEnc (E : TaskInfo → Bool → Fields → PyLite.Env) : Prop where
  children : ∀ info flag fl, (E info flag fl).get? "children" = some (.list (info.children.map Atom.ref))
  set_start : ∀ info flag fl v, Env.set (E info flag fl) "start" (optTime v) = E info flag { fl with start := v }
  set_end : ∀ info flag fl v, Env.set (E info flag fl) "end" (optTime v) = E info flag { fl with end_ := v }
  set_estimate : ∀ info flag fl v, Env.set (E info flag fl) "estimate" (optNum v) = E info flag { fl with est := v }
  set_spent : ∀ info flag fl v, Env.set (E info flag fl) "spent" (optNum v) = E info flag { fl with spent := v }

theorem taskEnc_fwd : TaskEnc encTask :=
  ⟨encTask_children, encTask_set_start, encTask_set_end, encTask_set_estimate, encTask_set_spent⟩
theorem taskEnc_bwd : TaskEnc encTaskB :=
  ⟨encTaskB_children, encTaskB_set_start, encTaskB_set_end, encTaskB_set_estimate, encTaskB_set_spent⟩

def heapOf (E : TaskInfo → Bool → Fields → PyLite.Env) (env : Pj.Env) (ms : Uid → Bool) (f : Uid → Fields) :
    Nat → PyLite.Env := fun u => E (env.info u) (ms u) (f u)

/-- the heap `h` with the WBS object `ref w`: its attribute `tasks` is the list of the member tasks -/
def withWbs (h : Nat → PyLite.Env) (w : Nat) (mem : List Uid) : Nat → PyLite.Env :=
  fun j => if j = w then [("tasks", .list (mem.map Atom.ref))] else h j

theorem heapSet_withWbs (h : Nat → PyLite.Env) (w : Nat) (mem : List Uid) (u : Nat) (a : String) (v : Val) (hu : u ≠ w) :
    heapSet (withWbs h w mem) u a v = withWbs (heapSet h u a v) w mem := by
  funext j
  by_cases hj : j = w
  · subst hj
    have : ¬ j = u := fun h => hu h.symm
    simp [heapSet, withWbs, this]
  · by_cases hju : j = u
    · subst hju; simp [heapSet, withWbs, hj]
    · simp [heapSet, withWbs, hj, hju]

theorem heapSet_heapOf {E : TaskInfo → Bool → Fields → PyLite.Env} (env : Pj.Env) (ms : Uid → Bool) (f : Uid → Fields)
    (t : Uid) (a : String) (v : Val) (g : Fields) (h : Env.set (E (env.info t) (ms t) (f t)) a v = E (env.info t) (ms t) g) :
    heapSet (heapOf E env ms f) t a v = heapOf E env ms (upd f t g) := by
  funext j
  by_cases hj : j = t
  · subst hj; simp [heapSet, heapOf, h]
  · simp [heapSet, heapOf, upd, hj]

theorem natCast_pos (n : Nat) : (0 : Rat) < (n : Rat) ↔ 0 < n := by
  have : (0 : Rat) = ((0 : Nat) : Rat) := rfl
  rw [this, Rat.natCast_lt_natCast]

theorem prepare_one_leaf (env : Pj.Env) (f : Uid → Fields) (u : Uid) (h : (env.info u).children.isEmpty = true) :
    prepare env f [u] = f := by
  funext x
  by_cases hx : x = u
  · subst hx; simp [prepare, h]
  · simp [prepare, hx]

theorem prepare_one_summary (env : Pj.Env) (f : Uid → Fields) (u : Uid) (h : (env.info u).children.isEmpty = false) :
    prepare env f [u] = upd f u { start := none, end_ := none, est := none, spent := none } := by
  funext x
  by_cases hx : x = u
  · subst hx; simp [prepare, h, upd]
  · simp [prepare, hx, upd]

theorem prepare_cons (env : Pj.Env) (f : Uid → Fields) (u : Uid) (l : List Uid) :
    prepare env (prepare env f [u]) l = prepare env f (u :: l) := by
  funext x
  simp only [prepare, List.contains_cons, List.contains_nil, Bool.or_false]
  cases l.contains x <;> cases (x == u) <;> cases (env.info x).children.isEmpty <;> simp

/-- the body of the loop of `__prepare_tasks` -/
def prepBody : List Stmt :=
  match src_Fwd_prepare with
  | [.forIn _ _ b] => b
  | _ => []

theorem src_Fwd_prepare_shape : src_Fwd_prepare = [.forIn "t" (.attr (.var "project") "tasks") prepBody] := rfl
/-- the two static methods have the same text -/
theorem src_Bwd_prepare_eq : src_Bwd_prepare = src_Fwd_prepare ∧ src_Bwd_prepare_params = src_Fwd_prepare_params :=
  ⟨rfl, rfl⟩

section
variable {E : TaskInfo → Bool → Fields → PyLite.Env} (hE : TaskEnc E) (H : PHandlers) (self : PyLite.Env)
  (rec : List Atom → PState → Res (Val × PState)) (env : Pj.Env) (ms : Uid → Bool) (w : Nat) (mem : List Uid)
include hE

theorem prepBody_ok (f : Uid → Fields) (st : PState) (hh : st.heap = withWbs (heapOf E env ms f) w mem) (u : Uid)
    (hu : u ≠ w) (ρ : PyLite.Env) :
    ∃ ρ', execBlockP H self rec prepBody (ρ.set "t" (.atom (.ref u))) st =
      .normal ρ' { st with heap := withWbs (heapOf E env ms (prepare env f [u])) w mem } := by
  obtain ⟨L, heap, done, res, reads⟩ := st
  simp only at hh
  subst hh
  have hch : (withWbs (heapOf E env ms f) w mem u).get? "children" = some (.list ((env.info u).children.map Atom.ref)) := by
    simp only [withWbs, if_neg hu, heapOf, hE.children]
  cases hc : (env.info u).children with
  | nil =>
    have hl : (env.info u).children.isEmpty = true := by simp [hc]
    refine ⟨ρ.set "t" (.atom (.ref u)), ?_⟩
    rw [prepare_one_leaf env f u hl]
    simp [prepBody, src_Fwd_prepare, execBlockP, Stmt.execP, Expr.evalP, Env.get?_set, hch, hc, truthP,
      PyLite.compare, cmpRat, Atom.asNum?, pure, Except.pure, bind, Except.bind]
  | cons c cs =>
    have hl : (env.info u).children.isEmpty = false := by simp [hc]
    have hpos : (0 : Rat) < (cs.length : Rat) + 1 := by
      rw [← natCast_succ]; exact (natCast_pos _).2 (by omega)
    have e1 := heapSet_heapOf (E := E) env ms f u "start" (.atom .none) _ (hE.set_start _ _ _ none)
    have e2 := fun f => heapSet_heapOf (E := E) env ms f u "end" (.atom .none) _ (hE.set_end _ _ _ none)
    have e3 := fun f => heapSet_heapOf (E := E) env ms f u "estimate" (.atom .none) _ (hE.set_estimate _ _ _ none)
    have e4 := fun f => heapSet_heapOf (E := E) env ms f u "spent" (.atom .none) _ (hE.set_spent _ _ _ none)
    rw [prepare_one_summary env f u hl]
    simp [prepBody, src_Fwd_prepare, execBlockP, Stmt.execP, Expr.evalP, Env.get?_set, hch, hc, truthP,
      PyLite.compare, cmpRat, Atom.asNum?, pure, Except.pure, bind, Except.bind, hpos, heapSet_withWbs _ _ _ _ _ _ hu,
      e1, e2, e3, e4, upd_upd, upd]

theorem prepLoop_ok : ∀ (l : List Uid) (f : Uid → Fields) (ρ : PyLite.Env) (st : PState),
    st.heap = withWbs (heapOf E env ms f) w mem → w ∉ l →
    ∃ ρ', forLoopP "t" (fun ρ st => execBlockP H self rec prepBody ρ st) (l.map Atom.ref) ρ st =
      .normal ρ' { st with heap := withWbs (heapOf E env ms (prepare env f l)) w mem } := by
  intro l
  induction l with
  | nil =>
    intro f ρ st hh _
    refine ⟨ρ, ?_⟩
    have : prepare env f [] = f := by funext x; simp [prepare]
    rw [this, ← hh]; rfl
  | cons u l ih =>
    intro f ρ st hh hw
    have hu : u ≠ w := fun h => hw (by simp [h])
    obtain ⟨ρ1, h1⟩ := prepBody_ok hE H self rec env ms w mem f st hh u hu ρ
    obtain ⟨ρ2, h2⟩ := ih (prepare env f [u]) ρ1 { st with heap := withWbs (heapOf E env ms (prepare env f [u])) w mem } rfl
      (fun h => hw (List.mem_cons_of_mem _ h))
    refine ⟨ρ2, ?_⟩
    simp only [List.map_cons, forLoopP, h1, h2, prepare_cons]

/-- STAGE 4.  The translated `__prepare_tasks(project)` run on a heap that encodes the fields `f` (and holds the WBS
    object `ref w` with `tasks` = `mem`) ends on the heap that encodes the model's `prepare env f mem`; everything
    else in the state is unchanged. -/
theorem callP_prepare (src : List Stmt) (hsrc : src = src_Fwd_prepare) (f : Uid → Fields) (st : PState)
    (hh : st.heap = withWbs (heapOf E env ms f) w mem) (hw : w ∉ mem) (fuel : Nat) :
    callP H self src_Fwd_prepare_params src (fuel + 1) [.ref w] st =
      .ok (.atom .none, { st with heap := withWbs (heapOf E env ms (prepare env f mem)) w mem }) := by
  subst hsrc
  have hp : Env.get? [("project", Val.atom (Atom.ref w))] "project" = some (.atom (.ref w)) := rfl
  have ht : (st.heap w).get? "tasks" = some (.list (mem.map Atom.ref)) := by
    rw [hh]; simp [withWbs, Env.get?]
  simp only [callP, src_Fwd_prepare_params, bindParams, pure, Except.pure, bind, Except.bind]
  generalize callP H self ["project"] src_Fwd_prepare fuel = rec
  obtain ⟨ρ', hl⟩ := prepLoop_ok hE H self rec env ms w mem mem f [("project", .atom (.ref w))] st hh hw
  rw [src_Fwd_prepare_shape]
  simp only [execBlockP, Stmt.execP, Expr.evalP, hp, ht, iterOf, hl, pure, Except.pure, bind, Except.bind]
end

/-- a state whose heap also holds the WBS object `ref w` -/
def wbsState (st : PState) (w : Nat) (mem : List Uid) : PState := { st with heap := withWbs st.heap w mem }

/-- run the translated static method `__prepare_tasks(ref w)` -/
def interpPrepare (src : List Stmt) (st : PState) (w : Nat) : Res PState :=
  (callP { clock := fun _ => 0, call := fun _ _ _ => throw stuck, newResource := fun _ => throw stuck } []
    src_Fwd_prepare_params src 1 [.ref w] st).map (·.2)

/-- `ForwardScheduler.__prepare_tasks` on the forward encoding: `fwdRun` starts from `prepare env f0 mem` -/
theorem interpFwdPrepare_eq (env : Pj.Env) (ms : Uid → Bool) (σ : SS) (w : Nat) (mem : List Uid) (hw : w ∉ mem) :
    interpPrepare src_Fwd_prepare (wbsState (encS env ms σ) w mem) w =
      .ok (wbsState (encS env ms { σ with f := prepare env σ.f mem }) w mem) := by
  unfold interpPrepare
  rw [callP_prepare taskEnc_fwd _ _ env ms w mem _ rfl σ.f (wbsState (encS env ms σ) w mem) rfl hw 0]
  rfl

/-- `BackwardScheduler.__prepare_tasks` on the backward encoding: `bwdRun` starts from `prepare env f0 mem` -/
theorem interpBwdPrepare_eq (env : Pj.Env) (ms : Uid → Bool) (σ : SS) (w : Nat) (mem : List Uid) (hw : w ∉ mem) :
    interpPrepare src_Bwd_prepare (wbsState (encSB env ms σ) w mem) w =
      .ok (wbsState (encSB env ms { σ with f := prepare env σ.f mem }) w mem) := by
  unfold interpPrepare
  rw [callP_prepare taskEnc_bwd _ _ env ms w mem _ src_Bwd_prepare_eq.1 σ.f (wbsState (encSB env ms σ) w mem) rfl hw 0]
  rfl

namespace Check
open Pj.PassSrc.Check (nof clk)

def ti (children succs : List Uid) (member : Bool := true) (resource : Option Nat := some 0) (milestone : Bool := false) :
    TaskInfo :=
  { tid := 0, parent := none, children := children, preds := [], succs := succs, member := member,
    resource := resource, milestone := milestone, minStart := none }
def wf : Nat := Extracted.bwdShiftMaxSteps + 1

def agree (env : Pj.Env) (ms : Uid → Bool) (n fuel : Nat) (σ : SS) (t : Uid) (m : Time) : Prop :=
  (interpBwdPass env wf (calRef σ.res) fuel (encSB env ms σ) t m).map (fun st => view n (decS (calRef σ.res) st))
    = (bwdPass env fuel [] σ t m).map (view n)
instance (env ms n fuel σ t m) : Decidable (agree env ms n fuel σ t m) := by unfold agree; infer_instance

/-- a leaf with an estimate -/
def e1 : Pj.Env :=
  { n := 1, info := fun _ => ti [] [], roots := [0], balance := true, defaultEst := 4, clock := clk, bound := 19000 }
def s1 : SS :=
  { f := fun u => if u = 0 then { nof with est := some 20 } else nof, rows := [], done := [], res := [], reads := 0 }
example : agree e1 (fun _ => false) 2 3 s1 0 19000 := by decide +kernel

/-- a summary with two leaves on the same (supplied) resource; the second leaf has work spent; a row of another
    task is already in the ledger.  With balancing the leaf placed first (the LAST child) takes the later days. -/
def e2 : Pj.Env :=
  { n := 3, info := fun u => match u with
      | 0 => ti [1, 2] [] (resource := none)
      | _ => ti [] [] (resource := some 3),
    roots := [0], balance := true, defaultEst := 6, clock := clk, bound := 19000 }
def s2 : SS :=
  { f := fun u => if u = 2 then { nof with est := some 12, spent := some 2 } else nof,
    rows := [{ res := some 3, day := 18998, task := 7, units := 3 }], done := [],
    res := [(some 3, .weekly none none [6, 6, 6, 6, 6, 6, 6])], reads := 0 }
example : agree e2 (fun _ => false) 4 3 s2 0 19000 := by decide +kernel
/-- the same without resource balancing -/
example : agree { e2 with balance := false } (fun _ => false) 4 3 s2 0 19000 := by decide +kernel

/-- a successor chain 0 -> 1 -> 2 where 2 is outside the WBS (it keeps its dates) and has itself an unscheduled
    successor 3 -/
def e3 : Pj.Env :=
  { n := 4, info := fun u => match u with
      | 0 => ti [] [1]
      | 1 => ti [] [2] (resource := some 1)
      | 2 => ti [] [3] (member := false)
      | _ => ti [] [] (member := false),
    roots := [0, 1], balance := true, defaultEst := 5, clock := clk, bound := 19000 }
def s3 : SS :=
  { f := fun u => if u = 2 then { nof with start := some ((37985 : Rat) / 2), end_ := some 18995 } else nof,
    rows := [], done := [], res := [], reads := 0 }
example : agree e3 (fun _ => false) 5 5 s3 0 19000 := by decide +kernel
/-- not enough fuel: RecursionError on both sides -/
example : agree e3 (fun _ => false) 5 1 s3 0 19000 := by decide +kernel

/-- a milestone leaf (1) before a leaf (0); the flagged SUMMARY (2, children 0 and 1) is not a milestone -/
def e4 : Pj.Env :=
  { n := 3, info := fun u => match u with
      | 0 => ti [] []
      | 1 => ti [] [0] (milestone := true)
      | _ => ti [0, 1] [],
    roots := [2], balance := true, defaultEst := 3, clock := clk, bound := 19000 }
def ms4 : Uid → Bool := fun u => u = 1 || u = 2
def s4 : SS := { f := fun _ => nof, rows := [], done := [], res := [], reads := 0 }
example : agree e4 ms4 4 5 s4 2 19000 := by decide +kernel

/-- a summary (0, children 1 and 2) with a successor (3); its first child has the second as successor -/
def e5 : Pj.Env :=
  { n := 4, info := fun u => match u with
      | 0 => ti [1, 2] [3] (resource := none)
      | 1 => ti [] [2]
      | 2 => ti [] []
      | _ => ti [] [] (resource := some 2),
    roots := [0, 3], balance := true, defaultEst := 7, clock := clk, bound := 19000 }
def s5 : SS :=
  { f := fun u => if u = 3 then { nof with est := some 10 } else nof, rows := [], done := [], res := [], reads := 0 }
example : agree e5 (fun _ => false) 5 5 s5 0 19000 := by decide +kernel

/-- a user-fixed end (0), a user-fixed start (1: the earlier of the two is kept), a user-fixed start and end on the
    resource `None` (2) -/
def e6 : Pj.Env :=
  { n := 4, info := fun u => match u with
      | 0 => ti [] []
      | 1 => ti [] []
      | 2 => ti [] [] (resource := none)
      | _ => ti [] [],
    roots := [0, 1, 2], balance := true, defaultEst := 3, clock := clk, bound := 19000 }
def s6 : SS :=
  { f := fun u => if u = 0 then { nof with end_ := some ((37981 : Rat) / 2), est := some 10 }
                  else if u = 1 then { nof with start := some 18000, est := some 10 }
                  else if u = 2 then { nof with start := some 18990, end_ := some 19005 } else nof,
    rows := [], done := [], res := [], reads := 0 }
example : agree e6 (fun _ => false) 4 5 s6 0 19000 := by decide +kernel
example : agree e6 (fun _ => false) 4 5 s6 1 19000 := by decide +kernel
example : agree e6 (fun _ => false) 4 5 s6 2 19000 := by decide +kernel

/-- errors coincide: the child 1 counts as calculated but has no estimate (TypeError in `sum`); a summary whose
    only child has no start (ValueError in `min`) -/
def e7 : Pj.Env :=
  { n := 2, info := fun u => match u with
      | 0 => ti [1] []
      | _ => ti [] [],
    roots := [0], balance := true, defaultEst := 3, clock := clk, bound := 19000 }
def s7 : SS := { f := fun _ => nof, rows := [], done := [1], res := [], reads := 0 }
def s7' : SS :=
  { f := fun u => if u = 1 then { nof with est := some 1, spent := some 0 } else nof, rows := [], done := [1], res := [],
    reads := 0 }
example : (bwdPass e7 3 [] s7 0 19000).map (view 2) = .error (.crash .type) := by decide +kernel
example : agree e7 (fun _ => false) 3 3 s7 0 19000 := by decide +kernel
example : (bwdPass e7 3 [] s7' 0 19000).map (view 2) = .error (.crash .value) := by decide +kernel
example : agree e7 (fun _ => false) 3 3 s7' 0 19000 := by decide +kernel

/-- stage 4, concretely: the WBS object is `ref 9`, its members 0 (a summary), 1 and 2 (leaves); 3 is a summary
    OUTSIDE the WBS and keeps its fields -/
def eP : Pj.Env :=
  { n := 4, info := fun u => match u with
      | 0 => ti [1, 2] []
      | 3 => ti [4] [] (member := false)
      | _ => ti [] [],
    roots := [0], balance := true, defaultEst := 0, clock := clk, bound := 19000 }
def sP : SS :=
  { f := fun u => { start := some (19000 + u), end_ := some (19001 + u), est := some 5, spent := some 1 }, rows := [],
    done := [], res := [], reads := 0 }
def fieldsOf (n : Nat) (st : PState) : List Fields := (List.range n).map (fun u => decFields (st.heap u))
example : (interpPrepare src_Bwd_prepare (wbsState (encSB eP (fun _ => false) sP) 9 [0, 1, 2]) 9).map (fieldsOf 5) =
    .ok ((List.range 5).map (prepare eP sP.f [0, 1, 2])) := by decide +kernel
example : (interpPrepare src_Fwd_prepare (wbsState (encS eP (fun _ => false) sP) 9 [0, 1, 2]) 9).map (fieldsOf 5) =
    .ok ((List.range 5).map (prepare eP sP.f [0, 1, 2])) := by decide +kernel
example : (List.range 5).map (prepare eP sP.f [0, 1, 2]) ≠ (List.range 5).map sP.f := by decide +kernel

end Check

/-
  NEGATIVE SANITY CHECK (not compiled; performed 2026-09-27 with /tmp/leanwork/mut/run_mut.py, run_mut_prep.py: the
  text of `BackwardScheduler.__backward_pass` (resp. `__prepare_tasks`) in a scratch copy of the snapshot schedule.py is
  edited, the translator is run on the mutated text, its output written to Extracted/PassSrc.lean, then
  `lake build PjVerif.Lemmas.PassSrcBwd`; afterwards the file was regenerated from the real source and the build
  succeeded again).  `Check eN` = the kernel-checked examples of the environment `eN` fail too.  Every semantic
  mutation is a Miss of the translator or breaks a lemma:

    `+ [min_date]` dropped                                              s2_ok FAILS; Check e1 e2 e4 e5 e6 e7
    `min([...] + [min_date])` -> `max(...)`                             s2_ok FAILS; Check e3 e4 e5
    children get `min_date` instead of `min_successor_starts`           body3_ok FAILS; Check e5
    `reversed(_task.children)` -> `_task.children`                      it3_ok FAILS; Check e2
    `and is_leaf` dropped                                               msCond_ok FAILS; Check e4
    milestone: `_task.spent = 0` omitted                                msThen_ok FAILS; Check e4
    milestone: `_task.start = _task.end = …` -> `_task.end = …`         msThen_ok FAILS; Check e4
    `_task.end += timedelta(days=1)` dropped                            iEnd_ok FAILS; Check e1 e2 e3 e4 e5 e6
    `timedelta(days=1)` -> `timedelta(days=2)`                          iEnd_ok FAILS; Check e1 e2 e3 e4 e5 e6
    `_task.end += …` -> `_task.end -= …`                                iEnd_ok FAILS; Check e1 e2 e3 e4 e5 e6
    `if pred.wbs is _task.wbs` -> `if True`                             body1_ok FAILS; Check e3
    `pred.wbs is _task.wbs` -> `==`                                     body1_ok FAILS
    `if id(_task) in calculated: return` removed                        src_Bwd_pass_shape, bwdTail_shape, … FAIL; Check e4 e5 e7
    `calculated.append(id(_task))` -> `pass`                            fin_ok FAILS; Check e1 e2 e3 e4 e5 e6
    `left_hours = max(est - spent, 0)` -> `est - spent`                 iStart_ok FAILS
    `end = min(_task.end, min_date)` -> `_task.end`                     iStart_ok FAILS; Check e6
    `end = min(_task.end, min_date)` -> `max(…)`                        iStart_ok FAILS; Check e2 e3 e5 e6
    `if _task.start is not None: start = min(…)` removed                iStart_ok FAILS; Check e6
    `start = min(_task.start, start)` -> `max(…)`                       iStart_ok FAILS; Check e6
    `if _task.start is not None` -> `is None`                           iStart_ok FAILS; Check e1 e2 e3 e4 e5 e6
    the start block guarded by `_task.start is None` (as forward)       iStart_ok FAILS; Check e6
    shift called with `_task.end` instead of `end`                      iStart_ok FAILS; Check e6
    shift called with `_task.estimate` instead of `left_hours`          iStart_ok FAILS; Check e2
    `_task.start = start` -> `_task.end = start`                        iStart_ok FAILS; Check e1 e2 e3 e4 e5 e6
    summary start `min([...])` -> `max([...])`                          iStart_ok FAILS; Check e2 e5
    nearest called with `min_date` instead of `_task.end`               iEnd_ok FAILS; Check e3 e5
    first `_task.end = min_successor_starts` -> `min_date`              iEnd_ok FAILS; Check e3 e5
    no children ends: `_task.end = min_date` -> `min_successor_starts`  iEnd_ok FAILS
    `max(children_ends)` -> `min(children_ends)`                        iEnd_ok FAILS; Check e2 e4 e5
    `if len(children_ends) == 0` -> `!= 0`                              iEnd_ok FAILS; Check e5 e7
    `if _task.end is None` -> `is not None`                             iEnd_ok FAILS; Check e1 e2 e3 e4 e5 e6
    `_task.estimate = self.__default_estimate` -> `= 0`                 iEst_ok FAILS; Check e2 e3 e4 e5 e6
    summary `spent` = sum of the children's ESTIMATES                   iSpent_ok FAILS; Check e2 e4 e5
    `if t.start is not None` dropped (successor starts)                 s2_ok FAILS
    `is_leaf = len(children) == 0` -> `>= 0`                            g0_ok FAILS; Check e2 e4 e5 e7
    `for pred in _task.successors` -> `_task.predecessors`              it1_ok FAILS; Check e3 e4 e5
    children loop moved before the successor loop                       src_Bwd_pass_shape, s0_ok, … FAIL; Check e5
    `setdefault(k, Resource(k))` -> `self.__resources[k]`               MISS
    `setdefault(k, Resource(None))`                                     MISS
    aliasing `c = calculated; c.append(id(_task))`                      MISS
    the recursion passes `[]` instead of `calculated`                   MISS
    `id(_task) in calculated` -> `_task in calculated`                  MISS
    the children recursion calls `self.__forward_pass`                  MISS
    `x = reversed(_task.children)` (outside a `for`)                    MISS
    `_task.children += []` (a list slot)                                MISS
    `min(_task.end, min_date, min_date)`, a `while` loop                MISS
    __prepare_tasks: `len(t.children) > 0` -> `>= 0` (Bwd only)         src_Bwd_prepare_eq FAILS; Check eP
    __prepare_tasks: the same in the forward method                     src_Bwd_prepare_eq, prepBody_ok FAIL; Check eP
    __prepare_tasks: `> 0` -> `== 0` (both)                             prepBody_ok FAILS; Check eP
    __prepare_tasks: `t.spent` dropped from the chain (Bwd only)        src_Bwd_prepare_eq FAILS; Check eP
    __prepare_tasks: `= None` -> `= 0` (both)                           prepBody_ok FAILS; Check eP
    __prepare_tasks: `project.tasks` -> `project.roots`, `reversed(project.tasks)`, aliasing `p = project`   MISS

  Harmless rewrites that still build: comments, a docstring, blank lines, `return None`, `sum([...], 0)` (same term);
  `estimate = 0` / `spent = 0` swapped in the milestone branch; `_task.start = x; _task.end = x` instead of the chained
  assignment; `_task.end = _task.end + timedelta(days=1)` (same term as `+=`); `if is_leaf and _task.milestone`;
  `if not (_task.end is not None)`; `_task.wbs is pred.wbs`; `0 == len(_task.children)` (same term); the branches of
  `if len(children_ends) == 0` swapped under `!= 0`; renaming the loop variable `pred`, the locals `left_hours`,
  `children_ends`; in both `__prepare_tasks`: four separate assignments instead of the chain, `0 < len(t.children)`.
  Harmless rewrites that break a proof or are a Miss (the proofs fix the names of the comprehension variables and do
  not know that `min` / `max` are symmetric; the translator keeps the argument order of `min` / `max` because the
  arguments may change the state): `len(children_ends) < 1` (iEnd_ok), `min([min_date] + [...])` (s2_ok), the
  comprehension variable `t` renamed (s2_ok), `max(0, est - spent)`, `min(min_date, _task.end)`,
  `min(start, _task.start)` (iStart_ok), `if not (id(_task) not in calculated)` (Miss), `_task.children[::-1]`,
  `list(reversed(_task.children))`, `timedelta(hours=24)` (Miss); any harmless edit of only ONE of the two
  `__prepare_tasks` (src_Bwd_prepare_eq), `len(t.children) != 0` and a renamed loop variable there (prepBody_ok).
-/

end Pj.PassSrcBwd
