/-
  Lemmas/CalcSrc.lean — the PRE-CHECKS and the two `calc` methods of schedule.py: the hand-written model
  (Model/Sched.lean: `isolationOk`, `leavesOf`, `ancestorsOf`, `waitsFor`, `loopsFrom`, `checkLoops`, `fwdPrecheck`,
  `fwdRun`, `forwardCalc`, `bwdPrecheck`, `bwdRun`, `backwardCalc`, `prepare`) equals the interpretation of the CURRENT
  SOURCE of

    _validate_graph_isolation(project)            _leaves(task)            _waits_for(leaf)
    _check_loops(project)                         _check_loops_from_task(task, visited_tasks, validated, waits_for)
    ForwardScheduler.__check_no_end_dates_in_future(project)
    ForwardScheduler.calc(self, wbs)              BackwardScheduler.calc(self, project)
    ForwardScheduler.__prepare_tasks(project) / BackwardScheduler.__prepare_tasks(project)   (with `project.tasks` as a primitive)

  (Extracted/CalcSrc.lean, regenerated from src/pjplan/schedule.py by tools/extract_calc.py on every check), run by the
  pass layer of PyLite with its calc constructs (`callP` / `Stmt.execP` / `Expr.evalP`: containers = boxes of the
  state, function values, handlers `prim` / `fn`).

  Setting.
  * The store is that of Lemmas/PassSrc.lean / PassSrcBwd.lean: the task `u` is the object `ref u` with the attributes
    `encTask` (forward) or `encTaskB` (backward: also `successors`); the theorems about the checks hold for every
    encoding `E` with `CalcEnc E` (`predecessors`, `children`, `start`, `end` are read) and for EVERY state whose heap
    is `heapOf E env ms f` - ledger, `calculated`, resource table, clock counter and container store are arbitrary.
  * Library calls that are not defined in schedule.py are primitives with the model's meaning (`calcPrim env mem w`):
    `<wbs>.tasks` on the WBS object `ref w` = `mem` (the theorems about whole checks take `mem` as a parameter; the
    `calc` theorems assume `members env = some mem`), `<wbs>.roots` = `env.roots`, `<wbs>.clone()` = the same object
    (the model's own simplification: it schedules the uids of the input, the clone being isomorphic - comment on
    `forwardCalc`), `task.all_children` = `descF … (env.n + 1)` (the empty list when that fuel is exhausted, the
    reading `leavesOf` / `waitsFor` use), `task.all_parents` = `ancestorsOf env (env.n + 1)`; `id(x)` of `ref i` is
    the int `i`; `datetime.now()` = `env.clock`.
  * Calls are resolved level by level, each callee BY RUNNING ITS TRANSLATED SOURCE: `baseH` (no function values) <
    `waitsH` (`_leaves`) < `clftH` (the `lambda x: x.predecessors` of `_check_loops`, `_waits_for`) < `loopsH fuel`
    (`_check_loops_from_task`, at most `fuel` nested activations = Python's recursion limit) < `calcHF` / `calcHB`
    (the checks, `__prepare_tasks` and the pass - `src_Fwd_pass` / `src_Bwd_pass` of Extracted/PassSrc.lean with the
    handlers `passH` / `passHB` and `self` = `passSelf env` of Lemmas/PassSrc(Bwd).lean).
  * Containers: `visited_tasks` is a list box holding the tasks in progress (the model's `visiting`, last first),
    `validated` / `members` are set boxes holding identities `idA u` (a set is the list of the items added; the model's
    `validated ++ [t]` is exactly `validated.add(id(task))`, and `visiting.contains t` is `any(t is task for …)`).

  Results (all proofs complete; axioms: propext, Classical.choice, Quot.sound).
    Stage 1  `Check.*`: `decide +kernel` on 8 + 1 environments (an isolated WBS; an outside predecessor without dates /
             with a start only / with both dates; a plain dependency cycle; a cycle closing through the hierarchy, in
             two ways; a deeper hierarchy with a diamond; inherited predecessors; a fixed end in the future / exactly
             now / in the past; too little fuel): all six translated functions against the model (`agree`), and the
             two `calc` methods against `forwardCalc` / `backwardCalc` (`agreeF` / `agreeB`, with and without a supplied
             calendar, with the errors of the checks).
    Stage 2  `interpIsolation_eq`   interpIsolation env mem w [ref w] st
                 = if isolationOk env f mem then ok (None, st + the box `members`) else error runtime
             `interpLeaves_eq`      interpLeaves env mem w [ref t] st = ok (list ((leavesOf env t).getD []), st)
             `interpWaitsFor_eq`    interpWaitsFor env mem w [ref t] st = ok (list (waitsFor env t), st)
             `interpCheckFuture_eq` interpCheckFuture env mem w [ref w] st
                 = if futureOk (env.clock st.reads) f mem then ok (None, st with reads + 1) else error runtime
             (`futureOk` is the last step of `fwdPrecheck`: `futureOk_eq`), for every env, mem, w, f and every st with
             `st.heap = heapOf E env ms f`.
    Stage 3  `callP_loopsFrom`: for a ≠ b, a function value `fn k` with `H.fn k [ref u] st = ok (list (next u), st)` on
             states with the given heap, fuel ≤ fuel', and boxes a / b holding `visiting` (reversed) / `validated`:
                 loopsFrom next fuel visiting validated t ≠ error (crash recursion)  →
                 callP H [] … src_check_loops_from_task fuel' [ref t, box a, box b, fn k] st
                   = (loopsFrom next fuel visiting validated t).map (box b := the new validated; box a as before)
             `interpCheckLoops_spec` / `interpCheckLoops_eq`: for env.n + 2 ≤ fuel',
                 checkLoops env mem ≠ error (crash recursion)  →
                 unit (interpCheckLoops env mem w fuel' [ref w] st) = checkLoops env mem
             and a successful run changes nothing but the container store.  The proviso is exactly the case the model
             adds to the source: `.crash .recursion` arises in `loopsFrom` only from fuel 0 (the model gives every
             search the fuel `env.n + 2`); Python recurses up to its recursion limit, which `fuel'` plays.
    Stage 4  `callP_wb` (frame): a method without calc constructs (`noBoxB`, e.g. both passes) runs the same with any
             container store and leaves it alone.  `callP_calc_prepare`: `__prepare_tasks` = `prepare`.
             `interpFwdCalc_eq`: for members env = some mem, hms, env.n + 2 ≤ fuel, fwdShiftMaxSteps < wfuel,
             env.n + 1 ≤ pfuel, any rows0 / done0 / container store B0:
                 forwardCalc env f0 res0 ≠ error (crash recursion)  →
                 interpFwdCalc env mem w fuel wfuel (calRef res0) pfuel (encS env ms ⟨f0, rows0, done0, res0, 0⟩ with B0)
                   = (forwardCalc env f0 res0).map (the WBS object, encS env ms σ with some B, out = ⟨σ.f, σ.rows, σ.res⟩)
             `interpBwdCalc_eq`: the same for `BackwardScheduler.calc` / `backwardCalc` on `encSB`, `self` = `calcSelfB`.
  No disagreement between the model and the translated functions was found.  Limitations: see the end of the file.
-/
import PjVerif.Extracted.CalcSrc
import PjVerif.Lemmas.PassSrc
import PjVerif.Lemmas.PassSrcBwd
namespace Pj.CalcSrc
open Pj.PyLite Pj.Extracted Pj.PassSrc Pj.PassSrcBwd Pj.SchedSrc
set_option linter.unusedSimpArgs false

/-! ### the library primitives and the handlers -/

/-- `task.all_children` in the model: the descendants in depth-first order (`descF`; the empty list when the
    hierarchy is deeper than the fuel - the reading `leavesOf` / `waitsFor` use) -/
def allChildren (env : Pj.Env) (t : Uid) : List Uid :=
  (descF (fun u => (env.info u).children) (env.n + 1) t).getD []

/-- the library attributes that are not defined in schedule.py, with the model's meaning: `<wbs>.tasks` on the WBS
    object `ref w` = `mem` (the model's `members env`, in `WBS.tasks` order), `<wbs>.roots` = `env.roots`,
    `<wbs>.clone()` = the same object (the model schedules the uids of the input, the clone being isomorphic: see
    Model/Sched.lean), `task.all_children` = `descF`, `task.all_parents` = `ancestorsOf` (nearest first) -/
def calcPrim (env : Pj.Env) (mem : List Uid) (w : Nat) : String → List Atom → PState → Res Val :=
  fun name args _ =>
    match args with
    | [.ref t] =>
      if name = "tasks" then (if t = w then pure (.list (mem.map Atom.ref)) else throw stuck)
      else if name = "roots" then (if t = w then pure (.list (env.roots.map Atom.ref)) else throw stuck)
      else if name = "clone" then (if t = w then pure (.atom (.ref w)) else throw stuck)
      else if name = "all_children" then pure (.list ((allChildren env t).map Atom.ref))
      else if name = "all_parents" then pure (.list ((ancestorsOf env (env.n + 1) t).map Atom.ref))
      else throw stuck
    | _ => throw stuck

/-- level 0: no function values -/
def baseH (env : Pj.Env) (mem : List Uid) (w : Nat) : PHandlers :=
  { clock := env.clock
    call := fun _ _ _ => throw stuck
    newResource := fun _ => throw stuck
    prim := calcPrim env mem w }

/-- `_leaves(task)`: run the translated source -/
def interpLeaves (env : Pj.Env) (mem : List Uid) (w : Nat) (args : List Atom) (st : PState) : Res (Val × PState) :=
  callP (baseH env mem w) [] src_leaves_params src_leaves 1 args st

/-- the `lambda x: x.predecessors` of `_check_loops` -/
def interpLambda0 (env : Pj.Env) (mem : List Uid) (w : Nat) (args : List Atom) (st : PState) : Res (Val × PState) :=
  callP (baseH env mem w) [] src_lambda_0_params src_lambda_0 1 args st

/-- level 1: `_leaves` is callable -/
def waitsH (env : Pj.Env) (mem : List Uid) (w : Nat) : PHandlers :=
  { baseH env mem w with
    fn := fun k args st => if k = fn_leaves then interpLeaves env mem w args st else throw stuck }

/-- `_waits_for(leaf)` -/
def interpWaitsFor (env : Pj.Env) (mem : List Uid) (w : Nat) (args : List Atom) (st : PState) : Res (Val × PState) :=
  callP (waitsH env mem w) [] src_waits_for_params src_waits_for 1 args st

/-- level 2: the two function values `_check_loops` passes as `waits_for` -/
def clftH (env : Pj.Env) (mem : List Uid) (w : Nat) : PHandlers :=
  { baseH env mem w with
    fn := fun k args st =>
      if k = fn_lambda_0 then interpLambda0 env mem w args st
      else if k = fn_waits_for then interpWaitsFor env mem w args st
      else throw stuck }

/-- `_check_loops_from_task(task, visited_tasks, validated, waits_for)` with at most `fuel` nested activations -/
def interpLoopsFrom (env : Pj.Env) (mem : List Uid) (w : Nat) (fuel : Nat) (args : List Atom) (st : PState) :
    Res (Val × PState) :=
  callP (clftH env mem w) [] src_check_loops_from_task_params src_check_loops_from_task fuel args st

/-- level 3: `_check_loops_from_task` is callable -/
def loopsH (env : Pj.Env) (mem : List Uid) (w : Nat) (fuel : Nat) : PHandlers :=
  { baseH env mem w with
    fn := fun k args st => if k = fn_check_loops_from_task then interpLoopsFrom env mem w fuel args st else throw stuck }

/-- `_check_loops(project)` on the WBS object `ref w`; `fuel` = the recursion limit -/
def interpCheckLoops (env : Pj.Env) (mem : List Uid) (w : Nat) (fuel : Nat) (args : List Atom) (st : PState) :
    Res (Val × PState) :=
  callP (loopsH env mem w fuel) [] src_check_loops_params src_check_loops 1 args st

/-- `_validate_graph_isolation(project)` -/
def interpIsolation (env : Pj.Env) (mem : List Uid) (w : Nat) (args : List Atom) (st : PState) : Res (Val × PState) :=
  callP (baseH env mem w) [] src_validate_isolation_params src_validate_isolation 1 args st

/-- `ForwardScheduler.__check_no_end_dates_in_future(project)` -/
def interpCheckFuture (env : Pj.Env) (mem : List Uid) (w : Nat) (args : List Atom) (st : PState) : Res (Val × PState) :=
  callP (baseH env mem w) [] src_Fwd_check_future_params src_Fwd_check_future 1 args st

/-- the model's `__check_no_end_dates_in_future` (the last lines of `fwdPrecheck`) -/
def futureOk (now : Time) (f : Uid → Fields) (mem : List Uid) : Bool :=
  !mem.any (fun t => match (f t).end_ with | some e => decide (now < e) | none => false)

def unit {α : Type} (r : Res α) : Res Unit := r.map (fun _ => ())

def okIf (b : Bool) : Res Unit := if b then .ok () else .error .runtime

/-! ### stage 2: `_leaves`, `_waits_for`, `_validate_graph_isolation`, `__check_no_end_dates_in_future` -/

/-- what the proofs need of an encoding of task objects (`PassSrc.encTask` for the forward scheduler,
    `PassSrcBwd.encTaskB` - which also has `successors` - for the backward one) -/
structure CalcEnc (E : TaskInfo → Bool → Fields → PyLite.Env) : Prop extends TaskEnc E where
  preds : ∀ info flag fl, (E info flag fl).get? "predecessors" = some (.list (info.preds.map Atom.ref))
  start : ∀ info flag fl, (E info flag fl).get? "start" = some (optTime fl.start)
  end_ : ∀ info flag fl, (E info flag fl).get? "end" = some (optTime fl.end_)

theorem calcEnc_fwd : CalcEnc encTask := { taskEnc_fwd with preds := encTask_preds, start := encTask_start, end_ := encTask_end }
theorem calcEnc_bwd : CalcEnc encTaskB :=
  { taskEnc_bwd with
    preds := fun _ _ _ => rfl, start := encTaskB_start, end_ := encTaskB_end }

theorem heapOf_fwd (env : Pj.Env) (ms : Uid → Bool) (f : Uid → Fields) : heapOf encTask env ms f = encHeap env ms f := rfl
theorem heapOf_bwd (env : Pj.Env) (ms : Uid → Bool) (f : Uid → Fields) : heapOf encTaskB env ms f = encHeapB env ms f := rfl

/-- `id(task)` of the task object `ref u` -/
def idA (u : Uid) : Atom := .num ((u : Nat) : Rat)

theorem flatLoopP_pure (f : Atom → PState → Res (List Atom × PState)) (g : Atom → List Atom) (st : PState)
    (vs : List Atom) (h : ∀ v ∈ vs, f v st = .ok (g v, st)) : flatLoopP f vs st = .ok (vs.flatMap g, st) := by
  induction vs with
  | nil => rfl
  | cons v vs ih =>
    have h1 := h v (List.mem_cons_self)
    have h2 := ih (fun w hw => h w (List.mem_cons_of_mem _ hw))
    simp only [flatLoopP, h1, h2, bind, Except.bind, pure, Except.pure, List.flatMap_cons]

theorem anyLoopP_pure (f : Atom → PState → Res (Bool × PState)) (g : Atom → Bool) (st : PState)
    (vs : List Atom) (h : ∀ v ∈ vs, f v st = .ok (g v, st)) : anyLoopP f vs st = .ok (vs.any g, st) := by
  induction vs with
  | nil => rfl
  | cons v vs ih =>
    have h1 := h v (List.mem_cons_self)
    have h2 := ih (fun w hw => h w (List.mem_cons_of_mem _ hw))
    simp only [anyLoopP, h1, h2, bind, Except.bind, pure, Except.pure, List.any_cons]
    cases g v <;> simp

theorem idA_pyEq (a b : Uid) : (idA a).pyEq (idA b) = decide (a = b) := by
  unfold idA
  rw [pyEq_num]
  by_cases h : a = b
  · subst h; rw [decide_eq_true rfl, decide_eq_true rfl]
  · have : ¬ ((a : Rat) = (b : Rat)) := fun e => h (Rat.natCast_inj.1 e)
    rw [decide_eq_false h, decide_eq_false this]

theorem filterMap_ref (p : Uid → Bool) (l : List Uid) :
    (l.map Atom.ref).filterMap (fun v => match v with
      | .ref c => if p c then some (Atom.ref c) else none | _ => none) = (l.filter p).map Atom.ref := by
  induction l with
  | nil => rfl
  | cons x l ih =>
    simp only [List.map_cons, List.filterMap_cons, List.filter_cons]
    cases p x <;> simp [ih]

theorem Env.get?_nil (y : String) : Env.get? [] y = none := rfl

theorem any_idA (l : List Uid) (p : Uid) : (l.map idA).any (fun v => v.pyEq (idA p)) = l.contains p := by
  induction l with
  | nil => rfl
  | cons a l ih =>
    simp only [List.map_cons, List.any_cons, ih, idA_pyEq, List.contains_cons]
    congr 1
    by_cases h : a = p
    · subst h; simp
    · have h' : ¬ p = a := fun e => h e.symm
      simp [h, h']

section
variable (env : Pj.Env) (ms : Uid → Bool) (mem : List Uid) (w : Nat) {E : TaskInfo → Bool → Fields → PyLite.Env}

theorem getD_map_filter {α : Type} (o : Option (List α)) (p : α → Bool) :
    (o.map (fun l => l.filter p)).getD [] = (o.getD []).filter p := by
  cases o <;> rfl

theorem leavesOf_getD (t : Uid) : (leavesOf env t).getD [] =
    if (env.info t).children.isEmpty then [t]
    else (allChildren env t).filter (fun x => (env.info x).children.isEmpty) := by
  unfold leavesOf allChildren
  split
  · rfl
  · exact getD_map_filter _ _

/-- STAGE 2 (B).  `_leaves(task)` = `leavesOf` -/
theorem interpLeaves_eq (hE : CalcEnc E) (f : Uid → Fields) (st : PState) (hh : st.heap = heapOf E env ms f) (t : Uid) :
    interpLeaves env mem w [.ref t] st = .ok (.list (((leavesOf env t).getD []).map Atom.ref), st) := by
  rw [leavesOf_getD]
  unfold interpLeaves
  simp only [callP, src_leaves_params, bindParams, pure, Except.pure, bind, Except.bind]
  generalize callP (baseH env mem w) [] ["task"] src_leaves 0 = rec
  cases hc : (env.info t).children with
  | nil =>
    pylite_p [src_leaves, Env.get?_cons, Env.get?_nil, hh, heapOf, hE.children, hE.preds, hE.start, hE.end_, hc, pyEq_num]
  | cons c cs =>
    have hne : ¬ (((cs.length : Nat) : Rat) + 1 = 0) := natCast_succ_ne_zero _
    pylite_p [src_leaves, Env.get?_cons, Env.get?_nil, hh, heapOf, hE.children, hE.preds, hE.start, hE.end_, hc, pyEq_num, hne, baseH, calcPrim]
    rw [compLoopP_pure (g := fun v => match v with
      | .ref c => if (env.info c).children.isEmpty then some (.ref c) else none | _ => none)]
    · rw [filterMap_ref]
    · intro v hv
      obtain ⟨c, _, rfl⟩ := List.mem_map.1 hv
      cases hcc : (env.info c).children with
      | nil => pylite_p [Env.get?_cons, Env.get?_nil, hh, heapOf, hE.children, hE.preds, hE.start, hE.end_, hcc, pyEq_num]
      | cons d ds =>
        have hne' : ¬ (((ds.length : Nat) : Rat) + 1 = 0) := natCast_succ_ne_zero _
        pylite_p [Env.get?_cons, Env.get?_nil, hh, heapOf, hE.children, hE.preds, hE.start, hE.end_, hcc, pyEq_num, hne']

theorem filterMap_some_ref (l : List Uid) : (l.map Atom.ref).filterMap (fun v => some v) = l.map Atom.ref := by
  induction l with
  | nil => rfl
  | cons x l ih => simp [ih]

theorem flatMap_map_ref (l : List Uid) (g : Uid → List Uid) :
    (l.map Atom.ref).flatMap (fun v => match v with | .ref c => (g c).map Atom.ref | _ => []) =
      (l.flatMap g).map Atom.ref := by
  induction l with
  | nil => rfl
  | cons x l ih => simp [ih]

/-- `[… for x in <tasks> …]` whose remaining clauses give the tasks `g x` -/
theorem evalP_flatComp_tasks (H : PHandlers) (self ρ : PyLite.Env) (st : PState) (inner it : Expr) (x : String)
    (l : List Uid) (g : Uid → List Uid)
    (hit : it.evalP H self ρ st = .ok (.list (l.map Atom.ref), st))
    (hinner : ∀ c ∈ l, inner.evalP H self (ρ.set x (.atom (.ref c))) st = .ok (.list ((g c).map Atom.ref), st)) :
    (Expr.flatComp inner x it (.bool true)).evalP H self ρ st = .ok (.list ((l.flatMap g).map Atom.ref), st) := by
  simp only [Expr.evalP, hit, bind, Except.bind, pure, Except.pure, iterOf]
  rw [flatLoopP_pure (g := fun v => match v with | .ref c => (g c).map Atom.ref | _ => [])]
  · rw [flatMap_map_ref]
  · intro v hv
    obtain ⟨c, hc, rfl⟩ := List.mem_map.1 hv
    simp only [truthP, bind, Except.bind, pure, Except.pure, if_true, hinner c hc]

/-- `[x for x in <tasks>]` -/
theorem evalP_listComp_id (H : PHandlers) (self ρ : PyLite.Env) (st : PState) (it : Expr) (x : String)
    (l : List Uid) (hit : it.evalP H self ρ st = .ok (.list (l.map Atom.ref), st)) :
    (Expr.listComp (.var x) x it (.bool true)).evalP H self ρ st = .ok (.list (l.map Atom.ref), st) := by
  simp only [Expr.evalP, hit, bind, Except.bind, pure, Except.pure, iterOf]
  rw [compLoopP_pure (g := fun v => some v)]
  · rw [filterMap_some_ref]
  · intro v hv
    simp [truthP, bind, Except.bind, pure, Except.pure, Env.get?_set]

theorem waitsH_fn_leaves (hE : CalcEnc E) (f : Uid → Fields) (st : PState) (hh : st.heap = heapOf E env ms f) (t : Uid) :
    (waitsH env mem w).fn fn_leaves [.ref t] st = .ok (.list (((leavesOf env t).getD []).map Atom.ref), st) := by
  simp only [waitsH, if_true]
  exact interpLeaves_eq env ms mem w hE f st hh t

/-- STAGE 2 (B).  `_waits_for(leaf)` = `waitsFor` -/
theorem interpWaitsFor_eq (hE : CalcEnc E) (f : Uid → Fields) (st : PState) (hh : st.heap = heapOf E env ms f) (t : Uid) :
    interpWaitsFor env mem w [.ref t] st = .ok (.list ((waitsFor env t).map Atom.ref), st) := by
  unfold interpWaitsFor waitsFor
  simp only [callP, src_waits_for_params, bindParams, pure, Except.pure, bind, Except.bind]
  generalize callP (waitsH env mem w) [] ["leaf"] src_waits_for 0 = rec
  have hl : Env.get? [("leaf", Val.atom (Atom.ref t))] "leaf" = some (.atom (.ref t)) := rfl
  generalize [("leaf", Val.atom (Atom.ref t))] = ρ at hl
  simp only [src_waits_for, execBlockP, Stmt.execP]
  rw [evalP_flatComp_tasks (l := t :: ancestorsOf env (env.n + 1) t)
    (g := fun x => (env.info x).preds.flatMap (fun p => (leavesOf env p).getD []))]
  · rw [List.flatMap_assoc]
  · simp only [Expr.evalP, hl, bind, Except.bind, pure, Except.pure, iterOf, arithP, waitsH, baseH, calcPrim, if_true]
    simp only [show ("all_parents" = "tasks") = False by decide, show ("all_parents" = "all_children") = False by decide,
      if_false, if_true, bind, Except.bind, pure, Except.pure]
    rfl
  · intro x _
    apply evalP_flatComp_tasks
    · simp only [Expr.evalP, Env.get?_set, if_true, hh, heapOf, hE.children, hE.preds, hE.start, hE.end_, hE.preds, bind, Except.bind, pure, Except.pure]
    · intro p _
      apply evalP_listComp_id
      simp only [Expr.evalP, Env.get?_set, if_true, bind, Except.bind, pure, Except.pure]
      exact waitsH_fn_leaves env ms mem w hE f st hh p

/-- a `for` loop whose body only checks: it raises `e` at the first item that fails `p` and otherwise leaves the
    state alone -/
theorem forLoopP_all (x : String) (body : PyLite.Env → PState → OutcomeP) (st : PState) (e : Err)
    (P : PyLite.Env → Prop) (p : Atom → Bool) :
    ∀ (vs : List Atom),
      (∀ ρ v, v ∈ vs → P ρ → ∃ ρ', P ρ' ∧ body (ρ.set x v) st = if p v then .normal ρ' st else .raise e) →
      ∀ ρ, P ρ → ∃ ρ', P ρ' ∧ forLoopP x body vs ρ st = if vs.all p then .normal ρ' st else .raise e := by
  intro vs
  induction vs with
  | nil => intro _ ρ hρ; exact ⟨ρ, hρ, rfl⟩
  | cons v vs ih =>
    intro hbody ρ hρ
    obtain ⟨ρ1, hρ1, hb⟩ := hbody ρ v List.mem_cons_self hρ
    cases hp : p v with
    | false =>
      refine ⟨ρ, hρ, ?_⟩
      simp [forLoopP, hb, hp]
    | true =>
      obtain ⟨ρ2, hρ2, hl⟩ := ih (fun ρ u hu => hbody ρ u (List.mem_cons_of_mem _ hu)) ρ1 hρ1
      refine ⟨ρ2, hρ2, ?_⟩
      simp [forLoopP, hb, hp, hl]

theorem all_map_ref (l : List Uid) (q : Uid → Bool) :
    (l.map Atom.ref).all (fun v => match v with | .ref c => q c | _ => true) = l.all q := by
  induction l with
  | nil => rfl
  | cons x l ih => simp [ih]

theorem filterMap_idA (l : List Uid) :
    (l.map Atom.ref).filterMap (fun v => match v with | .ref c => some (idA c) | _ => none) = l.map idA := by
  induction l with
  | nil => rfl
  | cons x l ih => simp [ih]

theorem calcPrim_tasks (st : PState) : calcPrim env mem w "tasks" [.ref w] st = .ok (.list (mem.map Atom.ref)) := by
  simp [calcPrim, pure, Except.pure]

theorem callP_succ (H : PHandlers) (self : PyLite.Env) (params : List String) (body : List Stmt) (fuel : Nat)
    (args : List Atom) (st : PState) :
    callP H self params body (fuel + 1) args st =
      match bindParams params args with
      | .error e => throw e
      | .ok env =>
        match execBlockP H self (callP H self params body fuel) body env st with
        | .normal _ st' => pure (Atom.none, st')
        | .cont _ st' => pure (Atom.none, st')
        | .ret v st' => pure (v, st')
        | .raise e => throw e := rfl

theorem execP_forIn (H : PHandlers) (self : PyLite.Env) (rec : List Atom → PState → Res (Val × PState)) (x : String)
    (it : Expr) (body : List Stmt) (ρ : PyLite.Env) (st st' : PState) (vs : List Atom)
    (hit : it.evalP H self ρ st = .ok (.list vs, st')) :
    (Stmt.forIn x it body).execP H self rec ρ st =
      forLoopP x (fun ρ st => execBlockP H self rec body ρ st) vs ρ st' := by
  simp only [Stmt.execP, hit, bind, Except.bind, pure, Except.pure, iterOf]

theorem execP_assign (H : PHandlers) (self : PyLite.Env) (rec : List Atom → PState → Res (Val × PState)) (x : String)
    (e : Expr) (ρ : PyLite.Env) (st st' : PState) (v : Val) (he : e.evalP H self ρ st = .ok (v, st')) :
    (Stmt.assign x e).execP H self rec ρ st = .normal (ρ.set x v) st' := by
  simp only [Stmt.execP, he]

/-- the parts of `_validate_graph_isolation` -/
structure IsoParts where
  comp : Expr
  it : Expr
  it2 : Expr
  body : List Stmt

def isoParts : IsoParts :=
  match src_validate_isolation with
  | [.assign _ (.newBox c), .forIn _ it [.forIn _ it2 b]] => ⟨c, it, it2, b⟩
  | _ => ⟨.none, .none, .none, []⟩

theorem src_validate_isolation_shape : src_validate_isolation =
    [.assign "members" (.newBox isoParts.comp),
     .forIn "t" isoParts.it [.forIn "pr" isoParts.it2 isoParts.body]] := rfl

/-- STAGE 2 (A).  `_validate_graph_isolation(project)` raises RuntimeError iff `isolationOk` fails; otherwise it
    returns `None` and leaves behind the set `members` (a new box) -/
theorem interpIsolation_eq (hE : CalcEnc E) (f : Uid → Fields) (st : PState) (hh : st.heap = heapOf E env ms f) :
    interpIsolation env mem w [.ref w] st =
      if isolationOk env f mem then .ok (.atom .none, { st with boxes := st.boxes ++ [mem.map idA] })
      else .error .runtime := by
  unfold interpIsolation
  rw [callP_succ]
  generalize callP (baseH env mem w) [] src_validate_isolation_params src_validate_isolation 0 = rec
  simp only [src_validate_isolation_params, bindParams, pure, Except.pure, bind, Except.bind]
  have hp : Env.get? [("project", Val.atom (Atom.ref w))] "project" = some (.atom (.ref w)) := rfl
  generalize [("project", Val.atom (Atom.ref w))] = ρ0 at hp
  -- members = set([id(task) for task in project.tasks])
  have hcomp : (Expr.newBox isoParts.comp).evalP (baseH env mem w) [] ρ0 st =
      .ok (.atom (.box st.boxes.length), { st with boxes := st.boxes ++ [mem.map idA] }) := by
    simp only [isoParts, src_validate_isolation, Expr.evalP, hp, bind, Except.bind, pure, Except.pure, iterOf, baseH,
      calcPrim_tasks]
    rw [compLoopP_pure (g := fun v => match v with | .ref c => some (idA c) | _ => none)]
    · rw [filterMap_idA]
    · intro v hv
      obtain ⟨c, _, rfl⟩ := List.mem_map.1 hv
      simp [truthP, bind, Except.bind, pure, Except.pure, Env.get?_set, idA]
  generalize hst1 : ({ st with boxes := st.boxes ++ [mem.map idA] } : PState) = st1 at hcomp
  have hh1 : st1.heap = heapOf E env ms f := by rw [← hst1]; exact hh
  have hb1 : st1.boxes[st.boxes.length]? = some (mem.map idA) := by
    rw [← hst1]; exact List.getElem?_concat_length
  -- the test
  have hbody : ∀ (ρ : PyLite.Env) (p : Uid), ρ.get? "members" = some (.atom (.box st.boxes.length)) →
      execBlockP (baseH env mem w) [] rec isoParts.body (ρ.set "pr" (.atom (.ref p))) st1 =
        if mem.contains p || ((f p).start.isSome && (f p).end_.isSome)
        then .normal (ρ.set "pr" (.atom (.ref p))) st1 else .raise .runtime := by
    intro ρ p hρ
    have hany := any_idA mem p
    simp only [idA] at hany hb1
    by_cases hc : p ∈ mem <;> cases hs : (f p).start <;> cases he : (f p).end_ <;>
      pylite_p [isoParts, src_validate_isolation, hρ, hh1, heapOf, hE.children, hE.preds, hE.start, hE.end_, hb1, optTime, hs, he, hany, hc, idA]
  -- the inner loop
  have inner : ∀ (ρ : PyLite.Env) (t : Uid), ρ.get? "members" = some (.atom (.box st.boxes.length)) →
      ∃ ρ', ρ'.get? "members" = some (.atom (.box st.boxes.length)) ∧
        execBlockP (baseH env mem w) [] rec [.forIn "pr" isoParts.it2 isoParts.body] (ρ.set "t" (.atom (.ref t))) st1 =
          if (env.info t).preds.all (fun p => mem.contains p || ((f p).start.isSome && (f p).end_.isSome))
          then .normal ρ' st1 else .raise .runtime := by
    intro ρ t hm
    have hm' : (Env.set ρ "t" (.atom (.ref t))).get? "members" = some (.atom (.box st.boxes.length)) := by
      rw [Env.get?_set, if_neg (by decide)]; exact hm
    obtain ⟨ρ', hρ', hl⟩ := forLoopP_all "pr" (fun ρ st => execBlockP (baseH env mem w) [] rec isoParts.body ρ st)
      st1 .runtime (fun ρ => ρ.get? "members" = some (.atom (.box st.boxes.length)))
      (fun v => match v with | .ref p => mem.contains p || ((f p).start.isSome && (f p).end_.isSome) | _ => true)
      ((env.info t).preds.map Atom.ref)
      (fun ρ v hv hρ => by
        obtain ⟨p, _, rfl⟩ := List.mem_map.1 hv
        exact ⟨Env.set ρ "pr" (.atom (.ref p)), by rw [Env.get?_set, if_neg (by decide)]; exact hρ, hbody ρ p hρ⟩)
      _ hm'
    refine ⟨ρ', hρ', ?_⟩
    rw [all_map_ref] at hl
    rw [execBlockP_cons, execP_forIn (vs := (env.info t).preds.map Atom.ref) (st' := st1), hl]
    · cases (env.info t).preds.all (fun p => mem.contains p || ((f p).start.isSome && (f p).end_.isSome)) <;>
        simp [execBlockP_nil]
    · simp only [isoParts, src_validate_isolation, Expr.evalP, Env.get?_set, if_true, hh1, heapOf, hE.children, hE.preds, hE.start, hE.end_, hE.preds,
        bind, Except.bind, pure, Except.pure]
  -- the outer loop
  obtain ⟨ρ2, _, hl2⟩ := forLoopP_all "t" (fun ρ st => execBlockP (baseH env mem w) [] rec
      [.forIn "pr" isoParts.it2 isoParts.body] ρ st) st1 .runtime
    (fun ρ => ρ.get? "members" = some (.atom (.box st.boxes.length)))
    (fun v => match v with
      | .ref t => (env.info t).preds.all (fun p => mem.contains p || ((f p).start.isSome && (f p).end_.isSome))
      | _ => true)
    (mem.map Atom.ref)
    (fun ρ v hv hρ => by
      obtain ⟨t, _, rfl⟩ := List.mem_map.1 hv
      exact inner ρ t hρ)
    (Env.set ρ0 "members" (.atom (.box st.boxes.length))) (by rw [Env.get?_set, if_pos rfl])
  rw [all_map_ref] at hl2
  have hp' : (Env.set ρ0 "members" (.atom (.box st.boxes.length))).get? "project" = some (.atom (.ref w)) := by
    rw [Env.get?_set, if_neg (by decide)]; exact hp
  rw [src_validate_isolation_shape, execBlockP_cons, execP_assign (he := hcomp)]
  simp only []
  rw [execBlockP_cons, execP_forIn (vs := mem.map Atom.ref) (st' := st1), hl2]
  · unfold isolationOk
    cases mem.all (fun t => (env.info t).preds.all (fun p => mem.contains p || ((f p).start.isSome && (f p).end_.isSome))) <;>
      simp [execBlockP_nil, throw, throwThe, MonadExceptOf.throw]
  · simp only [isoParts, src_validate_isolation, Expr.evalP, hp', bind, Except.bind, pure, Except.pure, baseH,
      calcPrim_tasks]

/-- the parts of `__check_no_end_dates_in_future` -/
structure FutParts where
  it : Expr
  body : List Stmt

def futParts : FutParts :=
  match src_Fwd_check_future with
  | [.assign _ _, .forIn _ it b] => ⟨it, b⟩
  | _ => ⟨.none, []⟩

theorem src_Fwd_check_future_shape : src_Fwd_check_future =
    [.assign "now" .now, .forIn "t" futParts.it futParts.body] := rfl

/-- STAGE 2 (D).  `ForwardScheduler.__check_no_end_dates_in_future(project)` reads the clock once and raises
    RuntimeError iff a member task has an end later than that reading (`futureOk`) -/
theorem interpCheckFuture_eq (hE : CalcEnc E) (f : Uid → Fields) (st : PState) (hh : st.heap = heapOf E env ms f) :
    interpCheckFuture env mem w [.ref w] st =
      if futureOk (env.clock st.reads) f mem then .ok (.atom .none, { st with reads := st.reads + 1 })
      else .error .runtime := by
  unfold interpCheckFuture
  rw [callP_succ]
  generalize callP (baseH env mem w) [] src_Fwd_check_future_params src_Fwd_check_future 0 = rec
  simp only [src_Fwd_check_future_params, bindParams, pure, Except.pure, bind, Except.bind]
  have hp : Env.get? [("project", Val.atom (Atom.ref w))] "project" = some (.atom (.ref w)) := rfl
  generalize [("project", Val.atom (Atom.ref w))] = ρ0 at hp
  generalize hst1 : ({ st with reads := st.reads + 1 } : PState) = st1
  have hh1 : st1.heap = heapOf E env ms f := by rw [← hst1]; exact hh
  have hnow : Expr.now.evalP (baseH env mem w) [] ρ0 st = .ok (.atom (.time (env.clock st.reads)), st1) := by
    rw [← hst1]; rfl
  generalize env.clock st.reads = nw at hnow ⊢
  have hbody : ∀ (ρ : PyLite.Env) (t : Uid), ρ.get? "now" = some (.atom (.time nw)) →
      execBlockP (baseH env mem w) [] rec futParts.body (ρ.set "t" (.atom (.ref t))) st1 =
        if (match (f t).end_ with | some e => !decide (nw < e) | none => true)
        then .normal (ρ.set "t" (.atom (.ref t))) st1 else .raise .runtime := by
    intro ρ t hρ
    cases he : (f t).end_ with
    | none => pylite_p [futParts, src_Fwd_check_future, hρ, hh1, heapOf, hE.children, hE.preds, hE.start, hE.end_, optTime, he]
    | some e =>
      by_cases hlt : nw < e <;>
        pylite_p [futParts, src_Fwd_check_future, hρ, hh1, heapOf, hE.children, hE.preds, hE.start, hE.end_, optTime, he, hlt]
  obtain ⟨ρ2, _, hl2⟩ := forLoopP_all "t" (fun ρ st => execBlockP (baseH env mem w) [] rec futParts.body ρ st) st1
    .runtime (fun ρ => ρ.get? "now" = some (.atom (.time nw)))
    (fun v => match v with
      | .ref t => (match (f t).end_ with | some e => !decide (nw < e) | none => true)
      | _ => true)
    (mem.map Atom.ref)
    (fun ρ v hv hρ => by
      obtain ⟨t, _, rfl⟩ := List.mem_map.1 hv
      exact ⟨Env.set ρ "t" (.atom (.ref t)), by rw [Env.get?_set, if_neg (by decide)]; exact hρ, hbody ρ t hρ⟩)
    (Env.set ρ0 "now" (.atom (.time nw))) (by rw [Env.get?_set, if_pos rfl])
  rw [all_map_ref] at hl2
  have hp' : (Env.set ρ0 "now" (.atom (.time nw))).get? "project" = some (.atom (.ref w)) := by
    rw [Env.get?_set, if_neg (by decide)]; exact hp
  rw [src_Fwd_check_future_shape, execBlockP_cons, execP_assign (he := hnow)]
  simp only []
  rw [execBlockP_cons, execP_forIn (vs := mem.map Atom.ref) (st' := st1), hl2]
  · have : futureOk nw f mem = mem.all (fun t => match (f t).end_ with | some e => !decide (nw < e) | none => true) := by
      unfold futureOk
      rw [List.any_eq_not_all_not, Bool.not_not]
      congr 1
      funext t
      cases (f t).end_ <;> simp
    rw [this]
    cases mem.all (fun t => match (f t).end_ with | some e => !decide (nw < e) | none => true) <;>
      simp [execBlockP_nil, throw, throwThe, MonadExceptOf.throw]
  · simp only [futParts, src_Fwd_check_future, Expr.evalP, hp', bind, Except.bind, pure, Except.pure, baseH,
      calcPrim_tasks]
end

/-! ### stage 3: `_check_loops_from_task` / `_check_loops` -/

theorem evalP_items_var (H : PHandlers) (self ρ : PyLite.Env) (st : PState) (b : String) (i : Nat) (vs : List Atom)
    (hb : ρ.get? b = some (.atom (.box i))) (hbx : st.boxes[i]? = some vs) :
    (Expr.items (.var b)).evalP H self ρ st = .ok (.list vs, st) := by
  simp only [Expr.evalP, hb, hbx, bind, Except.bind, pure, Except.pure]

theorem execP_boxAppend_var (H : PHandlers) (self : PyLite.Env) (rec : List Atom → PState → Res (Val × PState))
    (ρ : PyLite.Env) (st : PState) (b : String) (i : Nat) (e : Expr) (a : Atom) (vs : List Atom)
    (hb : ρ.get? b = some (.atom (.box i))) (he : e.evalP H self ρ st = .ok (.atom a, st))
    (hbx : st.boxes[i]? = some vs) (ha : a.isBox = false) :
    (Stmt.boxAppend (.var b) e).execP H self rec ρ st =
      .normal ρ { st with boxes := st.boxes.set i (vs ++ [a]) } := by
  simp [Stmt.execP, Expr.evalP, hb, he, hbx, ha, bind, Except.bind, pure, Except.pure]

theorem execP_boxPop_var (H : PHandlers) (self : PyLite.Env) (rec : List Atom → PState → Res (Val × PState))
    (ρ : PyLite.Env) (st : PState) (b : String) (i : Nat) (a : Atom) (vs : List Atom)
    (hb : ρ.get? b = some (.atom (.box i))) (hbx : st.boxes[i]? = some (vs ++ [a])) :
    (Stmt.boxPop (.var b)).execP H self rec ρ st = .normal ρ { st with boxes := st.boxes.set i vs } := by
  obtain ⟨x, xs, hx⟩ : ∃ x xs, vs ++ [a] = x :: xs := by cases vs <;> simp
  have hd : (x :: xs).dropLast = vs := by rw [← hx, List.dropLast_concat]
  rw [hx] at hbx
  simp only [Stmt.execP, Expr.evalP, hb, hbx, bind, Except.bind, pure, Except.pure, hd]

/-- the parts of `_check_loops_from_task` -/
structure ClftParts where
  c1 : Expr
  c2 : Expr
  push : Stmt
  it : Expr
  body : List Stmt
  pop : Stmt
  add : Stmt

def clftParts : ClftParts :=
  match src_check_loops_from_task with
  | [.ifElse c1 _ _, .ifElse c2 _ _, p, .forIn _ it b, q, r] => ⟨c1, c2, p, it, b, q, r⟩
  | _ => ⟨.none, .none, .pass, .none, [], .pass, .pass⟩

theorem src_check_loops_from_task_shape : src_check_loops_from_task =
    [.ifElse clftParts.c1 [.ret .none] [], .ifElse clftParts.c2 [.raiseRuntime] [], clftParts.push,
     .forIn "s" clftParts.it clftParts.body, clftParts.pop, clftParts.add] := rfl

/-- the two containers of a run of `_check_loops_from_task`: box `a` = `visited_tasks` (the tasks in progress, the
    model's `visiting` last first), box `b` = `validated` (the identities of the finished tasks) -/
structure BoxRel (B : List (List Atom)) (a b : Nat) (vis val : List Uid) : Prop where
  vis : B[a]? = some (vis.reverse.map Atom.ref)
  val : B[b]? = some (val.map idA)

structure LoopEnv (ρ : PyLite.Env) (t : Uid) (a b k : Nat) : Prop where
  task : ρ.get? "task" = some (.atom (.ref t))
  vis : ρ.get? "visited_tasks" = some (.atom (.box a))
  val : ρ.get? "validated" = some (.atom (.box b))
  wf : ρ.get? "waits_for" = some (.atom (.fn k))

theorem LoopEnv.set {ρ : PyLite.Env} {t : Uid} {a b k : Nat} (h : LoopEnv ρ t a b k) (v : Val) :
    LoopEnv (Env.set ρ "s" v) t a b k :=
  ⟨by rw [Env.get?_set, if_neg (by decide)]; exact h.task, by rw [Env.get?_set, if_neg (by decide)]; exact h.vis,
   by rw [Env.get?_set, if_neg (by decide)]; exact h.val, by rw [Env.get?_set, if_neg (by decide)]; exact h.wf⟩

theorem any_ref (l : List Uid) (t : Uid) :
    (l.map Atom.ref).any (fun v => match v with | .ref c => decide (c = t) | _ => false) = l.contains t := by
  induction l with
  | nil => rfl
  | cons x l ih =>
    simp only [List.map_cons, List.any_cons, ih, List.contains_cons]
    congr 1
    by_cases h : x = t
    · subst h; simp
    · have h' : ¬ t = x := fun e => h e.symm
      simp [h, h']

theorem loopsFrom_succ (next : Uid → List Uid) (fuel : Nat) (vis val : List Uid) (t : Uid) :
    loopsFrom next (fuel + 1) vis val t =
      (if val.contains t then pure val
      else if vis.contains t then throw .runtime
      else do
        let v ← (next t).foldlM (fun val s => loopsFrom next fuel (t :: vis) val s) val
        pure (v ++ [t])) := rfl

section loops
variable (H : PHandlers) (rec : List Atom → PState → Res (Val × PState)) (a b k : Nat)

theorem c1_ok (ρ : PyLite.Env) (st : PState) (t : Uid) (vis val : List Uid) (hρ : LoopEnv ρ t a b k)
    (hB : BoxRel st.boxes a b vis val) :
    (do let (v, st') ← clftParts.c1.evalP H [] ρ st; pure ((← truthP v), st')) = .ok (val.contains t, st) := by
  have hany := any_idA val t
  have hv := hB.val
  simp only [idA] at hany hv
  simp [clftParts, src_check_loops_from_task, Expr.evalP, hρ.task, hρ.val, hv, hany, truthP, bind, Except.bind, pure,
    Except.pure]

theorem c2_ok (ρ : PyLite.Env) (st : PState) (t : Uid) (vis val : List Uid) (hρ : LoopEnv ρ t a b k)
    (hB : BoxRel st.boxes a b vis val) :
    (do let (v, st') ← clftParts.c2.evalP H [] ρ st; pure ((← truthP v), st')) = .ok (vis.contains t, st) := by
  simp only [clftParts, src_check_loops_from_task, Expr.evalP, hρ.vis, hB.vis, bind, Except.bind, pure, Except.pure,
    iterOf]
  rw [anyLoopP_pure (g := fun v => match v with | .ref c => decide (c = t) | _ => false)]
  · have key : (List.map Atom.ref vis.reverse).any (fun v => match v with | .ref c => decide (c = t) | _ => false) =
        vis.contains t := by
      rw [any_ref]; simp
    rw [key]
    simp [truthP, pure, Except.pure]
  · intro v hv
    obtain ⟨c, _, rfl⟩ := List.mem_map.1 hv
    have ht : (Env.set ρ "t" (.atom (.ref c))).get? "task" = some (.atom (.ref t)) := by
      rw [Env.get?_set, if_neg (by decide)]; exact hρ.task
    simp [Expr.evalP, Env.get?_set, ht, truthP, bind, Except.bind, pure, Except.pure]

theorem push_ok (hab : a ≠ b) (ρ : PyLite.Env) (st : PState) (t : Uid) (vis val : List Uid) (hρ : LoopEnv ρ t a b k)
    (hB : BoxRel st.boxes a b vis val) :
    ∃ B, clftParts.push.execP H [] rec ρ st = .normal ρ { st with boxes := B } ∧ BoxRel B a b (t :: vis) val := by
  refine ⟨st.boxes.set a (vis.reverse.map Atom.ref ++ [.ref t]), ?_, ?_, ?_⟩
  · exact execP_boxAppend_var H [] rec ρ st "visited_tasks" a (.var "task") (.ref t) _ hρ.vis
      (by simp [Expr.evalP, hρ.task, pure, Except.pure]) hB.vis rfl
  · have hlt : a < st.boxes.length := by
      have := hB.vis; rw [List.getElem?_eq_some_iff] at this; exact this.1
    rw [List.getElem?_set_self hlt]; simp
  · rw [List.getElem?_set_ne hab]; exact hB.val

theorem pop_ok (hab : a ≠ b) (ρ : PyLite.Env) (st : PState) (t : Uid) (vis val : List Uid) (hρ : LoopEnv ρ t a b k)
    (hB : BoxRel st.boxes a b (t :: vis) val) :
    ∃ B, clftParts.pop.execP H [] rec ρ st = .normal ρ { st with boxes := B } ∧ BoxRel B a b vis val := by
  have hv : st.boxes[a]? = some (vis.reverse.map Atom.ref ++ [.ref t]) := by
    rw [hB.vis]; simp
  refine ⟨st.boxes.set a (vis.reverse.map Atom.ref), ?_, ?_, ?_⟩
  · exact execP_boxPop_var H [] rec ρ st "visited_tasks" a (.ref t) _ hρ.vis hv
  · have hlt : a < st.boxes.length := by
      rw [List.getElem?_eq_some_iff] at hv; exact hv.1
    rw [List.getElem?_set_self hlt]
  · rw [List.getElem?_set_ne hab]; exact hB.val

theorem add_ok (hab : a ≠ b) (ρ : PyLite.Env) (st : PState) (t : Uid) (vis val : List Uid) (hρ : LoopEnv ρ t a b k)
    (hB : BoxRel st.boxes a b vis val) :
    ∃ B, clftParts.add.execP H [] rec ρ st = .normal ρ { st with boxes := B } ∧ BoxRel B a b vis (val ++ [t]) := by
  refine ⟨st.boxes.set b (val.map idA ++ [idA t]), ?_, ?_, ?_⟩
  · exact execP_boxAppend_var H [] rec ρ st "validated" b (.idOf (.var "task")) (idA t) _ hρ.val
      (by simp [Expr.evalP, hρ.task, idA, bind, Except.bind, pure, Except.pure]) hB.val rfl
  · rw [List.getElem?_set_ne (fun e => hab e.symm)]; exact hB.vis
  · have hlt : b < st.boxes.length := by
      have := hB.val; rw [List.getElem?_eq_some_iff] at this; exact this.1
    rw [List.getElem?_set_self hlt]; simp

theorem body_ok (ρ : PyLite.Env) (st : PState) (t s : Uid) (hρ : LoopEnv ρ t a b k) :
    execBlockP H [] rec clftParts.body (ρ.set "s" (.atom (.ref s))) st =
      match rec [.ref s, .box a, .box b, .fn k] st with
      | .ok (_, st') => .normal (ρ.set "s" (.atom (.ref s))) st'
      | .error e => .raise e := by
  have h := hρ.set (.atom (.ref s))
  simp only [clftParts, src_check_loops_from_task, execBlockP, Stmt.execP, Expr.evalP, Env.get?_set, if_true, h.vis, h.val,
    h.wf, bind, Except.bind, pure, Except.pure]
  cases rec [.ref s, .box a, .box b, .fn k] st with
  | error e => rfl
  | ok p => rfl


/-- what a (recursive) call of `_check_loops_from_task` does, in terms of the model's `loopsFrom` -/
def CallSpec (call : List Atom → PState → Res (Val × PState)) (heap0 : Nat → PyLite.Env) (next : Uid → List Uid)
    (fuel : Nat) : Prop :=
  ∀ (vis val : List Uid) (s : Uid) (st : PState), st.heap = heap0 → BoxRel st.boxes a b vis val →
    loopsFrom next fuel vis val s ≠ .error (.crash .recursion) →
    match loopsFrom next fuel vis val s with
    | .ok val' => ∃ B, call [.ref s, .box a, .box b, .fn k] st = .ok (.atom .none, { st with boxes := B }) ∧
        BoxRel B a b vis val'
    | .error e => call [.ref s, .box a, .box b, .fn k] st = .error e

/-- the loop `for s in waits_for(task): _check_loops_from_task(s, …)` is the model's `foldlM` -/
theorem loop_ok (heap0 : Nat → PyLite.Env) (next : Uid → List Uid) (fuel : Nat)
    (hrec : CallSpec a b k rec heap0 next fuel) (t : Uid) (vis : List Uid) :
    ∀ (l : List Uid) (ρ : PyLite.Env) (val : List Uid) (st : PState), LoopEnv ρ t a b k → st.heap = heap0 →
      BoxRel st.boxes a b vis val →
      l.foldlM (fun val s => loopsFrom next fuel vis val s) val ≠ .error (.crash .recursion) →
      match l.foldlM (fun val s => loopsFrom next fuel vis val s) val with
      | .ok val' => ∃ ρ' B, forLoopP "s" (fun ρ st => execBlockP H [] rec clftParts.body ρ st) (l.map Atom.ref) ρ st =
            .normal ρ' { st with boxes := B } ∧ LoopEnv ρ' t a b k ∧ BoxRel B a b vis val'
      | .error e => forLoopP "s" (fun ρ st => execBlockP H [] rec clftParts.body ρ st) (l.map Atom.ref) ρ st =
            .raise e := by
  intro l
  induction l with
  | nil =>
    intro ρ val st hρ _ hB _
    exact ⟨ρ, st.boxes, rfl, hρ, hB⟩
  | cons s l ih =>
    intro ρ val st hρ hh hB hne
    simp only [List.foldlM_cons, bind, Except.bind, List.map_cons, forLoopP] at hne ⊢
    have hb := body_ok H rec a b k ρ st t s hρ
    rcases hs : loopsFrom next fuel vis val s with e | val1
    · rw [hs] at hne
      have h1 := hrec vis val s st hh hB (by rw [hs]; exact hne)
      rw [hs] at h1
      simp only [hb, h1]
    · rw [hs] at hne
      have h1 := hrec vis val s st hh hB (by rw [hs]; exact fun h => by cases h)
      rw [hs] at h1
      obtain ⟨B1, hc1, hB1⟩ := h1
      simp only [hb, hc1]
      exact ih (ρ.set "s" (.atom (.ref s))) val1 { st with boxes := B1 } (hρ.set _) hh hB1 hne

/-- STAGE 3 (the recursion).  `_check_loops_from_task(ref t, box a, box b, fn k)` - box `a` holding the tasks in
    progress, box `b` the validated identities, `fn k` a function value that returns the tasks `next u` for the task
    `u` - does what the model's `loopsFrom next fuel vis val t` does, PROVIDED the model's run does not end in
    RecursionError.  The interpreter may have more fuel than the model. -/
theorem callP_loopsFrom (hab : a ≠ b) (heap0 : Nat → PyLite.Env) (next : Uid → List Uid)
    (hnext : ∀ (st : PState) (u : Uid), st.heap = heap0 →
      H.fn k [.ref u] st = .ok (.list ((next u).map Atom.ref), st)) :
    ∀ (fuel fuel' : Nat), fuel ≤ fuel' →
      CallSpec a b k (callP H [] src_check_loops_from_task_params src_check_loops_from_task fuel') heap0 next fuel := by
  intro fuel
  induction fuel with
  | zero => intro fuel' _ vis val t st _ _ hne; exact absurd rfl hne
  | succ fuel ih =>
    intro fuel' hle vis val t st hh hB hne
    obtain ⟨f', rfl⟩ : ∃ f', fuel' = f' + 1 := ⟨fuel' - 1, by omega⟩
    have hrec := ih f' (by omega)
    rw [callP_succ]
    generalize callP H [] src_check_loops_from_task_params src_check_loops_from_task f' = rec at hrec
    simp only [src_check_loops_from_task_params, bindParams, pure, Except.pure, bind, Except.bind]
    have hρ : LoopEnv [("task", Val.atom (.ref t)), ("visited_tasks", Val.atom (.box a)),
        ("validated", Val.atom (.box b)), ("waits_for", Val.atom (.fn k))] t a b k := ⟨rfl, rfl, rfl, rfl⟩
    generalize [("task", Val.atom (Atom.ref t)), ("visited_tasks", Val.atom (Atom.box a)),
        ("validated", Val.atom (Atom.box b)), ("waits_for", Val.atom (Atom.fn k))] = ρ at hρ
    rw [loopsFrom_succ] at hne ⊢
    rw [src_check_loops_from_task_shape, execBlockP_cons]
    simp only [Stmt.execP, c1_ok H a b k ρ st t vis val hρ hB]
    cases hv : val.contains t with
    | true =>
      simp only [if_true, execBlockP, Stmt.execP, Expr.evalP, pure, Except.pure]
      exact ⟨st.boxes, rfl, hB⟩
    | false =>
      simp only [hv, Bool.false_eq_true, if_false] at hne ⊢
      rw [execBlockP_nil]
      simp only []
      rw [execBlockP_cons]
      simp only [Stmt.execP, c2_ok H a b k ρ st t vis val hρ hB]
      cases hvis : vis.contains t with
      | true =>
        simp only [if_true, execBlockP, Stmt.execP, throw, throwThe, MonadExceptOf.throw]
      | false =>
        simp only [hvis, Bool.false_eq_true, if_false, bind, Except.bind] at hne ⊢
        rw [execBlockP_nil]
        simp only []
        -- visited_tasks.append(task)
        obtain ⟨B1, hx1, hB1⟩ := push_ok H rec a b k hab ρ st t vis val hρ hB
        rw [execBlockP_cons, hx1]
        simp only []
        -- the loop
        have hit : clftParts.it.evalP H [] ρ { st with boxes := B1 } =
            .ok (.list ((next t).map Atom.ref), { st with boxes := B1 }) := by
          simp only [clftParts, src_check_loops_from_task, Expr.evalP, hρ.wf, hρ.task, bind, Except.bind, pure,
            Except.pure]
          exact hnext _ t hh
        rw [execBlockP_cons, execP_forIn (hit := hit)]
        have hL := loop_ok H rec a b k heap0 next fuel hrec t (t :: vis) (next t) ρ val { st with boxes := B1 } hρ hh hB1
        rcases hf : (next t).foldlM (fun val s => loopsFrom next fuel (t :: vis) val s) val with e | val1
        · rw [hf] at hne hL
          simp only [hL (by simpa using hne)]
          rfl
        · rw [hf] at hne hL
          obtain ⟨ρ2, B2, hx2, hρ2, hB2⟩ := hL (fun h => by cases h)
          simp only [hx2]
          -- visited_tasks.pop(); validated.add(id(task))
          obtain ⟨B3, hx3, hB3⟩ := pop_ok H rec a b k hab ρ2 { st with boxes := B2 } t vis val1 hρ2 hB2
          rw [execBlockP_cons, hx3]
          simp only []
          obtain ⟨B4, hx4, hB4⟩ := add_ok H rec a b k hab ρ2 { st with boxes := B3 } t vis val1 hρ2 hB3
          rw [execBlockP_cons, hx4]
          simp only [execBlockP_nil, pure, Except.pure]
          exact ⟨B4, rfl, hB4⟩

end loops

/-- a `for t in <tasks>:` loop whose body does one step `g` of a `foldlM` over the set `validated` (box `b`) -/
theorem forLoopP_foldlM (x : String) (body : PyLite.Env → PState → OutcomeP) (heap0 : Nat → PyLite.Env) (b : Nat)
    (g : List Uid → Uid → Res (List Uid)) (P : PyLite.Env → Prop) (hP : ∀ ρ v, P ρ → P (ρ.set x v))
    (hbody : ∀ (ρ : PyLite.Env) (val : List Uid) (st : PState) (t : Uid), P ρ → st.heap = heap0 →
      st.boxes[b]? = some (val.map idA) → g val t ≠ .error (.crash .recursion) →
      match g val t with
      | .ok val' => ∃ B, body (ρ.set x (.atom (.ref t))) st = .normal (ρ.set x (.atom (.ref t))) { st with boxes := B } ∧
          B[b]? = some (val'.map idA)
      | .error e => body (ρ.set x (.atom (.ref t))) st = .raise e) :
    ∀ (l : List Uid) (ρ : PyLite.Env) (val : List Uid) (st : PState), P ρ → st.heap = heap0 →
      st.boxes[b]? = some (val.map idA) → l.foldlM g val ≠ .error (.crash .recursion) →
      match l.foldlM g val with
      | .ok val' => ∃ ρ' B, forLoopP x body (l.map Atom.ref) ρ st = .normal ρ' { st with boxes := B } ∧ P ρ' ∧
          B[b]? = some (val'.map idA)
      | .error e => forLoopP x body (l.map Atom.ref) ρ st = .raise e := by
  intro l
  induction l with
  | nil => intro ρ val st hρ _ hB _; exact ⟨ρ, st.boxes, rfl, hρ, hB⟩
  | cons t l ih =>
    intro ρ val st hρ hh hB hne
    simp only [List.foldlM_cons, bind, Except.bind, List.map_cons, forLoopP] at hne ⊢
    rcases hs : g val t with e | val1
    · rw [hs] at hne
      have h1 := hbody ρ val st t hρ hh hB (by rw [hs]; exact hne)
      rw [hs] at h1
      simp only [h1]
    · rw [hs] at hne
      have h1 := hbody ρ val st t hρ hh hB (by rw [hs]; exact fun h => by cases h)
      rw [hs] at h1
      obtain ⟨B1, hc1, hB1⟩ := h1
      simp only [hc1]
      exact ih (ρ.set x (.atom (.ref t))) val1 { st with boxes := B1 } (hP _ _ hρ) hh hB1 hne

section
variable (env : Pj.Env) (ms : Uid → Bool) (mem : List Uid) (w : Nat) {E : TaskInfo → Bool → Fields → PyLite.Env}

theorem clftH_fn_lambda (hE : CalcEnc E) (f : Uid → Fields) (st : PState) (hh : st.heap = heapOf E env ms f) (u : Uid) :
    (clftH env mem w).fn fn_lambda_0 [.ref u] st = .ok (.list ((env.info u).preds.map Atom.ref), st) := by
  simp only [clftH, if_true, interpLambda0]
  rw [callP_succ]
  pylite_p [src_lambda_0_params, src_lambda_0, bindParams, Env.get?_cons, hh, heapOf, hE.preds]

theorem clftH_fn_waits (hE : CalcEnc E) (f : Uid → Fields) (st : PState) (hh : st.heap = heapOf E env ms f) (u : Uid) :
    (clftH env mem w).fn fn_waits_for [.ref u] st = .ok (.list ((waitsFor env u).map Atom.ref), st) := by
  have h1 : (fn_waits_for = fn_lambda_0) = False := by decide
  simp only [clftH, h1, if_false, if_true]
  exact interpWaitsFor_eq env ms mem w hE f st hh u

/-- one call `_check_loops_from_task(t, [], validated, <fn k>)` made by `_check_loops` -/
theorem call_ok (fuel' : Nat) (f : Uid → Fields) (k : Nat) (next : Uid → List Uid)
    (hnext : ∀ (st : PState) (u : Uid), st.heap = heapOf E env ms f →
      (clftH env mem w).fn k [.ref u] st = .ok (.list ((next u).map Atom.ref), st))
    (rec : List Atom → PState → Res (Val × PState)) (fuel : Nat) (hf : fuel ≤ fuel')
    (ρ : PyLite.Env) (b : Nat) (val : List Uid) (st : PState) (t : Uid)
    (hρt : ρ.get? "t" = some (.atom (.ref t))) (hρv : ρ.get? "validated" = some (.atom (.box b)))
    (hh : st.heap = heapOf E env ms f) (hB : st.boxes[b]? = some (val.map idA))
    (hne : loopsFrom next fuel [] val t ≠ .error (.crash .recursion)) :
    match loopsFrom next fuel [] val t with
    | .ok val' => ∃ B, (Stmt.expr (.callVal (.fnRef fn_check_loops_from_task) (.listCons (.var "t") (.listCons (.newBox .listNil)
          (.listCons (.var "validated") (.listCons (.fnRef k) .listNil)))))).execP (loopsH env mem w fuel') [] rec ρ st =
          .normal ρ { st with boxes := B } ∧ B[b]? = some (val'.map idA)
    | .error e => (Stmt.expr (.callVal (.fnRef fn_check_loops_from_task) (.listCons (.var "t") (.listCons (.newBox .listNil)
          (.listCons (.var "validated") (.listCons (.fnRef k) .listNil)))))).execP (loopsH env mem w fuel') [] rec ρ st =
          .raise e := by
  have hlt : b < st.boxes.length := by
    rw [List.getElem?_eq_some_iff] at hB; exact hB.1
  have hab : st.boxes.length ≠ b := by omega
  have hB1 : BoxRel (st.boxes ++ [[]]) st.boxes.length b [] val :=
    ⟨List.getElem?_concat_length, by rw [List.getElem?_append_left hlt]; exact hB⟩
  have hspec := callP_loopsFrom (clftH env mem w) st.boxes.length b k hab (heapOf E env ms f) next hnext fuel fuel' hf
    [] val t { st with boxes := st.boxes ++ [[]] } hh hB1 hne
  simp only [Stmt.execP, Expr.evalP, hρt, hρv, iterOf, bind, Except.bind, pure, Except.pure, loopsH, if_true,
    interpLoopsFrom]
  rcases hs : loopsFrom next fuel [] val t with e | val'
  · rw [hs] at hspec
    simp only [hspec]
  · rw [hs] at hspec
    obtain ⟨B, hc, hB'⟩ := hspec
    simp only [hc]
    exact ⟨B, rfl, hB'.val⟩

/-- the parts of `_check_loops` -/
structure ClParts where
  it1 : Expr
  body1 : List Stmt
  it2 : Expr
  body2 : List Stmt

def clParts : ClParts :=
  match src_check_loops with
  | [.assign _ _, .forIn _ it1 b1, .assign _ _, .forIn _ it2 b2] => ⟨it1, b1, it2, b2⟩
  | _ => ⟨.none, [], .none, []⟩

theorem src_check_loops_shape : src_check_loops =
    [.assign "validated" (.newBox .listNil), .forIn "t" clParts.it1 clParts.body1,
     .assign "validated" (.newBox .listNil), .forIn "t" clParts.it2 clParts.body2] := rfl

structure ClEnv (ρ : PyLite.Env) (w b : Nat) : Prop where
  project : ρ.get? "project" = some (.atom (.ref w))
  val : ρ.get? "validated" = some (.atom (.box b))

theorem ClEnv.set {ρ : PyLite.Env} {w b : Nat} (h : ClEnv ρ w b) (v : Val) : ClEnv (Env.set ρ "t" v) w b :=
  ⟨by rw [Env.get?_set, if_neg (by decide)]; exact h.project, by rw [Env.get?_set, if_neg (by decide)]; exact h.val⟩

theorem evalP_newBox_nil (H : PHandlers) (self ρ : PyLite.Env) (st : PState) :
    (Expr.newBox .listNil).evalP H self ρ st =
      .ok (.atom (.box st.boxes.length), { st with boxes := st.boxes ++ [[]] }) := by
  simp [Expr.evalP, iterOf, bind, Except.bind, pure, Except.pure]

/-- STAGE 3.  `_check_loops(project)` = the model's `checkLoops`, PROVIDED the model's run does not end in
    RecursionError (`.crash .recursion`: the fuel `env.n + 2` of a `loopsFrom` runs out - in Python the recursion
    limit, played by `fuel'`, which may be larger).  A successful run changes nothing but the containers. -/
theorem interpCheckLoops_spec (hE : CalcEnc E) (f : Uid → Fields) (st : PState) (hh : st.heap = heapOf E env ms f) (fuel' : Nat)
    (hf : env.n + 2 ≤ fuel') (hne : checkLoops env mem ≠ .error (.crash .recursion)) :
    match checkLoops env mem with
    | .ok _ => ∃ B, interpCheckLoops env mem w fuel' [.ref w] st = .ok (.atom .none, { st with boxes := B })
    | .error e => interpCheckLoops env mem w fuel' [.ref w] st = .error e := by
  unfold interpCheckLoops
  rw [callP_succ]
  generalize callP (loopsH env mem w fuel') [] src_check_loops_params src_check_loops 0 = rec
  simp only [src_check_loops_params, bindParams, pure, Except.pure, bind, Except.bind]
  have hp : Env.get? [("project", Val.atom (Atom.ref w))] "project" = some (.atom (.ref w)) := rfl
  generalize [("project", Val.atom (Atom.ref w))] = ρ0 at hp
  unfold checkLoops at hne ⊢
  rw [List.foldlM_filter] at hne ⊢
  simp only [bind, Except.bind] at hne ⊢
  rw [src_check_loops_shape, execBlockP_cons, execP_assign (he := evalP_newBox_nil _ _ _ _)]
  simp only []
  -- the first loop
  have hρ1 : ClEnv (Env.set ρ0 "validated" (.atom (.box st.boxes.length))) w st.boxes.length :=
    ⟨by rw [Env.get?_set, if_neg (by decide)]; exact hp, by rw [Env.get?_set, if_pos rfl]⟩
  have L1 := forLoopP_foldlM "t" (fun ρ st => execBlockP (loopsH env mem w fuel') [] rec clParts.body1 ρ st)
    (heapOf E env ms f) st.boxes.length (fun val t => loopsFrom (fun u => (env.info u).preds) (env.n + 2) [] val t)
    (fun ρ => ClEnv ρ w st.boxes.length) (fun ρ v h => h.set v)
    (fun ρ val st1 t hρ hh1 hB1 hn => by
      have hc := call_ok env ms mem w fuel' f fn_lambda_0 (fun u => (env.info u).preds)
        (fun st u h => clftH_fn_lambda env ms mem w hE f st h u) rec (env.n + 2) hf (ρ.set "t" (.atom (.ref t)))
        st.boxes.length val st1 t (by rw [Env.get?_set, if_pos rfl]) (hρ.set _).val hh1 hB1 hn
      simp only [clParts, src_check_loops, execBlockP_cons, execBlockP_nil]
      rcases hs : loopsFrom (fun u => (env.info u).preds) (env.n + 2) [] val t with e | val'
      · rw [hs] at hc; simp only [hc]
      · rw [hs] at hc
        obtain ⟨B, hx, hB⟩ := hc
        exact ⟨B, by simp only [hx], hB⟩)
    mem _ [] { st with boxes := st.boxes ++ [[]] } hρ1 hh List.getElem?_concat_length
  have hit1 : ∀ (ρ : PyLite.Env) (b : Nat) (st : PState), ClEnv ρ w b →
      clParts.it1.evalP (loopsH env mem w fuel') [] ρ st = .ok (.list (mem.map Atom.ref), st) := by
    intro ρ b st hρ
    simp only [clParts, src_check_loops, Expr.evalP, hρ.project, bind, Except.bind, pure, Except.pure, loopsH, baseH,
      calcPrim_tasks]
  have hit2 : ∀ (ρ : PyLite.Env) (b : Nat) (st : PState), ClEnv ρ w b →
      clParts.it2.evalP (loopsH env mem w fuel') [] ρ st = .ok (.list (mem.map Atom.ref), st) := by
    intro ρ b st hρ
    simp only [clParts, src_check_loops, Expr.evalP, hρ.project, bind, Except.bind, pure, Except.pure, loopsH, baseH,
      calcPrim_tasks]
  rw [execBlockP_cons, execP_forIn (hit := hit1 _ _ _ hρ1)]
  rcases h1 : mem.foldlM (fun val t => loopsFrom (fun u => (env.info u).preds) (env.n + 2) [] val t) [] with e | v1
  · rw [h1] at hne L1
    simp only [L1 (by simpa using hne)]
    rfl
  rw [h1] at hne L1
  obtain ⟨ρ1, B1, hx1, hρ1', _⟩ := L1 (fun h => by cases h)
  simp only [hx1] at hne ⊢
  -- the second loop
  rw [execBlockP_cons, execP_assign (he := evalP_newBox_nil _ _ _ _)]
  simp only []
  have hρ2 : ClEnv (Env.set ρ1 "validated" (.atom (.box B1.length))) w B1.length :=
    ⟨by rw [Env.get?_set, if_neg (by decide)]; exact hρ1'.project, by rw [Env.get?_set, if_pos rfl]⟩
  have L2 := forLoopP_foldlM "t" (fun ρ st => execBlockP (loopsH env mem w fuel') [] rec clParts.body2 ρ st)
    (heapOf E env ms f) B1.length
    (fun val t => if (env.info t).children.isEmpty then loopsFrom (waitsFor env) (env.n + 2) [] val t else pure val)
    (fun ρ => ClEnv ρ w B1.length) (fun ρ v h => h.set v)
    (fun ρ val st1 t hρ hh1 hB1 hn => by
      have hρt : (Env.set ρ "t" (.atom (.ref t))).get? "t" = some (.atom (.ref t)) := by rw [Env.get?_set, if_pos rfl]
      cases hc : (env.info t).children with
      | cons c cs =>
        have hne' : ¬ (((cs.length : Nat) : Rat) + 1 = 0) := natCast_succ_ne_zero _
        have hcond : (do
            let (v, st') ← (Expr.cmp .eq (.len (.attr (.var "t") "children")) (.num 0)).evalP
              (loopsH env mem w fuel') [] (ρ.set "t" (.atom (.ref t))) st1
            pure ((← truthP v), st')) = .ok (false, st1) := by
          pylite_p [hρt, hh1, heapOf, hE.children, hE.preds, hE.start, hE.end_, hc, pyEq_num, hne']
        simp only [hc, List.isEmpty_cons, Bool.false_eq_true, if_false, pure, Except.pure]
        refine ⟨st1.boxes, ?_, hB1⟩
        simp only [clParts, src_check_loops, execBlockP_cons, execBlockP_nil, Stmt.execP, hcond, Bool.false_eq_true,
          if_false]
      | nil =>
        simp only [hc, List.isEmpty_nil, if_true] at hn ⊢
        have hcall := call_ok env ms mem w fuel' f fn_waits_for (waitsFor env)
          (fun st u h => clftH_fn_waits env ms mem w hE f st h u) rec (env.n + 2) hf (ρ.set "t" (.atom (.ref t)))
          B1.length val st1 t hρt (hρ.set _).val hh1 hB1 hn
        have hcond : (do
            let (v, st') ← (Expr.cmp .eq (.len (.attr (.var "t") "children")) (.num 0)).evalP
              (loopsH env mem w fuel') [] (ρ.set "t" (.atom (.ref t))) st1
            pure ((← truthP v), st')) = .ok (true, st1) := by
          pylite_p [hρt, hh1, heapOf, hE.children, hE.preds, hE.start, hE.end_, hc, pyEq_num]
        simp only [clParts, src_check_loops, execBlockP_cons, execBlockP_nil, Stmt.execP, hcond, if_true]
        simp only [Stmt.execP] at hcall
        rcases hs : loopsFrom (waitsFor env) (env.n + 2) [] val t with e | val'
        · rw [hs] at hcall; simp only [hcall]
        · rw [hs] at hcall
          obtain ⟨B, hx, hB⟩ := hcall
          exact ⟨B, by simp only [hx], hB⟩)
    mem _ [] { st with boxes := B1 ++ [[]] } hρ2 hh List.getElem?_concat_length
  rw [execBlockP_cons, execP_forIn (hit := hit2 _ _ _ hρ2)]
  rcases h2 : mem.foldlM (fun val t =>
      if (env.info t).children.isEmpty then loopsFrom (waitsFor env) (env.n + 2) [] val t else pure val) [] with e | v2
  · rw [h2] at hne L2
    simp only [L2 (by simpa using hne)]
    rfl
  rw [h2] at L2
  obtain ⟨ρ2, B2, hx2, _, _⟩ := L2 (fun h => by cases h)
  simp only [hx2, execBlockP_nil]
  exact ⟨B2, rfl⟩

/-- STAGE 3, as an equation on results -/
theorem interpCheckLoops_eq (hE : CalcEnc E) (f : Uid → Fields) (st : PState) (hh : st.heap = heapOf E env ms f) (fuel' : Nat)
    (hf : env.n + 2 ≤ fuel') (hne : checkLoops env mem ≠ .error (.crash .recursion)) :
    unit (interpCheckLoops env mem w fuel' [.ref w] st) = checkLoops env mem := by
  have h := interpCheckLoops_spec env ms mem w hE f st hh fuel' hf hne
  rcases hc : checkLoops env mem with e | u
  · rw [hc] at h; rw [h]; rfl
  · rw [hc] at h; obtain ⟨B, hB⟩ := h; rw [hB]; rfl
end

/-! ### the container store is a frame for programs without calc constructs -/

/-- the state with another container store -/
def wb (st : PState) (B : List (List Atom)) : PState := { st with boxes := B }

def wbR (B : List (List Atom)) (r : Res (Val × PState)) : Res (Val × PState) :=
  match r with
  | .ok (v, st) => .ok (v, wb st B)
  | .error e => .error e

def wbO (B : List (List Atom)) : OutcomeP → OutcomeP
  | .normal ρ st => .normal ρ (wb st B)
  | .cont ρ st => .cont ρ (wb st B)
  | .ret v st => .ret v (wb st B)
  | .raise e => .raise e

/-- expressions of the pass layer proper: no calc construct -/
def noBoxE : Expr → Bool
  | .none | .num _ | .bool _ | .var _ | .field _ | .datetime _ | .now | .listNil => true
  | .isNone e | .isNotNone e | .not e | .len e | .maxList e | .minList e | .calcHas e | .resSetdefault e
  | .reversed e | .timedelta e | .attr e _ | .callSelf _ e => noBoxE e
  | .cmp _ a b | .and a b | .or a b | .bin _ a b | .isIn a b | .sum a b | .listCons a b | .max a b | .isSame a b
  | .min a b => noBoxE a && noBoxE b
  | .ite a b c | .max3 a b c => noBoxE a && noBoxE b && noBoxE c
  | .listComp a _ b c => noBoxE a && noBoxE b && noBoxE c
  | _ => false

@[simp] theorem wb_L (st : PState) (B) : (wb st B).L = st.L := rfl
@[simp] theorem wb_heap (st : PState) (B) : (wb st B).heap = st.heap := rfl
@[simp] theorem wb_done (st : PState) (B) : (wb st B).done = st.done := rfl
@[simp] theorem wb_res (st : PState) (B) : (wb st B).res = st.res := rfl
@[simp] theorem wb_reads (st : PState) (B) : (wb st B).reads = st.reads := rfl

theorem compLoopP_wb (B : List (List Atom)) (f : Atom → PState → Res (Option Atom × PState))
    (hf : ∀ v st, f v (wb st B) = match f v st with | .ok (o, s) => .ok (o, wb s B) | .error e => .error e) :
    ∀ (vs : List Atom) (st : PState), compLoopP f vs (wb st B) =
      match compLoopP f vs st with | .ok (o, s) => .ok (o, wb s B) | .error e => .error e := by
  intro vs
  induction vs with
  | nil => intro st; rfl
  | cons v vs ih =>
    intro st
    simp only [compLoopP, hf, bind, Except.bind]
    rcases f v st with e | ⟨o, s⟩
    · rfl
    · simp only [ih]
      rcases compLoopP f vs s with e | ⟨r, s2⟩ <;> rfl

theorem evalP_wb (H : PHandlers) (self : PyLite.Env) (B : List (List Atom)) :
    ∀ (e : Expr), noBoxE e = true → ∀ (env : PyLite.Env) (st : PState),
      e.evalP H self env (wb st B) = wbR B (e.evalP H self env st) := by
  intro e
  induction e with
  | none => intro _ env st; rfl
  | num q => intro _ env st; rfl
  | bool b => intro _ env st; rfl
  | datetime t => intro _ env st; rfl
  | now => intro _ env st; rfl
  | listNil => intro _ env st; rfl
  | var x => intro _ env st; simp only [Expr.evalP]; cases env.get? x <;> rfl
  | field x => intro _ env st; simp only [Expr.evalP]; cases self.get? x <;> rfl
  | isNone e ih =>
    intro h env st
    simp only [noBoxE] at h
    simp only [Expr.evalP, ih h, bind, Except.bind]
    rcases e.evalP H self env st with e | ⟨v, s⟩ <;> rfl
  | isNotNone e ih =>
    intro h env st
    simp only [noBoxE] at h
    simp only [Expr.evalP, ih h, bind, Except.bind]
    rcases e.evalP H self env st with e | ⟨v, s⟩ <;> rfl
  | not e ih =>
    intro h env st
    simp only [noBoxE] at h
    simp only [Expr.evalP, ih h, bind, Except.bind]
    rcases e.evalP H self env st with e | ⟨v, s⟩
    · rfl
    · simp only [wbR]; rcases truthP v with e | b <;> rfl
  | len e ih =>
    intro h env st
    simp only [noBoxE] at h
    simp only [Expr.evalP, ih h, bind, Except.bind]
    rcases e.evalP H self env st with e | ⟨v, s⟩
    · rfl
    · simp only [wbR]; split <;> rfl
  | maxList e ih =>
    intro h env st
    simp only [noBoxE] at h
    simp only [Expr.evalP, ih h, bind, Except.bind]
    rcases e.evalP H self env st with e | ⟨v, s⟩
    · rfl
    · simp only [wbR]; rcases foldList pyMax v with e | b <;> rfl
  | minList e ih =>
    intro h env st
    simp only [noBoxE] at h
    simp only [Expr.evalP, ih h, bind, Except.bind]
    rcases e.evalP H self env st with e | ⟨v, s⟩
    · rfl
    · simp only [wbR]; rcases foldList pyMin v with e | b <;> rfl
  | calcHas e ih =>
    intro h env st
    simp only [noBoxE] at h
    simp only [Expr.evalP, ih h, bind, Except.bind]
    rcases e.evalP H self env st with e | ⟨v, s⟩
    · rfl
    · simp only [wbR]; split <;> rfl
  | reversed e ih =>
    intro h env st
    simp only [noBoxE] at h
    simp only [Expr.evalP, ih h, bind, Except.bind]
    rcases e.evalP H self env st with e | ⟨v, s⟩
    · rfl
    · simp only [wbR]; split <;> rfl
  | timedelta e ih =>
    intro h env st
    simp only [noBoxE] at h
    simp only [Expr.evalP, ih h, bind, Except.bind]
    rcases e.evalP H self env st with e | ⟨v, s⟩
    · rfl
    · simp only [wbR]; split <;> try rfl
      split <;> rfl
  | attr e f ih =>
    intro h env st
    simp only [noBoxE] at h
    simp only [Expr.evalP, ih h, bind, Except.bind]
    rcases e.evalP H self env st with e | ⟨v, s⟩
    · rfl
    · simp only [wbR]
      split
      · simp only [wb_heap]; split <;> rfl
      · rename_i r d t u; rcases rowAttr r d t u f with e | x <;> rfl
      · rfl
      · rfl
  | resSetdefault e ih =>
    intro h env st
    simp only [noBoxE] at h
    simp only [Expr.evalP, ih h, bind, Except.bind]
    rcases e.evalP H self env st with e | ⟨v, s⟩
    · rfl
    · simp only [wbR]
      split
      · split
        · rename_i a _
          rcases H.newResource a with e | r
          · rfl
          · simp only [wb_res]; split <;> rfl
        · rfl
      · rfl
  | callSelf m e ih =>
    intro h env st
    simp only [noBoxE] at h
    simp only [Expr.evalP, ih h, bind, Except.bind]
    rcases e.evalP H self env st with e | ⟨v, s⟩
    · rfl
    · simp only [wbR]
      split
      · rename_i as
        simp only [wb_L]
        rcases H.call m as s.L with e | ⟨x, L'⟩ <;> rfl
      · rfl
  | cmp op a b iha ihb =>
    intro h env st
    simp only [noBoxE, Bool.and_eq_true] at h
    simp only [Expr.evalP, iha h.1, bind, Except.bind]
    rcases a.evalP H self env st with e | ⟨v, s⟩
    · rfl
    · simp only [wbR, ihb h.2]
      rcases b.evalP H self env s with e | ⟨v2, s2⟩
      · rfl
      · simp only [wbR]
        rcases PyLite.compare op v v2 with e | r <;> rfl
  | bin op a b iha ihb =>
    intro h env st
    simp only [noBoxE, Bool.and_eq_true] at h
    simp only [Expr.evalP, iha h.1, bind, Except.bind]
    rcases a.evalP H self env st with e | ⟨v, s⟩
    · rfl
    · simp only [wbR, ihb h.2]
      rcases b.evalP H self env s with e | ⟨v2, s2⟩
      · rfl
      · simp only [wbR]
        rcases arithP op v v2 with e | r <;> rfl
  | isIn a b iha ihb =>
    intro h env st
    simp only [noBoxE, Bool.and_eq_true] at h
    simp only [Expr.evalP, iha h.1, bind, Except.bind]
    rcases a.evalP H self env st with e | ⟨v, s⟩
    · rfl
    · simp only [wbR, ihb h.2]
      rcases b.evalP H self env s with e | ⟨v2, s2⟩
      · rfl
      · simp only [wbR]
        split <;> rfl
  | sum a b iha ihb =>
    intro h env st
    simp only [noBoxE, Bool.and_eq_true] at h
    simp only [Expr.evalP, iha h.1, bind, Except.bind]
    rcases a.evalP H self env st with e | ⟨v, s⟩
    · rfl
    · simp only [wbR, ihb h.2]
      rcases b.evalP H self env s with e | ⟨v2, s2⟩
      · rfl
      · simp only [wbR]
        split
        · rename_i vs; rcases sumLoop v2 vs with e | r <;> rfl
        · rfl
  | listCons a b iha ihb =>
    intro h env st
    simp only [noBoxE, Bool.and_eq_true] at h
    simp only [Expr.evalP, iha h.1, bind, Except.bind]
    rcases a.evalP H self env st with e | ⟨v, s⟩
    · rfl
    · simp only [wbR, ihb h.2]
      rcases b.evalP H self env s with e | ⟨v2, s2⟩
      · rfl
      · simp only [wbR]
        split <;> rfl
  | max a b iha ihb =>
    intro h env st
    simp only [noBoxE, Bool.and_eq_true] at h
    simp only [Expr.evalP, iha h.1, bind, Except.bind]
    rcases a.evalP H self env st with e | ⟨v, s⟩
    · rfl
    · simp only [wbR, ihb h.2]
      rcases b.evalP H self env s with e | ⟨v2, s2⟩
      · rfl
      · simp only [wbR]
        rcases pyMax v v2 with e | r <;> rfl
  | min a b iha ihb =>
    intro h env st
    simp only [noBoxE, Bool.and_eq_true] at h
    simp only [Expr.evalP, iha h.1, bind, Except.bind]
    rcases a.evalP H self env st with e | ⟨v, s⟩
    · rfl
    · simp only [wbR, ihb h.2]
      rcases b.evalP H self env s with e | ⟨v2, s2⟩
      · rfl
      · simp only [wbR]
        rcases pyMin v v2 with e | r <;> rfl
  | isSame a b iha ihb =>
    intro h env st
    simp only [noBoxE, Bool.and_eq_true] at h
    simp only [Expr.evalP, iha h.1, bind, Except.bind]
    rcases a.evalP H self env st with e | ⟨v, s⟩
    · rfl
    · simp only [wbR, ihb h.2]
      rcases b.evalP H self env s with e | ⟨v2, s2⟩
      · rfl
      · simp only [wbR]
        split <;> rfl
  | and a b iha ihb =>
    intro h env st
    simp only [noBoxE, Bool.and_eq_true] at h
    simp only [Expr.evalP, iha h.1, bind, Except.bind]
    rcases a.evalP H self env st with e | ⟨v, s⟩
    · rfl
    · simp only [wbR]
      rcases truthP v with e | t
      · rfl
      · cases t
        · rfl
        · simp only [if_true, ihb h.2]
          rcases b.evalP H self env s with e | ⟨_, _⟩ <;> rfl
  | or a b iha ihb =>
    intro h env st
    simp only [noBoxE, Bool.and_eq_true] at h
    simp only [Expr.evalP, iha h.1, bind, Except.bind]
    rcases a.evalP H self env st with e | ⟨v, s⟩
    · rfl
    · simp only [wbR]
      rcases truthP v with e | t
      · rfl
      · cases t
        · simp only [Bool.false_eq_true, if_false, ihb h.2]
          rcases b.evalP H self env s with e | ⟨_, _⟩ <;> rfl
        · rfl
  | ite c a b ihc iha ihb =>
    intro h env st
    simp only [noBoxE, Bool.and_eq_true] at h
    simp only [Expr.evalP, ihc h.1.1, bind, Except.bind]
    rcases c.evalP H self env st with e | ⟨v, s⟩
    · rfl
    · simp only [wbR]
      rcases truthP v with e | t
      · rfl
      · cases t
        · simp only [Bool.false_eq_true, if_false, ihb h.2]
          rcases b.evalP H self env s with e | ⟨_, _⟩ <;> rfl
        · simp only [if_true, iha h.1.2]
          rcases a.evalP H self env s with e | ⟨_, _⟩ <;> rfl
  | max3 a b c iha ihb ihc =>
    intro h env st
    simp only [noBoxE, Bool.and_eq_true] at h
    simp only [Expr.evalP, iha h.1.1, bind, Except.bind]
    rcases a.evalP H self env st with e | ⟨v, s⟩
    · rfl
    · simp only [wbR, ihb h.1.2]
      rcases b.evalP H self env s with e | ⟨v2, s2⟩
      · rfl
      · simp only [wbR, ihc h.2]
        rcases c.evalP H self env s2 with e | ⟨v3, s3⟩
        · rfl
        · simp only [wbR]
          rcases pyMax v v2 with e | r
          · rfl
          · simp only []
            rcases pyMax r v3 with e | r2 <;> rfl
  | listComp elt x it cond ihe ihi ihc =>
    intro h env st
    simp only [noBoxE, Bool.and_eq_true] at h
    simp only [Expr.evalP, ihi h.1.2, bind, Except.bind]
    rcases it.evalP H self env st with e | ⟨v, s⟩
    · rfl
    · simp only [wbR]
      rcases iterOf v with e | vs
      · rfl
      · simp only []
        rw [compLoopP_wb]
        · rcases compLoopP _ vs s with e | ⟨o, s2⟩ <;> rfl
        · intro a st'
          simp only [ihc h.2, bind, Except.bind]
          rcases cond.evalP H self (env.set x a) st' with e | ⟨cv, s3⟩
          · rfl
          · simp only [wbR]
            rcases truthP cv with e | t
            · rfl
            · cases t
              · rfl
              · simp only [if_true, ihe h.1.1]
                rcases elt.evalP H self (env.set x a) s3 with e | ⟨ev, s4⟩
                · rfl
                · simp only [wbR]; cases ev <;> rfl
  | _ => intro h; simp [noBoxE] at h

mutual
/-- statements of the pass layer proper -/
def noBoxS : Stmt → Bool
  | .assign _ e => noBoxE e
  | .aug _ _ e => noBoxE e
  | .ifElse c t e => noBoxE c && noBoxB t && noBoxB e
  | .forIn _ e b => noBoxE e && noBoxB b
  | .raiseRuntime => true
  | .continue => true
  | .pass => true
  | .ret e => noBoxE e
  | .setAttr o _ e => noBoxE o && noBoxE e
  | .calcAppend e => noBoxE e
  | .recurse a => noBoxE a
  | _ => false
def noBoxB : List Stmt → Bool
  | [] => true
  | s :: ss => noBoxS s && noBoxB ss
end

theorem forLoopP_wb (B : List (List Atom)) (x : String) (body : PyLite.Env → PState → OutcomeP)
    (hb : ∀ ρ st, body ρ (wb st B) = wbO B (body ρ st)) :
    ∀ (vs : List Atom) (ρ : PyLite.Env) (st : PState),
      forLoopP x body vs ρ (wb st B) = wbO B (forLoopP x body vs ρ st) := by
  intro vs
  induction vs with
  | nil => intro ρ st; rfl
  | cons v vs ih =>
    intro ρ st
    simp only [forLoopP, hb]
    cases body (ρ.set x v) st <;> simp only [wbO, ih]

set_option linter.unusedSectionVars false in
section
variable (H : PHandlers) (self : PyLite.Env) (B : List (List Atom)) (rec : List Atom → PState → Res (Val × PState))
  (hrec : ∀ args st, rec args (wb st B) = wbR B (rec args st))
include hrec

mutual
theorem execP_wb : ∀ (s : Stmt), noBoxS s = true → ∀ (ρ : PyLite.Env) (st : PState),
    s.execP H self rec ρ (wb st B) = wbO B (s.execP H self rec ρ st)
  | .assign x e, h, ρ, st => by
    simp only [noBoxS] at h
    simp only [Stmt.execP, evalP_wb H self B e h]
    rcases e.evalP H self ρ st with e | ⟨v, s⟩ <;> rfl
  | .aug x op e, h, ρ, st => by
    simp only [noBoxS] at h
    simp only [Stmt.execP, evalP_wb H self B e h]
    cases ρ.get? x with
    | none => rfl
    | some old =>
      simp only []
      rcases e.evalP H self ρ st with e | ⟨v, s⟩
      · rfl
      · simp only [wbR]
        rcases arithP op old v with e | r <;> rfl
  | .ifElse c t e, h, ρ, st => by
    simp only [noBoxS, Bool.and_eq_true] at h
    simp only [Stmt.execP, evalP_wb H self B c h.1.1, bind, Except.bind]
    rcases c.evalP H self ρ st with e | ⟨v, s⟩
    · rfl
    · simp only [wbR]
      rcases truthP v with e | b
      · rfl
      · cases b
        · simp only [pure, Except.pure, Bool.false_eq_true, if_false]
          exact execBlockP_wb e h.2 ρ s
        · simp only [pure, Except.pure, if_true]
          exact execBlockP_wb t h.1.2 ρ s
  | .forIn x e b, h, ρ, st => by
    simp only [noBoxS, Bool.and_eq_true] at h
    simp only [Stmt.execP, evalP_wb H self B e h.1, bind, Except.bind]
    rcases e.evalP H self ρ st with e | ⟨v, s⟩
    · rfl
    · simp only [wbR]
      rcases iterOf v with e | vs
      · rfl
      · simp only [pure, Except.pure]
        exact forLoopP_wb B x _ (fun ρ st => execBlockP_wb b h.2 ρ st) vs ρ s
  | .raiseRuntime, _, _, _ => rfl
  | .continue, _, _, _ => rfl
  | .pass, _, _, _ => rfl
  | .ret e, h, ρ, st => by
    simp only [noBoxS] at h
    simp only [Stmt.execP, evalP_wb H self B e h]
    rcases e.evalP H self ρ st with e | ⟨v, s⟩ <;> rfl
  | .setAttr o f e, h, ρ, st => by
    simp only [noBoxS, Bool.and_eq_true] at h
    simp only [Stmt.execP, evalP_wb H self B e h.2, bind, Except.bind]
    rcases e.evalP H self ρ st with e | ⟨v, s⟩
    · rfl
    · simp only [wbR, evalP_wb H self B o h.1]
      rcases o.evalP H self ρ s with e | ⟨ov, s2⟩
      · rfl
      · simp only [wbR, pure, Except.pure]
        cases ov with
        | atom a => cases a <;> rfl
        | list _ => rfl
        | dict _ => rfl
  | .calcAppend e, h, ρ, st => by
    simp only [noBoxS] at h
    simp only [Stmt.execP, evalP_wb H self B e h]
    rcases e.evalP H self ρ st with e | ⟨v, s⟩
    · rfl
    · simp only [wbR]
      cases v with
      | atom a => cases a <;> rfl
      | list _ => rfl
      | dict _ => rfl
  | .recurse a, h, ρ, st => by
    simp only [noBoxS] at h
    simp only [Stmt.execP, evalP_wb H self B a h, bind, Except.bind]
    rcases a.evalP H self ρ st with e | ⟨v, s⟩
    · rfl
    · simp only [wbR]
      cases v with
      | list as =>
        simp only [hrec]
        rcases rec as s with e | ⟨x, s2⟩ <;> rfl
      | atom _ => rfl
      | dict _ => rfl
  | .while _ _, h, _, _ => by simp [noBoxS] at h
  | .forRange _ _ _ _, h, _, _ => by simp [noBoxS] at h
  | .rowsAppend _, h, _, _ => by simp [noBoxS] at h
  | .resReserve _ _ _ _, h, _, _ => by simp [noBoxS] at h
  | .augReserve _ _ _ _ _ _, h, _, _ => by simp [noBoxS] at h
  | .expr _, h, _, _ => by simp [noBoxS] at h
  | .boxAppend _ _, h, _, _ => by simp [noBoxS] at h
  | .boxPop _, h, _, _ => by simp [noBoxS] at h
  | .ledgerNew, h, _, _ => by simp [noBoxS] at h
  | .calcNew, h, _, _ => by simp [noBoxS] at h
theorem execBlockP_wb : ∀ (ss : List Stmt), noBoxB ss = true → ∀ (ρ : PyLite.Env) (st : PState),
    execBlockP H self rec ss ρ (wb st B) = wbO B (execBlockP H self rec ss ρ st)
  | [], _, _, _ => rfl
  | s :: ss, h, ρ, st => by
    simp only [noBoxB, Bool.and_eq_true] at h
    simp only [execBlockP, execP_wb s h.1]
    cases s.execP H self rec ρ st with
    | normal ρ' st' => simp only [wbO]; exact execBlockP_wb ss h.2 ρ' st'
    | cont _ _ => rfl
    | ret _ _ => rfl
    | raise _ => rfl
end
end

/-- a method without calc constructs does not see the container store: it runs the same with any store `B` and
    leaves it as it is -/
theorem callP_wb (H : PHandlers) (self : PyLite.Env) (B : List (List Atom)) (params : List String) (body : List Stmt)
    (hb : noBoxB body = true) :
    ∀ (fuel : Nat) (args : List Atom) (st : PState),
      callP H self params body fuel args (wb st B) = wbR B (callP H self params body fuel args st) := by
  intro fuel
  induction fuel with
  | zero => intro args st; rfl
  | succ fuel ih =>
    intro args st
    simp only [callP]
    rcases bindParams params args with e | ρ
    · rfl
    · simp only [execBlockP_wb H self B _ ih body hb]
      cases execBlockP H self (callP H self params body fuel) body ρ st <;> rfl

theorem src_Fwd_pass_noBox : noBoxB src_Fwd_pass = true := by decide
theorem src_Bwd_pass_noBox : noBoxB src_Bwd_pass = true := by decide

/-! ### stage 4: `__prepare_tasks` (with `project.tasks` as a primitive) and the two `calc` methods -/

theorem src_calc_prepare_shape : src_Fwd_calc_prepare =
    [.forIn "t" (.prim "tasks" (.listCons (.var "project") .listNil)) prepBody] ∧
    src_Bwd_calc_prepare = src_Fwd_calc_prepare ∧ src_Bwd_calc_prepare_params = src_Fwd_calc_prepare_params :=
  ⟨rfl, rfl, rfl⟩

section
variable {E : TaskInfo → Bool → Fields → PyLite.Env} (hE : TaskEnc E) (H : PHandlers) (self : PyLite.Env)
  (rec : List Atom → PState → Res (Val × PState)) (env : Pj.Env) (ms : Uid → Bool)
include hE

theorem prepBody_ok' (f : Uid → Fields) (st : PState) (hh : st.heap = heapOf E env ms f) (u : Uid) (ρ : PyLite.Env) :
    ∃ ρ', execBlockP H self rec prepBody (ρ.set "t" (.atom (.ref u))) st =
      .normal ρ' { st with heap := heapOf E env ms (prepare env f [u]) } := by
  obtain ⟨L, heap, done, res, reads, boxes⟩ := st
  simp only at hh
  subst hh
  have hch : (heapOf E env ms f u).get? "children" = some (.list ((env.info u).children.map Atom.ref)) := by
    simp only [heapOf, hE.children]
  cases hc : (env.info u).children with
  | nil =>
    have hl : (env.info u).children.isEmpty = true := by simp [hc]
    refine ⟨ρ.set "t" (.atom (.ref u)), ?_⟩
    rw [prepare_one_leaf env f u hl]
    simp [prepBody, src_Fwd_prepare, execBlockP, Stmt.execP, Expr.evalP, Env.get?_set, hch, hc, truthP,
      PyLite.compare, cmpRat, Atom.asNum?, pure, Except.pure, bind, Except.bind]
  | cons c cs =>
    have hl : (env.info u).children.isEmpty = false := by simp [hc]
    have hpos : (0 : Rat) < (cs.length : Rat) + 1 := by
      rw [← SchedSrc.natCast_succ]; exact (natCast_pos _).2 (by omega)
    have e1 := heapSet_heapOf (E := E) env ms f u "start" (.atom .none) _ (hE.set_start _ _ _ none)
    have e2 := fun f => heapSet_heapOf (E := E) env ms f u "end" (.atom .none) _ (hE.set_end _ _ _ none)
    have e3 := fun f => heapSet_heapOf (E := E) env ms f u "estimate" (.atom .none) _ (hE.set_estimate _ _ _ none)
    have e4 := fun f => heapSet_heapOf (E := E) env ms f u "spent" (.atom .none) _ (hE.set_spent _ _ _ none)
    rw [prepare_one_summary env f u hl]
    simp [prepBody, src_Fwd_prepare, execBlockP, Stmt.execP, Expr.evalP, Env.get?_set, hch, hc, truthP,
      PyLite.compare, cmpRat, Atom.asNum?, pure, Except.pure, bind, Except.bind, hpos, e1, e2, e3, e4, upd_upd, upd]

theorem prepLoop_ok' : ∀ (l : List Uid) (f : Uid → Fields) (ρ : PyLite.Env) (st : PState),
    st.heap = heapOf E env ms f →
    ∃ ρ', forLoopP "t" (fun ρ st => execBlockP H self rec prepBody ρ st) (l.map Atom.ref) ρ st =
      .normal ρ' { st with heap := heapOf E env ms (prepare env f l) } := by
  intro l
  induction l with
  | nil =>
    intro f ρ st hh
    refine ⟨ρ, ?_⟩
    have : prepare env f [] = f := by funext x; simp [prepare]
    rw [this, ← hh]; rfl
  | cons u l ih =>
    intro f ρ st hh
    obtain ⟨ρ1, h1⟩ := prepBody_ok' hE H self rec env ms f st hh u ρ
    obtain ⟨ρ2, h2⟩ := ih (prepare env f [u]) ρ1 { st with heap := heapOf E env ms (prepare env f [u]) } rfl
    refine ⟨ρ2, ?_⟩
    simp only [List.map_cons, forLoopP, h1, h2, prepare_cons]
end

/-- STAGE 4.  `__prepare_tasks(project)` (either scheduler; `project.tasks` = the primitive "tasks" = `mem`) on a heap
    that encodes the fields `f` ends on the heap that encodes the model's `prepare env f mem`; nothing else changes -/
theorem callP_calc_prepare {E : TaskInfo → Bool → Fields → PyLite.Env} (hE : TaskEnc E) (env : Pj.Env) (ms : Uid → Bool)
    (mem : List Uid) (w : Nat) (src : List Stmt) (hsrc : src = src_Fwd_calc_prepare) (f : Uid → Fields) (st : PState)
    (hh : st.heap = heapOf E env ms f) :
    callP (baseH env mem w) [] src_Fwd_calc_prepare_params src 1 [.ref w] st =
      .ok (.atom .none, { st with heap := heapOf E env ms (prepare env f mem) }) := by
  subst hsrc
  rw [callP_succ]
  generalize callP (baseH env mem w) [] src_Fwd_calc_prepare_params src_Fwd_calc_prepare 0 = rec
  simp only [src_Fwd_calc_prepare_params, bindParams, pure, Except.pure, bind, Except.bind]
  have hp : Env.get? [("project", Val.atom (Atom.ref w))] "project" = some (.atom (.ref w)) := rfl
  generalize [("project", Val.atom (Atom.ref w))] = ρ0 at hp
  obtain ⟨ρ', hl⟩ := prepLoop_ok' hE (baseH env mem w) [] rec env ms mem f ρ0 st hh
  rw [src_calc_prepare_shape.1, execBlockP_cons, execP_forIn (vs := mem.map Atom.ref) (st' := st), hl]
  · simp [execBlockP_nil]
  · simp only [Expr.evalP, hp, bind, Except.bind, pure, Except.pure, baseH, calcPrim_tasks]


/-! #### the handlers of `calc` -/

/-- the functions `ForwardScheduler.calc` calls: the three checks and `__prepare_tasks` (translated here), and
    `__forward_pass` - THE TRANSLATED SOURCE of Extracted/PassSrc.lean, run with the handlers / `self` of
    Lemmas/PassSrc.lean (`passH`, `passSelf`), at most `pfuel` nested activations.  `fuel` = the recursion limit of
    `_check_loops_from_task`, `wfuel` bounds the `while` loop of the shift method. -/
def calcHF (env : Pj.Env) (mem : List Uid) (w : Nat) (fuel wfuel : Nat) (calR : Nat → Cal) (pfuel : Nat) : PHandlers :=
  { baseH env mem w with
    fn := fun k args st =>
      if k = fn_validate_isolation then interpIsolation env mem w args st
      else if k = fn_check_loops then interpCheckLoops env mem w fuel args st
      else if k = fn_Fwd_check_future then interpCheckFuture env mem w args st
      else if k = fn_Fwd_calc_prepare then
        callP (baseH env mem w) [] src_Fwd_calc_prepare_params src_Fwd_calc_prepare 1 args st
      else if k = fn_Fwd_pass then
        callP (passH env wfuel calR) (passSelf env) src_Fwd_pass_params src_Fwd_pass pfuel args st
      else throw stuck }

/-- `ForwardScheduler.calc(wbs)` on the WBS object `ref w`; `self` = `passSelf env` (`__start` = `env.bound`) -/
def interpFwdCalc (env : Pj.Env) (mem : List Uid) (w : Nat) (fuel wfuel : Nat) (calR : Nat → Cal) (pfuel : Nat)
    (st : PState) : Res (Val × PState) :=
  callP (calcHF env mem w fuel wfuel calR pfuel) (passSelf env) src_Fwd_calc_params src_Fwd_calc 1 [.ref w] st

/-- the scheduler object of `BackwardScheduler.calc`: `passSelf env` and the attribute `__end` = `env.bound` -/
def calcSelfB (env : Pj.Env) : PyLite.Env := ("end", .atom (.time env.bound)) :: passSelf env

def calcHB (env : Pj.Env) (mem : List Uid) (w : Nat) (fuel wfuel : Nat) (calR : Nat → Cal) (pfuel : Nat) : PHandlers :=
  { baseH env mem w with
    fn := fun k args st =>
      if k = fn_validate_isolation then interpIsolation env mem w args st
      else if k = fn_check_loops then interpCheckLoops env mem w fuel args st
      else if k = fn_Bwd_calc_prepare then
        callP (baseH env mem w) [] src_Bwd_calc_prepare_params src_Bwd_calc_prepare 1 args st
      else if k = fn_Bwd_pass then
        callP (passHB env wfuel calR) (passSelf env) src_Bwd_pass_params src_Bwd_pass pfuel args st
      else throw stuck }

/-- `BackwardScheduler.calc(project)`; the pass itself runs on `passSelf env` as in Lemmas/PassSrcBwd.lean (the two
    differ in the attribute `__end`, which `__backward_pass` cannot read: tools/extract_pass.py) -/
def interpBwdCalc (env : Pj.Env) (mem : List Uid) (w : Nat) (fuel wfuel : Nat) (calR : Nat → Cal) (pfuel : Nat)
    (st : PState) : Res (Val × PState) :=
  callP (calcHB env mem w fuel wfuel calR pfuel) (calcSelfB env) src_Bwd_calc_params src_Bwd_calc 1 [.ref w] st

/-! #### the loop over the roots -/

/-- a `for` loop over the items `l.map g` whose body does one step of the model's `passList` on the task `task a`;
    the states are `wb (S σ) B`: the encoding `S` of a model state with an arbitrary container store `B` -/
theorem forLoopP_pass {α : Type} (H : PHandlers) (self : PyLite.Env) (rec : List Atom → PState → Res (Val × PState))
    (S : SS → PState) (B : List (List Atom)) (x : String) (body : List Stmt) (g : α → Atom) (task : α → Uid)
    (step : SS → Uid → Res SS) (P : PyLite.Env → Prop) (Inv : SS → Prop)
    (hP : ∀ ρ v, P ρ → P (ρ.set x v))
    (hInv : ∀ σ u σ', Inv σ → step σ u = .ok σ' → Inv σ') :
    ∀ (l : List α),
      (∀ ρ σ a, a ∈ l → P ρ → Inv σ → step σ (task a) ≠ .error (.crash .recursion) →
        execBlockP H self rec body (ρ.set x (.atom (g a))) (wb (S σ) B) =
          match step σ (task a) with
          | .ok σ' => .normal (ρ.set x (.atom (g a))) (wb (S σ') B)
          | .error e => .raise e) →
      ∀ (ρ : PyLite.Env) (σ : SS), P ρ → Inv σ → passList step σ (l.map task) ≠ .error (.crash .recursion) →
      match passList step σ (l.map task) with
      | .ok σ' => ∃ ρ', forLoopP x (fun ρ st => execBlockP H self rec body ρ st) (l.map g) ρ (wb (S σ) B) =
          .normal ρ' (wb (S σ') B) ∧ P ρ'
      | .error e => forLoopP x (fun ρ st => execBlockP H self rec body ρ st) (l.map g) ρ (wb (S σ) B) = .raise e := by
  intro l
  induction l with
  | nil => intro _ ρ σ hp _ _; exact ⟨ρ, rfl, hp⟩
  | cons a l ih =>
    intro hbody ρ σ hp hi hne
    simp only [List.map_cons, passList, bind, Except.bind, forLoopP] at hne ⊢
    rcases hs : step σ (task a) with e | σ1
    · rw [hs] at hne
      have hb := hbody ρ σ a List.mem_cons_self hp hi (by rw [hs]; exact hne)
      rw [hs] at hb
      simp only [hb]
    · rw [hs] at hne
      have hb := hbody ρ σ a List.mem_cons_self hp hi (by rw [hs]; exact fun h => by cases h)
      rw [hs] at hb
      simp only [hb]
      exact ih (fun ρ σ b hb' => hbody ρ σ b (List.mem_cons_of_mem _ hb')) _ σ1 (hP _ _ hp) (hInv _ _ _ hi hs) hne

/-- what the glue needs of a pass: called through the handler `fn k` on the encoding of a model state (with any
    container store) it does what the model's pass does -/
structure PassSpec (H : PHandlers) (k : Nat) (S : SS → PState) (pass : SS → Uid → Time → Res SS) (Inv : SS → Prop) :
    Prop where
  run : ∀ (σ : SS) (t : Uid) (m : Time) (B : List (List Atom)), Inv σ → pass σ t m ≠ .error (.crash .recursion) →
    H.fn k [.ref t, .time m] (wb (S σ) B) = wbR B ((pass σ t m).map (fun σ' => (Val.atom .none, S σ')))
  inv : ∀ (σ σ' : SS) (t : Uid) (m : Time), Inv σ → pass σ t m = .ok σ' → Inv σ'

theorem passSpec_fwd (env : Pj.Env) (ms : Uid → Bool) (mem : List Uid) (w fuel wfuel : Nat)
    (hms : ∀ u, (env.info u).milestone = (ms u && (env.info u).children.isEmpty))
    (hw : Extracted.fwdShiftMaxSteps < wfuel) (res0 : List (Option Nat × Cal)) (mfuel pfuel : Nat) (hp : mfuel ≤ pfuel) :
    PassSpec (calcHF env mem w fuel wfuel (calRef res0) pfuel) fn_Fwd_pass (encS env ms)
      (fun σ t m => fwdPass env mfuel [] σ t m) (fun σ => ∀ k, calOf σ.res k = calOf res0 k) where
  run := by
    intro σ t m B hi hne
    have h1 : (fn_Fwd_pass = fn_validate_isolation) = False := by decide
    have h2 : (fn_Fwd_pass = fn_check_loops) = False := by decide
    have h3 : (fn_Fwd_pass = fn_Fwd_check_future) = False := by decide
    have h4 : (fn_Fwd_pass = fn_Fwd_calc_prepare) = False := by decide
    simp only [calcHF, h1, h2, h3, h4, if_false, if_true]
    rw [callP_wb _ _ _ _ _ src_Fwd_pass_noBox, callP_fwdPass env ms wfuel hms hw res0 mfuel pfuel hp [] σ t m hi hne]
  inv := fun σ σ' t m hi h => fwdPass_calOf env res0 mfuel [] σ σ' t m hi h

theorem passSpec_bwd (env : Pj.Env) (ms : Uid → Bool) (mem : List Uid) (w fuel wfuel : Nat)
    (hms : ∀ u, (env.info u).milestone = (ms u && (env.info u).children.isEmpty))
    (hw : Extracted.bwdShiftMaxSteps < wfuel) (res0 : List (Option Nat × Cal)) (mfuel pfuel : Nat) (hp : mfuel ≤ pfuel) :
    PassSpec (calcHB env mem w fuel wfuel (calRef res0) pfuel) fn_Bwd_pass (encSB env ms)
      (fun σ t m => bwdPass env mfuel [] σ t m) (fun σ => ∀ k, calOf σ.res k = calOf res0 k) where
  run := by
    intro σ t m B hi hne
    have h1 : (fn_Bwd_pass = fn_validate_isolation) = False := by decide
    have h2 : (fn_Bwd_pass = fn_check_loops) = False := by decide
    have h4 : (fn_Bwd_pass = fn_Bwd_calc_prepare) = False := by decide
    simp only [calcHB, h1, h2, h4, if_false, if_true]
    rw [callP_wb _ _ _ _ _ src_Bwd_pass_noBox, callP_bwdPass env ms wfuel hms hw res0 mfuel pfuel hp [] σ t m hi hne]
  inv := fun σ σ' t m hi h => bwdPass_calOf env res0 mfuel [] σ σ' t m hi h


theorem calcPrim_roots (env : Pj.Env) (mem : List Uid) (w : Nat) (st : PState) :
    calcPrim env mem w "roots" [.ref w] st = .ok (.list (env.roots.map Atom.ref)) := by
  simp [calcPrim, pure, Except.pure]

theorem calcPrim_clone (env : Pj.Env) (mem : List Uid) (w : Nat) (st : PState) :
    calcPrim env mem w "clone" [.ref w] st = .ok (.atom (.ref w)) := by
  simp [calcPrim, pure, Except.pure]

/-- `f(x)` as a statement, `f` a named function and `x` a variable holding an object -/
theorem execP_call1 (H : PHandlers) (self : PyLite.Env) (rec : List Atom → PState → Res (Val × PState)) (k : Nat)
    (x : String) (ρ : PyLite.Env) (st : PState) (w : Nat) (hx : ρ.get? x = some (.atom (.ref w))) :
    (Stmt.expr (.callVal (.fnRef k) (.listCons (.var x) .listNil))).execP H self rec ρ st =
      match H.fn k [.ref w] st with
      | .ok (_, st') => .normal ρ st'
      | .error e => .raise e := by
  simp only [Stmt.execP, Expr.evalP, hx, bind, Except.bind, pure, Except.pure]
  rcases H.fn k [.ref w] st with e | ⟨v, s⟩ <;> rfl


/-! #### `ForwardScheduler.calc` -/

structure FCParts where
  it : Expr
  body : List Stmt

def fcParts : FCParts :=
  match src_Fwd_calc with
  | [_, _, _, _, _, _, _, .forIn _ it b, _] => ⟨it, b⟩
  | _ => ⟨.none, []⟩

theorem src_Fwd_calc_shape : src_Fwd_calc =
    [.expr (.callVal (.fnRef fn_validate_isolation) (.listCons (.var "wbs") .listNil)),
     .expr (.callVal (.fnRef fn_check_loops) (.listCons (.var "wbs") .listNil)),
     .expr (.callVal (.fnRef fn_Fwd_check_future) (.listCons (.var "wbs") .listNil)),
     .assign "forward" (.prim "clone" (.listCons (.var "wbs") .listNil)),
     .expr (.callVal (.fnRef fn_Fwd_calc_prepare) (.listCons (.var "forward") .listNil)),
     .ledgerNew, .calcNew,
     .forIn "t" fcParts.it fcParts.body,
     .ret (.var "forward")] := rfl

/-- the model's `__check_no_end_dates_in_future` is `futureOk` -/
theorem futureOk_eq (nw : Time) (f : Uid → Fields) (mem : List Uid) :
    (mem.any (fun t => match (f t).end_ with | some e => decide (nw < e) | none => false)) = !futureOk nw f mem := by
  unfold futureOk
  cases mem.any (fun t => match (f t).end_ with | some e => decide (nw < e) | none => false) <;> rfl

def fcPre : List Stmt := src_Fwd_calc.take 7
def fcPost : List Stmt := src_Fwd_calc.drop 7
theorem src_Fwd_calc_split : src_Fwd_calc = fcPre ++ fcPost := rfl
theorem fcPre_shape : fcPre =
    [.expr (.callVal (.fnRef fn_validate_isolation) (.listCons (.var "wbs") .listNil)),
     .expr (.callVal (.fnRef fn_check_loops) (.listCons (.var "wbs") .listNil)),
     .expr (.callVal (.fnRef fn_Fwd_check_future) (.listCons (.var "wbs") .listNil)),
     .assign "forward" (.prim "clone" (.listCons (.var "wbs") .listNil)),
     .expr (.callVal (.fnRef fn_Fwd_calc_prepare) (.listCons (.var "forward") .listNil)),
     .ledgerNew, .calcNew] := rfl
theorem fcPost_shape : fcPost = [.forIn "t" fcParts.it fcParts.body, .ret (.var "forward")] := rfl

section
variable (env : Pj.Env) (ms : Uid → Bool) (mem : List Uid) (w : Nat)

/-- the statements of `ForwardScheduler.calc` before the loop: the model's `fwdPrecheck`, then the state `fwdRun`
    starts from -/
theorem fcPre_ok (fuel wfuel pfuel : Nat) (hf : env.n + 2 ≤ fuel) (calR : Nat → Cal)
    (rec : List Atom → PState → Res (Val × PState)) (ρ0 : PyLite.Env) (hρ0 : ρ0.get? "wbs" = some (.atom (.ref w)))
    (f0 : Uid → Fields) (res0 : List (Option Nat × Cal)) (st0 : PState)
    (hh0 : st0.heap = heapOf encTask env ms f0) (hr0 : st0.reads = 0)
    (hres0 : st0.res = res0.map (fun p => (encKey p.1, resRef p.1)))
    (hne : (do
        if !isolationOk env f0 mem then throw Err.runtime
        checkLoops env mem
        if !futureOk (env.clock 0) f0 mem then throw Err.runtime
        pure ()) ≠ (.error (.crash .recursion) : Res Unit)) :
    match (do
        if !isolationOk env f0 mem then throw Err.runtime
        checkLoops env mem
        if !futureOk (env.clock 0) f0 mem then throw Err.runtime
        pure () : Res Unit) with
    | .ok _ => ∃ ρ1 B, execBlockP (calcHF env mem w fuel wfuel calR pfuel) (passSelf env) rec fcPre ρ0 st0 =
          .normal ρ1 (wb (encS env ms { f := prepare env f0 mem, rows := [], done := [], res := res0, reads := 1 }) B) ∧
          ρ1.get? "forward" = some (.atom (.ref w))
    | .error e => execBlockP (calcHF env mem w fuel wfuel calR pfuel) (passSelf env) rec fcPre ρ0 st0 = .raise e := by
  generalize hH : calcHF env mem w fuel wfuel calR pfuel = H
  simp only [bind, Except.bind, pure, Except.pure] at hne ⊢
  rw [fcPre_shape]
  -- _validate_graph_isolation(wbs)
  rw [execBlockP_cons, execP_call1 _ _ _ _ _ _ _ w hρ0]
  have hfn1 : H.fn fn_validate_isolation = interpIsolation env mem w := by
    rw [← hH]; funext args st; simp only [calcHF, if_true]
  rw [hfn1, interpIsolation_eq env ms mem w calcEnc_fwd f0 st0 hh0]
  cases hiso : isolationOk env f0 mem with
  | false => simp [hiso, throw, throwThe, MonadExceptOf.throw]
  | true =>
    simp only [hiso, Bool.not_true, Bool.false_eq_true, if_false, if_true] at hne ⊢
    -- _check_loops(wbs)
    rw [execBlockP_cons, execP_call1 _ _ _ _ _ _ _ w hρ0]
    have hfn2 : H.fn fn_check_loops = interpCheckLoops env mem w fuel := by
      rw [← hH]; funext args st
      have : (fn_check_loops = fn_validate_isolation) = False := by decide
      simp only [calcHF, this, if_false, if_true]
    rw [hfn2]
    have hcl := interpCheckLoops_spec env ms mem w calcEnc_fwd f0
      { st0 with boxes := st0.boxes ++ [mem.map idA] } hh0 fuel hf
    rcases hloops : checkLoops env mem with e | u
    · rw [hloops] at hne hcl
      simp only [hcl (by simpa using hne)]
    rw [hloops] at hne hcl
    obtain ⟨B2, hx2⟩ := hcl (fun h => by cases h)
    simp only [hx2] at hne ⊢
    -- self.__check_no_end_dates_in_future(wbs)
    rw [execBlockP_cons, execP_call1 _ _ _ _ _ _ _ w hρ0]
    have hfn3 : H.fn fn_Fwd_check_future = interpCheckFuture env mem w := by
      rw [← hH]; funext args st
      have h1 : (fn_Fwd_check_future = fn_validate_isolation) = False := by decide
      have h2 : (fn_Fwd_check_future = fn_check_loops) = False := by decide
      simp only [calcHF, h1, h2, if_false, if_true]
    rw [hfn3, interpCheckFuture_eq env ms mem w calcEnc_fwd f0 { st0 with boxes := B2 } hh0]
    simp only [hr0] at hne ⊢
    cases hfut : futureOk (env.clock 0) f0 mem with
    | false => simp [hfut, throw, throwThe, MonadExceptOf.throw]
    | true =>
      simp only [hfut, Bool.not_true, Bool.false_eq_true, if_false, if_true] at hne ⊢
      -- forward = wbs.clone()
      have hclone : ∀ st, (Expr.prim "clone" (.listCons (.var "wbs") .listNil)).evalP H (passSelf env) ρ0 st =
          .ok (.atom (.ref w), st) := by
        intro st
        rw [← hH]
        simp only [Expr.evalP, hρ0, bind, Except.bind, pure, Except.pure, calcHF, baseH, calcPrim_clone]
      rw [execBlockP_cons, execP_assign (he := hclone _)]
      simp only []
      have hρ1 : (Env.set ρ0 "forward" (.atom (.ref w))).get? "forward" = some (.atom (.ref w)) := by
        rw [Env.get?_set, if_pos rfl]
      generalize Env.set ρ0 "forward" (.atom (.ref w)) = ρ1 at hρ1
      -- self.__prepare_tasks(forward)
      rw [execBlockP_cons, execP_call1 _ _ _ _ _ _ _ w hρ1]
      have hfn4 : H.fn fn_Fwd_calc_prepare =
          callP (baseH env mem w) [] src_Fwd_calc_prepare_params src_Fwd_calc_prepare 1 := by
        rw [← hH]; funext args st
        have h1 : (fn_Fwd_calc_prepare = fn_validate_isolation) = False := by decide
        have h2 : (fn_Fwd_calc_prepare = fn_check_loops) = False := by decide
        have h3 : (fn_Fwd_calc_prepare = fn_Fwd_check_future) = False := by decide
        simp only [calcHF, h1, h2, h3, if_false, if_true]
      rw [hfn4, callP_calc_prepare calcEnc_fwd.toTaskEnc env ms mem w _ rfl f0
        { st0 with boxes := B2, reads := 0 + 1 } hh0]
      simp only []
      -- forward_resource_usage = _ResourceUsage(); calculated = []
      rw [execBlockP_cons]
      simp only [Stmt.execP]
      rw [execBlockP_cons]
      simp only [Stmt.execP, execBlockP_nil]
      refine ⟨ρ1, B2, ?_, hρ1⟩
      simp only [wb, encS, hres0, hr0, List.map_nil]
      rfl

/-- the loop over the roots and the `return` of `ForwardScheduler.calc`: the model's `passList` over `env.roots` -/
theorem fcPost_ok (fuel wfuel pfuel : Nat) (hw : Extracted.fwdShiftMaxSteps < wfuel) (hp : env.n + 1 ≤ pfuel)
    (hms : ∀ u, (env.info u).milestone = (ms u && (env.info u).children.isEmpty))
    (res0 : List (Option Nat × Cal)) (rec : List Atom → PState → Res (Val × PState)) (ρ1 : PyLite.Env)
    (hρ1 : ρ1.get? "forward" = some (.atom (.ref w))) (σ0 : SS) (hσ0 : ∀ k, calOf σ0.res k = calOf res0 k)
    (B : List (List Atom))
    (hne : passList (fun σ r => fwdPass env (env.n + 1) [] σ r env.bound) σ0 env.roots ≠ .error (.crash .recursion)) :
    match passList (fun σ r => fwdPass env (env.n + 1) [] σ r env.bound) σ0 env.roots with
    | .ok σ1 => execBlockP (calcHF env mem w fuel wfuel (calRef res0) pfuel) (passSelf env) rec fcPost ρ1
        (wb (encS env ms σ0) B) = .ret (.atom (.ref w)) (wb (encS env ms σ1) B)
    | .error e => execBlockP (calcHF env mem w fuel wfuel (calRef res0) pfuel) (passSelf env) rec fcPost ρ1
        (wb (encS env ms σ0) B) = .raise e := by
  have hspec := passSpec_fwd env ms mem w fuel wfuel hms hw res0 (env.n + 1) pfuel hp
  generalize hH : calcHF env mem w fuel wfuel (calRef res0) pfuel = H at hspec ⊢
  have hit : fcParts.it.evalP H (passSelf env) ρ1 (wb (encS env ms σ0) B) =
      .ok (.list (env.roots.map Atom.ref), wb (encS env ms σ0) B) := by
    rw [← hH]
    simp only [fcParts, src_Fwd_calc, Expr.evalP, hρ1, bind, Except.bind, pure, Except.pure, calcHF, baseH,
      calcPrim_roots]
  rw [fcPost_shape, execBlockP_cons, execP_forIn (hit := hit)]
  have hL := forLoopP_pass H (passSelf env) rec (encS env ms) B "t" fcParts.body Atom.ref id
    (fun σ r => fwdPass env (env.n + 1) [] σ r env.bound)
    (fun ρ => ρ.get? "forward" = some (.atom (.ref w))) (fun σ => ∀ k, calOf σ.res k = calOf res0 k)
    (fun ρ v h => by rw [Env.get?_set, if_neg (by decide)]; exact h)
    (fun σ u σ' hi h => hspec.inv σ σ' u env.bound hi h)
    env.roots
    (fun ρ σ u _ hρ hi hn => by
      have hr := hspec.run σ u env.bound B hi hn
      simp only [fcParts, src_Fwd_calc, execBlockP_cons, execBlockP_nil, Stmt.execP, Expr.evalP, Env.get?_set, if_true,
        passSelf_start, bind, Except.bind, pure, Except.pure, hr, id]
      rcases fwdPass env (env.n + 1) [] σ u env.bound with e | σ' <;> rfl)
    ρ1 σ0 hρ1 hσ0
  simp only [List.map_id] at hL
  rcases hrun : passList (fun σ r => fwdPass env (env.n + 1) [] σ r env.bound) σ0 env.roots with e | σ1
  · rw [hrun] at hne hL
    simp only [hL hne]
  rw [hrun] at hL
  obtain ⟨ρ2, hx, hρ2⟩ := hL (fun h => by cases h)
  simp only [hx]
  rw [execBlockP_cons]
  simp only [Stmt.execP, Expr.evalP, hρ2, pure, Except.pure]

/-- STAGE 4 (forward).  `ForwardScheduler.calc(wbs)`, interpreted from its translated source - the calls it makes
    running the translated sources of the three checks, of `__prepare_tasks` and of `__forward_pass` on ONE store -
    computes the model's `forwardCalc`, PROVIDED that the model's run does not end in RecursionError.
    The store: the encoding `encS` of the input fields `f0` and resource table `res0`, any ledger / `calculated` /
    container store (`calc` makes new ones); the clock has not been read (`reads = 0`).
    The result is the WBS object, and the store then encodes the model's output. -/
theorem interpFwdCalc_eq (hmem : members env = some mem)
    (hms : ∀ u, (env.info u).milestone = (ms u && (env.info u).children.isEmpty))
    (fuel wfuel pfuel : Nat) (hf : env.n + 2 ≤ fuel) (hw : Extracted.fwdShiftMaxSteps < wfuel) (hp : env.n + 1 ≤ pfuel)
    (f0 : Uid → Fields) (res0 : List (Option Nat × Cal)) (rows0 : List Row) (done0 : List Uid) (B0 : List (List Atom))
    (hne : forwardCalc env f0 res0 ≠ .error (.crash .recursion)) :
    match forwardCalc env f0 res0 with
    | .ok out => ∃ σ B, interpFwdCalc env mem w fuel wfuel (calRef res0) pfuel
          (wb (encS env ms { f := f0, rows := rows0, done := done0, res := res0, reads := 0 }) B0) =
          .ok (.atom (.ref w), wb (encS env ms σ) B) ∧ out = { f := σ.f, rows := σ.rows, res := σ.res }
    | .error e => interpFwdCalc env mem w fuel wfuel (calRef res0) pfuel
          (wb (encS env ms { f := f0, rows := rows0, done := done0, res := res0, reads := 0 }) B0) = .error e := by
  unfold interpFwdCalc
  rw [callP_succ]
  generalize callP (calcHF env mem w fuel wfuel (calRef res0) pfuel) (passSelf env) src_Fwd_calc_params src_Fwd_calc 0 = rec
  simp only [src_Fwd_calc_params, bindParams, pure, Except.pure, bind, Except.bind]
  have hρ0 : Env.get? [("wbs", Val.atom (Atom.ref w))] "wbs" = some (.atom (.ref w)) := rfl
  generalize [("wbs", Val.atom (Atom.ref w))] = ρ0 at hρ0
  have hpre := fcPre_ok env ms mem w fuel wfuel pfuel hf (calRef res0) rec ρ0 hρ0 f0 res0
    (wb (encS env ms { f := f0, rows := rows0, done := done0, res := res0, reads := 0 }) B0) rfl rfl rfl
  unfold forwardCalc fwdPrecheck fwdRun at hne ⊢
  simp only [hmem, bind, Except.bind, pure, Except.pure] at hne hpre ⊢
  generalize hany : List.any mem _ = b at hne ⊢
  have hb : b = !futureOk (env.clock 0) f0 mem := by rw [← hany]; exact futureOk_eq _ _ _
  subst hb
  rw [src_Fwd_calc_split, execBlockP_append]
  have hpost := fun ρ1 hρ1 B => fcPost_ok env ms mem w fuel wfuel pfuel hw hp hms res0 rec ρ1 hρ1
    { f := prepare env f0 mem, rows := [], done := [], res := res0, reads := 1 } (fun _ => rfl) B
  cases hiso : isolationOk env f0 mem with
  | false =>
    simp only [hiso, Bool.not_false, if_true, throw, throwThe, MonadExceptOf.throw] at hpre ⊢
    simp only [hpre (fun h => by cases h)]
  | true =>
    simp only [hiso, Bool.not_true, Bool.false_eq_true, if_false] at hne hpre ⊢
    rcases hloops : checkLoops env mem with e | u
    · simp only [hloops] at hne hpre ⊢
      simp only [hpre (fun h => hne (by cases h; rfl))]
      rfl
    simp only [hloops] at hne hpre ⊢
    cases hfut : futureOk (env.clock 0) f0 mem with
    | false =>
      simp only [hfut, Bool.not_false, if_true, throw, throwThe, MonadExceptOf.throw] at hpre ⊢
      simp only [hpre (fun h => by cases h)]
    | true =>
      simp only [hfut, Bool.not_true, Bool.false_eq_true, if_false] at hne hpre ⊢
      obtain ⟨ρ1, B, hx, hρ1⟩ := hpre (fun h => by cases h)
      simp only [hx]
      have hpo := hpost ρ1 hρ1 B
      rcases hrun : passList (fun σ r => fwdPass env (env.n + 1) [] σ r env.bound)
          { f := prepare env f0 mem, rows := [], done := [], res := res0, reads := 1 } env.roots with e | σ1
      · rw [hrun] at hne hpo
        simp only [hpo (by simpa using hne)]
        rfl
      · rw [hrun] at hpo
        simp only [hpo (fun h => by cases h)]
        exact ⟨σ1, B, rfl, rfl⟩
end


/-! #### `BackwardScheduler.calc` -/

structure BCParts where
  it : Expr
  body : List Stmt

def bcParts : BCParts :=
  match src_Bwd_calc with
  | [_, _, _, _, _, _, _, .forIn _ it b, _] => ⟨it, b⟩
  | _ => ⟨.none, []⟩

def bcPre : List Stmt := src_Bwd_calc.take 7
def bcPost : List Stmt := src_Bwd_calc.drop 7
theorem src_Bwd_calc_split : src_Bwd_calc = bcPre ++ bcPost := rfl
theorem bcPre_shape : bcPre =
    [.expr (.callVal (.fnRef fn_validate_isolation) (.listCons (.var "project") .listNil)),
     .expr (.callVal (.fnRef fn_check_loops) (.listCons (.var "project") .listNil)),
     .assign "backward" (.prim "clone" (.listCons (.var "project") .listNil)),
     .expr (.callVal (.fnRef fn_Bwd_calc_prepare) (.listCons (.var "backward") .listNil)),
     .ledgerNew,
     .assign "backward_roots" (.prim "roots" (.listCons (.var "backward") .listNil)),
     .calcNew] := rfl
theorem bcPost_shape : bcPost = [.forIn "i" bcParts.it bcParts.body, .ret (.var "backward")] := rfl

/-- the items of `range(n - 1, -1, -1)`: `n - 1, …, 0` -/
def downIdx (n i : Nat) : Atom := .num ((((n - 1 - i : Nat) : Int)) : Rat)

theorem asInt_intCast (k : Int) : Atom.asInt? (.num (k : Rat)) = some k := by
  simp [Atom.asInt?, Rat.num_intCast, Rat.den_intCast]

theorem natCast_sub_one (n : Nat) : ((n : Rat) - 1) = (((n : Int) - 1 : Int) : Rat) := by
  rw [Rat.intCast_sub, Rat.intCast_natCast]; rfl

theorem rangeList_down (n : Nat) :
    (rangeList ((n : Int) - 1) (-1) (-1)).map (fun (k : Int) => Atom.num (k : Rat)) = (List.range n).map (downIdx n) := by
  have hc : (((n : Int) - 1 - (-1) - (-1) - 1) / (-(-1))).toNat = n := by
    have : ((n : Int) - 1 - (-1) - (-1) - 1) / (-(-1)) = (n : Int) := by
      rw [show (-(-1) : Int) = 1 from rfl, Int.ediv_one]; omega
    rw [this]; exact Int.toNat_natCast n
  have h0 : ¬ ((0 : Int) < -1) := by decide
  unfold rangeList
  rw [if_neg h0, hc, List.map_map]
  apply List.map_congr_left
  intro i hi
  have hi' : i < n := List.mem_range.1 hi
  simp only [Function.comp, downIdx]
  congr 2
  omega

theorem evalP_range3 (H : PHandlers) (self ρ : PyLite.Env) (st : PState) (lo hi step : Expr) (i j k : Int)
    (hlo : lo.evalP H self ρ st = .ok (.atom (.num (i : Rat)), st))
    (hhi : hi.evalP H self ρ st = .ok (.atom (.num (j : Rat)), st))
    (hstep : step.evalP H self ρ st = .ok (.atom (.num (k : Rat)), st)) (hk : ¬ k = 0) :
    (Expr.range3 lo hi step).evalP H self ρ st =
      .ok (.list ((rangeList i j k).map (fun (n : Int) => Atom.num (n : Rat))), st) := by
  simp only [Expr.evalP, hlo, hhi, hstep, asInt_intCast, hk, if_false, bind, Except.bind, pure, Except.pure]

theorem reverse_eq_map_range (l : List Uid) :
    (List.range l.length).map (fun i => l.getD (l.length - 1 - i) 0) = l.reverse := by
  apply List.ext_getElem?
  intro i
  by_cases hi : i < l.length
  · rw [List.getElem?_map, List.getElem?_range hi, List.getElem?_reverse hi]
    simp only [Option.map_some, List.getD_eq_getElem?_getD]
    have : l.length - 1 - i < l.length := by omega
    rw [List.getElem?_eq_getElem this]; rfl
  · have h1 : ((List.range l.length).map (fun i => l.getD (l.length - 1 - i) 0)).length ≤ i := by simp; omega
    have h2 : l.reverse.length ≤ i := by simp; omega
    rw [List.getElem?_eq_none h1, List.getElem?_eq_none h2]

section
variable (env : Pj.Env) (ms : Uid → Bool) (mem : List Uid) (w : Nat)

/-- the statements of `BackwardScheduler.calc` before the loop: the model's `bwdPrecheck`, then the state `bwdRun`
    starts from -/
theorem bcPre_ok (fuel wfuel pfuel : Nat) (hf : env.n + 2 ≤ fuel) (calR : Nat → Cal)
    (rec : List Atom → PState → Res (Val × PState)) (ρ0 : PyLite.Env) (hρ0 : ρ0.get? "project" = some (.atom (.ref w)))
    (f0 : Uid → Fields) (res0 : List (Option Nat × Cal)) (st0 : PState)
    (hh0 : st0.heap = heapOf encTaskB env ms f0) (hr0 : st0.reads = 0)
    (hres0 : st0.res = res0.map (fun p => (encKey p.1, resRef p.1)))
    (hne : (do
        if !isolationOk env f0 mem then throw Err.runtime
        checkLoops env mem) ≠ (.error (.crash .recursion) : Res Unit)) :
    match (do
        if !isolationOk env f0 mem then throw Err.runtime
        checkLoops env mem : Res Unit) with
    | .ok _ => ∃ ρ1 B, execBlockP (calcHB env mem w fuel wfuel calR pfuel) (calcSelfB env) rec bcPre ρ0 st0 =
          .normal ρ1 (wb (encSB env ms { f := prepare env f0 mem, rows := [], done := [], res := res0, reads := 0 }) B) ∧
          ρ1.get? "backward" = some (.atom (.ref w)) ∧
          ρ1.get? "backward_roots" = some (.list (env.roots.map Atom.ref))
    | .error e => execBlockP (calcHB env mem w fuel wfuel calR pfuel) (calcSelfB env) rec bcPre ρ0 st0 = .raise e := by
  generalize hH : calcHB env mem w fuel wfuel calR pfuel = H
  simp only [bind, Except.bind, pure, Except.pure] at hne ⊢
  rw [bcPre_shape]
  -- _validate_graph_isolation(project)
  rw [execBlockP_cons, execP_call1 _ _ _ _ _ _ _ w hρ0]
  have hfn1 : H.fn fn_validate_isolation = interpIsolation env mem w := by
    rw [← hH]; funext args st; simp only [calcHB, if_true]
  rw [hfn1, interpIsolation_eq env ms mem w calcEnc_bwd f0 st0 hh0]
  cases hiso : isolationOk env f0 mem with
  | false => simp [hiso, throw, throwThe, MonadExceptOf.throw]
  | true =>
    simp only [hiso, Bool.not_true, Bool.false_eq_true, if_false, if_true] at hne ⊢
    -- _check_loops(project)
    rw [execBlockP_cons, execP_call1 _ _ _ _ _ _ _ w hρ0]
    have hfn2 : H.fn fn_check_loops = interpCheckLoops env mem w fuel := by
      rw [← hH]; funext args st
      have : (fn_check_loops = fn_validate_isolation) = False := by decide
      simp only [calcHB, this, if_false, if_true]
    rw [hfn2]
    have hcl := interpCheckLoops_spec env ms mem w calcEnc_bwd f0
      { st0 with boxes := st0.boxes ++ [mem.map idA] } hh0 fuel hf
    rcases hloops : checkLoops env mem with e | u
    · rw [hloops] at hne hcl
      simp only [hcl hne]
    rw [hloops] at hcl
    obtain ⟨B2, hx2⟩ := hcl (fun h => by cases h)
    simp only [hx2]
    -- backward = project.clone()
    have hclone : ∀ st, (Expr.prim "clone" (.listCons (.var "project") .listNil)).evalP H (calcSelfB env) ρ0 st =
        .ok (.atom (.ref w), st) := by
      intro st
      rw [← hH]
      simp only [Expr.evalP, hρ0, bind, Except.bind, pure, Except.pure, calcHB, baseH, calcPrim_clone]
    rw [execBlockP_cons, execP_assign (he := hclone _)]
    simp only []
    have hρ1 : (Env.set ρ0 "backward" (.atom (.ref w))).get? "backward" = some (.atom (.ref w)) := by
      rw [Env.get?_set, if_pos rfl]
    generalize Env.set ρ0 "backward" (.atom (.ref w)) = ρ1 at hρ1
    -- self.__prepare_tasks(backward)
    rw [execBlockP_cons, execP_call1 _ _ _ _ _ _ _ w hρ1]
    have hfn4 : H.fn fn_Bwd_calc_prepare =
        callP (baseH env mem w) [] src_Bwd_calc_prepare_params src_Bwd_calc_prepare 1 := by
      rw [← hH]; funext args st
      have h1 : (fn_Bwd_calc_prepare = fn_validate_isolation) = False := by decide
      have h2 : (fn_Bwd_calc_prepare = fn_check_loops) = False := by decide
      simp only [calcHB, h1, h2, if_false, if_true]
    rw [hfn4, src_calc_prepare_shape.2.2, callP_calc_prepare calcEnc_bwd.toTaskEnc env ms mem w _
      src_calc_prepare_shape.2.1 f0 { st0 with boxes := B2 } hh0]
    simp only []
    -- backward_resource_usage = _ResourceUsage(); backward_roots = backward.roots; calculated = []
    rw [execBlockP_cons]
    simp only [Stmt.execP]
    have hroots : ∀ st, (Expr.prim "roots" (.listCons (.var "backward") .listNil)).evalP H (calcSelfB env) ρ1 st =
        .ok (.list (env.roots.map Atom.ref), st) := by
      intro st
      rw [← hH]
      simp only [Expr.evalP, hρ1, bind, Except.bind, pure, Except.pure, calcHB, baseH, calcPrim_roots]
    rw [execBlockP_cons, execP_assign (he := hroots _)]
    simp only []
    rw [execBlockP_cons]
    simp only [Stmt.execP, execBlockP_nil]
    refine ⟨Env.set ρ1 "backward_roots" (.list (env.roots.map Atom.ref)), B2, ?_,
      by rw [Env.get?_set, if_neg (by decide)]; exact hρ1, by rw [Env.get?_set, if_pos rfl]⟩
    simp only [wb, encSB, hres0, hr0, List.map_nil]
    rfl

theorem calcSelfB_end : (calcSelfB env).get? "end" = some (.atom (.time env.bound)) := rfl

/-- the loop `for i in range(len(backward_roots) - 1, -1, -1)` and the `return` of `BackwardScheduler.calc`: the
    model's `passList` over `env.roots.reverse` -/
theorem bcPost_ok (fuel wfuel pfuel : Nat) (hw : Extracted.bwdShiftMaxSteps < wfuel) (hp : env.n + 1 ≤ pfuel)
    (hms : ∀ u, (env.info u).milestone = (ms u && (env.info u).children.isEmpty))
    (res0 : List (Option Nat × Cal)) (rec : List Atom → PState → Res (Val × PState)) (ρ1 : PyLite.Env)
    (hρ1 : ρ1.get? "backward" = some (.atom (.ref w)))
    (hρr : ρ1.get? "backward_roots" = some (.list (env.roots.map Atom.ref)))
    (σ0 : SS) (hσ0 : ∀ k, calOf σ0.res k = calOf res0 k) (B : List (List Atom))
    (hne : passList (fun σ r => bwdPass env (env.n + 1) [] σ r env.bound) σ0 env.roots.reverse ≠
      .error (.crash .recursion)) :
    match passList (fun σ r => bwdPass env (env.n + 1) [] σ r env.bound) σ0 env.roots.reverse with
    | .ok σ1 => execBlockP (calcHB env mem w fuel wfuel (calRef res0) pfuel) (calcSelfB env) rec bcPost ρ1
        (wb (encSB env ms σ0) B) = .ret (.atom (.ref w)) (wb (encSB env ms σ1) B)
    | .error e => execBlockP (calcHB env mem w fuel wfuel (calRef res0) pfuel) (calcSelfB env) rec bcPost ρ1
        (wb (encSB env ms σ0) B) = .raise e := by
  have hspec := passSpec_bwd env ms mem w fuel wfuel hms hw res0 (env.n + 1) pfuel hp
  generalize hH : calcHB env mem w fuel wfuel (calRef res0) pfuel = H at hspec ⊢
  have hit : bcParts.it.evalP H (calcSelfB env) ρ1 (wb (encSB env ms σ0) B) =
      .ok (.list ((List.range env.roots.length).map (downIdx env.roots.length)), wb (encSB env ms σ0) B) := by
    have hlo : (Expr.bin .sub (.len (.var "backward_roots")) (.num 1)).evalP H (calcSelfB env) ρ1
        (wb (encSB env ms σ0) B) = .ok (.atom (.num ((((env.roots.length : Int) - 1 : Int)) : Rat)), wb (encSB env ms σ0) B) := by
      rw [← natCast_sub_one]
      simp [Expr.evalP, hρr, arithP, arith, arithTime, Atom.asNum?, bind, Except.bind, pure, Except.pure]
    have hm1 : (Expr.num (-1)).evalP H (calcSelfB env) ρ1 (wb (encSB env ms σ0) B) =
        .ok (.atom (.num (((-1 : Int)) : Rat)), wb (encSB env ms σ0) B) := by
      have : (((-1 : Int)) : Rat) = -1 := by decide
      rw [this]; rfl
    have := evalP_range3 H (calcSelfB env) ρ1 (wb (encSB env ms σ0) B) _ _ _ _ _ _ hlo hm1 hm1 (by decide)
    rw [rangeList_down] at this
    exact this
  rw [bcPost_shape, execBlockP_cons, execP_forIn (hit := hit)]
  have hL := forLoopP_pass H (calcSelfB env) rec (encSB env ms) B "i" bcParts.body (downIdx env.roots.length)
    (fun i => env.roots.getD (env.roots.length - 1 - i) 0)
    (fun σ r => bwdPass env (env.n + 1) [] σ r env.bound)
    (fun ρ => ρ.get? "backward" = some (.atom (.ref w)) ∧
      ρ.get? "backward_roots" = some (.list (env.roots.map Atom.ref)))
    (fun σ => ∀ k, calOf σ.res k = calOf res0 k)
    (fun ρ v h => ⟨by rw [Env.get?_set, if_neg (by decide)]; exact h.1,
      by rw [Env.get?_set, if_neg (by decide)]; exact h.2⟩)
    (fun σ u σ' hi h => hspec.inv σ σ' u env.bound hi h)
    (List.range env.roots.length)
    (fun ρ σ i hi hρ hinv hn => by
      have hi' : i < env.roots.length := List.mem_range.1 hi
      have hlt : env.roots.length - 1 - i < env.roots.length := by omega
      have hr := hspec.run σ (env.roots.getD (env.roots.length - 1 - i) 0) env.bound B hinv hn
      have hρr' : (Env.set ρ "i" (.atom (downIdx env.roots.length i))).get? "backward_roots" =
          some (.list (env.roots.map Atom.ref)) := by rw [Env.get?_set, if_neg (by decide)]; exact hρ.2
      have hnn : ¬ (((env.roots.length - 1 - i : Nat) : Int) < 0) := by omega
      have hget : (env.roots.map Atom.ref)[env.roots.length - 1 - i]? =
          some (Atom.ref (env.roots.getD (env.roots.length - 1 - i) 0)) := by
        rw [List.getElem?_map, List.getD_eq_getElem?_getD, List.getElem?_eq_getElem hlt]; rfl
      have hρi : (Env.set ρ "i" (.atom (downIdx env.roots.length i))).get? "i" =
          some (.atom (downIdx env.roots.length i)) := by rw [Env.get?_set, if_pos rfl]
      simp only [bcParts, src_Bwd_calc, execBlockP_cons, execBlockP_nil, Stmt.execP, Expr.evalP, hρi, hρr']
      simp only [downIdx, asInt_intCast, hnn, if_false, Int.toNat_natCast, hget, calcSelfB_end, bind, Except.bind, pure,
        Except.pure, hr]
      rcases bwdPass env (env.n + 1) [] σ (env.roots.getD (env.roots.length - 1 - i) 0) env.bound with e | σ' <;> rfl)
    ρ1 σ0 ⟨hρ1, hρr⟩ hσ0
  rw [reverse_eq_map_range] at hL
  rcases hrun : passList (fun σ r => bwdPass env (env.n + 1) [] σ r env.bound) σ0 env.roots.reverse with e | σ1
  · rw [hrun] at hne hL
    simp only [hL hne]
  rw [hrun] at hL
  obtain ⟨ρ2, hx, hρ2⟩ := hL (fun h => by cases h)
  simp only [hx]
  rw [execBlockP_cons]
  simp only [Stmt.execP, Expr.evalP, hρ2.1, pure, Except.pure]

/-- STAGE 4 (backward).  `BackwardScheduler.calc(project)` = the model's `backwardCalc`, PROVIDED that the model's run
    does not end in RecursionError; the store is the encoding `encSB` (task objects with `successors`). -/
theorem interpBwdCalc_eq (hmem : members env = some mem)
    (hms : ∀ u, (env.info u).milestone = (ms u && (env.info u).children.isEmpty))
    (fuel wfuel pfuel : Nat) (hf : env.n + 2 ≤ fuel) (hw : Extracted.bwdShiftMaxSteps < wfuel) (hp : env.n + 1 ≤ pfuel)
    (f0 : Uid → Fields) (res0 : List (Option Nat × Cal)) (rows0 : List Row) (done0 : List Uid) (B0 : List (List Atom))
    (hne : backwardCalc env f0 res0 ≠ .error (.crash .recursion)) :
    match backwardCalc env f0 res0 with
    | .ok out => ∃ σ B, interpBwdCalc env mem w fuel wfuel (calRef res0) pfuel
          (wb (encSB env ms { f := f0, rows := rows0, done := done0, res := res0, reads := 0 }) B0) =
          .ok (.atom (.ref w), wb (encSB env ms σ) B) ∧ out = { f := σ.f, rows := σ.rows, res := σ.res }
    | .error e => interpBwdCalc env mem w fuel wfuel (calRef res0) pfuel
          (wb (encSB env ms { f := f0, rows := rows0, done := done0, res := res0, reads := 0 }) B0) = .error e := by
  unfold interpBwdCalc
  rw [callP_succ]
  generalize callP (calcHB env mem w fuel wfuel (calRef res0) pfuel) (calcSelfB env) src_Bwd_calc_params src_Bwd_calc 0 = rec
  simp only [src_Bwd_calc_params, bindParams, pure, Except.pure, bind, Except.bind]
  have hρ0 : Env.get? [("project", Val.atom (Atom.ref w))] "project" = some (.atom (.ref w)) := rfl
  generalize [("project", Val.atom (Atom.ref w))] = ρ0 at hρ0
  have hpre := bcPre_ok env ms mem w fuel wfuel pfuel hf (calRef res0) rec ρ0 hρ0 f0 res0
    (wb (encSB env ms { f := f0, rows := rows0, done := done0, res := res0, reads := 0 }) B0) rfl rfl rfl
  unfold backwardCalc bwdPrecheck bwdRun at hne ⊢
  simp only [hmem, bind, Except.bind, pure, Except.pure] at hne hpre ⊢
  rw [src_Bwd_calc_split, execBlockP_append]
  have hpost := fun ρ1 hρ1 hρr B => bcPost_ok env ms mem w fuel wfuel pfuel hw hp hms res0 rec ρ1 hρ1 hρr
    { f := prepare env f0 mem, rows := [], done := [], res := res0, reads := 0 } (fun _ => rfl) B
  cases hiso : isolationOk env f0 mem with
  | false =>
    simp only [hiso, Bool.not_false, if_true, throw, throwThe, MonadExceptOf.throw] at hpre ⊢
    simp only [hpre (fun h => by cases h)]
  | true =>
    simp only [hiso, Bool.not_true, Bool.false_eq_true, if_false] at hne hpre ⊢
    rcases hloops : checkLoops env mem with e | u
    · simp only [hloops] at hne hpre ⊢
      simp only [hpre (fun h => hne (by cases h; rfl))]
      rfl
    simp only [hloops] at hne hpre ⊢
    obtain ⟨ρ1, B, hx, hρ1, hρr⟩ := hpre (fun h => by cases h)
    simp only [hx]
    have hpo := hpost ρ1 hρ1 hρr B
    rcases hrun : passList (fun σ r => bwdPass env (env.n + 1) [] σ r env.bound)
        { f := prepare env f0 mem, rows := [], done := [], res := res0, reads := 0 } env.roots.reverse with e | σ1
    · rw [hrun] at hne hpo
      simp only [hpo (by simpa using hne)]
      rfl
    · rw [hrun] at hpo
      simp only [hpo (fun h => by cases h)]
      exact ⟨σ1, B, rfl, rfl⟩
end


/-! ### stage 1: concrete runs (kernel-checked) -/
namespace Check

def ti (parent : Option Uid) (children preds : List Uid) (member : Bool := true) : TaskInfo :=
  { tid := 0, parent := parent, children := children, preds := preds, succs := [], member := member,
    resource := none, milestone := false, minStart := none }
def nof : Fields := { start := none, end_ := none, est := none, spent := none }
def clk : Nat → Time := fun k => 19000 + (k : Rat) / 24
def mk (n : Nat) (info : Uid → TaskInfo) (roots : List Uid) : Pj.Env :=
  { n := n, info := info, roots := roots, balance := true, defaultEst := 0, clock := clk, bound := 19000 }
def st0 (env : Pj.Env) (f : Uid → Fields) : PState :=
  encS env (fun _ => false) { f := f, rows := [], done := [], res := [], reads := 0 }
def memOf (env : Pj.Env) : List Uid := (members env).getD []

/-- the WBS object -/
def W : Nat := 1000

def listOf : Res (Val × PState) → Res (List Atom)
  | .ok (.list l, _) => .ok l
  | .ok _ => .error stuck
  | .error e => .error e

/-- all five translated functions agree with the model on `env`, `f` (fuel of the interpreter = that of the model) -/
def agree (env : Pj.Env) (f : Uid → Fields) : Prop :=
  let mem := memOf env
  let st := st0 env f
  unit (interpIsolation env mem W [.ref W] st) = okIf (isolationOk env f mem)
  ∧ (List.range env.n).all (fun t =>
      listOf (interpLeaves env mem W [.ref t] st) = .ok (((leavesOf env t).getD []).map Atom.ref)
      && listOf (interpWaitsFor env mem W [.ref t] st) = .ok ((waitsFor env t).map Atom.ref))
  ∧ unit (interpCheckLoops env mem W (env.n + 2) [.ref W] st) = checkLoops env mem
  ∧ (interpCheckFuture env mem W [.ref W] st).map (fun p => p.2.reads) = (okIf (futureOk (env.clock 0) f mem)).map (fun _ => 1)

instance (env f) : Decidable (agree env f) := by unfold agree; infer_instance

/-- an isolated WBS: summary 0 with leaves 1, 2 (2 after 1), root leaf 3 after the summary 0 -/
def e1 : Pj.Env := mk 4 (fun u => match u with
  | 0 => ti none [1, 2] []
  | 1 => ti (some 0) [] []
  | 2 => ti (some 0) [] [1]
  | _ => ti none [] [0]) [0, 3]
example : memOf e1 = [0, 1, 2, 3] := by decide +kernel
example : agree e1 (fun _ => nof) := by decide +kernel
example : checkLoops e1 (memOf e1) = .ok () := by decide +kernel

/-- an outside predecessor (4) of the leaf 1: without dates, with a start only, with both dates -/
def e2 : Pj.Env := mk 5 (fun u => match u with
  | 0 => ti none [1, 2] []
  | 1 => ti (some 0) [] [4]
  | 2 => ti (some 0) [] [1]
  | 3 => ti none [] [0]
  | _ => ti none [] [] (member := false)) [0, 3]
example : isolationOk e2 (fun _ => nof) (memOf e2) = false := by decide +kernel
example : agree e2 (fun _ => nof) := by decide +kernel
example : agree e2 (fun u => if u = 4 then { nof with start := some 18000 } else nof) := by decide +kernel
example : agree e2 (fun u => if u = 4 then { nof with start := some 18000, end_ := some 18001 } else nof) := by
  decide +kernel
example : isolationOk e2 (fun u => if u = 4 then { nof with start := some 18000, end_ := some 18001 } else nof)
    (memOf e2) = true := by decide +kernel

/-- a plain dependency cycle 0 -> 1 -> 2 -> 0 (it cannot be built through the API; the model check has to agree) -/
def e3 : Pj.Env := mk 3 (fun u => match u with
  | 0 => ti none [] [2]
  | 1 => ti none [] [0]
  | _ => ti none [] [1]) [0, 1, 2]
example : checkLoops e3 (memOf e3) = .error .runtime := by decide +kernel
example : agree e3 (fun _ => nof) := by decide +kernel

/-- a cycle that closes through the hierarchy: the leaf 1 of the summary 0 waits for the leaf 2, and 2 waits for
    the summary 0 (no cycle among the predecessor links themselves) -/
def e4 : Pj.Env := mk 3 (fun u => match u with
  | 0 => ti none [1] []
  | 1 => ti (some 0) [] [2]
  | _ => ti none [] [0]) [0, 2]
example : (memOf e4).foldlM (fun val t => loopsFrom (fun u => (e4.info u).preds) (e4.n + 2) [] val t) [] =
    .ok [0, 2, 1] := by decide +kernel
example : checkLoops e4 (memOf e4) = .error .runtime := by decide +kernel
example : agree e4 (fun _ => nof) := by decide +kernel

/-- a deeper hierarchy, a diamond of dependencies, a predecessor on a summary: no cycle -/
def e5 : Pj.Env := mk 7 (fun u => match u with
  | 0 => ti none [1, 4] []
  | 1 => ti (some 0) [2, 3] []
  | 2 => ti (some 1) [] []
  | 3 => ti (some 1) [] [2]
  | 4 => ti (some 0) [] [1]
  | 5 => ti none [] [3, 4]
  | _ => ti none [] [0, 5]) [0, 5, 6]
example : agree e5 (fun _ => nof) := by decide +kernel
example : checkLoops e5 (memOf e5) = .ok () := by decide +kernel
example : waitsFor e5 6 = [2, 3, 4, 5] := by decide +kernel

/-- a fixed end in the future (task 2) / exactly now / in the past -/
example : agree e1 (fun u => if u = 2 then { nof with end_ := some 19001 } else nof) := by decide +kernel
example : futureOk (e1.clock 0) (fun u => if u = 2 then { nof with end_ := some 19001 } else nof) (memOf e1) = false := by
  decide +kernel
example : agree e1 (fun u => if u = 2 then { nof with end_ := some 19000 } else nof) := by decide +kernel
example : agree e1 (fun u => if u = 2 then { nof with start := some 18000, end_ := some 18999 } else nof) := by
  decide +kernel

/-- not enough fuel for the recursion (a chain 0 <- 1 <- 2 <- 3 with fuel 3): RecursionError on both sides -/
def e6 : Pj.Env := mk 4 (fun u => match u with
  | 0 => ti none [] []
  | 1 => ti none [] [0]
  | 2 => ti none [] [1]
  | _ => ti none [] [2]) [3, 2, 1, 0]
example : agree e6 (fun _ => nof) := by decide +kernel
example : unit (interpLoopsFrom e6 (memOf e6) W 3 [.ref 3, .box 0, .box 1, .fn fn_lambda_0]
    { st0 e6 (fun _ => nof) with boxes := [[], []] }) = .error (.crash .recursion) := by decide +kernel
example : loopsFrom (fun u => (e6.info u).preds) 3 [] [] 3 = .error (.crash .recursion) := by decide +kernel


/-- the hierarchy matters for `_waits_for`: the leaf 1 has its own predecessor 3 and inherits the predecessor 2 of
    its summary 0 (own ones first) -/
def e7 : Pj.Env := mk 4 (fun u => match u with
  | 0 => ti none [1] [2]
  | 1 => ti (some 0) [] [3]
  | _ => ti none [] []) [0, 2, 3]
example : waitsFor e7 1 = [3, 2] := by decide +kernel
example : agree e7 (fun _ => nof) := by decide +kernel

/-- a cycle that is only seen through `all_parents`: the leaf 1 inherits the predecessor 2 of its summary 0, and 2
    waits for 1 -/
def e8 : Pj.Env := mk 3 (fun u => match u with
  | 0 => ti none [1] [2]
  | 1 => ti (some 0) [] []
  | _ => ti none [] [1]) [0, 2]
example : checkLoops e8 (memOf e8) = .error .runtime := by decide +kernel
example : agree e8 (fun _ => nof) := by decide +kernel

/-! `calc` (stage 4): the interpreted method against `forwardCalc` / `backwardCalc`, observed on the fields of the
    tasks `0 … n-1`, the ledger and the resource table -/

def outView (n : Nat) (o : Output) : List Fields × List Row × List (Option Nat × Cal) :=
  ((List.range n).map o.f, o.rows, o.res)
def stView (n : Nat) (calR : Nat → Cal) (st : PState) : List Fields × List Row × List (Option Nat × Cal) :=
  let σ := decS calR st
  ((List.range n).map σ.f, σ.rows, σ.res)
def wfF : Nat := Extracted.fwdShiftMaxSteps + 1
def wfB : Nat := Extracted.bwdShiftMaxSteps + 1

def agreeF (env : Pj.Env) (ms : Uid → Bool) (f : Uid → Fields) (res0 : List (Option Nat × Cal)) : Prop :=
  (interpFwdCalc env (memOf env) W (env.n + 2) wfF (calRef res0) (env.n + 1)
      (encS env ms { f := f, rows := [], done := [], res := res0, reads := 0 })).map
    (fun p => stView env.n (calRef res0) p.2) = (forwardCalc env f res0).map (outView env.n)
def agreeB (env : Pj.Env) (ms : Uid → Bool) (f : Uid → Fields) (res0 : List (Option Nat × Cal)) : Prop :=
  (interpBwdCalc env (memOf env) W (env.n + 2) wfB (calRef res0) (env.n + 1)
      (encSB env ms { f := f, rows := [], done := [], res := res0, reads := 0 })).map
    (fun p => stView env.n (calRef res0) p.2) = (backwardCalc env f res0).map (outView env.n)
instance (env ms f res0) : Decidable (agreeF env ms f res0) := by unfold agreeF; infer_instance
instance (env ms f res0) : Decidable (agreeB env ms f res0) := by unfold agreeB; infer_instance

def tj (parent : Option Uid) (children preds succs : List Uid) (member : Bool := true) (resource : Option Nat := some 0)
    (milestone : Bool := false) : TaskInfo :=
  { tid := 0, parent := parent, children := children, preds := preds, succs := succs, member := member,
    resource := resource, milestone := milestone, minStart := none }

/-- summary 0 with leaves 1, 2 (2 after 1), root leaf 3 after the summary, a milestone 4 after 3 -/
def c1 : Pj.Env := mk 5 (fun u => match u with
  | 0 => tj none [1, 2] [] [3] (resource := none)
  | 1 => tj (some 0) [] [] [2]
  | 2 => tj (some 0) [] [1] []
  | 3 => tj none [] [0] [4] (resource := some 1)
  | _ => tj none [] [3] [] (milestone := true)) [0, 3, 4]
def fc1 : Uid → Fields := fun u =>
  if u = 1 then { nof with est := some 12 } else if u = 2 then { nof with est := some 20, spent := some 4 }
  else if u = 3 then { nof with est := some 8 } else nof
def ms1 : Uid → Bool := fun u => u = 4
example : agreeF c1 ms1 fc1 [] := by decide +kernel
example : agreeB c1 ms1 fc1 [] := by decide +kernel
example : agreeF c1 ms1 fc1 [(some 0, .weekly none none [6, 6, 6, 6, 6, 0, 0])] := by decide +kernel
example : (forwardCalc c1 fc1 []).map (fun o => (o.rows.length, o.res.length)) = .ok (6, 3) := by decide +kernel
/-- a fixed end in the future: RuntimeError from `calc` (forward only) -/
example : agreeF c1 ms1 (fun u => if u = 1 then { nof with end_ := some 19001 } else fc1 u) [] := by decide +kernel
example : (forwardCalc c1 (fun u => if u = 1 then { nof with end_ := some 19001 } else fc1 u) []).map (outView 5) =
    .error .runtime := by decide +kernel
example : agreeB c1 ms1 (fun u => if u = 1 then { nof with end_ := some 19001 } else fc1 u) [] := by decide +kernel
/-- the cycle through the hierarchy (e4), an outside predecessor without dates (e2): RuntimeError -/
example : agreeF e4 (fun _ => false) (fun _ => nof) [] := by decide +kernel
example : agreeB e4 (fun _ => false) (fun _ => nof) [] := by decide +kernel
example : agreeF e2 (fun _ => false) (fun _ => nof) [] := by decide +kernel
example : agreeB e2 (fun _ => false) (fun _ => nof) [] := by decide +kernel
/-- an outside predecessor WITH dates: it keeps them and delays its successor -/
example : agreeF e2 (fun _ => false)
    (fun u => if u = 4 then { nof with start := some 19003, end_ := some 19004 } else { nof with est := some 8 }) [] := by
  decide +kernel

end Check


/-
  LIMITATIONS.
  * Library objects are abstracted: `task.children`, `task.predecessors`, `task.all_children`, `task.all_parents`,
    `wbs.tasks`, `wbs.roots` are PyLite list values (in Python: `_ChildrenList`, `_PredecessorsList`,
    `_ImmutableTaskList` - list-like views).  E.g. `[leaf] + leaf.all_parents` (without `list(...)`) is accepted and
    proved, although Python's `list + _ImmutableTaskList` depends on task.py.  The meaning of the primitives is the
    model's, by definition of `calcPrim` (`all_children` = `descF … (env.n + 1)` with the empty list on exhaustion,
    `clone()` = the same store): what task.py / wbs.py do is tied elsewhere.
  * A set is the list of the items added (with repetitions); only `in` / `not in` / `add` are accepted on it.  Boxes
    are never freed (the store only grows); `callP_wb` shows that this cannot be observed by the passes.
  * `raise RuntimeError(...)`: the arguments are not evaluated (the translator only accepts arguments whose evaluation
    cannot raise for task objects: constants, `str(...)`, `+`, f-strings, lists / comprehensions of `.id` / `.name`).
  * `ledgerNew` / `calcNew`: the ledger and `calculated` are interpreter state, as in Lemmas/PassSrc.lean; the
    translator checks that the objects `calc` creates are the ones passed to the pass, and that the result is exactly
    `Schedule(<the clone>, list(self.__resources.values()), ResourceUsageReport(<ledger>.rows))` - the theorems
    then describe the returned `Schedule` by the final store (`σ.f`, `σ.rows`, `σ.res`).
  * `BackwardScheduler.calc` runs with `self` = `calcSelfB env` (`__end`), the backward pass with `passSelf env` as
    in Lemmas/PassSrcBwd.lean; `__backward_pass` cannot read `__end` / `__start` (tools/extract_pass.py).
  * The proviso of stages 3 / 4 (`≠ .error (.crash .recursion)`) covers: `members env = none` is excluded by
    `hmem`; a `loopsFrom` that runs out of its fuel `env.n + 2`; a pass that runs out of fuel or meets a task in
    progress (Lemmas/PassSrc.lean).  Slot semantics of `estimate` / `spent` as in Lemmas/PassSrc.lean.

  NEGATIVE SANITY CHECK (not compiled; performed 2026-09-27 with /tmp/leanwork/mut/run_mut.py: the text of a scratch
  copy of the snapshot schedule.py is edited, tools/extract_calc.py is run on the mutated text, its output written to
  Extracted/CalcSrc.lean, then `lake build PjVerif.Lemmas.CalcSrc`; afterwards the file was regenerated from the real
  source and the build succeeded again).  `Check …` = kernel-checked examples that fail too.  Every semantic mutation
  is a Miss of the translator or breaks a lemma:

  A `_validate_graph_isolation`
    `id(pr) not in members` -> `pr.id not in members`                   MISS (attribute `id`)
    `not pr.start or not pr.end` -> `… and …`                           interpIsolation_eq FAILS; Check agree e2
    `not pr.end` dropped                                                interpIsolation_eq FAILS; Check agree e2
    `id(pr) not in members` -> `id(pr) in members`                      interpIsolation_eq FAILS; Check agree e1 … e6, agreeF/B
    `members` built from `project.roots`                                interpIsolation_eq FAILS; Check agree e1 e2 e5, agreeF/B c1
    `for pr in t.predecessors` -> `t.successors`                        interpIsolation_eq FAILS; Check agree e1 … e6, agreeF e2
  B `_leaves`, `_waits_for`
    `_leaves` over `task.children` instead of `task.all_children`       interpLeaves_eq FAILS; Check agree e5
    `_leaves` of a leaf returns `[]`                                    interpLeaves_eq FAILS; Check agree e1 … e6, agreeF/B e4
    `if len(t.children) == 0` filter dropped                            interpLeaves_eq FAILS; Check agree e5
    `all_parents` dropped from `_waits_for`                             interpWaitsFor_eq FAILS; Check agree e7 e8
    `list(leaf.all_parents) + [leaf]` (parents first)                   interpWaitsFor_eq FAILS; Check agree e7
    `for p in x.successors`                                             interpWaitsFor_eq FAILS; Check agree e1 … e6, agreeF/B
    `for w in [p]` (no `_leaves`)                                       interpWaitsFor_eq FAILS; Check agree e1 e2 e4 e5, agreeF/B e4
  C `_check_loops_from_task`, `_check_loops`
    `any(t is task …)` -> `task.id in [t.id for t in visited_tasks]`    MISS (`in` on a value list of `.id`)
    `any(t is task …)` -> `any(t is not task …)`                        c2_ok FAILS; Check agree e2 e6 e7, agreeF e2
    `visited_tasks.pop()` dropped                                       src_check_loops_from_task_shape, …, callP_loopsFrom FAIL
                                                                          (no example fails: the tasks left on the list are
                                                                           validated, so the result is the same - the proof is
                                                                           about the text)
    `validated.add(id(task))` dropped                                   add_ok FAILS (the result is the same, the search exponential)
    `if id(task) in validated: return` dropped                          src_check_loops_from_task_shape, … FAIL
    `if id(task) not in validated: return`                              c1_ok FAILS; Check agree e3 e4 e8, agreeF/B e4
    `visited_tasks.append(task)` dropped / moved after the loop         …_shape, …, callP_loopsFrom FAIL; Check agree e3 e4 e8 (all)
    `validated.add(id(task))` also before the loop                      …_shape, … FAIL; Check agree e3 e4 e8, agreeF/B e4
    the recursion passes `[]` instead of `visited_tasks`                body_ok FAILS; Check agree e3 e4 e8, agreeF/B e4
    the recursion passes `task` instead of `s`                          body_ok FAILS; Check agree e1 e2 e5 e6 e7, agreeF/B c1
    `for s in task.predecessors` instead of `waits_for(task)`           callP_loopsFrom FAILS; Check agree e4 e8, agreeF/B e4
    second `validated = set()` of `_check_loops` dropped                src_check_loops_shape, interpCheckLoops_spec FAIL; Check agree e4 e8
    `if len(t.children) == 0` of the second pass dropped                interpCheckLoops_spec FAILS (same result: a summary is never waited for)
    `lambda x: x.predecessors` -> `lambda x: x.successors`              clftH_fn_lambda FAILS; Check agree e1 … e8, agreeF
    second pass with `_leaves` instead of `_waits_for`                  interpCheckLoops_spec FAILS; Check agree e1 e2 e4 … e8, agreeF/B
    first pass dropped                                                  interpLambda0, clftH…, src_check_loops_shape, … FAIL; Check (all)
    one shared `visited = []` for all calls                             MISS (argument for the list parameter)
    `validated = []` (a list) in `_check_loops`                         MISS (argument for the set parameter)
    `len(validated)` used                                               MISS (only `in` / `add` on a set)
  D `__check_no_end_dates_in_future`
    `t.end > now` -> `t.end >= now`                                     interpCheckFuture_eq FAILS; Check agree e1
    `t.end is not None and` dropped                                     interpCheckFuture_eq FAILS; Check agree e1 … e8, agreeF
    `t.end` -> `t.start`                                                interpCheckFuture_eq FAILS; Check agree e1, agreeF c1
    `datetime.now()` read for every task                                interpCheckFuture_eq FAILS; Check agree e1
  E `calc`, `__prepare_tasks`
    fwd: `_check_loops(wbs)` dropped                                    src_Fwd_calc_shape, fcPre_shape, … FAIL; Check agreeF e4
    fwd: `_check_loops` before `_validate_graph_isolation`              src_Fwd_calc_shape, fcPre_shape FAIL
    fwd: `__check_no_end_dates_in_future` dropped                       src_Fwd_calc_shape, fcPre_shape, … FAIL; Check agreeF c1
    fwd: the future check after `__prepare_tasks`                       src_Fwd_calc_shape, fcPre_shape FAIL
    fwd: `__prepare_tasks` dropped                                      src_Fwd_calc_shape, fcPre_shape, … FAIL; Check agreeF e2
    fwd: `__prepare_tasks(wbs)` (the original, not the clone)           src_Fwd_calc_shape, fcPre_shape FAIL
    fwd: the pass gets `datetime.now()` instead of `self.__start`       fcPost_ok FAILS
    fwd: `calculated = []` inside the loop / missing                    MISS
    fwd: `for t in reversed(forward.roots)`                             MISS
    fwd: `for t in forward.tasks`                                       fcPost_ok FAILS
    fwd: `ResourceUsageReport([])` in the result                        MISS (return of calc)
    bwd: `_validate_graph_isolation` dropped                            bcPre_shape, bcPost_shape, bcPost_ok FAIL; Check agreeB e2
    bwd: `range(len(backward_roots))`                                   MISS (range with one argument)
    bwd: `range(len(backward_roots) - 1, 0, -1)` (root 0 skipped)       bcPost_ok FAILS; Check agreeB c1
    bwd: `range(len(backward_roots), -1, -1)` (IndexError)              bcPost_ok FAILS; Check agreeB c1
    bwd: `backward_roots[0]` in the loop                                bcPost_ok FAILS
    bwd: `self.__check_no_end_dates_in_future(project)` added           MISS (no such method in BackwardScheduler)
    bwd: a new `_ResourceUsage()` for every root                        MISS
    `__prepare_tasks`: `t.spent` not reset / leaves instead of summaries   src_calc_prepare_shape FAILS; Check agreeB c1

  Harmless rewrites that still build: comments, a docstring, blank lines; `0 == len(task.children)`; another message in
  `raise RuntimeError(...)`; `return None`; the ledger variable of `calc` renamed (all the same term);
  `not (pr.start and pr.end)`; `[leaf] + leaf.all_parents` without `list(...)`; the comprehension variable `w` of
  `_waits_for` renamed.  Harmless rewrites that break a proof or are a Miss (the proofs fix the names of the locals
  and the order of the statements): the loop variable `pr` renamed (interpIsolation_eq), the local `forward` / `validated`
  renamed (…_shape), `calculated = []` before the ledger (fcPre_shape), `len(task.children) < 1` (interpLeaves_eq),
  `set(id(task) for task in …)` with a generator instead of a list (Miss).
-/

end Pj.CalcSrc
