/-
  Lemmas/CsvSrcCheck.lean — the WBSs of the kernel-checked runs of the CSV tie (see CsvSrcCheckA / B / C.lean).
-/
import PjVerif.Lemmas.CsvSrc

deriving instance DecidableEq for Except
namespace Pj.CsvSrc.Check
open Pj.PyLite Pj.Extracted.Csv Pj.Csv Pj.CsvSrc

def FF : Nat := 8

def day (y : Int) (m d : Nat) : Time := ((daysFromCivil y m d : Int) : Rat)

/-- nested tasks, ids 0 and negative, None name / resource, an empty name, predecessor lists, a milestone, dates,
    min_start, fractional estimate / spent, sparse custom attributes with the falsy values 0 / False and a text that needs
    quoting -/
def w1 : WbsD :=
  { roots := [1, 5]
    tasks := [
      { id := 0, name := some "Root A".toList, children := [2, 3], start := some (day 2024 1 15), end_ := some (day 2024 2 1),
        custom := [("prio", .num 0)] },
      { id := -3, resource := some "bob".toList, parent := some 1, estimate := some (5/2), spent := some (1/2),
        minStart := some (day 1999 12 31), custom := [("flag", .bool false), ("note", strA "a;b \"q\"\nz".toList)] },
      { id := 7, name := some "M".toList, milestone := true, parent := some 1, preds := [2], children := [4],
        start := some (day 2068 12 31), custom := [("ratio", .num 0), ("when", .time (day 2024 3 9))] },
      { id := 12, name := some [], parent := some 3, preds := [2, 5], custom := [("prio", .num 3), ("opt", .none)] },
      { id := 5, estimate := some 8, spent := some 0 } ] }

/-- no task -/
def w0 : WbsD := { roots := [], tasks := [] }

/-- a single task without anything -/
def w2 : WbsD := { roots := [1], tasks := [{ id := 1 }] }

end Pj.CsvSrc.Check
