/-
  Lemmas/TaskSrcCheckB.lean — stage 1 of the translated tie for task.py, stage B: kernel-checked concrete runs of the
  translated source (Extracted/TaskSrc.lean) against the graph model.  The graphs and the comparison are defined in
  Lemmas/TaskSrcCheck.lean; see Lemmas/TaskSrc.lean for the setting.  (The checks are spread over several files so
  that `lake` builds them in parallel.)
-/
import PjVerif.Lemmas.TaskSrcCheck
namespace Pj.TaskSrc
open Pj.PyLite Pj.Extracted
namespace Check

/-! #### stage B: the `parent` setter -/

def agreeParent (s : G) (t : Uid) (p : Option Uid) : Prop :=
  observe s.n (interpSetParent F t p (encSt s)) = expect s.n (setParent s t p)
instance (s t p) : Decidable (agreeParent s t p) := by unfold agreeParent; infer_instance

/-- EVERY call `t.parent = p` on the three graphs (13 × 14 + 7 × 8 + 3 × 4 calls): accepted calls (a move inside the
    WBS, a detached task entering a WBS, `None` for a member / a detached task / a root task, the same parent again,
    the hidden root as the new parent) and every rejection reason (ids shared between the trees, another WBS, the task
    itself, a descendant, a task linked with the new ancestors, the hidden root as the task); on `g3` the runs end in
    RecursionError on both sides -/
def parentAgree (s : G) : Bool :=
  allU s (fun t => decide (agreeParent s t none) && allU s (fun p => decide (agreeParent s t (some p))))

example : parentAgree g1 = true := by decide +kernel
example : parentAgree g2 = true := by decide +kernel
example : parentAgree g3 = true := by decide +kernel

-- some of them one by one (what the model says is checked too)
example : (setParent g1 3 (some 1)).2 = none ∧ agreeParent g1 3 (some 1) := by decide +kernel          -- a move inside the WBS
example : (setParent g1 10 (some 3)).2 = none ∧ (setParent g1 10 (some 3)).1.owner 10 = some 0 ∧
    agreeParent g1 10 (some 3) := by decide +kernel                                                     -- entering a WBS
example : (setParent g1 2 none).2 = none ∧ (setParent g1 2 none).1.parent 2 = some 0 ∧ agreeParent g1 2 none := by
  decide +kernel                                                                                        -- a member: a root task
example : (setParent g1 5 none).2 = none ∧ (setParent g1 5 none).1.parent 5 = none ∧ agreeParent g1 5 none := by
  decide +kernel                                                                                        -- a detached task
example : (setParent g1 2 (some 3)).2 = some .runtime ∧ agreeParent g1 2 (some 3) := by decide +kernel  -- linked
example : (setParent g1 1 (some 2)).2 = some .runtime ∧ agreeParent g1 1 (some 2) := by decide +kernel  -- a descendant
example : (setParent g1 9 (some 1)).2 = some .runtime ∧ agreeParent g1 9 (some 1) := by decide +kernel  -- another WBS
example : (setParent g1 5 (some 1)).2 = some .runtime ∧ agreeParent g1 5 (some 1) := by decide +kernel  -- shared id
example : (setParent g1 7 (some 12)).2 = some .runtime ∧ agreeParent g1 7 (some 12) := by decide +kernel -- shared id, no WBS
example : (setParent g1 0 none).2 = some .runtime ∧ agreeParent g1 0 none := by decide +kernel          -- the hidden root
example : (setParent g3 2 (some 0)).2 = some (.crash .recursion) ∧ agreeParent g3 2 (some 0) := by decide +kernel


/-! a state that violates `WF.once` - the children list of 1 names 2 twice - shows that the hypothesis `honce` of
    `interpSetParent_eq` cannot be dropped: for `2.parent = None` (2 a member of the WBS) Python removes 2 from the list
    of 1 twice (once before, once inside the inner `root.children.append(2)`), the model once.  The state is not
    reachable (C01); everywhere else on this graph the two agree. -/
def g4 : G := mk [
  { tid := emptyId, children := [1], owner := some 0 },
  { tid := 10, parent := some 0, children := [2, 2], owner := some 0 },
  { tid := 20, parent := some 1, owner := some 0 }]

example : ¬ agreeParent g4 2 none := by decide +kernel
example : ((setParent g4 2 none).1.children 1 = [2]) ∧
    (observe 3 (interpSetParent F 2 none (encSt g4))).map (fun r => r.2[1]?.bind (fun o => Env.get? o "children")) =
      .ok (some (refs [])) := by decide +kernel
example : allU g4 (fun t => allU g4 (fun p => decide (agreeParent g4 t (some p)))) = true := by decide +kernel
example : agreeParent g4 1 none ∧ agreeParent g4 0 none := by decide +kernel

end Check
end Pj.TaskSrc
