/-
  Lemmas/SchedC14.lean — helper lemmas for Props/C14.lean (pass-level reasoning on top of Lemmas/SchedPass.lean).
-/
import PjVerif.Lemmas.SchedPass
import PjVerif.Lemmas.Fuel
import PjVerif.Spec.Sched2
namespace Pj

/-! ### "never a crash" -/

/-- the result is `ok` or the diagnosis `runtime` -/
def NoCrash {α : Type} (r : Res α) : Prop := ∀ k, r ≠ .error (.crash k)

theorem NoCrash.ok {α : Type} (a : α) : NoCrash (.ok a : Res α) := fun _ h => by cases h

theorem NoCrash.pure {α : Type} (a : α) : NoCrash (pure a : Res α) := fun _ h => by cases h

theorem NoCrash.runtime {α : Type} : NoCrash (.error .runtime : Res α) := fun _ h => by cases h

theorem NoCrash.throw {α : Type} : NoCrash (throw .runtime : Res α) := fun _ h => by cases h

theorem NoCrash.bind {α β : Type} {x : Res α} {g : α → Res β} (hx : NoCrash x)
    (hg : ∀ a, x = .ok a → NoCrash (g a)) : NoCrash (x >>= g) := by
  cases x with
  | error e =>
    intro k h
    cases e with
    | runtime => cases h
    | crash k' => exact hx k' rfl
  | ok a => exact hg a rfl

theorem NoCrash.cases {α : Type} {r : Res α} (h : NoCrash r) : (∃ a, r = .ok a) ∨ r = .error .runtime := by
  cases r with
  | ok a => exact Or.inl ⟨a, rfl⟩
  | error e =>
    cases e with
    | runtime => exact Or.inr rfl
    | crash k => exact absurd rfl (h k)

theorem NoCrash.foldlM {α β : Type} (f : β → α → Res β) (l : List α) (P : β → Prop)
    (hstep : ∀ b a, a ∈ l → P b → NoCrash (f b a) ∧ ∀ b', f b a = .ok b' → P b') :
    ∀ b, P b → NoCrash (l.foldlM f b) := by
  induction l with
  | nil => intro b _; exact NoCrash.pure b
  | cons a l ih =>
    intro b hb
    rw [List.foldlM_cons]
    obtain ⟨h1, h2⟩ := hstep b a List.mem_cons_self hb
    refine NoCrash.bind h1 ?_
    intro b' hb'
    exact ih (fun b a ha => hstep b a (List.mem_cons_of_mem _ ha)) b' (h2 b' hb')

/-! ### a dead resource (C14, last clause) -/

theorem search_fwd_dead (cal : Cal) : ∀ (fuel : Nat) (t : Time),
    (∀ k : Nat, k < fuel → ∃ c, capR cal (t + (k : Rat)) = .ok c ∧ c ≤ 0) →
    search cal 1 fuel t = .error .runtime := by
  intro fuel
  induction fuel with
  | zero => intro t _; rfl
  | succ fuel ih =>
    intro t h
    obtain ⟨c, hc, hc0⟩ := h 0 (Nat.succ_pos _)
    have ht : t + ((0 : Nat) : Rat) = t := by simp [Rat.add_zero]
    rw [ht] at hc
    unfold search
    simp only [show ¬ ((1 : Int) < 0) by decide, if_false, hc, bind, Except.bind]
    rw [if_neg (by grind)]
    apply ih
    intro k hk
    obtain ⟨c', hc', hc0'⟩ := h (k + 1) (Nat.succ_lt_succ hk)
    refine ⟨c', ?_, hc0'⟩
    rw [← hc']
    congr 1
    simp
    grind

theorem search_bwd_dead (cal : Cal) : ∀ (fuel : Nat) (t : Time),
    (∀ k : Nat, k < fuel → ∃ c, capR cal (t - (k : Rat) - 1) = .ok c ∧ c ≤ 0) →
    search cal (-1) fuel t = .error .runtime := by
  intro fuel
  induction fuel with
  | zero => intro t _; rfl
  | succ fuel ih =>
    intro t h
    obtain ⟨c, hc, hc0⟩ := h 0 (Nat.succ_pos _)
    have ht : t - ((0 : Nat) : Rat) - 1 = t - 1 := by simp [Rat.sub_eq_add_neg, Rat.add_zero]
    rw [ht] at hc
    unfold search
    simp only [show ((-1 : Int) < 0) by decide, if_true, hc, bind, Except.bind]
    rw [if_neg (by grind)]
    apply ih
    intro k hk
    obtain ⟨c', hc', hc0'⟩ := h (k + 1) (Nat.succ_lt_succ hk)
    refine ⟨c', ?_, hc0'⟩
    rw [← hc']
    congr 1
    simp
    grind

theorem nearestFwd_dead (cal : Cal) (used : Int → Rat) (start : Time)
    (hdead : ∀ k : Nat, k < Extracted.maxDays → ∃ c, capR cal (midnight start + (k : Rat)) = .ok c ∧ c ≤ 0) :
    nearestFwd cal used start = .error .runtime := by
  unfold nearestFwd
  rw [search_fwd_dead cal _ _ hdead]
  rfl

theorem nearestBwd_dead (cal : Cal) (used : Int → Rat) (start : Time)
    (hdead : ∀ k : Nat, k < Extracted.maxDays → ∃ c, capR cal (midnight start - (k : Rat) - 1) = .ok c ∧ c ≤ 0) :
    nearestBwd cal used start = .error .runtime := by
  unfold nearestBwd
  rw [search_bwd_dead cal _ _ hdead]
  rfl

/-! ### soundness of the depth-first cycle check -/

/-- `S` is closed under `next` -/
def DClosed (next : Uid → List Uid) (S : List Uid) : Prop := ∀ x ∈ S, ∀ y ∈ next x, y ∈ S
/-- no node of `S` lies on a cycle -/
def DAcyc (next : Uid → List Uid) (S : List Uid) : Prop := ∀ x ∈ S, ¬ TC (fun a b => b ∈ next a) x x

theorem DClosed.reach {next : Uid → List Uid} {S : List Uid} (hc : DClosed next S) {x y : Uid} (hx : x ∈ S)
    (h : TC (fun a b => b ∈ next a) x y) : y ∈ S := by
  induction h with
  | single h => exact hc _ hx _ h
  | tail _ h ih => exact hc _ ih _ h

/-- what a successful (part of a) search guarantees about the validated set it returns -/
structure DfsOK (next : Uid → List Uid) (vis val v : List Uid) : Prop where
  closed : DClosed next v
  acyc : DAcyc next v
  sub : ∀ x ∈ val, x ∈ v
  fresh : ∀ x ∈ v, x ∈ val ∨ x ∉ vis

theorem DfsOK.refl {next : Uid → List Uid} {vis val : List Uid} (hc : DClosed next val) (ha : DAcyc next val) :
    DfsOK next vis val val := ⟨hc, ha, fun _ h => h, fun _ h => Or.inl h⟩

theorem DfsOK.trans {next : Uid → List Uid} {vis a b c : List Uid} (h1 : DfsOK next vis a b)
    (h2 : DfsOK next vis b c) : DfsOK next vis a c :=
  ⟨h2.closed, h2.acyc, fun x hx => h2.sub x (h1.sub x hx), fun x hx => by
    rcases h2.fresh x hx with h | h
    · exact h1.fresh x h
    · exact Or.inr h⟩

theorem dfs_fold_ok (next : Uid → List Uid) (vis : List Uid) (step : List Uid → Uid → Res (List Uid))
    (hstep : ∀ val s v, step val s = .ok v → DClosed next val → DAcyc next val → DfsOK next vis val v ∧ s ∈ v) :
    ∀ (ss : List Uid) (val v : List Uid), ss.foldlM step val = .ok v → DClosed next val → DAcyc next val →
      DfsOK next vis val v ∧ ∀ s ∈ ss, s ∈ v := by
  intro ss
  induction ss with
  | nil =>
    intro val v h hc ha
    cases h
    exact ⟨DfsOK.refl hc ha, fun s hs => by cases hs⟩
  | cons s ss ih =>
    intro val v h hc ha
    rw [List.foldlM_cons] at h
    cases h1 : step val s with
    | error e => rw [h1] at h; cases h
    | ok v1 =>
      rw [h1] at h
      obtain ⟨d1, hs1⟩ := hstep val s v1 h1 hc ha
      obtain ⟨d2, hs2⟩ := ih v1 v h d1.closed d1.acyc
      refine ⟨d1.trans d2, ?_⟩
      intro x hx
      rcases List.mem_cons.1 hx with rfl | hx
      · exact d2.sub _ hs1
      · exact hs2 x hx

theorem loopsFrom_ok (next : Uid → List Uid) : ∀ (fuel : Nat) (vis val : List Uid) (t : Uid) (v : List Uid),
    loopsFrom next fuel vis val t = .ok v → DClosed next val → DAcyc next val →
      DfsOK next vis val v ∧ t ∈ v := by
  intro fuel
  induction fuel with
  | zero => intro vis val t v h; cases h
  | succ fuel ih =>
    intro vis val t v h hc ha
    unfold loopsFrom at h
    split at h
    · rename_i hv
      cases h
      exact ⟨DfsOK.refl hc ha, List.contains_iff_mem.1 hv⟩
    · rename_i hv
      split at h
      · cases h
      · rename_i hvis
        have htval : t ∉ val := fun hc' => hv (List.contains_iff_mem.2 hc')
        have htvis : t ∉ vis := fun hc' => hvis (List.contains_iff_mem.2 hc')
        simp only [bind, Except.bind] at h
        split at h
        · cases h
        · rename_i v1 h1
          cases h
          obtain ⟨d, hs⟩ := dfs_fold_ok next (t :: vis) (fun val s => loopsFrom next fuel (t :: vis) val s)
            (fun val s v => ih (t :: vis) val s v) (next t) val v1 h1 hc ha
          have htv1 : t ∉ v1 := by
            intro hc'
            rcases d.fresh t hc' with h | h
            · exact htval h
            · exact h List.mem_cons_self
          refine ⟨⟨?_, ?_, ?_, ?_⟩, by simp⟩
          · intro x hx y hy
            rcases List.mem_append.1 hx with hx | hx
            · exact List.mem_append_left _ (d.closed x hx y hy)
            · simp only [List.mem_singleton] at hx
              subst hx
              exact List.mem_append_left _ (hs y hy)
          · intro x hx hcyc
            rcases List.mem_append.1 hx with hx | hx
            · exact d.acyc x hx hcyc
            · simp only [List.mem_singleton] at hx
              subst hx
              rcases TC.head_cases hcyc with h | ⟨y, hy, hrest⟩
              · exact htv1 (hs x h)
              · exact htv1 (d.closed.reach (hs y hy) hrest)
          · intro x hx
            exact List.mem_append_left _ (d.sub x hx)
          · intro x hx
            rcases List.mem_append.1 hx with hx | hx
            · rcases d.fresh x hx with h | h
              · exact Or.inl h
              · exact Or.inr (fun hc' => h (List.mem_cons_of_mem _ hc'))
            · simp only [List.mem_singleton] at hx
              subst hx
              exact Or.inr htvis

/-- the statement of `C14_loopsFrom_sound` -/
theorem loopsFrom_sound (next : Uid → List Uid) (fuel : Nat) (starts : List Uid) (val : List Uid)
    (h : starts.foldlM (fun v t => loopsFrom next fuel [] v t) [] = .ok val) :
    ∀ t ∈ starts, ¬ TC (fun a b => b ∈ next a) t t := by
  obtain ⟨d, hs⟩ := dfs_fold_ok next [] (fun v t => loopsFrom next fuel [] v t)
    (fun val s v => loopsFrom_ok next fuel [] val s v) starts [] val h
    (fun x hx => by cases hx) (fun x hx => by cases hx)
  intro t ht
  exact d.acyc t (hs t ht)

/-! ### the cycle check never crashes on a bounded relation -/

theorem loopsFrom_nocrash (next : Uid → List Uid) (n : Nat) (hb : ∀ a b, b ∈ next a → b < n) :
    ∀ (fuel : Nat) (vis val : List Uid) (t : Uid), vis.Nodup → (∀ x ∈ vis, x < n) → t < n →
      n + 2 ≤ fuel + vis.length → NoCrash (loopsFrom next fuel vis val t) := by
  intro fuel
  induction fuel with
  | zero =>
    intro vis val t hn hlt _ hf
    have := nodup_lt_length_le n vis hn hlt
    omega
  | succ fuel ih =>
    intro vis val t hn hlt ht hf
    unfold loopsFrom
    split
    · exact NoCrash.pure _
    · split
      · exact NoCrash.throw
      · rename_i hvis
        have htvis : t ∉ vis := fun hc' => hvis (List.contains_iff_mem.2 hc')
        refine NoCrash.bind ?_ (fun _ _ => NoCrash.pure _)
        refine NoCrash.foldlM _ _ (fun _ => True) ?_ val trivial
        intro b a ha _
        refine ⟨ih (t :: vis) b a (List.nodup_cons.2 ⟨htvis, hn⟩) ?_ (hb t a ha) (by simp; omega), fun _ _ => trivial⟩
        intro x hx
        rcases List.mem_cons.1 hx with rfl | hx
        · exact ht
        · exact hlt x hx

theorem loopsFold_nocrash (next : Uid → List Uid) (n : Nat) (hb : ∀ a b, b ∈ next a → b < n)
    (starts : List Uid) (hs : ∀ t ∈ starts, t < n) :
    NoCrash (starts.foldlM (fun v t => loopsFrom next (n + 2) [] v t) []) := by
  refine NoCrash.foldlM _ _ (fun _ => True) ?_ [] trivial
  intro b a ha _
  exact ⟨loopsFrom_nocrash next n hb (n + 2) [] b a List.nodup_nil (fun x hx => by cases hx) (hs a ha) (by simp),
    fun _ _ => trivial⟩

/-! ### total calendars: the loops fail only with `runtime` -/

/-- no query of the calendar raises -/
def CalT (cal : Cal) : Prop := ∀ t, ∃ v, capR cal t = .ok v

/-- all calendars of a resource table are total -/
def CalsOK (res : List (Option Nat × Cal)) : Prop := ∀ p ∈ res, CalT p.2

theorem defaultCal_total : CalT defaultCal := by
  intro t
  simp [defaultCal, capR, Cal.eval, bind, Except.bind, pure, Except.pure]

theorem resLookup_cals (res : List (Option Nat × Cal)) (k : Option Nat) (h : CalsOK res) :
    CalsOK (resLookup res k).1 ∧ CalT (resLookup res k).2 := by
  unfold resLookup
  cases hf : res.find? (fun p => p.1 == k) with
  | some p => exact ⟨h, h p (List.mem_of_find?_eq_some hf)⟩
  | none =>
    refine ⟨?_, defaultCal_total⟩
    intro p hp
    rcases List.mem_append.1 hp with hp | hp
    · exact h p hp
    · simp only [List.mem_singleton] at hp
      subst hp
      exact defaultCal_total

theorem search_nocrash (cal : Cal) (hc : CalT cal) (dir : Int) : ∀ (fuel : Nat) (t : Time),
    NoCrash (search cal dir fuel t) := by
  intro fuel
  induction fuel with
  | zero => intro t; exact NoCrash.throw
  | succ fuel ih =>
    intro t
    unfold search
    simp only
    have hj : ∀ u : Rat, NoCrash (if 0 < u then pure t else search cal dir fuel (t + (dir : Rat))) := by
      intro u
      split
      · exact NoCrash.pure _
      · exact ih _
    split
    · obtain ⟨v, hv⟩ := hc (t - 1); rw [hv]; exact NoCrash.bind (NoCrash.ok v) (fun u _ => hj u)
    · obtain ⟨v, hv⟩ := hc t; rw [hv]; exact NoCrash.bind (NoCrash.ok v) (fun u _ => hj u)

theorem nearestFwdLoop_nocrash (cal : Cal) (hc : CalT cal) (used : Int → Rat) (hu : ∀ d, 0 ≤ used d) :
    ∀ (k : Nat) (d : Time), NoCrash (nearestFwdLoop cal used k d) := by
  intro k
  induction k with
  | zero => intro d; exact NoCrash.throw
  | succ k ih =>
    intro d
    unfold nearestFwdLoop
    obtain ⟨c, hcd⟩ := hc d
    rw [hcd]
    refine NoCrash.bind (NoCrash.ok c) ?_
    intro c' hc'
    cases hc'
    simp only
    split
    · rename_i hav
      have := hu (dayOf d)
      rw [if_neg (by grind)]
      exact NoCrash.pure _
    · exact ih _

theorem nearestBwdLoop_nocrash (cal : Cal) (hc : CalT cal) (used : Int → Rat) (hu : ∀ d, 0 ≤ used d) :
    ∀ (k : Nat) (d : Time), NoCrash (nearestBwdLoop cal used k d) := by
  intro k
  induction k with
  | zero => intro d; exact NoCrash.throw
  | succ k ih =>
    intro d
    unfold nearestBwdLoop
    obtain ⟨c, hcd⟩ := hc d
    rw [hcd]
    refine NoCrash.bind (NoCrash.ok c) ?_
    intro c' hc'
    cases hc'
    simp only
    split
    · rename_i hav
      have := hu (dayOf d)
      rw [if_neg (by grind)]
      exact NoCrash.pure _
    · exact ih _

theorem nearestFwd_nocrash (cal : Cal) (hc : CalT cal) (used : Int → Rat) (hu : ∀ d, 0 ≤ used d) (start : Time) :
    NoCrash (nearestFwd cal used start) := by
  unfold nearestFwd
  exact NoCrash.bind (search_nocrash cal hc _ _ _) (fun _ _ => nearestFwdLoop_nocrash cal hc used hu _ _)

theorem nearestBwd_nocrash (cal : Cal) (hc : CalT cal) (used : Int → Rat) (hu : ∀ d, 0 ≤ used d) (start : Time) :
    NoCrash (nearestBwd cal used start) := by
  unfold nearestBwd
  exact NoCrash.bind (search_nocrash cal hc _ _ _) (fun _ _ => nearestBwdLoop_nocrash cal hc used hu _ _)

theorem fillFwd_nocrash (cal : Cal) (hc : CalT cal) (used : Int → Rat) (maxSteps : Nat) :
    ∀ (fuel days : Nat) (day : Int) (left dau : Rat) (acc : List (Int × Rat)),
      NoCrash (fillFwd cal used maxSteps fuel days day left dau acc) := by
  intro fuel
  induction fuel with
  | zero => intro days day left dau acc; exact NoCrash.throw
  | succ fuel ih =>
    intro days day left dau acc
    by_cases hle : left ≤ 0
    · simp only [fillFwd, if_pos hle]
      exact NoCrash.pure _
    · rw [fillFwd_succ _ _ _ _ _ _ _ _ _ hle]
      obtain ⟨c, hcd⟩ := hc ((day + 1 : Int) : Rat)
      rw [hcd]
      refine NoCrash.bind (NoCrash.ok c) ?_
      intro c' _
      split
      · exact NoCrash.throw
      · exact ih _ _ _ _ _

theorem fillBwd_nocrash (cal : Cal) (hc : CalT cal) (used : Int → Rat) (maxSteps : Nat) :
    ∀ (fuel days : Nat) (day : Int) (left : Rat) (acc : List (Int × Rat)),
      NoCrash (fillBwd cal used maxSteps fuel days day left acc) := by
  intro fuel
  induction fuel with
  | zero => intro days day left acc; exact NoCrash.throw
  | succ fuel ih =>
    intro days day left acc
    by_cases hle : left ≤ 0
    · simp only [fillBwd, if_pos hle]
      exact NoCrash.pure _
    · rw [fillBwd_succ _ _ _ _ _ _ _ _ hle]
      obtain ⟨c, hcd⟩ := hc ((day - 1 : Int) : Rat)
      rw [hcd]
      refine NoCrash.bind (NoCrash.ok c) ?_
      intro c' _
      split
      · exact NoCrash.throw
      · exact ih _ _ _ _

theorem shiftFwd_nocrash (cal : Cal) (hc : CalT cal) (used : Int → Rat) (hu : ∀ d, 0 ≤ used d) (start : Time)
    (left : Rat) (hl : 0 ≤ left) : NoCrash (shiftFwd cal used start left) := by
  unfold shiftFwd
  split
  · exact NoCrash.pure _
  · rename_i h0
    refine NoCrash.bind (fillFwd_nocrash cal hc used _ _ _ _ _ _ _) ?_
    rintro ⟨rows, day, dau⟩ hf
    obtain ⟨new, hrows, hspec, _⟩ := fillFwd_spec cal used _ hu _ _ _ _ _ _ _ _ _ hl hf
    have hne : new ≠ [] := by
      intro hn
      subst hn
      have := hspec.total
      simp at this
      grind
    obtain ⟨_, _, hdau⟩ := hspec.last hne
    simp only
    rw [if_neg (by grind)]
    exact NoCrash.pure _

theorem shiftBwd_nocrash (cal : Cal) (hc : CalT cal) (used : Int → Rat) (hu : ∀ d, 0 ≤ used d) (end_ : Time)
    (left : Rat) (hl : 0 ≤ left) : NoCrash (shiftBwd cal used end_ left) := by
  unfold shiftBwd
  split
  · exact NoCrash.pure _
  · rename_i h0
    refine NoCrash.bind (fillBwd_nocrash cal hc used _ _ _ _ _ _) ?_
    rintro ⟨rows, day⟩ hf
    obtain ⟨new, hrows, hspec, _⟩ := fillBwd_spec cal used _ _ _ _ _ _ _ _ hl hf
    have hne : new ≠ [] := by
      intro hn
      subst hn
      have := hspec.total
      simp at this
      grind
    obtain ⟨u, hlast⟩ := hspec.last hne
    obtain ⟨c, hcd, hu0, hu1⟩ := hspec.fits (day, u) (List.mem_of_getLast? hlast)
    simp only at hcd hu0 hu1 ⊢
    rw [hcd]
    refine NoCrash.bind (NoCrash.ok c) ?_
    intro c' hc'
    cases hc'
    have := hu day
    rw [if_neg (by grind)]
    exact NoCrash.pure _

/-! ### a placement sets all four fields of its task -/

def Full (g : Fields) : Prop := g.start.isSome ∧ g.end_.isSome ∧ g.est.isSome ∧ g.spent.isSome

/-- every task that is done has start, end, estimate and spent -/
def DoneFull (σ : SS) : Prop := ∀ x ∈ σ.done, Full (σ.f x)

/-- no field that was set becomes unset -/
def Keep (g g' : Fields) : Prop :=
  (g.start.isSome → g'.start.isSome) ∧ (g.end_.isSome → g'.end_.isSome) ∧
  (g.est.isSome → g'.est.isSome) ∧ (g.spent.isSome → g'.spent.isSome)

theorem Keep.refl (g : Fields) : Keep g g := ⟨id, id, id, id⟩

theorem Keep.trans {a b c : Fields} (h1 : Keep a b) (h2 : Keep b c) : Keep a c :=
  ⟨fun h => h2.1 (h1.1 h), fun h => h2.2.1 (h1.2.1 h), fun h => h2.2.2.1 (h1.2.2.1 h),
    fun h => h2.2.2.2 (h1.2.2.2 h)⟩

theorem setF_same (σ : SS) (t : Uid) (g : Fields → Fields) : (setF σ t g).f t = g (σ.f t) := by
  simp [setF]

theorem fwdStart_sets (env : Env) (cal : Cal) (used : Int → Rat) (t : Uid) (m : Time) (σ σ' : SS)
    (h : fwdStart env cal used t m σ = .ok σ') : (σ'.f t).start.isSome ∧ Keep (σ.f t) (σ'.f t) := by
  unfold fwdStart at h
  simp only at h
  split at h
  · rename_i s hs
    cases h
    exact ⟨by rw [hs]; rfl, Keep.refl _⟩
  · split at h
    · simp only [bind, Except.bind] at h
      split at h
      · cases h
      · cases h
        rw [setF_same]
        exact ⟨rfl, fun _ => rfl, id, id, id⟩
    · split at h
      · cases h
        rw [setF_same]
        exact ⟨rfl, fun _ => rfl, id, id, id⟩
      · cases h
        rw [setF_same]
        exact ⟨rfl, fun _ => rfl, id, id, id⟩

theorem bwdEnd_sets (env : Env) (cal : Cal) (used : Int → Rat) (t : Uid) (m m' : Time) (σ σ' : SS)
    (h : bwdEnd env cal used t m m' σ = .ok σ') : (σ'.f t).end_.isSome ∧ Keep (σ.f t) (σ'.f t) := by
  unfold bwdEnd at h
  simp only at h
  split at h
  · rename_i s hs
    cases h
    exact ⟨by rw [hs]; rfl, Keep.refl _⟩
  · split at h
    · simp only [bind, Except.bind] at h
      split at h
      · cases h
      · cases h
        rw [setF_same]
        exact ⟨rfl, id, fun _ => rfl, id, id⟩
    · split at h
      · cases h
        rw [setF_same]
        exact ⟨rfl, id, fun _ => rfl, id, id⟩
      · cases h
        rw [setF_same]
        exact ⟨rfl, id, fun _ => rfl, id, id⟩

theorem fillEst_sets (env : Env) (t : Uid) (σ σ' : SS) (h : fillEst env t σ = .ok σ') :
    (σ'.f t).est.isSome ∧ (σ'.f t).spent.isSome ∧ Keep (σ.f t) (σ'.f t) := by
  unfold fillEst at h
  simp only [bind, Except.bind] at h
  split at h
  · cases h
  · rename_i σ1 h1
    have s1 : (σ1.f t).est.isSome ∧ Keep (σ.f t) (σ1.f t) := by
      split at h1
      · rename_i e he
        cases h1
        exact ⟨by rw [he]; rfl, Keep.refl _⟩
      · split at h1
        · cases h1
          rw [setF_same]
          exact ⟨rfl, id, id, fun _ => rfl, id⟩
        · split at h1
          · cases h1
          · cases h1
            rw [setF_same]
            exact ⟨rfl, id, id, fun _ => rfl, id⟩
    have s2 : (σ'.f t).spent.isSome ∧ Keep (σ1.f t) (σ'.f t) := by
      split at h
      · rename_i e he
        cases h
        exact ⟨by rw [he]; rfl, Keep.refl _⟩
      · split at h
        · cases h
          rw [setF_same]
          exact ⟨rfl, id, id, id, fun _ => rfl⟩
        · split at h
          · cases h
          · cases h
            rw [setF_same]
            exact ⟨rfl, id, id, id, fun _ => rfl⟩
    exact ⟨s2.2.2.2.1 s1.1, s2.1, s1.2.trans s2.2⟩

theorem fwdEnd_sets (env : Env) (cal : Cal) (used : Int → Rat) (t : Uid) (σ σ' : SS)
    (h : fwdEnd env cal used t σ = .ok σ') : (σ'.f t).end_.isSome ∧ Keep (σ.f t) (σ'.f t) := by
  unfold fwdEnd at h
  simp only at h
  split at h
  · rename_i s hs
    cases h
    exact ⟨by rw [hs]; rfl, Keep.refl _⟩
  · split at h
    · simp only [bind, Except.bind] at h
      split at h
      · cases h
      · cases h
        rw [setF_same]
        exact ⟨rfl, id, fun _ => rfl, id, id⟩
    · split at h
      · cases h
      · cases h
        rw [setF_same]
        exact ⟨rfl, id, fun _ => rfl, id, id⟩

theorem bwdStart_sets (env : Env) (cal : Cal) (used : Int → Rat) (t : Uid) (m : Time) (σ σ' : SS)
    (h : bwdStart env cal used t m σ = .ok σ') : (σ'.f t).start.isSome ∧ Keep (σ.f t) (σ'.f t) := by
  unfold bwdStart at h
  simp only at h
  split at h
  · simp only [bind, Except.bind] at h
    split at h
    · cases h
    · cases h
      rw [setF_same]
      exact ⟨rfl, fun _ => rfl, id, id, id⟩
  · split at h
    · cases h
    · cases h
      rw [setF_same]
      exact ⟨rfl, fun _ => rfl, id, id, id⟩

theorem fwdPlace_full (env : Env) (σ σ' : SS) (t : Uid) (m : Time) (h : fwdPlace env σ t m = .ok σ') :
    Full (σ'.f t) := by
  unfold fwdPlace at h
  rcases hr : resLookup σ.res (env.info t).resource with ⟨res', cal⟩
  simp only [hr, bind, Except.bind, pure, Except.pure] at h
  split at h
  · cases h
    simp only [markDone, setF_same]
    exact ⟨rfl, rfl, rfl, rfl⟩
  · split at h
    · cases h
    · rename_i σ1 h1
      split at h
      · cases h
      · rename_i σ2 h2
        split at h
        · cases h
        · rename_i σ3 h3
          cases h
          obtain ⟨a1, _⟩ := fwdStart_sets _ _ _ _ _ _ _ h1
          obtain ⟨b1, b2, b3⟩ := fillEst_sets _ _ _ _ h2
          obtain ⟨c1, c3⟩ := fwdEnd_sets _ _ _ _ _ _ h3
          exact ⟨c3.1 (b3.1 a1), c1, c3.2.2.1 b1, c3.2.2.2 b2⟩

theorem bwdPlace_full (env : Env) (σ σ' : SS) (t : Uid) (m m' : Time) (h : bwdPlace env σ t m m' = .ok σ') :
    Full (σ'.f t) := by
  unfold bwdPlace at h
  rcases hr : resLookup σ.res (env.info t).resource with ⟨res', cal⟩
  simp only [hr, bind, Except.bind, pure, Except.pure] at h
  split at h
  · cases h
    simp only [markDone, setF_same]
    exact ⟨rfl, rfl, rfl, rfl⟩
  · split at h
    · cases h
    · rename_i σ1 h1
      split at h
      · cases h
      · rename_i σ2 h2
        split at h
        · cases h
        · rename_i σ3 h3
          cases h
          obtain ⟨a1, _⟩ := bwdEnd_sets _ _ _ _ _ _ _ _ h1
          obtain ⟨b1, b2, b3⟩ := fillEst_sets _ _ _ _ h2
          obtain ⟨c1, c3⟩ := bwdStart_sets _ _ _ _ _ _ _ h3
          exact ⟨c1, c3.2.1 (b3.2.1 a1), c3.2.2.1 b1, c3.2.2.2 b2⟩

/-- the placement invariant "done ⇒ all fields set" -/
theorem place_doneFull (σ σ' : SS) (t : Uid) (hi : DoneFull σ) (he : Ext σ σ') (hd : σ'.done = σ.done ++ [t])
    (hf : Full (σ'.f t)) : DoneFull σ' := by
  intro x hx
  rw [hd] at hx
  rcases List.mem_append.1 hx with hx | hx
  · rw [he.frozen x hx]; exact hi x hx
  · simp only [List.mem_singleton] at hx
    subst hx
    exact hf

/-- the resource table of the state after a placement -/
theorem place_cals_of_stage (env : Env) (σ σm : SS) (t : Uid) (new : List (Int × Rat)) (hc : CalsOK σ.res)
    (hs : Stage env t new { σ with res := (resLookup σ.res (env.info t).resource).1 } σm) :
    CalsOK (markDone σm t).res := by
  show CalsOK σm.res
  rw [hs.res]
  exact (resLookup_cals σ.res _ hc).1

/-! ### a placement never crashes when the calendars are total and the children are complete -/

theorem sumOpt_fold_ok (f : Rat → Option Rat → Res Rat) (hf : ∀ acc x, ∃ r, f acc (some x) = .ok r) :
    ∀ (l : List (Option Rat)) (acc : Rat), (∀ v ∈ l, v.isSome) → ∃ r, l.foldlM f acc = .ok r := by
  intro l
  induction l with
  | nil => intro acc _; exact ⟨acc, rfl⟩
  | cons v l ih =>
    intro acc h
    rw [List.foldlM_cons]
    cases v with
    | none => exact absurd (h none List.mem_cons_self) (by simp)
    | some x =>
      obtain ⟨r1, hr1⟩ := hf acc x
      obtain ⟨r, hr⟩ := ih r1 (fun v hv => h v (List.mem_cons_of_mem _ hv))
      rw [hr1]
      exact ⟨r, hr⟩

theorem sumOpt_nocrash (l : List (Option Rat)) (h : ∀ v ∈ l, v.isSome) : NoCrash (sumOpt l) := by
  unfold sumOpt
  have key : ∀ (f : Rat → Option Rat → Res Rat), (∀ acc x, ∃ r, f acc (some x) = .ok r) →
      NoCrash (l.foldlM f 0) := by
    intro f hf
    obtain ⟨r, hr⟩ := sumOpt_fold_ok f hf l 0 h
    rw [hr]
    exact NoCrash.ok r
  apply key
  intro acc x
  exact ⟨acc + x, rfl⟩

theorem fwdStart_nocrash (env : Env) (cal : Cal) (hc : CalT cal) (used : Int → Rat) (hu : ∀ d, 0 ≤ used d)
    (t : Uid) (m : Time) (σ : SS) : NoCrash (fwdStart env cal used t m σ) := by
  unfold fwdStart
  simp only
  split
  · exact NoCrash.pure _
  · split
    · exact NoCrash.bind (nearestFwd_nocrash cal hc used hu _) (fun _ _ => NoCrash.pure _)
    · split
      · exact NoCrash.pure _
      · exact NoCrash.pure _

theorem bwdEnd_nocrash (env : Env) (cal : Cal) (hc : CalT cal) (used : Int → Rat) (hu : ∀ d, 0 ≤ used d)
    (t : Uid) (m m' : Time) (σ : SS) : NoCrash (bwdEnd env cal used t m m' σ) := by
  unfold bwdEnd
  simp only
  split
  · exact NoCrash.pure _
  · split
    · exact NoCrash.bind (nearestBwd_nocrash cal hc used hu _) (fun _ _ => NoCrash.pure _)
    · split
      · exact NoCrash.pure _
      · exact NoCrash.pure _

theorem fillEst_nocrash (env : Env) (t : Uid) (σ : SS)
    (hk : ∀ c ∈ (env.info t).children, c ≠ t ∧ (σ.f c).est.isSome ∧ (σ.f c).spent.isSome) :
    NoCrash (fillEst env t σ) := by
  unfold fillEst
  simp only
  refine NoCrash.bind ?_ ?_
  · split
    · exact NoCrash.pure _
    · split
      · exact NoCrash.pure _
      · refine NoCrash.bind (sumOpt_nocrash _ ?_) (fun _ _ => NoCrash.pure _)
        intro v hv
        obtain ⟨c, hc, rfl⟩ := List.mem_map.1 hv
        exact (hk c hc).2.1
  · intro σ1 h1
    have hf : ∀ c ∈ (env.info t).children, σ1.f c = σ.f c := by
      intro c hc
      have hne := (hk c hc).1
      split at h1
      · cases h1; rfl
      · split at h1
        · cases h1; simp [setF, upd, hne]
        · simp only [bind, Except.bind] at h1
          split at h1
          · cases h1
          · cases h1; simp [setF, upd, hne]
    split
    · exact NoCrash.pure _
    · split
      · exact NoCrash.pure _
      · refine NoCrash.bind (sumOpt_nocrash _ ?_) (fun _ _ => NoCrash.pure _)
        intro v hv
        obtain ⟨c, hc, rfl⟩ := List.mem_map.1 hv
        rw [hf c hc]
        exact (hk c hc).2.2

theorem filterMap_ne_nil {α β : Type} (l : List α) (g : α → Option β) (hl : l.isEmpty = false)
    (h : ∀ c ∈ l, (g c).isSome) : l.filterMap g ≠ [] := by
  cases l with
  | nil => simp at hl
  | cons a l =>
    have := h a List.mem_cons_self
    cases hg : g a with
    | none => rw [hg] at this; cases this
    | some b => simp [hg]

theorem fwdEnd_nocrash (env : Env) (cal : Cal) (hc : CalT cal) (used : Int → Rat) (hu : ∀ d, 0 ≤ used d)
    (t : Uid) (σ : SS) (hk : ∀ c ∈ (env.info t).children, (σ.f c).end_.isSome) :
    NoCrash (fwdEnd env cal used t σ) := by
  unfold fwdEnd
  simp only
  split
  · exact NoCrash.pure _
  · split
    · exact NoCrash.bind (shiftFwd_nocrash cal hc used hu _ _ (leftOf_nonneg _ _)) (fun _ _ => NoCrash.pure _)
    · rename_i hl
      split
      · rename_i hnil
        exact absurd hnil (filterMap_ne_nil _ _ (by simpa using hl) hk)
      · exact NoCrash.pure _

theorem bwdStart_nocrash (env : Env) (cal : Cal) (hc : CalT cal) (used : Int → Rat) (hu : ∀ d, 0 ≤ used d)
    (t : Uid) (m : Time) (σ : SS) (hk : ∀ c ∈ (env.info t).children, (σ.f c).start.isSome) :
    NoCrash (bwdStart env cal used t m σ) := by
  unfold bwdStart
  simp only
  split
  · exact NoCrash.bind (shiftBwd_nocrash cal hc used hu _ _ (leftOf_nonneg _ _)) (fun _ _ => NoCrash.pure _)
  · rename_i hl
    split
    · rename_i hnil
      exact absurd hnil (filterMap_ne_nil _ _ (by simpa using hl) hk)
    · exact NoCrash.pure _

theorem fwdPlace_nocrash (env : Env) (σ : SS) (t : Uid) (m : Time) (hc : CalsOK σ.res)
    (hpos : ∀ r ∈ σ.rows, 0 < r.units) (hk : ∀ c ∈ (env.info t).children, c ≠ t ∧ Full (σ.f c)) :
    NoCrash (fwdPlace env σ t m) := by
  unfold fwdPlace
  have hcal := (resLookup_cals σ.res (env.info t).resource hc).2
  simp only
  have hu : ∀ d, 0 ≤ usedBy env σ.rows (env.info t).resource t d := fun d => reserved_nonneg _ hpos _ _ _
  split
  · exact NoCrash.pure _
  · refine NoCrash.bind (fwdStart_nocrash env _ hcal _ hu _ _ _) ?_
    intro σ1 h1
    have s1 := fwdStart_stage _ _ _ _ _ _ _ h1
    refine NoCrash.bind (fillEst_nocrash env t σ1 ?_) ?_
    · intro c hcc
      obtain ⟨hne, hfull⟩ := hk c hcc
      rw [s1.f c hne]
      exact ⟨hne, hfull.2.2.1, hfull.2.2.2⟩
    · intro σ2 h2
      have s2 := fillEst_stage _ _ _ _ h2
      refine NoCrash.bind (fwdEnd_nocrash env _ hcal _ hu _ _ ?_) (fun _ _ => NoCrash.pure _)
      intro c hcc
      obtain ⟨hne, hfull⟩ := hk c hcc
      rw [s2.f c hne, s1.f c hne]
      exact hfull.2.1

theorem bwdPlace_nocrash (env : Env) (σ : SS) (t : Uid) (m m' : Time) (hc : CalsOK σ.res)
    (hpos : ∀ r ∈ σ.rows, 0 < r.units) (hk : ∀ c ∈ (env.info t).children, c ≠ t ∧ Full (σ.f c)) :
    NoCrash (bwdPlace env σ t m m') := by
  unfold bwdPlace
  have hcal := (resLookup_cals σ.res (env.info t).resource hc).2
  simp only
  have hu : ∀ d, 0 ≤ usedBy env σ.rows (env.info t).resource t d := fun d => reserved_nonneg _ hpos _ _ _
  split
  · exact NoCrash.pure _
  · refine NoCrash.bind (bwdEnd_nocrash env _ hcal _ hu _ _ _ _) ?_
    intro σ1 h1
    have s1 := bwdEnd_stage _ _ _ _ _ _ _ _ h1
    refine NoCrash.bind (fillEst_nocrash env t σ1 ?_) ?_
    · intro c hcc
      obtain ⟨hne, hfull⟩ := hk c hcc
      rw [s1.f c hne]
      exact ⟨hne, hfull.2.2.1, hfull.2.2.2⟩
    · intro σ2 h2
      have s2 := fillEst_stage _ _ _ _ h2
      refine NoCrash.bind (bwdStart_nocrash env _ hcal _ hu _ _ _ ?_) (fun _ _ => NoCrash.pure _)
      intro c hcc
      obtain ⟨hne, hfull⟩ := hk c hcc
      rw [s2.f c hne, s1.f c hne]
      exact hfull.1

/-! ### the recursive pass never crashes when its call graph is acyclic -/

/-- the calls a pass makes from a task satisfying `Q`: same-side links and children -/
def callE (env : Env) (links kids : Uid → List Uid) (Q : Uid → Prop) (a b : Uid) : Prop :=
  Q a ∧ ((b ∈ links a ∧ (env.info b).member = (env.info a).member) ∨ b ∈ kids a)

/-- `stk` (innermost first) is a chain of calls that leads to `t` -/
def IsStk (E : Uid → Uid → Prop) : List Uid → Uid → Prop
  | [], _ => True
  | s :: stk, t => E s t ∧ IsStk E stk s

theorem IsStk.reach {E : Uid → Uid → Prop} : ∀ {stk : List Uid} {t : Uid}, IsStk E stk t → ∀ x ∈ stk, TC E x t
  | [], _, _, x, hx => by cases hx
  | s :: stk, t, h, x, hx => by
    rcases List.mem_cons.1 hx with rfl | hx
    · exact TC.single h.1
    · exact TC.tail (IsStk.reach h.2 x hx) h.1

theorem IsStk.nodup {E : Uid → Uid → Prop} (hac : ∀ x, ¬ TC E x x) :
    ∀ {stk : List Uid} {t : Uid}, IsStk E stk t → (t :: stk).Nodup
  | [], _, _ => by simp
  | s :: stk, t, h => by
    refine List.nodup_cons.2 ⟨fun hc => hac t (IsStk.reach h t hc), IsStk.nodup hac h.2⟩

theorem passList_nocrash (I : SS → Prop) (step : SS → Uid → Res SS) :
    ∀ (xs : List Uid), (∀ σ x, x ∈ xs → I σ → NoCrash (step σ x) ∧ ∀ σ', step σ x = .ok σ' → I σ') →
      ∀ σ, I σ → NoCrash (passList step σ xs) := by
  intro xs
  induction xs with
  | nil => intro _ σ _; exact NoCrash.pure σ
  | cons x xs ih =>
    intro hstep σ hi
    simp only [passList]
    obtain ⟨h1, h2⟩ := hstep σ x List.mem_cons_self hi
    refine NoCrash.bind h1 ?_
    intro σ1 hσ1
    exact ih (fun σ y hy => hstep σ y (List.mem_cons_of_mem _ hy)) σ1 (h2 σ1 hσ1)

section generic
variable (env : Env) (links kids : Uid → List Uid) (agg : SS → List Uid → Time → Time)
  (place : SS → Uid → Time → Time → Res SS)
  (hplace_ext : ∀ σ σ' t m v, t ∉ σ.done → place σ t m v = .ok σ' → Ext σ σ' ∧ σ'.done = σ.done ++ [t])
include hplace_ext

theorem gPass_nocrash (I : SS → Prop) (Q : Uid → Prop) (n : Nat)
    (hplace : ∀ σ σ' t m v, Q t → I σ → t ∉ σ.done → (∀ c ∈ kids t, c ∈ σ.done) → place σ t m v = .ok σ' → I σ')
    (hplace_nc : ∀ σ t m v, Q t → I σ → t ∉ σ.done → (∀ c ∈ kids t, c ∈ σ.done) → NoCrash (place σ t m v))
    (hkids : ∀ t c, Q t → c ∈ kids t → Q c)
    (hlinks : ∀ t p, Q t → p ∈ links t → (env.info p).member = (env.info t).member → Q p)
    (hlt : ∀ t, Q t → t < n)
    (hac : ∀ x, ¬ TC (callE env links kids Q) x x) :
    ∀ (fuel : Nat) (stk : List Uid) (σ : SS) (t : Uid) (m : Time), Q t → I σ →
      IsStk (callE env links kids Q) stk t → (∀ x ∈ stk, Q x) → n + 1 ≤ fuel + stk.length →
      NoCrash (gPass env links kids agg place fuel stk σ t m) := by
  intro fuel
  induction fuel with
  | zero =>
    intro stk σ t m hq _ hstk hqs hf
    have hn := IsStk.nodup hac hstk
    have := nodup_lt_length_le n (t :: stk) hn (fun x hx => by
      rcases List.mem_cons.1 hx with rfl | hx
      · exact hlt _ hq
      · exact hlt x (hqs x hx))
    simp only [List.length_cons] at this
    omega
  | succ fuel ih =>
    intro stk σ t m hq hi hstk hqs hf
    have hinv := gPass_inv env links kids agg place hplace_ext I Q hplace hkids hlinks
    have hx := gPass_extS env links kids agg place hplace_ext fuel (t :: stk)
    have hqs' : ∀ x ∈ t :: stk, Q x := by
      intro x hx
      rcases List.mem_cons.1 hx with rfl | hx
      · exact hq
      · exact hqs x hx
    have hf' : n + 1 ≤ fuel + (t :: stk).length := by simp only [List.length_cons]; omega
    simp only [gPass]
    split
    · exact NoCrash.pure _
    · rename_i hd
      have hd' : t ∉ σ.done := fun hc => hd (List.contains_iff_mem.2 hc)
      split
      · rename_i hs
        exact absurd (IsStk.reach hstk t (List.contains_iff_mem.1 hs)) (hac t)
      · refine NoCrash.bind ?_ ?_
        · refine passList_nocrash I _ _ ?_ σ hi
          intro a p hp ha
          split
          · rename_i hm
            have hm' : (env.info p).member = (env.info t).member := by simpa using hm
            have hqp := hlinks t p hq hp hm'
            exact ⟨ih (t :: stk) a p m hqp ha ⟨⟨hq, Or.inl ⟨hp, hm'⟩⟩, hstk⟩ hqs' hf',
              fun σ' hh => hinv fuel (t :: stk) a p m σ' hqp ha hh⟩
          · exact ⟨NoCrash.pure _, fun σ' hh => by cases hh; exact ha⟩
        · intro σ1 h1
          have e1 : ExtS (t :: stk) σ σ1 := passList_extS _ _ _ (fun a x b _ hh => by
            split at hh
            · exact (hx _ _ _ _ hh).1
            · cases hh; exact ExtS.refl _ _) _ _ h1
          have i1 : I σ1 := passList_inv I _ _ (fun a x b hxl ha hh => by
            split at hh
            · rename_i hm
              exact hinv _ _ _ _ _ _ (hlinks t x hq hxl (by simpa using hm)) ha hh
            · cases hh; exact ha) _ _ hi h1
          refine NoCrash.bind ?_ ?_
          · refine passList_nocrash I _ _ ?_ σ1 i1
            intro a c hc ha
            have hqc := hkids t c hq hc
            exact ⟨ih (t :: stk) a c _ hqc ha ⟨⟨hq, Or.inr hc⟩, hstk⟩ hqs' hf',
              fun σ' hh => hinv fuel (t :: stk) a c _ σ' hqc ha hh⟩
          · intro σ2 h2
            have e2 : ExtS (t :: stk) σ1 σ2 := passList_extS _ _ _ (fun a x b _ hh => (hx _ _ _ _ hh).1) _ _ h2
            have ht2 : t ∉ σ2.done := (e1.trans e2).2 t List.mem_cons_self hd'
            have i2 : I σ2 := passList_inv I _ _ (fun a x b hxl ha hh =>
              hinv _ _ _ _ _ _ (hkids t x hq hxl) ha hh) _ _ i1 h2
            have hk : ∀ c ∈ kids t, c ∈ σ2.done := passList_all_done _ _ (fun a x b _ hh =>
              ⟨(hx _ _ _ _ hh).1.1, (hx _ _ _ _ hh).2⟩) _ _ h2
            exact hplace_nc _ _ _ _ hq i2 ht2 hk

end generic

/-! ### the well-formed environment -/

/-- the structural invariants of the WBS handed to `calc` (field for field the `EnvWF` of Props/C14.lean) -/
structure WFE (env : Env) : Prop where
  rootsLt : ∀ r ∈ env.roots, r < env.n
  childLt : ∀ a c, c ∈ (env.info a).children → c < env.n
  predLt : ∀ a p, p ∈ (env.info a).preds → p < env.n
  succLt : ∀ a p, p ∈ (env.info a).succs → p < env.n
  parentIff : ∀ c p, (env.info c).parent = some p ↔ c ∈ (env.info p).children
  childrenNodup : ∀ p, (env.info p).children.Nodup
  rootsNodup : env.roots.Nodup
  rootsTop : ∀ r ∈ env.roots, (env.info r).parent = none
  forest : ∀ x, ¬ TC (fun a b => b ∈ (env.info a).children) x x
  sym : ∀ a b, a ∈ (env.info b).preds ↔ b ∈ (env.info a).succs
  dag : ∀ x, ¬ TC (fun a b => a ∈ (env.info b).preds) x x
  noAncDep : ∀ a b, a ∈ (env.info b).preds →
    ¬ TC (fun x y => y ∈ (env.info x).children) a b ∧ ¬ TC (fun x y => y ∈ (env.info x).children) b a
  flags : env.flagsOK

/-- the children function as a `next` relation -/
abbrev kidsOf (env : Env) : Uid → List Uid := fun u => (env.info u).children

/-- "is a child of" -/
abbrev chE (env : Env) : Uid → Uid → Prop := fun a b => b ∈ (env.info a).children

theorem WFE.descF_total {env : Env} (hw : WFE env) (t : Uid) : ∃ l, descF (kidsOf env) (env.n + 1) t = some l :=
  descF_total_of_acyclic (kidsOf env) env.n hw.forest hw.childLt t

theorem WFE.members_total {env : Env} (hw : WFE env) : ∃ mem, members env = some mem := by
  obtain ⟨ll, hll⟩ := mapM_total (fun r => subtreeF (kidsOf env) (env.n + 1) r) env.roots (fun r _ => by
    obtain ⟨l, hl⟩ := hw.descF_total r
    exact ⟨r :: l, by simp only [subtreeF, hl]; rfl⟩)
  exact ⟨ll.flatten, by unfold members; show Option.map _ (List.mapM _ env.roots) = _; rw [hll]; rfl⟩

/-- the members are the roots and their descendants -/
theorem members_iff (env : Env) (mem : List Uid) (hm : members env = some mem) (x : Uid) :
    x ∈ mem ↔ ∃ r ∈ env.roots, x = r ∨ TC (chE env) r x := by
  constructor
  · intro hx
    obtain ⟨r, hr, l, hl, hxl⟩ := (members_spec env mem hm).2 x hx
    simp only [subtreeF, Option.map_eq_some_iff] at hl
    obtain ⟨d, hd, rfl⟩ := hl
    refine ⟨r, hr, ?_⟩
    rcases List.mem_cons.1 hxl with rfl | hxd
    · exact Or.inl rfl
    · exact Or.inr (descF_sound _ _ _ _ hd x hxd)
  · rintro ⟨r, hr, hx⟩
    obtain ⟨l, hl, hsub⟩ := (members_spec env mem hm).1 r hr
    simp only [subtreeF, Option.map_eq_some_iff] at hl
    obtain ⟨d, hd, rfl⟩ := hl
    apply hsub
    rcases hx with rfl | hx
    · exact List.mem_cons_self
    · exact List.mem_cons_of_mem _ (descF_complete _ _ _ _ hd x hx)

theorem members_lt (env : Env) (hw : WFE env) (mem : List Uid) (hm : members env = some mem) :
    ∀ x ∈ mem, x < env.n := by
  intro x hx
  obtain ⟨r, hr, h⟩ := (members_iff env mem hm x).1 hx
  rcases h with rfl | h
  · exact hw.rootsLt _ hr
  · rcases TC.tail_cases h with h | ⟨b, _, h⟩
    · exact hw.childLt _ _ h
    · exact hw.childLt _ _ h

/-- descendants of members are members -/
theorem members_desc (env : Env) (mem : List Uid) (hm : members env = some mem) {x y : Uid} (hx : x ∈ mem)
    (h : TC (chE env) x y) : y ∈ mem := by
  induction h with
  | single h => exact members_children env mem hm _ hx _ h
  | tail _ h ih => exact members_children env mem hm _ ih _ h

/-- the parent of a member is a member -/
theorem members_parent (env : Env) (hw : WFE env) (mem : List Uid) (hm : members env = some mem) {x p : Uid}
    (hx : x ∈ mem) (hp : (env.info x).parent = some p) : p ∈ mem := by
  obtain ⟨r, hr, h⟩ := (members_iff env mem hm x).1 hx
  rcases h with rfl | h
  · rw [hw.rootsTop _ hr] at hp; cases hp
  · have hrm : r ∈ mem := members_root env mem hm r hr
    rcases TC.tail_cases h with h | ⟨b, hb, h⟩
    · have := (hw.parentIff x r).2 h
      rw [this] at hp
      cases hp
      exact hrm
    · have := (hw.parentIff x b).2 h
      rw [this] at hp
      cases hp
      exact members_desc env mem hm hrm hb

/-! ### ancestors -/

/-- "has as parent" -/
abbrev parE (env : Env) : Uid → Uid → Prop := fun a b => (env.info a).parent = some b

theorem TC_ch_par (env : Env) (hw : WFE env) {a b : Uid} (h : TC (chE env) a b) : TC (parE env) b a :=
  TC.flip (TC.mono (r' := fun x y => parE env y x) (fun x y hxy => (hw.parentIff y x).2 hxy) h)

theorem TC_par_ch (env : Env) (hw : WFE env) {a b : Uid} (h : TC (parE env) b a) : TC (chE env) a b :=
  TC.mono (r' := chE env) (fun x y hxy => (hw.parentIff y x).1 hxy) (TC.unflip h)

/-- the ancestor walk finds every ancestor that is at most `f` steps away -/
theorem ancestorsOf_complete (env : Env) : ∀ (f : Nat) (l u : Uid), TC (parE env) l u →
    (∀ p, IsPath (fun x => ((env.info x).parent).toList) l p → p.length ≤ f) → u ∈ ancestorsOf env f l := by
  intro f
  induction f with
  | zero =>
    intro l u h hp
    rcases TC.head_cases h with h | ⟨q, h, _⟩
    · have := hp [u] ⟨by simp [h], trivial⟩
      simp at this
    · have := hp [q] ⟨by simp [h], trivial⟩
      simp at this
  | succ f ih =>
    intro l u h hp
    have step : ∀ q, (env.info l).parent = some q → (u = q ∨ TC (parE env) q u) → u ∈ ancestorsOf env (f + 1) l := by
      intro q hq hu
      simp only [ancestorsOf, hq]
      rcases hu with rfl | hu
      · exact List.mem_cons_self
      · refine List.mem_cons_of_mem _ (ih q u hu ?_)
        intro p hpath
        have := hp (q :: p) ⟨by simp [hq], hpath⟩
        simpa using this
    rcases TC.head_cases h with h | ⟨q, h, hrest⟩
    · exact step u h (Or.inl rfl)
    · exact step q h (Or.inr hrest)

/-- an upward walk from a member stays inside the members -/
theorem parPath_members (env : Env) (hw : WFE env) (mem : List Uid) (hm : members env = some mem) :
    ∀ (p : List Uid) (l : Uid), l ∈ mem → IsPath (fun x => ((env.info x).parent).toList) l p → ∀ x ∈ p, x ∈ mem := by
  intro p
  induction p with
  | nil => intro l _ _ x hx; cases hx
  | cons b p ih =>
    intro l hl hpath x hx
    have hb : b ∈ mem := members_parent env hw mem hm hl (by simpa using hpath.1)
    rcases List.mem_cons.1 hx with rfl | hx
    · exact hb
    · exact ih b hb hpath.2 x hx

theorem parPath_length (env : Env) (hw : WFE env) (mem : List Uid) (hm : members env = some mem)
    (l : Uid) (hl : l ∈ mem) (p : List Uid) (hpath : IsPath (fun x => ((env.info x).parent).toList) l p) :
    p.length ≤ env.n + 1 := by
  have hac : ∀ x, ¬ TC (fun a b => b ∈ (fun x => ((env.info x).parent).toList) a) x x := by
    intro x hx
    refine hw.forest x (TC_par_ch env hw (TC.mono (r' := parE env) ?_ hx))
    intro a b hab
    simpa using hab
  have hn := (List.nodup_cons.1 (hpath.nodup hac)).2
  have := nodup_lt_length_le env.n p hn (fun x hx =>
    members_lt env hw mem hm x (parPath_members env hw mem hm p l hl hpath x hx))
  omega

/-- a member's ancestor list contains all its ancestors -/
theorem ancestorsOf_member (env : Env) (hw : WFE env) (mem : List Uid) (hm : members env = some mem)
    {u l : Uid} (hl : l ∈ mem) (h : TC (chE env) u l) : u ∈ ancestorsOf env (env.n + 1) l :=
  ancestorsOf_complete env _ l u (TC_ch_par env hw h) (fun p hp => parPath_length env hw mem hm l hl p hp)

/-! ### leaves and the leaf-level waits-for relation -/

/-- `l` is a leaf at or below `x` -/
def Lf (env : Env) (x l : Uid) : Prop := (env.info l).children.isEmpty = true ∧ (l = x ∨ TC (chE env) x l)

theorem Lf.below {env : Env} {x y l : Uid} (h : Lf env y l) (hxy : TC (chE env) x y) : Lf env x l := by
  refine ⟨h.1, Or.inr ?_⟩
  rcases h.2 with rfl | h2
  · exact hxy
  · exact TC.trans hxy h2

theorem Lf_exists_of_paths (env : Env) : ∀ (k : Nat) (x : Uid),
    (∀ p, IsPath (kidsOf env) x p → p.length < k) → ∃ l, Lf env x l := by
  intro k
  induction k with
  | zero => intro x h; exact absurd (h [] trivial) (Nat.lt_irrefl 0)
  | succ k ih =>
    intro x h
    cases hc : (env.info x).children with
    | nil => exact ⟨x, by simp [hc], Or.inl rfl⟩
    | cons c cs =>
      have hcx : c ∈ (env.info x).children := by rw [hc]; exact List.mem_cons_self
      obtain ⟨l, hl⟩ := ih c (fun p hp => Nat.lt_of_succ_lt_succ (h (c :: p) ⟨hcx, hp⟩))
      exact ⟨l, hl.below (TC.single hcx)⟩

/-- every task has a leaf at or below it -/
theorem WFE.Lf_exists {env : Env} (hw : WFE env) (x : Uid) : ∃ l, Lf env x l :=
  Lf_exists_of_paths env (env.n + 1) x (fun _ hp => Nat.lt_succ_of_le (hp.length_le hw.forest hw.childLt))

theorem Lf_leavesOf (env : Env) (hw : WFE env) {p l : Uid} (h : Lf env p l) : l ∈ (leavesOf env p).getD [] := by
  unfold leavesOf
  split
  · rename_i hp
    rcases h.2 with rfl | h2
    · simp
    · exfalso
      have hnil : ∀ c, ¬ c ∈ (env.info p).children := by
        intro c hc; rw [List.isEmpty_iff.1 hp] at hc; cases hc
      rcases TC.head_cases h2 with hc | ⟨c, hc, _⟩
      · exact hnil _ hc
      · exact hnil _ hc
  · rename_i hp
    obtain ⟨d, hd⟩ := hw.descF_total p
    rw [hd]
    simp only [Option.map_some, Option.getD_some, List.mem_filter]
    rcases h.2 with rfl | h2
    · exact absurd h.1 hp
    · exact ⟨descF_complete _ _ _ _ hd l h2, h.1⟩

theorem leavesOf_lt (env : Env) (hw : WFE env) {p l : Uid} (hp : p < env.n) (h : l ∈ (leavesOf env p).getD []) :
    l < env.n := by
  unfold leavesOf at h
  split at h
  · simp only [Option.getD_some, List.mem_singleton] at h
    subst h; exact hp
  · cases hd : descF (kidsOf env) (env.n + 1) p with
    | none => rw [hd] at h; simp at h
    | some d =>
      rw [hd] at h
      simp only [Option.map_some, Option.getD_some, List.mem_filter] at h
      have := descF_sound _ _ _ _ hd l h.1
      rcases TC.tail_cases this with h' | ⟨b, _, h'⟩
      · exact hw.childLt _ _ h'
      · exact hw.childLt _ _ h'

theorem waitsFor_lt (env : Env) (hw : WFE env) (a b : Uid) (h : b ∈ waitsFor env a) : b < env.n := by
  unfold waitsFor at h
  obtain ⟨p, hp, hb⟩ := List.mem_flatMap.1 h
  obtain ⟨x, _, hpx⟩ := List.mem_flatMap.1 hp
  exact leavesOf_lt env hw (hw.predLt x p hpx) hb

/-- a leaf below a member task `u` waits for every leaf of every predecessor of `u` -/
theorem waitsFor_mem (env : Env) (hw : WFE env) (mem : List Uid) (hm : members env = some mem)
    {u p l l' : Uid} (hu : u ∈ mem) (hp : p ∈ (env.info u).preds) (hl : Lf env u l) (hl' : Lf env p l') :
    l' ∈ waitsFor env l := by
  unfold waitsFor
  refine List.mem_flatMap.2 ⟨p, List.mem_flatMap.2 ⟨u, ?_, hp⟩, Lf_leavesOf env hw hl'⟩
  rcases hl.2 with rfl | h2
  · exact List.mem_cons_self
  · exact List.mem_cons_of_mem _ (ancestorsOf_member env hw mem hm (members_desc env mem hm hu h2) h2)

/-! ### a cycle of calls yields a leaf-level cycle -/

theorem call_TC_cases (env : Env) (links kids : Uid → List Uid) (Q : Uid → Prop) (R : Uid → Uid → Prop)
    (hne : ∀ x, ∃ l, Lf env x l)
    (hkid : ∀ a b, b ∈ kids a → b ∈ (env.info a).children)
    (hlink : ∀ a b, Q a → b ∈ links a → (env.info b).member = (env.info a).member →
      ∀ l l', Lf env a l → Lf env b l' → R l l') {x y : Uid}
    (h : TC (callE env links kids Q) x y) :
    TC (chE env) x y ∨ ∃ l, Lf env x l ∧ ∀ l', Lf env y l' → TC R l l' := by
  induction h with
  | single h =>
    obtain ⟨hq, h | h⟩ := h
    · obtain ⟨l, hl⟩ := hne _
      exact Or.inr ⟨l, hl, fun l' hl' => TC.single (hlink _ _ hq h.1 h.2 l l' hl hl')⟩
    · exact Or.inl (TC.single (hkid _ _ h))
  | tail hab h ih =>
    rename_i b c
    obtain ⟨hq, h | h⟩ := h
    · obtain ⟨l2, hl2⟩ := hne b
      rcases ih with ih | ⟨l, hl, ih⟩
      · exact Or.inr ⟨l2, hl2.below ih, fun l' hl' => TC.single (hlink _ _ hq h.1 h.2 l2 l' hl2 hl')⟩
      · exact Or.inr ⟨l, hl, fun l' hl' => TC.tail (ih l2 hl2) (hlink _ _ hq h.1 h.2 l2 l' hl2 hl')⟩
    · have hbc : TC (chE env) b c := TC.single (hkid _ _ h)
      rcases ih with ih | ⟨l, hl, ih⟩
      · exact Or.inl (TC.trans ih hbc)
      · exact Or.inr ⟨l, hl, fun l' hl' => ih l' (hl'.below hbc)⟩

theorem callE_source {env : Env} {links kids : Uid → List Uid} {Q : Uid → Prop} {x y : Uid}
    (h : TC (callE env links kids Q) x y) : Q x := by
  induction h with
  | single h => exact h.1
  | tail _ _ ih => exact ih

/-- no cycle of calls, given that the leaf-level relation `R` has no cycle through a leaf below a `Q` task -/
theorem call_acyclic (env : Env) (hw : WFE env) (links kids : Uid → List Uid) (Q : Uid → Prop) (R : Uid → Uid → Prop)
    (hkid : ∀ a b, b ∈ kids a → b ∈ (env.info a).children)
    (hlink : ∀ a b, Q a → b ∈ links a → (env.info b).member = (env.info a).member →
      ∀ l l', Lf env a l → Lf env b l' → R l l')
    (hR : ∀ x l, Q x → Lf env x l → ¬ TC R l l) :
    ∀ x, ¬ TC (callE env links kids Q) x x := by
  intro x h
  rcases call_TC_cases env links kids Q R hw.Lf_exists hkid hlink h with h' | ⟨l, hl, h'⟩
  · exact hw.forest x h'
  · exact hR x l (callE_source h) hl (h' l hl)

/-! ### the pre-check -/

/-- the leaf-level waits-for relation -/
abbrev waitsE (env : Env) : Uid → Uid → Prop := fun a b => b ∈ waitsFor env a

theorem checkLoops_ok (env : Env) (mem : List Uid) (h : checkLoops env mem = .ok ()) :
    ∀ l ∈ mem, (env.info l).children.isEmpty = true → ¬ TC (waitsE env) l l := by
  unfold checkLoops at h
  simp only [bind, Except.bind] at h
  split at h
  · cases h
  · split at h
    · cases h
    · rename_i v2 h2
      intro l hl hleaf
      exact loopsFrom_sound (waitsFor env) _ _ v2 h2 l (List.mem_filter.2 ⟨hl, hleaf⟩)

theorem checkLoops_nocrash (env : Env) (hw : WFE env) (mem : List Uid) (hlt : ∀ x ∈ mem, x < env.n) :
    NoCrash (checkLoops env mem) := by
  unfold checkLoops
  refine NoCrash.bind (loopsFold_nocrash _ env.n (fun a b h => hw.predLt a b h) mem hlt) ?_
  intro _ _
  refine NoCrash.bind (loopsFold_nocrash _ env.n (waitsFor_lt env hw) _ ?_) (fun _ _ => NoCrash.pure _)
  intro t ht
  exact hlt t (List.mem_filter.1 ht).1

/-- a leaf-level cycle is diagnosed -/
theorem checkLoops_cycle (env : Env) (hw : WFE env) (mem : List Uid) (hlt : ∀ x ∈ mem, x < env.n)
    (l : Uid) (hl : l ∈ mem) (hleaf : (env.info l).children.isEmpty = true) (hcyc : TC (waitsE env) l l) :
    checkLoops env mem = .error .runtime := by
  rcases (checkLoops_nocrash env hw mem hlt).cases with ⟨a, ha⟩ | h
  · cases a
    exact absurd hcyc (checkLoops_ok env mem ha l hl hleaf)
  · exact h

/-! ### the pass invariant -/

/-- what the passes keep: the ledger is sound, every calendar of the table is total, done tasks are complete -/
def PassInv (env : Env) (σ : SS) : Prop := LedgerOK env σ ∧ CalsOK σ.res ∧ DoneFull σ

theorem fwdPlace_passInv (env : Env) (σ σ' : SS) (t : Uid) (v : Time) (hi : PassInv env σ) (ht : t ∉ σ.done)
    (h : fwdPlace env σ t v = .ok σ') : PassInv env σ' := by
  obtain ⟨he, hd⟩ := fwdPlace_ext env σ σ' t v ht h
  refine ⟨fwdPlace_ledger env σ σ' t v hi.1 h, ?_, place_doneFull σ σ' t hi.2.2 he hd (fwdPlace_full env σ σ' t v h)⟩
  obtain ⟨new, σm, hs, rfl, _⟩ := fwdPlace_stage env σ σ' t v h
  exact place_cals_of_stage env σ σm t new hi.2.1 hs

theorem bwdPlace_passInv (env : Env) (σ σ' : SS) (t : Uid) (m v : Time) (hi : PassInv env σ) (ht : t ∉ σ.done)
    (h : bwdPlace env σ t m v = .ok σ') : PassInv env σ' := by
  obtain ⟨he, hd⟩ := bwdPlace_ext env σ σ' t m v ht h
  refine ⟨bwdPlace_ledger env σ σ' t m v hi.1 h, ?_,
    place_doneFull σ σ' t hi.2.2 he hd (bwdPlace_full env σ σ' t m v h)⟩
  obtain ⟨new, σm, hs, rfl, _⟩ := bwdPlace_stage env σ σ' t m v h
  exact place_cals_of_stage env σ σm t new hi.2.1 hs

theorem place_kids_full (env : Env) (σ : SS) (t : Uid) (hi : PassInv env σ) (ht : t ∉ σ.done)
    (hk : ∀ c ∈ (env.info t).children, c ∈ σ.done) : ∀ c ∈ (env.info t).children, c ≠ t ∧ Full (σ.f c) :=
  fun c hc => ⟨fun h => ht (h ▸ hk c hc), hi.2.2 c (hk c hc)⟩

theorem PassInv.init (env : Env) (σ : SS) (hr : σ.rows = []) (hd : σ.done = []) (hc : CalsOK σ.res) :
    PassInv env σ :=
  ⟨LedgerOK.init env σ hr, hc, fun x hx => by rw [hd] at hx; cases hx⟩

/-! ### no cycle of calls after the pre-check -/

theorem fwd_call_acyclic (env : Env) (hw : WFE env) (mem : List Uid) (hm : members env = some mem)
    (hwait : ∀ l ∈ mem, (env.info l).children.isEmpty = true → ¬ TC (waitsE env) l l) :
    ∀ x, ¬ TC (callE env (fun u => (env.info u).preds) (fun u => (env.info u).children) (· ∈ mem)) x x := by
  refine call_acyclic env hw _ _ _ (waitsE env) (fun _ _ h => h) ?_ ?_
  · intro a b ha hb _ l l' hl hl'
    exact waitsFor_mem env hw mem hm ha hb hl hl'
  · intro x l hx hl
    refine hwait l ?_ hl.1
    rcases hl.2 with rfl | h
    · exact hx
    · exact members_desc env mem hm hx h

theorem bwd_call_acyclic (env : Env) (hw : WFE env) (mem : List Uid) (hm : members env = some mem)
    (hwait : ∀ l ∈ mem, (env.info l).children.isEmpty = true → ¬ TC (waitsE env) l l) :
    ∀ x, ¬ TC (callE env (fun u => (env.info u).succs) (fun u => (env.info u).children.reverse) (· ∈ mem)) x x := by
  have hfl : ∀ t, (env.info t).member = true ↔ t ∈ mem := fun t => by
    rw [← memberList_eq env mem hm]; exact hw.flags t
  refine call_acyclic env hw _ _ _ (fun l l' => waitsE env l' l) (fun _ _ h => List.mem_reverse.1 h) ?_ ?_
  · intro a b ha hb hmb l l' hl hl'
    have hbm : b ∈ mem := (hfl b).1 (hmb.trans ((hfl a).2 ha))
    exact waitsFor_mem env hw mem hm hbm ((hw.sym a b).2 hb) hl' hl
  · intro x l hx hl hcyc
    refine hwait l ?_ hl.1 (TC.flip hcyc)
    rcases hl.2 with rfl | h
    · exact hx
    · exact members_desc env mem hm hx h

/-! ### the passes over the roots -/

theorem fwdRun_nocrash (env : Env) (f0 : Uid → Fields) (res0 : List (Option Nat × Cal)) (hw : WFE env)
    (hc : CalsOK res0) (mem : List Uid) (hm : members env = some mem)
    (hwait : ∀ l ∈ mem, (env.info l).children.isEmpty = true → ¬ TC (waitsE env) l l) :
    NoCrash (fwdRun env f0 res0) := by
  have hfl : ∀ t, (env.info t).member = true ↔ t ∈ mem := fun t => by
    rw [← memberList_eq env mem hm]; exact hw.flags t
  have hkids : ∀ t c, t ∈ mem → c ∈ (env.info t).children → c ∈ mem := fun t c ht hc =>
    members_children env mem hm t ht c hc
  have hlinks : ∀ t p, t ∈ mem → p ∈ (env.info t).preds → (env.info p).member = (env.info t).member → p ∈ mem :=
    fun t p ht _ he => (hfl p).1 (he.trans ((hfl t).2 ht))
  unfold fwdRun
  rw [hm]
  refine NoCrash.bind (NoCrash.pure _) ?_
  intro mem' hmem'
  cases hmem'
  refine NoCrash.bind ?_ (fun _ _ => NoCrash.pure _)
  refine passList_nocrash (PassInv env) _ _ ?_ _ (PassInv.init env _ rfl rfl hc)
  intro σ r hr hi
  have hrm : r ∈ mem := members_root env mem hm r hr
  constructor
  · rw [fwdPass_eq_gPass]
    exact gPass_nocrash env _ _ _ _ (fwdPlace_ext' env) (PassInv env) (· ∈ mem) env.n
      (fun σ σ' t _ v _ hi ht _ h => fwdPlace_passInv env σ σ' t v hi ht h)
      (fun σ t _ v _ hi ht hk => fwdPlace_nocrash env σ t v hi.2.1 hi.1.pos (place_kids_full env σ t hi ht hk))
      hkids hlinks (members_lt env hw mem hm) (fwd_call_acyclic env hw mem hm hwait)
      (env.n + 1) [] σ r env.bound hrm hi trivial (fun x hx => by cases hx) (by simp)
  · intro σ' h
    exact fwdPass_inv env (PassInv env) (· ∈ mem)
      (fun σ σ' t v _ hi ht _ h => fwdPlace_passInv env σ σ' t v hi ht h) hkids hlinks _ _ _ _ _ _ hrm hi h

theorem bwdRun_nocrash (env : Env) (f0 : Uid → Fields) (res0 : List (Option Nat × Cal)) (hw : WFE env)
    (hc : CalsOK res0) (mem : List Uid) (hm : members env = some mem)
    (hwait : ∀ l ∈ mem, (env.info l).children.isEmpty = true → ¬ TC (waitsE env) l l) :
    NoCrash (bwdRun env f0 res0) := by
  have hfl : ∀ t, (env.info t).member = true ↔ t ∈ mem := fun t => by
    rw [← memberList_eq env mem hm]; exact hw.flags t
  have hkids : ∀ t c, t ∈ mem → c ∈ (env.info t).children → c ∈ mem := fun t c ht hc =>
    members_children env mem hm t ht c hc
  have hlinks : ∀ t p, t ∈ mem → p ∈ (env.info t).succs → (env.info p).member = (env.info t).member → p ∈ mem :=
    fun t p ht _ he => (hfl p).1 (he.trans ((hfl t).2 ht))
  unfold bwdRun
  rw [hm]
  refine NoCrash.bind (NoCrash.pure _) ?_
  intro mem' hmem'
  cases hmem'
  refine NoCrash.bind ?_ (fun _ _ => NoCrash.pure _)
  refine passList_nocrash (PassInv env) _ _ ?_ _ (PassInv.init env _ rfl rfl hc)
  intro σ r hr hi
  have hrm : r ∈ mem := members_root env mem hm r (List.mem_reverse.1 hr)
  constructor
  · rw [bwdPass_eq_gPass]
    exact gPass_nocrash env _ _ _ _ (bwdPlace_ext' env) (PassInv env) (· ∈ mem) env.n
      (fun σ σ' t m v _ hi ht _ h => bwdPlace_passInv env σ σ' t m v hi ht h)
      (fun σ t m v _ hi ht hk => bwdPlace_nocrash env σ t m v hi.2.1 hi.1.pos
        (place_kids_full env σ t hi ht (fun c hc => hk c (List.mem_reverse.2 hc))))
      (fun t c ht hc => hkids t c ht (List.mem_reverse.1 hc)) hlinks (members_lt env hw mem hm)
      (bwd_call_acyclic env hw mem hm hwait)
      (env.n + 1) [] σ r env.bound hrm hi trivial (fun x hx => by cases hx) (by simp)
  · intro σ' h
    exact bwdPass_inv env (PassInv env) (· ∈ mem)
      (fun σ σ' t m v _ hi ht _ h => bwdPlace_passInv env σ σ' t m v hi ht h) hkids hlinks _ _ _ _ _ _ hrm hi h

/-! ### the two `calc` entry points -/

theorem fwdPrecheck_eq (env : Env) (f0 : Uid → Fields) (mem : List Uid) (hm : members env = some mem) :
    fwdPrecheck env f0 =
      if isolationOk env f0 mem = false then .error .runtime
      else match checkLoops env mem with
        | .error e => .error e
        | .ok _ =>
          if mem.any (fun t => match (f0 t).end_ with | some e => decide (env.clock 0 < e) | none => false) = true
          then .error .runtime else .ok () := by
  unfold fwdPrecheck
  rw [hm]
  cases hi : isolationOk env f0 mem <;> cases hc : checkLoops env mem <;>
    simp only [bind, Except.bind, pure, Except.pure, throw, throwThe, MonadExceptOf.throw, hc, hi]
  all_goals rfl

theorem bwdPrecheck_eq (env : Env) (f0 : Uid → Fields) (mem : List Uid) (hm : members env = some mem) :
    bwdPrecheck env f0 =
      if isolationOk env f0 mem = false then .error .runtime else checkLoops env mem := by
  unfold bwdPrecheck
  rw [hm]
  cases hi : isolationOk env f0 mem <;>
    simp only [bind, Except.bind, pure, Except.pure, throw, throwThe, MonadExceptOf.throw, hi]
  all_goals rfl

theorem fwdPrecheck_nocrash (env : Env) (f0 : Uid → Fields) (hw : WFE env) : NoCrash (fwdPrecheck env f0) := by
  obtain ⟨mem, hm⟩ := hw.members_total
  rw [fwdPrecheck_eq env f0 mem hm]
  split
  · exact NoCrash.runtime
  · have hnc := checkLoops_nocrash env hw mem (members_lt env hw mem hm)
    split
    · rename_i e he
      intro k hk
      cases hk
      exact hnc k he
    · split
      · exact NoCrash.runtime
      · exact NoCrash.ok _

theorem bwdPrecheck_nocrash (env : Env) (f0 : Uid → Fields) (hw : WFE env) : NoCrash (bwdPrecheck env f0) := by
  obtain ⟨mem, hm⟩ := hw.members_total
  rw [bwdPrecheck_eq env f0 mem hm]
  split
  · exact NoCrash.runtime
  · exact checkLoops_nocrash env hw mem (members_lt env hw mem hm)

theorem fwdPrecheck_ok (env : Env) (f0 : Uid → Fields) (mem : List Uid) (hm : members env = some mem)
    (h : fwdPrecheck env f0 = .ok ()) : checkLoops env mem = .ok () := by
  rw [fwdPrecheck_eq env f0 mem hm] at h
  split at h
  · cases h
  · split at h
    · cases h
    · rename_i u hu
      exact hu

theorem bwdPrecheck_ok (env : Env) (f0 : Uid → Fields) (mem : List Uid) (hm : members env = some mem)
    (h : bwdPrecheck env f0 = .ok ()) : checkLoops env mem = .ok () := by
  rw [bwdPrecheck_eq env f0 mem hm] at h
  split at h
  · cases h
  · exact h

theorem forwardCalc_nocrash (env : Env) (f0 : Uid → Fields) (res0 : List (Option Nat × Cal)) (hw : WFE env)
    (hc : CalsOK res0) : NoCrash (forwardCalc env f0 res0) := by
  obtain ⟨mem, hm⟩ := hw.members_total
  unfold forwardCalc
  refine NoCrash.bind (fwdPrecheck_nocrash env f0 hw) ?_
  intro u hu
  exact fwdRun_nocrash env f0 res0 hw hc mem hm (checkLoops_ok env mem (fwdPrecheck_ok env f0 mem hm hu))

theorem backwardCalc_nocrash (env : Env) (f0 : Uid → Fields) (res0 : List (Option Nat × Cal)) (hw : WFE env)
    (hc : CalsOK res0) : NoCrash (backwardCalc env f0 res0) := by
  obtain ⟨mem, hm⟩ := hw.members_total
  unfold backwardCalc
  refine NoCrash.bind (bwdPrecheck_nocrash env f0 hw) ?_
  intro u hu
  exact bwdRun_nocrash env f0 res0 hw hc mem hm (checkLoops_ok env mem (bwdPrecheck_ok env f0 mem hm hu))

theorem c14Outcome_of_nocrash (r : Res Output) (h : NoCrash r) : c14Outcome r = true := by
  rcases h.cases with ⟨a, rfl⟩ | rfl <;> rfl

/-! ### the diagnoses -/

theorem reachB_sound (next : Uid → List Uid) (t : Uid) : ∀ (k : Nat) (seen frontier : List Uid),
    (∀ x ∈ seen, TC (fun a b => b ∈ next a) t x) → (∀ x ∈ frontier, x = t ∨ TC (fun a b => b ∈ next a) t x) →
    ∀ x ∈ reachB next k seen frontier, TC (fun a b => b ∈ next a) t x := by
  intro k
  induction k with
  | zero => intro seen frontier hs _ x hx; exact hs x hx
  | succ k ih =>
    intro seen frontier hs hf x hx
    simp only [reachB] at hx
    have hnew : ∀ y ∈ (frontier.flatMap next).eraseDups.filter (fun x => !seen.contains x),
        TC (fun a b => b ∈ next a) t y := by
      intro y hy
      have hy' := List.mem_eraseDups.1 (List.mem_filter.1 hy).1
      obtain ⟨z, hz, hyz⟩ := List.mem_flatMap.1 hy'
      rcases hf z hz with rfl | hz'
      · exact TC.single hyz
      · exact TC.tail hz' hyz
    split at hx
    · exact hs x hx
    · refine ih _ _ ?_ (fun y hy => Or.inr (hnew y hy)) x hx
      intro y hy
      rcases List.mem_append.1 hy with hy | hy
      · exact hs y hy
      · exact hnew y hy

theorem reachFrom_sound (next : Uid → List Uid) (n : Nat) (t x : Uid) (h : x ∈ reachFrom next n t) :
    TC (fun a b => b ∈ next a) t x :=
  reachB_sound next t (n + 1) [] [t] (fun _ hx => by cases hx) (fun y hy => Or.inl (by simpa using hy)) x h

theorem waitCycle_spec (env : Env) (mem : List Uid) (hm : members env = some mem) (h : waitCycle env = true) :
    ∃ l ∈ mem, (env.info l).children.isEmpty = true ∧ TC (waitsE env) l l := by
  unfold waitCycle at h
  rw [memberList_eq env mem hm, List.any_eq_true] at h
  obtain ⟨l, hl, hc⟩ := h
  obtain ⟨hlm, hleaf⟩ := List.mem_filter.1 hl
  exact ⟨l, hlm, hleaf, reachFrom_sound _ _ _ _ (List.contains_iff_mem.1 hc)⟩

theorem forwardCalc_diagnoses (env : Env) (f0 : Uid → Fields) (res0 : List (Option Nat × Cal)) (hw : WFE env)
    (hd : c14MustDiagnose env f0 true = true) : forwardCalc env f0 res0 = .error .runtime := by
  obtain ⟨mem, hm⟩ := hw.members_total
  have hpre : fwdPrecheck env f0 = .error .runtime := by
    rw [fwdPrecheck_eq env f0 mem hm]
    unfold c14MustDiagnose at hd
    rw [memberList_eq env mem hm] at hd
    simp only [Bool.or_eq_true, Bool.and_eq_true, Bool.not_eq_true', true_and] at hd
    split
    · rfl
    · rename_i hiso
      have hnc := checkLoops_nocrash env hw mem (members_lt env hw mem hm)
      rcases hnc.cases with ⟨u, hu⟩ | he
      · rw [hu]
        simp only
        rcases hd with (hd | hd) | hd
        · exact absurd hd hiso
        · obtain ⟨l, hl, hleaf, hcyc⟩ := waitCycle_spec env mem hm hd
          rw [checkLoops_cycle env hw mem (members_lt env hw mem hm) l hl hleaf hcyc] at hu
          cases hu
        · exact if_pos hd
      · rw [he]
  unfold forwardCalc
  rw [hpre]
  rfl

theorem backwardCalc_diagnoses (env : Env) (f0 : Uid → Fields) (res0 : List (Option Nat × Cal)) (hw : WFE env)
    (hd : c14MustDiagnose env f0 false = true) : backwardCalc env f0 res0 = .error .runtime := by
  obtain ⟨mem, hm⟩ := hw.members_total
  have hpre : bwdPrecheck env f0 = .error .runtime := by
    rw [bwdPrecheck_eq env f0 mem hm]
    unfold c14MustDiagnose at hd
    rw [memberList_eq env mem hm] at hd
    simp only [Bool.or_eq_true, Bool.not_eq_true', Bool.false_and, Bool.or_false] at hd
    split
    · rfl
    · rename_i hiso
      rcases hd with hd | hd
      · exact absurd hd hiso
      · obtain ⟨l, hl, hleaf, hcyc⟩ := waitCycle_spec env mem hm hd
        exact checkLoops_cycle env hw mem (members_lt env hw mem hm) l hl hleaf hcyc
  unfold backwardCalc
  rw [hpre]
  rfl

end Pj
