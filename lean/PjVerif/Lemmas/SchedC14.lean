/-
  Lemmas/SchedC14.lean — helper lemmas for Props/C14.lean (pass-level reasoning on top of Lemmas/SchedPass.lean).
-/
import PjVerif.Lemmas.SchedPass
import PjVerif.Spec.Sched2
namespace Pj

end Pj
