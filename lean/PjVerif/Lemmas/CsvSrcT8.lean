/-
  Lemmas/CsvSrcT8.lean — CSV I/O, READ side: the store a run of `raws_to_wbs` returns (`finalSt`), read off in closed form:
  `roots` of the WBS object, and for the task of every row its `id`, `parent`, `children` (T7) and `predecessors`
  (the tasks `tasks_by_id` holds for the predecessor ids of the row, in order).
-/
import PjVerif.Lemmas.CsvSrcT7
namespace Pj.CsvSrc
open Pj.PyLite Pj.Extracted.Csv Pj.Csv

/-! ### slots the second loop does not write -/

theorem setParent_get (st : PState) (t p j : Nat) (g : String) (h1 : "children" ≠ g) (h2 : "parent" ≠ g) :
    ((setParent st t p).heap j).get? g = (st.heap j).get? g := by
  rw [setParent_eq]
  show (heapSet _ _ _ _ j).get? g = _
  rw [heapSet_get_ne _ _ _ _ _ _ h2, heapSet_get_ne _ _ _ _ _ _ h1]
  unfold unlinkH
  generalize (st.heap t).get? "parent" = w
  cases w with
  | none => rfl
  | some v =>
    cases v with
    | atom a =>
      cases a with
      | ref o => exact heapSet_get_ne _ _ _ _ _ _ h1
      | _ => rfl
    | _ => rfl

theorem fold_get (D : List (Atom × Atom)) (hD : ∀ k v, Dict.get? D k = some v → ∃ q, v = .ref q) (g : String)
    (h1 : "children" ≠ g) (h2 : "parent" ≠ g) : ∀ (rows : List LinkRow) (s : PState × List Atom) (j : Nat),
    ((linkFold D rows s).1.heap j).get? g = (s.1.heap j).get? g
  | [], _, _ => rfl
  | r :: rows, s, j => by
    show ((linkFold D rows (linkStep D r.t r.p s)).1.heap j).get? g = _
    rw [fold_get D hD g h1 h2 rows, linkStep_eq D hD]
    cases parOf D r.p with
    | none => rfl
    | some q => exact (setParent_get _ r.t q j g h1 h2).trans (setParent_get _ r.t q j g h1 h2)

/-! ### slots the third loop does not write -/

theorem predFold_get (t : Nat) (g : String) (h1 : "predecessors" ≠ g) (h2 : "successors" ≠ g) :
    ∀ (ps : List Nat) (st : PState) (j : Nat), ((predFold t ps st).heap j).get? g = (st.heap j).get? g
  | [], _, _ => rfl
  | p :: ps, st, j => (predFold_get t g h1 h2 ps _ j).trans (predStep_get st t p j g h1 h2)

theorem predAll_get (g : String) (h1 : "predecessors" ≠ g) (h2 : "successors" ≠ g) :
    ∀ (rows : List PredRow) (st : PState) (j : Nat), ((predAll rows st).heap j).get? g = (st.heap j).get? g
  | [], _, _ => rfl
  | r :: rows, st, j => (predAll_get g h1 h2 rows _ j).trans (predFold_get r.t g h1 h2 r.ps st j)

/-! ### the `predecessors` lists -/

def predsL (h : Nat → PyLite.Env) (j : Nat) : List Atom := listSlot h j "predecessors"

theorem predStep_preds (st : PState) (t p j : Nat) :
    predsL (predStep st t p).heap j = if j = t then predsL st.heap t ++ [Atom.ref p] else predsL st.heap j := by
  unfold predStep predsL
  simp only
  rw [listSlot_heapSet_ne _ _ _ _ _ _ (by decide), listSlot_heapSet_same]

theorem predFold_preds (t : Nat) : ∀ (ps : List Nat) (st : PState) (j : Nat),
    predsL (predFold t ps st).heap j = if j = t then predsL st.heap t ++ ps.map Atom.ref else predsL st.heap j
  | [], st, j => by by_cases hj : j = t <;> simp [predFold, hj]
  | p :: ps, st, j => by
    show predsL (predFold t ps (predStep st t p)).heap j = _
    rw [predFold_preds t ps, predStep_preds, predStep_preds]
    by_cases hj : j = t
    · simp [hj, List.append_assoc]
    · simp [hj]

theorem predAll_preds_other (j : Nat) : ∀ (rows : List PredRow) (st : PState), (∀ r ∈ rows, j ≠ r.t) →
    predsL (predAll rows st).heap j = predsL st.heap j
  | [], _, _ => rfl
  | r :: rows, st, h => by
    show predsL (predAll rows (predFold r.t r.ps st)).heap j = _
    rw [predAll_preds_other j rows _ (fun r' hr' => h r' (List.mem_cons_of_mem _ hr')), predFold_preds,
      if_neg (h r (List.mem_cons_self ..))]

theorem predAll_preds : ∀ (rows : List PredRow) (st : PState), rows.Pairwise (fun x y => x.t ≠ y.t) →
    ∀ r ∈ rows, predsL (predAll rows st).heap r.t = predsL st.heap r.t ++ r.ps.map Atom.ref
  | [], _, _, r, h => by cases h
  | r0 :: rows, st, hpw, r, h => by
    rw [List.pairwise_cons] at hpw
    show predsL (predAll rows (predFold r0.t r0.ps st)).heap r.t = _
    rcases List.mem_cons.1 h with rfl | h
    · rw [predAll_preds_other r.t rows _ (fun r' hr' => hpw.1 r' hr'), predFold_preds, if_pos rfl]
    · rw [predAll_preds rows _ hpw.2 r h, predFold_preds, if_neg (fun e => hpw.1 r h e.symm)]

/-! ### the store a run returns -/

section final
variable (st : PState) (os : List Nat)

/-- the store `raws_to_wbs_run'` returns -/
def finalSt : PState := predAll (predRows st os) (treeSt st os)

theorem final_same : SameTree (treeSt st os) (finalSt st os) := predAll_same _ _

theorem kids_of_get (h h' : Nat → PyLite.Env) (j : Nat) (e : (h j).get? "children" = (h' j).get? "children") :
    kids h j = kids h' j := by
  unfold kids listSlot; rw [e]

/-- `wbs.roots`: the rows whose parent id is None or names no row, in row order -/
theorem final_roots : ((finalSt st os).heap (wbsRef st os)).get? "roots" =
    some (.list (((linkRows st.heap st.reads os).filter (fun r => parOf (idDict st os) r.p == none)).map
      (fun r => Atom.ref r.t))) := by
  rw [(final_same st os).roots, treeSt_wbs, linked_roots]; rfl

theorem final_id (x : LinkRow) (hx : x ∈ linkRows st.heap st.reads os) :
    ((finalSt st os).heap x.t).get? "id" = some (.atom x.a) := by
  rw [(final_same st os).id, tree_id st os x hx]

/-- `t.children`: the rows whose parent id names `t`, in row order -/
theorem final_kids (x : LinkRow) (hx : x ∈ linkRows st.heap st.reads os) :
    kids (finalSt st os).heap x.t =
      ((linkRows st.heap st.reads os).filter (fun r => parOf (idDict st os) r.p == some x.t)).map
        (fun r => Atom.ref r.t) := by
  rw [kids_of_get _ _ _ ((final_same st os).children x.t),
    kids_congr _ _ _ (treeSt_other st os _ (row_ne_wbs st os x hx)), linked_kids st os x hx]

/-- `t.parent`: the task `tasks_by_id` holds for the parent id, None for a root -/
theorem final_parent (x : LinkRow) (hx : x ∈ linkRows st.heap st.reads os) :
    ((finalSt st os).heap x.t).get? "parent" =
      some (.atom (match parOf (idDict st os) x.p with | some q => .ref q | none => .none)) := by
  unfold finalSt
  rw [predAll_get "parent" (by decide) (by decide), treeSt_other st os _ (row_ne_wbs st os x hx)]
  exact linked_parent st os x hx

theorem tree_preds (x : LinkRow) (hx : x ∈ linkRows st.heap st.reads os) : predsL (treeSt st os).heap x.t = [] := by
  unfold predsL listSlot
  rw [treeSt_other st os _ (row_ne_wbs st os x hx)]
  unfold linked
  rw [fold_get (idDict st os) (idDict_refs st os) "predecessors" (by decide) (by decide), tasksSt_at st os x hx,
    mkTask_get _ "predecessors" (.list []) (by simp [taskEnvOf, envGet_cons])]

theorem predRows_pairwise : (predRows st os).Pairwise (fun x y => x.t ≠ y.t) := by
  unfold predRows
  rw [List.pairwise_map]
  exact linkRows_pairwise _ _ _

/-- `t.predecessors`: the tasks `tasks_by_id` holds for the predecessor ids of the row, in order -/
theorem final_preds (x : LinkRow) (hx : x ∈ linkRows st.heap st.reads os) :
    predsL (finalSt st os).heap x.t =
      ((predsOf (st.heap x.o)).filterMap (dictRef (idDict st os))).map Atom.ref := by
  unfold finalSt
  have hm : (⟨x.o, x.a, x.t, predsOf (st.heap x.o), (predsOf (st.heap x.o)).filterMap (dictRef (idDict st os))⟩ : PredRow) ∈
      predRows st os := List.mem_map.2 ⟨x, hx, rfl⟩
  rw [predAll_preds _ _ (predRows_pairwise st os) _ hm]
  show predsL (treeSt st os).heap x.t ++ _ = _
  rw [tree_preds st os x hx]; rfl

end final

end Pj.CsvSrc
