/-
  Lemmas/CsvSrcT9.lean — CSV I/O, READ side: `read_csv` (translated) on a file = the store `finalSt` (`read_csv_run`:
  `read_csv_reduce` and `raws_to_wbs_run'` composed; the hypotheses of the latter on the raw objects of the data rows).
-/
import PjVerif.Lemmas.CsvSrcT8
namespace Pj.CsvSrc
open Pj.PyLite Pj.Extracted.Csv Pj.Csv

theorem rawRefs_zero (n : Nat) : rawRefs 0 n = (List.range n).map Atom.ref := by
  simp [rawRefs]

/-- `read_csv(path)`: the WBS object and the store `finalSt` over the raw objects of the data rows -/
theorem read_csv_run (L : IOLib) (F : Nat) (text : List Char) (hdr : List Str) (rows : List (List Str))
    (es : List PyLite.Env) (hp : parse text = some (hdr :: rows)) (hes : RowsRaw L hdr rows es)
    (hos : ∀ o ∈ List.range es.length, o < (readSt hdr rows es).reads ∧ RawOK2 ((readSt hdr rows es).heap o))
    (hpar : ParInv (readSt hdr rows es).reads (readSt hdr rows es))
    (hids : ((List.range es.length).map (fun o => slot ((readSt hdr rows es).heap o) "id")).Pairwise
      (fun a b => a.pyEq b = false))
    (hpreds : ∀ o ∈ List.range es.length, ∀ k ∈ predsOf ((readSt hdr rows es).heap o),
      (dictRef (idDict (readSt hdr rows es) (List.range es.length)) k).isSome)
    (hac : Acyclic (readSt hdr rows es) (List.range es.length)) :
    interpRead L (F + 3) text =
      .ok (.atom (.ref (wbsRef (readSt hdr rows es) (List.range es.length))),
        finalSt (readSt hdr rows es) (List.range es.length)) := by
  rw [read_csv_reduce L F text hdr rows es hp hes, rawRefs_zero]
  exact raws_to_wbs_run' L F _ _ hos hpar hids hpreds hac

end Pj.CsvSrc
