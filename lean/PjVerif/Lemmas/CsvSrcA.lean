/-
  Lemmas/CsvSrcA.lean — STAGE 1, general: the numbering of texts is injective (`strDecode_code`) and the translated cell
  parsers / formatters of csv_io.py equal the model's cell functions for EVERY text and EVERY library `L`.
-/
import PjVerif.Lemmas.CsvSrc
namespace Pj.CsvSrc
open Pj.PyLite Pj.Extracted.Csv Pj.Csv

theorem char_lt (c : Char) : c.toNat + 1 < strBase := by
  have h := c.valid
  simp only [UInt32.isValidChar, Nat.isValidChar] at h
  show c.val.toNat + 1 < 1114113
  omega

theorem strCode_cons (c : Char) (cs : List Char) : strCode (c :: cs) = c.toNat + 1 + strBase * strCode cs := rfl

theorem length_le_code : ∀ s : List Char, s.length ≤ strCode s
  | [] => Nat.le_refl _
  | c :: cs => by
    have ih := length_le_code cs
    have : strCode cs ≤ strBase * strCode cs := Nat.le_mul_of_pos_left _ (by decide)
    rw [strCode_cons, List.length_cons]; omega

theorem strDecodeF_code : ∀ (s : List Char) (f : Nat), s.length ≤ f → strDecodeF f (strCode s) = s
  | [], f, _ => by cases f <;> simp [strDecodeF, strCode]
  | c :: cs, 0, h => by simp at h
  | c :: cs, f + 1, h => by
    have hc := char_lt c
    have hb : 0 < strBase := by decide
    have hne : strCode (c :: cs) ≠ 0 := by rw [strCode_cons]; omega
    have hmod : strCode (c :: cs) % strBase = c.toNat + 1 := by
      rw [strCode_cons, Nat.add_mul_mod_self_left, Nat.mod_eq_of_lt hc]
    have hdiv : strCode (c :: cs) / strBase = strCode cs := by
      rw [strCode_cons, Nat.add_mul_div_left _ _ hb, Nat.div_eq_of_lt hc, Nat.zero_add]
    rw [strDecodeF, if_neg hne, hmod, hdiv, strDecodeF_code cs f (by simpa using h)]
    simp [Char.ofNat_toNat]

/-- the numbering of texts is injective: a text is recovered from its atom -/
theorem strDecode_code (s : List Char) : strDecode (strCode s) = s :=
  strDecodeF_code s _ (length_le_code s)

theorem strCode_inj {s t : List Char} (h : strCode s = strCode t) : s = t := by
  rw [← strDecode_code s, ← strDecode_code t, h]

theorem strCode_eq_zero {s : List Char} : strCode s = 0 ↔ s = [] := by
  constructor
  · intro h; exact strCode_inj (h.trans rfl)
  · intro h; subst h; rfl

/-- Python `==` on two texts -/
theorem pyEq_strA (s t : List Char) : (strA s).pyEq (strA t) = decide (s = t) := by
  simp only [Atom.pyEq, strA, Atom.norm]
  by_cases h : s = t
  · subst h; simp
  · have : strCode s ≠ strCode t := fun e => h (strCode_inj e)
    simp [h, this]

/-! ### the cell functions, for every text and every library -/

theorem progIO_prim (p f t) (F : Nat) : (progIO p f t F).prim = p := by cases F <;> rfl

theorem prim_lit_empty (L : IOLib) (st : PState) : ioPrim L "lit:" [] st = .ok (.atom (strA [])) := by
  unfold ioPrim; rw [if_pos (by decide +kernel)]; rfl
theorem prim_lit_True (L : IOLib) (st : PState) : ioPrim L "lit:True" [] st = .ok (.atom (litA "True")) := by
  unfold ioPrim; rw [if_pos (by decide +kernel)]; rfl
theorem prim_strlen (L : IOLib) (st : PState) (s : List Char) :
    ioPrim L "strlen" [strA s] st = .ok (.atom (.num ((s.length : Nat) : Rat))) := by
  unfold ioPrim; rw [if_neg (by decide +kernel), if_neg (by decide +kernel), if_pos (by decide +kernel)]
  simp [strA, strDecode_code, pure, Except.pure]

/-- `__parse_str` = the model's `nonEmpty` -/
theorem parse_str_eq (L : IOLib) (F : Nat) (s : List Char) :
    interpCell L (F + 1) fn_parse_str (strA s) = .ok (.atom (optStr (nonEmpty s))) := by
  simp [interpCell, runIO, progIO, csvFuns, fn_parse_str, fn_parse_header, src_parse_str, src_parse_str_params, callPV,
    bindParamsV, execBlockP, Stmt.execP, Expr.evalP, PyLite.Env.get?, prim_lit_empty, progIO_prim, pure,
    Except.pure, bind, Except.bind, Except.map, PyLite.compare, pyEq_strA, truthP]
  by_cases h : s = [] <;> simp [h, nonEmpty, optStr, Except.map]

#print axioms strDecode_code
#print axioms parse_str_eq

end Pj.CsvSrc
