/-
  Lemmas/SchedC08.lean — helper lemmas for Props/C08.lean (pass-level reasoning on top of Lemmas/SchedPass.lean).
  Everything lives in the namespace `Pj.C08` (sibling helper files prove similar small facts under the same names).
-/
import PjVerif.Lemmas.SchedPass
import PjVerif.Spec.Sched2
namespace Pj.C08

/-! ### dates -/

theorem le_maxT_left (a b : Time) : a ≤ maxT a b := by unfold maxT; split <;> grind
theorem le_maxT_right (a b : Time) : b ≤ maxT a b := by unfold maxT; split <;> grind
theorem maxT_cases (a b : Time) : maxT a b = a ∨ maxT a b = b := by unfold maxT; split <;> simp
theorem maxT_eq_left {a b : Time} (h : b ≤ a) : maxT a b = a := by unfold maxT; split <;> grind
theorem maxT_eq_right {a b : Time} (h : a ≤ b) : maxT a b = b := by unfold maxT; split <;> grind

theorem le_foldl_maxT : ∀ (l : List Time) (a : Time), a ≤ l.foldl maxT a ∧ ∀ x ∈ l, x ≤ l.foldl maxT a
  | [], a => by simp
  | y :: l, a => by
    obtain ⟨h1, h2⟩ := le_foldl_maxT l (maxT a y)
    have := le_maxT_left a y
    have := le_maxT_right a y
    refine ⟨by simp only [List.foldl_cons]; grind, ?_⟩
    intro x hx
    simp only [List.foldl_cons]
    rcases List.mem_cons.1 hx with rfl | hx
    · grind
    · exact h2 x hx

theorem foldl_maxT_mem : ∀ (l : List Time) (a : Time), l.foldl maxT a = a ∨ l.foldl maxT a ∈ l
  | [], a => by simp
  | y :: l, a => by
    simp only [List.foldl_cons, List.mem_cons]
    rcases foldl_maxT_mem l (maxT a y) with h | h
    · rcases maxT_cases a y with h' | h'
      · left; rw [h, h']
      · right; left; rw [h, h']
    · right; right; exact h

theorem le_maxEnds (σ : SS) (l : List Uid) (m : Time) : m ≤ maxEnds σ l m := (le_foldl_maxT _ m).1

/-- `maxEnds` is the bound handed in or the end of one of the listed tasks -/
theorem maxEnds_cases (σ : SS) (l : List Uid) (m : Time) :
    maxEnds σ l m = m ∨ ∃ p ∈ l, (σ.f p).end_ = some (maxEnds σ l m) := by
  rcases foldl_maxT_mem (l.filterMap (fun t => (σ.f t).end_)) m with h | h
  · exact Or.inl h
  · obtain ⟨p, hp, he⟩ := List.mem_filterMap.1 h
    exact Or.inr ⟨p, hp, he⟩

theorem maxEnds_congr (σ σ' : SS) (l : List Uid) (m : Time) (h : ∀ p ∈ l, (σ'.f p).end_ = (σ.f p).end_) :
    maxEnds σ' l m = maxEnds σ l m := by
  have : l.filterMap (fun t => (σ'.f t).end_) = l.filterMap (fun t => (σ.f t).end_) := by
    induction l with
    | nil => rfl
    | cons x l ih =>
      simp only [List.filterMap_cons, h x List.mem_cons_self,
        ih (fun p hp => h p (List.mem_cons_of_mem _ hp))]
  unfold maxEnds
  rw [this]

theorem dayOf_mono {a b : Time} (h : a ≤ b) : dayOf a ≤ dayOf b := by
  unfold dayOf
  exact Rat.le_floor_iff.2 (Rat.le_trans (Rat.floor_le a) h)

theorem dayOf_le_self (a : Time) : ((dayOf a : Int) : Rat) ≤ a := Rat.floor_le a

theorem lt_dayOf_succ (a : Time) : a < ((dayOf a + 1 : Int) : Rat) := by
  unfold dayOf
  exact Rat.floor_lt_iff.1 (by omega)

/-- a time on an earlier day is earlier than the midnight of a later day -/
theorem lt_of_dayOf_lt {a : Time} {d : Int} (h : dayOf a < d) : a < (d : Rat) := by
  have h1 := lt_dayOf_succ a
  have h2 : ((dayOf a + 1 : Int) : Rat) ≤ (d : Rat) := Rat.intCast_le_intCast.2 (by omega)
  grind

theorem le_of_lt_le_lt {a b c d : Rat} (h1 : a < b) (h2 : b ≤ c) (h3 : c < d) : a ≤ d := by grind

theorem div_le_div_right {a b c : Rat} (h : a ≤ b) (hc : 0 < c) : a / c ≤ b / c := by
  rw [Rat.div_def, Rat.div_def]
  exact Rat.mul_le_mul_of_nonneg_right h (Rat.le_of_lt (Rat.inv_pos.2 hc))

/-! ### a sharper induction principle for the forward pass -/

/-- tasks of the list that satisfy `C` are done at the end when every step on such a task leaves it done -/
theorem passList_done_of (C : Uid → Prop) (step : SS → Uid → Res SS) :
    ∀ (xs : List Uid), (∀ σ x σ', x ∈ xs → step σ x = .ok σ' → Ext σ σ' ∧ (C x → x ∈ σ'.done)) →
      ∀ (σ σ' : SS), passList step σ xs = .ok σ' → ∀ x ∈ xs, C x → x ∈ σ'.done := by
  intro xs
  induction xs with
  | nil => intro _ σ σ' _ x hx; cases hx
  | cons y xs ih =>
    intro hstep σ σ' h x hx hc
    simp only [passList, bind, Except.bind] at h
    split at h
    · cases h
    · rename_i σ1 h1
      have hrest := fun σ z σ' (hz : z ∈ xs) => hstep σ z σ' (List.mem_cons_of_mem _ hz)
      rcases List.mem_cons.1 hx with rfl | hx
      · have he : Ext σ1 σ' := passList_rel Ext Ext.refl (fun _ _ _ => Ext.trans) step xs
          (fun σ z σ' hz hh => (hrest σ z σ' hz hh).1) σ1 σ' h
        exact he.done_sub ((hstep σ x σ1 List.mem_cons_self h1).2 hc)
      · exact ih hrest σ1 σ' h x hx hc

/-- like `fwdPass_inv`, but the invariant of a placement may depend on the bound handed down (`Q t m`), and the
    placement knows where its `maxPred` comes from: an earlier state `σ1` in which all the same-side predecessors
    were done -/
theorem fwdPass_inv2 (env : Env) (I : SS → Prop) (Q : Uid → Time → Prop)
    (hplace : ∀ σ1 σ σ' t m, Q t m → I σ → Ext σ1 σ →
      (∀ p ∈ (env.info t).preds, (env.info p).member = (env.info t).member → p ∈ σ1.done) →
      t ∉ σ.done → (∀ c ∈ (env.info t).children, c ∈ σ.done) →
      fwdPlace env σ t (maxEnds σ1 (env.info t).preds m) = .ok σ' → I σ')
    (hkids : ∀ t c σ1 m, Q t m → c ∈ (env.info t).children → Q c (maxEnds σ1 (env.info t).preds m))
    (hlinks : ∀ t p m, Q t m → p ∈ (env.info t).preds → (env.info p).member = (env.info t).member → Q p m) :
    ∀ (fuel : Nat) (stk : List Uid) (σ : SS) (t : Uid) (m : Time) (σ' : SS),
      Q t m → I σ → fwdPass env fuel stk σ t m = .ok σ' → I σ' := by
  intro fuel
  induction fuel with
  | zero => intro stk σ t m σ' _ _ h; cases h
  | succ fuel ih =>
    intro stk σ t m σ' hq hi h
    rw [fwdPass_eq_gPass] at h
    rcases gPass_succ_cases env _ _ _ _ fuel stk σ t m σ' h with ⟨hd, rfl⟩ | ⟨hd, hs, σ1, σ2, h1, h2, h3⟩
    · exact hi
    · simp only [← fwdPass_eq_gPass] at h1 h2
      have hx := fun a b c d hh => fwdPass_extS env fuel (t :: stk) a b c d hh
      have e1 : ExtS (t :: stk) σ σ1 := passList_extS _ _ _ (fun a x b _ hh => by
        split at hh
        · exact (hx _ _ _ _ hh).1
        · cases hh; exact ExtS.refl _ _) _ _ h1
      have e2 : ExtS (t :: stk) σ1 σ2 := passList_extS _ _ _ (fun a x b _ hh => (hx _ _ _ _ hh).1) _ _ h2
      have ht2 : t ∉ σ2.done := (e1.trans e2).2 t List.mem_cons_self hd
      have i1 : I σ1 := passList_inv I _ _ (fun a x b hxl ha hh => by
        split at hh
        · rename_i hm
          exact ih _ _ _ _ _ (hlinks t x m hq hxl (by simpa using hm)) ha hh
        · cases hh; exact ha) _ _ hi h1
      have i2 : I σ2 := passList_inv I _ _ (fun a x b hxl ha hh => ih _ _ _ _ _ (hkids t x σ1 m hq hxl) ha hh) _ _ i1 h2
      have hk : ∀ c ∈ (env.info t).children, c ∈ σ2.done := passList_all_done _ _ (fun a x b _ hh =>
        ⟨(hx _ _ _ _ hh).1.1, (hx _ _ _ _ hh).2⟩) _ _ h2
      have hp : ∀ p ∈ (env.info t).preds, (env.info p).member = (env.info t).member → p ∈ σ1.done :=
        passList_done_of (fun p => (env.info p).member = (env.info t).member) _ _ (fun a x b _ hh => by
          split at hh
          · exact ⟨(hx _ _ _ _ hh).1.1, fun _ => (hx _ _ _ _ hh).2⟩
          · rename_i hm
            cases hh
            exact ⟨Ext.refl _, fun hc => absurd (by simpa using hc) hm⟩) _ _ h1
      exact hplace σ1 σ2 σ' t m hq i2 e2.1 hp ht2 hk h3

/-! ### what the placement of a leaf without fixed dates computes -/

theorem setF_f_self (σ : SS) (t : Uid) (g : Fields → Fields) : ((setF σ t g).f t) = g (σ.f t) := by
  simp [setF, upd]

theorem fillEst_keeps (env : Env) (t : Uid) (σ σ' : SS) (h : fillEst env t σ = .ok σ') :
    (σ'.f t).start = (σ.f t).start ∧ (σ'.f t).end_ = (σ.f t).end_ := by
  unfold fillEst at h
  simp only [bind, Except.bind] at h
  split at h
  · cases h
  · rename_i σ1 h1
    have s1 : (σ1.f t).start = (σ.f t).start ∧ (σ1.f t).end_ = (σ.f t).end_ := by
      split at h1
      · cases h1; exact ⟨rfl, rfl⟩
      · split at h1
        · cases h1; simp [setF_f_self]
        · split at h1
          · cases h1
          · cases h1; simp [setF_f_self]
    have s2 : (σ'.f t).start = (σ1.f t).start ∧ (σ'.f t).end_ = (σ1.f t).end_ := by
      split at h
      · cases h; exact ⟨rfl, rfl⟩
      · split at h
        · cases h; simp [setF_f_self]
        · split at h
          · cases h
          · cases h; simp [setF_f_self]
    exact ⟨s2.1.trans s1.1, s2.2.trans s1.2⟩

theorem fwdStart_leaf (env : Env) (cal : Cal) (used : Int → Rat) (t : Uid) (v : Time) (σ σ' : SS)
    (hs : (σ.f t).start = none) (hl : (env.info t).children.isEmpty = true)
    (h : fwdStart env cal used t v σ = .ok σ') :
    ∃ s, nearestFwd cal used (maxT (maxT v (env.clock σ.reads)) ((env.info t).minStart.getD epoch)) = .ok s ∧
      (σ'.f t).start = some s ∧ (σ'.f t).end_ = (σ.f t).end_ := by
  unfold fwdStart at h
  simp only at h
  split at h
  · rename_i x hx; rw [hs] at hx; cases hx
  · split at h
    · simp only [bind, Except.bind] at h
      split at h
      · cases h
      · rename_i s hs'
        cases h
        exact ⟨s, hs', by simp [setF_f_self], by simp [setF_f_self, now]⟩
    · rename_i hc; exact absurd hl hc

theorem fwdEnd_leaf (env : Env) (cal : Cal) (used : Int → Rat) (t : Uid) (σ σ' : SS) (s : Time)
    (he : (σ.f t).end_ = none) (hs : (σ.f t).start = some s) (hl : (env.info t).children.isEmpty = true)
    (h : fwdEnd env cal used t σ = .ok σ') :
    ∃ e rows, shiftFwd cal used (maxT s (env.clock σ.reads)) (leftOf σ t) = .ok (e, rows) ∧
      (σ'.f t).start = some s ∧ (σ'.f t).end_ = some (maxT (if env.bound < env.clock (σ.reads + 1) then maxT e (env.clock (σ.reads + 1)) else e) s) ∧
      Stage env t rows σ σ' := by
  unfold fwdEnd at h
  simp only at h
  split at h
  · rename_i x hx; rw [he] at hx; cases hx
  · split at h
    · simp only [bind, Except.bind] at h
      split at h
      · cases h
      · rename_i v hv
        obtain ⟨e, rows⟩ := v
        cases h
        simp only [now, hs, Option.getD_some] at hv
        refine ⟨e, rows, hv, ?_, ?_, ?_⟩
        · simp [setF_f_self, now, addRows, hs]
        · simp only [setF_f_self, now, addRows, hs, Option.getD_some]
          rfl
        · exact ((((Stage.now env t σ).trans (Stage.addRows env t _ rows)).trans (Stage.now env t _)).trans
            (Stage.setF env t _ _)).cast (by simp)
    · rename_i hc; exact absurd hl hc

/-- the placement of a non-milestone leaf whose dates are both open: the start comes from the availability search,
    the end from the fill, and the rows of the fill are appended to the ledger -/
theorem fwdPlace_leaf (env : Env) (σ σ' : SS) (t : Uid) (v : Time)
    (hs : (σ.f t).start = none) (he : (σ.f t).end_ = none) (hl : (env.info t).children.isEmpty = true)
    (hm : (env.info t).milestone = false) (h : fwdPlace env σ t v = .ok σ') :
    ∃ s e rows k0 k1 k2 left, 0 ≤ left ∧
      nearestFwd (resLookup σ.res (env.info t).resource).2 (usedBy env σ.rows (env.info t).resource t)
        (maxT (maxT v (env.clock k0)) ((env.info t).minStart.getD epoch)) = .ok s ∧
      shiftFwd (resLookup σ.res (env.info t).resource).2 (usedBy env σ.rows (env.info t).resource t)
        (maxT s (env.clock k1)) left = .ok (e, rows) ∧
      (σ'.f t).start = some s ∧
      (σ'.f t).end_ = some (maxT (if env.bound < env.clock k2 then maxT e (env.clock k2) else e) s) ∧
      σ'.rows = σ.rows ++ rows.map (mkRow (env.info t).resource t) ∧
      σ'.res = (resLookup σ.res (env.info t).resource).1 := by
  unfold fwdPlace at h
  rcases hr : resLookup σ.res (env.info t).resource with ⟨res', cal⟩
  simp only [hr, bind, Except.bind, pure, Except.pure, hm] at h ⊢
  split at h
  · rename_i hc; cases hc
  split at h
  · cases h
  · rename_i σ1 h1
    split at h
    · cases h
    · rename_i σ2 h2
      split at h
      · cases h
      · rename_i σ3 h3
        cases h
        obtain ⟨s, hn, hs1, he1⟩ := fwdStart_leaf env cal _ t v { σ with res := res' } σ1 hs hl h1
        have st1 := fwdStart_stage _ _ _ _ _ _ _ h1
        obtain ⟨hs2, he2⟩ := fillEst_keeps env t σ1 σ2 h2
        have st2 := fillEst_stage _ _ _ _ h2
        obtain ⟨e, rows, hsh, hs3, he3, st3⟩ := fwdEnd_leaf env cal _ t σ2 σ3 s (by rw [he2, he1]; exact he)
          (by rw [hs2, hs1]) hl h3
        have st := (st1.trans st2).trans st3
        refine ⟨s, e, rows, _, _, _, _, leftOf_nonneg σ2 t, hn, hsh, hs3, he3, ?_, ?_⟩
        · have := st.rows
          simpa [markDone] using this
        · exact st.res

/-! ### first and last reserved day, rows of one task -/

theorem foldl_min_spec : ∀ (l : List Int) (a : Int),
    (l.foldl min a ≤ a ∧ ∀ x ∈ l, l.foldl min a ≤ x) ∧ (l.foldl min a = a ∨ l.foldl min a ∈ l)
  | [], a => by simp
  | y :: l, a => by
    obtain ⟨⟨h1, h2⟩, h3⟩ := foldl_min_spec l (min a y)
    simp only [List.foldl_cons, List.mem_cons]
    refine ⟨⟨by omega, ?_⟩, ?_⟩
    · intro x hx
      rcases hx with rfl | hx
      · omega
      · exact h2 x hx
    · rcases h3 with h | h
      · rcases Int.min_def a y ▸ (by split <;> simp : (if a ≤ y then a else y) = a ∨ (if a ≤ y then a else y) = y) with h' | h'
        · left; rw [h, h']
        · right; left; rw [h, h']
      · right; right; exact h

theorem foldl_max_spec : ∀ (l : List Int) (a : Int),
    (a ≤ l.foldl max a ∧ ∀ x ∈ l, x ≤ l.foldl max a) ∧ (l.foldl max a = a ∨ l.foldl max a ∈ l)
  | [], a => by simp
  | y :: l, a => by
    obtain ⟨⟨h1, h2⟩, h3⟩ := foldl_max_spec l (max a y)
    simp only [List.foldl_cons, List.mem_cons]
    refine ⟨⟨by omega, ?_⟩, ?_⟩
    · intro x hx
      rcases hx with rfl | hx
      · omega
      · exact h2 x hx
    · rcases h3 with h | h
      · rcases Int.max_def a y ▸ (by split <;> simp : (if a ≤ y then y else a) = a ∨ (if a ≤ y then y else a) = y) with h' | h'
        · left; rw [h, h']
        · right; left; rw [h, h']
      · right; right; exact h

theorem firstDay_cons (r : Row) (rs : List Row) :
    firstDay (r :: rs) = some ((rs.map (·.day)).foldl min r.day) := by
  unfold firstDay
  simp only [List.map_cons, List.foldl_cons]
  generalize r.day = a
  generalize rs.map (·.day) = l
  induction l generalizing a with
  | nil => rfl
  | cons y l ih => simp only [List.foldl_cons]; exact ih _

theorem lastDay_cons (r : Row) (rs : List Row) :
    lastDay (r :: rs) = some ((rs.map (·.day)).foldl max r.day) := by
  unfold lastDay
  simp only [List.map_cons, List.foldl_cons]
  generalize r.day = a
  generalize rs.map (·.day) = l
  induction l generalizing a with
  | nil => rfl
  | cons y l ih => simp only [List.foldl_cons]; exact ih _

/-- the first day of a list of rows is its least day -/
theorem firstDay_eq (rows : List Row) (d : Int) (hm : d ∈ rows.map (·.day)) (hle : ∀ x ∈ rows.map (·.day), d ≤ x) :
    firstDay rows = some d := by
  cases rows with
  | nil => cases hm
  | cons r rs =>
    rw [firstDay_cons]
    obtain ⟨⟨h1, h2⟩, h3⟩ := foldl_min_spec (rs.map (·.day)) r.day
    simp only [List.map_cons, List.mem_cons] at hm hle
    have hge : d ≤ (rs.map (·.day)).foldl min r.day := by
      rcases h3 with h | h
      · rw [h]; exact hle _ (Or.inl rfl)
      · exact hle _ (Or.inr h)
    have hle' : (rs.map (·.day)).foldl min r.day ≤ d := by
      rcases hm with rfl | hm
      · exact h1
      · exact h2 d hm
    congr 1
    omega

theorem lastDay_eq (rows : List Row) (d : Int) (hm : d ∈ rows.map (·.day)) (hle : ∀ x ∈ rows.map (·.day), x ≤ d) :
    lastDay rows = some d := by
  cases rows with
  | nil => cases hm
  | cons r rs =>
    rw [lastDay_cons]
    obtain ⟨⟨h1, h2⟩, h3⟩ := foldl_max_spec (rs.map (·.day)) r.day
    simp only [List.map_cons, List.mem_cons] at hm hle
    have hge : (rs.map (·.day)).foldl max r.day ≤ d := by
      rcases h3 with h | h
      · rw [h]; exact hle _ (Or.inl rfl)
      · exact hle _ (Or.inr h)
    have hle' : d ≤ (rs.map (·.day)).foldl max r.day := by
      rcases hm with rfl | hm
      · exact h1
      · exact h2 d hm
    congr 1
    omega

theorem reserved_none_task (rows : List Row) (t : Uid) (h : ∀ r ∈ rows, r.task ≠ t) (k : Option Nat) (d : Int) :
    reserved rows k d (some t) = 0 := by
  unfold reserved
  rw [List.filter_eq_nil_iff.2 (fun r hr => by simp [h r hr])]
  rfl

theorem rowsOf_none (rows : List Row) (t : Uid) (h : ∀ r ∈ rows, r.task ≠ t) : rowsOf rows t = [] := by
  unfold rowsOf
  exact List.filter_eq_nil_iff.2 (fun r hr => by simp [h r hr])

theorem rowsOf_append (a b : List Row) (t : Uid) : rowsOf (a ++ b) t = rowsOf a t ++ rowsOf b t := by
  simp [rowsOf, List.filter_append]

theorem rowsOf_mk (key : Option Nat) (t : Uid) (new : List (Int × Rat)) :
    rowsOf (new.map (mkRow key t)) t = new.map (mkRow key t) := by
  unfold rowsOf
  exact List.filter_eq_self.2 (fun r hr => by
    obtain ⟨p, _, rfl⟩ := List.mem_map.1 hr
    simp [mkRow])

theorem map_day_mk (key : Option Nat) (t : Uid) (new : List (Int × Rat)) :
    (new.map (mkRow key t)).map (·.day) = new.map (·.1) := by
  simp [List.map_map, Function.comp_def, mkRow]

theorem firstRowIdx_new (rows : List Row) (key : Option Nat) (t : Uid) (new : List (Int × Rat))
    (h : ∀ r ∈ rows, r.task ≠ t) (hne : new ≠ []) :
    firstRowIdx (rows ++ new.map (mkRow key t)) t = some rows.length := by
  unfold firstRowIdx
  rw [List.findIdx?_append]
  have h1 : rows.findIdx? (fun r => r.task == t) = none :=
    List.findIdx?_eq_none_iff.2 (fun r hr => by simp [h r hr])
  rw [h1]
  cases new with
  | nil => exact absurd rfl hne
  | cons p l => simp [mkRow, List.findIdx?_cons]

theorem daySum_nonneg (new : List (Int × Rat)) (hpos : ∀ p ∈ new, 0 < p.2) (d : Int) : 0 ≤ daySum new d := by
  unfold daySum
  apply sum_nonneg_rat
  intro x hx
  obtain ⟨y, hy, rfl⟩ := List.mem_map.1 hx
  exact Rat.le_of_lt (hpos y (List.mem_filter.1 hy).1)

/-! ### the encoding clause for one task -/

def outOf (σ : SS) : Output := { f := σ.f, rows := σ.rows, res := σ.res }

/-- the body of `c08Encode` for one task -/
def encT (env : Env) (o : Output) (t : Uid) : Bool :=
  let k := (env.info t).resource
  match firstDay (rowsOf o.rows t), lastDay (rowsOf o.rows t), (o.f t).start, (o.f t).end_ with
  | some d1, some d2, some s, some e =>
    let c1 := capMid o.res k d1
    let c2 := capMid o.res k d2
    decide (0 < c1) && decide (0 < c2) &&
    s == (d1 : Rat) + bookedBefore env o k d1 t / c1 &&
    e == (d2 : Rat) + bookedUpTo env o k d2 t / c2
  | none, none, _, _ => true
  | _, _, _, _ => false

theorem c08Encode_eq (env : Env) (f0 : Uid → Fields) (o : Output) :
    c08Encode env f0 o = (memberList env).all (fun t => !c08Subject env f0 t || encT env o t) := rfl

theorem encT_norows (env : Env) (o : Output) (t : Uid) (h : rowsOf o.rows t = []) : encT env o t = true := by
  unfold encT
  rw [h]
  rfl

theorem encT_of (env : Env) (o : Output) (t : Uid) (d1 d2 : Int) (s e : Time)
    (h1 : firstDay (rowsOf o.rows t) = some d1) (h2 : lastDay (rowsOf o.rows t) = some d2)
    (h3 : (o.f t).start = some s) (h4 : (o.f t).end_ = some e)
    (h5 : 0 < capMid o.res (env.info t).resource d1) (h6 : 0 < capMid o.res (env.info t).resource d2)
    (h7 : s = (d1 : Rat) + bookedBefore env o (env.info t).resource d1 t / capMid o.res (env.info t).resource d1)
    (h8 : e = (d2 : Rat) + bookedUpTo env o (env.info t).resource d2 t / capMid o.res (env.info t).resource d2) :
    encT env o t = true := by
  unfold encT
  simp only [h1, h2, h3, h4]
  simp [h5, h6, ← h7, ← h8]

theorem capMid_lookup (res : List (Option Nat × Cal)) (k : Option Nat) (d : Int) (c : Rat)
    (hc : capR (resLookup res k).2 (d : Rat) = .ok c) : capMid (resLookup res k).1 k d = c := by
  unfold capMid
  rw [(resLookup_spec res k).2.1, hc]

/-- what the ledger looks like from the placed task's point of view, right after its placement -/
theorem booked_after_place (env : Env) (σ σ' : SS) (t : Uid) (new : List (Int × Rat))
    (hnr : ∀ r ∈ σ.rows, r.task ≠ t) (hne : new ≠ [])
    (hrows : σ'.rows = σ.rows ++ new.map (mkRow (env.info t).resource t)) :
    (∀ day, bookedBefore env (outOf σ') (env.info t).resource day t = usedBy env σ.rows (env.info t).resource t day) ∧
    (∀ day, reserved σ'.rows (env.info t).resource day (some t) = daySum new day) := by
  constructor
  · intro day
    unfold bookedBefore usedBy
    cases hb : env.balance with
    | true =>
      simp only [if_true, outOf]
      rw [hrows, firstRowIdx_new _ _ _ _ hnr hne]
      simp
    | false =>
      simp only [Bool.false_eq_true, if_false]
      rw [reserved_none_task σ.rows t hnr]
  · intro day
    rw [hrows, reserved_append, reserved_mk, reserved_none_task σ.rows t hnr, if_pos ⟨rfl, fun t' h => by cases h; rfl⟩]
    grind

theorem dayOf_maxT_of_le {a b : Time} (h : dayOf b ≤ dayOf a) : dayOf (maxT a b) = dayOf a := by
  rcases maxT_cases a b with h' | h'
  · rw [h']
  · rw [h']
    have : a ≤ maxT a b := le_maxT_left a b
    rw [h'] at this
    have := dayOf_mono this
    omega

/-- the encoding clause holds for a task right after its placement, when no clock reading is later than the project
    start and the bound handed down is not before the project start -/
theorem place_enc (env : Env) (σ σ' : SS) (t : Uid) (v : Time)
    (hb : ∀ k, env.clock k ≤ env.bound) (hv : env.bound ≤ v)
    (hl : LedgerOK env σ) (hnr : ∀ r ∈ σ.rows, r.task ≠ t)
    (hs : (σ.f t).start = none) (he : (σ.f t).end_ = none) (hleaf : (env.info t).children.isEmpty = true)
    (hm : (env.info t).milestone = false) (h : fwdPlace env σ t v = .ok σ') : encT env (outOf σ') t = true := by
  obtain ⟨s, e, rows, k0, k1, k2, left, hleft, hn, hsh, hs', he', hrows, hres⟩ := fwdPlace_leaf env σ σ' t v hs he hleaf hm h
  have hu : ∀ d, 0 ≤ usedBy env σ.rows (env.info t).resource t d := fun d => reserved_nonneg _ hl.pos _ _ _
  obtain ⟨d, c, hd0, hcap, hav, hsd, hds, _⟩ := nearestFwd_spec _ _ _ _ hu hn
  -- the search starts at or after the project start
  have hbd : dayOf env.bound ≤ d := by
    have h1 : env.bound ≤ maxT (maxT v (env.clock k0)) ((env.info t).minStart.getD epoch) :=
      Rat.le_trans hv (Rat.le_trans (le_maxT_left _ _) (le_maxT_left _ _))
    have := dayOf_mono h1
    omega
  have hclkd : ∀ k, dayOf (env.clock k) ≤ dayOf s := fun k => by
    have := dayOf_mono (hb k); omega
  have hc0 : 0 < c := by have := hu d; grind
  have hfrac := div_nonneg_lt_one (u := usedBy env σ.rows (env.info t).resource t d) (c := c) (hu d) (by grind)
  obtain ⟨hz, hp⟩ := shiftFwd_spec _ _ _ _ _ _ hleft hu hsh
  by_cases hl0 : left = 0
  · -- nothing to place: no rows
    apply encT_norows
    show rowsOf σ'.rows t = []
    rw [hrows, (hz hl0).2]
    simpa using rowsOf_none σ.rows t hnr
  · obtain ⟨dayL, dauL, hspec, hne, hlt, hle, hee⟩ := hp (by grind)
    rw [dayOf_maxT_of_le (hclkd k1), hds] at hspec
    obtain ⟨⟨u, hlast⟩, hcapL, hdauL⟩ := hspec.last hne
    have hlastmem : (dayL, u) ∈ rows := List.mem_of_getLast? hlast
    have hdL : d ≤ dayL := by have := hspec.range _ hlastmem; simp only at this; omega
    -- the first reserved day is the day found by the search
    have hdmem : d ∈ rows.map (·.1) := by
      apply Classical.byContradiction
      intro hcon
      obtain ⟨c', hc', hfull⟩ := hspec.skipped d (by omega) hdL (fun p hp hpd => hcon (List.mem_map.2 ⟨p, hp, hpd⟩))
      rw [hcap] at hc'
      cases hc'
      grind
    have hrowsOf : rowsOf σ'.rows t = rows.map (mkRow (env.info t).resource t) := by
      rw [hrows, rowsOf_append, rowsOf_none σ.rows t hnr, rowsOf_mk]
      rfl
    have hfirst : firstDay (rowsOf (outOf σ').rows t) = some d := by
      show firstDay (rowsOf σ'.rows t) = some d
      rw [hrowsOf]
      apply firstDay_eq
      · rw [map_day_mk]; exact hdmem
      · rw [map_day_mk]
        intro x hx
        obtain ⟨p, hp, rfl⟩ := List.mem_map.1 hx
        have := hspec.range p hp
        omega
    have hlastD : lastDay (rowsOf (outOf σ').rows t) = some dayL := by
      show lastDay (rowsOf σ'.rows t) = some dayL
      rw [hrowsOf]
      apply lastDay_eq
      · rw [map_day_mk]; exact List.mem_map.2 ⟨_, hlastmem, rfl⟩
      · rw [map_day_mk]
        intro x hx
        obtain ⟨p, hp, rfl⟩ := List.mem_map.1 hx
        exact (hspec.range p hp).2
    obtain ⟨hbefore, hown⟩ := booked_after_place env σ σ' t rows hnr hne hrows
    have hcm1 : capMid (outOf σ').res (env.info t).resource d = c := by
      show capMid σ'.res _ _ = c
      rw [hres]; exact capMid_lookup _ _ _ _ hcap
    have hcm2 : capMid (outOf σ').res (env.info t).resource dayL = dauL := by
      show capMid σ'.res _ _ = dauL
      rw [hres]; exact capMid_lookup _ _ _ _ hcapL
    -- the stored end is the computed one
    have hsum0 : 0 ≤ daySum rows dayL := daySum_nonneg rows (fun p hp => (hspec.fits p hp).choose_spec.2.1) dayL
    have hdLr : (d : Rat) ≤ (dayL : Rat) := Rat.intCast_le_intCast.2 hdL
    have hse : s ≤ e := by
      by_cases hsame : dayL = d
      · subst hsame
        rw [hcap] at hcapL
        cases hcapL
        rw [hsd, hee]
        have := div_le_div_right (a := usedBy env σ.rows (env.info t).resource t dayL)
          (b := usedBy env σ.rows (env.info t).resource t dayL + daySum rows dayL) (c := c) (by grind) hc0
        unfold daySum at this
        grind
      · have : ((d + 1 : Int) : Rat) ≤ (dayL : Rat) := Rat.intCast_le_intCast.2 (by omega)
        rw [Rat.intCast_add] at this
        grind
    have hend : maxT (if env.bound < env.clock k2 then maxT e (env.clock k2) else e) s = e := by
      rw [if_neg (Rat.not_lt.2 (hb k2)), maxT_eq_left hse]
    rw [hend] at he'
    refine encT_of env (outOf σ') t d dayL s e hfirst hlastD hs' he' ?_ ?_ ?_ ?_
    · rw [hcm1]; exact hc0
    · rw [hcm2]; exact hdauL
    · rw [hcm1, hbefore d]; exact hsd
    · rw [hcm2]
      unfold bookedUpTo
      rw [hbefore dayL]
      show e = (dayL : Rat) + (_ + reserved σ'.rows _ _ _) / dauL
      rw [hown dayL]
      exact hee

/-- the encoding clause of a task that is done does not change afterwards -/
theorem encT_ext (env : Env) (σ σ' : SS) (x : Uid) (hx : x ∈ σ.done) (he : Ext σ σ') (hl : LedgerOK env σ) :
    encT env (outOf σ') x = encT env (outOf σ) x := by
  obtain ⟨r, hr, hq⟩ := he.rows
  obtain ⟨r', hr', _⟩ := he.res
  have hnew : ∀ y ∈ r, y.task ≠ x := fun y hy hc => (hq y hy).2 (hc ▸ hx)
  have hrowsOf : rowsOf σ'.rows x = rowsOf σ.rows x := by
    rw [hr, rowsOf_append, rowsOf_none r x hnew, List.append_nil]
  by_cases hempty : rowsOf σ.rows x = []
  · rw [encT_norows env (outOf σ') x (by show rowsOf σ'.rows x = []; rw [hrowsOf]; exact hempty),
      encT_norows env (outOf σ) x hempty]
  · obtain ⟨r0, hr0⟩ := List.exists_mem_of_ne_nil _ hempty
    obtain ⟨hr0m, hr0t⟩ := List.mem_filter.1 hr0
    have hr0t' : r0.task = x := by simpa using hr0t
    have hkey : (σ.res.map (·.1)).contains (env.info x).resource = true := by
      have := hl.present r0 hr0m
      rw [hl.own r0 hr0m, hr0t'] at this
      exact this
    have hcap : ∀ d, capMid (outOf σ').res (env.info x).resource d = capMid (outOf σ).res (env.info x).resource d := by
      intro d
      show capMid σ'.res _ _ = capMid σ.res _ _
      rw [hr']; exact capMid_append _ _ _ _ hkey
    have hown : ∀ d, reserved (outOf σ').rows (env.info x).resource d (some x) =
        reserved (outOf σ).rows (env.info x).resource d (some x) := by
      intro d
      show reserved σ'.rows _ _ _ = reserved σ.rows _ _ _
      rw [hr, reserved_append, reserved_none_task r x hnew]
      grind
    have hbefore : ∀ d, bookedBefore env (outOf σ') (env.info x).resource d x =
        bookedBefore env (outOf σ) (env.info x).resource d x := by
      intro d
      unfold bookedBefore
      cases hb : env.balance with
      | false => rfl
      | true =>
        simp only [if_true]
        show (match firstRowIdx σ'.rows x with
          | some i => reserved (σ'.rows.take i) _ d none
          | none => reserved σ'.rows _ d none) =
          (match firstRowIdx σ.rows x with
          | some i => reserved (σ.rows.take i) _ d none
          | none => reserved σ.rows _ d none)
        have hsome : firstRowIdx σ.rows x = some (σ.rows.findIdx (fun r => r.task == x)) :=
          List.findIdx?_eq_some_of_exists ⟨r0, hr0m, hr0t⟩
        have hlt := (List.findIdx?_eq_some_iff_findIdx_eq.1 hsome).1
        have hsome' : firstRowIdx σ'.rows x = some (σ.rows.findIdx (fun r => r.task == x)) := by
          unfold firstRowIdx at hsome ⊢
          rw [hr, List.findIdx?_append, hsome]
          rfl
        rw [hsome, hsome', hr]
        simp only []
        rw [List.take_append_of_le_length (Nat.le_of_lt hlt)]
    have hf : (outOf σ').f x = (outOf σ).f x := he.frozen x hx
    have hro : rowsOf (outOf σ').rows x = rowsOf (outOf σ).rows x := hrowsOf
    unfold encT bookedUpTo
    simp only [hcap, hown, hbefore, hf, hro]

/-! ### the invariants carried through the forward run -/

/-- ledger facts, "rows belong to done tasks", and "a leaf that is not done still has its original fields" -/
structure Base (env : Env) (f0 : Uid → Fields) (σ : SS) : Prop where
  ledger : LedgerOK env σ
  rowsDone : ∀ r ∈ σ.rows, r.task ∈ σ.done
  leafF : ∀ t, t ∉ σ.done → (env.info t).children.isEmpty = true → σ.f t = f0 t

theorem Base.init (env : Env) (f0 : Uid → Fields) (mem : List Uid) (res0 : List (Option Nat × Cal)) (k : Nat) :
    Base env f0 { f := prepare env f0 mem, rows := [], done := [], res := res0, reads := k } := by
  refine ⟨LedgerOK.init env _ rfl, (fun r hr => by cases hr), ?_⟩
  intro t _ hl
  simp [prepare, hl]

theorem Base.place {env : Env} {f0 : Uid → Fields} {σ σ' : SS} {t : Uid} {v : Time} (hb : Base env f0 σ)
    (ht : t ∉ σ.done) (h : fwdPlace env σ t v = .ok σ') : Base env f0 σ' := by
  obtain ⟨he, hd⟩ := fwdPlace_ext env σ σ' t v ht h
  refine ⟨fwdPlace_ledger env σ σ' t v hb.ledger h, ?_, ?_⟩
  · intro r hr
    obtain ⟨new, hn, hq⟩ := he.rows
    rw [hn] at hr
    rcases List.mem_append.1 hr with hr | hr
    · exact he.done_sub (hb.rowsDone r hr)
    · exact (hq r hr).1
  · intro x hx hl
    rw [he.untouched x hx]
    exact hb.leafF x (fun hc => hx (he.done_sub hc)) hl

theorem Base.noRows {env : Env} {f0 : Uid → Fields} {σ : SS} (hb : Base env f0 σ) {t : Uid} (ht : t ∉ σ.done) :
    ∀ r ∈ σ.rows, r.task ≠ t := fun r hr hc => ht (hc ▸ hb.rowsDone r hr)

theorem c08Subject_spec {env : Env} {f0 : Uid → Fields} {t : Uid} (h : c08Subject env f0 t = true) :
    (env.info t).children.isEmpty = true ∧ (env.info t).milestone = false ∧ (f0 t).start = none ∧
      (f0 t).end_ = none := by
  simpa [c08Subject, isLeaf, and_assoc] using h

structure EncI (env : Env) (f0 : Uid → Fields) (σ : SS) : Prop where
  base : Base env f0 σ
  enc : ∀ t ∈ σ.done, c08Subject env f0 t = true → encT env (outOf σ) t = true

theorem EncI.place {env : Env} {f0 : Uid → Fields} {σ σ' : SS} {t : Uid} {v : Time}
    (hclk : ∀ k, env.clock k ≤ env.bound) (hv : env.bound ≤ v) (hi : EncI env f0 σ)
    (ht : t ∉ σ.done) (h : fwdPlace env σ t v = .ok σ') : EncI env f0 σ' := by
  obtain ⟨he, hd⟩ := fwdPlace_ext env σ σ' t v ht h
  refine ⟨hi.base.place ht h, ?_⟩
  intro x hx hsub
  rw [hd] at hx
  rcases List.mem_append.1 hx with hx | hx
  · rw [encT_ext env σ σ' x hx he hi.base.ledger]
    exact hi.enc x hx hsub
  · simp only [List.mem_singleton] at hx
    subst hx
    obtain ⟨hleaf, hm, hs, hen⟩ := c08Subject_spec hsub
    have hfx := hi.base.leafF x ht hleaf
    exact place_enc env σ σ' x v hclk hv hi.base.ledger (hi.base.noRows ht) (by rw [hfx]; exact hs)
      (by rw [hfx]; exact hen) hleaf hm h

/-- at the end of a forward run every member is done -/
theorem fwdRun_all_done (env : Env) (mem : List Uid) (hm : members env = some mem) (σ0 σ : SS) (h0 : σ0.done = [])
    (hp : passList (fun σ r => fwdPass env (env.n + 1) [] σ r env.bound) σ0 env.roots = .ok σ) :
    ∀ t ∈ mem, t ∈ σ.done := by
  have hcl : DoneClosed env σ :=
    passList_inv (DoneClosed env) _ _ (fun a x b _ ha hh => fwdPass_doneClosed env _ _ _ _ _ _ ha hh) _ _
      (by intro x hx; rw [h0] at hx; cases hx) hp
  have hroots : ∀ r ∈ env.roots, r ∈ σ.done :=
    passList_all_done _ _ (fun a x b _ hh => fwdPass_ext env _ _ _ _ _ _ hh) _ _ hp
  intro t ht
  obtain ⟨rt, hrt, l, hl, htl⟩ := (members_spec env mem hm).2 t ht
  exact hcl.subtree (hroots rt hrt) _ l hl t htl

theorem encode_partial (env : Env) (f0 : Uid → Fields) (res0 : List (Option Nat × Cal)) (o : Output)
    (hb : ∀ k, env.clock k ≤ env.bound)
    (h : forwardCalc env f0 res0 = .ok o) : c08Encode env f0 o = true := by
  obtain ⟨mem, σ, hm, hp, ho⟩ := fwdRun_ok env f0 res0 o (forwardCalc_run env f0 res0 o h)
  have hI : EncI env f0 σ := by
    refine passList_inv (EncI env f0) _ _ ?_ _ _ ⟨Base.init env f0 mem res0 1, fun t ht => by cases ht⟩ hp
    intro a x b _ ha hh
    exact fwdPass_inv2 env (EncI env f0) (fun _ m => env.bound ≤ m)
      (fun σ1 σ σ' t m hq hi _ _ ht _ hpl => EncI.place hb (Rat.le_trans hq (le_maxEnds _ _ _)) hi ht hpl)
      (fun t c σ1 m hq _ => Rat.le_trans hq (le_maxEnds _ _ _))
      (fun t p m hq _ _ => hq) _ _ _ _ _ _ (Rat.le_refl) ha hh
  have hdone := fwdRun_all_done env mem hm _ σ rfl hp
  rw [c08Encode_eq, List.all_eq_true, memberList_eq env mem hm]
  intro t ht
  cases hsub : c08Subject env f0 t with
  | false => rfl
  | true =>
    have := hI.enc t (hdone t ht) hsub
    subst ho
    simpa [outOf] using this

/-! ### the no-idle clause -/

/-- the body of `c08NoIdle` for one task -/
def idleT (env : Env) (o : Output) (t : Uid) : Bool :=
  let k := (env.info t).resource
  let last : Int := match lastDay (rowsOf o.rows t) with
    | some d => d
    | none => match (o.f t).start with | some s => dayOf s | none => releaseDay env o t
  (daysBetween (releaseDay env o t) last).all (fun d => fullDay env o k d t)

theorem c08NoIdle_eq (env : Env) (f0 : Uid → Fields) (o : Output) :
    c08NoIdle env f0 o =
      (!env.balance || (memberList env).all (fun t => !c08Subject env f0 t || idleT env o t)) := rfl

theorem mem_daysBetween (a b d : Int) : d ∈ daysBetween a b ↔ a ≤ d ∧ d < b := by
  unfold daysBetween
  simp only [List.mem_map, List.mem_range]
  constructor
  · rintro ⟨i, hi, rfl⟩; omega
  · intro h
    exact ⟨(d - a).toNat, by omega, by omega⟩

/-- the last work day of a task, or its start day when it has no work -/
def lastOpt (σ : SS) (t : Uid) : Option Int :=
  match lastDay (rowsOf σ.rows t) with
  | some d => some d
  | none => (σ.f t).start.map dayOf

/-- `r0` is not later than one of the days the release day is the maximum of (or the epoch) -/
def RelLow (env : Env) (σ : SS) (t : Uid) (r0 : Int) : Prop :=
  r0 ≤ dayOf epoch ∨ r0 ≤ dayOf env.bound ∨ r0 ≤ dayOf (env.clock 0) ∨
  (∃ ms, (env.info t).minStart = some ms ∧ r0 ≤ dayOf ms) ∨
  ∃ p ∈ (env.info t).preds, (p ∈ σ.done ∨ (env.info p).member = false) ∧ ∃ e, (σ.f p).end_ = some e ∧ r0 ≤ dayOf e

/-- every day from `r0` up to the last work day is fully booked -/
def FullFrom (env : Env) (σ : SS) (t : Uid) : Prop :=
  ∃ r0 last, lastOpt σ t = some last ∧ RelLow env σ t r0 ∧
    ∀ d, r0 ≤ d → d < last →
      capMid σ.res (env.info t).resource d ≤ reserved σ.rows (env.info t).resource d none

structure IdleI (env : Env) (f0 : Uid → Fields) (σ : SS) : Prop where
  base : Base env f0 σ
  doneMem : ∀ x ∈ σ.done, (env.info x).member = true
  have_ : ∀ x ∈ σ.done, (σ.res.map (·.1)).contains (env.info x).resource = true
  idle : ∀ t ∈ σ.done, c08Subject env f0 t = true → FullFrom env σ t

/-- a later state keeps what was established for a task that is done -/
theorem FullFrom.ext {env : Env} {σ σ' : SS} {t : Uid} (h : FullFrom env σ t) (ht : t ∈ σ.done) (he : Ext σ σ')
    (hkey : (σ.res.map (·.1)).contains (env.info t).resource = true)
    (hpos : ∀ r ∈ σ'.rows, 0 < r.units) (hmem : ∀ x ∈ σ'.done, (env.info x).member = true) :
    FullFrom env σ' t := by
  obtain ⟨r0, last, hlast, hlow, hfull⟩ := h
  obtain ⟨r, hr, hq⟩ := he.rows
  obtain ⟨r', hr', _⟩ := he.res
  have hnew : ∀ y ∈ r, y.task ≠ t := fun y hy hc => (hq y hy).2 (hc ▸ ht)
  refine ⟨r0, last, ?_, ?_, ?_⟩
  · unfold lastOpt at hlast ⊢
    rw [hr, rowsOf_append, rowsOf_none r t hnew, List.append_nil, he.frozen t ht]
    exact hlast
  · rcases hlow with h | h | h | h | ⟨p, hp, hpd, e, hpe, hle⟩
    · exact Or.inl h
    · exact Or.inr (Or.inl h)
    · exact Or.inr (Or.inr (Or.inl h))
    · exact Or.inr (Or.inr (Or.inr (Or.inl h)))
    · refine Or.inr (Or.inr (Or.inr (Or.inr ⟨p, hp, ?_, e, ?_, hle⟩)))
      · exact hpd.imp he.done_sub id
      · rcases hpd with hpd | hpd
        · rw [he.frozen p hpd]; exact hpe
        · rw [he.untouched p (fun hc => by have := hmem p hc; rw [hpd] at this; cases this)]; exact hpe
  · intro d h1 h2
    have := hfull d h1 h2
    rw [hr', capMid_append _ _ _ _ hkey, hr, reserved_append]
    have hnn : 0 ≤ reserved r (env.info t).resource d none :=
      reserved_nonneg r (fun y hy => hpos y (by rw [hr]; exact List.mem_append_right _ hy)) _ _ _
    grind

theorem reserved_after_place (env : Env) (σ σ' : SS) (t : Uid) (new : List (Int × Rat))
    (hrows : σ'.rows = σ.rows ++ new.map (mkRow (env.info t).resource t)) (day : Int) :
    reserved σ'.rows (env.info t).resource day none =
      reserved σ.rows (env.info t).resource day none + daySum new day := by
  rw [hrows, reserved_append, reserved_mk, if_pos ⟨rfl, fun t' h => by cases h⟩]

/-- the no-idle clause for a task right after its placement (balancing on): every day from the day the search
    started on up to the last work day is full -/
theorem place_idle (env : Env) (σ1 σ σ' : SS) (t : Uid)
    (hbal : env.balance = true) (hc : env.clockOK)
    (hl : LedgerOK env σ) (hnr : ∀ r ∈ σ.rows, r.task ≠ t)
    (hs : (σ.f t).start = none) (he : (σ.f t).end_ = none) (hleaf : (env.info t).children.isEmpty = true)
    (hm : (env.info t).milestone = false)
    (hpred : ∀ p ∈ (env.info t).preds, (p ∈ σ'.done ∨ (env.info p).member = false) ∧ (σ'.f p).end_ = (σ1.f p).end_)
    (h : fwdPlace env σ t (maxEnds σ1 (env.info t).preds env.bound) = .ok σ') : FullFrom env σ' t := by
  obtain ⟨s, e, rows, k0, k1, k2, left, hleft, hn, hsh, hs', he', hrows, hres⟩ :=
    fwdPlace_leaf env σ σ' t _ hs he hleaf hm h
  have hused : ∀ d, usedBy env σ.rows (env.info t).resource t d = reserved σ.rows (env.info t).resource d none := by
    intro d; simp [usedBy, hbal]
  have hu : ∀ d, 0 ≤ usedBy env σ.rows (env.info t).resource t d := fun d => reserved_nonneg _ hl.pos _ _ _
  obtain ⟨d, c, hd0, hcap, hav, hsd, hds, hbefore⟩ := nearestFwd_spec _ _ _ _ hu hn
  -- the day the search started on is one of the release days
  have hlow : RelLow env σ' t (dayOf (maxT (maxT (maxEnds σ1 (env.info t).preds env.bound) (env.clock k0))
      ((env.info t).minStart.getD epoch))) := by
    rcases maxT_cases (maxT (maxEnds σ1 (env.info t).preds env.bound) (env.clock k0))
      ((env.info t).minStart.getD epoch) with h1 | h1
    · rw [h1]
      rcases maxT_cases (maxEnds σ1 (env.info t).preds env.bound) (env.clock k0) with h2 | h2
      · rw [h2]
        rcases maxEnds_cases σ1 (env.info t).preds env.bound with h3 | ⟨p, hp, hpe⟩
        · rw [h3]; exact Or.inr (Or.inl (Int.le_refl _))
        · exact Or.inr (Or.inr (Or.inr (Or.inr ⟨p, hp, (hpred p hp).1, _, (hpred p hp).2.trans hpe, Int.le_refl _⟩)))
      · rw [h2, hc.2 k0]; exact Or.inr (Or.inr (Or.inl (Int.le_refl _)))
    · rw [h1]
      cases hms : (env.info t).minStart with
      | none => exact Or.inl (Int.le_refl _)
      | some ms => exact Or.inr (Or.inr (Or.inr (Or.inl ⟨ms, hms, Int.le_refl _⟩)))
  have hcm : ∀ (day : Int) (c' : Rat), capR (resLookup σ.res (env.info t).resource).2 (day : Rat) = .ok c' →
      capMid σ'.res (env.info t).resource day = c' := fun day c' hc' => by
    rw [hres]; exact capMid_lookup _ _ _ _ hc'
  -- days before the day found by the search were full already
  have hpre : ∀ d', dayOf (maxT (maxT (maxEnds σ1 (env.info t).preds env.bound) (env.clock k0))
      ((env.info t).minStart.getD epoch)) ≤ d' → d' < d →
      capMid σ'.res (env.info t).resource d' ≤ reserved σ'.rows (env.info t).resource d' none := by
    intro d' h1 h2
    obtain ⟨c', hc', hfull⟩ := hbefore d' h1 h2
    rw [hcm d' c' hc', reserved_after_place env σ σ' t rows hrows, ← hused]
    have hz : ∀ p ∈ rows, 0 < p.2 := fun p hp =>
      ((shiftFwd_good _ _ _ _ _ _ hleft hsh hu).1 p hp).choose_spec.2.1
    have := daySum_nonneg rows hz d'
    grind
  -- the clock is not on a later day than the start found
  have hclkd : dayOf (env.clock k1) ≤ dayOf s := by
    have h1 : env.clock k0 ≤ maxT (maxT (maxEnds σ1 (env.info t).preds env.bound) (env.clock k0))
        ((env.info t).minStart.getD epoch) := Rat.le_trans (le_maxT_right _ _) (le_maxT_left _ _)
    have := dayOf_mono h1
    rw [hc.2 k1, ← hc.2 k0]
    omega
  obtain ⟨hz, hp⟩ := shiftFwd_spec _ _ _ _ _ _ hleft hu hsh
  by_cases hl0 : left = 0
  · refine ⟨_, d, ?_, hlow, hpre⟩
    unfold lastOpt
    rw [hrows, (hz hl0).2]
    simp only [List.map_nil, List.append_nil]
    rw [rowsOf_none σ.rows t hnr, hs']
    simp [lastDay, hds]
  · obtain ⟨dayL, dauL, hspec, hne, hlt, hle, hee⟩ := hp (by grind)
    rw [dayOf_maxT_of_le hclkd, hds] at hspec
    obtain ⟨⟨u, hlast⟩, hcapL, hdauL⟩ := hspec.last hne
    have hlastmem : (dayL, u) ∈ rows := List.mem_of_getLast? hlast
    have hrowsOf : rowsOf σ'.rows t = rows.map (mkRow (env.info t).resource t) := by
      rw [hrows, rowsOf_append, rowsOf_none σ.rows t hnr, rowsOf_mk]
      rfl
    have hlastD : lastDay (rowsOf σ'.rows t) = some dayL := by
      rw [hrowsOf]
      apply lastDay_eq
      · rw [map_day_mk]; exact List.mem_map.2 ⟨_, hlastmem, rfl⟩
      · rw [map_day_mk]
        intro x hx
        obtain ⟨p, hp, rfl⟩ := List.mem_map.1 hx
        exact (hspec.range p hp).2
    refine ⟨_, dayL, ?_, hlow, ?_⟩
    · unfold lastOpt; rw [hlastD]
    · intro d' h1 h2
      by_cases hd' : d' < d
      · exact hpre d' h1 hd'
      · have hpw : (rows.map (·.1)).Pairwise (· ≠ ·) := hspec.incr.imp (fun h => Int.ne_of_lt h)
        rw [reserved_after_place env σ σ' t rows hrows, ← hused]
        by_cases hex : ∃ p ∈ rows, p.1 = d'
        · obtain ⟨p, hp, hpd⟩ := hex
          obtain ⟨c', hc', hfull⟩ := hspec.full p hp (by omega)
          rw [hpd] at hc' hfull
          rw [hcm d' c' hc', daySum_mem rows d' p.2 hpw (by rw [← hpd]; exact hp), hfull]
          grind
        · obtain ⟨c', hc', hfull⟩ := hspec.skipped d' (by omega) (by omega) (fun p hp hpd => hex ⟨p, hp, hpd⟩)
          rw [hcm d' c' hc', daySum_not_mem rows d' (fun p hp hpd => hex ⟨p, hp, hpd⟩)]
          grind

theorem mem_prereqLeaves_of_pred (env : Env) (t p : Uid) (hp : p ∈ (env.info t).preds)
    (hleaf : (env.info p).children.isEmpty = true) : p ∈ prereqLeaves env t := by
  unfold prereqLeaves waitsFor
  refine List.mem_flatMap.2 ⟨p, List.mem_flatMap.2 ⟨t, List.mem_cons_self, hp⟩, ?_⟩
  simp [leavesOf, hleaf]

/-- the day the search started on is not later than the release day -/
theorem relLow_le_release (env : Env) (σ : SS) (t : Uid) (r0 : Int)
    (he : epoch ≤ env.clock 0 ∨ epoch ≤ env.bound)
    (hpl : ∀ p ∈ (env.info t).preds, (p ∈ σ.done ∨ (env.info p).member = false) → (env.info p).children.isEmpty = true)
    (h : RelLow env σ t r0) : r0 ≤ releaseDay env (outOf σ) t := by
  unfold releaseDay
  obtain ⟨⟨h1, h2⟩, _⟩ := foldl_max_spec
    ([dayOf env.bound, dayOf (env.clock 0)] ++ ((env.info t).minStart.toList.map dayOf) ++
      ((prereqLeaves env t).filterMap (fun p => (((outOf σ).f p).end_).map dayOf))) (dayOf env.bound)
  have hb := h2 (dayOf env.bound) (by simp)
  have hc := h2 (dayOf (env.clock 0)) (by simp)
  rcases h with h | h | h | ⟨ms, hms, h⟩ | ⟨p, hp, hpd, e, hpe, h⟩
  · rcases he with he | he
    · have := dayOf_mono he; omega
    · have := dayOf_mono he; omega
  · omega
  · omega
  · have := h2 (dayOf ms) (by simp [hms])
    omega
  · have hmem := mem_prereqLeaves_of_pred env t p hp (hpl p hp hpd)
    have := h2 (dayOf e) (by
      apply List.mem_append_right
      exact List.mem_filterMap.2 ⟨p, hmem, by show ((σ.f p).end_).map dayOf = some (dayOf e); rw [hpe]; rfl⟩)
    omega

theorem idleT_of_fullFrom (env : Env) (σ : SS) (t : Uid) (hbal : env.balance = true) (h : FullFrom env σ t)
    (hrel : ∀ r0, RelLow env σ t r0 → r0 ≤ releaseDay env (outOf σ) t) : idleT env (outOf σ) t = true := by
  obtain ⟨r0, last, hlast, hlow, hfull⟩ := h
  have hr := hrel r0 hlow
  have hlast' : (match lastDay (rowsOf (outOf σ).rows t) with
    | some d => d
    | none => match ((outOf σ).f t).start with | some s => dayOf s | none => releaseDay env (outOf σ) t) = last := by
    unfold lastOpt at hlast
    show (match lastDay (rowsOf σ.rows t) with
      | some d => d
      | none => match (σ.f t).start with | some s => dayOf s | none => releaseDay env (outOf σ) t) = last
    cases hld : lastDay (rowsOf σ.rows t) with
    | some d => rw [hld] at hlast; simpa using hlast
    | none =>
      rw [hld] at hlast
      cases hst : (σ.f t).start with
      | none => rw [hst] at hlast; cases hlast
      | some s => rw [hst] at hlast; simpa using hlast
  unfold idleT
  simp only [hlast', List.all_eq_true, mem_daysBetween]
  intro d hd
  unfold fullDay booked
  simp only [hbal, if_true, decide_eq_true_eq]
  exact hfull d (by omega) hd.2

theorem IdleI.place {env : Env} {f0 : Uid → Fields} {σ1 σ σ' : SS} {t : Uid}
    (hbal : env.balance = true) (hc : env.clockOK) (hi : IdleI env f0 σ) (e1 : Ext σ1 σ)
    (hp1 : ∀ p ∈ (env.info t).preds, (env.info p).member = (env.info t).member → p ∈ σ1.done)
    (htm : (env.info t).member = true) (ht : t ∉ σ.done)
    (h : fwdPlace env σ t (maxEnds σ1 (env.info t).preds env.bound) = .ok σ') : IdleI env f0 σ' := by
  obtain ⟨he, hd⟩ := fwdPlace_ext env σ σ' t _ ht h
  have hbase := hi.base.place ht h
  have hmem : ∀ x ∈ σ'.done, (env.info x).member = true := by
    intro x hx
    rw [hd] at hx
    rcases List.mem_append.1 hx with hx | hx
    · exact hi.doneMem x hx
    · simp only [List.mem_singleton] at hx; rw [hx]; exact htm
  have hhave : ∀ x ∈ σ'.done, (σ'.res.map (·.1)).contains (env.info x).resource = true := by
    intro x hx
    rw [hd] at hx
    obtain ⟨r', hr', _⟩ := he.res
    rcases List.mem_append.1 hx with hx | hx
    · rw [hr']; exact contains_append_left _ _ _ (hi.have_ x hx)
    · simp only [List.mem_singleton] at hx
      subst hx
      obtain ⟨new, σm, hst, rfl, _⟩ := fwdPlace_stage env σ σ' x _ h
      show (σm.res.map (·.1)).contains _ = true
      rw [hst.res]
      exact (resLookup_spec σ.res (env.info x).resource).2.2
  refine ⟨hbase, hmem, hhave, ?_⟩
  intro x hx hsub
  rw [hd] at hx
  rcases List.mem_append.1 hx with hx | hx
  · exact (hi.idle x hx hsub).ext hx he (hi.have_ x hx) hbase.ledger.pos hmem
  · simp only [List.mem_singleton] at hx
    subst hx
    obtain ⟨hleaf, hm, hs, hen⟩ := c08Subject_spec hsub
    have hfx := hi.base.leafF x ht hleaf
    refine place_idle env σ1 σ σ' x hbal hc hi.base.ledger (hi.base.noRows ht) (by rw [hfx]; exact hs)
      (by rw [hfx]; exact hen) hleaf hm ?_ h
    intro p hp
    by_cases hpm : (env.info p).member = true
    · have hp1' := hp1 p hp (hpm.trans htm.symm)
      have hp2 := e1.done_sub hp1'
      exact ⟨Or.inl (he.done_sub hp2), by rw [he.frozen p hp2, e1.frozen p hp1']⟩
    · have hpf : (env.info p).member = false := by simpa using hpm
      have hn' : p ∉ σ'.done := fun hc' => hpm (hmem p hc')
      have hn : p ∉ σ.done := fun hc' => hn' (he.done_sub hc')
      exact ⟨Or.inr hpf, by rw [he.untouched p hn', e1.untouched p hn]⟩

theorem maxEnds_nil (σ : SS) (m : Time) : maxEnds σ [] m = m := rfl

/-- `C08_noIdle_partial` (with link symmetry and the clock or the project start not before the epoch: a leaf
    without `min_start` never starts before 1970-01-01, which the release day does not know about) -/
theorem noIdle_partial (env : Env) (f0 : Uid → Fields) (res0 : List (Option Nat × Cal)) (o : Output)
    (hf : env.flagsOK) (hc : env.clockOK) (hs : noSummaryLinks env = true) (ho : outsideLeaves env = true)
    (hl : env.linksSym) (he : epoch ≤ env.clock 0 ∨ epoch ≤ env.bound)
    (h : forwardCalc env f0 res0 = .ok o) : c08NoIdle env f0 o = true := by
  rw [c08NoIdle_eq]
  cases hbal : env.balance with
  | false => rfl
  | true =>
  obtain ⟨mem, σ, hm, hp, hout⟩ := fwdRun_ok env f0 res0 o (forwardCalc_run env f0 res0 o h)
  have hml := memberList_eq env mem hm
  have hmemb : ∀ t, (env.info t).member = true ↔ t ∈ mem := fun t => by rw [← hml]; exact hf t
  have hsl : ∀ t ∈ mem, (env.info t).children.isEmpty = true ∨ ((env.info t).preds = [] ∧ (env.info t).succs = []) := by
    intro t ht
    have := List.all_eq_true.1 hs t (by rw [hml]; exact ht)
    simpa [isLeaf, List.isEmpty_iff] using this
  have hI : IdleI env f0 σ := by
    refine passList_inv (IdleI env f0) _ _ ?_ _ _
      ⟨Base.init env f0 mem res0 1, (fun t ht => by cases ht), (fun t ht => by cases ht), (fun t ht => by cases ht)⟩ hp
    intro a x b hx ha hh
    refine fwdPass_inv2 env (IdleI env f0) (fun t m => (env.info t).member = true ∧ m = env.bound)
      ?_ ?_ ?_ _ _ _ _ _ _ ⟨(hmemb x).2 (members_root env mem hm x hx), rfl⟩ ha hh
    · intro σ1 σ σ' t m hq hi e1 hp1 ht _ hpl
      obtain ⟨htm, rfl⟩ := hq
      exact IdleI.place hbal hc hi e1 hp1 htm ht hpl
    · intro t c σ1 m hq hcc
      obtain ⟨htm, rfl⟩ := hq
      have htmem := (hmemb t).1 htm
      refine ⟨(hmemb c).2 (members_children env mem hm t htmem c hcc), ?_⟩
      rcases hsl t htmem with hleaf | ⟨hpreds, _⟩
      · rw [List.isEmpty_iff] at hleaf
        rw [hleaf] at hcc; cases hcc
      · rw [hpreds]; rfl
    · intro t p m hq _ hpm
      exact ⟨hpm.trans hq.1, hq.2⟩
  have hdone := fwdRun_all_done env mem hm _ σ rfl hp
  simp only [Bool.not_true, Bool.false_or, List.all_eq_true, hml]
  intro t ht
  cases hsub : c08Subject env f0 t with
  | false => rfl
  | true =>
    have hfull := hI.idle t (hdone t ht) hsub
    have := idleT_of_fullFrom env σ t hbal hfull (fun r0 hr0 => relLow_le_release env σ t r0 he (by
      intro p hp hpd
      rcases hpd with hpd | hpd
      · have hpmem := (hmemb p).1 (hI.doneMem p hpd)
        rcases hsl p hpmem with hleaf | ⟨_, hsuccs⟩
        · exact hleaf
        · have := (hl p t).1 hp
          rw [hsuccs] at this; cases this
      · have := List.all_eq_true.1 (List.all_eq_true.1 ho t (by rw [hml]; exact ht)) p hp
        rw [hml] at this
        simp only [Bool.or_eq_true, List.contains_iff_mem] at this
        rcases this with hc' | hc'
        · have := (hmemb p).2 hc'
          rw [hpd] at this; cases this
        · exact hc') hr0)
    subst hout
    simpa [outOf] using this

/-! ### WBS order: paths, parent chains -/

/-- the `children` function of an environment -/
abbrev kidsF (env : Env) : Uid → List Uid := fun u => (env.info u).children

/-- a path of `k` edges -/
inductive PathLen (next : Uid → List Uid) : Uid → Uid → Nat → Prop
  | refl (a : Uid) : PathLen next a a 0
  | head {a b c : Uid} {k : Nat} : b ∈ next a → PathLen next b c k → PathLen next a c (k + 1)

theorem PathLen.tail {next : Uid → List Uid} {a b c : Uid} {k : Nat} (h : PathLen next a b k) (hc : c ∈ next b) :
    PathLen next a c (k + 1) := by
  induction h with
  | refl a => exact PathLen.head hc (PathLen.refl c)
  | head hab _ ih => exact PathLen.head hab (ih hc)

theorem PathLen.trans {next : Uid → List Uid} {a b c : Uid} {j k : Nat} (h1 : PathLen next a b j)
    (h2 : PathLen next b c k) : PathLen next a c (j + k) := by
  induction h1 with
  | refl a => simpa using h2
  | head hab _ ih =>
    have := PathLen.head hab (ih h2)
    rw [show ∀ (x y : Nat), x + 1 + y = x + y + 1 by omega]
    exact this

theorem pathLen_of_RTC {next : Uid → List Uid} {a c : Uid} (h : RTC (fun x y => y ∈ next x) a c) :
    ∃ k, PathLen next a c k := by
  induction h with
  | refl => exact ⟨0, PathLen.refl _⟩
  | tail _ hr ih =>
    obtain ⟨k, hk⟩ := ih
    exact ⟨k + 1, hk.tail hr⟩

/-- a successful enumeration with fuel `f` bounds the length of the paths -/
theorem descF_pathLen (next : Uid → List Uid) : ∀ (f : Nat) (a : Uid) (l : List Uid), descF next f a = some l →
    ∀ c k, PathLen next a c k → k < f := by
  intro f
  induction f with
  | zero => intro a l h; simp [descF] at h
  | succ f ih =>
    intro a l h c k hp
    cases hp with
    | refl => omega
    | head hab hbc =>
      simp only [descF, Option.map_eq_some_iff] at h
      obtain ⟨ll, hll, _⟩ := h
      obtain ⟨b', _, hg⟩ := mapM_some_mem _ _ _ hll _ hab
      simp only [Option.map_eq_some_iff] at hg
      obtain ⟨r', hr', _⟩ := hg
      have := ih _ r' hr' _ _ hbc
      omega

theorem ancestorsOf_step (env : Env) : ∀ (f : Nat) (y b u : Uid), b ∈ y :: ancestorsOf env f y →
    (env.info b).parent = some u → u ∈ ancestorsOf env (f + 1) y := by
  intro f
  induction f with
  | zero =>
    intro y b u hb hp
    simp only [ancestorsOf, List.mem_cons, List.not_mem_nil, or_false] at hb
    subst hb
    simp [ancestorsOf, hp]
  | succ f ih =>
    intro y b u hb hp
    rcases List.mem_cons.1 hb with rfl | hb
    · simp [ancestorsOf, hp]
    · cases hpy : (env.info y).parent with
      | none => simp [ancestorsOf, hpy] at hb
      | some p =>
        simp only [ancestorsOf, hpy] at hb
        have := ih p b u hb hp
        rw [ancestorsOf, hpy]
        exact List.mem_cons_of_mem _ this

theorem ancestorsOf_mono (env : Env) : ∀ (f : Nat) (y x : Uid), x ∈ ancestorsOf env f y → x ∈ ancestorsOf env (f + 1) y := by
  intro f
  induction f with
  | zero => intro y x h; simp [ancestorsOf] at h
  | succ f ih =>
    intro y x h
    cases hpy : (env.info y).parent with
    | none => simp [ancestorsOf, hpy] at h
    | some p =>
      simp only [ancestorsOf, hpy] at h
      rw [ancestorsOf, hpy]
      rcases List.mem_cons.1 h with rfl | h
      · exact List.mem_cons_self
      · exact List.mem_cons_of_mem _ (ih p x h)

theorem ancestorsOf_mono_le (env : Env) (y x : Uid) : ∀ (f g : Nat), f ≤ g → x ∈ ancestorsOf env f y →
    x ∈ ancestorsOf env g y := by
  intro f g hfg
  induction hfg with
  | refl => exact id
  | step _ ih => exact fun h => ancestorsOf_mono env _ y x (ih h)

/-- a `children` path between members is mirrored by the parent pointers (`childrenOK`) -/
theorem mem_ancestors_of_path (env : Env) (mem : List Uid) (hm : members env = some mem)
    (hch : ∀ t c, t ∈ mem → c ∈ (env.info t).children → (env.info c).parent = some t) :
    ∀ (u y : Uid) (k : Nat), PathLen (kidsF env) u y k → u ∈ mem → u ∈ y :: ancestorsOf env k y := by
  intro u y k h
  induction h with
  | refl a => intro _; exact List.mem_cons_self
  | head hab _ ih =>
    intro hu
    have hb := ih (members_children env mem hm _ hu _ hab)
    exact List.mem_cons_of_mem _ (ancestorsOf_step env _ _ _ _ hb (hch _ _ hu hab))

/-- every member has a `children` path from a root, and the enumeration of that root succeeded -/
theorem member_path (env : Env) (mem : List Uid) (hm : members env = some mem) (u : Uid) (hu : u ∈ mem) :
    ∃ r l j, descF (kidsF env) (env.n + 1) r = some l ∧ PathLen (kidsF env) r u j := by
  obtain ⟨r, _, l, hl, hul⟩ := (members_spec env mem hm).2 u hu
  simp only [subtreeF, Option.map_eq_some_iff] at hl
  obtain ⟨d, hd, rfl⟩ := hl
  rcases List.mem_cons.1 hul with rfl | hud
  · exact ⟨u, d, 0, hd, PathLen.refl _⟩
  · obtain ⟨j, hj⟩ := pathLen_of_RTC (descF_sound _ _ _ _ hd u hud).toRTC
    exact ⟨r, d, j, hd, hj⟩

/-- a free leaf: nobody above it (along `children`, among the members) carries a link -/
theorem free_anc (env : Env) (mem : List Uid) (hm : members env = some mem)
    (hch : ∀ t c, t ∈ mem → c ∈ (env.info t).children → (env.info c).parent = some t)
    (y : Uid) (hy : freeLeaf env y = true) (u : Uid) (hu : u ∈ mem)
    (h : RTC (fun a b => b ∈ (env.info a).children) u y) :
    (env.info u).preds = [] ∧ (env.info u).succs = [] := by
  obtain ⟨k, hk⟩ := pathLen_of_RTC (next := kidsF env) h
  obtain ⟨r, l, j, hd, hj⟩ := member_path env mem hm u hu
  have hlt := descF_pathLen _ _ _ _ hd _ _ (hj.trans hk)
  have hmem : u ∈ y :: ancestorsOf env (env.n + 1) y := by
    rcases List.mem_cons.1 (mem_ancestors_of_path env mem hm hch u y k hk hu) with h | h
    · exact h ▸ List.mem_cons_self
    · exact List.mem_cons_of_mem _ (ancestorsOf_mono_le env y u k _ (by omega) h)
  simp only [freeLeaf, Bool.and_eq_true, List.all_eq_true] at hy
  have := hy.2 u hmem
  simpa [List.isEmpty_iff] using this

/-! ### WBS order: order of two elements in a list -/

theorem pair_sublist_append {x y : Uid} {l1 l2 : List Uid} (h : List.Sublist [x, y] (l1 ++ l2)) :
    List.Sublist [x, y] (l1) ∨ (x ∈ l1 ∧ y ∈ l2) ∨ List.Sublist [x, y] (l2) := by
  obtain ⟨a, b, hab, ha, hb⟩ := List.sublist_append_iff.1 h
  cases a with
  | nil =>
    simp only [List.nil_append] at hab
    subst hab
    exact Or.inr (Or.inr hb)
  | cons a0 a' =>
    cases a' with
    | nil =>
      simp only [List.cons_append, List.nil_append, List.cons.injEq] at hab
      obtain ⟨rfl, rfl⟩ := hab
      exact Or.inr (Or.inl ⟨List.singleton_sublist.1 ha, List.singleton_sublist.1 hb⟩)
    | cons a1 a'' =>
      simp only [List.cons_append, List.cons.injEq] at hab
      obtain ⟨rfl, rfl, hnil⟩ := hab
      have : a'' = [] ∧ b = [] := by simpa using hnil.symm
      rw [this.1] at ha
      exact Or.inl ha

theorem pair_sublist_mem {x y : Uid} {l : List Uid} (h : List.Sublist [x, y] (l)) : x ∈ l ∧ y ∈ l :=
  ⟨h.subset (by simp), h.subset (by simp)⟩

theorem pair_sublist_of_lt (l : List Uid) (i j : Nat) (hij : i < j) (hj : j < l.length) :
    List.Sublist [l[i]'(by omega), l[j]] l := by
  have hi : i < l.length := by omega
  have h1 : l = l.take i ++ l[i] :: l.drop (i + 1) := by
    rw [← List.drop_eq_getElem_cons hi, List.take_append_drop]
  have h2 : l[j] ∈ l.drop (i + 1) := by
    have hlen : j - (i + 1) < (l.drop (i + 1)).length := by simp; omega
    have := List.getElem_mem hlen
    rw [List.getElem_drop] at this
    simpa [show i + 1 + (j - (i + 1)) = j by omega] using this
  have h3 : List.Sublist [l[i], l[j]] (l.take i ++ l[i] :: l.drop (i + 1)) := by
    have : [l[i], l[j]] = [] ++ l[i] :: [l[j]] := rfl
    rw [this]
    exact List.Sublist.append (List.nil_sublist _) ((List.singleton_sublist.2 h2).cons_cons _)
  have h4 : List.Sublist (l.take i ++ l[i] :: l.drop (i + 1)) l := by
    rw [← h1]; exact List.Sublist.refl _
  exact h3.trans h4

theorem idxOf_ext {d l : List Uid} {x : Uid} (hx : x ∈ d) : (d ++ l).idxOf x = d.idxOf x := by
  rw [List.idxOf_append, if_pos hx]

theorem idxOf_new {d l : List Uid} {y : Uid} (hy : y ∉ d) : d.length ≤ (d ++ l).idxOf y := by
  rw [List.idxOf_append, if_neg hy]
  omega

/-! ### WBS order: free leaves become done in WBS order -/

section order
variable (env : Env) (mem : List Uid) (hm : members env = some mem)
  (hmemb : ∀ t, (env.info t).member = true ↔ t ∈ mem)
  (hl : env.linksSym)
  (hch : ∀ t c, t ∈ mem → c ∈ (env.info t).children → (env.info c).parent = some t)

include hm hmemb hl hch in
/-- a pass on a task that is not above a free leaf does not place that leaf -/
theorem free_untouched (y : Uid) (hy : freeLeaf env y = true) (fuel : Nat) (stk : List Uid) (σ : SS) (t : Uid)
    (m : Time) (σ' : SS) (ht : t ∈ mem) (hnt : ¬ RTC (fun a b => b ∈ (env.info a).children) t y)
    (hyd : y ∉ σ.done) (h : fwdPass env fuel stk σ t m = .ok σ') : y ∉ σ'.done := by
  refine fwdPass_inv2 env (fun σ => y ∉ σ.done)
    (fun t _ => t ∈ mem ∧ ¬ RTC (fun a b => b ∈ (env.info a).children) t y) ?_ ?_ ?_ fuel stk σ t m σ' ⟨ht, hnt⟩ hyd h
  · intro σ1 σ σ' t m hq hi _ _ htd _ hpl
    obtain ⟨_, hd⟩ := fwdPlace_ext env σ σ' t _ htd hpl
    rw [hd]
    intro hc
    rcases List.mem_append.1 hc with hc | hc
    · exact hi hc
    · simp only [List.mem_singleton] at hc
      subst hc
      exact hq.2 RTC.refl
  · intro t c σ1 m hq hc
    exact ⟨members_children env mem hm t hq.1 c hc, fun hr => hq.2 (RTC.head hc hr)⟩
  · intro t p m hq hp hpm
    have hpmem : p ∈ mem := (hmemb p).1 (hpm.trans ((hmemb t).2 hq.1))
    refine ⟨hpmem, fun hr => ?_⟩
    have := (free_anc env mem hm hch y hy p hpmem hr).2
    have hts := (hl p t).1 hp
    rw [this] at hts
    cases hts

/-- after a pass over a list of tasks all their subtrees are done -/
theorem passList_subtrees_done (fuel : Nat) (stk : List Uid) (m : Time) (ts : List Uid) (g : Nat)
    (ls : List (List Uid)) (σ σ' : SS) (hcl : DoneClosed env σ)
    (hp : passList (fun σ c => fwdPass env fuel stk σ c m) σ ts = .ok σ')
    (hls : ts.mapM (fun c => (descF (kidsF env) g c).map (fun r => c :: r)) = some ls) :
    DoneClosed env σ' ∧ ∀ z ∈ ls.flatten, z ∈ σ'.done := by
  have hcl' : DoneClosed env σ' :=
    passList_inv (DoneClosed env) _ _ (fun a x b _ ha hh => fwdPass_doneClosed env _ _ _ _ _ _ ha hh) _ _ hcl hp
  have hdone : ∀ c ∈ ts, c ∈ σ'.done :=
    passList_all_done _ _ (fun a x b _ hh => fwdPass_ext env _ _ _ _ _ _ hh) _ _ hp
  refine ⟨hcl', ?_⟩
  intro z hz
  obtain ⟨b, hb, hzb⟩ := List.mem_flatten.1 hz
  obtain ⟨c, hc, hg⟩ := mapM_some_mem_inv _ _ _ hls b hb
  simp only [Option.map_eq_some_iff] at hg
  obtain ⟨r, hr, rfl⟩ := hg
  rcases List.mem_cons.1 hzb with rfl | hzr
  · exact hdone _ hc
  · exact hcl'.desc (hdone c hc) (descF_sound _ _ _ _ hr z hzr)

/-- what a pass establishes about the free leaves of a listing `S`: those that were not done before are done
    afterwards, in the order of `S` -/
def OrderedNew (env : Env) (σ σ' : SS) (S : List Uid) : Prop :=
  ∀ x y, freeLeaf env x = true → freeLeaf env y = true → List.Sublist [x, y] S → y ∉ σ.done →
    x ∈ σ'.done ∧ y ∈ σ'.done ∧ σ'.done.idxOf x < σ'.done.idxOf y

theorem order_ext {σ1 σ' : SS} (he : Ext σ1 σ') {x y : Uid} (hx : x ∈ σ1.done) (hy : y ∈ σ1.done)
    (hlt : σ1.done.idxOf x < σ1.done.idxOf y) :
    x ∈ σ'.done ∧ y ∈ σ'.done ∧ σ'.done.idxOf x < σ'.done.idxOf y := by
  obtain ⟨l, hl, _⟩ := he.done
  refine ⟨he.done_sub hx, he.done_sub hy, ?_⟩
  rw [hl, idxOf_ext hx, idxOf_ext hy]
  exact hlt

theorem order_new {σ1 σ' : SS} (he : Ext σ1 σ') {x y : Uid} (hx : x ∈ σ1.done) (hy : y ∉ σ1.done)
    (hy' : y ∈ σ'.done) : x ∈ σ'.done ∧ y ∈ σ'.done ∧ σ'.done.idxOf x < σ'.done.idxOf y := by
  obtain ⟨l, hl, _⟩ := he.done
  refine ⟨he.done_sub hx, hy', ?_⟩
  rw [hl, idxOf_ext hx]
  have h1 := List.idxOf_lt_length_of_mem hx
  have h2 := idxOf_new (l := l) hy
  omega

include hm hmemb hl hch in
/-- from single passes to a pass over a list of siblings (or roots) -/
theorem order_list (fuel : Nat)
    (hP : ∀ (stk : List Uid) (σ : SS) (t : Uid) (m : Time) (σ' : SS) (g : Nat) (l : List Uid),
      fwdPass env fuel stk σ t m = .ok σ' → t ∈ mem → DoneClosed env σ → descF (kidsF env) g t = some l →
      (t :: l).Nodup → OrderedNew env σ σ' (t :: l)) :
    ∀ (ts : List Uid) (stk : List Uid) (m : Time) (g : Nat) (ls : List (List Uid)) (σ σ' : SS),
      passList (fun σ c => fwdPass env fuel stk σ c m) σ ts = .ok σ' → (∀ c ∈ ts, c ∈ mem) → DoneClosed env σ →
      ts.mapM (fun c => (descF (kidsF env) g c).map (fun r => c :: r)) = some ls → ls.flatten.Nodup →
      OrderedNew env σ σ' ls.flatten := by
  intro ts
  induction ts with
  | nil =>
    intro stk m g ls σ σ' _ _ _ hls _ x y _ _ hsub _
    simp only [List.mapM_nil] at hls
    cases hls
    cases hsub
  | cons c cs ih =>
    intro stk m g ls σ σ' hp hmemts hcl hls hnd x y hx hy hsub hyd
    obtain ⟨b, bs, hb, hbs, rfl⟩ := (mapM_some_cons _ c cs ls).mp hls
    simp only [Option.map_eq_some_iff] at hb
    obtain ⟨lc, hlc, rfl⟩ := hb
    simp only [passList, bind, Except.bind] at hp
    split at hp
    · cases hp
    · rename_i σ1 h1
      have hcmem := hmemts c List.mem_cons_self
      obtain ⟨e1, hc1⟩ := fwdPass_ext env _ _ _ _ _ _ h1
      have hcl1 := fwdPass_doneClosed env _ _ _ _ _ _ hcl h1
      have e2 : Ext σ1 σ' := passList_ext _ (fun a z b hh => (fwdPass_ext env _ _ _ _ _ _ hh).1) _ _ _ hp
      have hsub1 : ∀ z ∈ c :: lc, z ∈ σ1.done := by
        intro z hz
        rcases List.mem_cons.1 hz with rfl | hz
        · exact hc1
        · exact hcl1.desc hc1 (descF_sound _ _ _ _ hlc z hz)
      simp only [List.flatten_cons] at hnd hsub
      obtain ⟨hnd1, hnd2, hdisj⟩ := List.nodup_append.1 hnd
      -- a free leaf listed later is not placed by the pass on `c`
      have hlater : y ∈ bs.flatten → y ∉ σ1.done := by
        intro hyb
        refine free_untouched env mem hm hmemb hl hch y hy _ _ _ _ _ _ hcmem ?_ hyd h1
        intro hr
        have : y ∈ c :: lc := by
          rcases RTC.cases_eq_or_TC hr with rfl | htc
          · exact List.mem_cons_self
          · exact List.mem_cons_of_mem _ (descF_complete _ _ _ _ hlc y htc)
        exact hdisj y this y hyb rfl
      obtain ⟨_, hall⟩ := passList_subtrees_done env _ _ _ cs g bs σ1 σ' hcl1 hp hbs
      rcases pair_sublist_append hsub with h | ⟨hx1, hy2⟩ | h
      · obtain ⟨a1, a2, a3⟩ := hP _ _ _ _ _ _ _ h1 hcmem hcl hlc hnd1 x y hx hy h hyd
        exact order_ext e2 a1 a2 a3
      · exact order_new e2 (hsub1 x hx1) (hlater hy2) (hall y hy2)
      · exact ih stk m g bs σ1 σ' hp (fun z hz => hmemts z (List.mem_cons_of_mem _ hz)) hcl1 hbs hnd2 x y hx hy h
          (hlater (pair_sublist_mem h).2)

end order

section order2
variable (env : Env) (mem : List Uid) (hm : members env = some mem)
  (hmemb : ∀ t, (env.info t).member = true ↔ t ∈ mem)
  (hl : env.linksSym)
  (hch : ∀ t c, t ∈ mem → c ∈ (env.info t).children → (env.info c).parent = some t)

include hm hmemb hl hch in
/-- one pass places the free leaves of its subtree in WBS order -/
theorem order_pass : ∀ (fuel : Nat) (stk : List Uid) (σ : SS) (t : Uid) (m : Time) (σ' : SS) (g : Nat) (l : List Uid),
    fwdPass env fuel stk σ t m = .ok σ' → t ∈ mem → DoneClosed env σ → descF (kidsF env) g t = some l →
    (t :: l).Nodup → OrderedNew env σ σ' (t :: l) := by
  intro fuel
  induction fuel with
  | zero => intro stk σ t m σ' g l h; cases h
  | succ fuel ih =>
    intro stk σ t m σ' g l h htm hcl hd hnd x y hx hy hsub hyd
    have hymem := (pair_sublist_mem hsub).2
    rw [fwdPass_eq_gPass] at h
    rcases gPass_succ_cases env _ _ _ _ fuel stk σ t m σ' h with ⟨hdone, rfl⟩ | ⟨hdone, hs, σ1, σ2, h1, h2, h3⟩
    · -- already done: so is the whole subtree
      exfalso
      apply hyd
      rcases List.mem_cons.1 hymem with rfl | hyl
      · exact hdone
      · exact hcl.desc hdone (descF_sound _ _ _ _ hd y hyl)
    · simp only [← fwdPass_eq_gPass] at h1 h2
      cases g with
      | zero => simp [descF] at hd
      | succ g =>
        simp only [descF, Option.map_eq_some_iff] at hd
        obtain ⟨ls, hls, rfl⟩ := hd
        -- `x` is a leaf, so it is not `t`
        have hxy : List.Sublist [x, y] ls.flatten := by
          rcases List.sublist_cons_iff.1 hsub with h | ⟨r, hr, hr'⟩
          · exact h
          · exfalso
            simp only [List.cons.injEq] at hr
            obtain ⟨rfl, rfl⟩ := hr
            have hyl : y ∈ ls.flatten := List.singleton_sublist.1 hr'
            have hleaf : (env.info x).children = [] := by
              simp only [freeLeaf, isLeaf, Bool.and_eq_true, List.isEmpty_iff] at hx
              exact hx.1
            simp only [kidsF, hleaf, List.mapM_nil, Option.pure_def, Option.some.injEq] at hls
            subst hls
            cases hyl
        have hyl := (pair_sublist_mem hxy).2
        have htc : TC (fun a b => b ∈ (env.info a).children) t y :=
          descF_sound (kidsF env) (g + 1) t ls.flatten (by simp only [descF, hls]; rfl) y hyl
        have hpreds := (free_anc env mem hm hch y hy t htm htc.toRTC).1
        simp only [hpreds, passList, pure, Except.pure, Except.ok.injEq] at h1
        subst h1
        have hon := order_list env mem hm hmemb hl hch fuel ih (env.info t).children (t :: stk) _ g ls σ σ2 h2
          (fun c hc => members_children env mem hm t htm c hc) hcl hls (List.nodup_cons.1 hnd).2 x y hx hy hxy hyd
        have e1 : ExtS (t :: stk) σ σ2 := passList_extS _ _ _
          (fun a z b _ hh => (fwdPass_extS env fuel (t :: stk) a z _ b hh).1) _ _ h2
        have ht2 : t ∉ σ2.done := e1.2 t List.mem_cons_self hdone
        obtain ⟨e3, _⟩ := fwdPlace_ext env σ2 σ' t _ ht2 h3
        exact order_ext e3 hon.1 hon.2.1 hon.2.2

end order2

/-! ### WBS order: the ledger is sorted by the order in which tasks became done -/

structure SortedI (σ : SS) : Prop where
  nodup : σ.done.Nodup
  rowsDone : ∀ r ∈ σ.rows, r.task ∈ σ.done
  sorted : σ.rows.Pairwise (fun r r' => σ.done.idxOf r.task ≤ σ.done.idxOf r'.task)

theorem SortedI.place {env : Env} {σ σ' : SS} {t : Uid} {v : Time} (hi : SortedI σ) (ht : t ∉ σ.done)
    (h : fwdPlace env σ t v = .ok σ') : SortedI σ' := by
  obtain ⟨new, σm, hst, rfl, _⟩ := fwdPlace_stage env σ σ' t v h
  have hd : (markDone σm t).done = σ.done ++ [t] := by simp [markDone, hst.done]
  have hr : (markDone σm t).rows = σ.rows ++ new.map (mkRow (env.info t).resource t) := hst.rows
  refine ⟨?_, ?_, ?_⟩
  · rw [hd]
    exact List.nodup_append.2 ⟨hi.nodup, by simp, fun a ha b hb hab => by
      simp only [List.mem_singleton] at hb; exact ht (hb ▸ hab ▸ ha)⟩
  · intro r hr'
    rw [hr] at hr'
    rw [hd]
    rcases List.mem_append.1 hr' with h | h
    · exact List.mem_append_left _ (hi.rowsDone r h)
    · obtain ⟨p, _, rfl⟩ := List.mem_map.1 h
      simp [mkRow]
  · rw [hr, hd]
    refine List.pairwise_append.2 ⟨?_, ?_, ?_⟩
    · refine List.Pairwise.imp_of_mem ?_ hi.sorted
      intro a b ha hb hab
      rw [idxOf_ext (hi.rowsDone a ha), idxOf_ext (hi.rowsDone b hb)]
      exact hab
    · rw [List.pairwise_map]
      exact List.pairwise_of_forall (fun _ _ => Nat.le_refl _)
    · intro a ha b hb
      obtain ⟨p, _, rfl⟩ := List.mem_map.1 hb
      rw [idxOf_ext (hi.rowsDone a ha)]
      have h1 := List.idxOf_lt_length_of_mem (hi.rowsDone a ha)
      have h2 := idxOf_new (l := [t]) ht
      simp only [mkRow]
      omega

/-- `C08_order`, for a forest (`membersNodup`, `childrenOK`) with links stored on both ends -/
theorem order_holds (env : Env) (f0 : Uid → Fields) (res0 : List (Option Nat × Cal)) (o : Output)
    (hf : env.flagsOK) (hl : env.linksSym) (hch : env.childrenOK) (hn : env.membersNodup)
    (h : forwardCalc env f0 res0 = .ok o) : c08Order env o = true := by
  obtain ⟨mem, σ, hm, hp, hout⟩ := fwdRun_ok env f0 res0 o (forwardCalc_run env f0 res0 o h)
  have hml := memberList_eq env mem hm
  have hmemb : ∀ t, (env.info t).member = true ↔ t ∈ mem := fun t => by rw [← hml]; exact hf t
  have hch' : ∀ t c, t ∈ mem → c ∈ (env.info t).children → (env.info c).parent = some t := by
    intro t c ht hc; exact hch t c (by rw [hml]; exact ht) hc
  have hnd : mem.Nodup := by rw [← hml]; exact hn
  -- the ledger is sorted by `done`
  have hS : SortedI σ := by
    refine passList_inv SortedI _ _ ?_ _ _ ⟨List.nodup_nil, (fun r hr => by cases hr), List.Pairwise.nil⟩ hp
    intro a x b _ ha hh
    exact fwdPass_inv env SortedI (fun _ => True) (fun σ σ' t v _ hi ht _ hpl => hi.place ht hpl)
      (fun _ _ _ _ => trivial) (fun _ _ _ _ _ => trivial) _ _ _ _ _ _ trivial ha hh
  -- free leaves are done in WBS order
  have hmem' := hm
  unfold members at hmem'
  simp only [Option.map_eq_some_iff] at hmem'
  obtain ⟨ls, hls, hflat⟩ := hmem'
  have hON : OrderedNew env { f := prepare env f0 mem, rows := [], done := [], res := res0, reads := 1 } σ mem := by
    have := order_list env mem hm hmemb hl hch' (env.n + 1)
      (order_pass env mem hm hmemb hl hch' (env.n + 1)) env.roots [] env.bound (env.n + 1) ls _ σ hp
      (members_root env mem hm) (by intro x hx; cases hx) hls (by rw [hflat]; exact hnd)
    rw [hflat] at this
    exact this
  subst hout
  unfold c08Order
  simp only [List.all_eq_true, List.mem_range, List.mem_filter, Bool.or_eq_true, Bool.not_eq_true',
    decide_eq_false_iff_not, decide_eq_true_eq, hml, and_imp]
  intro i hi j hj
  by_cases hij : i < j
  · right
    intro a ha hta b hb htb
    have hxi : ((mem.filter (freeLeaf env)).getD i 0) = (mem.filter (freeLeaf env))[i] := by simp [hi]
    have hxj : ((mem.filter (freeLeaf env)).getD j 0) = (mem.filter (freeLeaf env))[j] := by simp [hj]
    have hra : σ.rows.getD a default = σ.rows[a] := by simp [ha]
    have hrb : σ.rows.getD b default = σ.rows[b] := by simp [hb]
    rw [hxi, hra] at hta
    rw [hxj, hrb] at htb
    have hta' : σ.rows[a].task = (mem.filter (freeLeaf env))[i] := by simpa using hta
    have htb' : σ.rows[b].task = (mem.filter (freeLeaf env))[j] := by simpa using htb
    have hsub : List.Sublist [(mem.filter (freeLeaf env))[i], (mem.filter (freeLeaf env))[j]] mem :=
      (pair_sublist_of_lt _ i j hij hj).trans List.filter_sublist
    have hfi : freeLeaf env (mem.filter (freeLeaf env))[i] = true :=
      (List.mem_filter.1 (List.getElem_mem hi)).2
    have hfj : freeLeaf env (mem.filter (freeLeaf env))[j] = true :=
      (List.mem_filter.1 (List.getElem_mem hj)).2
    obtain ⟨_, _, hlt⟩ := hON _ _ hfi hfj hsub (by simp)
    rw [← hta', ← htb'] at hlt
    apply Classical.byContradiction
    intro hab
    rcases Nat.lt_or_ge b a with hba | hba
    · have := (List.pairwise_iff_getElem.1 hS.sorted) b a hb ha hba
      omega
    · have : a = b := by omega
      subst this
      omega
  · left; exact hij

end Pj.C08
