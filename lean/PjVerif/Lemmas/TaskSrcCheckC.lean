/-
  Lemmas/TaskSrcCheckC.lean — stage 1 of the translated tie for task.py, stage C: kernel-checked concrete runs of the
  translated source (Extracted/TaskSrc.lean) against the graph model.  The graphs and the comparison are defined in
  Lemmas/TaskSrcCheck.lean; see Lemmas/TaskSrc.lean for the setting.  (The checks are spread over several files so
  that `lake` builds them in parallel.)
-/
import PjVerif.Lemmas.TaskSrcCheck
namespace Pj.TaskSrc
open Pj.PyLite Pj.Extracted
namespace Check

/-! #### stage C: the `predecessors` / `successors` setters -/

def agreePreds (s : G) (t : Uid) (l : List Uid) : Prop :=
  observe s.n (interpSetPreds F t (refs l) (encSt s)) = expect s.n (setPreds s t l)
instance (s t l) : Decidable (agreePreds s t l) := by unfold agreePreds; infer_instance
def agreeSuccs (s : G) (t : Uid) (l : List Uid) : Prop :=
  observe s.n (interpSetSuccs F t (refs l) (encSt s)) = expect s.n (setSuccs s t l)
instance (s t l) : Decidable (agreeSuccs s t l) := by unfold agreeSuccs; infer_instance

/-- every call with the empty list, every one-element list and every list `[a, 3, a]` -/
def linksAgree (s : G) : Bool :=
  allU s (fun t => decide (agreePreds s t []) && decide (agreeSuccs s t []) &&
    allU s (fun a => decide (agreePreds s t [a]) && decide (agreeSuccs s t [a]) &&
      decide (agreePreds s t [a, 3, a]) && decide (agreeSuccs s t [a, 3, a])))

example : linksAgree g1 = true := by decide +kernel
example : linksAgree g2 = true := by decide +kernel
example : linksAgree g3 = true := by decide +kernel

example : (setPreds g1 10 [11, 6]).2 = none ∧ agreePreds g1 10 [11, 6] := by decide +kernel             -- accepted
example : (setPreds g1 2 []).2 = none ∧ (setPreds g1 2 []).1.succs 3 = [] ∧ agreePreds g1 2 [] := by decide +kernel
example : (setPreds g1 2 [1]).2 = some .runtime ∧ agreePreds g1 2 [1] := by decide +kernel             -- an ancestor
example : (setPreds g1 1 [2]).2 = some .runtime ∧ agreePreds g1 1 [2] := by decide +kernel             -- a descendant
example : (setPreds g1 3 [2]).2 = some .runtime ∧ agreePreds g1 3 [2] := by decide +kernel             -- a cycle
example : (setPreds g1 2 [2]).2 = some .runtime ∧ agreePreds g1 2 [2] := by decide +kernel             -- the task itself
example : (setSuccs g2 6 [4]).2 = some .runtime ∧ agreeSuccs g2 6 [4] := by decide +kernel             -- a longer cycle
example : (setSuccs g2 2 [6, 6]).2 = none ∧ agreeSuccs g2 2 [6, 6] := by decide +kernel                -- a repeated item
example : (setPreds g1 1 [0]).2 = none ∧ agreePreds g1 1 [0] := by decide +kernel                      -- the hidden root
-- the other forms of the value: `None`, a task, a list with `None`s
example : observe g1.n (interpSetPreds F 2 (.atom .none) (encSt g1)) = expect g1.n (setPreds g1 2 []) := by decide +kernel
example : observe g1.n (interpSetPreds F 10 (refV 11) (encSt g1)) = expect g1.n (setPreds g1 10 [11]) := by decide +kernel
example : observe g1.n (interpSetSuccs F 10 (.list [.none, .ref 11, .none, .ref 6]) (encSt g1)) =
    expect g1.n (setSuccs g1 10 [11, 6]) := by decide +kernel

end Check
end Pj.TaskSrc
