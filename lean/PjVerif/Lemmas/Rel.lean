/-
  Lemmas/Rel.lean — closures (`TC`, `RTC` of Spec/Graph.lean) and the link between the fuel-bounded
  enumerations of the model (`descF`, `ancF`, `rootF`) and those closures.
-/
import PjVerif.Spec.Graph
namespace Pj

variable {α : Type} {r : α → α → Prop}

theorem TC.trans {a b c : α} (h1 : TC r a b) (h2 : TC r b c) : TC r a c := by
  induction h2 with
  | single h => exact TC.tail h1 h
  | tail _ h ih => exact TC.tail ih h

theorem TC.head {a b c : α} (h1 : r a b) (h2 : TC r b c) : TC r a c :=
  TC.trans (TC.single h1) h2

theorem TC.head_cases {a c : α} (h : TC r a c) : r a c ∨ ∃ b, r a b ∧ TC r b c := by
  induction h with
  | single h => exact Or.inl h
  | tail _ hr ih =>
    rcases ih with h | ⟨b, hab, hbc⟩
    · exact Or.inr ⟨_, h, TC.single hr⟩
    · exact Or.inr ⟨b, hab, TC.tail hbc hr⟩

theorem TC.tail_cases {a c : α} (h : TC r a c) : r a c ∨ ∃ b, TC r a b ∧ r b c := by
  cases h with
  | single h => exact Or.inl h
  | tail h1 h2 => exact Or.inr ⟨_, h1, h2⟩

theorem TC.toRTC {a b : α} (h : TC r a b) : RTC r a b := by
  induction h with
  | single h => exact RTC.tail RTC.refl h
  | tail _ h ih => exact RTC.tail ih h

theorem RTC.trans {a b c : α} (h1 : RTC r a b) (h2 : RTC r b c) : RTC r a c := by
  induction h2 with
  | refl => exact h1
  | tail _ h ih => exact RTC.tail ih h

theorem RTC.cases_eq_or_TC {a b : α} (h : RTC r a b) : a = b ∨ TC r a b := by
  induction h with
  | refl => exact Or.inl rfl
  | tail _ hr ih =>
    rcases ih with rfl | h
    · exact Or.inr (TC.single hr)
    · exact Or.inr (TC.tail h hr)

theorem RTC.head {a b c : α} (h1 : r a b) (h2 : RTC r b c) : RTC r a c :=
  RTC.trans (RTC.tail RTC.refl h1) h2

theorem TC.of_RTC_step {a b c : α} (h1 : RTC r a b) (h2 : r b c) : TC r a c := by
  rcases RTC.cases_eq_or_TC h1 with rfl | h
  · exact TC.single h2
  · exact TC.tail h h2

theorem TC.of_step_RTC {a b c : α} (h1 : r a b) (h2 : RTC r b c) : TC r a c := by
  induction h2 with
  | refl => exact TC.single h1
  | tail _ h ih => exact TC.tail ih h

theorem TC.mono {r' : α → α → Prop} (hm : ∀ a b, r a b → r' a b) {a b : α} (h : TC r a b) : TC r' a b := by
  induction h with
  | single h => exact TC.single (hm _ _ h)
  | tail _ h ih => exact TC.tail ih (hm _ _ h)

theorem RTC.mono {r' : α → α → Prop} (hm : ∀ a b, r a b → r' a b) {a b : α} (h : RTC r a b) : RTC r' a b := by
  induction h with
  | refl => exact RTC.refl
  | tail _ h ih => exact RTC.tail ih (hm _ _ h)

/-- the closure of the flipped relation is the flipped closure -/
theorem TC.flip {a b : α} (h : TC (fun x y => r y x) a b) : TC r b a := by
  induction h with
  | single h => exact TC.single h
  | tail _ h ih => exact TC.head h ih

/-- converse of `TC.flip` -/
theorem TC.unflip {a b : α} (h : TC r b a) : TC (fun x y => r y x) a b := by
  induction h with
  | single h => exact TC.single h
  | tail _ h ih => exact TC.head (r := fun x y => r y x) h ih

theorem RTC.flip {a b : α} (h : RTC (fun x y => r y x) a b) : RTC r b a := by
  induction h with
  | refl => exact RTC.refl
  | tail _ h ih => exact RTC.head h ih

theorem RTC.unflip {a b : α} (h : RTC r b a) : RTC (fun x y => r y x) a b := by
  induction h with
  | refl => exact RTC.refl
  | tail _ h ih => exact RTC.head (r := fun x y => r y x) h ih

/-- (auxiliary, stated again below under its official name) -/
theorem TC_add_in_edges_cases_aux (R : α → α → Prop) (a : α) (S : α → Prop) {x y : α}
    (h : TC (fun u w => R u w ∨ (S u ∧ w = a)) x y) :
    TC R x y ∨ ∃ v, S v ∧ RTC R x v ∧ RTC R a y := by
  induction h with
  | single h =>
    rcases h with h | ⟨hS, rfl⟩
    · exact Or.inl (TC.single h)
    · exact Or.inr ⟨_, hS, RTC.refl, RTC.refl⟩
  | tail _ h ih =>
    rcases h with h | ⟨hS, rfl⟩
    · rcases ih with ih | ⟨v, hv, h1, h2⟩
      · exact Or.inl (TC.tail ih h)
      · exact Or.inr ⟨v, hv, h1, RTC.tail h2 h⟩
    · rcases ih with ih | ⟨v, hv, h1, _⟩
      · exact Or.inr ⟨_, hS, ih.toRTC, RTC.refl⟩
      · exact Or.inr ⟨v, hv, h1, RTC.refl⟩

/-- adding edges that all point INTO one node `a` (from sources satisfying `S`) keeps a relation acyclic,
    provided `a` does not reach any of the new sources (reflexively) -/
theorem acyclic_add_in_edges (R : α → α → Prop) (a : α) (S : α → Prop)
    (hac : ∀ x, ¬ TC R x x) (hno : ∀ v, S v → ¬ RTC R a v) :
    ∀ x, ¬ TC (fun u w => R u w ∨ (S u ∧ w = a)) x x := by
  intro x h
  rcases TC_add_in_edges_cases_aux R a S h with h | ⟨v, hv, h1, h2⟩
  · exact hac x h
  · exact hno v hv (RTC.trans h2 h1)

/-- mirror image: adding edges that all leave one node `a` (to targets satisfying `S`) keeps a relation
    acyclic, provided no new target reaches `a` (reflexively) -/
theorem acyclic_add_out_edges (R : α → α → Prop) (a : α) (S : α → Prop)
    (hac : ∀ x, ¬ TC R x x) (hno : ∀ v, S v → ¬ RTC R v a) :
    ∀ x, ¬ TC (fun u w => R u w ∨ (u = a ∧ S w)) x x := by
  intro x h
  refine acyclic_add_in_edges (fun u w => R w u) a S (fun y hy => hac y (TC.flip hy))
    (fun v hv hr => hno v hv (RTC.flip hr)) x ?_
  refine TC.mono ?_ (TC.unflip h)
  intro u w huw
  rcases huw with h | ⟨h1, h2⟩
  · exact Or.inl h
  · exact Or.inr ⟨h2, h1⟩

/-- in the relation extended by in-edges to `a`, a path either is an old path or passes through a new source -/
theorem TC_add_in_edges_cases (R : α → α → Prop) (a : α) (S : α → Prop) {x y : α}
    (h : TC (fun u w => R u w ∨ (S u ∧ w = a)) x y) :
    TC R x y ∨ ∃ v, S v ∧ RTC R x v ∧ RTC R a y :=
  TC_add_in_edges_cases_aux R a S h

/-! ### the enumerations -/

theorem mapM_some_cons {β γ : Type} (g : β → Option γ) (a : β) (l : List β) (r : List γ) :
    (a :: l).mapM g = some r ↔ ∃ b bs, g a = some b ∧ l.mapM g = some bs ∧ r = b :: bs := by
  simp only [List.mapM_cons, bind, pure, Option.bind_eq_some_iff, Option.some.injEq]
  constructor
  · rintro ⟨b, hb, bs, hbs, rfl⟩; exact ⟨b, bs, hb, hbs, rfl⟩
  · rintro ⟨b, bs, hb, hbs, rfl⟩; exact ⟨b, hb, bs, hbs, rfl⟩

theorem mapM_some_mem {β γ : Type} (g : β → Option γ) (l : List β) (r : List γ)
    (h : l.mapM g = some r) : ∀ a ∈ l, ∃ b ∈ r, g a = some b := by
  induction l generalizing r with
  | nil => intro a ha; cases ha
  | cons x xs ih =>
    obtain ⟨b, bs, hb, hbs, rfl⟩ := (mapM_some_cons g x xs r).mp h
    intro a ha
    rcases List.mem_cons.mp ha with rfl | ha
    · exact ⟨b, List.mem_cons_self, hb⟩
    · obtain ⟨b', hb', hg⟩ := ih bs hbs a ha
      exact ⟨b', List.mem_cons_of_mem _ hb', hg⟩

theorem mapM_some_mem_inv {β γ : Type} (g : β → Option γ) (l : List β) (r : List γ)
    (h : l.mapM g = some r) : ∀ b ∈ r, ∃ a ∈ l, g a = some b := by
  induction l generalizing r with
  | nil =>
    simp only [List.mapM_nil, pure, Option.some.injEq] at h
    subst h; intro b hb; cases hb
  | cons x xs ih =>
    obtain ⟨b, bs, hb, hbs, rfl⟩ := (mapM_some_cons g x xs r).mp h
    intro b' hb'
    rcases List.mem_cons.mp hb' with rfl | hb'
    · exact ⟨x, List.mem_cons_self, hb⟩
    · obtain ⟨a, ha, hg⟩ := ih bs hbs b' hb'
      exact ⟨a, List.mem_cons_of_mem _ ha, hg⟩

theorem mapM_some_congr {β γ : Type} (g g' : β → Option γ) (l : List β) (r : List γ)
    (hg : ∀ a ∈ l, ∀ b, g a = some b → g' a = some b)
    (h : l.mapM g = some r) : l.mapM g' = some r := by
  induction l generalizing r with
  | nil => simpa using h
  | cons x xs ih =>
    obtain ⟨b, bs, hb, hbs, rfl⟩ := (mapM_some_cons g x xs r).mp h
    exact (mapM_some_cons g' x xs _).mpr ⟨b, bs, hg x List.mem_cons_self b hb,
      ih bs (fun a ha => hg a (List.mem_cons_of_mem _ ha)) hbs, rfl⟩

/-- `descF` lists everything reachable (completeness, given that the fuel did not run out) -/
theorem descF_complete (next : Uid → List Uid) (f : Nat) (t : Uid) (l : List Uid)
    (h : descF next f t = some l) : ∀ x, TC (fun a b => b ∈ next a) t x → x ∈ l := by
  induction f generalizing t l with
  | zero => simp [descF] at h
  | succ f ih =>
    intro x hx
    simp only [descF, Option.map_eq_some_iff] at h
    obtain ⟨ll, hll, rfl⟩ := h
    rcases TC.head_cases hx with hc | ⟨c, hc, hrest⟩
    · obtain ⟨b, hb, hg⟩ := mapM_some_mem _ _ _ hll x hc
      simp only [Option.map_eq_some_iff] at hg
      obtain ⟨r', _, rfl⟩ := hg
      exact List.mem_flatten.mpr ⟨_, hb, List.mem_cons_self⟩
    · obtain ⟨b, hb, hg⟩ := mapM_some_mem _ _ _ hll c hc
      simp only [Option.map_eq_some_iff] at hg
      obtain ⟨r', hr', rfl⟩ := hg
      exact List.mem_flatten.mpr ⟨_, hb, List.mem_cons_of_mem _ (ih c r' hr' x hrest)⟩

/-- … and only reachable things (soundness) -/
theorem descF_sound (next : Uid → List Uid) (f : Nat) (t : Uid) (l : List Uid)
    (h : descF next f t = some l) : ∀ x, x ∈ l → TC (fun a b => b ∈ next a) t x := by
  induction f generalizing t l with
  | zero => simp [descF] at h
  | succ f ih =>
    intro x hx
    simp only [descF, Option.map_eq_some_iff] at h
    obtain ⟨ll, hll, rfl⟩ := h
    obtain ⟨b, hb, hxb⟩ := List.mem_flatten.mp hx
    obtain ⟨c, hc, hg⟩ := mapM_some_mem_inv _ _ _ hll b hb
    simp only [Option.map_eq_some_iff] at hg
    obtain ⟨r', hr', rfl⟩ := hg
    rcases List.mem_cons.mp hxb with rfl | hxr
    · exact TC.single hc
    · exact TC.head (r := fun a b => b ∈ next a) hc (ih c r' hr' x hxr)

/-- more fuel does not change a successful enumeration -/
theorem descF_mono (next : Uid → List Uid) (f : Nat) (t : Uid) (l : List Uid)
    (h : descF next f t = some l) : descF next (f + 1) t = some l := by
  induction f generalizing t l with
  | zero => simp [descF] at h
  | succ f ih =>
    rw [descF] at h ⊢
    simp only [Option.map_eq_some_iff] at h ⊢
    obtain ⟨ll, hll, rfl⟩ := h
    refine ⟨ll, mapM_some_congr _ _ _ _ ?_ hll, rfl⟩
    intro c _ b hb
    simp only [Option.map_eq_some_iff] at hb ⊢
    obtain ⟨r', hr', rfl⟩ := hb
    exact ⟨r', ih c r' hr', rfl⟩

/-- the public parent and the raw parent start the same ancestor walk -/
theorem ancF_pubParent (s : G) (f : Nat) (q : Uid) :
    ancF s f (s.pubParent q) = ancF s f (s.parent q) := by
  unfold G.pubParent
  cases hq : s.parent q with
  | none => rfl
  | some p' =>
    cases hh : s.hidden p' with
    | false => simp [hh]
    | true =>
      cases f with
      | zero => simp [ancF]
      | succ f => simp [ancF, hh]

/-- the first step of a `par`-path is determined -/
theorem par_TC_cases (s : G) {p q y : Uid} (hp : s.parent p = some q) (h : TC (par s) p y) :
    y = q ∨ TC (par s) q y := by
  rcases TC.head_cases h with h | ⟨c, hc, hrest⟩
  · unfold par at h; rw [hp] at h; exact Or.inl (Option.some.inj h).symm
  · unfold par at hc; rw [hp] at hc; cases Option.some.inj hc; exact Or.inr hrest

theorem par_TC_none (s : G) {p y : Uid} (hp : s.parent p = none) (h : TC (par s) p y) : False := by
  rcases TC.head_cases h with h | ⟨c, hc, _⟩
  · unfold par at h; rw [hp] at h; cases h
  · unfold par at hc; rw [hp] at hc; cases hc

/-- `ancF` started at the raw parent of `p` lists exactly the non-hidden proper ancestors of `p`,
    on states whose hidden tasks have no parent -/
theorem ancF_complete (s : G) (hroot : ∀ r, s.hidden r = true → s.parent r = none)
    (f : Nat) (p : Uid) (l : List Uid) (h : ancF s f (s.parent p) = some l) :
    ∀ y, TC (par s) p y → s.hidden y = false → y ∈ l := by
  induction f generalizing p l with
  | zero => simp [ancF] at h
  | succ f ih =>
    intro y hy hyh
    cases hp : s.parent p with
    | none => exact (par_TC_none s hp hy).elim
    | some q =>
      rw [hp, ancF] at h
      cases hq : s.hidden q with
      | true =>
        rcases par_TC_cases s hp hy with rfl | hy'
        · rw [hq] at hyh; cases hyh
        · exact (par_TC_none s (hroot q hq) hy').elim
      | false =>
        simp only [hq, Bool.false_eq_true, if_false, ancF_pubParent, Option.map_eq_some_iff] at h
        obtain ⟨r', hr', rfl⟩ := h
        rcases par_TC_cases s hp hy with rfl | hy'
        · exact List.mem_cons_self
        · exact List.mem_cons_of_mem _ (ih q r' hr' y hy' hyh)

theorem ancF_sound (s : G) (f : Nat) (p : Uid) (l : List Uid) (h : ancF s f (s.parent p) = some l) :
    ∀ y, y ∈ l → TC (par s) p y ∧ s.hidden y = false := by
  induction f generalizing p l with
  | zero => simp [ancF] at h
  | succ f ih =>
    intro y hy
    cases hp : s.parent p with
    | none =>
      rw [hp, ancF] at h
      cases Option.some.inj h; cases hy
    | some q =>
      rw [hp, ancF] at h
      cases hq : s.hidden q with
      | true =>
        simp only [hq, if_true, Option.some.injEq] at h
        subst h; cases hy
      | false =>
        simp only [hq, Bool.false_eq_true, if_false, ancF_pubParent, Option.map_eq_some_iff] at h
        obtain ⟨r', hr', rfl⟩ := h
        rcases List.mem_cons.mp hy with rfl | hy'
        · exact ⟨TC.single hp, hq⟩
        · obtain ⟨h1, h2⟩ := ih q r' hr' y hy'
          exact ⟨TC.head (r := par s) hp h1, h2⟩

theorem rootF_spec (s : G) (f : Nat) (t r : Uid) (h : rootF s f t = some r) :
    RTC (par s) t r ∧ s.parent r = none := by
  induction f generalizing t with
  | zero => simp [rootF] at h
  | succ f ih =>
    rw [rootF] at h
    cases hp : s.parent t with
    | none =>
      rw [hp] at h
      cases Option.some.inj h
      exact ⟨RTC.refl, hp⟩
    | some p =>
      rw [hp] at h
      obtain ⟨h1, h2⟩ := ih p h
      exact ⟨RTC.head (r := par s) hp h1, h2⟩

/-- the parent relation is a partial function: two ancestors of one task are comparable -/
theorem par_chain (s : G) {t a b : Uid} (ha : RTC (par s) t a) (hb : RTC (par s) t b) :
    RTC (par s) a b ∨ RTC (par s) b a := by
  induction ha with
  | refl => exact Or.inl hb
  | tail _ hstep ih =>
    rcases ih with h | h
    · rcases RTC.cases_eq_or_TC h with rfl | h
      · exact Or.inr (RTC.tail RTC.refl hstep)
      · rcases par_TC_cases s hstep h with rfl | h'
        · exact Or.inl RTC.refl
        · exact Or.inl h'.toRTC
    · exact Or.inr (RTC.tail h hstep)

/-- on a state whose two ends of the hierarchy edge agree, "child of" is the converse of `par` -/
theorem child_iff_par (s : G) (hl : ∀ t p, s.parent t = some p ↔ t ∈ s.children p) (a b : Uid) :
    b ∈ s.children a ↔ par s b a :=
  (hl b a).symm

theorem TC_child_iff (s : G) (hl : ∀ t p, s.parent t = some p ↔ t ∈ s.children p) (a b : Uid) :
    TC (fun x y => y ∈ s.children x) a b ↔ TC (par s) b a := by
  constructor
  · intro h
    exact TC.flip (TC.mono (r' := fun x y => par s y x) (fun x y hxy => (child_iff_par s hl x y).mp hxy) h)
  · intro h
    exact TC.mono (fun x y hxy => (child_iff_par s hl x y).mpr hxy) (TC.unflip h)

end Pj
