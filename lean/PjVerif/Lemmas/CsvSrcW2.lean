/-
  Lemmas/CsvSrcW2.lean — CSV I/O, the WRITE side, part 2: the custom columns (`fields`), the header row.
-/
import PjVerif.Lemmas.CsvSrcW
namespace Pj.CsvSrc
open Pj.PyLite Pj.Extracted.Csv Pj.Csv

/-! ### the ten standard column names -/

theorem prim_lit_id (L : IOLib) (st : PState) : ioPrim L "lit:id" [] st = .ok (.atom (strA "id".toList)) := by
  unfold ioPrim; rw [if_pos (by decide +kernel)]; rfl
theorem prim_lit_name (L : IOLib) (st : PState) : ioPrim L "lit:name" [] st = .ok (.atom (strA "name".toList)) := by
  unfold ioPrim; rw [if_pos (by decide +kernel)]; rfl
theorem prim_lit_resource (L : IOLib) (st : PState) : ioPrim L "lit:resource" [] st = .ok (.atom (strA "resource".toList)) := by
  unfold ioPrim; rw [if_pos (by decide +kernel)]; rfl
theorem prim_lit_start (L : IOLib) (st : PState) : ioPrim L "lit:start" [] st = .ok (.atom (strA "start".toList)) := by
  unfold ioPrim; rw [if_pos (by decide +kernel)]; rfl
theorem prim_lit_end (L : IOLib) (st : PState) : ioPrim L "lit:end" [] st = .ok (.atom (strA "end".toList)) := by
  unfold ioPrim; rw [if_pos (by decide +kernel)]; rfl
theorem prim_lit_estimate (L : IOLib) (st : PState) : ioPrim L "lit:estimate" [] st = .ok (.atom (strA "estimate".toList)) := by
  unfold ioPrim; rw [if_pos (by decide +kernel)]; rfl
theorem prim_lit_spent (L : IOLib) (st : PState) : ioPrim L "lit:spent" [] st = .ok (.atom (strA "spent".toList)) := by
  unfold ioPrim; rw [if_pos (by decide +kernel)]; rfl
theorem prim_lit_milestone (L : IOLib) (st : PState) : ioPrim L "lit:milestone" [] st = .ok (.atom (strA "milestone".toList)) := by
  unfold ioPrim; rw [if_pos (by decide +kernel)]; rfl
theorem prim_lit_parent_id (L : IOLib) (st : PState) : ioPrim L "lit:parent_id" [] st = .ok (.atom (strA "parent_id".toList)) := by
  unfold ioPrim; rw [if_pos (by decide +kernel)]; rfl
theorem prim_lit_predecessor_ids (L : IOLib) (st : PState) : ioPrim L "lit:predecessor_ids" [] st = .ok (.atom (strA "predecessor_ids".toList)) := by
  unfold ioPrim; rw [if_pos (by decide +kernel)]; rfl

def tenLits : Expr :=
  .listCons (.prim "lit:id" .listNil) (.listCons (.prim "lit:name" .listNil) (.listCons (.prim "lit:resource" .listNil) (.listCons (.prim "lit:start" .listNil) (.listCons (.prim "lit:end" .listNil) (.listCons (.prim "lit:estimate" .listNil) (.listCons (.prim "lit:spent" .listNil) (.listCons (.prim "lit:milestone" .listNil) (.listCons (.prim "lit:parent_id" .listNil) (.listCons (.prim "lit:predecessor_ids" .listNil) .listNil)))))))))

theorem eval_tenLits (L : IOLib) (F : Nat) (env : PyLite.Env) (st : PState) :
    tenLits.evalP (HH L F) [] env st = .ok (.list (defaultFields.map strA), st) :=
  eval_cons (eval_prim eval_nil (by rw [HH_prim, prim_lit_id])) (eval_cons (eval_prim eval_nil (by rw [HH_prim, prim_lit_name])) (eval_cons (eval_prim eval_nil (by rw [HH_prim, prim_lit_resource])) (eval_cons (eval_prim eval_nil (by rw [HH_prim, prim_lit_start])) (eval_cons (eval_prim eval_nil (by rw [HH_prim, prim_lit_end])) (eval_cons (eval_prim eval_nil (by rw [HH_prim, prim_lit_estimate])) (eval_cons (eval_prim eval_nil (by rw [HH_prim, prim_lit_spent])) (eval_cons (eval_prim eval_nil (by rw [HH_prim, prim_lit_milestone])) (eval_cons (eval_prim eval_nil (by rw [HH_prim, prim_lit_parent_id])) (eval_cons (eval_prim eval_nil (by rw [HH_prim, prim_lit_predecessor_ids])) eval_nil)))))))))

theorem any_strA (s : Str) : ∀ l : List Str, (l.map strA).any (fun v => v.pyEq (strA s)) = l.contains s
  | [] => rfl
  | x :: l => by
    rw [List.map_cons, List.any_cons, pyEq_strA, any_strA s l, List.contains_cons]
    congr 1
    by_cases h : x = s
    · subst h; simp
    · have : ¬ s = x := fun e => h e.symm
      simp [h, this]

/-! ### the keys of a dict of texts -/

def addKey (cols : List Str) (s : Str) : List Str := if cols.contains s then cols else cols ++ [s]

def keysOf (D : List (Atom × Atom)) (cols : List Str) : Prop := D.map (·.1) = cols.map strA

theorem keysOf_insert : ∀ (D : List (Atom × Atom)) (cols : List Str) (s : Str) (v : Atom), keysOf D cols →
    keysOf (Dict.insert D (strA s) v) (addKey cols s)
  | [], [], s, v, _ => by simp [keysOf, Dict.insert, addKey]
  | [], _ :: _, _, _, h => by simp [keysOf] at h
  | _ :: _, [], _, _, h => by simp [keysOf] at h
  | p :: D, c :: cols, s, v, h => by
    simp only [keysOf, List.map_cons, List.cons.injEq] at h
    obtain ⟨h1, h2⟩ := h
    have ih := keysOf_insert D cols s v h2
    unfold Dict.insert
    rw [h1, pyEq_strA]
    by_cases hc : c = s
    · subst hc
      simp [keysOf, addKey, h1, h2]
    · have hc' : ¬ s = c := fun e => hc e.symm
      simp only [hc, decide_false, Bool.false_eq_true, if_false]
      unfold addKey at ih ⊢
      simp only [List.contains_cons, beq_iff_eq, hc', false_or] at ⊢
      have hbeq : (s == c) = false := by simpa using hc'
      rw [hbeq, Bool.false_or]
      by_cases hm : cols.contains s = true
      · rw [if_pos hm] at ih ⊢
        simp only [keysOf, List.map_cons, h1] at ih ⊢
        rw [ih]
      · rw [if_neg hm] at ih ⊢
        simp only [keysOf, List.map_cons, h1, List.cons_append] at ih ⊢
        rw [ih]

theorem addKey_fold_eq : ∀ (l acc : List Str), acc.eraseDups = acc → l.foldl addKey acc = (acc ++ l).eraseDups
  | [], acc, h => by simp [h]
  | a :: l, acc, h => by
    rw [List.foldl_cons]
    by_cases hm : acc.contains a = true
    · have hm' : a ∈ acc := by simpa using hm
      have : addKey acc a = acc := by simp [addKey, hm']
      rw [this, addKey_fold_eq l acc h, List.eraseDups_append, List.eraseDups_append]
      congr 2
      simp [List.removeAll, hm']
    · have hm' : a ∉ acc := by simpa using hm
      have : addKey acc a = acc ++ [a] := by simp [addKey, hm']
      rw [this, addKey_fold_eq l (acc ++ [a]) (by
        rw [List.eraseDups_append, h]
        simp [List.removeAll, hm', List.eraseDups_cons]), List.append_assoc]
      rfl

theorem addKey_fold_nil (l : List Str) : l.foldl addKey [] = l.eraseDups := by
  rw [addKey_fold_eq l [] rfl]; rfl

/-! ### the `fields` loop of `write_csv` -/

theorem prim_type_name (L : IOLib) (st : PState) (a : Atom) :
    ioPrim L "type_name" [a] st = .ok (.atom (strA (L.typeName a))) := by
  unfold ioPrim
  rw [if_neg (by decide +kernel), if_neg (by decide +kernel), if_neg (by decide +kernel), if_neg (by decide +kernel),
    if_neg (by decide +kernel), if_neg (by decide +kernel), if_neg (by decide +kernel), if_neg (by decide +kernel),
    if_neg (by decide +kernel), if_neg (by decide +kernel), if_neg (by decide +kernel), if_neg (by decide +kernel),
    if_neg (by decide +kernel), if_pos (by decide +kernel)]
  rfl

section more
variable {H : PHandlers} {self : PyLite.Env} {rec : List Atom → PState → Res (Val × PState)}

theorem eval_dictSet {d k v : Expr} {env : PyLite.Env} {st st1 st2 st3 : PState} {vv kk : Atom}
    {kvs : List (Atom × Atom)} (hv : v.evalP H self env st = .ok (.atom vv, st1))
    (hd : d.evalP H self env st1 = .ok (.dict kvs, st2)) (hk : k.evalP H self env st2 = .ok (.atom kk, st3)) :
    (Expr.dictSet d k v).evalP H self env st = .ok (.dict (Dict.insert kvs kk vv), st3) := by
  simp only [Expr.evalP, hv, hd, hk, bind, Except.bind, pure, Except.pure]

theorem exec_ifElse {c : Expr} {t e : List Stmt} {env : PyLite.Env} {st st' : PState} {v : Val} {b : Bool}
    (hc : c.evalP H self env st = .ok (v, st')) (hb : truthP v = .ok b) :
    (Stmt.ifElse c t e).execP H self rec env st =
      if b then execBlockP H self rec t env st' else execBlockP H self rec e env st' := by
  rw [Stmt.execP]
  simp only [hc, hb, bind, Except.bind, pure, Except.pure]

end more

def fieldsInner : List Stmt :=
  [.assign "v" (.prim "__getattribute__" (.listCons (.var "t") (.listCons (.var "k") .listNil))),
   .ifElse (.not (.isIn (.var "k") tenLits))
     [.assign "fields" (.dictSet (.var "fields") (.var "k") (.prim "type_name" (.listCons (.var "v") .listNil)))]
     []]

def colStep (cols : List Str) (k : String) : List Str :=
  if defaultFields.contains k.toList then cols else addKey cols k.toList

def Frame (xs : List String) (env env' : PyLite.Env) : Prop := ∀ x, x ∉ xs → env'.get? x = env.get? x

theorem Frame.refl (xs : List String) (env : PyLite.Env) : Frame xs env env := fun _ _ => rfl
theorem Frame.trans {xs : List String} {e1 e2 e3 : PyLite.Env} (h1 : Frame xs e1 e2) (h2 : Frame xs e2 e3) :
    Frame xs e1 e3 := fun x hx => (h2 x hx).trans (h1 x hx)
theorem Frame.set {xs : List String} (env : PyLite.Env) (x : String) (v : Val) (hx : x ∈ xs) :
    Frame xs env (env.set x v) := fun y hy => by
  have : ¬ x = y := fun e => hy (e ▸ hx)
  rw [envGet_set, if_neg this]

theorem fields_inner_body (L : IOLib) (F : Nat) (rec) (st : PState) (r : Nat) (k : String) (env : PyLite.Env)
    (D : List (Atom × Atom)) (cols : List Str) (v : Val)
    (ht : env.get? "t" = some (.atom (.ref r))) (hk : env.get? "k" = some (.atom (nameA k)))
    (hf : env.get? "fields" = some (.dict D)) (hD : keysOf D cols) (hv : (st.heap r).get? k = some v)
    (ha : defaultFields.contains k.toList = false → ∃ a, v = .atom a) :
    ∃ env' D', execBlockP (HH L F) [] rec fieldsInner env st = .normal env' st ∧
      env'.get? "fields" = some (.dict D') ∧ keysOf D' (colStep cols k) ∧ Frame ["k", "v", "fields"] env env' := by
  let env1 := env.set "v" v
  have hk1 : env1.get? "k" = some (.atom (nameA k)) := by rw [envGet_set, if_neg (by decide)]; exact hk
  have hf1 : env1.get? "fields" = some (.dict D) := by rw [envGet_set, if_neg (by decide)]; exact hf
  have hga : (Expr.prim "__getattribute__" (.listCons (.var "t") (.listCons (.var "k") .listNil))).evalP
      (HH L F) [] env st = .ok (v, st) :=
    eval_prim (eval_cons (eval_var ht) (eval_cons (eval_var hk) eval_nil)) (by rw [HH_prim, prim_getattr, hv])
  have hcond : (Expr.not (.isIn (.var "k") tenLits)).evalP (HH L F) [] env1 st =
      .ok (.atom (.bool (!defaultFields.contains k.toList)), st) := by
    rw [eval_not (eval_isIn (eval_var hk1) (eval_tenLits L F env1 st)) rfl, nameA, any_strA]
  unfold fieldsInner
  rw [block_cons_normal (exec_assign hga), execBlockP, exec_ifElse hcond rfl]
  cases hc : defaultFields.contains k.toList with
  | true =>
    refine ⟨env1, D, ?_, hf1, by rw [colStep, if_pos hc]; exact hD, Frame.set env "v" v (by simp)⟩
    simp [execBlockP]
  | false =>
    obtain ⟨a, rfl⟩ := ha hc
    have hv1 : env1.get? "v" = some (.atom a) := by rw [envGet_set, if_pos rfl]
    refine ⟨env1.set "fields" (.dict (Dict.insert D (nameA k) (strA (L.typeName a)))), _, ?_,
      by rw [envGet_set, if_pos rfl],
      by rw [colStep, hc, if_neg (by simp), nameA]; exact keysOf_insert D cols k.toList _ hD,
      (Frame.set env "v" _ (by simp)).trans (Frame.set env1 "fields" _ (by simp))⟩
    simp only [Bool.not_false, if_true]
    rw [block_cons_normal (exec_assign (eval_dictSet
      (eval_prim (eval_cons (eval_var hv1) eval_nil) (by rw [HH_prim, prim_type_name])) (eval_var hf1) (eval_var hk1)))]
    simp [execBlockP]

/-- an object whose attributes outside the standard columns are scalars -/
def GoodEnv (e : PyLite.Env) : Prop :=
  isTask e = false ∧ ∀ k ∈ e.map (·.1), ∃ v, e.get? k = some v ∧ (defaultFields.contains k.toList = false → ∃ a, v = .atom a)

theorem fields_inner_loop (L : IOLib) (F : Nat) (rec) (st : PState) (r : Nat) :
    ∀ (ks : List String) (env : PyLite.Env) (D : List (Atom × Atom)) (cols : List Str),
      env.get? "t" = some (.atom (.ref r)) → env.get? "fields" = some (.dict D) → keysOf D cols →
      (∀ k ∈ ks, ∃ v, (st.heap r).get? k = some v ∧ (defaultFields.contains k.toList = false → ∃ a, v = .atom a)) →
      ∃ env' D', forLoopP "k" (fun e s => execBlockP (HH L F) [] rec fieldsInner e s) (ks.map nameA) env st =
          .normal env' st ∧ env'.get? "fields" = some (.dict D') ∧ keysOf D' (ks.foldl colStep cols) ∧
          Frame ["k", "v", "fields"] env env'
  | [], env, D, cols, _, hf, hD, _ => ⟨env, D, rfl, hf, hD, Frame.refl _ _⟩
  | k :: ks, env, D, cols, ht, hf, hD, hks => by
    obtain ⟨v, hv, ha⟩ := hks k (List.mem_cons_self ..)
    obtain ⟨env1, D1, h1, h2, h3, h4⟩ := fields_inner_body L F rec st r k (env.set "k" (.atom (nameA k))) D cols v
      (by rw [envGet_set, if_neg (by decide)]; exact ht) (by rw [envGet_set, if_pos rfl])
      (by rw [envGet_set, if_neg (by decide)]; exact hf) hD hv ha
    have ht1 : env1.get? "t" = some (.atom (.ref r)) := by
      rw [h4 "t" (by simp), envGet_set, if_neg (by decide)]; exact ht
    obtain ⟨env2, D2, h5, h6, h7, h8⟩ := fields_inner_loop L F rec st r ks env1 D1 (colStep cols k) ht1 h2 h3
      (fun k' hk' => hks k' (List.mem_cons_of_mem _ hk'))
    refine ⟨env2, D2, ?_, h6, h7, ((Frame.set env "k" _ (by simp)).trans h4).trans h8⟩
    rw [List.map_cons, forLoopP, h1]
    dsimp only
    rw [h5]

def fieldsOuter : List Stmt :=
  [.forIn "k" (.prim "__dict__" (.listCons (.var "t") .listNil)) fieldsInner]

theorem fields_outer_loop (L : IOLib) (F : Nat) (rec) (st : PState) :
    ∀ (rs : List Nat) (env : PyLite.Env) (D : List (Atom × Atom)) (cols : List Str),
      env.get? "fields" = some (.dict D) → keysOf D cols → (∀ r ∈ rs, GoodEnv (st.heap r)) →
      ∃ env' D', forLoopP "t" (fun e s => execBlockP (HH L F) [] rec fieldsOuter e s) (rs.map Atom.ref) env st =
          .normal env' st ∧ env'.get? "fields" = some (.dict D') ∧
          keysOf D' (rs.foldl (fun c r => ((st.heap r).map (·.1)).foldl colStep c) cols) ∧
          Frame ["t", "k", "v", "fields"] env env'
  | [], env, D, cols, hf, hD, _ => ⟨env, D, rfl, hf, hD, Frame.refl _ _⟩
  | r :: rs, env, D, cols, hf, hD, hg => by
    obtain ⟨hg1, hg2⟩ := hg r (List.mem_cons_self ..)
    let env0 := env.set "t" (.atom (.ref r))
    have ht0 : env0.get? "t" = some (.atom (.ref r)) := by rw [envGet_set, if_pos rfl]
    obtain ⟨env1, D1, h1, h2, h3, h4⟩ := fields_inner_loop L F rec st r ((st.heap r).map (·.1)) env0 D cols ht0
      (by rw [envGet_set, if_neg (by decide)]; exact hf) hD hg2
    have hdict : (Expr.prim "__dict__" (.listCons (.var "t") .listNil)).evalP (HH L F) [] env0 st =
        .ok (.list (((st.heap r).map (·.1)).map nameA), st) := by
      have := eval_prim (H := HH L F) (self := []) (name := "__dict__") (st := st)
        (eval_cons (eval_var ht0) eval_nil) (by rw [HH_prim, prim_dict])
      rw [this, dictNames, hg1]; rfl
    have h4' : Frame ["t", "k", "v", "fields"] env0 env1 := fun x hx => h4 x (fun hm => hx (List.mem_cons_of_mem _ hm))
    obtain ⟨env2, D2, h5, h6, h7, h8⟩ := fields_outer_loop L F rec st rs env1 D1 _ h2 h3
      (fun r' hr' => hg r' (List.mem_cons_of_mem _ hr'))
    refine ⟨env2, D2, ?_, h6, h7, ((Frame.set env "t" _ (by simp)).trans h4').trans h8⟩
    rw [List.map_cons, forLoopP]
    have hb : execBlockP (HH L F) [] rec fieldsOuter env0 st = .normal env1 st := by
      unfold fieldsOuter
      rw [block_cons_normal ((exec_forIn hdict rfl).trans h1)]; rfl
    rw [hb]
    dsimp only
    rw [h5]

end Pj.CsvSrc
