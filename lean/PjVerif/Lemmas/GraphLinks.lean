/-
  Lemmas/GraphLinks.lean — the predecessor / successor setters preserve well-formedness (C01).
-/
import PjVerif.Lemmas.Rel
namespace Pj

theorem setPreds_tid (s : G) (t : Uid) (l : List Uid) : (setPreds s t l).1.tid = s.tid := by
  unfold setPreds
  split <;> rfl

theorem setSuccs_tid (s : G) (t : Uid) (l : List Uid) : (setSuccs s t l).1.tid = s.tid := by
  unfold setSuccs
  split <;> rfl

/-- what an accepted `chkLinks` says about every member of the new list, on the raw enumerations -/
theorem chkLinks_none (s : G) (next : Uid → List Uid) (t : Uid) (l : List Uid)
    (h : chkLinks s next t l = none) :
    ∃ anc desc, ancF s s.fuel (s.parent t) = some anc ∧ descF s.children s.fuel t = some desc ∧
      ∀ v ∈ l, v ∉ anc ∧ v ∉ desc ∧ v ≠ t ∧ ∃ r, descF next s.fuel v = some r ∧ t ∉ r := by
  unfold chkLinks at h
  split at h
  · simp at h
  · rename_i anc hanc
    split at h
    · simp at h
    · rename_i desc hdesc
      split at h
      · simp at h
      · rename_i hany
        refine ⟨anc, desc, hanc, hdesc, ?_⟩
        intro v hv
        have h1 := List.findSome?_eq_none_iff.mp h v hv
        simp only [List.any_eq_true, not_exists, not_and, Bool.or_eq_true, not_or] at hany
        have h2 := hany v hv
        refine ⟨by simpa using h2.1, by simpa using h2.2, ?_, ?_⟩
        · intro hvt
          simp [hvt] at h1
        · by_cases hvt : v = t
          · simp [hvt] at h1
          · simp only [hvt, if_false] at h1
            split at h1
            · simp at h1
            · rename_i r hr
              refine ⟨r, hr, ?_⟩
              intro hm
              simp [hm] at h1

/-- … and on the closures -/
theorem chkLinks_facts (s : G) (h : WF s) (next : Uid → List Uid) (t : Uid) (l : List Uid)
    (hl : ∀ v ∈ l, s.hidden v = false) (hc : chkLinks s next t l = none) :
    ∀ v ∈ l, v ≠ t ∧ ¬ TC (par s) t v ∧ ¬ TC (par s) v t ∧ ¬ TC (fun a b => b ∈ next a) v t := by
  obtain ⟨anc, desc, hanc, hdesc, hall⟩ := chkLinks_none s next t l hc
  intro v hv
  obtain ⟨h1, h2, h3, r, hr, h4⟩ := hall v hv
  refine ⟨h3, ?_, ?_, ?_⟩
  · intro hp
    exact h1 (ancF_complete s (fun r hr => (h.rootsTop r hr).1) s.fuel t anc hanc v hp (hl v hv))
  · intro hp
    exact h2 (descF_complete s.children s.fuel t desc hdesc v ((TC_child_iff s h.listed t v).mpr hp))
  · intro hp
    exact h4 (descF_complete next s.fuel v r hr t hp)

theorem mutPreds_WF (s : G) (t : Uid) (l : List Uid) (h : WF s) (ht : s.hidden t = false)
    (hl : ∀ v ∈ l, s.hidden v = false)
    (hf : ∀ v ∈ l, v ≠ t ∧ ¬ TC (par s) t v ∧ ¬ TC (par s) v t ∧ ¬ TC (dep s) t v) :
    WF (mutPreds s t l) := by
  have hpreds : ∀ a b, a ∈ (mutPreds s t l).preds b ↔ (b ≠ t ∧ a ∈ s.preds b) ∨ (a ∈ l ∧ b = t) := by
    intro a b
    by_cases hb : b = t <;> simp [mutPreds, upd, hb]
  have hsym : ∀ a b, a ∈ (mutPreds s t l).preds b ↔ b ∈ (mutPreds s t l).succs a := by
    intro a b
    have hs := h.sym a t
    have hs' := h.sym a b
    by_cases hb : b = t
    · subst hb
      by_cases ha : a ∈ s.preds b <;> by_cases hal : a ∈ l <;>
        simp [mutPreds, upd, ha, hal, List.mem_filter] <;> grind
    · by_cases ha : a ∈ s.preds t <;> by_cases hal : a ∈ l <;>
        simp [mutPreds, upd, ha, hal, hb, List.mem_filter] <;> grind
  have hpar : par (mutPreds s t l) = par s := rfl
  refine ⟨h.listed, h.once, h.forest, ?_, hsym, ?_, ?_⟩
  · intro r hr
    have hr' : s.hidden r = true := hr
    obtain ⟨h1, h2, h3⟩ := h.rootsTop r hr'
    have hrt : r ≠ t := by intro e; rw [e, ht] at hr'; cases hr'
    have hrl : r ∉ l := by intro e; rw [hl r e] at hr'; cases hr'
    refine ⟨h1, ?_, ?_⟩
    · simp [mutPreds, upd, hrt, h2]
    · simp [mutPreds, hrl, h3]
  · have hac := acyclic_add_in_edges (fun a b => b ≠ t ∧ dep s a b) t (fun v => v ∈ l)
      (fun x hx => h.dag x (TC.mono (fun a b hab => hab.2) hx))
      (fun v hv hr => by
        rcases RTC.cases_eq_or_TC hr with e | e
        · exact (hf v hv).1 e.symm
        · exact (hf v hv).2.2.2 (TC.mono (fun a b hab => hab.2) e))
    intro x hx
    refine hac x (TC.mono ?_ hx)
    intro a b hab
    exact (hpreds a b).mp hab
  · intro a b hab
    rw [hpar]
    rcases (hpreds a b).mp hab with ⟨_, hd⟩ | ⟨hal, hb⟩
    · exact h.noAncDep a b hd
    · subst hb
      exact ⟨(hf a hal).2.2.1, (hf a hal).2.1⟩

/-- L6a: `t.predecessors = l` keeps the graph well-formed, accepted or rejected -/
theorem setPreds_WF (s : G) (t : Uid) (l : List Uid) (h : WF s) (ht : s.hidden t = false)
    (hl : ∀ v ∈ l, s.hidden v = false) : WF (setPreds s t l).1 := by
  unfold setPreds
  split
  · exact h
  · rename_i hc
    refine mutPreds_WF s t l h ht hl ?_
    intro v hv
    obtain ⟨h1, h2, h3, h4⟩ := chkLinks_facts s h s.preds t l hl hc v hv
    refine ⟨h1, h2, h3, ?_⟩
    intro hp
    exact h4 (TC.flip (r := fun a b => b ∈ s.preds a) hp)

theorem mutSuccs_WF (s : G) (t : Uid) (l : List Uid) (h : WF s) (ht : s.hidden t = false)
    (hl : ∀ v ∈ l, s.hidden v = false)
    (hf : ∀ v ∈ l, v ≠ t ∧ ¬ TC (par s) t v ∧ ¬ TC (par s) v t ∧ ¬ TC (dep s) v t) :
    WF (mutSuccs s t l) := by
  have hpreds : ∀ a b, a ∈ (mutSuccs s t l).preds b ↔ (a ≠ t ∧ a ∈ s.preds b) ∨ (a = t ∧ b ∈ l) := by
    intro a b
    have hs := h.sym t b
    by_cases ha : a = t
    · subst ha
      by_cases hb : b ∈ s.succs a <;> by_cases hbl : b ∈ l <;>
        simp [mutSuccs, hb, hbl, List.mem_filter] <;> grind
    · by_cases hb : b ∈ s.succs t <;> by_cases hbl : b ∈ l <;>
        simp [mutSuccs, hb, hbl, ha, List.mem_filter] <;> grind
  have hsym : ∀ a b, a ∈ (mutSuccs s t l).preds b ↔ b ∈ (mutSuccs s t l).succs a := by
    intro a b
    rw [hpreds]
    have hs := h.sym a b
    by_cases ha : a = t <;> simp [mutSuccs, upd, ha] <;> grind
  have hpar : par (mutSuccs s t l) = par s := rfl
  refine ⟨h.listed, h.once, h.forest, ?_, hsym, ?_, ?_⟩
  · intro r hr
    have hr' : s.hidden r = true := hr
    obtain ⟨h1, h2, h3⟩ := h.rootsTop r hr'
    have hrt : r ≠ t := by intro e; rw [e, ht] at hr'; cases hr'
    have hrl : r ∉ l := by intro e; rw [hl r e] at hr'; cases hr'
    refine ⟨h1, ?_, ?_⟩
    · simp [mutSuccs, hrl, h2]
    · simp [mutSuccs, upd, hrt, h3]
  · have hac := acyclic_add_out_edges (fun a b => a ≠ t ∧ dep s a b) t (fun v => v ∈ l)
      (fun x hx => h.dag x (TC.mono (fun a b hab => hab.2) hx))
      (fun v hv hr => by
        rcases RTC.cases_eq_or_TC hr with e | e
        · exact (hf v hv).1 e
        · exact (hf v hv).2.2.2 (TC.mono (fun a b hab => hab.2) e))
    intro x hx
    refine hac x (TC.mono ?_ hx)
    intro a b hab
    exact (hpreds a b).mp hab
  · intro a b hab
    rw [hpar]
    rcases (hpreds a b).mp hab with ⟨_, hd⟩ | ⟨ha, hbl⟩
    · exact h.noAncDep a b hd
    · subst ha
      exact ⟨(hf b hbl).2.1, (hf b hbl).2.2.1⟩

/-- L6b: `t.successors = l` -/
theorem setSuccs_WF (s : G) (t : Uid) (l : List Uid) (h : WF s) (ht : s.hidden t = false)
    (hl : ∀ v ∈ l, s.hidden v = false) : WF (setSuccs s t l).1 := by
  unfold setSuccs
  split
  · exact h
  · rename_i hc
    refine mutSuccs_WF s t l h ht hl ?_
    intro v hv
    obtain ⟨h1, h2, h3, h4⟩ := chkLinks_facts s h s.succs t l hl hc v hv
    refine ⟨h1, h2, h3, ?_⟩
    intro hp
    refine h4 (TC.mono ?_ hp)
    intro a b hab
    exact (h.sym a b).mp hab

end Pj
