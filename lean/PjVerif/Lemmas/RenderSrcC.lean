/-
  Lemmas/RenderSrcC.lean — stage 4 of the translated tie for the Mermaid renderers: the GENERAL theorem for
  `MermaidGantt.__src` (`fn_gantt_src`) = `ganttSrc`.  The dict of lists `sections_map` is a dict of boxes; the pure
  lemmas about the idiom are in RenderSrcC0.lean.  See Lemmas/RenderSrc.lean for the setting; results at the end.
-/
import PjVerif.Lemmas.RenderSrcC0
namespace Pj.RenderSrc
open Pj.PyLite Pj.Render Pj.Extracted.Render
open Pj.PrintSrc (Lib lookupA refsA one D_s text_s pyEq_s)
open Pj.TaskSrc (callPV_eq execBlockP_cons execBlockP_nil execP_forIn noRec)
set_option linter.unusedSimpArgs false
set_option linter.unusedVariables false

variable (S : Lib) (V : View) (pts : Nat → RTask)

theorem lit_gantt (st : PState) : renderPrim S V pts "lit:gantt\n" [] st = .ok (.atom (S.s (lit "gantt\n"))) := by litr
theorem lit_datefmt (st : PState) : renderPrim S V pts "lit:  dateFormat DD.MM.YYYY HH:mm\n" [] st =
    .ok (.atom (S.s (lit "  dateFormat DD.MM.YYYY HH:mm\n"))) := by litr
theorem lit_title (st : PState) : renderPrim S V pts "lit:  title " [] st = .ok (.atom (S.s (lit "  title "))) := by litr
theorem lit_wk (st : PState) : renderPrim S V pts "lit:  excludes weekends\n" [] st =
    .ok (.atom (S.s (lit "  excludes weekends\n"))) := by litr
theorem lit_tick (st : PState) : renderPrim S V pts "lit:  tickInterval " [] st = .ok (.atom (S.s (lit "  tickInterval "))) := by litr
theorem lit_ksection (st : PState) : renderPrim S V pts "lit:gantt_section" [] st = .ok (.atom (S.s kSection)) := by litr
theorem lit_dash (st : PState) : renderPrim S V pts "lit:-" [] st = .ok (.atom (S.s ['-'])) := by litr
theorem lit_section (st : PState) : renderPrim S V pts "lit:  section " [] st = .ok (.atom (S.s (lit "  section "))) := by litr

theorem prim_title (a : Atom) (st : PState) : renderPrim S V pts "self.title" [a] st = .ok (.atom (S.os V.title)) := by primr
theorem prim_weekends (a : Atom) (st : PState) : renderPrim S V pts "self.weekends" [a] st = .ok (.atom (.bool V.weekends)) := by primr
theorem prim_tick (a : Atom) (st : PState) : renderPrim S V pts "self.tick_interval" [a] st = .ok (.atom (S.os V.tick)) := by primr
theorem prim_truth (a : Atom) (st : PState) : renderPrim S V pts "truth" [a] st =
    (match pyTruth S a with | some b => .ok (.atom (.bool b)) | none => .error stuck) := by
  primr
  cases pyTruth S a <;> rfl

/-- the section value of a task: `t.gantt_section if 'gantt_section' in t.__dict__ else '-'` -/
def secA (t : Nat) : Atom := (lookupA (pts t).dict kSection).getD (S.s ['-'])

def lineG : Atom → Str
  | .ref t => ganttLine (toGTask S V (pts t))
  | _ => []

/-! ### the shape of the translated term -/

def gs (i : Nat) : Stmt := src_gantt_src.getD i .pass
theorem gs_shape : src_gantt_src = [gs 0, gs 1, gs 2, gs 3, gs 4, gs 5, gs 6, gs 7, gs 8, gs 9] := rfl

def gsCond : Expr := match gs 8 with | .ifElse c _ _ => c | _ => .none
def gsThen : List Stmt := match gs 8 with | .ifElse _ a _ => a | _ => []
def gsElse : List Stmt := match gs 8 with | .ifElse _ _ b => b | _ => []
def gsLoop1 : Stmt := match gsThen with | [_, l, _] => l | _ => .pass
def gsLoop2 : Stmt := match gsThen with | [_, _, l] => l | _ => .pass
def gsBody1 : List Stmt := match gsLoop1 with | .forIn _ _ b => b | _ => []
def gsBody2 : List Stmt := match gsLoop2 with | .forIn _ _ b => b | _ => []
def gsInner : Stmt := match gsBody2 with | [_, _, l] => l | _ => .pass
def gsLineBody : List Stmt := match gsInner with | .forIn _ _ b => b | _ => []
def gsSecE : Expr := match gsBody1 with | .assign _ e :: _ => e | _ => .none

theorem gs8_eq : gs 8 = .ifElse gsCond gsThen gsElse := rfl
theorem gsThen_eq : gsThen = [.assign "sections_map" .dictNil, gsLoop1, gsLoop2] := rfl
theorem gsElse_eq : gsElse = [.forIn "task" (.var "tasks") gsLineBody] := rfl
theorem gsLoop1_eq : gsLoop1 = .forIn "task" (.var "tasks") gsBody1 := rfl
theorem gsLoop2_eq : gsLoop2 = .forIn "k" (.var "sections_map") gsBody2 := rfl
theorem gsInner_eq : gsInner = .forIn "task" (.var "v") gsLineBody := rfl

variable {S}

/-! ### the section expression -/

theorem secE_eval (hS : S.OK) (F t : Nat) (ρ : PyLite.Env) (st : PState) (ht : ρ.get? "task" = some (.atom (.ref t))) :
    gsSecE.evalP (Hr S V pts F) [] ρ st = .ok (.atom (secA S pts t), st) := by
  have hd := any_dict hS (pts t).dict kSection
  have hg := prim_getattr' V pts hS t kSection st
  cases hv : lookupA (pts t).dict kSection with
  | none =>
    rw [hv] at hd
    rpl [gsSecE, gsBody1, gsLoop1, gsThen, gs, src_gantt_src, ht, hd, lit_ksection, lit_dash, secA, hv]
  | some x =>
    rw [hv] at hd hg
    rpl [gsSecE, gsBody1, gsLoop1, gsThen, gs, src_gantt_src, ht, hd, hg, lit_ksection, lit_dash, secA, hv]

/-! ### the loop that writes the lines of a list of tasks -/

theorem lines_loop (hS : S.OK) (F : Nat) (st : PState) (D : Option Val) (ts : List Nat) (ρ : PyLite.Env) (a : Str)
    (hs : ρ.get? "self" = some (.atom (.ref 0))) (hD : ρ.get? "sections_map" = D)
    (ha : ρ.get? "res" = some (.atom (S.s a))) :
    ∃ ρ', (ρ'.get? "self" = some (.atom (.ref 0)) ∧ ρ'.get? "sections_map" = D) ∧
      ρ'.get? "res" = some (.atom (S.s (a ++ (ts.map (fun t => ganttLine (toGTask S V (pts t)))).flatten))) ∧
      forLoopP "task" (fun ρ st => execBlockP (Hr S V pts (F + 2)) [] noRec gsLineBody ρ st) (ts.map Atom.ref) ρ st =
        .normal ρ' st := by
  obtain ⟨ρ', hP, hacc, hl⟩ := forLoopP_str S "task" "res"
    (fun ρ st => execBlockP (Hr S V pts (F + 2)) [] noRec gsLineBody ρ st)
    (fun ρ => ρ.get? "self" = some (.atom (.ref 0)) ∧ ρ.get? "sections_map" = D) (lineG S V pts) st (ts.map Atom.ref)
    (by
      intro ρ a v hv hP ha
      obtain ⟨c, hc, rfl⟩ := List.mem_map.1 hv
      obtain ⟨h1, h2⟩ := hP
      have hcall := gantt_line_spec V pts hS F c st
      refine ⟨Env.set (Env.set ρ "task" (.atom (.ref c))) "res" (.atom (S.s (a ++ lineG S V pts (.ref c)))), ?_, ?_, ?_⟩
      · simp [Pj.TaskSrc.Env.get?_set, h1, h2]
      · simp [Pj.TaskSrc.Env.get?_set]
      · rpl [gsLineBody, gsInner, gsBody2, gsLoop2, gsThen, gs, src_gantt_src, ha, h1, hcall, prim_concat' V pts hS, lineG])
    ρ a ⟨hs, hD⟩ ha
  refine ⟨ρ', hP, ?_, hl⟩
  rw [hacc, flatMap_refs']
  rfl

/-! ### the first loop: `sections_map.setdefault(section, []).append(task)` -/

def gsIf2 : Stmt := match gsBody1 with | [_, a, _] => a | _ => .pass
def gsAppend : Stmt := match gsBody1 with | [_, _, a] => a | _ => .pass
theorem gsBody1_eq : gsBody1 = [.assign "task_section" gsSecE, gsIf2, gsAppend] := rfl

def setBoxes (st : PState) (b : List (List Atom)) : PState := { st with boxes := b }

theorem append_exec (H : PHandlers) (ρ : PyLite.Env) (st : PState) (d : List (Atom × Atom)) (k : Atom) (t i : Nat)
    (l : List Atom) (h1 : ρ.get? "sections_map" = some (.dict d)) (h2 : ρ.get? "task_section" = some (.atom k))
    (h3 : ρ.get? "task" = some (.atom (.ref t))) (h4 : Dict.get? d k = some (.box i)) (h5 : st.boxes[i]? = some l) :
    gsAppend.execP H [] noRec ρ st = .normal ρ (setBoxes st (st.boxes.set i (l ++ [.ref t]))) := by
  simp [gsAppend, gsBody1, gsLoop1, gsThen, gs, src_gantt_src, Stmt.execP, Expr.evalP, h1, h2, h3, h4, h5, Atom.isBox,
    bind, Except.bind, pure, Except.pure, setBoxes]

theorem if2_has (H : PHandlers) (ρ : PyLite.Env) (st : PState) (d : List (Atom × Atom)) (k : Atom)
    (h1 : ρ.get? "sections_map" = some (.dict d)) (h2 : ρ.get? "task_section" = some (.atom k))
    (h4 : (Dict.get? d k).isSome = true) :
    gsIf2.execP H [] noRec ρ st = .normal ρ st := by
  simp [gsIf2, gsBody1, gsLoop1, gsThen, gs, src_gantt_src, Stmt.execP, Expr.evalP, h1, h2, h4, truthP, execBlockP,
    bind, Except.bind, pure, Except.pure]

theorem if2_new (H : PHandlers) (ρ : PyLite.Env) (st : PState) (d : List (Atom × Atom)) (k : Atom)
    (h1 : ρ.get? "sections_map" = some (.dict d)) (h2 : ρ.get? "task_section" = some (.atom k))
    (h4 : (Dict.get? d k).isSome = false) :
    gsIf2.execP H [] noRec ρ st =
      .normal (ρ.set "sections_map" (.dict (Dict.insert d k (.box st.boxes.length)))) (setBoxes st (st.boxes ++ [[]])) := by
  simp [gsIf2, gsBody1, gsLoop1, gsThen, gs, src_gantt_src, Stmt.execP, Expr.evalP, h1, h2, h4, truthP, execBlockP, iterOf,
    bind, Except.bind, pure, Except.pure, setBoxes]

/-- `d[k].append(task)` when the key is there -/
theorem append_step (H : PHandlers) (b0 : List (List Atom)) (G : Grp) (k : Atom) (t : Nat) (ρ : PyLite.Env) (st : PState)
    (hkp : KP G) (hk : hasKey G k = true) (hb : st.boxes = b0 ++ G.map (·.2))
    (h1 : ρ.get? "sections_map" = some (.dict (dictOf b0.length G))) (h2 : ρ.get? "task_section" = some (.atom k))
    (h3 : ρ.get? "task" = some (.atom (.ref t))) :
    gsAppend.execP H [] noRec ρ st = .normal ρ (setBoxes st (b0 ++ (addAll G k (.ref t)).map (·.2))) := by
  simp only [hasKey, List.any_eq_true] at hk
  obtain ⟨p, hp, hpk⟩ := hk
  obtain ⟨i, e1, e2, e3⟩ := dict_lookup k (.ref t) G b0 p hkp hp hpk
  rw [append_exec H ρ st _ k t i p.2 h1 h2 h3 e1 (by rw [hb]; exact e2), hb, e3]

variable (S) in
def secStep (G : Grp) (t : Nat) : Grp := gstep G (secA S pts t) (.ref t)

theorem body1_step (hS : S.OK) (F : Nat) (b0 : List (List Atom)) (G : Grp) (t : Nat) (ρ : PyLite.Env) (st : PState)
    (hkp : KP G) (hb : st.boxes = b0 ++ G.map (·.2))
    (h1 : ρ.get? "sections_map" = some (.dict (dictOf b0.length G))) :
    ∃ ρ', ρ'.get? "sections_map" = some (.dict (dictOf b0.length (secStep S pts G t))) ∧
      ρ'.get? "self" = ρ.get? "self" ∧ ρ'.get? "res" = ρ.get? "res" ∧
      execBlockP (Hr S V pts F) [] noRec gsBody1 (ρ.set "task" (.atom (.ref t))) st =
        .normal ρ' (setBoxes st (b0 ++ (secStep S pts G t).map (·.2))) := by
  let ρ1 := (ρ.set "task" (.atom (.ref t))).set "task_section" (.atom (secA S pts t))
  have hsec := secE_eval V pts hS F t (ρ.set "task" (.atom (.ref t))) st (by simp [Pj.TaskSrc.Env.get?_set])
  have hs1 : (Stmt.assign "task_section" gsSecE).execP (Hr S V pts F) [] noRec (ρ.set "task" (.atom (.ref t))) st =
      .normal ρ1 st := by simp [Stmt.execP, hsec, ρ1]
  rw [gsBody1_eq, execBlockP_cons, hs1]
  simp only [execBlockP_cons, execBlockP_nil]
  have g1 : ρ1.get? "sections_map" = some (.dict (dictOf b0.length G)) := by simp [ρ1, Pj.TaskSrc.Env.get?_set, h1]
  have g2 : ρ1.get? "task_section" = some (.atom (secA S pts t)) := by simp [ρ1, Pj.TaskSrc.Env.get?_set]
  have g3 : ρ1.get? "task" = some (.atom (.ref t)) := by simp [ρ1, Pj.TaskSrc.Env.get?_set]
  cases hk : hasKey G (secA S pts t)
  · have hd : (Dict.get? (dictOf b0.length G) (secA S pts t)).isSome = false := by rw [dict_has, hk]
    rw [if2_new _ ρ1 st _ _ g1 g2 hd]
    simp only []
    let G1 : Grp := G ++ [(secA S pts t, [])]
    have hlen : st.boxes.length = b0.length + G.length := by rw [hb]; simp
    have hins : Dict.insert (dictOf b0.length G) (secA S pts t) (.box st.boxes.length) = dictOf b0.length G1 := by
      rw [hlen]; exact dict_insert_new G _ _ hk
    have hk1 : hasKey G1 (secA S pts t) = true := by simp [G1, hasKey, pyEq_refl]
    have hkp1 : KP G1 := by
      have := gstep_KP G (secA S pts t) (.ref t) hkp
      simp only [gstep, hk, Bool.false_eq_true, if_false, KP, addAll_keys] at this
      exact this
    have := append_step (Hr S V pts F) b0 G1 (secA S pts t) t
      (ρ1.set "sections_map" (.dict (dictOf b0.length G1))) (setBoxes st (st.boxes ++ [[]])) hkp1 hk1
      (by simp [setBoxes, hb, G1]) (by simp [Pj.TaskSrc.Env.get?_set]) (by simp [Pj.TaskSrc.Env.get?_set, g2])
      (by simp [Pj.TaskSrc.Env.get?_set, g3])
    rw [hins, this]
    refine ⟨ρ1.set "sections_map" (.dict (dictOf b0.length G1)), ?_, ?_, ?_, ?_⟩
    · simp only [secStep, gstep, hk, Bool.false_eq_true, if_false, dictOf_addAll]
      simp [Pj.TaskSrc.Env.get?_set, G1]
    · simp [ρ1, Pj.TaskSrc.Env.get?_set]
    · simp [ρ1, Pj.TaskSrc.Env.get?_set]
    · simp [secStep, gstep, hk, setBoxes, G1]
  · have hd : (Dict.get? (dictOf b0.length G) (secA S pts t)).isSome = true := by rw [dict_has, hk]
    rw [if2_has _ ρ1 st _ _ g1 g2 hd]
    simp only []
    rw [append_step (Hr S V pts F) b0 G (secA S pts t) t ρ1 st hkp hk hb g1 g2 g3]
    refine ⟨ρ1, ?_, ?_, ?_, ?_⟩
    · simp only [secStep, gstep, hk, if_true, dictOf_addAll]; exact g1
    · simp [ρ1, Pj.TaskSrc.Env.get?_set]
    · simp [ρ1, Pj.TaskSrc.Env.get?_set]
    · simp [secStep, gstep, hk]

theorem loop1 (hS : S.OK) (F : Nat) (b0 : List (List Atom)) : ∀ (ts : List Nat) (G : Grp) (ρ : PyLite.Env) (st : PState),
    KP G → st.boxes = b0 ++ G.map (·.2) → ρ.get? "sections_map" = some (.dict (dictOf b0.length G)) →
    ∃ ρ', ρ'.get? "sections_map" = some (.dict (dictOf b0.length (ts.foldl (secStep S pts) G))) ∧
      ρ'.get? "self" = ρ.get? "self" ∧ ρ'.get? "res" = ρ.get? "res" ∧
      forLoopP "task" (fun ρ st => execBlockP (Hr S V pts F) [] noRec gsBody1 ρ st) (ts.map Atom.ref) ρ st =
        .normal ρ' (setBoxes st (b0 ++ (ts.foldl (secStep S pts) G).map (·.2))) := by
  intro ts
  induction ts with
  | nil =>
    intro G ρ st _ hb h1
    refine ⟨ρ, h1, rfl, rfl, ?_⟩
    simp only [List.map_nil, forLoopP, List.foldl_nil, ← hb, setBoxes]
  | cons t ts ih =>
    intro G ρ st hkp hb h1
    obtain ⟨ρ1, a1, a2, a3, a4⟩ := body1_step V pts hS F b0 G t ρ st hkp hb h1
    obtain ⟨ρ2, c1, c2, c3, c4⟩ := ih (secStep S pts G t) ρ1 (setBoxes st (b0 ++ (secStep S pts G t).map (·.2)))
      (gstep_KP _ _ _ hkp) rfl a1
    refine ⟨ρ2, c1, c2.trans a2, c3.trans a3, ?_⟩
    simp only [List.map_cons, forLoopP, a4, List.foldl_cons]
    rw [c4]; rfl

/-! ### the second loop: `for k, v in sections_map.items()` -/

def gsV : Stmt := match gsBody2 with | [a, _, _] => a | _ => .pass
def gsHdr : Stmt := match gsBody2 with | [_, a, _] => a | _ => .pass
theorem gsBody2_eq : gsBody2 = [gsV, gsHdr, gsInner] := rfl

theorem v_exec (H : PHandlers) (ρ : PyLite.Env) (st : PState) (d : List (Atom × Atom)) (k : Atom) (i : Nat)
    (l : List Atom) (h1 : ρ.get? "sections_map" = some (.dict d)) (h2 : ρ.get? "k" = some (.atom k))
    (h4 : Dict.get? d k = some (.box i)) (h5 : st.boxes[i]? = some l) :
    gsV.execP H [] noRec ρ st = .normal (ρ.set "v" (.list l)) st := by
  simp [gsV, gsBody2, gsLoop2, gsThen, gs, src_gantt_src, Stmt.execP, Expr.evalP, h1, h2, h4, h5,
    bind, Except.bind, pure, Except.pure]

theorem hdr_exec (hS : S.OK) (F : Nat) (ρ : PyLite.Env) (st : PState) (k : Atom) (a : Str)
    (h2 : ρ.get? "k" = some (.atom k)) (ha : ρ.get? "res" = some (.atom (S.s a))) :
    gsHdr.execP (Hr S V pts F) [] noRec ρ st =
      .normal (ρ.set "res" (.atom (S.s (a ++ (lit "  section " ++ S.text k ++ ['\n']))))) st := by
  rpl [gsHdr, gsBody2, gsLoop2, gsThen, gs, src_gantt_src, h2, ha, lit_section, prim_concat' V pts hS, List.append_assoc]

variable (S) in
def secTxt (ts : List Nat) (k : Atom) : Str :=
  lit "  section " ++ S.text k ++ ['\n'] ++
    ((ts.filter (fun t => k.pyEq (secA S pts t))).map (fun t => ganttLine (toGTask S V (pts t)))).flatten

theorem loop2 (hS : S.OK) (F : Nat) (b0 : List (List Atom)) (ts : List Nat) (ρ : PyLite.Env) (st : PState) (a : Str)
    (hb : st.boxes = b0 ++ (grpSpec (secA S pts) ts).map (·.2))
    (h1 : ρ.get? "sections_map" = some (.dict (dictOf b0.length (grpSpec (secA S pts) ts))))
    (hs : ρ.get? "self" = some (.atom (.ref 0))) (ha : ρ.get? "res" = some (.atom (S.s a))) :
    ∃ ρ', ρ'.get? "res" = some (.atom (S.s (a ++ (pyDedup (ts.map (secA S pts))).flatMap (secTxt S V pts ts)))) ∧
      gsLoop2.execP (Hr S V pts (F + 2)) [] noRec ρ st = .normal ρ' st := by
  have hkeys : (dictOf b0.length (grpSpec (secA S pts) ts)).map (·.1) = pyDedup (ts.map (secA S pts)) := by
    rw [dictOf_keys]; simp only [grpSpec, keys_map]
  have hloop : gsLoop2.execP (Hr S V pts (F + 2)) [] noRec ρ st =
      forLoopP "k" (fun ρ st => execBlockP (Hr S V pts (F + 2)) [] noRec gsBody2 ρ st) (pyDedup (ts.map (secA S pts))) ρ st := by
    rw [gsLoop2_eq, ← hkeys]
    simp [Stmt.execP, Expr.evalP, h1, bind, Except.bind, pure, Except.pure, iterOf]
  rw [hloop]
  obtain ⟨ρ', hP, hacc, hl⟩ := forLoopP_str S "k" "res"
    (fun ρ st => execBlockP (Hr S V pts (F + 2)) [] noRec gsBody2 ρ st)
    (fun ρ => ρ.get? "self" = some (.atom (.ref 0)) ∧
      ρ.get? "sections_map" = some (.dict (dictOf b0.length (grpSpec (secA S pts) ts))))
    (secTxt S V pts ts) st (pyDedup (ts.map (secA S pts)))
    (by
      intro ρ a k hk hP ha
      obtain ⟨p1, p2⟩ := hP
      have hp : (k, (ts.filter (fun t => k.pyEq (secA S pts t))).map Atom.ref) ∈ grpSpec (secA S pts) ts :=
        List.mem_map.2 ⟨k, hk, rfl⟩
      obtain ⟨i, e1, e2, _⟩ := dict_lookup k .none _ b0 _ (grpSpec_KP _ _) hp (pyEq_refl k)
      rw [← hb] at e2
      let ρ1 := ρ.set "k" (.atom k)
      let ρ2 := ρ1.set "v" (.list ((ts.filter (fun t => k.pyEq (secA S pts t))).map Atom.ref))
      let ρ3 := ρ2.set "res" (.atom (S.s (a ++ (lit "  section " ++ S.text k ++ ['\n']))))
      have x1 := v_exec (Hr S V pts (F + 2)) ρ1 st _ k i _ (by simp [ρ1, Pj.TaskSrc.Env.get?_set, p2])
        (by simp [ρ1, Pj.TaskSrc.Env.get?_set]) e1 e2
      have x2 := hdr_exec V pts hS (F + 2) ρ2 st k a (by simp [ρ2, ρ1, Pj.TaskSrc.Env.get?_set])
        (by simp [ρ2, ρ1, Pj.TaskSrc.Env.get?_set, ha])
      obtain ⟨ρ4, q1, q2, q3⟩ := lines_loop V pts hS F st
        (some (.dict (dictOf b0.length (grpSpec (secA S pts) ts)))) (ts.filter (fun t => k.pyEq (secA S pts t))) ρ3
        (a ++ (lit "  section " ++ S.text k ++ ['\n']))
        (by simp [ρ3, ρ2, ρ1, Pj.TaskSrc.Env.get?_set, p1]) (by simp [ρ3, ρ2, ρ1, Pj.TaskSrc.Env.get?_set, p2])
        (by simp only [ρ3, Pj.TaskSrc.Env.get?_set, if_true])
      have x3 : gsInner.execP (Hr S V pts (F + 2)) [] noRec ρ3 st = .normal ρ4 st := by
        rw [gsInner_eq, execP_forIn (vs := (ts.filter (fun t => k.pyEq (secA S pts t))).map Atom.ref) (st' := st)
          (hit := by simp [Expr.evalP, ρ3, ρ2, Pj.TaskSrc.Env.get?_set, pure, Except.pure])]
        exact q3
      refine ⟨ρ4, q1, ?_, ?_⟩
      · rw [q2]; simp [secTxt, List.append_assoc]
      · rw [gsBody2_eq, execBlockP_cons, x1]
        have x2' : gsHdr.execP (Hr S V pts (F + 2)) [] noRec
            (ρ1.set "v" (.list ((ts.filter (fun t => k.pyEq (secA S pts t))).map Atom.ref))) st = .normal ρ3 st := x2
        simp only [execBlockP_cons, x2', x3, execBlockP_nil])
    ρ a ⟨hs, h1⟩ ha
  exact ⟨ρ', hacc, hl⟩

/-! ### the header -/

def titleTxt : Str := match V.title with | some t => lit "  title " ++ t ++ ['\n'] | none => []
def wkTxt : Str := if V.weekends then lit "  excludes weekends\n" else []
def tickTxt : Str := match V.tick with | some t => if t.isEmpty then [] else lit "  tickInterval " ++ t ++ ['\n'] | none => []

theorem s_ne_none (x : Str) : (S.s x = Atom.none) = False := by simp [Lib.s]

variable (S) in
/-- the statement appends `x` to `res` -/
def Adds (F : Nat) (s : Stmt) (x : Str) : Prop := ∀ (ρ : PyLite.Env) (a : Str) (st : PState),
  ρ.get? "self" = some (.atom (.ref 0)) → ρ.get? "res" = some (.atom (S.s a)) →
  ∃ ρ', ρ'.get? "self" = some (.atom (.ref 0)) ∧ ρ'.get? "res" = some (.atom (S.s (a ++ x))) ∧
    s.execP (Hr S V pts F) [] noRec ρ st = .normal ρ' st

theorem adds_set (F : Nat) (s : Stmt) (x : Str)
    (h : ∀ (ρ : PyLite.Env) (a : Str) (st : PState), ρ.get? "self" = some (.atom (.ref 0)) →
      ρ.get? "res" = some (.atom (S.s a)) →
      s.execP (Hr S V pts F) [] noRec ρ st = .normal (ρ.set "res" (.atom (S.s (a ++ x)))) st) : Adds S V pts F s x := by
  intro ρ a st hs ha
  exact ⟨_, by simp [Pj.TaskSrc.Env.get?_set, hs], by simp [Pj.TaskSrc.Env.get?_set], h ρ a st hs ha⟩

theorem adds_skip (F : Nat) (s : Stmt)
    (h : ∀ (ρ : PyLite.Env) (a : Str) (st : PState), ρ.get? "self" = some (.atom (.ref 0)) →
      ρ.get? "res" = some (.atom (S.s a)) → s.execP (Hr S V pts F) [] noRec ρ st = .normal ρ st) : Adds S V pts F s [] := by
  intro ρ a st hs ha
  exact ⟨ρ, hs, by simpa using ha, h ρ a st hs ha⟩

theorem adds1 (hS : S.OK) (F : Nat) : Adds S V pts F (gs 1) (lit "  dateFormat DD.MM.YYYY HH:mm\n") := by
  apply adds_set; intro ρ a st hs ha
  rpl [gs, src_gantt_src, hs, ha, lit_datefmt, prim_concat' V pts hS]

theorem adds2 (hS : S.OK) (F : Nat) : Adds S V pts F (gs 2) (titleTxt V) := by
  cases ht : V.title with
  | none =>
    simp only [titleTxt, ht]
    apply adds_skip; intro ρ a st hs ha
    rpl [gs, src_gantt_src, hs, ha, prim_title, ht, Lib.os]
  | some x =>
    simp only [titleTxt, ht]
    apply adds_set; intro ρ a st hs ha
    rpl [gs, src_gantt_src, hs, ha, prim_title, ht, Lib.os, s_ne_none, lit_title, prim_concat' V pts hS, text_s hS,
      str_s V pts hS, List.append_assoc]

theorem adds3 (hS : S.OK) (F : Nat) : Adds S V pts F (gs 3) (wkTxt V) := by
  cases ht : V.weekends with
  | false =>
    simp only [wkTxt, ht]
    apply adds_skip; intro ρ a st hs ha
    rpl [gs, src_gantt_src, hs, ha, prim_weekends, prim_truth, pyTruth, ht]
  | true =>
    simp only [wkTxt, ht]
    apply adds_set; intro ρ a st hs ha
    rpl [gs, src_gantt_src, hs, ha, prim_weekends, prim_truth, pyTruth, ht, lit_wk, prim_concat' V pts hS]

theorem adds4 (hS : S.OK) (F : Nat) : Adds S V pts F (gs 4) (tickTxt V) := by
  cases ht : V.tick with
  | none =>
    simp only [tickTxt, ht]
    apply adds_skip; intro ρ a st hs ha
    rpl [gs, src_gantt_src, hs, ha, prim_tick, prim_truth, pyTruth, ht, Lib.os]
  | some x =>
    simp only [tickTxt, ht]
    have hD : S.D (S.I x) = x := hS x
    cases hx : x.isEmpty with
    | true =>
      simp only [if_true]
      apply adds_skip; intro ρ a st hs ha
      rpl [gs, src_gantt_src, hs, ha, prim_tick, prim_truth, pyTruth, ht, Lib.os, Lib.s, hD, hx]
    | false =>
      simp only [Bool.false_eq_true, if_false]
      apply adds_set; intro ρ a st hs ha
      have hc := prim_concat' V pts hS
      have hstr := str_s V pts hS
      have htr : renderPrim S V pts "truth" [S.s x] st = .ok (.atom (.bool true)) := by
        rw [prim_truth]; simp [pyTruth, Lib.s, hD, hx]
      rpl [gs, src_gantt_src, hs, ha, prim_tick, htr, ht, Lib.os, lit_tick, hc, hstr, List.append_assoc]

def headTxt : Str := lit "gantt\n" ++ lit "  dateFormat DD.MM.YYYY HH:mm\n" ++ titleTxt V ++ wkTxt V ++ tickTxt V

theorem header_exec (hS : S.OK) (F : Nat) (st : PState) (rest : List Stmt) :
    ∃ ρ, ρ.get? "self" = some (.atom (.ref 0)) ∧ ρ.get? "res" = some (.atom (S.s (headTxt V))) ∧
      execBlockP (Hr S V pts F) [] noRec (gs 0 :: gs 1 :: gs 2 :: gs 3 :: gs 4 :: rest) [("self", .atom (.ref 0))] st =
        execBlockP (Hr S V pts F) [] noRec rest ρ st := by
  let ρ0 : PyLite.Env := Env.set [("self", .atom (.ref 0))] "res" (.atom (S.s (lit "gantt\n")))
  have e0 : (gs 0).execP (Hr S V pts F) [] noRec [("self", .atom (.ref 0))] st = .normal ρ0 st := by
    rpl [gs, src_gantt_src, lit_gantt, ρ0]
  obtain ⟨ρ1, s1, a1, x1⟩ := adds1 V pts hS F ρ0 (lit "gantt\n") st (by simp [ρ0, Pj.TaskSrc.Env.get?_set, Pj.TaskSrc.Env.get?_cons])
    (by simp only [ρ0, Pj.TaskSrc.Env.get?_set, if_true])
  obtain ⟨ρ2, s2, a2, x2⟩ := adds2 V pts hS F ρ1 _ st s1 a1
  obtain ⟨ρ3, s3, a3, x3⟩ := adds3 V pts hS F ρ2 _ st s2 a2
  obtain ⟨ρ4, s4, a4, x4⟩ := adds4 V pts hS F ρ3 _ st s3 a3
  refine ⟨ρ4, s4, a4, ?_⟩
  simp only [execBlockP_cons, e0, x1, x2, x3, x4]

/-! ### the sections and the body -/

theorem comp_map (f : Atom → PState → Res (Option Atom × PState)) (h : Atom → Atom) (st : PState) : ∀ vs : List Atom,
    (∀ v ∈ vs, f v st = .ok (some (h v), st)) → compLoopP f vs st = .ok (vs.map h, st) := by
  intro vs
  induction vs with
  | nil => intro _; rfl
  | cons v vs ih =>
    intro hf
    simp only [compLoopP, hf v List.mem_cons_self, ih (fun v hv => hf v (List.mem_cons_of_mem _ hv)), bind, Except.bind,
      pure, Except.pure, List.map_cons]

variable (S) in
def secH : Atom → Atom
  | .ref t => secA S pts t
  | _ => .none

variable (S) in
/-- the set of sections, in the order of their first task -/
def secsA : List Atom := pyDedup (V.tasks.map (secA S pts))

theorem gs6_eq : gs 6 = .assign "sections" (.setOf (.listComp gsSecE "task" (.var "tasks") (.bool true))) := rfl

theorem gs6_exec (hS : S.OK) (F : Nat) (ρ : PyLite.Env) (st : PState)
    (ht : ρ.get? "tasks" = some (.list (V.tasks.map Atom.ref))) :
    (gs 6).execP (Hr S V pts F) [] noRec ρ st = .normal (ρ.set "sections" (.list (secsA S V pts))) st := by
  rw [gs6_eq]
  simp only [Stmt.execP, Expr.evalP, ht, bind, Except.bind, pure, Except.pure, iterOf]
  rw [comp_map _ (secH S pts) st (V.tasks.map Atom.ref) (by
    intro v hv
    obtain ⟨c, hc, rfl⟩ := List.mem_map.1 hv
    have := secE_eval V pts hS F c (ρ.set "task" (.atom (.ref c))) st (by simp [Pj.TaskSrc.Env.get?_set])
    simp [this, truthP, pure, Except.pure, bind, Except.bind, secH])]
  have e : (secH S pts ∘ Atom.ref) = secA S pts := rfl
  simp [secsA, List.map_map, e]

theorem pe11 : (Atom.num 1).pyEq (.num 1) = true := pyEq_refl _
theorem pe00 : (Atom.num 0).pyEq (.num 0) = true := pyEq_refl _
theorem pe01 : (Atom.num 0).pyEq (.num 1) = false := by decide

theorem pyEq_len1 (n : Nat) : (Atom.num ((n : Nat) : Rat)).pyEq (.num 1) = decide (n = 1) := by
  simp only [Atom.pyEq, Atom.norm]
  apply decide_eq_decide.2
  constructor
  · intro e; exact Rat.natCast_inj.1 ((Atom.num.inj e).trans (by rfl))
  · intro e; subst e; rfl

def gsLineLoop : Stmt := .forIn "task" (.var "tasks") gsLineBody

variable (S) in
def flatTxt : Str := (V.tasks.map (fun t => ganttLine (toGTask S V (pts t)))).flatten

/-- the case without section lines: one section, or no task -/
theorem tail_flat (hS : S.OK) (F : Nat) (ρ : PyLite.Env) (st : PState) (a : Str)
    (hs : ρ.get? "self" = some (.atom (.ref 0))) (ha : ρ.get? "res" = some (.atom (S.s a)))
    (hflat : (secsA S V pts).length = 1 ∨ secsA S V pts = []) :
    execBlockP (Hr S V pts (F + 2)) [] noRec [gs 5, gs 6, gs 7, gs 8, gs 9] ρ st =
      .ret (.atom (S.s (a ++ flatTxt S V pts))) st := by
  let ρ5 := ρ.set "tasks" (.list (V.tasks.map Atom.ref))
  have e5 : (gs 5).execP (Hr S V pts (F + 2)) [] noRec ρ st = .normal ρ5 st := by
    rpl [gs, src_gantt_src, hs, refsA, ρ5]
  let ρ6 := ρ5.set "sections" (.list (secsA S V pts))
  have e6 : (gs 6).execP (Hr S V pts (F + 2)) [] noRec ρ5 st = .normal ρ6 st :=
    gs6_exec V pts hS (F + 2) ρ5 st (by simp [ρ5, Pj.TaskSrc.Env.get?_set])
  obtain ⟨ρ7, hs7, ha7, ht7, e7, c8⟩ : ∃ ρ7, ρ7.get? "self" = some (.atom (.ref 0)) ∧
      ρ7.get? "res" = some (.atom (S.s a)) ∧ ρ7.get? "tasks" = some (.list (V.tasks.map Atom.ref)) ∧
      (gs 7).execP (Hr S V pts (F + 2)) [] noRec ρ6 st = .normal ρ7 st ∧
      (do let (v, st') ← gsCond.evalP (Hr S V pts (F + 2)) [] ρ7 st; pure ((← truthP v), st')) = .ok (false, st) := by
    by_cases h1 : (secsA S V pts).length = 1
    · refine ⟨ρ6.set "sections" (.atom .none), by simp [ρ6, ρ5, Pj.TaskSrc.Env.get?_set, hs],
        by simp [ρ6, ρ5, Pj.TaskSrc.Env.get?_set, ha], by simp [ρ6, ρ5, Pj.TaskSrc.Env.get?_set], ?_, ?_⟩
      · rpl [gs, src_gantt_src, ρ6, pyEq_len1, h1, pe11]
      · rpl [gsCond, gs, src_gantt_src]
    · have h0 : secsA S V pts = [] := by rcases hflat with h | h; exact absurd h h1; exact h
      refine ⟨ρ6, by simp [ρ6, ρ5, Pj.TaskSrc.Env.get?_set, hs],
        by simp [ρ6, ρ5, Pj.TaskSrc.Env.get?_set, ha], by simp [ρ6, ρ5, Pj.TaskSrc.Env.get?_set], ?_, ?_⟩
      · rpl [gs, src_gantt_src, ρ6, pyEq_len1, h0, pe01]
      · rpl [gsCond, gs, src_gantt_src, ρ6, h0, pyEq_len, pe00]
  obtain ⟨ρ8, ⟨hs8, _⟩, ha8, e8⟩ := lines_loop V pts hS F st _ V.tasks ρ7 a hs7 rfl ha7
  have e8' : execBlockP (Hr S V pts (F + 2)) [] noRec gsElse ρ7 st = .normal ρ8 st := by
    rw [gsElse_eq, execBlockP_cons, execP_forIn (vs := V.tasks.map Atom.ref) (st' := st)
      (hit := by simp [Expr.evalP, ht7, pure, Except.pure]), e8]
    simp only [execBlockP_nil]
  have e9 : (gs 9).execP (Hr S V pts (F + 2)) [] noRec ρ8 st = .ret (.atom (S.s (a ++ flatTxt S V pts))) st := by
    rpl [gs, src_gantt_src, ha8, flatTxt]
  have e8'' : (gs 8).execP (Hr S V pts (F + 2)) [] noRec ρ7 st = .normal ρ8 st := by
    rw [gs8_eq]; simp only [Stmt.execP, c8, Bool.false_eq_true, if_false, e8']
  simp only [execBlockP_cons, e5, e6, e7, e8'', e9]

variable (S) in
def secsTxt : Str := (secsA S V pts).flatMap (secTxt S V pts V.tasks)

/-- the case with section lines -/
theorem tail_sec (hS : S.OK) (F : Nat) (ρ : PyLite.Env) (st : PState) (a : Str)
    (hs : ρ.get? "self" = some (.atom (.ref 0))) (ha : ρ.get? "res" = some (.atom (S.s a)))
    (h1 : (secsA S V pts).length ≠ 1) (h0 : secsA S V pts ≠ []) :
    execBlockP (Hr S V pts (F + 2)) [] noRec [gs 5, gs 6, gs 7, gs 8, gs 9] ρ st =
      .ret (.atom (S.s (a ++ secsTxt S V pts)))
        (setBoxes st (st.boxes ++ (grpSpec (secA S pts) V.tasks).map (·.2))) := by
  let ρ5 := ρ.set "tasks" (.list (V.tasks.map Atom.ref))
  have e5 : (gs 5).execP (Hr S V pts (F + 2)) [] noRec ρ st = .normal ρ5 st := by
    rpl [gs, src_gantt_src, hs, refsA, ρ5]
  let ρ6 := ρ5.set "sections" (.list (secsA S V pts))
  have e6 : (gs 6).execP (Hr S V pts (F + 2)) [] noRec ρ5 st = .normal ρ6 st :=
    gs6_exec V pts hS (F + 2) ρ5 st (by simp [ρ5, Pj.TaskSrc.Env.get?_set])
  have hne : (secsA S V pts).isEmpty = false := by cases h : secsA S V pts; exact absurd h h0; rfl
  have e7 : (gs 7).execP (Hr S V pts (F + 2)) [] noRec ρ6 st = .normal ρ6 st := by
    rpl [gs, src_gantt_src, ρ6, pyEq_len1, h1]
  have c8 : (do let (v, st') ← gsCond.evalP (Hr S V pts (F + 2)) [] ρ6 st; pure ((← truthP v), st')) = .ok (true, st) := by
    rpl [gsCond, gs, src_gantt_src, ρ6, pyEq_len, hne]
  let ρ8 := ρ6.set "sections_map" (.dict [])
  obtain ⟨ρ9, d9, s9, a9, l9⟩ := loop1 V pts hS (F + 2) st.boxes V.tasks [] ρ8 st (by simp [KP]) (by simp)
    (by simp [ρ8, Pj.TaskSrc.Env.get?_set, dictOf])
  have hg : V.tasks.foldl (secStep S pts) [] = grpSpec (secA S pts) V.tasks := groupsOf_eq (secA S pts) V.tasks
  rw [hg] at d9 l9
  have x1 : gsLoop1.execP (Hr S V pts (F + 2)) [] noRec ρ8 st =
      .normal ρ9 (setBoxes st (st.boxes ++ (grpSpec (secA S pts) V.tasks).map (·.2))) := by
    rw [gsLoop1_eq, execP_forIn (vs := V.tasks.map Atom.ref) (st' := st)
      (hit := by simp [Expr.evalP, ρ8, ρ6, ρ5, Pj.TaskSrc.Env.get?_set, pure, Except.pure]), l9]
  obtain ⟨ρ10, a10, l10⟩ := loop2 V pts hS F st.boxes V.tasks ρ9
    (setBoxes st (st.boxes ++ (grpSpec (secA S pts) V.tasks).map (·.2))) a rfl d9
    (by rw [s9]; simp [ρ8, ρ6, ρ5, Pj.TaskSrc.Env.get?_set, hs]) (by rw [a9]; simp [ρ8, ρ6, ρ5, Pj.TaskSrc.Env.get?_set, ha])
  have e8' : execBlockP (Hr S V pts (F + 2)) [] noRec gsThen ρ6 st =
      .normal ρ10 (setBoxes st (st.boxes ++ (grpSpec (secA S pts) V.tasks).map (·.2))) := by
    have x0 : (Stmt.assign "sections_map" .dictNil).execP (Hr S V pts (F + 2)) [] noRec ρ6 st = .normal ρ8 st := by
      simp [Stmt.execP, Expr.evalP, pure, Except.pure, ρ8]
    rw [gsThen_eq]
    simp only [execBlockP_cons, x0, x1, l10, execBlockP_nil]
  have e9 : (gs 9).execP (Hr S V pts (F + 2)) [] noRec ρ10
      (setBoxes st (st.boxes ++ (grpSpec (secA S pts) V.tasks).map (·.2))) =
      .ret (.atom (S.s (a ++ secsTxt S V pts))) (setBoxes st (st.boxes ++ (grpSpec (secA S pts) V.tasks).map (·.2))) := by
    rpl [gs, src_gantt_src, a10, secsTxt, secsA]
  have e8'' : (gs 8).execP (Hr S V pts (F + 2)) [] noRec ρ6 st =
      .normal ρ10 (setBoxes st (st.boxes ++ (grpSpec (secA S pts) V.tasks).map (·.2))) := by
    rw [gs8_eq]; simp only [Stmt.execP, c8, if_true, e8']
  simp only [execBlockP_cons, e5, e6, e7, e8'', e9]

/-! ### the assembly -/

variable (S) in
/-- the text the program writes -/
def progTxt : Str :=
  headTxt V ++ (if (secsA S V pts).length = 1 ∨ secsA S V pts = [] then flatTxt S V pts else secsTxt S V pts)

variable (S) in
/-- the boxes the run leaves in the store: one per section, holding its tasks in order (none without section lines) -/
def ganttBoxes : List (List Atom) :=
  if (secsA S V pts).length = 1 ∨ secsA S V pts = [] then [] else (grpSpec (secA S pts) V.tasks).map (·.2)

theorem pf_gantt : renderFuns fn_gantt_src = some (src_gantt_src_params, src_gantt_src) := rfl

theorem setBoxes_nil (st : PState) : setBoxes st (st.boxes ++ []) = st := by cases st; simp [setBoxes]

/-- `MermaidGantt.__src()` writes `progTxt` (no hypothesis on the section values) -/
theorem gantt_src_prog (hS : S.OK) (F : Nat) (st : PState) :
    (Hr S V pts (F + 3)).fnV fn_gantt_src [.atom (.ref 0)] st =
      .ok (.atom (S.s (progTxt S V pts)), setBoxes st (st.boxes ++ ganttBoxes S V pts)) := by
  rw [rfnV_succ _ _ _ _ _ _ _ pf_gantt, callPV_eq]
  obtain ⟨ρ, hs, ha, e⟩ := header_exec V pts hS (F + 2) st [gs 5, gs 6, gs 7, gs 8, gs 9]
  have hb : bindParamsV src_gantt_src_params [.atom (.ref 0)] = .ok [("self", .atom (.ref 0))] := by
    simp [src_gantt_src_params, bindParamsV, pure, Except.pure, Env.set, bind, Except.bind]
  rw [hb, gs_shape]
  simp only []
  rw [e]
  by_cases hflat : (secsA S V pts).length = 1 ∨ secsA S V pts = []
  · rw [tail_flat V pts hS F ρ st _ hs ha hflat]
    simp only [progTxt, ganttBoxes, hflat, if_true, setBoxes_nil]
  · have h1 : (secsA S V pts).length ≠ 1 := fun h => hflat (Or.inl h)
    have h0 : secsA S V pts ≠ [] := fun h => hflat (Or.inr h)
    rw [tail_sec V pts hS F ρ st _ hs ha h1 h0]
    simp only [progTxt, ganttBoxes, hflat, if_false]

/-! ### the program's text is the model's -/

variable (S) in
/-- on the section values of the WBS, `==` is decided by the text (`str(section)` is what the model reads) -/
def SecOK : Prop := ∀ t ∈ V.tasks, ∀ u ∈ V.tasks,
  (secA S pts t).pyEq (secA S pts u) = (S.text (secA S pts t) == S.text (secA S pts u))

theorem sectionOf_eq (hS : S.OK) (t : Nat) : sectionOf (toGTask S V (pts t)) = S.text (secA S pts t) := by
  simp only [sectionOf, toGTask, secA]
  cases lookupA (pts t).dict kSection with
  | none => simp [text_s hS]
  | some x => rfl

theorem head_eq : headTxt V = lit "gantt\n  dateFormat DD.MM.YYYY HH:mm\n" ++
    (match V.title with | some t => lit "  title " ++ t ++ ['\n'] | none => []) ++
    (if V.weekends then lit "  excludes weekends\n" else []) ++
    (match V.tick with | some t => if t.isEmpty then [] else lit "  tickInterval " ++ t ++ ['\n'] | none => []) := by
  have : lit "gantt\n  dateFormat DD.MM.YYYY HH:mm\n" = lit "gantt\n" ++ lit "  dateFormat DD.MM.YYYY HH:mm\n" := by decide
  rw [this]; rfl

theorem secs_eq (hS : S.OK) (hK : SecOK S V pts) :
    ((gTasks S V pts).map sectionOf).eraseDups = (secsA S V pts).map S.text := by
  have e1 : (gTasks S V pts).map sectionOf = (V.tasks.map (secA S pts)).map S.text := by
    simp only [gTasks, List.map_map]
    apply List.map_congr_left
    intro t _
    exact sectionOf_eq V pts hS t
  rw [e1, List.eraseDups, eraseDupsBy_eq_ded, secsA, pyDedup_eq]
  symm
  apply ded_map
  intro a ha b hb
  obtain ⟨t, ht, rfl⟩ := List.mem_map.1 ha
  obtain ⟨u, hu, rfl⟩ := List.mem_map.1 hb
  exact hK t ht u hu

theorem progTxt_eq (hS : S.OK) (hK : SecOK S V pts) :
    progTxt S V pts = ganttSrc V.title V.weekends V.tick (gTasks S V pts) := by
  simp only [ganttSrc, ← head_eq, secs_eq V pts hS hK, progTxt]
  have hl : ((secsA S V pts).map S.text).length = (secsA S V pts).length := List.length_map _
  by_cases hflat : (secsA S V pts).length = 1 ∨ secsA S V pts = []
  · have : ((((secsA S V pts).map S.text).length == 1) || ((secsA S V pts).map S.text).isEmpty) = true := by
      rcases hflat with h | h
      · simp [h]
      · simp [h]
    simp only [hflat, if_true, this, flatTxt, gTasks, List.map_map]
    rfl
  · have : ((((secsA S V pts).map S.text).length == 1) || ((secsA S V pts).map S.text).isEmpty) = false := by
      have h1 : (secsA S V pts).length ≠ 1 := fun h => hflat (Or.inl h)
      have h0 : secsA S V pts ≠ [] := fun h => hflat (Or.inr h)
      simp [h1, h0]
    simp only [hflat, if_false, this, Bool.false_eq_true, secsTxt, List.map_map]
    congr 1
    rw [List.flatMap_def]
    congr 1
    apply List.map_congr_left
    intro k hk
    obtain ⟨u, hu, hku⟩ : ∃ u ∈ V.tasks, k = secA S pts u := by
      have := ded_sub _ _ k (by rw [← pyDedup_eq]; exact hk)
      obtain ⟨u, hu, e⟩ := List.mem_map.1 this
      exact ⟨u, hu, e.symm⟩
    simp only [Function.comp, secTxt, gTasks, List.filter_map, List.map_map]
    congr 3
    apply List.filter_congr
    intro t ht
    simp only [Function.comp, sectionOf_eq V pts hS, hku]
    rw [hK u hu t ht]
    exact Bool.beq_comm

/-- STAGE 4: `MermaidGantt.__src()` returns the model's text -/
theorem gantt_src_spec (hS : S.OK) (hK : SecOK S V pts) (F : Nat) (st : PState) :
    (Hr S V pts (F + 3)).fnV fn_gantt_src [.atom (.ref 0)] st =
      .ok (.atom (S.s (ganttSrc V.title V.weekends V.tick (gTasks S V pts))),
        setBoxes st (st.boxes ++ ganttBoxes S V pts)) := by
  rw [gantt_src_prog V pts hS F st, progTxt_eq V pts hS hK]

/-- the section values are strs (the documented use): the hypothesis holds -/
theorem secOK_of_strs (hS : S.OK)
    (h : ∀ t ∈ V.tasks, ∀ a, lookupA (pts t).dict kSection = some a → ∃ x, a = S.s x) : SecOK S V pts := by
  have hx : ∀ t ∈ V.tasks, ∃ x, secA S pts t = S.s x := by
    intro t ht
    simp only [secA]
    cases hv : lookupA (pts t).dict kSection with
    | none => exact ⟨_, rfl⟩
    | some a => exact h t ht a hv
  intro t ht u hu
  obtain ⟨x, ex⟩ := hx t ht
  obtain ⟨y, ey⟩ := hx u hu
  rw [ex, ey, pyEq_s hS, text_s hS, text_s hS]
  by_cases e : x = y <;> simp [e]

/-- the entry point -/
theorem interpGanttSrc_eq (hS : S.OK) (hK : SecOK S V pts) (F : Nat) (hF : 3 ≤ F) :
    interpGanttSrc S V pts F = .ok (.atom (S.s (ganttSrc V.title V.weekends V.tick (gTasks S V pts)))) := by
  obtain ⟨F, rfl⟩ : ∃ F', F = F' + 3 := ⟨F - 3, by omega⟩
  have := gantt_src_spec V pts hS hK F st0
  simp only [interpGanttSrc, interp, runProg]
  rw [this]; rfl

/-
  RESULTS (axioms: propext, Classical.choice, Quot.sound; no change to Model/*, Extracted/*, tools/*).
    gantt_src_prog   (Hr S V pts (F+3)).fnV fn_gantt_src [ref 0] st = ok (S.s (progTxt S V pts), setBoxes st (st.boxes ++ ganttBoxes S V pts))
                     for every `S` with `S.OK`, view, task description, state, fuel; NO hypothesis on the section values:
                     header, then either the lines of all tasks (one section / no task) or, per section value in the order
                     of first occurrence (`==` of Python), "  section str(k)" and the lines of its tasks in WBS order.
    progTxt_eq       progTxt = ganttSrc …, under `SecOK` (`==` on the section values of the WBS is decided by their text).
    gantt_src_spec   the two combined; interpGanttSrc_eq (3 ≤ F) the entry point; secOK_of_strs: str sections satisfy `SecOK`.
  The run leaves one box per section in the store (`ganttBoxes`), none when no section line is written.
  Idiom lemmas (RenderSrcC0.lean): eraseDupsBy_eq_ded, ded_snoc/ded_sub/ded_rep/ded_pairwise/ded_map, groupsOf_eq
  (loop result = keys by first occurrence, each group its members in order), grpSpec_KP, dict_has, dict_insert_new,
  dict_lookup; here: body1_step / loop1 (setdefault + append), loop2 (items()), lines_loop, header_exec, tail_flat, tail_sec.
-/

end Pj.RenderSrc
