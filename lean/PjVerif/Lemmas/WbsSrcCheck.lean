/-
  Lemmas/WbsSrcCheck.lean — stage 1 / stage 2 of the translated tie for wbs.py: kernel-checked concrete runs of the
  translated `WBS.tasks`, `__getitem__`, `roots` (getter / setter), `//`, `remove`, `remove_all` (Extracted/WbsSrc.lean)
  against the graph model.  See Lemmas/WbsSrc.lean.
-/
import PjVerif.Lemmas.WbsSrc
import PjVerif.Lemmas.TaskSrcCheck
namespace Pj.WbsSrc
open Pj.PyLite Pj.Extracted Pj.TaskSrc Pj.TaskSrc.Check

namespace Check

def FW : Nat := 40

def runW (filt : List Atom → PState → List Uid) (s : G) (k : Nat) (args : List Val) : Res (Val × List PyLite.Env) :=
  observe s.n (interpW filt FW k args (encStN s))

/-- a value and the model's new state, or the model's error -/
def expectR (n : Nat) (v : Val) (r : G × Option Err) : Res (Val × List PyLite.Env) :=
  match r with
  | (s', none) => .ok (v, view n (encHeap s'))
  | (_, some e) => .error e

def idV (i : Int) : Val := .atom (idA i)

/-! #### stage 1 -/

-- `wbs.tasks` = `wbsTasks`, `wbs.roots` = the children of the hidden root: every object as the receiver (the hidden
-- roots 0 and 8 of g1, 0 of g2; on other objects the functions are the same functions of the task)
def tasksAgree (s : G) : Bool :=
  allU s (fun w =>
    decide (runW noFilt s fn_WBS_tasks [refV w] = expectV s ((wbsTasks s w).map refs)) &&
    decide (runW noFilt s fn_WBS_roots_get [refV w] = expectV s (some (refs (s.children w)))))

example : tasksAgree g1 = true := by decide +kernel
example : tasksAgree g2 = true := by decide +kernel
example : tasksAgree g3 = true := by decide +kernel

/-- `wbs[i]` = `wbsGet`: the first member with that id / RuntimeError; ids 10 (also carried by tasks of other trees),
    20, 30, 40 (a detached task only), EMPTY_TASK_ID (the hidden root is not a member) -/
def expectGet (s : G) (r : Res Uid) : Res (Val × List PyLite.Env) :=
  match r with
  | .ok t => .ok (refV t, view s.n (encHeap s))
  | .error e => .error e

def getAgree (s : G) (ids : List Int) : Bool :=
  allU s (fun w => ids.all (fun i =>
    decide (runW noFilt s fn_WBS_getitem [refV w, idV i] = expectGet s (wbsGet s w i))))

example : getAgree g1 [10, 20, 30, 40, 7, emptyId] = true := by decide +kernel
example : getAgree g2 [1, 4, 6, 9] = true := by decide +kernel
example : getAgree g3 [1, 2] = true := by decide +kernel

-- `wbs.roots = v` = the children setter on the hidden root; `wbs // v` = `floordiv`, returning `v`
def rootsSetAgree (s : G) (w : Uid) : Bool :=
  allU s (fun a =>
    decide (runW noFilt s fn_WBS_roots_set [refV w, refs [a]] = expect s.n (setChildren s w [a])) &&
    decide (runW noFilt s fn_WBS_roots_set [refV w, refs [a, 10]] = expect s.n (setChildren s w [a, 10])) &&
    decide (runW noFilt s fn_WBS_roots_set [refV w, refs []] = expect s.n (setChildren s w [])) &&
    decide (runW noFilt s fn_WBS_floordiv [refV w, refV a] = expectR s.n (refV a) (floordiv s w [a])) &&
    decide (runW noFilt s fn_WBS_floordiv [refV w, refs [11, a]] = expectR s.n (refs [11, a]) (floordiv s w [11, a])))

example : rootsSetAgree g1 0 = true := by decide +kernel
example : rootsSetAgree g1 8 = true := by decide +kernel

/-! #### stage 2 -/

def boolV' (b : Bool) : Val := .atom (.bool b)

/-- what `wbs.remove(t)` is compared with: the flag and the new state of `removeRec`, RecursionError when it runs out
    of fuel (`removeRecS` = `removeRec`, `wbsRemoveS` = `wbsRemove`: `removeRecS_eq`, `wbsRemoveS_eq` in WbsSrc.lean - the
    kernel cannot evaluate the model's well-founded recursion) -/
def expectRemove (s : G) (w t : Uid) : Res (Val × List PyLite.Env) :=
  match removeRecS t s.fuel s w with
  | none => .error (.crash .recursion)
  | some (s', none, b) => .ok (boolV' b, view s.n (encHeap s'))
  | some (_, some e, _) => .error e

-- `wbs.remove(t)`: every task of every graph, from every object as the WBS
def removeAgree (s : G) : Bool :=
  allU s (fun w => allU s (fun t =>
    decide (runW noFilt s fn_WBS_remove [refV w, refV t] = expectRemove s w t)))

example : removeAgree g1 = true := by decide +kernel
example : removeAgree g2 = true := by decide +kernel
example : removeAgree g3 = true := by decide +kernel

/-- `wbs.remove(None)` / `wbs.remove([...])`: RuntimeError (not a Task) -/
example : runW noFilt g1 fn_WBS_remove [refV 0, .atom .none] = .error .runtime := by decide +kernel
example : runW noFilt g1 fn_WBS_remove [refV 0, refs [1]] = .error .runtime := by decide +kernel
/-- the model's `wbsRemove` is `removeRec` without the flag -/
example : allU g2 (fun t => decide ((expectRemove g2 0 t).map (·.2) = (expect g2.n (wbsRemoveS g2 0 t)).map (·.2))) = true := by
  decide +kernel

-- `wbs.remove_all(...)`, the filter evaluation yielding `ts`: `forEach wbsRemove`, the value is the list of the chosen
-- tasks (`[]` when nothing is chosen)
def removeAllAgree (s : G) (w : Uid) (ts : List Uid) : Bool :=
  decide (runW (fun _ _ => ts) s fn_WBS_remove_all [refV w, .atom .none, .atom .none] =
    expectR s.n (refs ts) (forEach (fun s t => wbsRemoveS s w t) s ts))

example : removeAllAgree g1 0 [] = true := by decide +kernel
example : removeAllAgree g1 0 [2, 3] = true := by decide +kernel
example : removeAllAgree g1 0 [1, 2, 3] = true := by decide +kernel      -- 2 is gone with 1: not found, goes on
example : removeAllAgree g1 0 [9, 1] = true := by decide +kernel         -- a task of another WBS is not found
example : removeAllAgree g2 0 [4, 1, 6] = true := by decide +kernel
example : removeAllAgree g2 0 [2, 5, 3] = true := by decide +kernel
example : removeAllAgree g3 0 [1] = true := by decide +kernel            -- the cycle: RecursionError on both sides

end Check
end Pj.WbsSrc
