/-
  Lemmas/TaskSrcCheckE.lean — stage 1 of the translated tie for task.py: a few more kernel-checked runs on a graph
  with several objects sharing an id, chosen so that the semantic mutations of the negative check (end of
  Lemmas/TaskSrcD.lean) that compare ids where the source compares identities change the outcome.
-/
import PjVerif.Lemmas.TaskSrcCheckB
import PjVerif.Lemmas.TaskSrcCheckC
import PjVerif.Lemmas.TaskSrcCheckD
namespace Pj.TaskSrc
open Pj.PyLite Pj.Extracted
namespace Check

/-- detached objects: 0 ← 1, 0 ← 2 (1 and 2 share the id 7); 3 → 4, 3 → 5 (4 and 5 share the id 7);
    two trees 6 > 7 and 8 > 9 whose roots share the id 5 and whose leaves share the id 8;
    a tree 10 > (11, 12) whose two leaves share the id 3; 13 isolated -/
def g5 : G := mk [
  { tid := 1, preds := [1, 2] },
  { tid := 7, succs := [0] },
  { tid := 7, succs := [0] },
  { tid := 9, succs := [4, 5] },
  { tid := 7, preds := [3] },
  { tid := 7, preds := [3] },
  { tid := 5, children := [7] },
  { tid := 8, parent := some 6 },
  { tid := 5, children := [9] },
  { tid := 8, parent := some 8 },
  { tid := 2, children := [11, 12] },
  { tid := 3, parent := some 10 },
  { tid := 3, parent := some 10 },
  { tid := 4 }]

example : helpersAgree g5 = true := by decide +kernel
/-- `_unique_objects` removes repeated OBJECTS, not repeated ids: 2 is found among the predecessors of 0 -/
example : (setPreds g5 2 [0]).2 = some .runtime ∧ agreePreds g5 2 [0] := by decide +kernel
/-- the mirror update removes the task itself (`is not self`), not the other successor with the same id -/
example : (setPreds g5 4 []).1.succs 3 = [5] ∧ agreePreds g5 4 [] := by decide +kernel
/-- `id(self.parent) != id(parent)`: the new parent 8 is another object than the old parent 6 although the ids are
    equal, so the id check runs and finds the clash of 7 with 9 -/
example : (setParent g5 7 (some 8)).2 = some .runtime ∧ agreeParent g5 7 (some 8) := by decide +kernel
/-- two objects with one id inside the incoming subtree -/
example : (setParent g5 10 (some 13)).2 = some .runtime ∧ agreeParent g5 10 (some 13) := by decide +kernel
/-- an indirect dependency cycle -/
example : (setPreds g2 4 [6]).2 = some .runtime ∧ agreePreds g2 4 [6] := by decide +kernel
example : allU g5 (fun t => decide (agreeParent g5 t none) && decide (agreeChildren g5 t [13]) &&
    decide (agreeSuccs g5 t [13])) = true := by decide +kernel

end Check
end Pj.TaskSrc
