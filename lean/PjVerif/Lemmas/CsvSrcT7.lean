/-
  Lemmas/CsvSrcT7.lean — CSV I/O, READ side: the hierarchy `raws_to_wbs` builds, in closed form (the pure reading of the
  second loop, as `rebuildForest` describes it): `roots` = the rows without a parent among the rows, in row order; the
  `children` of a task = the rows whose parent id names it, in row order; the `parent` slot of a task.
-/
import PjVerif.Lemmas.CsvSrcT6
namespace Pj.CsvSrc
open Pj.PyLite Pj.Extracted.Csv Pj.Csv

theorem filter_ne_self (l : List Atom) (b : Atom) (h : b ∉ l) : l.filter (fun a => a != b) = l := by
  rw [List.filter_eq_self]
  intro a ha
  have : a ≠ b := fun e => h (e ▸ ha)
  simpa using this

theorem filter_snoc (l : List Atom) (b : Atom) : (l ++ [b]).filter (fun a => a != b) = l.filter (fun a => a != b) := by
  rw [List.filter_append]
  simp

theorem unlink_none (h0 : Nat → PyLite.Env) (t : Nat) (h : (h0 t).get? "parent" = some (.atom .none)) :
    unlinkH h0 t = h0 := by
  unfold unlinkH; rw [h]

theorem unlink_ref (h0 : Nat → PyLite.Env) (t o : Nat) (h : (h0 t).get? "parent" = some (.atom (.ref o))) :
    unlinkH h0 t = heapSet h0 o "children" (.list ((listSlot h0 o "children").filter (fun a => a != Atom.ref t))) := by
  unfold unlinkH; rw [h]

/-- `setParent` of a task without a parent that is in no list yet: appended to the `children` of the parent -/
theorem setParent_fresh (st : PState) (t q j : Nat) (hp : (st.heap t).get? "parent" = some (.atom .none))
    (hf : Atom.ref t ∉ kids st.heap q) :
    kids (setParent st t q).heap j = if j = q then kids st.heap q ++ [Atom.ref t] else kids st.heap j := by
  rw [setParent_kids, unlink_none _ _ hp, filter_ne_self _ _ hf]

/-- `setParent` once more: nothing changes -/
theorem setParent_again (st : PState) (t q j : Nat) (l : List Atom)
    (hp : (st.heap t).get? "parent" = some (.atom (.ref q))) (hk : kids st.heap q = l ++ [Atom.ref t])
    (hf : Atom.ref t ∉ l) : kids (setParent st t q).heap j = kids st.heap j := by
  rw [setParent_kids, unlink_ref _ _ _ hp]
  have hq : kids (heapSet st.heap q "children"
      (.list ((listSlot st.heap q "children").filter (fun a => a != Atom.ref t)))) q = l := by
    show listSlot _ q "children" = l
    rw [listSlot_heapSet_same, if_pos rfl]
    show (kids st.heap q).filter _ = l
    rw [hk, filter_snoc, filter_ne_self _ _ hf]
  by_cases hj : j = q
  · rw [if_pos hj, hq, filter_ne_self _ _ hf, hj, hk]
  · rw [if_neg hj]
    show listSlot _ j "children" = _
    rw [listSlot_heapSet_same, if_neg hj]; rfl

theorem setParent2_fresh (st : PState) (t q j : Nat) (hp : (st.heap t).get? "parent" = some (.atom .none))
    (hf : Atom.ref t ∉ kids st.heap q) :
    kids (setParent (setParent st t q) t q).heap j =
      if j = q then kids st.heap q ++ [Atom.ref t] else kids st.heap j := by
  rw [setParent_again (setParent st t q) t q j (kids st.heap q)
    (by rw [setParent_parent, if_pos rfl]) (by rw [setParent_fresh st t q q hp hf, if_pos rfl]) hf,
    setParent_fresh st t q j hp hf]

section step
variable (D : List (Atom × Atom)) (hD : ∀ k v, Dict.get? D k = some v → ∃ q, v = .ref q)
include hD

theorem step_kids_exact (t : Nat) (p : Atom) (s : PState × List Atom)
    (hp : (s.1.heap t).get? "parent" = some (.atom .none))
    (hf : ∀ q, parOf D p = some q → Atom.ref t ∉ kids s.1.heap q) (j : Nat) :
    kids (linkStep D t p s).1.heap j =
      if parOf D p = some j then kids s.1.heap j ++ [Atom.ref t] else kids s.1.heap j := by
  rw [linkStep_eq D hD]
  cases hq : parOf D p with
  | none => rw [if_neg (by simp)]
  | some q =>
    show kids (setParent (setParent s.1 t q) t q).heap j = _
    rw [setParent2_fresh s.1 t q j hp (hf q hq)]
    by_cases hj : j = q
    · rw [if_pos hj, if_pos (by rw [hj]), hj]
    · rw [if_neg hj, if_neg (fun e => hj (by injection e with e; exact e.symm))]

theorem step_roots_exact (t : Nat) (p : Atom) (s : PState × List Atom) :
    (linkStep D t p s).2 = if parOf D p = none then s.2 ++ [Atom.ref t] else s.2 := by
  rw [linkStep_eq D hD]
  cases parOf D p with
  | none => rw [if_pos rfl]
  | some q => rw [if_neg (by simp)]

theorem step_parent_other (t : Nat) (p : Atom) (s : PState × List Atom) (j : Nat) (hj : j ≠ t) :
    ((linkStep D t p s).1.heap j).get? "parent" = (s.1.heap j).get? "parent" := by
  rw [linkStep_eq D hD]
  cases parOf D p with
  | none => rfl
  | some q =>
    show ((setParent (setParent s.1 t q) t q).heap j).get? "parent" = _
    rw [setParent_parent, if_neg hj, setParent_parent, if_neg hj]

theorem step_parent_self (t : Nat) (p : Atom) (s : PState × List Atom) (q : Nat) (hq : parOf D p = some q) :
    ((linkStep D t p s).1.heap t).get? "parent" = some (.atom (.ref q)) := by
  rw [linkStep_eq D hD, hq]
  show ((setParent (setParent s.1 t q) t q).heap t).get? "parent" = _
  rw [setParent_parent, if_pos rfl]

theorem step_parent_root (t : Nat) (p : Atom) (s : PState × List Atom) (hq : parOf D p = none) :
    (linkStep D t p s).1 = s.1 := by
  rw [linkStep_eq D hD, hq]

/-- the `children` lists after the rows: the rows with that parent, in row order, appended -/
theorem fold_kids_exact (T : Nat → Prop) : ∀ (rows : List LinkRow) (s : PState × List Atom),
    rows.Pairwise (fun x y => x.t ≠ y.t) → (∀ r ∈ rows, ∀ q, parOf D r.p = some q → T q) →
    (∀ r ∈ rows, (s.1.heap r.t).get? "parent" = some (.atom .none)) →
    (∀ r ∈ rows, ∀ j, T j → Atom.ref r.t ∉ kids s.1.heap j) →
    ∀ j, kids (linkFold D rows s).1.heap j =
      kids s.1.heap j ++ (rows.filter (fun r => parOf D r.p == some j)).map (fun r => Atom.ref r.t)
  | [], _, _, _, _, _, j => by simp
  | r :: rows, s, hpw, hT, hp, hf, j => by
    rw [List.pairwise_cons] at hpw
    have hr := List.mem_cons_self (a := r) (l := rows)
    have hstep := step_kids_exact D hD r.t r.p s (hp r hr) (fun q hq => hf r hr q (hT r hr q hq))
    have ih := fold_kids_exact T rows (linkStep D r.t r.p s) hpw.2
      (fun r' hr' => hT r' (List.mem_cons_of_mem _ hr'))
      (fun r' hr' => by
        rw [step_parent_other D hD r.t r.p s r'.t (fun e => hpw.1 r' hr' e.symm)]
        exact hp r' (List.mem_cons_of_mem _ hr'))
      (fun r' hr' j' hj' hmem => by
        rw [hstep j'] at hmem
        have h0 := hf r' (List.mem_cons_of_mem _ hr') j' hj'
        by_cases hc : parOf D r.p = some j'
        · rw [if_pos hc] at hmem
          rcases List.mem_append.1 hmem with h | h
          · exact h0 h
          · have := List.mem_singleton.1 h
            injection this with e
            exact hpw.1 r' hr' e.symm
        · rw [if_neg hc] at hmem; exact h0 hmem) j
    show kids (linkFold D rows (linkStep D r.t r.p s)).1.heap j = _
    rw [ih, hstep j, List.filter_cons]
    by_cases hc : parOf D r.p = some j
    · rw [if_pos hc, if_pos (by rw [hc]; exact beq_self_eq_true _), List.map_cons, List.append_assoc]; rfl
    · have hb : (parOf D r.p == some j) = false := by
        cases hq : parOf D r.p with
        | none => rfl
        | some q =>
          have : q ≠ j := fun e => hc (by rw [hq, e])
          simp [this]
      rw [if_neg hc, hb]; rfl

/-- the list `roots` after the rows: the rows without a parent, in row order, appended -/
theorem fold_roots_exact : ∀ (rows : List LinkRow) (s : PState × List Atom),
    (linkFold D rows s).2 = s.2 ++ (rows.filter (fun r => parOf D r.p == none)).map (fun r => Atom.ref r.t)
  | [], _ => by simp
  | r :: rows, s => by
    show (linkFold D rows (linkStep D r.t r.p s)).2 = _
    rw [fold_roots_exact rows, step_roots_exact D hD, List.filter_cons]
    cases hq : parOf D r.p with
    | none => rw [if_pos rfl]; simp
    | some q => rw [if_neg (by simp)]; rfl

theorem fold_parent_other : ∀ (rows : List LinkRow) (s : PState × List Atom) (j : Nat), (∀ r ∈ rows, j ≠ r.t) →
    ((linkFold D rows s).1.heap j).get? "parent" = (s.1.heap j).get? "parent"
  | [], _, _, _ => rfl
  | r :: rows, s, j, h => (fold_parent_other rows _ j (fun r' hr' => h r' (List.mem_cons_of_mem _ hr'))).trans
      (step_parent_other D hD r.t r.p s j (h r (List.mem_cons_self ..)))

/-- the `parent` slot of the task of a row after the rows -/
theorem fold_parent : ∀ (rows : List LinkRow) (s : PState × List Atom), rows.Pairwise (fun x y => x.t ≠ y.t) →
    ∀ r ∈ rows, ((linkFold D rows s).1.heap r.t).get? "parent" =
      match parOf D r.p with
      | some q => some (.atom (.ref q))
      | none => (s.1.heap r.t).get? "parent"
  | [], _, _, r, h => by cases h
  | r0 :: rows, s, hpw, r, h => by
    rw [List.pairwise_cons] at hpw
    rcases List.mem_cons.1 h with rfl | h
    · show ((linkFold D rows (linkStep D r.t r.p s)).1.heap r.t).get? "parent" = _
      rw [fold_parent_other D hD rows _ r.t (fun r' hr' => hpw.1 r' hr')]
      cases hq : parOf D r.p with
      | none => rw [step_parent_root D hD r.t r.p s hq]
      | some q => exact step_parent_self D hD r.t r.p s q hq
    · show ((linkFold D rows (linkStep D r0.t r0.p s)).1.heap r.t).get? "parent" = _
      rw [fold_parent rows _ hpw.2 r h]
      cases parOf D r.p with
      | none => exact step_parent_other D hD r0.t r0.p s r.t (fun e => hpw.1 r h e.symm)
      | some q => rfl

end step

/-! ### the store `raws_to_wbs` builds -/

section tree
variable (st : PState) (os : List Nat)

theorem tasksSt_kids (x : LinkRow) (hx : x ∈ linkRows st.heap st.reads os) : kids (tasksSt st os).heap x.t = [] := by
  unfold kids listSlot
  rw [tasksSt_at st os x hx, mkTask_get _ "children" (.list []) (by simp [taskEnvOf, envGet_cons])]

/-- `roots`: the rows whose parent id is None or names no row, in row order -/
theorem linked_roots : (linked st os).2 =
    ((linkRows st.heap st.reads os).filter (fun r => parOf (idDict st os) r.p == none)).map (fun r => Atom.ref r.t) := by
  unfold linked
  rw [fold_roots_exact (idDict st os) (idDict_refs st os)]; rfl

/-- the `children` of the task of a row: the rows whose parent id names it, in row order -/
theorem linked_kids (x : LinkRow) (hx : x ∈ linkRows st.heap st.reads os) :
    kids (linked st os).1.heap x.t =
      ((linkRows st.heap st.reads os).filter (fun r => parOf (idDict st os) r.p == some x.t)).map
        (fun r => Atom.ref r.t) := by
  unfold linked
  rw [fold_kids_exact (idDict st os) (idDict_refs st os) (fun j => ∃ y ∈ linkRows st.heap st.reads os, y.t = j) _ _
    (linkRows_pairwise _ _ _) (fun r _ q hq => idDict_rows st os _ _ (parOf_some hq))
    (fun r hr => by rw [tasksSt_at st os r hr]; exact mkTask_parent _)
    (fun r _ j hj => by
      obtain ⟨y, hy, rfl⟩ := hj
      rw [tasksSt_kids st os y hy]; exact List.not_mem_nil),
    tasksSt_kids st os x hx]
  rfl

/-- the `parent` slot of the task of a row -/
theorem linked_parent (x : LinkRow) (hx : x ∈ linkRows st.heap st.reads os) :
    ((linked st os).1.heap x.t).get? "parent" =
      some (.atom (match parOf (idDict st os) x.p with | some q => .ref q | none => .none)) := by
  unfold linked
  rw [fold_parent (idDict st os) (idDict_refs st os) _ _ (linkRows_pairwise _ _ _) x hx]
  cases parOf (idDict st os) x.p with
  | none => show ((tasksSt st os).heap x.t).get? "parent" = _; rw [tasksSt_at st os x hx]; exact mkTask_parent _
  | some q => rfl

end tree

end Pj.CsvSrc
