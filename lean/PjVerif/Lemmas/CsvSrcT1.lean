/-
  Lemmas/CsvSrcT1.lean — CSV I/O, READ side, `raws_to_wbs`: `wbs = WBS()` and the `roots` loop (`wbs.roots.append(r)`).
-/
import PjVerif.Lemmas.CsvSrcS4
namespace Pj.CsvSrc
open Pj.PyLite Pj.Extracted.Csv Pj.Csv

/-- a fresh `WBS()` -/
def wbsEnv (rs : List Atom) : PyLite.Env := [("__wbs__", .atom (.bool true)), ("roots", .list rs)]

theorem ioFn_wbs (L : IOLib) (st : PState) : ioFn L 102 [] st = .ok (.atom (.ref st.reads), allocSt st (wbsEnv [])) := by
  unfold ioFn
  rw [if_neg (by decide), if_neg (by decide), if_pos rfl]
  rfl

theorem ioFn_add_root (L : IOLib) (st : PState) (w t : Nat) :
    ioFn L 106 [.atom (.ref w), .atom (.ref t)] st =
      .ok (.atom .none, { st with heap := heapSet st.heap w "roots" (.list (listSlot st.heap w "roots" ++ [Atom.ref t])) }) := by
  unfold ioFn
  rw [if_neg (by decide), if_neg (by decide), if_neg (by decide), if_neg (by decide), if_neg (by decide),
    if_neg (by decide), if_pos rfl]
  rfl

/-- `wbs.roots.append(t)` on the store -/
def addRoot (w : Nat) (st : PState) (t : Atom) : PState :=
  { st with heap := heapSet st.heap w "roots" (.list (listSlot st.heap w "roots" ++ [t])) }

def wbsAssign : Stmt := .assign "wbs" (.callFn 102 .listNil)

theorem exec_wbsAssign (L : IOLib) (F : Nat) (rec) (env : PyLite.Env) (st : PState) :
    wbsAssign.execP (HH L (F + 1)) [] rec env st =
      .normal (env.set "wbs" (.atom (.ref st.reads))) (allocSt st (wbsEnv [])) :=
  exec_assign ((eval_callFn evalArgs_nil).trans ((HH_fnV_lib L F 102 _ _ rfl).trans (ioFn_wbs L st)))

def rootBody : List Stmt := [.expr (.callFn 106 (.listCons (.var "wbs") (.listCons (.var "r") .listNil)))]

theorem root_body (L : IOLib) (F : Nat) (rec) (env : PyLite.Env) (st : PState) (w t : Nat)
    (hw : env.get? "wbs" = some (.atom (.ref w))) (hr : env.get? "r" = some (.atom (.ref t))) :
    execBlockP (HH L (F + 1)) [] rec rootBody env st = .normal env (addRoot w st (.ref t)) := by
  unfold rootBody
  rw [block_cons_normal (exec_expr (v := .atom .none) ((eval_callFn (evalArgs_cons (eval_var hw)
    (evalArgs_cons (eval_var hr) evalArgs_nil))).trans ((HH_fnV_lib L F 106 _ _ rfl).trans (ioFn_add_root L st w t))))]
  rfl

/-- the `roots` loop: `addRoot` for every root, in order -/
theorem root_loop (L : IOLib) (F : Nat) (rec) (w : Nat) :
    ∀ (ts : List Nat) (env : PyLite.Env) (st : PState), env.get? "wbs" = some (.atom (.ref w)) →
      ∃ env', forLoopP "r" (fun e s => execBlockP (HH L (F + 1)) [] rec rootBody e s) (ts.map Atom.ref) env st =
          .normal env' ((ts.map Atom.ref).foldl (addRoot w) st) ∧ Frame ["r"] env env'
  | [], env, st, _ => ⟨env, rfl, Frame.refl _ _⟩
  | t :: ts, env, st, hw => by
    have hb := root_body L F rec (env.set "r" (.atom (.ref t))) st w t
      (by rw [envGet_set, if_neg (by decide)]; exact hw) (by rw [envGet_set, if_pos rfl])
    obtain ⟨env', h1, h2⟩ := root_loop L F rec w ts (env.set "r" (.atom (.ref t))) (addRoot w st (.ref t))
      (by rw [envGet_set, if_neg (by decide)]; exact hw)
    refine ⟨env', ?_, (Frame.set env "r" _ (by simp)).trans h2⟩
    rw [List.map_cons, forLoopP, hb]
    dsimp only
    rw [h1]; rfl

/-! ### the store after the `roots` loop -/

theorem addRoot_other (w : Nat) (st : PState) (t : Atom) (j : Nat) (hj : j ≠ w) : (addRoot w st t).heap j = st.heap j :=
  heapSet_other _ _ _ _ _ hj

theorem addRoot_reads (w : Nat) (st : PState) (t : Atom) : (addRoot w st t).reads = st.reads := rfl

theorem addRoot_wbs (w : Nat) (st : PState) (t : Atom) (rs : List Atom) (h : st.heap w = wbsEnv rs) :
    (addRoot w st t).heap w = wbsEnv (rs ++ [t]) := by
  simp only [addRoot, heapSet, if_true, listSlot, h]
  rfl

theorem addRoots_other (w : Nat) (j : Nat) (hj : j ≠ w) : ∀ (ts : List Atom) (st : PState),
    (ts.foldl (addRoot w) st).heap j = st.heap j
  | [], _ => rfl
  | t :: ts, st => by rw [List.foldl_cons, addRoots_other w j hj ts, addRoot_other w st t j hj]

theorem addRoots_reads (w : Nat) : ∀ (ts : List Atom) (st : PState), (ts.foldl (addRoot w) st).reads = st.reads
  | [], _ => rfl
  | t :: ts, st => by rw [List.foldl_cons, addRoots_reads w ts]; rfl

theorem addRoots_wbs (w : Nat) : ∀ (ts : List Atom) (st : PState) (rs : List Atom), st.heap w = wbsEnv rs →
    (ts.foldl (addRoot w) st).heap w = wbsEnv (rs ++ ts)
  | [], _, rs, h => by simpa using h
  | t :: ts, st, rs, h => by
    rw [List.foldl_cons, addRoots_wbs w ts _ _ (addRoot_wbs w st t rs h), List.append_assoc]; rfl

end Pj.CsvSrc
