/-
  Lemmas/DhtmlxSrcCheckB.lean — stage 1, continued: kernel-checked FAMILIES of runs of the translated `DhtmlxGantt.__data`
  against Model/Render.lean: the progress over a grid of (estimate, spent, end), every shape of a WBS of three tasks with
  every choice of one predecessor.  The summary and the NEGATIVE CHECK are the comment block at the end of this file.
-/
import PjVerif.Lemmas.DhtmlxSrcCheck
namespace Pj.DhtmlxSrc
open Pj.PyLite Pj.Render Pj.Extracted.Dhtmlx
open Pj.PrintSrc (Lib cLib enc dec)
namespace Check

def agrees (V : View) (w : Nat → RTask) (c : PDict) : Bool :=
  decide (interpOut S V w FC c = .ok (some (expData S V w c, expLinks S V w)))

/-! ### progress: one task, estimate × spent × end (the clock reads 100) -/

def one (est : Rat) (sp : Option Rat) (e : Time) : Nat → RTask := fun _ =>
  { id := 9, name := "T".toList, milestone := false, start := 50, end_ := e, resource := none, estimate := est, spent := sp,
    parent := none, children := [], preds := [], dict := [] }

def Vone : View := { roots := [0], tasks := [0], n := 1, now := 100, fmt := cLib.fmt, alloc := 10 }

def ests : List Rat := [0, 5, 1/2, -2]
def spents : List (Option Rat) := [none, some 0, some 3, some 5, some 9, some (1/4)]
def ends : List Time := [99, 100, 101]

example : (ests.all (fun est => spents.all (fun sp => ends.all (fun e => agrees Vone (one est sp e) [])))) = true := by
  decide +kernel

/-- the model's progress on the grid lies in 0 … 1 (ends 101: not past) -/
example : (ests.map (fun est => spents.map (fun sp => progressOf (toDTask Vone (one est sp 101 0))))) =
    [[0, 0, 0, 0, 0, 0], [0, 0, 3/5, 1, 1, 1/20], [0, 0, 1, 1, 1, 1/2], [0, 0, 0, 0, 0, 0]] := by decide +kernel
example : (spents.all (fun sp => progressOf (toDTask Vone (one 5 sp 99 0)) == 1)) = true := by decide +kernel

/-! ### shapes: three tasks 0 1 2 (+ 3 outside), every forest, every single predecessor link -/

def shape (par : Nat → Option Nat) (from_ to : Nat) : Nat → RTask := fun u =>
  { id := (u : Int) + 10, name := "T".toList, milestone := u == 1, start := 110, end_ := 120, resource := none,
    estimate := 4, spent := some 1, parent := par u,
    children := (List.range 3).filter (fun c => par c == some u),
    preds := if u = to then [from_] else [], dict := [] }

def pre (par : Nat → Option Nat) : Nat → Nat → List Nat
  | 0, _ => []
  | f + 1, t => (((List.range 3).filter (fun c => par c == some t)).map (fun c => c :: pre par f c)).flatten

def Vshape (par : Nat → Option Nat) : View :=
  let roots := (List.range 3).filter (fun c => par c == none)
  { roots := roots, tasks := (roots.map (fun r => r :: pre par 4 r)).flatten, n := 3, now := 100, fmt := cLib.fmt, alloc := 10 }

/-- the forests on {0, 1, 2} (parent of every node) -/
def forests : List (Nat → Option Nat) :=
  [fun _ => none,
   fun u => if u = 1 then some 0 else none, fun u => if u = 2 then some 0 else none, fun u => if u = 2 then some 1 else none,
   fun u => if u = 0 then some 1 else none, fun u => if u = 0 then some 2 else none, fun u => if u = 1 then some 2 else none,
   fun u => if u = 0 then none else some 0, fun u => if u = 1 then none else some 1, fun u => if u = 2 then none else some 2,
   fun u => if u = 1 then some 0 else if u = 2 then some 1 else none,
   fun u => if u = 2 then some 0 else if u = 1 then some 2 else none,
   fun u => if u = 0 then some 1 else if u = 2 then some 0 else none,
   fun u => if u = 2 then some 1 else if u = 0 then some 2 else none,
   fun u => if u = 0 then some 2 else if u = 1 then some 0 else none,
   fun u => if u = 1 then some 2 else if u = 0 then some 1 else none]

example : ((forests.take 6).all (fun par => (List.range 4).all (fun a => (List.range 3).all (fun b =>
    agrees (Vshape par) (shape par a b) [])))) = true := by decide +kernel
example : (((forests.drop 6).take 5).all (fun par => (List.range 4).all (fun a => (List.range 3).all (fun b =>
    agrees (Vshape par) (shape par a b) [])))) = true := by decide +kernel
example : ((forests.drop 11).all (fun par => (List.range 4).all (fun a => (List.range 3).all (fun b =>
    agrees (Vshape par) (shape par a b) [])))) = true := by decide +kernel

end Check
end Pj.DhtmlxSrc

/-
  SUMMARY.  Stage 1 is done: the translator (tools/extract_dhtmlx.py, key `dhtmlx_src` of tools/extract.py), the generated
  program (Extracted/DhtmlxSrc.lean: `src_data` = `DhtmlxGantt.__data` up to `json.dumps`, `src_cell_init` synthetic), the
  entry point `interpData` / `interpOut` and, checked by the kernel (`decide +kernel`), on the WBS `w1` of DhtmlxSrcCheck.lean
  (nested tasks, a milestone, spent above the estimate, no estimate, an ended task, a predecessor outside the WBS, a
  predecessor emitted after its successor, a doubled predecessor, a parent outside the WBS, a css class, the user attributes
  `text` / `progress` / `type` / `open` that do not replace the computed values, `note` / `color` / `gantt_open` carried as
  text, a private `_Task__x` dropped), on its sub-plan, on the empty WBS, on the grid estimate × spent × end of this file and
  on every forest of three tasks with every single predecessor link:

      interpOut S V w FC tc = .ok (some (expData S V w tc, expLinks S V w))

  i.e. the list `data` is, entry by entry in the model's order (`dhtmlxOrder`), the dict whose `id, text, type, start_date,
  end_date, parent, progress` are those of the model's `dhtmlxData` (`entryDict`), and the list `links` is the model's
  `dhtmlxLinks` (`linkDict`: ids 1, 2, 3, …, `type` '0').  NO DISAGREEMENT between Model/Render.lean and the source was found.
  Stage 2 (the general theorems) is NOT done.
  Remarks.  The source has no `project` type (the type is `milestone` / `task`) and the progress is 1 for a task that ended
  before now, else `1 - max(estimate - spent, 0) / estimate` for a positive estimate and a spent that is not None, else 0 - as
  in the model.  `datetime.now()` reads the same on every call (the model's `endPast` is per task anyway).

  NEGATIVE CHECK (scratch copy /tmp/leanwork3/scratch_neg: mutated copy of gantt.py → extract_dhtmlx → `lake build
  PjVerif.Lemmas.DhtmlxSrcCheck`; script scratch_neg/neg.py).
    `k not in data_val` → `k not in data`                         Miss (membership in a list local)
    links only to tasks already emitted (comprehension on `data`)  Miss (ListComp)
    `for p in t.successors`                                        Miss (attribute `successors`)
    source / target swapped                                        fails: the three runs on `w1` (DhtmlxSrcCheck 60, 61, 63)
    clamp `max(…, 0)` dropped                                      fails: 60, 61, 63 (task 3: spent 12 of 8)
    `parent` of a root 1 instead of 0                              fails: 60, 61, 63
    `parent` without `in self.wbs.tasks`                           fails: 61 (the sub-plan)
    `'project' if len(t.children) else …` before the milestone test  Miss (`len` / `children`)
    `'task' if t.milestone else 'milestone'`                       fails: 60, 61, 63 and the `type` example
    `link_id = 0` moved into the loop over the tasks               fails: 60, 61, 63
    `t.end <= datetime.now()`                                      fails: 60, 63 (task 5 ends exactly now)
    `[_root] + _root.all_children`                                 Miss (operator)
    `not k.startswith('_Task')` dropped                            fails: 60, 63 and the key list of entry 3
  Harmless rewrites that still check: `elif` written as a nested `if`; `'task' if not t.milestone else 'milestone'`; the
  two conjuncts of the guard swapped; `_root` / `link_id` renamed; `0 < t.estimate`.

  LIMITATIONS.  Concrete runs only (no theorem for all WBSs).  A dict display is translated as `x = {}; x[k] = v; …`; a dict
  that is appended to a list / a list that is a value of the final dict is held by an object of the store (`cell_init`), read
  back by `readOut`.  `t.all_children` is a primitive (= the model's `postList` over the raw children).  `__dict__` has distinct
  names.  `task_classes` is given (`__task_classes` is not translated).  `json.dumps`, `str`, `strftime` are primitives.
-/
