/- Lemmas/CloneLemmas.lean — helper lemmas for Props/C10.lean -/
import PjVerif.Spec.Clone
import PjVerif.Lemmas.GraphTasks
namespace Pj

/-! ### `seqOps` -/

theorem seqOps_cons_err (f : G → G × Option Err) (fs : List (G → G × Option Err)) (s s' : G) (e : Err)
    (h : f s = (s', some e)) : seqOps id s (f :: fs) = (s', some e) := by
  simp only [seqOps, h]

theorem seqOps_cons_ok (f : G → G × Option Err) (fs : List (G → G × Option Err)) (s s' : G)
    (h : f s = (s', none)) : seqOps id s (f :: fs) = seqOps id s' fs := by
  simp only [seqOps, h, id]

/-- an invariant of every element of the list is an invariant of the sequence -/
theorem seqOps_preserves (P : G → Prop) : ∀ (ops : List (G → G × Option Err)) (s : G),
    (∀ f ∈ ops, ∀ g, P g → P (f g).1) → P s → P (seqOps id s ops).1 := by
  intro ops
  induction ops with
  | nil => intro s _ hs; exact hs
  | cons f fs ih =>
    intro s h hs
    have h1 := h f List.mem_cons_self s hs
    rcases hfs : f s with ⟨s', e⟩
    rw [hfs] at h1
    cases e with
    | some e => rw [seqOps_cons_err f fs s s' e hfs]; exact h1
    | none =>
      rw [seqOps_cons_ok f fs s s' hfs]
      exact ih s' (fun f' hf' => h f' (List.mem_cons_of_mem _ hf')) h1

/-! ### `cloneOf` -/

theorem cloneOf_some (n : Nat) (sel : List Uid) (x c : Uid) (h : cloneOf n sel x = some c) :
    ∃ i, ∃ hi : i < sel.length, c = n + i ∧ sel[i] = x ∧ ∀ j (hj : j < i), sel[j]'(Nat.lt_trans hj hi) ≠ x := by
  unfold cloneOf at h
  split at h
  · rename_i i hidx
    obtain ⟨hi, h1, h2⟩ := List.idxOf?_eq_some_iff.mp hidx
    cases h
    exact ⟨i, hi, rfl, h1, fun j hj => h2 j hj⟩
  · cases h

theorem cloneOf_none_iff (n : Nat) (sel : List Uid) (x : Uid) : cloneOf n sel x = none ↔ x ∉ sel := by
  unfold cloneOf
  split
  · rename_i i hidx
    constructor
    · intro h; cases h
    · intro h
      obtain ⟨hi, h1, _⟩ := List.idxOf?_eq_some_iff.mp hidx
      exact absurd (h1 ▸ List.getElem_mem hi) h
  · rename_i hidx
    exact ⟨fun _ => List.idxOf?_eq_none_iff.mp hidx, fun _ => rfl⟩

theorem cloneOf_mem (n : Nat) (sel : List Uid) (x : Uid) (hx : x ∈ sel) : ∃ c, cloneOf n sel x = some c := by
  cases h : cloneOf n sel x with
  | some c => exact ⟨c, rfl⟩
  | none => exact absurd hx ((cloneOf_none_iff n sel x).mp h)

theorem getD_eq_getElem' (l : List Uid) (i : Nat) (hi : i < l.length) : l.getD i 0 = l[i] := by
  simp [List.getD, hi]

/-! ### the list of setter calls of `cloneSel` -/

def perTask (s : G) (w : Uid) (sel : List Uid) (t : Uid) : List (G → G × Option Err) :=
  match cloneOf s.n sel t with
  | none => []
  | some c =>
    [ (fun g => setParent g c ((s.pubParent t).bind (cloneOf s.n sel))),
      (fun g => setChildren g c ((s.children t).filterMap (cloneOf s.n sel))),
      (fun g => setPreds g c ((s.preds t).filterMap (linkTarget s w s.n sel))),
      (fun g => setSuccs g c ((s.succs t).filterMap (linkTarget s w s.n sel))) ]

def finalOp (s : G) (roots sel : List Uid) : G → G × Option Err :=
  fun g => setChildren g (s.n + sel.length) (roots.filterMap (cloneOf s.n sel))

def cloneOps (s : G) (w : Uid) (roots sel : List Uid) : List (G → G × Option Err) :=
  sel.flatMap (perTask s w sel) ++ [finalOp s roots sel]

theorem cloneSel_eq (s : G) (w : Uid) (roots : List Uid) (subs : List (List Uid))
    (h : roots.mapM (fun r => subtreeF s.children s.fuel r) = some subs) :
    cloneSel s w roots =
      ((seqOps id (extend s (dedupFirst subs.flatten)) (cloneOps s w roots (dedupFirst subs.flatten))).1,
       (seqOps id (extend s (dedupFirst subs.flatten)) (cloneOps s w roots (dedupFirst subs.flatten))).2,
       s.n + (dedupFirst subs.flatten).length) := by
  unfold cloneSel
  rw [h]
  rfl

theorem cloneSel_none (s : G) (w : Uid) (roots : List Uid)
    (h : roots.mapM (fun r => subtreeF s.children s.fuel r) = none) :
    cloneSel s w roots = (s, some (.crash .recursion), 0) := by
  unfold cloneSel
  rw [h]

/-! ### `extend` -/

theorem extend_tid_lt (s : G) (sel : List Uid) (u : Uid) (hu : u < s.n) : (extend s sel).tid u = s.tid u := by
  simp [extend, hu]

theorem extend_tid_clone (s : G) (sel : List Uid) (i : Nat) (hi : i < sel.length) :
    (extend s sel).tid (s.n + i) = s.tid (sel.getD i 0) := by
  have h1 : ¬ s.n + i < s.n := by omega
  simp [extend, hi, h1]

theorem extend_tid_root (s : G) (sel : List Uid) : (extend s sel).tid (s.n + sel.length) = emptyId := by
  have h1 : ¬ s.n + sel.length < s.n := by omega
  simp [extend, h1]

/-! ### classification of the setter calls -/

def IsClone (s : G) (sel : List Uid) (c : Uid) : Prop := ∃ i, i < sel.length ∧ c = s.n + i

/-- a task that does not belong to the source WBS -/
def Outside (s : G) (w : Uid) (v : Uid) : Prop := v < s.n ∧ s.owner v ≠ some w ∧ s.hidden v = false

inductive OpKind (s : G) (w : Uid) (sel : List Uid) : (G → G × Option Err) → Prop
  | par (c : Uid) (p : Option Uid) : IsClone s sel c → (∀ q, p = some q → IsClone s sel q) →
      OpKind s w sel (fun g => setParent g c p)
  | chi (c : Uid) (l : List Uid) : (IsClone s sel c ∨ c = s.n + sel.length) → (∀ v ∈ l, IsClone s sel v) →
      OpKind s w sel (fun g => setChildren g c l)
  | prd (c : Uid) (l : List Uid) : IsClone s sel c → (∀ v ∈ l, IsClone s sel v ∨ Outside s w v) →
      OpKind s w sel (fun g => setPreds g c l)
  | suc (c : Uid) (l : List Uid) : IsClone s sel c → (∀ v ∈ l, IsClone s sel v ∨ Outside s w v) →
      OpKind s w sel (fun g => setSuccs g c l)

theorem cloneOf_isClone (s : G) (sel : List Uid) (x c : Uid) (h : cloneOf s.n sel x = some c) : IsClone s sel c := by
  obtain ⟨i, hi, hc, _, _⟩ := cloneOf_some s.n sel x c h
  exact ⟨i, hi, hc⟩

theorem filterMap_cloneOf_isClone (s : G) (sel l : List Uid) :
    ∀ v ∈ l.filterMap (cloneOf s.n sel), IsClone s sel v := by
  intro v hv
  obtain ⟨a, _, ha⟩ := List.mem_filterMap.mp hv
  exact cloneOf_isClone s sel a v ha

theorem linkTarget_kind (s : G) (w : Uid) (sel : List Uid) (x v : Uid) (hx : x < s.n ∧ s.hidden x = false)
    (h : linkTarget s w s.n sel x = some v) : IsClone s sel v ∨ Outside s w v := by
  unfold linkTarget at h
  split at h
  · exact Or.inl (cloneOf_isClone s sel x v h)
  · rename_i hne
    cases h
    exact Or.inr ⟨hx.1, hne, hx.2⟩

theorem cloneOps_kind (s : G) (w : Uid) (roots sel : List Uid) (hi : Inv s) :
    ∀ f ∈ cloneOps s w roots sel, OpKind s w sel f := by
  intro f hf
  unfold cloneOps at hf
  rcases List.mem_append.mp hf with hf | hf
  · obtain ⟨t, _, hft⟩ := List.mem_flatMap.mp hf
    unfold perTask at hft
    split at hft
    · cases hft
    · rename_i c hc
      have hcl := cloneOf_isClone s sel t c hc
      simp only [List.mem_cons, List.not_mem_nil, or_false] at hft
      rcases hft with rfl | rfl | rfl | rfl
      · refine OpKind.par c _ hcl ?_
        intro q hq
        obtain ⟨a, _, ha⟩ := Option.bind_eq_some_iff.mp hq
        exact cloneOf_isClone s sel a q ha
      · exact OpKind.chi c _ (Or.inl hcl) (filterMap_cloneOf_isClone s sel _)
      · refine OpKind.prd c _ hcl ?_
        intro v hv
        obtain ⟨a, ha, hav⟩ := List.mem_filterMap.mp hv
        have := preds_ok s hi t a ha
        exact linkTarget_kind s w sel a v ⟨this.2, this.1⟩ hav
      · refine OpKind.suc c _ hcl ?_
        intro v hv
        obtain ⟨a, ha, hav⟩ := List.mem_filterMap.mp hv
        have := succs_ok s hi t a ha
        exact linkTarget_kind s w sel a v ⟨this.2, this.1⟩ hav
  · simp only [List.mem_cons, List.not_mem_nil, or_false] at hf
    subst hf
    exact OpKind.chi _ _ (Or.inr rfl) (filterMap_cloneOf_isClone s sel _)

/-- every setter call keeps the universe and the ids -/
theorem cloneOps_n_tid (s : G) (w : Uid) (roots sel : List Uid) :
    ∀ f ∈ cloneOps s w roots sel, ∀ g, (f g).1.n = g.n ∧ (f g).1.tid = g.tid := by
  intro f hf g
  unfold cloneOps at hf
  rcases List.mem_append.mp hf with hf | hf
  · obtain ⟨t, _, hft⟩ := List.mem_flatMap.mp hf
    unfold perTask at hft
    split at hft
    · cases hft
    · simp only [List.mem_cons, List.not_mem_nil, or_false] at hft
      rcases hft with rfl | rfl | rfl | rfl
      · exact ⟨setParent_n _ _ _, setParent_tid _ _ _⟩
      · exact ⟨setChildren_n _ _ _, setChildren_tid _ _ _⟩
      · exact ⟨setPreds_n _ _ _, setPreds_tid _ _ _⟩
      · exact ⟨setSuccs_n _ _ _, setSuccs_tid _ _ _⟩
  · simp only [List.mem_cons, List.not_mem_nil, or_false] at hf
    subst hf
    exact ⟨setChildren_n _ _ _, setChildren_tid _ _ _⟩

theorem seqOps_n_tid (s : G) (w : Uid) (roots sel : List Uid) (s0 : G) :
    (seqOps id s0 (cloneOps s w roots sel)).1.n = s0.n ∧ (seqOps id s0 (cloneOps s w roots sel)).1.tid = s0.tid := by
  refine seqOps_preserves (fun g => g.n = s0.n ∧ g.tid = s0.tid) _ s0 ?_ ⟨rfl, rfl⟩
  intro f hf g hg
  obtain ⟨h1, h2⟩ := cloneOps_n_tid s w roots sel f hf g
  exact ⟨h1.trans hg.1, h2.trans hg.2⟩

end Pj
