/- Lemmas/CloneLemmas.lean — helper lemmas for Props/C10.lean -/
import PjVerif.Spec.Clone
import PjVerif.Lemmas.GraphTasks
namespace Pj

/-- `omega` does not look through the abbreviation `Uid := Nat` in instance arguments -/
macro "uomega" : tactic => `(tactic| ((try simp only [Uid] at *); omega))

/-! ### `seqOps` -/

theorem seqOps_cons_err (f : G → G × Option Err) (fs : List (G → G × Option Err)) (s s' : G) (e : Err)
    (h : f s = (s', some e)) : seqOps id s (f :: fs) = (s', some e) := by
  simp only [seqOps, h]

theorem seqOps_cons_ok (f : G → G × Option Err) (fs : List (G → G × Option Err)) (s s' : G)
    (h : f s = (s', none)) : seqOps id s (f :: fs) = seqOps id s' fs := by
  simp only [seqOps, h, id]

/-- an invariant of every element of the list is an invariant of the sequence -/
theorem seqOps_preserves (P : G → Prop) : ∀ (ops : List (G → G × Option Err)) (s : G),
    (∀ f ∈ ops, ∀ g, P g → P (f g).1) → P s → P (seqOps id s ops).1 := by
  intro ops
  induction ops with
  | nil => intro s _ hs; exact hs
  | cons f fs ih =>
    intro s h hs
    have h1 := h f List.mem_cons_self s hs
    rcases hfs : f s with ⟨s', e⟩
    rw [hfs] at h1
    cases e with
    | some e => rw [seqOps_cons_err f fs s s' e hfs]; exact h1
    | none =>
      rw [seqOps_cons_ok f fs s s' hfs]
      exact ih s' (fun f' hf' => h f' (List.mem_cons_of_mem _ hf')) h1

/-! ### `cloneOf` -/

theorem cloneOf_some (n : Nat) (sel : List Uid) (x c : Uid) (h : cloneOf n sel x = some c) :
    ∃ i, ∃ hi : i < sel.length, c = n + i ∧ sel[i] = x ∧ ∀ j (hj : j < i), sel[j]'(Nat.lt_trans hj hi) ≠ x := by
  unfold cloneOf at h
  split at h
  · rename_i i hidx
    obtain ⟨hi, h1, h2⟩ := List.idxOf?_eq_some_iff.mp hidx
    cases h
    exact ⟨i, hi, rfl, h1, fun j hj => h2 j hj⟩
  · cases h

theorem cloneOf_none_iff (n : Nat) (sel : List Uid) (x : Uid) : cloneOf n sel x = none ↔ x ∉ sel := by
  unfold cloneOf
  split
  · rename_i i hidx
    constructor
    · intro h; cases h
    · intro h
      obtain ⟨hi, h1, _⟩ := List.idxOf?_eq_some_iff.mp hidx
      exact absurd (h1 ▸ List.getElem_mem hi) h
  · rename_i hidx
    exact ⟨fun _ => List.idxOf?_eq_none_iff.mp hidx, fun _ => rfl⟩

theorem cloneOf_mem (n : Nat) (sel : List Uid) (x : Uid) (hx : x ∈ sel) : ∃ c, cloneOf n sel x = some c := by
  cases h : cloneOf n sel x with
  | some c => exact ⟨c, rfl⟩
  | none => exact absurd hx ((cloneOf_none_iff n sel x).mp h)

theorem getD_eq_getElem' (l : List Uid) (i : Nat) (hi : i < l.length) : l.getD i 0 = l[i] := by
  simp [List.getD, hi]

/-! ### the list of setter calls of `cloneSel` -/

def perTask (s : G) (w : Uid) (sel : List Uid) (t : Uid) : List (G → G × Option Err) :=
  match cloneOf s.n sel t with
  | none => []
  | some c =>
    [ (fun g => setParent g c ((s.pubParent t).bind (cloneOf s.n sel))),
      (fun g => setChildren g c ((s.children t).filterMap (cloneOf s.n sel))),
      (fun g => setPreds g c ((s.preds t).filterMap (linkTarget s w s.n sel))),
      (fun g => setSuccs g c ((s.succs t).filterMap (linkTarget s w s.n sel))) ]

def finalOp (s : G) (roots sel : List Uid) : G → G × Option Err :=
  fun g => setChildren g (s.n + sel.length) (roots.filterMap (cloneOf s.n sel))

def cloneOps (s : G) (w : Uid) (roots sel : List Uid) : List (G → G × Option Err) :=
  sel.flatMap (perTask s w sel) ++ [finalOp s roots sel]

theorem cloneSel_eq (s : G) (w : Uid) (roots : List Uid) (subs : List (List Uid))
    (h : roots.mapM (fun r => subtreeF s.children s.fuel r) = some subs) :
    cloneSel s w roots =
      ((seqOps id (extend s (dedupFirst subs.flatten)) (cloneOps s w roots (dedupFirst subs.flatten))).1,
       (seqOps id (extend s (dedupFirst subs.flatten)) (cloneOps s w roots (dedupFirst subs.flatten))).2,
       s.n + (dedupFirst subs.flatten).length) := by
  unfold cloneSel
  rw [h]
  rfl

theorem cloneSel_none (s : G) (w : Uid) (roots : List Uid)
    (h : roots.mapM (fun r => subtreeF s.children s.fuel r) = none) :
    cloneSel s w roots = (s, some (.crash .recursion), 0) := by
  unfold cloneSel
  rw [h]

/-! ### `extend` -/

theorem extend_tid_lt (s : G) (sel : List Uid) (u : Uid) (hu : u < s.n) : (extend s sel).tid u = s.tid u := by
  simp [extend, hu]

theorem extend_tid_clone (s : G) (sel : List Uid) (i : Nat) (hi : i < sel.length) :
    (extend s sel).tid (s.n + i) = s.tid (sel.getD i 0) := by
  have h1 : ¬ s.n + i < s.n := by omega
  simp [extend, hi, h1]

theorem extend_tid_root (s : G) (sel : List Uid) : (extend s sel).tid (s.n + sel.length) = emptyId := by
  have h1 : ¬ s.n + sel.length < s.n := by omega
  simp [extend, h1]

/-! ### classification of the setter calls -/

def IsClone (s : G) (sel : List Uid) (c : Uid) : Prop := ∃ i, i < sel.length ∧ c = s.n + i

/-- a task that does not belong to the source WBS -/
def Outside (s : G) (w : Uid) (v : Uid) : Prop := v < s.n ∧ s.owner v ≠ some w ∧ s.hidden v = false

inductive CloneOpKind (s : G) (w : Uid) (sel : List Uid) : (G → G × Option Err) → Prop
  | par (c : Uid) (p : Option Uid) : IsClone s sel c → (∀ q, p = some q → IsClone s sel q) →
      CloneOpKind s w sel (fun g => setParent g c p)
  | chi (c : Uid) (l : List Uid) : (IsClone s sel c ∨ c = s.n + sel.length) → (∀ v ∈ l, IsClone s sel v) →
      CloneOpKind s w sel (fun g => setChildren g c l)
  | prd (c : Uid) (l : List Uid) : IsClone s sel c → (∀ v ∈ l, IsClone s sel v ∨ Outside s w v) →
      CloneOpKind s w sel (fun g => setPreds g c l)
  | suc (c : Uid) (l : List Uid) : IsClone s sel c → (∀ v ∈ l, IsClone s sel v ∨ Outside s w v) →
      CloneOpKind s w sel (fun g => setSuccs g c l)

theorem cloneOf_isClone (s : G) (sel : List Uid) (x c : Uid) (h : cloneOf s.n sel x = some c) : IsClone s sel c := by
  obtain ⟨i, hi, hc, _, _⟩ := cloneOf_some s.n sel x c h
  exact ⟨i, hi, hc⟩

theorem filterMap_cloneOf_isClone (s : G) (sel l : List Uid) :
    ∀ v ∈ l.filterMap (cloneOf s.n sel), IsClone s sel v := by
  intro v hv
  obtain ⟨a, _, ha⟩ := List.mem_filterMap.mp hv
  exact cloneOf_isClone s sel a v ha

theorem linkTarget_kind (s : G) (w : Uid) (sel : List Uid) (x v : Uid) (hx : x < s.n ∧ s.hidden x = false)
    (h : linkTarget s w s.n sel x = some v) : IsClone s sel v ∨ Outside s w v := by
  unfold linkTarget at h
  split at h
  · exact Or.inl (cloneOf_isClone s sel x v h)
  · rename_i hne
    cases h
    exact Or.inr ⟨hx.1, hne, hx.2⟩

theorem cloneOps_kind (s : G) (w : Uid) (roots sel : List Uid) (hi : Inv s) :
    ∀ f ∈ cloneOps s w roots sel, CloneOpKind s w sel f := by
  intro f hf
  unfold cloneOps at hf
  rcases List.mem_append.mp hf with hf | hf
  · obtain ⟨t, _, hft⟩ := List.mem_flatMap.mp hf
    unfold perTask at hft
    split at hft
    · cases hft
    · rename_i c hc
      have hcl := cloneOf_isClone s sel t c hc
      simp only [List.mem_cons, List.not_mem_nil, or_false] at hft
      rcases hft with rfl | rfl | rfl | rfl
      · refine CloneOpKind.par c _ hcl ?_
        intro q hq
        obtain ⟨a, _, ha⟩ := Option.bind_eq_some_iff.mp hq
        exact cloneOf_isClone s sel a q ha
      · exact CloneOpKind.chi c _ (Or.inl hcl) (filterMap_cloneOf_isClone s sel _)
      · refine CloneOpKind.prd c _ hcl ?_
        intro v hv
        obtain ⟨a, ha, hav⟩ := List.mem_filterMap.mp hv
        have := preds_ok s hi t a ha
        exact linkTarget_kind s w sel a v ⟨this.2, this.1⟩ hav
      · refine CloneOpKind.suc c _ hcl ?_
        intro v hv
        obtain ⟨a, ha, hav⟩ := List.mem_filterMap.mp hv
        have := succs_ok s hi t a ha
        exact linkTarget_kind s w sel a v ⟨this.2, this.1⟩ hav
  · simp only [List.mem_cons, List.not_mem_nil, or_false] at hf
    subst hf
    exact CloneOpKind.chi _ _ (Or.inr rfl) (filterMap_cloneOf_isClone s sel _)

/-- every setter call keeps the universe and the ids -/
theorem cloneOps_n_tid (s : G) (w : Uid) (roots sel : List Uid) :
    ∀ f ∈ cloneOps s w roots sel, ∀ g, (f g).1.n = g.n ∧ (f g).1.tid = g.tid := by
  intro f hf g
  unfold cloneOps at hf
  rcases List.mem_append.mp hf with hf | hf
  · obtain ⟨t, _, hft⟩ := List.mem_flatMap.mp hf
    unfold perTask at hft
    split at hft
    · cases hft
    · simp only [List.mem_cons, List.not_mem_nil, or_false] at hft
      rcases hft with rfl | rfl | rfl | rfl
      · exact ⟨setParent_n _ _ _, setParent_tid _ _ _⟩
      · exact ⟨setChildren_n _ _ _, setChildren_tid _ _ _⟩
      · exact ⟨setPreds_n _ _ _, setPreds_tid _ _ _⟩
      · exact ⟨setSuccs_n _ _ _, setSuccs_tid _ _ _⟩
  · simp only [List.mem_cons, List.not_mem_nil, or_false] at hf
    subst hf
    exact ⟨setChildren_n _ _ _, setChildren_tid _ _ _⟩

theorem seqOps_n_tid (s : G) (w : Uid) (roots sel : List Uid) (s0 : G) :
    (seqOps id s0 (cloneOps s w roots sel)).1.n = s0.n ∧ (seqOps id s0 (cloneOps s w roots sel)).1.tid = s0.tid := by
  refine seqOps_preserves (fun g => g.n = s0.n ∧ g.tid = s0.tid) _ s0 ?_ ⟨rfl, rfl⟩
  intro f hf g hg
  obtain ⟨h1, h2⟩ := cloneOps_n_tid s w roots sel f hf g
  exact ⟨h1.trans hg.1, h2.trans hg.2⟩

/-! ### `extend` preserves the invariant -/

theorem not_hidden_of_ge (s : G) (hi : Inv s) (u : Uid) (hu : s.n ≤ u) : s.hidden u = false := by
  cases h : s.hidden u with
  | false => rfl
  | true =>
    have := (hi.bnd.owner u u (hi.own.root u h)).1
    uomega

theorem parent_none_of_ge (s : G) (hb : Bounded s) (u : Uid) (hu : s.n ≤ u) : s.parent u = none := by
  cases h : s.parent u with
  | none => rfl
  | some p => have := (hb.parent u p h).1; uomega

theorem extend_hidden_lt (s : G) (sel : List Uid) (u : Uid) (hu : u < s.n) :
    (extend s sel).hidden u = s.hidden u := by
  unfold G.hidden; rw [extend_tid_lt s sel u hu]

theorem extend_hidden_clone (s : G) (sel : List Uid) (hsel : ∀ t ∈ sel, s.hidden t = false) (i : Nat)
    (hi : i < sel.length) : (extend s sel).hidden (s.n + i) = false := by
  unfold G.hidden; rw [extend_tid_clone s sel i hi, getD_eq_getElem' sel i hi]
  exact hsel _ (List.getElem_mem hi)

theorem extend_hidden_root (s : G) (sel : List Uid) : (extend s sel).hidden (s.n + sel.length) = true := by
  unfold G.hidden; rw [extend_tid_root]; simp

theorem extend_hidden_gt (s : G) (sel : List Uid) (u : Uid) (hu : s.n + sel.length < u) :
    (extend s sel).hidden u = s.hidden u := by
  have h1 : ¬ u < s.n := by uomega
  have h2 : ¬ u < s.n + sel.length := by uomega
  have h3 : ¬ u = s.n + sel.length := by uomega
  simp [G.hidden, extend, h1, h2, h3]

/-- hidden status in the extended universe -/
theorem extend_hidden_cases (s : G) (sel : List Uid) (hi : Inv s) (hsel : ∀ t ∈ sel, s.hidden t = false) (u : Uid) :
    (u < s.n ∧ (extend s sel).hidden u = s.hidden u) ∨
    (s.n ≤ u ∧ u ≠ s.n + sel.length ∧ (extend s sel).hidden u = false) ∨
    (u = s.n + sel.length ∧ (extend s sel).hidden u = true) := by
  by_cases h1 : u < s.n
  · exact Or.inl ⟨h1, extend_hidden_lt s sel u h1⟩
  · by_cases h2 : u < s.n + sel.length
    · refine Or.inr (Or.inl ⟨by uomega, by uomega, ?_⟩)
      have : u = s.n + (u - s.n) := by uomega
      rw [this]; exact extend_hidden_clone s sel hsel _ (by uomega)
    · by_cases h3 : u = s.n + sel.length
      · exact Or.inr (Or.inr ⟨h3, h3 ▸ extend_hidden_root s sel⟩)
      · refine Or.inr (Or.inl ⟨by uomega, h3, ?_⟩)
        rw [extend_hidden_gt s sel u (by uomega)]
        exact not_hidden_of_ge s hi u (by uomega)

theorem extend_owner (s : G) (sel : List Uid) (u : Uid) :
    (extend s sel).owner u = if u = s.n + sel.length then some (s.n + sel.length) else s.owner u := rfl

theorem extend_Inv (s : G) (sel : List Uid) (hi : Inv s) (hsel : ∀ t ∈ sel, s.hidden t = false) :
    Inv (extend s sel) := by
  have hpar : par (extend s sel) = par s := rfl
  have hge : ∀ u, s.n ≤ u → s.parent u = none ∧ s.preds u = [] ∧ s.succs u = [] ∧ s.owner u = none := by
    intro u hu
    refine ⟨parent_none_of_ge s hi.bnd u hu, ?_, ?_, ?_⟩
    · cases h : s.preds u with
      | nil => rfl
      | cons a l => have := (hi.bnd.preds u a (h ▸ List.mem_cons_self)).1; uomega
    · cases h : s.succs u with
      | nil => rfl
      | cons a l => have := (hi.bnd.succs u a (h ▸ List.mem_cons_self)).1; uomega
    · cases h : s.owner u with
      | none => rfl
      | some x => have := (hi.bnd.owner u x h).1; uomega
  refine ⟨⟨hi.wf.listed, hi.wf.once, hi.wf.forest, ?_, hi.wf.sym, hi.wf.dag, hi.wf.noAncDep⟩, ⟨?_, ?_, ?_, ?_⟩, ?_, ⟨?_, ?_, ?_, ?_, ?_⟩⟩
  · -- rootsTop
    intro r hr
    show s.parent r = none ∧ s.preds r = [] ∧ s.succs r = []
    by_cases h1 : r < s.n
    · rw [extend_hidden_lt s sel r h1] at hr
      exact hi.wf.rootsTop r hr
    · obtain ⟨a, b, c, _⟩ := hge r (by uomega)
      exact ⟨a, b, c⟩
  · -- inherit
    intro t p hp
    have hp' : s.parent t = some p := hp
    obtain ⟨h1, h2⟩ := hi.bnd.parent t p hp'
    rw [extend_owner, extend_owner, if_neg (by uomega), if_neg (by uomega)]
    exact hi.own.inherit t p hp'
  · -- root
    intro r hr
    rcases extend_hidden_cases s sel hi hsel r with ⟨h1, h2⟩ | ⟨_, _, h2⟩ | ⟨h1, _⟩
    · rw [h2] at hr
      rw [extend_owner, if_neg (by uomega)]
      exact hi.own.root r hr
    · rw [h2] at hr; cases hr
    · rw [extend_owner, if_pos h1, h1]
  · -- free
    intro t hp hh
    have hp' : s.parent t = none := hp
    rcases extend_hidden_cases s sel hi hsel t with ⟨h1, h2⟩ | ⟨h1, h3, _⟩ | ⟨_, h2⟩
    · rw [h2] at hh
      rw [extend_owner, if_neg (by uomega)]
      exact hi.own.free t hp' hh
    · rw [extend_owner, if_neg h3]
      exact (hge t h1).2.2.2
    · rw [h2] at hh; cases hh
  · -- isRoot
    intro t w ho
    rw [extend_owner] at ho
    split at ho
    · cases ho; exact extend_hidden_root s sel
    · have := hi.bnd.owner t w ho
      rw [extend_hidden_lt s sel w this.2]
      exact hi.own.isRoot t w ho
  · -- UniqueIds
    intro a b hab ha hb hst
    obtain ⟨r, h1, h2⟩ := hst
    rw [hpar] at h1 h2
    have hlt : ∀ x y, x ≠ y → RTC (par s) x r → RTC (par s) y r → x < s.n := by
      intro x y hxy hx hy
      rcases hx.cases_eq_or_TC with e | e
      · subst e
        rcases hy.cases_eq_or_TC with e' | e'
        · exact absurd e'.symm hxy
        · rcases e'.tail_cases with h | ⟨z, _, h⟩
          · exact (hi.bnd.parent _ _ h).2
          · exact (hi.bnd.parent _ _ h).2
      · rcases e.head_cases with h | ⟨z, h, _⟩
        · exact (hi.bnd.parent _ _ h).1
        · exact (hi.bnd.parent _ _ h).1
    have ha' := hlt a b hab h1 h2
    have hb' := hlt b a (Ne.symm hab) h2 h1
    rw [extend_hidden_lt s sel a ha'] at ha
    rw [extend_hidden_lt s sel b hb'] at hb
    rw [extend_tid_lt s sel a ha', extend_tid_lt s sel b hb']
    exact hi.ids a b hab ha hb ⟨r, h1, h2⟩
  · intro u p h
    have := hi.bnd.parent u p h
    show u < s.n + sel.length + 1 ∧ p < s.n + sel.length + 1
    uomega
  · intro u c h
    have := hi.bnd.children u c h
    show u < s.n + sel.length + 1 ∧ c < s.n + sel.length + 1
    uomega
  · intro u c h
    have := hi.bnd.preds u c h
    show u < s.n + sel.length + 1 ∧ c < s.n + sel.length + 1
    uomega
  · intro u c h
    have := hi.bnd.succs u c h
    show u < s.n + sel.length + 1 ∧ c < s.n + sel.length + 1
    uomega
  · intro u x h
    show u < s.n + sel.length + 1 ∧ x < s.n + sel.length + 1
    rw [extend_owner] at h
    split at h
    · cases h; uomega
    · have := hi.bnd.owner u x h
      uomega

/-! ### every setter call preserves the invariant -/

/-- the facts carried along the sequence: invariant, universe and ids of the extended state -/
def CInv (s : G) (sel : List Uid) (g : G) : Prop :=
  Inv g ∧ g.n = s.n + sel.length + 1 ∧ g.tid = (extend s sel).tid

theorem CInv.hidden {s : G} {sel : List Uid} {g : G} (h : CInv s sel g) (u : Uid) :
    g.hidden u = (extend s sel).hidden u := hidden_of_tid _ _ h.2.2 u

theorem CInv.clone {s : G} {sel : List Uid} {g : G} (h : CInv s sel g) (hsel : ∀ t ∈ sel, s.hidden t = false)
    {c : Uid} (hc : IsClone s sel c) : g.hidden c = false ∧ c < g.n := by
  obtain ⟨i, hi, rfl⟩ := hc
  rw [h.hidden, h.2.1]
  exact ⟨extend_hidden_clone s sel hsel i hi, by uomega⟩

theorem CInv.outside {s : G} {sel : List Uid} {g : G} (h : CInv s sel g) {w v : Uid} (hv : Outside s w v) :
    g.hidden v = false ∧ v < g.n := by
  rw [h.hidden, h.2.1, extend_hidden_lt s sel v hv.1]
  exact ⟨hv.2.2, by have := hv.1; uomega⟩

theorem CloneOpKind.cinv {s : G} {w : Uid} {sel : List Uid} {f : G → G × Option Err} (k : CloneOpKind s w sel f)
    (hsel : ∀ t ∈ sel, s.hidden t = false) (g : G) (h : CInv s sel g) : CInv s sel (f g).1 := by
  cases k with
  | par c p hc hp =>
    have := h.clone hsel hc
    exact ⟨setParent_Inv g c p h.1 this.1 this.2 (fun q hq => (h.clone hsel (hp q hq)).2),
      (setParent_n _ _ _).trans h.2.1, (setParent_tid _ _ _).trans h.2.2⟩
  | chi c l hc hl =>
    have hcn : c < g.n := by
      rcases hc with hc | hc
      · exact (h.clone hsel hc).2
      · rw [h.2.1]; uomega
    exact ⟨setChildren_Inv g c l h.1 (fun v hv => (h.clone hsel (hl v hv)).1) hcn
        (fun v hv => (h.clone hsel (hl v hv)).2),
      (setChildren_n _ _ _).trans h.2.1, (setChildren_tid _ _ _).trans h.2.2⟩
  | prd c l hc hl =>
    have := h.clone hsel hc
    have hl' : ∀ v ∈ l, g.hidden v = false ∧ v < g.n := by
      intro v hv
      rcases hl v hv with hv | hv
      · exact h.clone hsel hv
      · exact h.outside hv
    exact ⟨setPreds_Inv g c l h.1 this.1 (fun v hv => (hl' v hv).1) this.2 (fun v hv => (hl' v hv).2),
      (setPreds_n _ _ _).trans h.2.1, (setPreds_tid _ _ _).trans h.2.2⟩
  | suc c l hc hl =>
    have := h.clone hsel hc
    have hl' : ∀ v ∈ l, g.hidden v = false ∧ v < g.n := by
      intro v hv
      rcases hl v hv with hv | hv
      · exact h.clone hsel hv
      · exact h.outside hv
    exact ⟨setSuccs_Inv g c l h.1 this.1 (fun v hv => (hl' v hv).1) this.2 (fun v hv => (hl' v hv).2),
      (setSuccs_n _ _ _).trans h.2.1, (setSuccs_tid _ _ _).trans h.2.2⟩

theorem CInv.extend (s : G) (sel : List Uid) (hi : Inv s) (hsel : ∀ t ∈ sel, s.hidden t = false) :
    CInv s sel (extend s sel) := ⟨extend_Inv s sel hi hsel, rfl, rfl⟩

/-! ### the selection -/

/-- the selected tasks are the roots and everything below them -/
theorem mem_sel_iff (s : G) (hw : WF s) (roots : List Uid) (subs : List (List Uid))
    (h : roots.mapM (fun r => subtreeF s.children s.fuel r) = some subs) (x : Uid) :
    x ∈ dedupFirst subs.flatten ↔ ∃ r ∈ roots, RTC (par s) x r := by
  unfold dedupFirst
  rw [List.mem_eraseDups]
  exact subtreeF_flatten_mem s hw.listed s.fuel roots subs h x

theorem sel_visible (s : G) (w : Uid) (hi : Inv s) (roots : List Uid) (subs : List (List Uid))
    (h : roots.mapM (fun r => subtreeF s.children s.fuel r) = some subs)
    (hm : ∀ r ∈ roots, s.owner r = some w ∧ s.hidden r = false) :
    ∀ t ∈ dedupFirst subs.flatten, s.hidden t = false := by
  intro t ht
  obtain ⟨r, hr, hx⟩ := (mem_sel_iff s hi.wf roots subs h t).mp ht
  exact below_not_hidden s hi.wf (hm r hr).2 hx

theorem cloneSel_CInv (s : G) (w : Uid) (roots : List Uid) (subs : List (List Uid)) (hi : Inv s)
    (h : roots.mapM (fun r => subtreeF s.children s.fuel r) = some subs)
    (hm : ∀ r ∈ roots, s.owner r = some w ∧ s.hidden r = false) :
    CInv s (dedupFirst subs.flatten) (cloneSel s w roots).1 := by
  rw [cloneSel_eq s w roots subs h]
  have hsel := sel_visible s w hi roots subs h hm
  refine seqOps_preserves (CInv s (dedupFirst subs.flatten)) _ _ ?_ (CInv.extend s _ hi hsel)
  intro f hf g hg
  exact (cloneOps_kind s w roots _ hi f hf).cinv hsel g hg

theorem cloneSel_Inv (s : G) (w : Uid) (roots : List Uid) (hi : Inv s)
    (hm : ∀ r ∈ roots, s.owner r = some w ∧ s.hidden r = false) : Inv (cloneSel s w roots).1 := by
  cases h : roots.mapM (fun r => subtreeF s.children s.fuel r) with
  | none => rw [cloneSel_none s w roots h]; exact hi
  | some subs => exact (cloneSel_CInv s w roots subs hi h hm).1

/-! ### frame: what the setter calls cannot touch

  All hierarchy arguments of the calls are fresh uids (`≥ N`, with `N` the size of the source universe).  The fresh
  part of the state is closed under parent, children and owner, so no hierarchy field of an old uid changes. -/

structure HFrame (N : Nat) (s g : G) : Prop where
  parent : ∀ u, u < N → g.parent u = s.parent u
  children : ∀ u, u < N → g.children u = s.children u
  owner : ∀ u, u < N → g.owner u = s.owner u
  parentUp : ∀ u p, N ≤ u → g.parent u = some p → N ≤ p
  childDown : ∀ u x, N ≤ u → x ∈ g.children u → N ≤ x
  ownerUp : ∀ u x, N ≤ u → g.owner u = some x → N ≤ x

theorem setParentSome_cases (g : G) (c q : Uid) :
    setParentSome g c q = (g, (setParentSome g c q).2) ∨
    ∃ sub, subtreeF g.children g.fuel c = some sub ∧
      setParentSome g c q = (appStep (ownStep (parStep (detachOld g c) c q) sub q) c q, none) := by
  unfold setParentSome
  split
  · exact Or.inl rfl
  · rw [mutParentSome_eq]
    split
    · exact Or.inl rfl
    · rename_i sub hsub
      exact Or.inr ⟨sub, hsub, rfl⟩

theorem detachOld_children_other (g : G) (c u : Uid) (h : g.parent c ≠ some u) :
    (detachOld g c).children u = g.children u := by
  unfold detachOld
  split
  · rename_i q hq
    split
    · have : u ≠ q := fun e => h (e ▸ hq)
      simp [this]
    · rfl
  · rfl

theorem detachOld_children_sub (g : G) (c u x : Uid) (h : x ∈ (detachOld g c).children u) : x ∈ g.children u := by
  unfold detachOld at h
  split at h
  · rename_i q hq
    split at h
    · by_cases e : u = q
      · subst e
        simp only [upd_same] at h
        exact List.mem_of_mem_erase h
      · simpa [e] using h
    · exact h
  · exact h

theorem appStep_children_other (s3 : G) (t p u : Uid) (h : u ≠ p) : (appStep s3 t p).children u = s3.children u := by
  unfold appStep
  split
  · rfl
  · simp [h]

theorem TC_closed (next : Uid → List Uid) (P : Uid → Prop) (hP : ∀ a b, P a → b ∈ next a → P b) {c x : Uid}
    (h : TC (fun a b => b ∈ next a) c x) (hc : P c) : P x := by
  induction h with
  | single h => exact hP _ _ hc h
  | tail _ h ih => exact hP _ _ ih h

theorem subtreeF_closed (next : Uid → List Uid) (P : Uid → Prop) (hP : ∀ a b, P a → b ∈ next a → P b)
    (f : Nat) (c : Uid) (sub : List Uid) (h : subtreeF next f c = some sub) (hc : P c) : ∀ x ∈ sub, P x := by
  simp only [subtreeF, Option.map_eq_some_iff] at h
  obtain ⟨d, hd, rfl⟩ := h
  intro x hx
  rcases List.mem_cons.mp hx with rfl | hx
  · exact hc
  · exact TC_closed next P hP (descF_sound next f c d hd x hx) hc

theorem HFrame.setParentSome {N : Nat} {s g : G} (hf : HFrame N s g) (c q : Uid) (hc : N ≤ c) (hq : N ≤ q) :
    HFrame N s (setParentSome g c q).1 := by
  rcases setParentSome_cases g c q with h | ⟨sub, hsub, h⟩
  · rw [h]; exact hf
  · rw [h]
    have hsubN : ∀ x ∈ sub, N ≤ x :=
      subtreeF_closed g.children (fun x => N ≤ x) (fun a b ha hb => hf.childDown a b ha hb) _ c sub hsub hc
    have hpar : (appStep (ownStep (parStep (detachOld g c) c q) sub q) c q).parent = upd g.parent c (some q) := by
      rw [(appStep_fields _ _ _).1, (ownStep_fields _ _ _).1, (parStep_fields _ _ _).1, (detachOld_fields g c).1]
    have hown : ∀ x, (appStep (ownStep (parStep (detachOld g c) c q) sub q) c q).owner x =
        match g.owner q with
        | none => g.owner x
        | some w => if sub.contains x then some w else g.owner x := by
      intro x
      rw [appStep_owner, ownStep_owner]
      have hbase : (parStep (detachOld g c) c q).owner = g.owner := (detachOld_fields g c).2.2.2.2
      rw [hbase]
      rfl
    have hch : ∀ u x, x ∈ (appStep (ownStep (parStep (detachOld g c) c q) sub q) c q).children u →
        x ∈ g.children u ∨ (x = c ∧ u = q) := by
      intro u x hx
      rcases (mem_appStep _ _ _ _ _).mp hx with hx | hx
      · rw [(ownStep_fields _ _ _).2.1, (parStep_fields _ _ _).2.1] at hx
        exact Or.inl (detachOld_children_sub g c u x hx)
      · exact Or.inr hx
    refine ⟨?_, ?_, ?_, ?_, ?_, ?_⟩
    · intro u hu
      rw [hpar, upd_other _ _ _ _ (by uomega)]
      exact hf.parent u hu
    · intro u hu
      rw [appStep_children_other _ _ _ _ (by uomega), (ownStep_fields _ _ _).2.1, (parStep_fields _ _ _).2.1,
        detachOld_children_other g c u]
      · exact hf.children u hu
      · intro hp
        have := hf.parentUp c u hc hp
        uomega
    · intro u hu
      rw [hown]
      split
      · exact hf.owner u hu
      · have : sub.contains u = false := by
          cases hcu : sub.contains u with
          | false => rfl
          | true =>
            have := hsubN u (by simpa using hcu)
            uomega
        rw [this]
        exact hf.owner u hu
    · intro u p hu hp
      rw [hpar] at hp
      by_cases e : u = c
      · subst e
        rw [upd_same] at hp
        cases hp; exact hq
      · rw [upd_other _ _ _ _ e] at hp
        exact hf.parentUp u p hu hp
    · intro u x hu hx
      rcases hch u x hx with hx | ⟨rfl, _⟩
      · exact hf.childDown u x hu hx
      · exact hc
    · intro u x hu hx
      rw [hown] at hx
      split at hx
      · exact hf.ownerUp u x hu hx
      · rename_i w' hw'
        split at hx
        · cases hx; exact hf.ownerUp q _ hq hw'
        · exact hf.ownerUp u x hu hx

theorem HFrame.setParentNone {N : Nat} {s g : G} (hf : HFrame N s g) (c : Uid) (hc : N ≤ c) :
    HFrame N s (setParentNone g c).1 := by
  unfold Pj.setParentNone
  split
  · rename_i w' hw'
    exact hf.setParentSome c w' hc (hf.ownerUp c w' hc hw')
  · refine ⟨?_, ?_, ?_, ?_, ?_, ?_⟩
    · intro u hu
      show upd (detachOld g c).parent c none u = _
      rw [upd_other _ _ _ _ (by uomega), (detachOld_fields g c).1]
      exact hf.parent u hu
    · intro u hu
      show (detachOld g c).children u = _
      rw [detachOld_children_other g c u]
      · exact hf.children u hu
      · intro hp
        have := hf.parentUp c u hc hp
        uomega
    · intro u hu
      show (detachOld g c).owner u = _
      rw [(detachOld_fields g c).2.2.2.2]
      exact hf.owner u hu
    · intro u p hu hp
      have hp' : upd (detachOld g c).parent c none u = some p := hp
      by_cases e : u = c
      · subst e; rw [upd_same] at hp'; cases hp'
      · rw [upd_other _ _ _ _ e, (detachOld_fields g c).1] at hp'
        exact hf.parentUp u p hu hp'
    · intro u x hu hx
      exact hf.childDown u x hu (detachOld_children_sub g c u x hx)
    · intro u x hu hx
      have hx' : (detachOld g c).owner u = some x := hx
      rw [(detachOld_fields g c).2.2.2.2] at hx'
      exact hf.ownerUp u x hu hx'

theorem HFrame.setParent {N : Nat} {s g : G} (hf : HFrame N s g) (c : Uid) (p : Option Uid) (hc : N ≤ c)
    (hp : ∀ q, p = some q → N ≤ q) : HFrame N s (setParent g c p).1 := by
  unfold Pj.setParent
  cases p with
  | none => exact hf.setParentNone c hc
  | some q => exact hf.setParentSome c q hc (hp q rfl)

theorem HFrame.foldSetParent {N : Nat} {s : G} (h : Uid) (hh : N ≤ h) :
    ∀ (l : List Uid) (g : G), HFrame N s g → (∀ v ∈ l, N ≤ v) → HFrame N s (foldSetParent g l h).1 := by
  intro l
  induction l with
  | nil => intro g hf _; exact hf
  | cons v vs ih =>
    intro g hf hl
    have h1 := hf.setParent v (some h) (hl v List.mem_cons_self) (fun q hq => by cases hq; exact hh)
    unfold Pj.foldSetParent
    rcases hsp : Pj.setParent g v (some h) with ⟨g', e⟩
    rw [hsp] at h1
    cases e with
    | some e => exact h1
    | none => exact ih g' h1 (fun v' hv' => hl v' (List.mem_cons_of_mem _ hv'))

theorem releaseChildren_cases (g : G) (h : Uid) (l : List Uid) :
    releaseChildren g h l = (g, some (.crash .recursion)) ∨
    ∃ subs, ((g.children h).filter (fun v => !l.contains v)).mapM (subtreeF g.children g.fuel) = some subs ∧
      releaseChildren g h l =
        (⟨g.n, g.tid, fun x => if (g.children h).contains x then none else g.parent x, upd g.children h [],
          g.preds, g.succs, fun x => if subs.flatten.contains x then none else g.owner x⟩, none) := by
  cases hm : ((g.children h).filter (fun v => !l.contains v)).mapM (subtreeF g.children g.fuel) with
  | none =>
    left
    unfold releaseChildren
    simp only [hm]
  | some subs =>
    right
    refine ⟨subs, rfl, ?_⟩
    unfold releaseChildren
    simp only [hm]
    rfl

theorem HFrame.releaseChildren {N : Nat} {s g : G} (hf : HFrame N s g) (h : Uid) (l : List Uid) (hh : N ≤ h) :
    HFrame N s (releaseChildren g h l).1 := by
  rcases releaseChildren_cases g h l with he | ⟨subs, hsubs, he⟩
  · rw [he]; exact hf
  · rw [he]
    have hold : ∀ x, (g.children h).contains x = true → N ≤ x := by
      intro x hx
      exact hf.childDown h x hh (by simpa using hx)
    have hsubN : ∀ x, subs.flatten.contains x = true → N ≤ x := by
      intro x hx
      have hx' : x ∈ subs.flatten := by simpa using hx
      obtain ⟨sub, hsub, hxs⟩ := List.mem_flatten.mp hx'
      obtain ⟨v, hv, hvs⟩ := mapM_some_mem_inv _ _ _ hsubs sub hsub
      have hvN : N ≤ v := hf.childDown h v hh (List.mem_filter.mp hv).1
      exact subtreeF_closed g.children (fun x => N ≤ x) (fun a b ha hb => hf.childDown a b ha hb) _ v sub hvs hvN x hxs
    refine ⟨?_, ?_, ?_, ?_, ?_, ?_⟩
    · intro u hu
      show (if (g.children h).contains u then none else g.parent u) = _
      have : (g.children h).contains u = false := by
        cases hcu : (g.children h).contains u with
        | false => rfl
        | true => have := hold u hcu; uomega
      rw [this]
      exact hf.parent u hu
    · intro u hu
      show upd g.children h [] u = _
      rw [upd_other _ _ _ _ (by uomega)]
      exact hf.children u hu
    · intro u hu
      show (if subs.flatten.contains u then none else g.owner u) = _
      have : subs.flatten.contains u = false := by
        cases hcu : subs.flatten.contains u with
        | false => rfl
        | true => have := hsubN u hcu; uomega
      rw [this]
      exact hf.owner u hu
    · intro u p hu hp
      have hp' : (if (g.children h).contains u then none else g.parent u) = some p := hp
      split at hp'
      · cases hp'
      · exact hf.parentUp u p hu hp'
    · intro u x hu hx
      have hx' : x ∈ upd g.children h [] u := hx
      by_cases e : u = h
      · subst e; rw [upd_same] at hx'; cases hx'
      · rw [upd_other _ _ _ _ e] at hx'
        exact hf.childDown u x hu hx'
    · intro u x hu hx
      have hx' : (if subs.flatten.contains u then none else g.owner u) = some x := hx
      split at hx'
      · cases hx'
      · exact hf.ownerUp u x hu hx'

theorem HFrame.setChildren {N : Nat} {s g : G} (hf : HFrame N s g) (h : Uid) (l : List Uid) (hh : N ≤ h)
    (hl : ∀ v ∈ l, N ≤ v) : HFrame N s (setChildren g h l).1 := by
  unfold Pj.setChildren
  split
  · exact hf
  · have h1 := hf.releaseChildren h l hh
    rcases hrel : Pj.releaseChildren g h l with ⟨g1, e⟩
    rw [hrel] at h1
    cases e with
    | some e => exact h1
    | none => exact HFrame.foldSetParent h hh l g1 h1 hl

/-! ### hierarchy setters do not touch links, link setters do not touch the hierarchy -/

theorem setParentSome_links (g : G) (c q : Uid) :
    (setParentSome g c q).1.preds = g.preds ∧ (setParentSome g c q).1.succs = g.succs := by
  rcases setParentSome_cases g c q with h | ⟨sub, _, h⟩
  · rw [h]; exact ⟨rfl, rfl⟩
  · rw [h]
    constructor
    · rw [(appStep_fields _ _ _).2.1, (ownStep_fields _ _ _).2.2.1, (parStep_fields _ _ _).2.2.1,
        (detachOld_fields g c).2.1]
    · rw [(appStep_fields _ _ _).2.2.1, (ownStep_fields _ _ _).2.2.2.1, (parStep_fields _ _ _).2.2.2.1,
        (detachOld_fields g c).2.2.1]

theorem setParent_links (g : G) (c : Uid) (p : Option Uid) :
    (setParent g c p).1.preds = g.preds ∧ (setParent g c p).1.succs = g.succs := by
  unfold setParent
  cases p with
  | some q => exact setParentSome_links g c q
  | none =>
    show (setParentNone g c).1.preds = g.preds ∧ (setParentNone g c).1.succs = g.succs
    unfold setParentNone
    split
    · exact setParentSome_links g c _
    · exact ⟨(detachOld_fields g c).2.1, (detachOld_fields g c).2.2.1⟩

theorem foldSetParent_links (h : Uid) : ∀ (l : List Uid) (g : G),
    (foldSetParent g l h).1.preds = g.preds ∧ (foldSetParent g l h).1.succs = g.succs := by
  intro l
  induction l with
  | nil => intro g; exact ⟨rfl, rfl⟩
  | cons v vs ih =>
    intro g
    have h1 := setParent_links g v (some h)
    unfold foldSetParent
    rcases hsp : setParent g v (some h) with ⟨g', e⟩
    rw [hsp] at h1
    cases e with
    | some e => exact h1
    | none =>
      obtain ⟨a, b⟩ := ih g'
      exact ⟨a.trans h1.1, b.trans h1.2⟩

theorem setChildren_links (g : G) (h : Uid) (l : List Uid) :
    (setChildren g h l).1.preds = g.preds ∧ (setChildren g h l).1.succs = g.succs := by
  unfold setChildren
  split
  · exact ⟨rfl, rfl⟩
  · rcases releaseChildren_cases g h l with he | ⟨subs, _, he⟩
    · rw [he]; exact ⟨rfl, rfl⟩
    · rw [he]
      exact foldSetParent_links h l _

theorem setPreds_hier (g : G) (t : Uid) (l : List Uid) :
    (setPreds g t l).1.parent = g.parent ∧ (setPreds g t l).1.children = g.children ∧
    (setPreds g t l).1.owner = g.owner := by
  unfold setPreds
  split
  · exact ⟨rfl, rfl, rfl⟩
  · exact ⟨rfl, rfl, rfl⟩

theorem setSuccs_hier (g : G) (t : Uid) (l : List Uid) :
    (setSuccs g t l).1.parent = g.parent ∧ (setSuccs g t l).1.children = g.children ∧
    (setSuccs g t l).1.owner = g.owner := by
  unfold setSuccs
  split
  · exact ⟨rfl, rfl, rfl⟩
  · exact ⟨rfl, rfl, rfl⟩

theorem HFrame.congr {N : Nat} {s g g' : G} (hf : HFrame N s g) (hp : g'.parent = g.parent)
    (hc : g'.children = g.children) (ho : g'.owner = g.owner) : HFrame N s g' := by
  refine ⟨?_, ?_, ?_, ?_, ?_, ?_⟩
  · rw [hp]; exact hf.parent
  · rw [hc]; exact hf.children
  · rw [ho]; exact hf.owner
  · rw [hp]; exact hf.parentUp
  · rw [hc]; exact hf.childDown
  · rw [ho]; exact hf.ownerUp

/-! ### link frame -/

/-- members of the source WBS keep their link lists; the other old tasks only gain fresh entries -/
structure LFrame (N : Nat) (s : G) (w : Uid) (g : G) : Prop where
  member : ∀ u, u < N → s.owner u = some w → g.preds u = s.preds u ∧ g.succs u = s.succs u
  outside : ∀ u, u < N → s.owner u ≠ some w →
    (g.preds u).filter (fun x => decide (x < N)) = s.preds u ∧ (g.succs u).filter (fun x => decide (x < N)) = s.succs u

theorem LFrame.congr {N : Nat} {s g g' : G} {w : Uid} (hf : LFrame N s w g) (hp : g'.preds = g.preds)
    (hs : g'.succs = g.succs) : LFrame N s w g' := by
  constructor
  · rw [hp, hs]; exact hf.member
  · rw [hp, hs]; exact hf.outside

/-- the mirror update of a link setter, seen from an old uid -/
theorem mirror_member (L S : List Uid) (c v : Uid) (lc old : List Uid) (hS : ∀ x ∈ S, x ≠ c) (hv : v ∉ lc) (hL : L = S) :
    (if lc.contains v ∧ !(if old.contains v then L.filter (fun x => x != c) else L).contains c
      then (if old.contains v then L.filter (fun x => x != c) else L) ++ [c]
      else (if old.contains v then L.filter (fun x => x != c) else L)) = S := by
  subst hL
  have h1 : L.filter (fun x => x != c) = L := List.filter_eq_self.mpr (fun a ha => by simpa using hS a ha)
  simp [h1, hv]

theorem mirror_outside (N : Nat) (L S : List Uid) (c v : Uid) (lc old : List Uid) (hc : N ≤ c)
    (hL : L.filter (fun x => decide (x < N)) = S) :
    (if lc.contains v ∧ !(if old.contains v then L.filter (fun x => x != c) else L).contains c
      then (if old.contains v then L.filter (fun x => x != c) else L) ++ [c]
      else (if old.contains v then L.filter (fun x => x != c) else L)).filter (fun x => decide (x < N)) = S := by
  have h1 : (L.filter (fun x => x != c)).filter (fun x => decide (x < N)) = S := by
    rw [List.filter_filter, ← hL]
    apply List.filter_congr
    intro x _
    by_cases hx : x < N
    · have : x ≠ c := by uomega
      simp [hx, this]
    · simp [hx]
  have h2 : ([c] : List Uid).filter (fun x => decide (x < N)) = [] := by
    have : ¬ c < N := by uomega
    simp [this]
  split <;> split <;> simp [List.filter_append, h1, h2, hL]

theorem LFrame.setPreds {N : Nat} {s g : G} {w : Uid} (hf : LFrame N s w g) (c : Uid) (l : List Uid) (hc : N ≤ c)
    (hb : ∀ u v, v ∈ s.succs u → v < N)
    (hl : ∀ v ∈ l, N ≤ v ∨ s.owner v ≠ some w) : LFrame N s w (setPreds g c l).1 := by
  unfold Pj.setPreds
  split
  · exact hf
  · constructor
    · intro u hu hw
      constructor
      · show upd g.preds c l u = _
        rw [upd_other _ _ _ _ (by uomega)]
        exact (hf.member u hu hw).1
      · refine mirror_member (g.succs u) (s.succs u) c u l (g.preds c) ?_ ?_ (hf.member u hu hw).2
        · intro x hx
          have := hb u x hx
          uomega
        · intro hul
          rcases hl u hul with h | h
          · uomega
          · exact h hw
    · intro u hu hw
      constructor
      · show (upd g.preds c l u).filter _ = _
        rw [upd_other _ _ _ _ (by uomega)]
        exact (hf.outside u hu hw).1
      · exact mirror_outside N (g.succs u) (s.succs u) c u l (g.preds c) hc (hf.outside u hu hw).2

theorem LFrame.setSuccs {N : Nat} {s g : G} {w : Uid} (hf : LFrame N s w g) (c : Uid) (l : List Uid) (hc : N ≤ c)
    (hb : ∀ u v, v ∈ s.preds u → v < N)
    (hl : ∀ v ∈ l, N ≤ v ∨ s.owner v ≠ some w) : LFrame N s w (setSuccs g c l).1 := by
  unfold Pj.setSuccs
  split
  · exact hf
  · constructor
    · intro u hu hw
      constructor
      · refine mirror_member (g.preds u) (s.preds u) c u l (g.succs c) ?_ ?_ (hf.member u hu hw).1
        · intro x hx
          have := hb u x hx
          uomega
        · intro hul
          rcases hl u hul with h | h
          · uomega
          · exact h hw
      · show upd g.succs c l u = _
        rw [upd_other _ _ _ _ (by uomega)]
        exact (hf.member u hu hw).2
    · intro u hu hw
      constructor
      · exact mirror_outside N (g.preds u) (s.preds u) c u l (g.succs c) hc (hf.outside u hu hw).1
      · show (upd g.succs c l u).filter _ = _
        rw [upd_other _ _ _ _ (by uomega)]
        exact (hf.outside u hu hw).2

/-! ### the two frame properties of `cloneSel` -/

def CFrame (s : G) (w : Uid) (g : G) : Prop := HFrame s.n s g ∧ LFrame s.n s w g

theorem IsClone.ge {s : G} {sel : List Uid} {c : Uid} (h : IsClone s sel c) : s.n ≤ c := by
  obtain ⟨i, _, rfl⟩ := h
  exact Nat.le_add_right _ _

theorem CloneOpKind.cframe {s : G} {w : Uid} {sel : List Uid} {f : G → G × Option Err} (k : CloneOpKind s w sel f)
    (hb : Bounded s) (g : G) (h : CFrame s w g) : CFrame s w (f g).1 := by
  cases k with
  | par c p hc hp =>
    exact ⟨h.1.setParent c p hc.ge (fun q hq => (hp q hq).ge),
      h.2.congr (setParent_links g c p).1 (setParent_links g c p).2⟩
  | chi c l hc hl =>
    have hcn : s.n ≤ c := by
      rcases hc with hc | hc
      · exact hc.ge
      · rw [hc]; uomega
    exact ⟨h.1.setChildren c l hcn (fun v hv => (hl v hv).ge),
      h.2.congr (setChildren_links g c l).1 (setChildren_links g c l).2⟩
  | prd c l hc hl =>
    have hh := setPreds_hier g c l
    refine ⟨h.1.congr hh.1 hh.2.1 hh.2.2, h.2.setPreds c l hc.ge (fun u v hv => (hb.succs u v hv).2) ?_⟩
    intro v hv
    rcases hl v hv with hv | hv
    · exact Or.inl hv.ge
    · exact Or.inr hv.2.1
  | suc c l hc hl =>
    have hh := setSuccs_hier g c l
    refine ⟨h.1.congr hh.1 hh.2.1 hh.2.2, h.2.setSuccs c l hc.ge (fun u v hv => (hb.preds u v hv).2) ?_⟩
    intro v hv
    rcases hl v hv with hv | hv
    · exact Or.inl hv.ge
    · exact Or.inr hv.2.1

theorem filter_lt_self (N : Nat) (l : List Uid) (h : ∀ x ∈ l, x < N) : l.filter (fun x => decide (x < N)) = l :=
  List.filter_eq_self.mpr (fun a ha => by simpa using h a ha)

theorem CFrame.self (s : G) (w : Uid) (hb : Bounded s) : CFrame s w s := by
  refine ⟨⟨fun _ _ => rfl, fun _ _ => rfl, fun _ _ => rfl, ?_, ?_, ?_⟩, ⟨fun _ _ _ => ⟨rfl, rfl⟩, ?_⟩⟩
  · intro u p hu hp
    have := (hb.parent u p hp).1
    uomega
  · intro u x hu hx
    have := (hb.children u x hx).1
    uomega
  · intro u x hu hx
    have := (hb.owner u x hx).1
    uomega
  · intro u _ _
    exact ⟨filter_lt_self _ _ (fun x hx => (hb.preds u x hx).2), filter_lt_self _ _ (fun x hx => (hb.succs u x hx).2)⟩

theorem CFrame.extend (s : G) (w : Uid) (sel : List Uid) (hb : Bounded s) : CFrame s w (extend s sel) := by
  obtain ⟨h1, h2⟩ := CFrame.self s w hb
  refine ⟨⟨h1.parent, h1.children, ?_, h1.parentUp, h1.childDown, ?_⟩, ⟨h2.member, h2.outside⟩⟩
  · intro u hu
    rw [extend_owner, if_neg (by uomega)]
  · intro u x hu hx
    rw [extend_owner] at hx
    split at hx
    · cases hx; uomega
    · exact h1.ownerUp u x hu hx

theorem cloneSel_CFrame (s : G) (w : Uid) (roots : List Uid) (hi : Inv s) : CFrame s w (cloneSel s w roots).1 := by
  cases h : roots.mapM (fun r => subtreeF s.children s.fuel r) with
  | none => rw [cloneSel_none s w roots h]; exact CFrame.self s w hi.bnd
  | some subs =>
    rw [cloneSel_eq s w roots subs h]
    refine seqOps_preserves (CFrame s w) _ _ ?_ (CFrame.extend s w _ hi.bnd)
    intro f hf g hg
    exact (cloneOps_kind s w roots _ hi f hf).cframe hi.bnd g hg

theorem cloneSel_tid_lt (s : G) (w : Uid) (roots : List Uid) (u : Uid) (hu : u < s.n) :
    (cloneSel s w roots).1.tid u = s.tid u := by
  cases h : roots.mapM (fun r => subtreeF s.children s.fuel r) with
  | none => rw [cloneSel_none s w roots h]
  | some subs =>
    rw [cloneSel_eq s w roots subs h]
    show (seqOps id _ _).1.tid u = _
    rw [(seqOps_n_tid s w roots _ _).2]
    exact extend_tid_lt s _ u hu

theorem cloneSel_sourceFrame (s : G) (w : Uid) (roots : List Uid) (hi : Inv s) :
    sourceFrameB s (cloneSel s w roots).1 w = true := by
  obtain ⟨hh, hl⟩ := cloneSel_CFrame s w roots hi
  unfold sourceFrameB
  rw [List.all_eq_true]
  intro u hu
  have hu' : u < s.n := List.mem_range.mp hu
  by_cases hw : s.owner u = some w
  · have := hl.member u hu' hw
    simp [hw, cloneSel_tid_lt s w roots u hu', hh.parent u hu', hh.children u hu', hh.owner u hu', this.1, this.2]
  · simp [hw]

theorem cloneSel_outsideFrame (s : G) (w : Uid) (roots : List Uid) (hi : Inv s) :
    outsideFrameB s (cloneSel s w roots).1 w = true := by
  obtain ⟨hh, hl⟩ := cloneSel_CFrame s w roots hi
  unfold outsideFrameB
  rw [List.all_eq_true]
  intro u hu
  have hu' : u < s.n := List.mem_range.mp hu
  by_cases hw : s.owner u = some w
  · simp [hw]
  · have := hl.outside u hu' hw
    simp [hh.parent u hu', hh.children u hu', hh.owner u hu', this.1, this.2]

/-! ### exact effect of accepted hierarchy setters -/

theorem setParentSome_cases' (g : G) (c q : Uid) :
    (∃ e, setParentSome g c q = (g, some e)) ∨
    ∃ sub, subtreeF g.children g.fuel c = some sub ∧
      setParentSome g c q = (appStep (ownStep (parStep (detachOld g c) c q) sub q) c q, none) := by
  unfold setParentSome
  split
  · rename_i e _
    exact Or.inl ⟨e, rfl⟩
  · rw [mutParentSome_eq]
    split
    · exact Or.inl ⟨_, rfl⟩
    · rename_i sub hsub
      exact Or.inr ⟨sub, hsub, rfl⟩

theorem detachOld_children_erase (g : G) (hw : WF g) (c u : Uid) :
    (detachOld g c).children u = (g.children u).erase c := by
  have hnm : ∀ u, g.parent c ≠ some u → c ∉ g.children u := fun u hp hm => hp ((hw.listed c u).mpr hm)
  unfold detachOld
  split
  · rename_i p hp
    split
    · by_cases e : u = p
      · subst e; simp
      · rw [List.erase_of_not_mem (hnm u (fun h => e (by rw [hp] at h; exact (Option.some.inj h).symm)))]
        simp [e]
    · rename_i hc
      by_cases e : u = p
      · subst e
        rw [List.erase_of_not_mem (by simpa using hc)]
      · rw [List.erase_of_not_mem (hnm u (fun h => e (by rw [hp] at h; exact (Option.some.inj h).symm)))]
  · rename_i hp
    rw [List.erase_of_not_mem (hnm u (by rw [hp]; simp))]

/-- effect of an accepted `c.parent = q` -/
theorem setParentSome_effect (g g' : G) (c q : Uid) (hw : WF g) (h : setParentSome g c q = (g', none)) :
    g'.parent = upd g.parent c (some q) ∧
    (∀ u, g'.children u = if u = q then (g.children q).erase c ++ [c] else (g.children u).erase c) ∧
    g'.preds = g.preds ∧ g'.succs = g.succs ∧ (g.owner q = none → g'.owner = g.owner) := by
  rcases setParentSome_cases' g c q with ⟨e, he⟩ | ⟨sub, _, he⟩
  · rw [he] at h; cases h
  · rw [he] at h
    have hg : g' = appStep (ownStep (parStep (detachOld g c) c q) sub q) c q := (Prod.mk.inj h).1.symm
    subst hg
    have hch0 : (ownStep (parStep (detachOld g c) c q) sub q).children = (detachOld g c).children := by
      rw [(ownStep_fields _ _ _).2.1, (parStep_fields _ _ _).2.1]
    refine ⟨?_, ?_, ?_, ?_, ?_⟩
    · rw [(appStep_fields _ _ _).1, (ownStep_fields _ _ _).1, (parStep_fields _ _ _).1, (detachOld_fields g c).1]
    · intro u
      have hnc : c ∉ (g.children q).erase c := fun hm => ((hw.once q).mem_erase_iff.mp hm).1 rfl
      unfold appStep
      rw [hch0, detachOld_children_erase g hw c q]
      have : ((g.children q).erase c).contains c = false := by simpa using hnc
      rw [this]
      simp only [Bool.false_eq_true, if_false]
      by_cases e : u = q
      · subst e; simp
      · simp only [upd_other _ _ _ _ e, if_neg e]
        rw [detachOld_children_erase g hw c u]
    · rw [(appStep_fields _ _ _).2.1, (ownStep_fields _ _ _).2.2.1, (parStep_fields _ _ _).2.2.1,
        (detachOld_fields g c).2.1]
    · rw [(appStep_fields _ _ _).2.2.1, (ownStep_fields _ _ _).2.2.2.1, (parStep_fields _ _ _).2.2.2.1,
        (detachOld_fields g c).2.2.1]
    · intro ho
      rw [appStep_owner]
      have hbase : (parStep (detachOld g c) c q).owner = g.owner := (detachOld_fields g c).2.2.2.2
      unfold ownStep
      rw [hbase, ho]
      exact hbase

/-- effect of `c.parent = None` on a task without owner -/
theorem setParentNone_effect (g : G) (c : Uid) (hw : WF g) (ho : g.owner c = none) :
    (setParentNone g c).2 = none ∧
    (setParentNone g c).1.parent = upd g.parent c none ∧
    (∀ u, (setParentNone g c).1.children u = (g.children u).erase c) ∧
    (setParentNone g c).1.preds = g.preds ∧ (setParentNone g c).1.succs = g.succs ∧
    (setParentNone g c).1.owner = g.owner := by
  unfold setParentNone
  rw [ho]
  refine ⟨rfl, ?_, ?_, ?_, ?_, ?_⟩
  · show upd (detachOld g c).parent c none = _
    rw [(detachOld_fields g c).1]
  · intro u
    exact detachOld_children_erase g hw c u
  · exact (detachOld_fields g c).2.1
  · exact (detachOld_fields g c).2.2.1
  · exact (detachOld_fields g c).2.2.2.2

theorem erase_filter_notin (L vs : List Uid) (v : Uid) (hL : L.Nodup) :
    (L.erase v).filter (fun x => !vs.contains x) = L.filter (fun x => !(v :: vs).contains x) := by
  rw [hL.erase_eq_filter, List.filter_filter]
  apply List.filter_congr
  intro x _
  by_cases e : x = v
  · subst e; simp
  · simp [e]

/-- effect of an accepted re-parenting loop -/
theorem foldSetParent_effect (h : Uid) : ∀ (vs : List Uid) (g g' : G), WF g → (∀ v ∈ vs, g.hidden v = false) →
    vs.Nodup → foldSetParent g vs h = (g', none) →
    (∀ x, g'.parent x = if x ∈ vs then some h else g.parent x) ∧
    (∀ u, g'.children u = if u = h then (g.children h).filter (fun x => !vs.contains x) ++ vs
                          else (g.children u).filter (fun x => !vs.contains x)) ∧
    g'.preds = g.preds ∧ g'.succs = g.succs := by
  intro vs
  induction vs with
  | nil =>
    intro g g' _ _ _ hf
    have : g' = g := by
      have := (Prod.mk.inj hf).1; exact this.symm
    subst this
    refine ⟨fun x => by simp, fun u => ?_, rfl, rfl⟩
    have hft : ∀ L : List Uid, L.filter (fun _ => true) = L := fun L => List.filter_eq_self.mpr (fun _ _ => rfl)
    split
    · rename_i e; subst e; simp [hft]
    · simp [hft]
  | cons v vs ih =>
    intro g g' hw hv hnd hf
    unfold foldSetParent at hf
    rcases hsp : setParent g v (some h) with ⟨g1, e⟩
    rw [hsp] at hf
    cases e with
    | some e => cases hf
    | none =>
      have hsp' : setParentSome g v h = (g1, none) := hsp
      obtain ⟨e1, e2, e3, e4, _⟩ := setParentSome_effect g g1 v h hw hsp'
      have hw1 : WF g1 := by
        have := setParentSome_WF g v h hw (hv v List.mem_cons_self)
        rw [hsp'] at this; exact this
      have htid : g1.tid = g.tid := by
        have := setParentSome_tid g v h
        rw [hsp'] at this; exact this
      have hv1 : ∀ x ∈ vs, g1.hidden x = false := by
        intro x hx
        rw [hidden_of_tid g g1 htid x]
        exact hv x (List.mem_cons_of_mem _ hx)
      have hnd' := List.nodup_cons.mp hnd
      obtain ⟨i1, i2, i3, i4⟩ := ih g1 g' hw1 hv1 hnd'.2 hf
      refine ⟨?_, ?_, i3.trans e3, i4.trans e4⟩
      · intro x
        rw [i1 x, e1]
        by_cases hx : x ∈ vs
        · simp [hx]
        · by_cases hxv : x = v
          · subst hxv; simp
          · simp [hx, hxv]
      · intro u
        rw [i2 u]
        by_cases hu : u = h
        · subst hu
          simp only [if_true]
          rw [e2 u, if_pos rfl, List.filter_append, erase_filter_notin _ vs v (hw.once u)]
          have : ([v] : List Uid).filter (fun x => !vs.contains x) = [v] := by
            simp [hnd'.1]
          rw [this]
          simp
        · simp only [if_neg hu]
          rw [e2 u, if_neg hu, erase_filter_notin _ vs v (hw.once u)]

/-- effect of an accepted `h.children = l` -/
theorem setChildren_effect (g g' : G) (h : Uid) (l : List Uid) (hw : WF g) (hv : ∀ v ∈ l, g.hidden v = false)
    (hnd : l.Nodup) (hs : setChildren g h l = (g', none)) :
    (∀ x, g'.parent x = if x ∈ l then some h else if x ∈ g.children h then none else g.parent x) ∧
    (∀ u, g'.children u = if u = h then l else (g.children u).filter (fun x => !l.contains x)) ∧
    g'.preds = g.preds ∧ g'.succs = g.succs := by
  unfold setChildren at hs
  split at hs
  · cases hs
  · rcases releaseChildren_cases g h l with he | ⟨subs, _, he⟩
    · rw [he] at hs; cases hs
    · have hw1 := releaseChildren_WF g h l hw
      rw [he] at hs hw1
      simp only at hs hw1
      obtain ⟨i1, i2, i3, i4⟩ := foldSetParent_effect h l _ g' hw1 hv hnd hs
      refine ⟨?_, ?_, i3, i4⟩
      · intro x
        rw [i1 x]
        by_cases hx : x ∈ l
        · simp [hx]
        · simp [hx]
      · intro u
        rw [i2 u]
        by_cases hu : u = h
        · subst hu; simp
        · simp [hu]

theorem setPreds_cases (g : G) (c : Uid) (l : List Uid) :
    (∃ e, setPreds g c l = (g, some e)) ∨ setPreds g c l = (mutPreds g c l, none) := by
  unfold setPreds
  split
  · exact Or.inl ⟨_, rfl⟩
  · exact Or.inr rfl

theorem setSuccs_cases (g : G) (c : Uid) (l : List Uid) :
    (∃ e, setSuccs g c l = (g, some e)) ∨ setSuccs g c l = (mutSuccs g c l, none) := by
  unfold setSuccs
  split
  · exact Or.inl ⟨_, rfl⟩
  · exact Or.inr rfl

/-- membership in the mirror lists after a link setter -/
theorem mem_mirror (L : List Uid) (c v x : Uid) (lc old : List Uid) :
    x ∈ (if lc.contains v ∧ !(if old.contains v then L.filter (fun y => y != c) else L).contains c
      then (if old.contains v then L.filter (fun y => y != c) else L) ++ [c]
      else (if old.contains v then L.filter (fun y => y != c) else L)) ↔
    (x ≠ c ∧ x ∈ L) ∨ (x = c ∧ (v ∈ lc ∨ (v ∉ old ∧ c ∈ L))) := by
  by_cases hx : x = c
  · subst hx
    by_cases h1 : v ∈ lc <;> by_cases h2 : v ∈ old <;> by_cases h3 : x ∈ L <;> simp [h1, h2, h3]
  · by_cases h1 : v ∈ lc <;> by_cases h2 : v ∈ old <;> by_cases h3 : c ∈ L <;> simp [h1, h2, h3, hx]

/-! ### the source of a uid, static facts about the selection -/

/-- the task a uid stands for: a clone stands for the task it copies, an old uid for itself -/
def src (s : G) (sel : List Uid) (u : Uid) : Uid := if u < s.n then u else sel.getD (u - s.n) 0

theorem src_lt (s : G) (sel : List Uid) (u : Uid) (h : u < s.n) : src s sel u = u := by
  unfold src; rw [if_pos h]

theorem src_clone (s : G) (sel : List Uid) (i : Nat) : src s sel (s.n + i) = sel.getD i 0 := by
  unfold src
  have h1 : ¬ s.n + i < s.n := by omega
  have h2 : s.n + i - s.n = i := by omega
  rw [if_neg h1, h2]

structure SelOK (s : G) (w : Uid) (sel : List Uid) : Prop where
  inv : Inv s
  wbs : s.hidden w = true
  nodup : sel.Nodup
  mem : ∀ t ∈ sel, s.owner t = some w ∧ s.hidden t = false ∧ t < s.n

theorem getD_mem (sel : List Uid) (i : Nat) (hi : i < sel.length) : sel.getD i 0 ∈ sel := by
  rw [getD_eq_getElem' sel i hi]; exact List.getElem_mem hi

theorem SelOK.cloneOf_getD {s : G} {w : Uid} {sel : List Uid} (h : SelOK s w sel) (i : Nat) (hi : i < sel.length) :
    cloneOf s.n sel (sel.getD i 0) = some (s.n + i) := by
  obtain ⟨c, hc⟩ := cloneOf_mem s.n sel _ (getD_mem sel i hi)
  obtain ⟨j, hj, rfl, hjx, _⟩ := cloneOf_some s.n sel _ c hc
  rw [hc]
  rw [getD_eq_getElem' sel i hi] at hjx
  have : j = i := by
    have h1 := h.nodup.idxOf_getElem j hj
    have h2 := h.nodup.idxOf_getElem i hi
    rw [hjx] at h1
    omega
  rw [this]

theorem cloneOf_src (s : G) (sel : List Uid) (x c : Uid) (h : cloneOf s.n sel x = some c) :
    IsClone s sel c ∧ src s sel c = x := by
  obtain ⟨i, hi, rfl, hx, _⟩ := cloneOf_some s.n sel x c h
  refine ⟨⟨i, hi, rfl⟩, ?_⟩
  rw [src_clone, getD_eq_getElem' sel i hi, hx]

theorem IsClone.src_mem {s : G} {sel : List Uid} {c : Uid} (h : IsClone s sel c) : src s sel c ∈ sel := by
  obtain ⟨i, hi, rfl⟩ := h
  rw [src_clone]; exact getD_mem sel i hi

theorem IsClone.cloneOf_src {s : G} {w : Uid} {sel : List Uid} (ok : SelOK s w sel) {c : Uid} (h : IsClone s sel c) :
    cloneOf s.n sel (src s sel c) = some c := by
  obtain ⟨i, hi, rfl⟩ := h
  rw [src_clone]; exact ok.cloneOf_getD i hi

theorem IsClone.src_inj {s : G} {w : Uid} {sel : List Uid} (ok : SelOK s w sel) {a b : Uid} (ha : IsClone s sel a)
    (hb : IsClone s sel b) (h : src s sel a = src s sel b) : a = b := by
  have h1 := ha.cloneOf_src ok
  have h2 := hb.cloneOf_src ok
  rw [h] at h1
  rw [h1] at h2
  exact Option.some.inj h2

/-- members of one WBS have pairwise different ids -/
theorem SelOK.tid_inj {s : G} {w : Uid} {sel : List Uid} (ok : SelOK s w sel) (a b : Uid) (ha : a ∈ sel)
    (hb : b ∈ sel) (hab : a ≠ b) : s.tid a ≠ s.tid b := by
  obtain ⟨oa, ha', _⟩ := ok.mem a ha
  obtain ⟨ob, hb', _⟩ := ok.mem b hb
  refine ok.inv.ids a b hab ha' hb' ⟨w, ?_, ?_⟩
  · exact ((owner_iff_root s ok.inv a w).mp oa).1
  · exact ((owner_iff_root s ok.inv b w).mp ob).1

/-! ### soundness: the fresh part of the state only contains mirrored edges -/

/-- a uid created by the call: a clone or the new WBS root -/
def Fresh (s : G) (sel : List Uid) (u : Uid) : Prop := s.n ≤ u ∧ u ≤ s.n + sel.length

theorem IsClone.fresh {s : G} {sel : List Uid} {c : Uid} (h : IsClone s sel c) : Fresh s sel c := by
  obtain ⟨i, hi, rfl⟩ := h
  exact ⟨Nat.le_add_right _ _, by uomega⟩

theorem Fresh.cases {s : G} {sel : List Uid} {c : Uid} (h : Fresh s sel c) : IsClone s sel c ∨ c = s.n + sel.length := by
  by_cases e : c = s.n + sel.length
  · exact Or.inr e
  · refine Or.inl ⟨c - s.n, ?_, ?_⟩
    · have := h.1; have := h.2; uomega
    · have := h.1; uomega

structure Sound (s : G) (w : Uid) (sel : List Uid) (g : G) : Prop where
  ci : CInv s sel g
  fr : CFrame s w g
  par : ∀ x y, IsClone s sel x → g.parent x = some y →
    IsClone s sel y ∧ s.parent (src s sel x) = some (src s sel y)
  lnk : ∀ a b, a ∈ g.preds b → s.n ≤ a ∨ s.n ≤ b → src s sel a ∈ s.preds (src s sel b)

namespace Sound
variable {s : G} {w : Uid} {sel : List Uid} {g : G}

theorem hidden_clone (h : Sound s w sel g) (ok : SelOK s w sel) {c : Uid} (hc : IsClone s sel c) :
    g.hidden c = false :=
  (h.ci.clone (fun t ht => (ok.mem t ht).2.1) hc).1

theorem hidden_root (h : Sound s w sel g) : g.hidden (s.n + sel.length) = true := by
  rw [h.ci.hidden]; exact extend_hidden_root s sel

/-- every edge of the dependency graph is the image of an edge of the source -/
theorem dep (h : Sound s w sel g) (a b : Uid) (hab : a ∈ g.preds b) :
    src s sel a ∈ s.preds (src s sel b) := by
  by_cases h1 : s.n ≤ a ∨ s.n ≤ b
  · exact h.lnk a b hab h1
  · have ha : a < s.n := by uomega
    have hb : b < s.n := by uomega
    rw [src_lt s sel a ha, src_lt s sel b hb]
    by_cases hw : s.owner b = some w
    · rw [← (h.fr.2.member b hb hw).1]; exact hab
    · rw [← (h.fr.2.outside b hb hw).1]
      exact List.mem_filter.mpr ⟨hab, by simpa using ha⟩

theorem link_fresh (h : Sound s w sel g) (a b : Uid) (hab : a ∈ g.preds b) :
    (s.n ≤ a → IsClone s sel a) ∧ (s.n ≤ b → IsClone s sel b) := by
  have hbd := h.ci.1.bnd.preds b a hab
  rw [h.ci.2.1] at hbd
  have hr := h.ci.1.wf.rootsTop _ h.hidden_root
  constructor
  · intro ha
    rcases (Fresh.cases (s := s) (sel := sel) (c := a) ⟨ha, by uomega⟩) with h1 | h1
    · exact h1
    · have : b ∈ g.succs a := (h.ci.1.wf.sym a b).mp hab
      rw [h1, hr.2.2] at this
      cases this
  · intro hb
    rcases (Fresh.cases (s := s) (sel := sel) (c := b) ⟨hb, by uomega⟩) with h1 | h1
    · exact h1
    · rw [h1, hr.2.1] at hab
      cases hab

/-- whatever sits below a fresh uid is fresh -/
theorem fresh_below (h : Sound s w sel g) (ok : SelOK s w sel) {x c : Uid} (hx : RTC (Pj.par g) x c)
    (hc : Fresh s sel c) : Fresh s sel x := by
  induction hx with
  | refl => exact hc
  | tail hxb hstep ih =>
    rename_i b c'
    apply ih
    have hbd := h.ci.1.bnd.parent b c' hstep
    rw [h.ci.2.1] at hbd
    refine ⟨?_, by uomega⟩
    apply Nat.le_of_not_lt
    intro hb
    have hp : s.parent b = some c' := by rw [← h.fr.1.parent b hb]; exact hstep
    have := (ok.inv.bnd.parent b c' hp).2
    have := hc.1
    uomega

theorem fresh_above (h : Sound s w sel g) {c y : Uid} (hy : RTC (Pj.par g) c y) (hc : Fresh s sel c) :
    Fresh s sel y := by
  induction hy with
  | refl => exact hc
  | tail hxb hstep ih =>
    rename_i b c'
    have hbd := h.ci.1.bnd.parent b c' hstep
    rw [h.ci.2.1] at hbd
    exact ⟨h.fr.1.parentUp b c' ih.1 hstep, by uomega⟩

theorem above (h : Sound s w sel g) {c y : Uid} (hy : RTC (Pj.par g) c y) (hc : IsClone s sel c) :
    IsClone s sel y ∧ RTC (Pj.par s) (src s sel c) (src s sel y) := by
  induction hy with
  | refl => exact ⟨hc, RTC.refl⟩
  | tail _ hstep ih =>
    obtain ⟨h1, h2⟩ := h.par _ _ ih.1 hstep
    exact ⟨h1, RTC.tail ih.2 h2⟩

theorem clone_of_parent (h : Sound s w sel g) {b c : Uid} (hstep : g.parent b = some c) (hb : Fresh s sel b) :
    IsClone s sel b := by
  rcases hb.cases with h1 | h1
  · exact h1
  · have := (h.ci.1.wf.rootsTop _ h.hidden_root).1
    rw [← h1, hstep] at this
    cases this

theorem below (h : Sound s w sel g) (ok : SelOK s w sel) {x c : Uid} (hx : RTC (Pj.par g) x c)
    (hc : IsClone s sel c) : IsClone s sel x ∧ RTC (Pj.par s) (src s sel x) (src s sel c) := by
  induction hx with
  | refl => exact ⟨hc, RTC.refl⟩
  | tail hxb hstep ih =>
    rename_i b c'
    have hb : IsClone s sel b :=
      h.clone_of_parent hstep (h.fresh_below ok (RTC.tail RTC.refl hstep) hc.fresh)
    obtain ⟨_, h2⟩ := h.par _ _ hb hstep
    obtain ⟨i1, i2⟩ := ih hb
    exact ⟨i1, RTC.tail i2 h2⟩

theorem tc_map (h : Sound s w sel g) (ok : SelOK s w sel) {x c : Uid} (hx : TC (Pj.par g) x c)
    (hc : IsClone s sel c) : IsClone s sel x ∧ TC (Pj.par s) (src s sel x) (src s sel c) := by
  rcases hx.head_cases with h1 | ⟨b, h1, h2⟩
  · have hxc := h.clone_of_parent h1 (h.fresh_below ok (RTC.tail RTC.refl h1) hc.fresh)
    exact ⟨hxc, TC.single (h.par _ _ hxc h1).2⟩
  · obtain ⟨hb, hbc⟩ := h.below ok h2.toRTC hc
    have hxc := h.clone_of_parent h1 (h.fresh_below ok (RTC.tail RTC.refl h1) hb.fresh)
    exact ⟨hxc, TC.of_step_RTC (h.par _ _ hxc h1).2 hbc⟩

theorem owner_none (h : Sound s w sel g) (ok : SelOK s w sel) {c : Uid} (hc : IsClone s sel c) : g.owner c = none := by
  cases ho : g.owner c with
  | none => rfl
  | some w' =>
    obtain ⟨h1, h2⟩ := (owner_iff_root g h.ci.1 c w').mp ho
    have := h.hidden_clone ok (h.above h1 hc).1
    rw [this] at h2; cases h2

theorem tid_clone (h : Sound s w sel g) {c : Uid} (hc : IsClone s sel c) : g.tid c = s.tid (src s sel c) := by
  obtain ⟨i, hi, rfl⟩ := hc
  rw [h.ci.2.2, extend_tid_clone s sel i hi, src_clone]

theorem tid_inj (h : Sound s w sel g) (ok : SelOK s w sel) {a b : Uid} (ha : Fresh s sel a) (hb : Fresh s sel b)
    (hab : a ≠ b) : g.tid a ≠ g.tid b := by
  rcases ha.cases with ha | ha <;> rcases hb.cases with hb | hb
  · rw [h.tid_clone ha, h.tid_clone hb]
    exact ok.tid_inj _ _ ha.src_mem hb.src_mem (fun e => hab (IsClone.src_inj ok ha hb e))
  · exact tid_ne_of_hidden g (h.hidden_clone ok ha) (hb ▸ h.hidden_root)
  · exact (tid_ne_of_hidden g (h.hidden_clone ok hb) (ha ▸ h.hidden_root)).symm
  · exact absurd (ha.trans hb.symm) hab

theorem fresh_tree (h : Sound s w sel g) (ok : SelOK s w sel) {x p : Uid} (hx : SameTree g x p) (hp : Fresh s sel p) :
    Fresh s sel x := by
  obtain ⟨r, h1, h2⟩ := hx
  exact h.fresh_below ok h1 (h.fresh_above h2 hp)

theorem idsOK (h : Sound s w sel g) (ok : SelOK s w sel) (p : Uid) (chs : List Uid) (hp : Fresh s sel p)
    (hchs : ∀ c ∈ chs, Fresh s sel c) : IdsOK g p chs := by
  constructor
  · intro a ⟨c, hc, hac⟩ hnt b hbt
    have ha := h.fresh_below ok hac (hchs c hc)
    have hb := h.fresh_tree ok hbt hp
    exact h.tid_inj ok ha hb (fun e => hnt (e ▸ hbt))
  · intro a a' ⟨c, hc, hac⟩ ⟨c', hc', hac'⟩ _ _ hne
    exact h.tid_inj ok (h.fresh_below ok hac (hchs c hc)) (h.fresh_below ok hac' (hchs c' hc')) hne

end Sound

/-! ### validations from closure-level facts -/

theorem chkChildren_ok (g : G) (h : Uid) (l : List Uid) (hw : WF g) (hb : Bounded g)
    (hown : ∀ v ∈ l, g.owner v = none ∨ g.owner v = g.owner h)
    (hids : IdsOK g h l) (hne : ∀ ch ∈ l, ch ≠ h) (hnd : ∀ ch ∈ l, ¬ TC (par g) h ch)
    (hlink : ∀ ch ∈ l, ∀ x y, RTC (par g) x ch → RTC (par g) h y → ¬ lnk g x y) : chkChildren g h l = none := by
  obtain ⟨anc, hanc⟩ := ancF_parent_total g hw hb h
  refine (chkChildren_none_iff g h l).mpr ⟨hown, (hasId_false_iff g hw hb h l).mpr hids, anc, hanc, ?_⟩
  intro ch hch
  obtain ⟨desc, hdesc⟩ := descF_children_total g hw hb ch
  refine ⟨desc, hdesc, hne ch hch, ?_, ?_⟩
  · cases hc : desc.contains h with
    | false => rfl
    | true => exact absurd ((descF_mem g hw.listed _ ch desc hdesc h).mp (by simpa using hc)) (hnd ch hch)
  · apply linkedWithAny_eq_false
    intro x hx y hy
    have hxt : RTC (par g) x ch := by
      rcases List.mem_cons.mp hx with rfl | hx
      · exact RTC.refl
      · exact ((descF_mem g hw.listed _ ch desc hdesc x).mp hx).toRTC
    have hpy : RTC (par g) h y := by
      rcases List.mem_cons.mp hy with rfl | hy
      · exact RTC.refl
      · exact (ancF_sound g _ h anc hanc y hy).1.toRTC
    have := hlink ch hch x y hxt hpy
    constructor
    · intro e; exact this (Or.inr e)
    · intro e; exact this (Or.inl ((hw.sym x y).mpr e))

theorem chkLinks_ok (g : G) (hw : WF g) (hb : Bounded g) (next : Uid → List Uid)
    (hnext : ∀ v, ∃ r, descF next g.fuel v = some r) (t : Uid) (l : List Uid)
    (h : ∀ v ∈ l, v ≠ t ∧ ¬ TC (par g) t v ∧ ¬ TC (par g) v t ∧ ¬ TC (fun a b => b ∈ next a) v t) :
    chkLinks g next t l = none := by
  obtain ⟨anc, hanc⟩ := ancF_parent_total g hw hb t
  obtain ⟨desc, hdesc⟩ := descF_children_total g hw hb t
  unfold chkLinks
  rw [hanc, hdesc]
  simp only
  have hany : ¬ (l.any (fun v => anc.contains v || desc.contains v) = true) := by
    intro hh
    obtain ⟨v, hv, hvc⟩ := List.any_eq_true.mp hh
    obtain ⟨_, h2, h3, _⟩ := h v hv
    rcases Bool.or_eq_true_iff.mp hvc with e | e
    · exact h2 (ancF_sound g _ t anc hanc v (by simpa using e)).1
    · exact h3 ((descF_mem g hw.listed _ t desc hdesc v).mp (by simpa using e))
  rw [if_neg hany]
  apply List.findSome?_eq_none_iff.mpr
  intro v hv
  obtain ⟨h1, _, _, h4⟩ := h v hv
  rw [if_neg h1]
  obtain ⟨r, hr⟩ := hnext v
  rw [hr]
  simp only
  have : r.contains t = false := by
    cases hc : r.contains t with
    | false => rfl
    | true => exact absurd (descF_sound next _ v r hr t (by simpa using hc)) h4
  rw [this]
  simp

theorem TC_RTC {α : Type} {r : α → α → Prop} {a b c : α} (h1 : TC r a b) (h2 : RTC r b c) : TC r a c := by
  rcases h2.cases_eq_or_TC with e | e
  · exact e ▸ h1
  · exact h1.trans e

namespace Sound
variable {s : G} {w : Uid} {sel : List Uid} {g : G}

/-- no link of the current state joins two uids whose sources are in ancestor relation -/
theorem nolink (h : Sound s w sel g) (ok : SelOK s w sel) {x y : Uid}
    (hxy : TC (Pj.par s) (src s sel x) (src s sel y)) : ¬ Pj.lnk g x y := by
  rintro (e | e)
  · exact (ok.inv.wf.noAncDep _ _ (h.dep x y e)).1 hxy
  · exact (ok.inv.wf.noAncDep _ _ (h.dep y x e)).2 hxy

theorem setParent_ok (h : Sound s w sel g) (ok : SelOK s w sel) {c : Uid} (hc : IsClone s sel c) (p : Option Uid)
    (hp : ∀ q, p = some q → IsClone s sel q ∧ s.parent (src s sel c) = some (src s sel q)) :
    (setParent g c p).2 = none := by
  have hw := h.ci.1.wf
  cases p with
  | none => exact (setParentNone_effect g c hw (h.owner_none ok hc)).1
  | some q =>
    obtain ⟨hq, hpar⟩ := hp q rfl
    have hstep : Pj.par s (src s sel c) (src s sel q) := hpar
    have hchk : chkParentSome g c q = none := by
      refine chkParentSome_ok g c q hw h.ci.1.bnd ?_ ?_ ?_ ?_ ?_
      · intro w' ho
        rw [h.owner_none ok hc] at ho; cases ho
      · intro _
        refine (hasId_false_iff g hw h.ci.1.bnd q [c]).mpr (h.idsOK ok q [c] hq.fresh ?_)
        intro x hx
        rw [List.mem_singleton.mp hx]; exact hc.fresh
      · intro e
        rw [e] at hstep
        exact ok.inv.wf.forest _ (TC.single hstep)
      · intro htc
        exact ok.inv.wf.forest _ (TC.tail (h.tc_map ok htc hc).2 hstep)
      · intro x y hx hy
        apply h.nolink ok
        exact TC_RTC (TC.of_RTC_step (h.below ok hx hc).2 hstep) (h.above hy hq).2
    exact (setParentSome_Moved g c q hw hchk).2

theorem setChildren_ok (h : Sound s w sel g) (ok : SelOK s w sel) {c : Uid} (hc : IsClone s sel c) (l : List Uid)
    (hl : ∀ v ∈ l, IsClone s sel v ∧ s.parent (src s sel v) = some (src s sel c)) :
    (setChildren g c l).2 = none := by
  have hw := h.ci.1.wf
  have hsel : ∀ t ∈ sel, s.hidden t = false := fun t ht => (ok.mem t ht).2.1
  have hchk : chkChildren g c l = none := by
    refine chkChildren_ok g c l hw h.ci.1.bnd ?_ ?_ ?_ ?_ ?_
    · intro v hv
      exact Or.inl (h.owner_none ok (hl v hv).1)
    · exact h.idsOK ok c l hc.fresh (fun v hv => (hl v hv).1.fresh)
    · intro ch hch e
      have hstep : Pj.par s (src s sel ch) (src s sel c) := (hl ch hch).2
      rw [e] at hstep
      exact ok.inv.wf.forest _ (TC.single hstep)
    · intro ch hch htc
      have hstep : Pj.par s (src s sel ch) (src s sel c) := (hl ch hch).2
      exact ok.inv.wf.forest _ (TC.tail (h.tc_map ok htc (hl ch hch).1).2 hstep)
    · intro ch hch x y hx hy
      have hstep : Pj.par s (src s sel ch) (src s sel c) := (hl ch hch).2
      apply h.nolink ok
      exact TC_RTC (TC.of_RTC_step (h.below ok hx (hl ch hch).1).2 hstep) (h.above hy hc).2
  exact setChildren_atomic g c l h.ci.1 (fun v hv => (h.ci.clone hsel (hl v hv).1).1) (h.ci.clone hsel hc).2
    (fun v hv => (h.ci.clone hsel (hl v hv).1).2) hchk

/-- the new WBS root adopts clones -/
theorem final_ok (h : Sound s w sel g) (ok : SelOK s w sel) (l : List Uid) (hl : ∀ v ∈ l, IsClone s sel v) :
    (setChildren g (s.n + sel.length) l).2 = none := by
  have hw := h.ci.1.wf
  have hsel : ∀ t ∈ sel, s.hidden t = false := fun t ht => (ok.mem t ht).2.1
  have hr := hw.rootsTop _ h.hidden_root
  have hfr : Fresh s sel (s.n + sel.length) := ⟨Nat.le_add_right _ _, Nat.le_refl _⟩
  have htop : ∀ y, RTC (Pj.par g) (s.n + sel.length) y → y = s.n + sel.length :=
    fun y hy => RTC_of_parent_none g hr.1 hy
  have hchk : chkChildren g (s.n + sel.length) l = none := by
    refine chkChildren_ok g _ l hw h.ci.1.bnd ?_ ?_ ?_ ?_ ?_
    · intro v hv
      exact Or.inl (h.owner_none ok (hl v hv))
    · exact h.idsOK ok _ l hfr (fun v hv => (hl v hv).fresh)
    · intro ch hch e
      obtain ⟨i, hi, hci⟩ := hl ch hch
      uomega
    · intro ch hch htc
      exact par_TC_none g hr.1 htc
    · intro ch hch x y _ hy
      rw [htop y hy]
      rintro (e | e)
      · rw [hr.2.1] at e
        cases e
      · have := (hw.sym _ x).mp e
        rw [hr.2.2] at this
        cases this
  have hn : s.n + sel.length < g.n := by rw [h.ci.2.1]; omega
  exact setChildren_atomic g _ l h.ci.1 (fun v hv => (h.ci.clone hsel (hl v hv)).1) hn
    (fun v hv => (h.ci.clone hsel (hl v hv)).2) hchk

end Sound

theorem TC_map {α β : Type} {r : α → α → Prop} {r' : β → β → Prop} (f : α → β)
    (hm : ∀ a b, r a b → r' (f a) (f b)) {a b : α} (h : TC r a b) : TC r' (f a) (f b) := by
  induction h with
  | single h => exact TC.single (hm _ _ h)
  | tail _ h ih => exact TC.tail ih (hm _ _ h)

namespace Sound
variable {s : G} {w : Uid} {sel : List Uid} {g : G}

theorem tc_up (h : Sound s w sel g) {c y : Uid} (hy : TC (Pj.par g) c y) (hc : IsClone s sel c) :
    IsClone s sel y ∧ TC (Pj.par s) (src s sel c) (src s sel y) := by
  rcases hy.head_cases with h1 | ⟨b, h1, h2⟩
  · obtain ⟨a1, a2⟩ := h.par _ _ hc h1
    exact ⟨a1, TC.single a2⟩
  · obtain ⟨a1, a2⟩ := h.par _ _ hc h1
    obtain ⟨b1, b2⟩ := h.above h2.toRTC a1
    exact ⟨b1, TC.of_step_RTC a2 b2⟩

theorem setPreds_ok (h : Sound s w sel g) (ok : SelOK s w sel) {c : Uid} (hc : IsClone s sel c) (l : List Uid)
    (hl : ∀ v ∈ l, src s sel v ∈ s.preds (src s sel c)) : (setPreds g c l).2 = none := by
  have hw := h.ci.1.wf
  have hchk : chkLinks g g.preds c l = none := by
    refine chkLinks_ok g hw h.ci.1.bnd g.preds (descF_preds_total g hw h.ci.1.bnd) c l ?_
    intro v hv
    have hd : Pj.dep s (src s sel v) (src s sel c) := hl v hv
    refine ⟨?_, ?_, ?_, ?_⟩
    · intro e
      rw [e] at hd
      exact ok.inv.wf.dag _ (TC.single hd)
    · intro htc
      exact (ok.inv.wf.noAncDep _ _ hd).2 (h.tc_up htc hc).2
    · intro htc
      exact (ok.inv.wf.noAncDep _ _ hd).1 (h.tc_map ok htc hc).2
    · intro htc
      have h1 : TC (fun a b => Pj.dep s b a) (src s sel v) (src s sel c) :=
        TC_map (src s sel) (fun a b hab => h.dep b a hab) htc
      exact ok.inv.wf.dag _ (TC.tail h1.flip hd)
  unfold Pj.setPreds
  rw [hchk]

theorem setSuccs_ok (h : Sound s w sel g) (ok : SelOK s w sel) {c : Uid} (hc : IsClone s sel c) (l : List Uid)
    (hl : ∀ v ∈ l, src s sel v ∈ s.succs (src s sel c)) : (setSuccs g c l).2 = none := by
  have hw := h.ci.1.wf
  have hchk : chkLinks g g.succs c l = none := by
    refine chkLinks_ok g hw h.ci.1.bnd g.succs (descF_succs_total g hw h.ci.1.bnd) c l ?_
    intro v hv
    have hd : Pj.dep s (src s sel c) (src s sel v) := (ok.inv.wf.sym _ _).mpr (hl v hv)
    refine ⟨?_, ?_, ?_, ?_⟩
    · intro e
      rw [e] at hd
      exact ok.inv.wf.dag _ (TC.single hd)
    · intro htc
      exact (ok.inv.wf.noAncDep _ _ hd).1 (h.tc_up htc hc).2
    · intro htc
      exact (ok.inv.wf.noAncDep _ _ hd).2 (h.tc_map ok htc hc).2
    · intro htc
      have h1 : TC (Pj.dep s) (src s sel v) (src s sel c) :=
        TC_map (src s sel) (fun a b hab => h.dep a b ((hw.sym a b).mpr hab)) htc
      exact ok.inv.wf.dag _ (TC.tail h1 hd)
  unfold Pj.setSuccs
  rw [hchk]

end Sound

/-! ### upper bounds on the effect of the hierarchy setters on `parent` -/

theorem setParentSome_parent_sub (g : G) (v h x y : Uid) (hx : (setParentSome g v h).1.parent x = some y) :
    g.parent x = some y ∨ (x = v ∧ y = h) := by
  rcases setParentSome_cases' g v h with ⟨e, he⟩ | ⟨sub, _, he⟩
  · rw [he] at hx; exact Or.inl hx
  · rw [he] at hx
    simp only at hx
    rw [(appStep_fields _ _ _).1, (ownStep_fields _ _ _).1, (parStep_fields _ _ _).1, (detachOld_fields g v).1] at hx
    by_cases e : x = v
    · subst e
      rw [upd_same] at hx
      exact Or.inr ⟨rfl, (Option.some.inj hx).symm⟩
    · rw [upd_other _ _ _ _ e] at hx
      exact Or.inl hx

theorem foldSetParent_parent_sub (h : Uid) : ∀ (vs : List Uid) (g : G) (x y : Uid),
    (foldSetParent g vs h).1.parent x = some y → g.parent x = some y ∨ (x ∈ vs ∧ y = h) := by
  intro vs
  induction vs with
  | nil => intro g x y hx; exact Or.inl hx
  | cons v vs ih =>
    intro g x y hx
    unfold foldSetParent at hx
    have h1 := setParentSome_parent_sub g v h x y
    have hsp' : setParent g v (some h) = setParentSome g v h := rfl
    rcases hsp : setParent g v (some h) with ⟨g1, e⟩
    rw [hsp] at hx
    rw [← hsp', hsp] at h1
    cases e with
    | some e =>
      rcases h1 hx with h2 | ⟨h2, h3⟩
      · exact Or.inl h2
      · exact Or.inr ⟨h2 ▸ List.mem_cons_self, h3⟩
    | none =>
      rcases ih g1 x y hx with h2 | ⟨h2, h3⟩
      · rcases h1 h2 with h4 | ⟨h4, h5⟩
        · exact Or.inl h4
        · exact Or.inr ⟨h4 ▸ List.mem_cons_self, h5⟩
      · exact Or.inr ⟨List.mem_cons_of_mem _ h2, h3⟩

theorem setChildren_parent_sub (g : G) (h : Uid) (l : List Uid) (x y : Uid)
    (hx : (setChildren g h l).1.parent x = some y) : g.parent x = some y ∨ (x ∈ l ∧ y = h) := by
  unfold setChildren at hx
  split at hx
  · exact Or.inl hx
  · rcases releaseChildren_cases g h l with he | ⟨subs, _, he⟩
    · rw [he] at hx; exact Or.inl hx
    · rw [he] at hx
      rcases foldSetParent_parent_sub h l _ x y hx with h1 | h1
      · left
        have h2 : (if (g.children h).contains x then none else g.parent x) = some y := h1
        split at h2
        · cases h2
        · exact h2
      · exact Or.inr h1

/-! ### the setter calls preserve soundness -/

namespace Sound
variable {s : G} {w : Uid} {sel : List Uid} {g : G}

theorem isClone_visible (ok : SelOK s w sel) : ∀ t ∈ sel, s.hidden t = false := fun t ht => (ok.mem t ht).2.1

theorem setParent_sound (h : Sound s w sel g) (ok : SelOK s w sel) {c : Uid} (hc : IsClone s sel c) (p : Option Uid)
    (hp : ∀ q, p = some q → IsClone s sel q ∧ s.parent (src s sel c) = some (src s sel q)) :
    Sound s w sel (setParent g c p).1 := by
  have hk : CloneOpKind s w sel (fun g => setParent g c p) := CloneOpKind.par c p hc (fun q hq => (hp q hq).1)
  have hacc := h.setParent_ok ok hc p hp
  have hpar : (setParent g c p).1.parent = upd g.parent c p := by
    cases p with
    | none => exact (setParentNone_effect g c h.ci.1.wf (h.owner_none ok hc)).2.1
    | some q =>
      have : setParentSome g c q = ((setParentSome g c q).1, none) := by
        have : (setParentSome g c q).2 = none := hacc
        rw [← this]
      exact (setParentSome_effect g _ c q h.ci.1.wf this).1
  refine ⟨hk.cinv (isClone_visible ok) g h.ci, hk.cframe ok.inv.bnd g h.fr, ?_, ?_⟩
  · intro x y hx hxy
    rw [hpar] at hxy
    by_cases e : x = c
    · subst e
      rw [upd_same] at hxy
      exact hp y hxy
    · rw [upd_other _ _ _ _ e] at hxy
      exact h.par x y hx hxy
  · intro a b hab
    rw [(setParent_links g c p).1] at hab
    exact h.lnk a b hab

theorem setChildren_sound (h : Sound s w sel g) (ok : SelOK s w sel) {c : Uid} (hc : IsClone s sel c) (l : List Uid)
    (hl : ∀ v ∈ l, IsClone s sel v ∧ s.parent (src s sel v) = some (src s sel c)) :
    Sound s w sel (setChildren g c l).1 := by
  have hk : CloneOpKind s w sel (fun g => setChildren g c l) := CloneOpKind.chi c l (Or.inl hc) (fun v hv => (hl v hv).1)
  refine ⟨hk.cinv (isClone_visible ok) g h.ci, hk.cframe ok.inv.bnd g h.fr, ?_, ?_⟩
  · intro x y hx hxy
    rcases setChildren_parent_sub g c l x y hxy with h1 | ⟨h1, h2⟩
    · exact h.par x y hx h1
    · rw [h2]
      exact ⟨hc, (hl x h1).2⟩
  · intro a b hab
    rw [(setChildren_links g c l).1] at hab
    exact h.lnk a b hab

theorem setPreds_sound (h : Sound s w sel g) (ok : SelOK s w sel) {c : Uid} (hc : IsClone s sel c) (l : List Uid)
    (hl : ∀ v ∈ l, (IsClone s sel v ∨ Outside s w v) ∧ src s sel v ∈ s.preds (src s sel c)) :
    Sound s w sel (setPreds g c l).1 := by
  have hk : CloneOpKind s w sel (fun g => setPreds g c l) := CloneOpKind.prd c l hc (fun v hv => (hl v hv).1)
  refine ⟨hk.cinv (isClone_visible ok) g h.ci, hk.cframe ok.inv.bnd g h.fr, ?_, ?_⟩
  · intro x y hx hxy
    rw [(setPreds_hier g c l).1] at hxy
    exact h.par x y hx hxy
  · intro a b hab hfr
    rcases setPreds_cases g c l with ⟨e, he⟩ | he
    · rw [he] at hab; exact h.lnk a b hab hfr
    · rw [he] at hab
      have hab' : a ∈ upd g.preds c l b := hab
      by_cases e : b = c
      · subst e
        rw [upd_same] at hab'
        exact (hl a hab').2
      · rw [upd_other _ _ _ _ e] at hab'
        exact h.lnk a b hab' hfr

theorem setSuccs_sound (h : Sound s w sel g) (ok : SelOK s w sel) {c : Uid} (hc : IsClone s sel c) (l : List Uid)
    (hl : ∀ v ∈ l, (IsClone s sel v ∨ Outside s w v) ∧ src s sel v ∈ s.succs (src s sel c)) :
    Sound s w sel (setSuccs g c l).1 := by
  have hk : CloneOpKind s w sel (fun g => setSuccs g c l) := CloneOpKind.suc c l hc (fun v hv => (hl v hv).1)
  refine ⟨hk.cinv (isClone_visible ok) g h.ci, hk.cframe ok.inv.bnd g h.fr, ?_, ?_⟩
  · intro x y hx hxy
    rw [(setSuccs_hier g c l).1] at hxy
    exact h.par x y hx hxy
  · intro a b hab hfr
    rcases setSuccs_cases g c l with ⟨e, he⟩ | he
    · rw [he] at hab; exact h.lnk a b hab hfr
    · rw [he] at hab
      rcases (mem_mirror (g.preds b) c b a l (g.succs c)).mp hab with ⟨_, h1⟩ | ⟨h1, h2⟩
      · exact h.lnk a b h1 hfr
      · rcases h2 with h2 | ⟨_, h2⟩
        · rw [h1]
          exact (ok.inv.wf.sym _ _).mpr (hl b h2).2
        · rw [h1]
          exact h.lnk c b h2 (Or.inl hc.ge)

theorem extend (ok : SelOK s w sel) : Sound s w sel (extend s sel) := by
  refine ⟨CInv.extend s sel ok.inv (isClone_visible ok), CFrame.extend s w sel ok.inv.bnd, ?_, ?_⟩
  · intro x y hx hxy
    have hxy' : s.parent x = some y := hxy
    have := (ok.inv.bnd.parent x y hxy').1
    have := hx.ge
    uomega
  · intro a b hab hfr
    have hab' : a ∈ s.preds b := hab
    have := ok.inv.bnd.preds b a hab'
    uomega

end Sound

/-! ### the arguments of the four calls for one task -/

theorem parentArg_ok (s : G) (sel : List Uid) (t q : Uid)
    (hq : (s.pubParent t).bind (cloneOf s.n sel) = some q) :
    IsClone s sel q ∧ s.parent t = some (src s sel q) := by
  obtain ⟨tp, h1, h2⟩ := Option.bind_eq_some_iff.mp hq
  obtain ⟨a, b⟩ := cloneOf_src s sel tp q h2
  exact ⟨a, b ▸ pubParent_some s t tp h1⟩

theorem childrenArg_ok (s : G) (hw : WF s) (sel : List Uid) (t v : Uid)
    (hv : v ∈ (s.children t).filterMap (cloneOf s.n sel)) :
    IsClone s sel v ∧ s.parent (src s sel v) = some t := by
  obtain ⟨x, hx, hxv⟩ := List.mem_filterMap.mp hv
  obtain ⟨a, b⟩ := cloneOf_src s sel x v hxv
  exact ⟨a, b ▸ (hw.listed x t).mpr hx⟩

theorem linkTarget_ok (s : G) (w : Uid) (sel : List Uid) (x v : Uid) (hx : x < s.n ∧ s.hidden x = false)
    (h : linkTarget s w s.n sel x = some v) : (IsClone s sel v ∨ Outside s w v) ∧ src s sel v = x := by
  refine ⟨linkTarget_kind s w sel x v hx h, ?_⟩
  unfold linkTarget at h
  split at h
  · exact (cloneOf_src s sel x v h).2
  · cases h
    exact src_lt s sel x hx.1

theorem predsArg_ok (s : G) (hi : Inv s) (w : Uid) (sel : List Uid) (t v : Uid)
    (hv : v ∈ (s.preds t).filterMap (linkTarget s w s.n sel)) :
    (IsClone s sel v ∨ Outside s w v) ∧ src s sel v ∈ s.preds t := by
  obtain ⟨x, hx, hxv⟩ := List.mem_filterMap.mp hv
  have := preds_ok s hi t x hx
  obtain ⟨a, b⟩ := linkTarget_ok s w sel x v ⟨this.2, this.1⟩ hxv
  exact ⟨a, b ▸ hx⟩

theorem succsArg_ok (s : G) (hi : Inv s) (w : Uid) (sel : List Uid) (t v : Uid)
    (hv : v ∈ (s.succs t).filterMap (linkTarget s w s.n sel)) :
    (IsClone s sel v ∨ Outside s w v) ∧ src s sel v ∈ s.succs t := by
  obtain ⟨x, hx, hxv⟩ := List.mem_filterMap.mp hv
  have := succs_ok s hi t x hx
  obtain ⟨a, b⟩ := linkTarget_ok s w sel x v ⟨this.2, this.1⟩ hxv
  exact ⟨a, b ▸ hx⟩

/-! ### running the sequence task by task -/

theorem seqOps_append_ok : ∀ (A B : List (G → G × Option Err)) (g : G), (seqOps id g A).2 = none →
    seqOps id g (A ++ B) = seqOps id (seqOps id g A).1 B := by
  intro A
  induction A with
  | nil => intro B g _; rfl
  | cons f fs ih =>
    intro B g h
    rcases hfs : f g with ⟨g', e⟩
    cases e with
    | some e =>
      rw [seqOps_cons_err f fs g g' e hfs] at h
      cases h
    | none =>
      rw [seqOps_cons_ok f fs g g' hfs] at h
      rw [List.cons_append, seqOps_cons_ok f (fs ++ B) g g' hfs, seqOps_cons_ok f fs g g' hfs]
      exact ih B g' h

theorem seqOps_flatMap (Q : Nat → G → Prop) (f : Uid → List (G → G × Option Err)) :
    ∀ (l : List Uid) (m : Nat) (g : G),
      (∀ i t g, l[i]? = some t → Q (m + i) g →
        (seqOps id g (f t)).2 = none ∧ Q (m + i + 1) (seqOps id g (f t)).1) →
      Q m g → (seqOps id g (l.flatMap f)).2 = none ∧ Q (m + l.length) (seqOps id g (l.flatMap f)).1 := by
  intro l
  induction l with
  | nil => intro m g _ hq; exact ⟨rfl, hq⟩
  | cons t l ih =>
    intro m g hstep hq
    obtain ⟨h1, h2⟩ := hstep 0 t g rfl hq
    rw [List.flatMap_cons, seqOps_append_ok _ _ g h1]
    have := ih (m + 1) (seqOps id g (f t)).1 (fun i t' g' hi hq' => by
      have := hstep (i + 1) t' g' (by simpa using hi) (by rw [← Nat.add_assoc, Nat.add_right_comm]; exact hq')
      rw [← Nat.add_assoc, Nat.add_right_comm m i 1] at this
      exact this) h2
    rw [List.length_cons, ← Nat.add_assoc, Nat.add_right_comm]
    exact this

theorem seqOps_four (Q0 Q1 Q2 Q3 Q4 : G → Prop) (o1 o2 o3 o4 : G → G × Option Err)
    (h1 : ∀ g, Q0 g → (o1 g).2 = none ∧ Q1 (o1 g).1) (h2 : ∀ g, Q1 g → (o2 g).2 = none ∧ Q2 (o2 g).1)
    (h3 : ∀ g, Q2 g → (o3 g).2 = none ∧ Q3 (o3 g).1) (h4 : ∀ g, Q3 g → (o4 g).2 = none ∧ Q4 (o4 g).1)
    (g : G) (h : Q0 g) : (seqOps id g [o1, o2, o3, o4]).2 = none ∧ Q4 (seqOps id g [o1, o2, o3, o4]).1 := by
  obtain ⟨a1, b1⟩ := h1 g h
  obtain ⟨a2, b2⟩ := h2 _ b1
  obtain ⟨a3, b3⟩ := h3 _ b2
  obtain ⟨a4, b4⟩ := h4 _ b3
  have e1 : o1 g = ((o1 g).1, none) := by rw [← a1]
  have e2 : o2 (o1 g).1 = ((o2 (o1 g).1).1, none) := by rw [← a2]
  have e3 : o3 (o2 (o1 g).1).1 = ((o3 (o2 (o1 g).1).1).1, none) := by rw [← a3]
  have e4 : o4 (o3 (o2 (o1 g).1).1).1 = ((o4 (o3 (o2 (o1 g).1).1).1).1, none) := by rw [← a4]
  rw [seqOps_cons_ok _ _ _ _ e1, seqOps_cons_ok _ _ _ _ e2, seqOps_cons_ok _ _ _ _ e3, seqOps_cons_ok _ _ _ _ e4]
  exact ⟨rfl, b4⟩

theorem SelOK.perTask_eq {s : G} {w : Uid} {sel : List Uid} (ok : SelOK s w sel) (m : Nat) (hm : m < sel.length) :
    perTask s w sel (sel.getD m 0) =
      [ (fun g => setParent g (s.n + m) ((s.pubParent (sel.getD m 0)).bind (cloneOf s.n sel))),
        (fun g => setChildren g (s.n + m) ((s.children (sel.getD m 0)).filterMap (cloneOf s.n sel))),
        (fun g => setPreds g (s.n + m) ((s.preds (sel.getD m 0)).filterMap (linkTarget s w s.n sel))),
        (fun g => setSuccs g (s.n + m) ((s.succs (sel.getD m 0)).filterMap (linkTarget s w s.n sel))) ] := by
  unfold perTask
  rw [ok.cloneOf_getD m hm]

theorem getElem?_getD (l : List Uid) (i : Nat) (t : Uid) (h : l[i]? = some t) : i < l.length ∧ t = l.getD i 0 := by
  obtain ⟨hi, ht⟩ := List.getElem?_eq_some_iff.mp h
  exact ⟨hi, by rw [getD_eq_getElem' l i hi, ht]⟩

/-- the four calls for one task are accepted and preserve soundness -/
theorem Sound.task_step {s : G} {w : Uid} {sel : List Uid} (ok : SelOK s w sel) (m : Nat) (hm : m < sel.length)
    (g : G) (h : Sound s w sel g) :
    (seqOps id g (perTask s w sel (sel.getD m 0))).2 = none ∧
    Sound s w sel (seqOps id g (perTask s w sel (sel.getD m 0))).1 := by
  rw [ok.perTask_eq m hm]
  have hc : IsClone s sel (s.n + m) := ⟨m, hm, rfl⟩
  have hsrc : src s sel (s.n + m) = sel.getD m 0 := src_clone s sel m
  refine seqOps_four (Sound s w sel) (Sound s w sel) (Sound s w sel) (Sound s w sel) (Sound s w sel) _ _ _ _
    ?_ ?_ ?_ ?_ g h
  · intro g h
    have hp : ∀ q, (s.pubParent (sel.getD m 0)).bind (cloneOf s.n sel) = some q →
        IsClone s sel q ∧ s.parent (src s sel (s.n + m)) = some (src s sel q) := by
      intro q hq
      rw [hsrc]; exact parentArg_ok s sel _ q hq
    exact ⟨h.setParent_ok ok hc _ hp, h.setParent_sound ok hc _ hp⟩
  · intro g h
    have hl : ∀ v ∈ (s.children (sel.getD m 0)).filterMap (cloneOf s.n sel),
        IsClone s sel v ∧ s.parent (src s sel v) = some (src s sel (s.n + m)) := by
      intro v hv
      rw [hsrc]; exact childrenArg_ok s ok.inv.wf sel _ v hv
    exact ⟨h.setChildren_ok ok hc _ hl, h.setChildren_sound ok hc _ hl⟩
  · intro g h
    have hl : ∀ v ∈ (s.preds (sel.getD m 0)).filterMap (linkTarget s w s.n sel),
        (IsClone s sel v ∨ Outside s w v) ∧ src s sel v ∈ s.preds (src s sel (s.n + m)) := by
      intro v hv
      rw [hsrc]; exact predsArg_ok s ok.inv w sel _ v hv
    exact ⟨h.setPreds_ok ok hc _ (fun v hv => (hl v hv).2), h.setPreds_sound ok hc _ hl⟩
  · intro g h
    have hl : ∀ v ∈ (s.succs (sel.getD m 0)).filterMap (linkTarget s w s.n sel),
        (IsClone s sel v ∨ Outside s w v) ∧ src s sel v ∈ s.succs (src s sel (s.n + m)) := by
      intro v hv
      rw [hsrc]; exact succsArg_ok s ok.inv w sel _ v hv
    exact ⟨h.setSuccs_ok ok hc _ (fun v hv => (hl v hv).2), h.setSuccs_sound ok hc _ hl⟩

/-- all per-task calls are accepted; the state before the final call is sound -/
theorem perTask_all_ok {s : G} {w : Uid} {sel : List Uid} (ok : SelOK s w sel) :
    (seqOps id (extend s sel) (sel.flatMap (perTask s w sel))).2 = none ∧
    Sound s w sel (seqOps id (extend s sel) (sel.flatMap (perTask s w sel))).1 := by
  have := seqOps_flatMap (fun _ g => Sound s w sel g) (perTask s w sel) sel 0 (extend s sel) ?_ (Sound.extend ok)
  · exact this
  · intro i t g hi hq
    obtain ⟨hi', rfl⟩ := getElem?_getD sel i t hi
    exact Sound.task_step ok i hi' g hq

theorem SelOK.of_args (s : G) (w : Uid) (roots : List Uid) (subs : List (List Uid)) (hi : Inv s)
    (hwbs : s.hidden w = true)
    (hm : ∀ r ∈ roots, s.owner r = some w ∧ s.hidden r = false)
    (h : roots.mapM (fun r => subtreeF s.children s.fuel r) = some subs) :
    SelOK s w (dedupFirst subs.flatten) := by
  refine ⟨hi, hwbs, nodup_eraseDups _, ?_⟩
  intro t ht
  obtain ⟨r, hr, hx⟩ := (mem_sel_iff s hi.wf roots subs h t).mp ht
  have ho : s.owner t = some w := (owner_of_RTC s hi.own.inherit hx).trans (hm r hr).1
  exact ⟨ho, below_not_hidden s hi.wf (hm r hr).2 hx, (hi.bnd.owner t w ho).1⟩

theorem cloneSel_accepted (s : G) (w : Uid) (roots : List Uid) (hi : Inv s) (hwbs : s.hidden w = true)
    (hm : ∀ r ∈ roots, s.owner r = some w ∧ s.hidden r = false) : (cloneSel s w roots).2.1 = none := by
  obtain ⟨subs, hsubs⟩ := mapM_total (fun r => subtreeF s.children s.fuel r) roots
    (fun a _ => subtreeF_children_total s hi.wf hi.bnd a)
  have ok := SelOK.of_args s w roots subs hi hwbs hm hsubs
  rw [cloneSel_eq s w roots subs hsubs]
  show (seqOps id _ (cloneOps s w roots _)).2 = none
  unfold cloneOps
  obtain ⟨h1, h2⟩ := perTask_all_ok ok
  rw [seqOps_append_ok _ _ _ h1]
  have h3 := h2.final_ok ok (roots.filterMap (cloneOf s.n (dedupFirst subs.flatten)))
    (filterMap_cloneOf_isClone s _ roots)
  have e : finalOp s roots (dedupFirst subs.flatten) (seqOps id (extend s (dedupFirst subs.flatten))
      ((dedupFirst subs.flatten).flatMap (perTask s w (dedupFirst subs.flatten)))).1 =
      ((finalOp s roots (dedupFirst subs.flatten) (seqOps id (extend s (dedupFirst subs.flatten))
      ((dedupFirst subs.flatten).flatMap (perTask s w (dedupFirst subs.flatten)))).1).1, none) := by
    have : (finalOp s roots (dedupFirst subs.flatten) (seqOps id (extend s (dedupFirst subs.flatten))
      ((dedupFirst subs.flatten).flatMap (perTask s w (dedupFirst subs.flatten)))).1).2 = none := h3
    rw [← this]
  rw [seqOps_cons_ok _ _ _ _ e]
  rfl

/-! ### sibling order: re-setting the parent of a child moves it to the end of the list

  `c.parent = p` removes `c` from `p.children` and appends it again.  The children of a clone are re-adopted one by
  one in index order, so that the list is rotated once around and ends up in the original order. -/

/-- the entries `≥ A` followed by the entries `< A` -/
def rot (A : Nat) (L : List Uid) : List Uid :=
  L.filter (fun x => decide (A ≤ x)) ++ L.filter (fun x => decide (x < A))

theorem mem_rot (A : Nat) (L : List Uid) (x : Uid) : x ∈ rot A L ↔ x ∈ L := by
  unfold rot
  rw [List.mem_append, List.mem_filter, List.mem_filter]
  constructor
  · rintro (h | h) <;> exact h.1
  · intro h
    by_cases e : A ≤ x
    · exact Or.inl ⟨h, by simpa using e⟩
    · exact Or.inr ⟨h, by simpa using Nat.lt_of_not_le e⟩

theorem rot_succ_of_not_mem (A : Nat) (L : List Uid) (h : A ∉ L) : rot (A + 1) L = rot A L := by
  unfold rot
  congr 1
  · apply List.filter_congr
    intro x hx
    have : x ≠ A := fun e => h (e ▸ hx)
    have h1 : (A + 1 ≤ x) ↔ (A ≤ x) := by uomega
    simp [h1]
  · apply List.filter_congr
    intro x hx
    have : x ≠ A := fun e => h (e ▸ hx)
    have h1 : (x < A + 1) ↔ (x < A) := by uomega
    simp [h1]

theorem rot_succ_of_mem (A : Nat) (L : List Uid) (h : A ∈ L) (hs : L.Pairwise (· < ·)) :
    (rot A L).erase A ++ [A] = rot (A + 1) L := by
  obtain ⟨lo, hi, rfl⟩ := List.append_of_mem h
  obtain ⟨_, h2, h3⟩ := List.pairwise_append.mp hs
  obtain ⟨h4, _⟩ := List.pairwise_cons.mp h2
  have hlo : ∀ x ∈ lo, x < A := fun x hx => h3 x hx A List.mem_cons_self
  have hhi : ∀ x ∈ hi, A < x := h4
  have f1 : lo.filter (fun x => decide (A ≤ x)) = [] :=
    List.filter_eq_nil_iff.mpr (fun x hx => by have := hlo x hx; simp; uomega)
  have f2 : hi.filter (fun x => decide (A ≤ x)) = hi :=
    List.filter_eq_self.mpr (fun x hx => by have := hhi x hx; simp; uomega)
  have f3 : lo.filter (fun x => decide (x < A)) = lo :=
    List.filter_eq_self.mpr (fun x hx => by have := hlo x hx; simpa using this)
  have f4 : hi.filter (fun x => decide (x < A)) = [] :=
    List.filter_eq_nil_iff.mpr (fun x hx => by have := hhi x hx; simp; uomega)
  have g1 : lo.filter (fun x => decide (A + 1 ≤ x)) = [] :=
    List.filter_eq_nil_iff.mpr (fun x hx => by have := hlo x hx; simp; uomega)
  have g2 : hi.filter (fun x => decide (A + 1 ≤ x)) = hi :=
    List.filter_eq_self.mpr (fun x hx => by have := hhi x hx; simp; uomega)
  have g3 : lo.filter (fun x => decide (x < A + 1)) = lo :=
    List.filter_eq_self.mpr (fun x hx => by have := hlo x hx; simp; uomega)
  have g4 : hi.filter (fun x => decide (x < A + 1)) = [] :=
    List.filter_eq_nil_iff.mpr (fun x hx => by have := hhi x hx; simp; uomega)
  unfold rot
  simp only [List.filter_append, List.filter_cons, f1, f2, f3, f4, g1, g2, g3, g4]
  simp

theorem rot_of_ge (A : Nat) (L : List Uid) (h : ∀ x ∈ L, A ≤ x) : rot A L = L := by
  unfold rot
  rw [List.filter_eq_self.mpr (fun x hx => by simpa using h x hx),
    List.filter_eq_nil_iff.mpr (fun x hx => by have := h x hx; simp; uomega)]
  simp

theorem rot_of_lt (A : Nat) (L : List Uid) (h : ∀ x ∈ L, x < A) : rot A L = L := by
  unfold rot
  rw [List.filter_eq_nil_iff.mpr (fun x hx => by have := h x hx; simp; uomega),
    List.filter_eq_self.mpr (fun x hx => by simpa using h x hx)]
  simp

theorem nodup_of_sorted (L : List Uid) (h : L.Pairwise (· < ·)) : L.Nodup :=
  List.nodup_iff_pairwise_ne.mpr (h.imp (fun hab => Nat.ne_of_lt hab))

/-! ### completeness: what the calls made so far have established -/

/-- the children list the clone of `sel[i]` is given -/
def Lc (s : G) (sel : List Uid) (i : Nat) : List Uid := (s.children (sel.getD i 0)).filterMap (cloneOf s.n sel)
def tgtP (s : G) (w : Uid) (sel : List Uid) (j : Nat) : List Uid :=
  (s.preds (sel.getD j 0)).filterMap (linkTarget s w s.n sel)
def tgtS (s : G) (w : Uid) (sel : List Uid) (j : Nat) : List Uid :=
  (s.succs (sel.getD j 0)).filterMap (linkTarget s w s.n sel)

/-- the selection is in pre-order: the clones of the children of a task have increasing uids, all above the
    uid of the clone of the task -/
structure PreOK (s : G) (sel : List Uid) : Prop where
  sorted : ∀ i, i < sel.length → (Lc s sel i).Pairwise (· < ·)
  above : ∀ i, i < sel.length → ∀ v ∈ Lc s sel i, s.n + i < v

theorem mem_Lc {s : G} {w : Uid} {sel : List Uid} (ok : SelOK s w sel) (i : Nat) (v : Uid) :
    v ∈ Lc s sel i ↔ IsClone s sel v ∧ s.parent (src s sel v) = some (sel.getD i 0) := by
  constructor
  · exact childrenArg_ok s ok.inv.wf sel _ v
  · rintro ⟨hv, hp⟩
    exact List.mem_filterMap.mpr ⟨src s sel v, (ok.inv.wf.listed _ _).mp hp, hv.cloneOf_src ok⟩

theorem SelOK.getD_inj {s : G} {w : Uid} {sel : List Uid} (ok : SelOK s w sel) (i j : Nat) (hi : i < sel.length)
    (hj : j < sel.length) (h : sel.getD i 0 = sel.getD j 0) : i = j := by
  have h1 := ok.cloneOf_getD i hi
  have h2 := ok.cloneOf_getD j hj
  rw [h, h2] at h1
  have := Option.some.inj h1
  omega

theorem Lc_disjoint {s : G} {w : Uid} {sel : List Uid} (ok : SelOK s w sel) (i j : Nat) (hi : i < sel.length)
    (hj : j < sel.length) (v : Uid) (h1 : v ∈ Lc s sel i) (h2 : v ∈ Lc s sel j) : i = j := by
  have a := ((mem_Lc ok i v).mp h1).2
  have b := ((mem_Lc ok j v).mp h2).2
  rw [a] at b
  exact ok.getD_inj i j hi hj (Option.some.inj b)

theorem linkTarget_member {s : G} {w : Uid} {sel : List Uid} (ok : SelOK s w sel) (j : Nat) (hj : j < sel.length) :
    linkTarget s w s.n sel (sel.getD j 0) = some (s.n + j) := by
  unfold linkTarget
  rw [if_pos (ok.mem _ (getD_mem sel j hj)).1]
  exact ok.cloneOf_getD j hj

theorem mem_tgtP_clone {s : G} {w : Uid} {sel : List Uid} (ok : SelOK s w sel) (j m : Nat) (hj : j < sel.length)
    (h : sel.getD j 0 ∈ s.preds (sel.getD m 0)) : s.n + j ∈ tgtP s w sel m :=
  List.mem_filterMap.mpr ⟨_, h, linkTarget_member ok j hj⟩

theorem mem_tgtS_clone {s : G} {w : Uid} {sel : List Uid} (ok : SelOK s w sel) (j m : Nat) (hj : j < sel.length)
    (h : sel.getD j 0 ∈ s.succs (sel.getD m 0)) : s.n + j ∈ tgtS s w sel m :=
  List.mem_filterMap.mpr ⟨_, h, linkTarget_member ok j hj⟩

structure Complete (s : G) (w : Uid) (sel : List Uid) (a b c d : Nat) (g : G) : Prop where
  cc : ∀ i, i < b → g.children (s.n + i) = rot (s.n + a) (Lc s sel i)
  cp : ∀ j, j < c → ∀ v ∈ tgtP s w sel j, v ∈ g.preds (s.n + j)
  cs : ∀ j, j < d → ∀ v ∈ tgtS s w sel j, v ∈ g.succs (s.n + j)

theorem pubParent_of_parent (s : G) (t p : Uid) (h : s.parent t = some p) (hp : s.hidden p = false) :
    s.pubParent t = some p := by
  unfold G.pubParent
  rw [h]
  simp [hp]

section steps
variable {s : G} {w : Uid} {sel : List Uid}

theorem Complete.step1 (ok : SelOK s w sel) (pk : PreOK s sel) (m : Nat) (hm : m < sel.length) (g : G)
    (hs : Sound s w sel g) (hc : Complete s w sel m m m m g) :
    Complete s w sel (m + 1) m m m
      (setParent g (s.n + m) ((s.pubParent (sel.getD m 0)).bind (cloneOf s.n sel))).1 := by
  have hcl : IsClone s sel (s.n + m) := ⟨m, hm, rfl⟩
  have hsrc : src s sel (s.n + m) = sel.getD m 0 := src_clone s sel m
  have hw := hs.ci.1.wf
  have hp : ∀ q, (s.pubParent (sel.getD m 0)).bind (cloneOf s.n sel) = some q →
      IsClone s sel q ∧ s.parent (src s sel (s.n + m)) = some (src s sel q) := by
    intro q hq
    rw [hsrc]; exact parentArg_ok s sel _ q hq
  have hacc := hs.setParent_ok ok hcl _ hp
  have hlinks := setParent_links g (s.n + m) ((s.pubParent (sel.getD m 0)).bind (cloneOf s.n sel))
  refine ⟨?_, ?_, ?_⟩
  · intro i hi
    have hik : i < sel.length := Nat.lt_trans hi hm
    have hold := hc.cc i hi
    -- the uniform part: the clone of `sel[m]` is not a child of the clone of `sel[i]`
    have hnot : s.n + m ∉ Lc s sel i → ((g.children (s.n + i)).erase (s.n + m)) = rot (s.n + (m + 1)) (Lc s sel i) := by
      intro hn
      rw [hold, List.erase_of_not_mem (fun hx => hn ((mem_rot _ _ _).mp hx))]
      exact (rot_succ_of_not_mem (s.n + m) _ hn).symm
    cases hpe : (s.pubParent (sel.getD m 0)).bind (cloneOf s.n sel) with
    | none =>
      rw [hpe] at hacc
      have eff := setParentNone_effect g (s.n + m) hw (hs.owner_none ok hcl)
      show (setParentNone g (s.n + m)).1.children (s.n + i) = _
      rw [eff.2.2.1]
      apply hnot
      intro hx
      have h1 := ((mem_Lc ok i _).mp hx).2
      rw [hsrc] at h1
      have h2 := pubParent_of_parent s _ _ h1 (ok.mem _ (getD_mem sel i hik)).2.1
      rw [h2] at hpe
      simp only [Option.bind_some] at hpe
      rw [ok.cloneOf_getD i hik] at hpe
      cases hpe
    | some q =>
      rw [hpe] at hacc
      obtain ⟨hq, hpq⟩ := hp q hpe
      have hacc' : setParentSome g (s.n + m) q = ((setParentSome g (s.n + m) q).1, none) := by
        have : (setParentSome g (s.n + m) q).2 = none := hacc
        rw [← this]
      have eff := setParentSome_effect g _ (s.n + m) q hw hacc'
      show (setParentSome g (s.n + m) q).1.children (s.n + i) = _
      rw [eff.2.1]
      by_cases e : s.n + i = q
      · rw [if_pos e, ← e, hold]
        have hmem : s.n + m ∈ Lc s sel i := by
          refine (mem_Lc ok i _).mpr ⟨hcl, ?_⟩
          rw [hpq, ← e, src_clone]
        exact rot_succ_of_mem (s.n + m) _ hmem (pk.sorted i hik)
      · rw [if_neg e]
        apply hnot
        intro hx
        have h1 := ((mem_Lc ok i _).mp hx).2
        rw [hpq] at h1
        have h2 : src s sel q = src s sel (s.n + i) := by rw [src_clone]; exact Option.some.inj h1
        exact e (IsClone.src_inj ok hq ⟨i, hik, rfl⟩ h2).symm
  · intro j hj v hv
    rw [hlinks.1]; exact hc.cp j hj v hv
  · intro j hj v hv
    rw [hlinks.2]; exact hc.cs j hj v hv

theorem Complete.step2 (ok : SelOK s w sel) (pk : PreOK s sel) (m : Nat) (hm : m < sel.length) (g : G)
    (hs : Sound s w sel g) (hc : Complete s w sel (m + 1) m m m g) :
    Complete s w sel (m + 1) (m + 1) m m (setChildren g (s.n + m) (Lc s sel m)).1 := by
  have hcl : IsClone s sel (s.n + m) := ⟨m, hm, rfl⟩
  have hsrc : src s sel (s.n + m) = sel.getD m 0 := src_clone s sel m
  have hw := hs.ci.1.wf
  have hl : ∀ v ∈ Lc s sel m, IsClone s sel v ∧ s.parent (src s sel v) = some (src s sel (s.n + m)) := by
    intro v hv
    rw [hsrc]; exact (mem_Lc ok m v).mp hv
  have hacc := hs.setChildren_ok ok hcl _ hl
  have hacc' : setChildren g (s.n + m) (Lc s sel m) = ((setChildren g (s.n + m) (Lc s sel m)).1, none) := by
    rw [← hacc]
  have eff := setChildren_effect g _ (s.n + m) (Lc s sel m) hw
    (fun v hv => hs.hidden_clone ok (hl v hv).1) (nodup_of_sorted _ (pk.sorted m hm)) hacc'
  have hlinks := setChildren_links g (s.n + m) (Lc s sel m)
  refine ⟨?_, ?_, ?_⟩
  · intro i hi
    rw [eff.2.1]
    by_cases e : i = m
    · subst e
      rw [if_pos rfl]
      exact (rot_of_ge _ _ (fun x hx => by have := pk.above i hm x hx; uomega)).symm
    · have him : i < m := by omega
      rw [if_neg (by uomega), hc.cc i him]
      apply List.filter_eq_self.mpr
      intro x hx
      have hx' := (mem_rot _ _ _).mp hx
      have : x ∉ Lc s sel m := fun h2 => e (Lc_disjoint ok i m (Nat.lt_trans him hm) hm x hx' h2)
      simpa using this
  · intro j hj v hv
    rw [hlinks.1]; exact hc.cp j hj v hv
  · intro j hj v hv
    rw [hlinks.2]; exact hc.cs j hj v hv

theorem setPreds_eq_of_ok (g : G) (c : Uid) (l : List Uid) (h : (setPreds g c l).2 = none) :
    (setPreds g c l).1 = mutPreds g c l := by
  rcases setPreds_cases g c l with ⟨e, he⟩ | he
  · rw [he] at h; cases h
  · rw [he]

theorem setSuccs_eq_of_ok (g : G) (c : Uid) (l : List Uid) (h : (setSuccs g c l).2 = none) :
    (setSuccs g c l).1 = mutSuccs g c l := by
  rcases setSuccs_cases g c l with ⟨e, he⟩ | he
  · rw [he] at h; cases h
  · rw [he]

theorem Complete.step3 (ok : SelOK s w sel) (m : Nat) (hm : m < sel.length) (g : G)
    (hs : Sound s w sel g) (hc : Complete s w sel (m + 1) (m + 1) m m g) :
    Complete s w sel (m + 1) (m + 1) (m + 1) m (setPreds g (s.n + m) (tgtP s w sel m)).1 := by
  have hcl : IsClone s sel (s.n + m) := ⟨m, hm, rfl⟩
  have hsrc : src s sel (s.n + m) = sel.getD m 0 := src_clone s sel m
  have hl : ∀ v ∈ tgtP s w sel m, (IsClone s sel v ∨ Outside s w v) ∧ src s sel v ∈ s.preds (src s sel (s.n + m)) := by
    intro v hv
    rw [hsrc]; exact predsArg_ok s ok.inv w sel _ v hv
  have hacc := hs.setPreds_ok ok hcl _ (fun v hv => (hl v hv).2)
  have heq := setPreds_eq_of_ok g _ _ hacc
  refine ⟨?_, ?_, ?_⟩
  · intro i hi
    rw [(setPreds_hier g _ _).2.1]; exact hc.cc i hi
  · intro j hj v hv
    rw [heq]
    show v ∈ upd g.preds (s.n + m) (tgtP s w sel m) (s.n + j)
    by_cases e : j = m
    · subst e; rw [upd_same]; exact hv
    · rw [upd_other _ _ _ _ (by uomega)]
      exact hc.cp j (by omega) v hv
  · intro j hj v hv
    rw [heq]
    refine (mem_mirror (g.succs (s.n + j)) (s.n + m) (s.n + j) v (tgtP s w sel m) (g.preds (s.n + m))).mpr ?_
    have hold := hc.cs j hj v hv
    by_cases e : v = s.n + m
    · right
      refine ⟨e, Or.inl ?_⟩
      have h1 := (succsArg_ok s ok.inv w sel _ v hv).2
      rw [e, hsrc] at h1
      exact mem_tgtP_clone ok j m (Nat.lt_trans hj hm) ((ok.inv.wf.sym _ _).mpr h1)
    · exact Or.inl ⟨e, hold⟩

theorem Complete.step4 (ok : SelOK s w sel) (m : Nat) (hm : m < sel.length) (g : G)
    (hs : Sound s w sel g) (hc : Complete s w sel (m + 1) (m + 1) (m + 1) m g) :
    Complete s w sel (m + 1) (m + 1) (m + 1) (m + 1) (setSuccs g (s.n + m) (tgtS s w sel m)).1 := by
  have hcl : IsClone s sel (s.n + m) := ⟨m, hm, rfl⟩
  have hsrc : src s sel (s.n + m) = sel.getD m 0 := src_clone s sel m
  have hl : ∀ v ∈ tgtS s w sel m, (IsClone s sel v ∨ Outside s w v) ∧ src s sel v ∈ s.succs (src s sel (s.n + m)) := by
    intro v hv
    rw [hsrc]; exact succsArg_ok s ok.inv w sel _ v hv
  have hacc := hs.setSuccs_ok ok hcl _ (fun v hv => (hl v hv).2)
  have heq := setSuccs_eq_of_ok g _ _ hacc
  refine ⟨?_, ?_, ?_⟩
  · intro i hi
    rw [(setSuccs_hier g _ _).2.1]; exact hc.cc i hi
  · intro j hj v hv
    rw [heq]
    refine (mem_mirror (g.preds (s.n + j)) (s.n + m) (s.n + j) v (tgtS s w sel m) (g.succs (s.n + m))).mpr ?_
    have hold := hc.cp j hj v hv
    by_cases e : v = s.n + m
    · right
      refine ⟨e, Or.inl ?_⟩
      have h1 := (predsArg_ok s ok.inv w sel _ v hv).2
      rw [e, hsrc] at h1
      exact mem_tgtS_clone ok j m (by omega) ((ok.inv.wf.sym _ _).mp h1)
    · exact Or.inl ⟨e, hold⟩
  · intro j hj v hv
    rw [heq]
    show v ∈ upd g.succs (s.n + m) (tgtS s w sel m) (s.n + j)
    by_cases e : j = m
    · subst e; rw [upd_same]; exact hv
    · rw [upd_other _ _ _ _ (by uomega)]
      exact hc.cs j (by omega) v hv

end steps

/-- the four calls for one task: accepted, sound, and one more task completed -/
theorem Complete.task_step {s : G} {w : Uid} {sel : List Uid} (ok : SelOK s w sel) (pk : PreOK s sel) (m : Nat)
    (hm : m < sel.length) (g : G) (h : Sound s w sel g ∧ Complete s w sel m m m m g) :
    (seqOps id g (perTask s w sel (sel.getD m 0))).2 = none ∧
    (Sound s w sel (seqOps id g (perTask s w sel (sel.getD m 0))).1 ∧
     Complete s w sel (m + 1) (m + 1) (m + 1) (m + 1) (seqOps id g (perTask s w sel (sel.getD m 0))).1) := by
  rw [ok.perTask_eq m hm]
  have hc : IsClone s sel (s.n + m) := ⟨m, hm, rfl⟩
  have hsrc : src s sel (s.n + m) = sel.getD m 0 := src_clone s sel m
  refine seqOps_four (fun g => Sound s w sel g ∧ Complete s w sel m m m m g)
    (fun g => Sound s w sel g ∧ Complete s w sel (m + 1) m m m g)
    (fun g => Sound s w sel g ∧ Complete s w sel (m + 1) (m + 1) m m g)
    (fun g => Sound s w sel g ∧ Complete s w sel (m + 1) (m + 1) (m + 1) m g)
    (fun g => Sound s w sel g ∧ Complete s w sel (m + 1) (m + 1) (m + 1) (m + 1) g) _ _ _ _
    ?_ ?_ ?_ ?_ g h
  · intro g ⟨h, hcp⟩
    have hp : ∀ q, (s.pubParent (sel.getD m 0)).bind (cloneOf s.n sel) = some q →
        IsClone s sel q ∧ s.parent (src s sel (s.n + m)) = some (src s sel q) := by
      intro q hq
      rw [hsrc]; exact parentArg_ok s sel _ q hq
    exact ⟨h.setParent_ok ok hc _ hp, h.setParent_sound ok hc _ hp, Complete.step1 ok pk m hm g h hcp⟩
  · intro g ⟨h, hcp⟩
    have hl : ∀ v ∈ (s.children (sel.getD m 0)).filterMap (cloneOf s.n sel),
        IsClone s sel v ∧ s.parent (src s sel v) = some (src s sel (s.n + m)) := by
      intro v hv
      rw [hsrc]; exact childrenArg_ok s ok.inv.wf sel _ v hv
    exact ⟨h.setChildren_ok ok hc _ hl, h.setChildren_sound ok hc _ hl, Complete.step2 ok pk m hm g h hcp⟩
  · intro g ⟨h, hcp⟩
    have hl : ∀ v ∈ (s.preds (sel.getD m 0)).filterMap (linkTarget s w s.n sel),
        (IsClone s sel v ∨ Outside s w v) ∧ src s sel v ∈ s.preds (src s sel (s.n + m)) := by
      intro v hv
      rw [hsrc]; exact predsArg_ok s ok.inv w sel _ v hv
    exact ⟨h.setPreds_ok ok hc _ (fun v hv => (hl v hv).2), h.setPreds_sound ok hc _ hl,
      Complete.step3 ok m hm g h hcp⟩
  · intro g ⟨h, hcp⟩
    have hl : ∀ v ∈ (s.succs (sel.getD m 0)).filterMap (linkTarget s w s.n sel),
        (IsClone s sel v ∨ Outside s w v) ∧ src s sel v ∈ s.succs (src s sel (s.n + m)) := by
      intro v hv
      rw [hsrc]; exact succsArg_ok s ok.inv w sel _ v hv
    exact ⟨h.setSuccs_ok ok hc _ (fun v hv => (hl v hv).2), h.setSuccs_sound ok hc _ hl,
      Complete.step4 ok m hm g h hcp⟩

/-- the state before the final call: sound, and every task completed -/
theorem perTask_all_complete {s : G} {w : Uid} {sel : List Uid} (ok : SelOK s w sel) (pk : PreOK s sel) :
    (seqOps id (extend s sel) (sel.flatMap (perTask s w sel))).2 = none ∧
    Sound s w sel (seqOps id (extend s sel) (sel.flatMap (perTask s w sel))).1 ∧
    Complete s w sel sel.length sel.length sel.length sel.length
      (seqOps id (extend s sel) (sel.flatMap (perTask s w sel))).1 := by
  have := seqOps_flatMap (fun m g => Sound s w sel g ∧ Complete s w sel m m m m g) (perTask s w sel) sel 0
    (extend s sel) ?_ ⟨Sound.extend ok, ⟨fun i hi => absurd hi (Nat.not_lt_zero i),
      fun i hi => absurd hi (Nat.not_lt_zero i), fun i hi => absurd hi (Nat.not_lt_zero i)⟩⟩
  · simpa using this
  · intro i t g hi hq
    obtain ⟨hi', rfl⟩ := getElem?_getD sel i t hi
    rw [Nat.zero_add] at hq ⊢
    exact Complete.task_step ok pk i hi' g hq

/-! ### the final call: the new WBS root adopts the clones of the roots -/

/-- what independence of the roots provides -/
structure RootsOK (s : G) (sel roots : List Uid) : Prop where
  nodup : roots.Nodup
  mem : ∀ r ∈ roots, r ∈ sel
  top : ∀ r ∈ roots, ∀ p, s.parent r = some p → p ∉ sel
  cover : ∀ t ∈ sel, t ∈ roots ∨ ∃ p ∈ sel, s.parent t = some p

/-- the mirrored structure, as propositions -/
structure Mirror (s : G) (w : Uid) (sel roots : List Uid) (g : G) : Prop where
  children : ∀ i, i < sel.length → g.children (s.n + i) = Lc s sel i
  rootChildren : g.children (s.n + sel.length) = roots.filterMap (cloneOf s.n sel)
  rootHidden : g.hidden (s.n + sel.length) = true
  rootOwner : g.owner (s.n + sel.length) = some (s.n + sel.length)
  owner : ∀ i, i < sel.length → g.owner (s.n + i) = some (s.n + sel.length)
  parentIn : ∀ j i, j < sel.length → i < sel.length → s.parent (sel.getD j 0) = some (sel.getD i 0) →
    g.parent (s.n + j) = some (s.n + i)
  parentTop : ∀ j, j < sel.length → sel.getD j 0 ∈ roots → g.parent (s.n + j) = some (s.n + sel.length)
  predsIn : ∀ j, j < sel.length → ∀ v ∈ tgtP s w sel j, v ∈ g.preds (s.n + j)
  succsIn : ∀ j, j < sel.length → ∀ v ∈ tgtS s w sel j, v ∈ g.succs (s.n + j)
  predsOut : ∀ j, j < sel.length → ∀ v ∈ g.preds (s.n + j), v ∈ tgtP s w sel j
  succsOut : ∀ j, j < sel.length → ∀ v ∈ g.succs (s.n + j), v ∈ tgtS s w sel j

theorem filterMap_cloneOf_nodup (s : G) (sel : List Uid) (l : List Uid)
    (hl : l.Nodup) : (l.filterMap (cloneOf s.n sel)).Nodup := by
  rw [List.nodup_iff_pairwise_ne] at hl ⊢
  refine List.Pairwise.filterMap _ ?_ hl
  intro a a' hne b hb b' hb' e
  subst e
  have h1 := (cloneOf_src s sel a b hb).2
  have h2 := (cloneOf_src s sel a' b hb').2
  exact hne (h1.symm.trans h2)

/-- an old uid in the link list of a clone is a task outside the source WBS -/
theorem Sound.link_target {s : G} {w : Uid} {sel : List Uid} {g : G} (h : Sound s w sel g) (ok : SelOK s w sel)
    (a c : Uid) (hc : IsClone s sel c) (hl : a ∈ g.preds c ∨ a ∈ g.succs c) :
    linkTarget s w s.n sel (src s sel a) = some a := by
  have hw := h.ci.1.wf
  by_cases ha : s.n ≤ a
  · have hacl : IsClone s sel a := by
      rcases hl with hl | hl
      · exact (h.link_fresh a c hl).1 ha
      · exact (h.link_fresh c a ((hw.sym c a).mpr hl)).2 ha
    unfold linkTarget
    rw [if_pos (ok.mem _ hacl.src_mem).1]
    exact hacl.cloneOf_src ok
  · have ha' : a < s.n := Nat.lt_of_not_le ha
    rw [src_lt s sel a ha']
    unfold linkTarget
    have hno : s.owner a ≠ some w := by
      intro ho
      have hm := h.fr.2.member a ha' ho
      have hcge := hc.ge
      rcases hl with hl | hl
      · have : c ∈ g.succs a := (hw.sym a c).mp hl
        rw [hm.2] at this
        have := (ok.inv.bnd.succs a c this).2
        uomega
      · have : c ∈ g.preds a := (hw.sym c a).mpr hl
        rw [hm.1] at this
        have := (ok.inv.bnd.preds a c this).2
        uomega
    rw [if_neg hno]

theorem final_mirror {s : G} {w : Uid} {sel roots : List Uid} (ok : SelOK s w sel) (pk : PreOK s sel)
    (rk : RootsOK s sel roots) (g : G) (hs : Sound s w sel g)
    (hc : Complete s w sel sel.length sel.length sel.length sel.length g) :
    Mirror s w sel roots (setChildren g (s.n + sel.length) (roots.filterMap (cloneOf s.n sel))).1 := by
  have hw := hs.ci.1.wf
  have hlr : ∀ v ∈ roots.filterMap (cloneOf s.n sel), IsClone s sel v := filterMap_cloneOf_isClone s sel roots
  have hacc := hs.final_ok ok _ hlr
  have hacc' : setChildren g (s.n + sel.length) (roots.filterMap (cloneOf s.n sel)) =
      ((setChildren g (s.n + sel.length) (roots.filterMap (cloneOf s.n sel))).1, none) := by rw [← hacc]
  have eff := setChildren_effect g _ _ _ hw (fun v hv => hs.hidden_clone ok (hlr v hv))
    (filterMap_cloneOf_nodup s sel roots rk.nodup) hacc'
  have hk : CloneOpKind s w sel (fun g => setChildren g (s.n + sel.length) (roots.filterMap (cloneOf s.n sel))) :=
    CloneOpKind.chi _ _ (Or.inr rfl) hlr
  have hci := hk.cinv (Sound.isClone_visible ok) g hs.ci
  -- abbreviate the final state
  generalize (setChildren g (s.n + sel.length) (roots.filterMap (cloneOf s.n sel))).1 = g' at eff hci
  obtain ⟨_, effc, effp, effs⟩ := eff
  have hw' := hci.1.wf
  have hrootsrc : ∀ v ∈ roots.filterMap (cloneOf s.n sel), src s sel v ∈ roots := by
    intro v hv
    obtain ⟨r, hr, hrv⟩ := List.mem_filterMap.mp hv
    rw [(cloneOf_src s sel r v hrv).2]; exact hr
  have hrootmem : ∀ j, j < sel.length → sel.getD j 0 ∈ roots → s.n + j ∈ roots.filterMap (cloneOf s.n sel) :=
    fun j hj hr => List.mem_filterMap.mpr ⟨_, hr, ok.cloneOf_getD j hj⟩
  have hchildren : ∀ i, i < sel.length → g'.children (s.n + i) = Lc s sel i := by
    intro i hi
    rw [effc, if_neg (by uomega), hc.cc i hi]
    have hlt : ∀ x ∈ Lc s sel i, x < s.n + sel.length := by
      intro x hx
      obtain ⟨j, hj, rfl⟩ := ((mem_Lc ok i x).mp hx).1
      uomega
    rw [rot_of_lt _ _ hlt]
    apply List.filter_eq_self.mpr
    intro x hx
    have : x ∉ roots.filterMap (cloneOf s.n sel) := by
      intro hxr
      exact rk.top _ (hrootsrc x hxr) _ ((mem_Lc ok i x).mp hx).2 (getD_mem sel i hi)
    simpa using this
  have hrootch : g'.children (s.n + sel.length) = roots.filterMap (cloneOf s.n sel) := by
    rw [effc, if_pos rfl]
  have hrh : g'.hidden (s.n + sel.length) = true := by
    rw [hci.hidden]; exact extend_hidden_root s sel
  have hparIn : ∀ j i, j < sel.length → i < sel.length → s.parent (sel.getD j 0) = some (sel.getD i 0) →
      g'.parent (s.n + j) = some (s.n + i) := by
    intro j i hj hi hp
    apply (hw'.listed _ _).mpr
    rw [hchildren i hi]
    exact (mem_Lc ok i _).mpr ⟨⟨j, hj, rfl⟩, by rw [src_clone]; exact hp⟩
  have hparTop : ∀ j, j < sel.length → sel.getD j 0 ∈ roots → g'.parent (s.n + j) = some (s.n + sel.length) := by
    intro j hj hr
    apply (hw'.listed _ _).mpr
    rw [hrootch]
    exact hrootmem j hj hr
  have hro : g'.owner (s.n + sel.length) = some (s.n + sel.length) := hci.1.own.root _ hrh
  have howner : ∀ i, i < sel.length → g'.owner (s.n + i) = some (s.n + sel.length) := by
    intro i
    induction i using Nat.strongRecOn with
    | _ i ih =>
      intro hi
      rcases rk.cover _ (getD_mem sel i hi) with hr | ⟨p, hp, hpar⟩
      · rw [hci.1.own.inherit _ _ (hparTop i hi hr)]; exact hro
      · obtain ⟨j, hj, hpj⟩ := List.mem_iff_getElem.mp hp
        have hpj' : sel.getD j 0 = p := by rw [getD_eq_getElem' sel j hj]; exact hpj
        rw [← hpj'] at hpar
        have hji : j < i := by
          have h1 : s.n + i ∈ Lc s sel j := (mem_Lc ok j _).mpr ⟨⟨i, hi, rfl⟩, by rw [src_clone]; exact hpar⟩
          have := pk.above j hj _ h1
          uomega
        rw [hci.1.own.inherit _ _ (hparIn i j hi hj hpar)]
        exact ih j hji hj
  -- links: the final call does not touch them
  have hsound_dep : ∀ a b, a ∈ g'.preds b → src s sel a ∈ s.preds (src s sel b) := by
    intro a b hab
    rw [effp] at hab
    exact hs.dep a b hab
  refine ⟨hchildren, hrootch, hrh, hro, howner, hparIn, hparTop, ?_, ?_, ?_, ?_⟩
  · intro j hj v hv
    rw [effp]; exact hc.cp j hj v hv
  · intro j hj v hv
    rw [effs]; exact hc.cs j hj v hv
  · intro j hj v hv
    rw [effp] at hv
    have hcl : IsClone s sel (s.n + j) := ⟨j, hj, rfl⟩
    have h1 := hs.dep v _ hv
    rw [src_clone] at h1
    exact List.mem_filterMap.mpr ⟨_, h1, hs.link_target ok v _ hcl (Or.inl hv)⟩
  · intro j hj v hv
    rw [effs] at hv
    have hcl : IsClone s sel (s.n + j) := ⟨j, hj, rfl⟩
    have h1 := hs.dep _ v ((hs.ci.1.wf.sym _ _).mpr hv)
    rw [src_clone] at h1
    exact List.mem_filterMap.mpr ⟨_, (ok.inv.wf.sym _ _).mp h1, hs.link_target ok v _ hcl (Or.inr hv)⟩

/-! ### from the mirrored structure to the executable predicates -/

theorem sameSet_of_mem (a b : List Uid) (h1 : ∀ x ∈ a, x ∈ b) (h2 : ∀ x ∈ b, x ∈ a) : sameSet a b = true := by
  unfold sameSet
  simp only [Bool.and_eq_true, List.all_eq_true, List.contains_iff_mem]
  exact ⟨h1, h2⟩

theorem tgt_eq_linkTarget (s : G) (w : Uid) (sel : List Uid) :
    (fun (x : Uid) => if (s.owner x == some w) = true then cloneOf s.n sel x else some x) = linkTarget s w s.n sel := by
  funext x
  unfold linkTarget
  by_cases h : s.owner x = some w
  · simp [h]
  · simp [h]

theorem Mirror.linksB {s : G} {w : Uid} {sel roots : List Uid} {g : G} (m : Mirror s w sel roots g) :
    cloneLinksB s g w sel = true := by
  unfold cloneLinksB
  simp only [tgt_eq_linkTarget]
  rw [List.all_eq_true]
  intro i hi
  have hi' : i < sel.length := List.mem_range.mp hi
  rw [Bool.and_eq_true]
  exact ⟨sameSet_of_mem _ _ (m.predsOut i hi') (m.predsIn i hi'),
    sameSet_of_mem _ _ (m.succsOut i hi') (m.succsIn i hi')⟩

theorem Mirror.hierarchyB {s : G} {w : Uid} {sel roots : List Uid} {g : G} (m : Mirror s w sel roots g)
    (ok : SelOK s w sel) (rk : RootsOK s sel roots)
    (htid : ∀ i, i < sel.length → g.tid (s.n + i) = s.tid (sel.getD i 0)) :
    cloneHierarchyB s g (s.n + sel.length) sel roots = true := by
  unfold cloneHierarchyB
  simp only [Bool.and_eq_true, beq_iff_eq]
  refine ⟨⟨⟨?_, m.rootChildren⟩, m.rootHidden⟩, m.rootOwner⟩
  rw [List.all_eq_true]
  intro i hi
  have hi' : i < sel.length := List.mem_range.mp hi
  simp only [Bool.and_eq_true, beq_iff_eq]
  refine ⟨⟨⟨htid i hi', m.children i hi'⟩, m.owner i hi'⟩, ?_⟩
  have hroot : (∀ p ∈ sel, s.parent (sel.getD i 0) ≠ some p) → g.parent (s.n + i) = some (s.n + sel.length) := by
    intro hno
    rcases rk.cover _ (getD_mem sel i hi') with hr | ⟨p, hp, hpar⟩
    · exact m.parentTop i hi' hr
    · exact absurd hpar (hno p hp)
  cases hpp : s.pubParent (sel.getD i 0) with
  | none =>
    simp only [beq_iff_eq]
    apply hroot
    intro p hp hpar
    rw [pubParent_of_parent s _ p hpar (ok.mem p hp).2.1] at hpp
    cases hpp
  | some p =>
    have hpar := pubParent_some s _ p hpp
    cases hco : cloneOf s.n sel p with
    | none =>
      simp only [hco, beq_iff_eq]
      apply hroot
      intro p' hp' hpar'
      rw [hpar] at hpar'
      have := Option.some.inj hpar'
      subst this
      exact (cloneOf_none_iff s.n sel p).mp hco hp'
    | some cp =>
      simp only [hco, beq_iff_eq]
      obtain ⟨j, hj, rfl, hjx, _⟩ := cloneOf_some s.n sel p cp hco
      refine m.parentIn i j hi' hj ?_
      rw [hpar, getD_eq_getElem' sel j hj, hjx]

/-! ### independent roots: the selection is a concatenation of pre-order enumerations -/

theorem indep_facts (s : G) (hw : WF s) (roots : List Uid) (h : rootsIndependentB s roots = true) :
    roots.Nodup ∧ ∀ r ∈ roots, ∀ q ∈ roots, r ≠ q → ¬ TC (par s) r q := by
  unfold rootsIndependentB at h
  rw [Bool.and_eq_true] at h
  obtain ⟨h1, h2⟩ := h
  refine ⟨nodup_of_eraseDups_length roots (by simpa [nodupB] using h1), ?_⟩
  intro r hr q hq hne htc
  have h3 := List.all_eq_true.mp (List.all_eq_true.mp h2 r hr) q hq
  rw [Bool.or_eq_true] at h3
  rcases h3 with h3 | h3
  · exact hne (by simpa using h3)
  · split at h3
    · rename_i d hd
      have : r ∈ d := (mem_descF_children s hw _ q d hd r).mpr htc
      simp [this] at h3
    · cases h3

theorem idxOf_cons_ne' (l : List Uid) (a x : Uid) (h : x ≠ a) : (a :: l).idxOf x = l.idxOf x + 1 := by
  rw [List.idxOf_cons]
  have : (a == x) = false := by simpa using fun e => h e.symm
  rw [this]; rfl

theorem RootsOK.of_indep (s : G) (hi : Inv s) (roots : List Uid) (subs : List (List Uid))
    (h : roots.mapM (fun r => subtreeF s.children s.fuel r) = some subs)
    (hind : rootsIndependentB s roots = true) : RootsOK s (dedupFirst subs.flatten) roots := by
  obtain ⟨hnd, hindep⟩ := indep_facts s hi.wf roots hind
  have hmem := mem_sel_iff s hi.wf roots subs h
  refine ⟨hnd, ?_, ?_, ?_⟩
  · intro r hr
    exact (hmem r).mpr ⟨r, hr, RTC.refl⟩
  · intro r hr p hp hps
    obtain ⟨q, hq, hpq⟩ := (hmem p).mp hps
    have htc : TC (par s) r q := TC.of_step_RTC hp hpq
    by_cases e : r = q
    · subst e; exact hi.wf.forest r htc
    · exact hindep r hr q hq e htc
  · intro t ht
    obtain ⟨r, hr, htr⟩ := (hmem t).mp ht
    rcases htr.cases_eq_or_TC with e | e
    · left; rw [e]; exact hr
    · right
      rcases e.head_cases with h1 | ⟨b, h1, h2⟩
      · exact ⟨r, (hmem r).mpr ⟨r, hr, RTC.refl⟩, h1⟩
      · exact ⟨b, (hmem b).mpr ⟨r, hr, h2.toRTC⟩, h1⟩

/-- under independence the selection has no repetition even before `dedupFirst`, and it splits around every root -/
theorem sel_structure (s : G) (hi : Inv s) (roots : List Uid) (subs : List (List Uid))
    (h : roots.mapM (fun r => subtreeF s.children s.fuel r) = some subs)
    (hind : rootsIndependentB s roots = true) :
    dedupFirst subs.flatten = subs.flatten ∧ subs.flatten.Nodup ∧
    ∀ x ∈ subs.flatten, ∃ r A B D, descF s.children s.fuel r = some D ∧
      subs.flatten = A ++ (r :: D) ++ B ∧ (x = r ∨ x ∈ D) := by
  obtain ⟨hnd, hindep⟩ := indep_facts s hi.wf roots hind
  have hw := hi.wf
  have hdesc : ∀ r, descF s.children s.fuel r = some (dsc s.children s.fuel r) := by
    intro r
    obtain ⟨l, hl⟩ := descF_children_total s hw hi.bnd r
    unfold dsc; rw [hl]; rfl
  have hsubs : subs = roots.map (fun r => r :: dsc s.children s.fuel r) := by
    refine mapM_some_eq_map _ _ roots subs h ?_
    intro a _ b hb
    simp only [subtreeF, hdesc a, Option.map_some, Option.some.injEq] at hb
    exact hb.symm
  have hmemg : ∀ r x, x ∈ r :: dsc s.children s.fuel r → RTC (par s) x r := by
    intro r x hx
    rcases List.mem_cons.mp hx with rfl | hx
    · exact RTC.refl
    · exact ((mem_descF_children s hw _ r _ (hdesc r) x).mp hx).toRTC
  have hndf : subs.flatten.Nodup := by
    rw [hsubs]
    refine flatten_map_nodup _ roots hnd ?_ ?_
    · intro r _
      refine List.nodup_cons.mpr ⟨?_, descF_children_nodup s hw _ r _ (hdesc r)⟩
      intro hrr
      exact hw.forest r ((mem_descF_children s hw _ r _ (hdesc r) r).mp hrr)
    · intro r hr q hq hne x hx hx'
      rcases par_chain s (hmemg r x hx) (hmemg q x hx') with h1 | h1
      · rcases h1.cases_eq_or_TC with e | e
        · exact hne e
        · exact hindep r hr q hq hne e
      · rcases h1.cases_eq_or_TC with e | e
        · exact hne e.symm
        · exact hindep q hq r hr (Ne.symm hne) e
  refine ⟨eraseDups_of_nodup _ hndf, hndf, ?_⟩
  intro x hx
  rw [hsubs] at hx
  obtain ⟨b, hb, hxb⟩ := List.mem_flatten.mp hx
  obtain ⟨r, hr, rfl⟩ := List.mem_map.mp hb
  obtain ⟨R1, R2, hsplit⟩ := List.append_of_mem hr
  refine ⟨r, (R1.map (fun r => r :: dsc s.children s.fuel r)).flatten,
    (R2.map (fun r => r :: dsc s.children s.fuel r)).flatten, dsc s.children s.fuel r, hdesc r, ?_, ?_⟩
  · rw [hsubs, hsplit, flatten_map_split]
  · exact List.mem_cons.mp hxb

/-- index facts of a list that splits into pre-order enumerations -/
theorem preorder_index (s : G) (hw : WF s) (sel : List Uid) (hnd : sel.Nodup)
    (hsplit : ∀ x ∈ sel, ∃ r A B D, descF s.children s.fuel r = some D ∧ sel = A ++ (r :: D) ++ B ∧ (x = r ∨ x ∈ D)) :
    (∀ x y, s.parent y = some x → x ∈ sel → sel.idxOf x < sel.idxOf y) ∧
    (∀ p a b, p ∈ sel → a ≠ b → b ∈ s.children p → (s.children p).idxOf a < (s.children p).idxOf b →
      sel.idxOf a < sel.idxOf b) := by
  constructor
  · intro x y hpar hx
    obtain ⟨r, A, B, D, hD, hsel, hxr⟩ := hsplit x hx
    have hxrD : x ∈ r :: D := by
      rcases hxr with e | e
      · rw [e]; exact List.mem_cons_self
      · exact List.mem_cons_of_mem _ e
    have hyD : y ∈ D := by
      refine (mem_descF_children s hw _ r D hD y).mpr ?_
      rcases hxr with e | e
      · rw [← e]; exact TC.single hpar
      · exact TC.head hpar ((mem_descF_children s hw _ r D hD x).mp e)
    have hnd' := hnd
    rw [hsel] at hnd' ⊢
    have hrD : (r :: D).Nodup := (List.nodup_append.mp (List.nodup_append.mp hnd').1).2.1
    have hyr : y ≠ r := fun e => (List.nodup_cons.mp hrD).1 (e ▸ hyD)
    rw [idxOf_mid A (r :: D) B x hnd' hxrD, idxOf_mid A (r :: D) B y hnd' (List.mem_cons_of_mem _ hyD),
      idxOf_cons_ne' D r y hyr]
    rcases hxr with e | e
    · rw [e, List.idxOf_cons_self]; omega
    · have hxr' : x ≠ r := fun e' => (List.nodup_cons.mp hrD).1 (e' ▸ e)
      rw [idxOf_cons_ne' D r x hxr']
      obtain ⟨pre, post, d, hd, hDs⟩ := descF_segment s.children _ r D hD x e
      have hyd : y ∈ d := (mem_descF_children s hw _ x d hd y).mpr (TC.single hpar)
      have hDn : D.Nodup := (List.nodup_cons.mp hrD).2
      have hDs' : D = pre ++ (x :: d) ++ post := hDs
      rw [hDs'] at hDn ⊢
      have hxd : (x :: d).Nodup := (List.nodup_append.mp (List.nodup_append.mp hDn).1).2.1
      have hyx : y ≠ x := fun e' => (List.nodup_cons.mp hxd).1 (e' ▸ hyd)
      rw [idxOf_mid pre (x :: d) post x hDn List.mem_cons_self,
        idxOf_mid pre (x :: d) post y hDn (List.mem_cons_of_mem _ hyd), List.idxOf_cons_self,
        idxOf_cons_ne' d x y hyx]
      omega
  · intro p a b hp hab hb hidx
    obtain ⟨r, A, B, D, hD, hsel, hpr⟩ := hsplit p hp
    have ha : a ∈ s.children p :=
      List.idxOf_lt_length_iff.mp (Nat.lt_of_lt_of_le hidx List.idxOf_le_length)
    have hchild : ∀ c, c ∈ s.children p → c ∈ D := by
      intro c hc
      refine (mem_descF_children s hw _ r D hD c).mpr ?_
      have hcp : par s c p := (hw.listed c p).mpr hc
      rcases hpr with e | e
      · rw [← e]; exact TC.single hcp
      · exact TC.head hcp ((mem_descF_children s hw _ r D hD p).mp e)
    have hlt := descF_order s hw _ r D hD p a b hpr hab hidx hb
    have hnd' := hnd
    rw [hsel] at hnd' ⊢
    have hrD : (r :: D).Nodup := (List.nodup_append.mp (List.nodup_append.mp hnd').1).2.1
    have har : a ≠ r := fun e => (List.nodup_cons.mp hrD).1 (e ▸ hchild a ha)
    have hbr : b ≠ r := fun e => (List.nodup_cons.mp hrD).1 (e ▸ hchild b hb)
    rw [idxOf_mid A (r :: D) B a hnd' (List.mem_cons_of_mem _ (hchild a ha)),
      idxOf_mid A (r :: D) B b hnd' (List.mem_cons_of_mem _ (hchild b hb)),
      idxOf_cons_ne' D r a har, idxOf_cons_ne' D r b hbr]
    omega

theorem SelOK.cloneOf_idxOf {s : G} {w : Uid} {sel : List Uid} (ok : SelOK s w sel) (x c : Uid)
    (h : cloneOf s.n sel x = some c) : c = s.n + sel.idxOf x := by
  obtain ⟨i, hi, rfl, hx, _⟩ := cloneOf_some s.n sel x c h
  rw [← hx, ok.nodup.idxOf_getElem i hi]

theorem nodup_pairwise_idx (C : List Uid) (h : C.Nodup) :
    C.Pairwise (fun a a' => a ≠ a' ∧ C.idxOf a < C.idxOf a' ∧ a' ∈ C) := by
  rw [List.pairwise_iff_getElem]
  intro i j hi hj hij
  refine ⟨?_, ?_, List.getElem_mem hj⟩
  · intro e
    have := (List.getElem_inj h).mp e
    omega
  · rw [h.idxOf_getElem i hi, h.idxOf_getElem j hj]; exact hij

theorem PreOK.of_index {s : G} {w : Uid} {sel : List Uid} (ok : SelOK s w sel)
    (h1 : ∀ x y, s.parent y = some x → x ∈ sel → sel.idxOf x < sel.idxOf y)
    (h2 : ∀ p a b, p ∈ sel → a ≠ b → b ∈ s.children p → (s.children p).idxOf a < (s.children p).idxOf b →
      sel.idxOf a < sel.idxOf b) : PreOK s sel := by
  constructor
  · intro i hi
    unfold Lc
    refine List.Pairwise.filterMap _ ?_ (nodup_pairwise_idx _ (ok.inv.wf.once (sel.getD i 0)))
    intro a a' ⟨hne, hidx, hm⟩ b hb b' hb'
    rw [ok.cloneOf_idxOf a b hb, ok.cloneOf_idxOf a' b' hb']
    have := h2 _ a a' (getD_mem sel i hi) hne hm hidx
    show s.n + sel.idxOf a < s.n + sel.idxOf a'
    omega
  · intro i hi v hv
    obtain ⟨x, hx, hxv⟩ := List.mem_filterMap.mp hv
    rw [ok.cloneOf_idxOf x v hxv]
    have := h1 _ x ((ok.inv.wf.listed _ _).mpr hx) (getD_mem sel i hi)
    have hidx : sel.idxOf (sel.getD i 0) = i := by
      rw [getD_eq_getElem' sel i hi]; exact ok.nodup.idxOf_getElem i hi
    rw [hidx] at this
    show s.n + i < s.n + sel.idxOf x
    omega

/-- C10 (mirror part): with independent roots the copy has exactly the mirrored structure -/
theorem cloneSel_iso (s : G) (w : Uid) (roots : List Uid) (subs : List (List Uid)) (hi : Inv s)
    (hwbs : s.hidden w = true) (hm : ∀ r ∈ roots, s.owner r = some w ∧ s.hidden r = false)
    (hsubs : roots.mapM (fun r => subtreeF s.children s.fuel r) = some subs)
    (hind : rootsIndependentB s roots = true) :
    cloneHierarchyB s (cloneSel s w roots).1 (s.n + (dedupFirst subs.flatten).length) (dedupFirst subs.flatten) roots = true ∧
    cloneLinksB s (cloneSel s w roots).1 w (dedupFirst subs.flatten) = true := by
  have ok := SelOK.of_args s w roots subs hi hwbs hm hsubs
  have rk := RootsOK.of_indep s hi roots subs hsubs hind
  obtain ⟨e1, e2, e3⟩ := sel_structure s hi roots subs hsubs hind
  have pk : PreOK s (dedupFirst subs.flatten) := by
    obtain ⟨i1, i2⟩ := preorder_index s hi.wf (dedupFirst subs.flatten) ok.nodup (by rw [e1]; exact e3)
    exact PreOK.of_index ok (fun x y hp hx => i1 x y hp hx) i2
  have htid := (seqOps_n_tid s w roots (dedupFirst subs.flatten) (extend s (dedupFirst subs.flatten))).2
  rw [cloneSel_eq s w roots subs hsubs]
  show cloneHierarchyB s (seqOps id _ (cloneOps s w roots _)).1 _ _ _ = true ∧
    cloneLinksB s (seqOps id _ (cloneOps s w roots _)).1 _ _ = true
  have htid' : ∀ i, i < (dedupFirst subs.flatten).length →
      (seqOps id (extend s (dedupFirst subs.flatten)) (cloneOps s w roots (dedupFirst subs.flatten))).1.tid (s.n + i) =
        s.tid ((dedupFirst subs.flatten).getD i 0) := by
    intro i hi'
    rw [htid]; exact extend_tid_clone s _ i hi'
  have hmir : Mirror s w (dedupFirst subs.flatten) roots
      (seqOps id (extend s (dedupFirst subs.flatten)) (cloneOps s w roots (dedupFirst subs.flatten))).1 := by
    unfold cloneOps
    obtain ⟨h1, h2, h3⟩ := perTask_all_complete ok pk
    rw [seqOps_append_ok _ _ _ h1]
    have hfin := final_mirror ok pk rk _ h2 h3
    have hacc := h2.final_ok ok (roots.filterMap (cloneOf s.n (dedupFirst subs.flatten)))
      (filterMap_cloneOf_isClone s _ roots)
    have e : finalOp s roots (dedupFirst subs.flatten) (seqOps id (extend s (dedupFirst subs.flatten))
        ((dedupFirst subs.flatten).flatMap (perTask s w (dedupFirst subs.flatten)))).1 =
        ((finalOp s roots (dedupFirst subs.flatten) (seqOps id (extend s (dedupFirst subs.flatten))
        ((dedupFirst subs.flatten).flatMap (perTask s w (dedupFirst subs.flatten)))).1).1, none) := by
      have : (finalOp s roots (dedupFirst subs.flatten) (seqOps id (extend s (dedupFirst subs.flatten))
        ((dedupFirst subs.flatten).flatMap (perTask s w (dedupFirst subs.flatten)))).1).2 = none := hacc
      rw [← this]
    rw [seqOps_cons_ok _ _ _ _ e]
    exact hfin
  exact ⟨hmir.hierarchyB ok rk htid', hmir.linksB⟩

end Pj
