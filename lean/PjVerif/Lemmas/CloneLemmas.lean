/- Lemmas/CloneLemmas.lean — helper lemmas for Props/C10.lean -/
import PjVerif.Spec.Clone
import PjVerif.Lemmas.GraphTasks
namespace Pj

end Pj
