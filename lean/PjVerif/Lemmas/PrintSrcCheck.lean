/-
  Lemmas/PrintSrcCheck.lean — kernel-checked concrete runs of the translated sheet printer (Extracted/PrintSrc.lean)
  against Model/Print.lean, with the concrete string library `cLib`.  See Lemmas/PrintSrc.lean.
-/
import PjVerif.Lemmas.PrintSrc
namespace Pj.PrintSrc
open Pj.PyLite Pj.Print Pj.Extracted.Print

deriving instance DecidableEq for Except

namespace Check

def FC : Nat := 40

def S : Lib := cLib

def mk (l : List PyTask) : Nat → PyTask := fun u => l.getD u default

def i (n : Nat) : Atom := .num ((n : Nat) : Rat)

/-- WBS 7 (root 0, hidden: id = EMPTY_TASK_ID): 1 "Alpha" [2 "beta" [3 None], 4 "Gamma"]; task 5 lives in WBS 8, task 6 in no
    WBS; links inside and outside; custom attributes (a str, a number, None, a datetime, an upper-case key, a print_color) -/
def w1 : Nat → PyTask := mk
  [ { id := .num 9223372036854775807, name := none, estimate := .none, spent := .none, dict := [],
      children := [1], preds := [], succs := [], parent := none, wbs := some 7 },
    { id := i 1, name := some "Alpha".toList, estimate := i 5, spent := .none,
      dict := [("resource".toList, cLib.s "Ann".toList), ("start".toList, .time 19000), ("end".toList, .none)],
      children := [2, 4], preds := [], succs := [4, 5], parent := none, wbs := some 7 },
    { id := i 2, name := some "beta".toList, estimate := .num (5/2), spent := i 1,
      dict := [("resource".toList, .none), ("Prio".toList, i 3), ("print_color".toList, cLib.s "91m".toList)],
      children := [3], preds := [1, 5, 6], succs := [], parent := some 1, wbs := some 7 },
    { id := cLib.s "x-3".toList, name := none, estimate := .none, spent := .none,
      dict := [("print_color".toList, .none)],
      children := [], preds := [2, 2, 0], succs := [], parent := some 2, wbs := some 7 },
    { id := i 4, name := some "Gamma".toList, estimate := i 0, spent := i 0, dict := [("prio".toList, i 9)],
      children := [], preds := [1], succs := [], parent := some 1, wbs := some 7 },
    { id := i 50, name := some "Ext".toList, estimate := .none, spent := .none, dict := [],
      children := [], preds := [1], succs := [2], parent := none, wbs := some 8 },
    { id := i 60, name := some "Free".toList, estimate := .none, spent := .none, dict := [],
      children := [], preds := [], succs := [2], parent := some 5, wbs := none } ]

def ts1 : Nat → PTask := fun u => toPTask S (w1 u)

def allFields : List Str :=
  ["id", "name", "resource", "estimate", "spent", "start", "end", "predecessors", "successors", "parent", "prio", "Prio",
   "PRIO", "RESOURCE", "nosuch", "print_color", ""].map String.toList

/-- the string library round-trips on the texts used -/
example : (allFields.all (fun f => dec (enc f) == f)) = true := by decide +kernel

/-! ### stage 1: the cell texts -/

example : ((List.range 7).all (fun t => allFields.all (fun f =>
    decide (interpFieldValue S w1 FC t f = .ok (.atom (S.s (fieldValue ts1 t f))))))) = true := by decide +kernel

example : ((List.range 7).all (fun t => (List.range 7).all (fun l =>
    decide (interpLinkedId S w1 FC t (some l) = .ok (.atom (S.s (linkedId ts1 t l))))))) = true := by decide +kernel

example : interpLinkedId S w1 FC 1 none = .ok (.atom (S.s [])) := by decide +kernel

/-- the exact texts (what the real Python prints): links outside the WBS are marked, the hidden root is empty, duplicates stay -/
example : interpFieldValue S w1 FC 2 "predecessors".toList = .ok (.atom (S.s "[1,50(external),60(external)]".toList)) := by
  decide +kernel
example : interpFieldValue S w1 FC 3 "predecessors".toList = .ok (.atom (S.s "[2,2,]".toList)) := by decide +kernel
example : interpFieldValue S w1 FC 6 "parent".toList = .ok (.atom (S.s "50(external)".toList)) := by decide +kernel
example : interpFieldValue S w1 FC 2 "PRIO".toList = .ok (.atom (S.s [])) := by decide +kernel
example : interpFieldValue S w1 FC 4 "PRIO".toList = .ok (.atom (S.s "9".toList)) := by decide +kernel
example : interpFieldValue S w1 FC 2 "Prio".toList = .ok (.atom (S.s "3".toList)) := by decide +kernel
example : interpFieldValue S w1 FC 1 "end".toList = .ok (.atom (S.s "-".toList)) := by decide +kernel
example : interpFieldValue S w1 FC 1 "estimate".toList = .ok (.atom (S.s "5".toList)) := by decide +kernel
example : interpFieldValue S w1 FC 1 "spent".toList = .ok (.atom (S.s "-".toList)) := by decide +kernel
example : interpFieldValue S w1 FC 1 "start".toList = .ok (.atom (S.s "@19000".toList)) := by decide +kernel
example : interpFieldValue S w1 FC 3 "id".toList = .ok (.atom (S.s "x-3".toList)) := by decide +kernel

/-! ### stage 2: the layout numbers -/

example : ((List.range 7).all (fun t => (List.range 3).all (fun lv => [0, 7, 30].all (fun cur =>
    decide (interpTitleLen S w1 FC t lv cur = .ok (.atom (i (titleLen ts1 8 lv t cur)))))))) = true := by decide +kernel
example : interpTitleLen S w1 FC 1 0 0 = .ok (.atom (i 8)) := by decide +kernel     -- "   Gamma"
example : interpTitleLen S w1 FC 0 0 0 = .ok (.atom (i 11)) := by decide +kernel

example : (allFields.all (fun f => [[0], [1, 5], [], [3, 6]].all (fun l =>
    decide (interpMaxFieldLen S w1 FC l f = .ok (.atom (i (maxFieldLen ts1 f 8 l))))))) = true := by decide +kernel
example : interpMaxFieldLen S w1 FC [1] "id".toList = .ok (.atom (i 3)) := by decide +kernel           -- len("id") + 1 = len("x-3")
example : interpMaxFieldLen S w1 FC [1] "predecessors".toList = .ok (.atom (i 29)) := by decide +kernel

end Check
end Pj.PrintSrc
