/-
  Lemmas/TaskSrcB.lean — stage B of the translated tie for task.py: the `parent` setter (general theorem).
  See Lemmas/TaskSrc.lean for the setting and the list of results.
-/
import PjVerif.Lemmas.TaskSrcA
namespace Pj.TaskSrc
open Pj.PyLite Pj.Extracted
set_option linter.unusedSimpArgs false
set_option linter.unusedVariables false

/-! ### facts about the enumerations of the model -/

theorem mapM_eq_some_map {β γ : Type} (g : β → Option γ) (g' : β → γ) (l : List β)
    (h : ∀ a ∈ l, g a = some (g' a)) : l.mapM g = some (l.map g') := by
  induction l with
  | nil => rfl
  | cons x xs ih =>
    rw [mapM_some_cons]
    exact ⟨g' x, xs.map g', h x List.mem_cons_self, ih (fun a ha => h a (List.mem_cons_of_mem _ ha)), rfl⟩

/-- an enumeration only looks at the `next`-lists of the nodes it lists -/
theorem descF_congr (next next' : Uid → List Uid) :
    ∀ (f : Nat) (t : Uid) (r : List Uid), descF next f t = some r → (∀ x ∈ t :: r, next' x = next x) →
      descF next' f t = some r := by
  intro f
  induction f with
  | zero => intro t r h; simp [descF] at h
  | succ f ih =>
    intro t r h hx
    obtain ⟨hch, rfl⟩ := descF_succ_eq next f t r h
    have ht : next' t = next t := hx t List.mem_cons_self
    have hc : ∀ c ∈ next t, descF next' f c = some (dsc next f c) := by
      intro c hc
      refine ih c _ (hch c hc) ?_
      intro x hxm
      refine hx x (List.mem_cons_of_mem _ ?_)
      exact List.mem_flatten.2 ⟨c :: dsc next f c, List.mem_map.2 ⟨c, hc, rfl⟩, hxm⟩
    rw [descF, ht, mapM_eq_some_map _ (fun c => c :: dsc next f c)]
    · rfl
    · intro c hcm
      rw [hc c hcm]; rfl

theorem length_le_flatten {α : Type} (L : List (List α)) (l : List α) (h : l ∈ L) : l.length ≤ L.flatten.length := by
  induction L with
  | nil => cases h
  | cons a L ih =>
    rw [List.flatten_cons, List.length_append]
    rcases List.mem_cons.1 h with rfl | h
    · omega
    · have := ih h; omega

/-- a successful enumeration below `t` never comes back to a node that lists `t`: otherwise it would contain itself -/
theorem descF_no_back (next : Uid → List Uid) (f : Nat) (t : Uid) (r : List Uid) (h : descF next f t = some r)
    (q : Uid) (hq : t ∈ next q) : q ∉ t :: r := by
  intro hmem
  -- the enumeration below `q` contains `t :: r`
  have key : ∀ d, descF next f q = some d → r.length + 1 ≤ d.length := by
    intro d hd
    obtain ⟨hch, rfl⟩ := descF_eq_flatten next f q d hd
    have h1 := hch t hq
    rw [h] at h1
    have h2 : r = dsc next f t := Option.some.inj h1
    have : (t :: dsc next f t) ∈ (next q).map (fun c => c :: dsc next f c) := List.mem_map.2 ⟨t, hq, rfl⟩
    have := length_le_flatten _ _ this
    rw [← h2] at this
    simpa using this
  rcases List.mem_cons.1 hmem with rfl | hr
  · have := key r h; omega
  · obtain ⟨pre, post, d, hd, hrd⟩ := descF_segment next f t r h q hr
    have := key d hd
    have hl : r.length = pre.length + (d.length + 1) + post.length := by
      rw [hrd]; simp [List.length_append]; omega
    omega

theorem detachOld_children (s : G) (t x : Uid) (hx : s.parent t ≠ some x ∨ t ∉ s.children x) :
    (detachOld s t).children x = s.children x := by
  unfold detachOld
  cases hp : s.parent t with
  | none => rfl
  | some q =>
    simp only
    split
    · rename_i hc
      by_cases hxq : x = q
      · subst hxq
        rcases hx with hx | hx
        · exact absurd hp hx
        · exact absurd (by simpa using hc) hx
      · simp [upd, hxq]
    · rfl

/-- removing `t` from the list of its old parent does not change the enumeration below `t` -/
theorem descF_detachOld (s : G) (f : Nat) (t : Uid) (r : List Uid) (h : descF s.children f t = some r) :
    descF (detachOld s t).children f t = some r := by
  refine descF_congr s.children _ f t r h ?_
  intro x hx
  apply detachOld_children
  by_cases hc : t ∈ s.children x
  · exact absurd hx (descF_no_back s.children f t r h x hc)
  · exact Or.inr hc

/-! ### stage B: the `parent` setter -/

theorem execBlockP_append (H : PHandlers) (self : PyLite.Env) (rec : List Atom → PState → Res (Val × PState))
    (p q : List Stmt) (ρ : PyLite.Env) (st : PState) :
    execBlockP H self rec (p ++ q) ρ st =
      match execBlockP H self rec p ρ st with
      | .normal ρ' st' => execBlockP H self rec q ρ' st'
      | o => o := by
  induction p generalizing ρ st with
  | nil => simp [execBlockP]
  | cons s p ih =>
    simp only [List.cons_append, execBlockP]
    cases s.execP H self rec ρ st <;> simp [ih]

theorem tf_parent_set : taskFuns fn_Task_parent_set = some (src_Task_parent_set_params, src_Task_parent_set) := rfl

/-- the validations / the mutations of the `parent` setter -/
def psChecks : List Stmt := src_Task_parent_set.take 2
def psMut : List Stmt := src_Task_parent_set.drop 2
theorem ps_shape : src_Task_parent_set = psChecks ++ psMut := rfl

theorem refs_single (t : Uid) : refs [t] = .list [.ref t] := rfl
theorem refs_cons (t : Uid) (l : List Uid) : refs (t :: l) = .list (.ref t :: l.map Atom.ref) := rfl

/-- the two halves of `chkParentSome` -/
def chkC1 (s : G) (t p : Uid) : Option Err :=
  match s.owner t with
  | none =>
    if s.pubParent t = none ∨ s.pubParent t ≠ some p then
      (match hasIdIntersection s p [t] with
       | none => some (.crash .recursion)
       | some true => some .runtime
       | some false => none)
    else none
  | some w => if s.owner p ≠ some w then some .runtime else none

def chkC2 (s : G) (t p : Uid) : Option Err :=
  match descF s.children s.fuel t with
  | none => some (.crash .recursion)
  | some desc =>
    if p = t ∨ desc.contains p then some .runtime
    else
      match ancF s s.fuel (s.parent p) with
      | none => some (.crash .recursion)
      | some anc => if linkedWithAny s (t :: desc) (p :: anc) then some .runtime else none

theorem chkParentSome_eq (s : G) (t p : Uid) :
    chkParentSome s t p = match chkC1 s t p with | some e => some e | none => chkC2 s t p := rfl

def psS1 : Stmt := match src_Task_parent_set with | s1 :: _ => s1 | _ => .pass
def psS2 : Stmt := match src_Task_parent_set with | _ :: s2 :: _ => s2 | _ => .pass
theorem psChecks_eq : psChecks = [psS1, psS2] := rfl

theorem pyEq_ref (a b : Uid) : (Atom.ref a).pyEq (Atom.ref b) = decide (a = b) := by
  simp [Atom.pyEq, Atom.norm]
theorem pyEq_none_ref (a : Uid) : Atom.none.pyEq (Atom.ref a) = false := by simp [Atom.pyEq, Atom.norm]
theorem pyEq_ref_none (a : Uid) : (Atom.ref a).pyEq Atom.none = false := by simp [Atom.pyEq, Atom.norm]
theorem pyEq_none_none : Atom.none.pyEq Atom.none = true := by simp [Atom.pyEq, Atom.norm]

theorem oidA_ne (a b : Uid) : (Atom.num ((a : Nat) : Rat)).pyEq (Atom.num ((b : Nat) : Rat)) = decide (a = b) :=
  oidA_pyEq a b

theorem ps_s1 (s : G) (st : PState) (hh : st.heap = encHeap s) (t p : Uid) (F : Nat)
    (hF : s.fuel + 2 ≤ F) (hrec : chkC1 s t p ≠ some (.crash .recursion)) (ρ : PyLite.Env)
    (hself : ρ.get? "self" = some (.atom (.ref t))) (hpar : ρ.get? "parent" = some (.atom (.ref p))) :
    psS1.execP (Hd F) [] noRec ρ st =
      match chkC1 s t p with
      | none => .normal ρ st
      | some e => .raise e := by
  obtain ⟨F, rfl⟩ : ∃ F', F = F' + 1 := ⟨F - 1, by omega⟩
  have hpg := parent_get_spec s st hh F t
  unfold chkC1 at hrec ⊢
  unfold psS1
  simp only [src_Task_parent_set]
  cases how : s.owner t with
  | none =>
    simp only [how] at hrec ⊢
    cases hpp : s.pubParent t with
    | none =>
      simp only [hpp, true_or, if_true] at hrec ⊢
      cases hid : hasIdIntersection s p [t] with
      | none => simp [hid] at hrec
      | some b =>
        have hcall := has_id_intersection_spec s st hh p [t] b hid (F + 1) hF
        rw [refs_single] at hcall
        cases b <;> pyl [hself, hpar, hh, how, hpg, hpp, hcall]
    | some pp =>
      by_cases hpe : pp = p
      · subst hpe
        simp only [hpp, reduceCtorEq, ne_eq, not_true_eq_false, or_self, if_false] at hrec ⊢
        pyl [hself, hpar, hh, how, hpg, hpp, oidA_ne]
      · have hne : ¬ (some pp = some p) := fun e => hpe (Option.some.inj e)
        simp only [hpp, reduceCtorEq, ne_eq, hne, not_false_eq_true, or_true, if_true] at hrec ⊢
        cases hid : hasIdIntersection s p [t] with
        | none => simp [hid] at hrec
        | some b =>
          have hcall := has_id_intersection_spec s st hh p [t] b hid (F + 1) hF
          rw [refs_single] at hcall
          cases b <;> pyl [hself, hpar, hh, how, hpg, hpp, hcall, oidA_ne, hpe]
  | some w =>
    simp only [how] at hrec ⊢
    cases hop : s.owner p with
    | none => pyl [hself, hpar, hh, how, hop, pyEq_none_ref]
    | some w' =>
      by_cases hw : w' = w
      · subst hw
        pyl [hself, hpar, hh, how, hop, pyEq_ref]
      · have hne : ¬ (some w' = some w) := fun e => hw (Option.some.inj e)
        pyl [hself, hpar, hh, how, hop, hne, hw, pyEq_ref]

theorem any_ref_pyEq (l : List Uid) (p : Uid) : (l.map Atom.ref).any (fun v => v.pyEq (Atom.ref p)) = l.contains p := by
  induction l with
  | nil => rfl
  | cons a l ih =>
    simp only [List.map_cons, List.any_cons, ih, pyEq_ref, List.contains_cons]
    congr 1
    by_cases h : a = p
    · subst h; simp
    · have h' : ¬ p = a := fun e => h e.symm
      simp [h, h']

theorem ps_s2 (s : G) (st : PState) (hh : st.heap = encHeap s) (t p : Uid) (F : Nat)
    (hF : s.fuel + 2 ≤ F) (hrec : chkC2 s t p ≠ some (.crash .recursion)) (ρ : PyLite.Env)
    (hself : ρ.get? "self" = some (.atom (.ref t))) (hpar : ρ.get? "parent" = some (.atom (.ref p))) :
    psS2.execP (Hd F) [] noRec ρ st =
      match chkC2 s t p with
      | none => .normal ρ st
      | some e => .raise e := by
  obtain ⟨F, rfl⟩ : ∃ F', F = F' + 1 := ⟨F - 1, by omega⟩
  unfold chkC2 at hrec ⊢
  unfold psS2
  simp only [src_Task_parent_set]
  cases hd : descF s.children s.fuel t with
  | none => simp [hd] at hrec
  | some desc =>
    simp only [hd] at hrec ⊢
    have hac := get_all_children_spec s st hh _ t desc hd (F + 1) (by omega)
    have hany := any_ref_pyEq desc p
    simp only [refs] at hac
    generalize hD : desc.map Atom.ref = D at hac hany
    by_cases hpt : p = t
    · subst hpt
      simp only [true_or, if_true]
      pyl [hself, hpar]
    · cases hdc : desc.contains p with
      | true =>
        rw [hdc] at hany
        simp only [hpt, hdc, false_or, if_true]
        pyl [hself, hpar, hpt, hac, hany]
      | false =>
        rw [hdc] at hany
        simp only [hpt, hdc, false_or, Bool.false_eq_true, if_false] at hrec ⊢
        cases ha : ancF s s.fuel (s.parent p) with
        | none => simp [ha] at hrec
        | some anc =>
          simp only [ha]
          have hcs := collect_subtree_spec s st hh _ t desc hd (F + 1) (by omega)
          have hap := get_all_parents_spec s st hh _ p anc ha (F + 1) (by omega)
          have hlw := linked_with_any_spec s st hh F (t :: desc) (p :: anc)
          simp only [refs_cons] at hcs hlw
          simp only [refs] at hap
          rw [hD] at hcs hlw
          generalize hA : anc.map Atom.ref = A at hap hlw
          cases hl : linkedWithAny s (t :: desc) (p :: anc) <;>
            (rw [hl] at hlw; pyl [hself, hpar, hpt, hac, hany, hcs, hap, hlw])

/-- the validations of `t.parent = p` (`p` not None) = `chkParentSome` -/
theorem parent_set_checks (s : G) (st : PState) (hh : st.heap = encHeap s) (t p : Uid) (F : Nat)
    (hF : s.fuel + 2 ≤ F) (hrec : chkParentSome s t p ≠ some (.crash .recursion)) (ρ : PyLite.Env)
    (hself : ρ.get? "self" = some (.atom (.ref t))) (hpar : ρ.get? "parent" = some (.atom (.ref p))) :
    execBlockP (Hd F) [] noRec psChecks ρ st =
      match chkParentSome s t p with
      | none => .normal ρ st
      | some e => .raise e := by
  rw [chkParentSome_eq] at hrec ⊢
  rw [psChecks_eq, execBlockP_cons]
  cases hc1 : chkC1 s t p with
  | some e =>
    rw [hc1] at hrec
    rw [ps_s1 s st hh t p F hF (by rw [hc1]; exact hrec) ρ hself hpar, hc1]
  | none =>
    rw [hc1] at hrec
    rw [ps_s1 s st hh t p F hF (by rw [hc1]; simp) ρ hself hpar, hc1]
    simp only []
    rw [execBlockP_cons, ps_s2 s st hh t p F hF hrec ρ hself hpar]
    cases chkC2 s t p <;> simp only [execBlockP_nil]

/-! the mutations -/

@[simp] theorem withG_L (st : PState) (s : G) : (withG st s).L = st.L := rfl
@[simp] theorem withG_done (st : PState) (s : G) : (withG st s).done = st.done := rfl
@[simp] theorem withG_res (st : PState) (s : G) : (withG st s).res = st.res := rfl
@[simp] theorem withG_reads (st : PState) (s : G) : (withG st s).reads = st.reads := rfl
@[simp] theorem withG_boxes (st : PState) (s : G) : (withG st s).boxes = st.boxes := rfl
theorem mk_withG (st : PState) (s : G) :
    ({ L := st.L, heap := encHeap s, done := st.done, res := st.res, reads := st.reads, boxes := st.boxes } : PState) =
      withG st s := rfl


theorem pyErase_refs (l : List Uid) (t : Uid) :
    pyErase (l.map Atom.ref) (.ref t) = if l.contains t then some ((l.erase t).map Atom.ref) else none := by
  induction l with
  | nil => rfl
  | cons a l ih =>
    simp only [List.map_cons, pyErase, pyEq_ref, ih, List.contains_cons, List.erase_cons]
    by_cases h : a = t
    · subst h; simp
    · have h' : ¬ t = a := fun e => h e.symm
      have hb : (a == t) = false := by simpa using h
      simp only [h, h', decide_false, Bool.false_eq_true, if_false, Bool.false_or, hb]
      cases l.contains t <;> simp [h']

def psS3 : Stmt := match src_Task_parent_set with | _ :: _ :: s3 :: _ => s3 | _ => .pass
def psS4 : Stmt := match src_Task_parent_set with | _ :: _ :: _ :: s4 :: _ => s4 | _ => .pass
theorem psMut_eq : psMut = [psS3, psS4] := rfl

/-- `if self.__parent is not None and self in self.__parent.__children: self.__parent.__children.remove(self)` -/
theorem ps_s3 (s : G) (st : PState) (hh : st.heap = encHeap s) (t : Uid) (F : Nat) (ρ : PyLite.Env)
    (hself : ρ.get? "self" = some (.atom (.ref t))) :
    psS3.execP (Hd F) [] noRec ρ st = .normal ρ (withG st (detachOld s t)) := by
  unfold psS3 detachOld
  simp only [src_Task_parent_set]
  cases hp : s.parent t with
  | none =>
    simp only []
    rw [withG_self st s hh]
    pyl [hself, hh, hp]
  | some q =>
    simp only []
    have hany := any_ref_pyEq (s.children q) t
    have her := pyErase_refs (s.children q) t
    cases hc : (s.children q).contains t with
    | false =>
      rw [hc] at hany
      simp only [Bool.false_eq_true, if_false]
      rw [withG_self st s hh]
      pyl [hself, hh, hp, refs, hany]
    | true =>
      rw [hc] at hany
      rw [hc, if_pos rfl] at her
      simp only [if_true]
      have hset := heapSet_children s q ((s.children q).erase t)
      simp only [refs] at hset
      pyl [hself, hh, hp, refs, hany, her, mk_withG, hset]

/-- the mutations of `t.parent = p` after the removal from the old list -/
def mutTail (s1 : G) (t p : Uid) (sub : List Uid) : G :=
  let s2 : G := { s1 with parent := upd s1.parent t (some p) }
  let s3 : G := match s2.owner p with
    | none => s2
    | some w => setOwners s2 sub (some w)
  if (s3.children p).contains t then s3 else { s3 with children := upd s3.children p (s3.children p ++ [t]) }

theorem mutParentSome_eq' (s : G) (t p : Uid) :
    mutParentSome s t p =
      match subtreeF s.children s.fuel t with
      | none => (s, some (.crash .recursion))
      | some sub => (mutTail (detachOld s t) t p sub, none) := rfl

theorem ps_s4_some (s1 : G) (st : PState) (hh : st.heap = encHeap s1) (t p : Uid) (f : Nat) (r : List Uid)
    (hd : descF s1.children f t = some r) (F : Nat) (hF : f ≤ F) (ρ : PyLite.Env)
    (hself : ρ.get? "self" = some (.atom (.ref t))) (hpar : ρ.get? "parent" = some (.atom (.ref p))) :
    psS4.execP (Hd F) [] noRec ρ st = .normal ρ (withG st (mutTail s1 t p (t :: r))) := by
  unfold psS4
  simp only [src_Task_parent_set]
  have hset : heapSet (encHeap s1) t "parent" (.atom (.ref p)) =
      encHeap { s1 with parent := upd s1.parent t (some p) } := heapSet_parent s1 t (some p)
  have hany := any_ref_pyEq (s1.children p) t
  cases hop : s1.owner p with
  | none =>
    generalize hs2 : ({ s1 with parent := upd s1.parent t (some p) } : G) = s2 at hset
    have hc2 : s2.children = s1.children := by rw [← hs2]
    have ho2 : s2.owner p = none := by rw [← hs2]; exact hop
    obtain ⟨F, rfl⟩ : ∃ F', F = F' + 1 := ⟨F - 1, by cases f <;> simp [descF] at hd <;> omega⟩
    have hat := attach_none (withG st s2) F t
    cases hc : (s1.children p).contains t with
    | true =>
      have hm : mutTail s1 t p (t :: r) = s2 := by
        rw [← hs2]; unfold mutTail; simp only [hop, hc, if_true]
      rw [hc] at hany
      rw [hm]
      pyl [hself, hpar, hh, hset, mk_withG, withG_withG, ho2, hat, refs, hany, hc2]
    | false =>
      have hm : mutTail s1 t p (t :: r) = { s2 with children := upd s2.children p (s2.children p ++ [t]) } := by
        rw [← hs2]; unfold mutTail; simp only [hop, hc, Bool.false_eq_true, if_false]
      rw [hc] at hany
      rw [hm]
      have happ := heapSet_children s2 p (s2.children p ++ [t])
      simp only [refs, List.map_append, List.map_cons, List.map_nil, hc2] at happ
      pyl [hself, hpar, hh, hset, mk_withG, withG_withG, ho2, hat, refs, hany, happ, hc2]
  | some w =>
    generalize hs2 : ({ s1 with parent := upd s1.parent t (some p) } : G) = s2 at hset
    have hc2 : s2.children = s1.children := by rw [← hs2]
    have ho2 : s2.owner p = some w := by rw [← hs2]; exact hop
    have hat := attach_spec w f s2 (withG st s2) rfl t r (by rw [hc2]; exact hd) F hF
    generalize hs3 : setOwners s2 (t :: r) (some w) = s3 at hat
    have hc3 : s3.children = s1.children := by rw [← hs3, ← hs2]; rfl
    cases hc : (s1.children p).contains t with
    | true =>
      have hm : mutTail s1 t p (t :: r) = s3 := by
        rw [← hs3, ← hs2]; unfold mutTail; simp only [hop]
        rw [if_pos (by simpa [setOwners] using hc)]
      rw [hc] at hany
      rw [hm]
      pyl [hself, hpar, hh, hset, mk_withG, withG_withG, ho2, hat, refs, hany, hc3]
    | false =>
      have hm : mutTail s1 t p (t :: r) = { s3 with children := upd s3.children p (s3.children p ++ [t]) } := by
        rw [← hs3, ← hs2]; unfold mutTail; simp only [hop]
        rw [if_neg (by simpa [setOwners] using hc)]
      rw [hc] at hany
      rw [hm]
      have happ := heapSet_children s3 p (s3.children p ++ [t])
      simp only [refs, List.map_append, List.map_cons, List.map_nil, hc3] at happ
      pyl [hself, hpar, hh, hset, mk_withG, withG_withG, ho2, hat, refs, hany, happ, hc3]

theorem chkParentSome_none_desc (s : G) (t p : Uid) (h : chkParentSome s t p = none) :
    ∃ desc, descF s.children s.fuel t = some desc := by
  rw [chkParentSome_eq] at h
  cases hc1 : chkC1 s t p with
  | some e => simp [hc1] at h
  | none =>
    simp only [hc1] at h
    unfold chkC2 at h
    cases hd : descF s.children s.fuel t with
    | none => simp [hd] at h
    | some desc => exact ⟨desc, rfl⟩

/-- what a run of a setter is compared with -/
def setterResult (st : PState) (r : G × Option Err) : Res (Val × PState) :=
  match r with
  | (s', none) => .ok (.atom .none, withG st s')
  | (_, some e) => .error e

/-- STAGE B, `p` not None.  `t.parent = p` = `setParentSome`, for EVERY state `s` -/
theorem parent_set_some (s : G) (st : PState) (hh : st.heap = encHeap s) (t p : Uid) (F : Nat)
    (hF : s.fuel + 3 ≤ F) (hrec : (setParentSome s t p).2 ≠ some (.crash .recursion)) :
    (Hd F).fnV fn_Task_parent_set [.atom (.ref t), .atom (.ref p)] st = setterResult st (setParentSome s t p) := by
  obtain ⟨F, rfl⟩ : ∃ F', F = F' + 1 := ⟨F - 1, by omega⟩
  rw [fnV_succ _ _ _ _ tf_parent_set, callPV_eq]
  simp only [src_Task_parent_set_params, bindParamsV, pure, Except.pure, bind, Except.bind, ps_shape]
  unfold setParentSome at hrec ⊢
  have hself : Env.get? [("self", Val.atom (Atom.ref t)), ("parent", Val.atom (Atom.ref p))] "self" =
      some (.atom (.ref t)) := rfl
  have hpar : Env.get? [("self", Val.atom (Atom.ref t)), ("parent", Val.atom (Atom.ref p))] "parent" =
      some (.atom (.ref p)) := rfl
  generalize ([("self", Val.atom (Atom.ref t)), ("parent", Val.atom (Atom.ref p))] : PyLite.Env) = ρ at hself hpar
  cases hc : chkParentSome s t p with
  | some e =>
    simp only [hc] at hrec ⊢
    have hne : chkParentSome s t p ≠ some (.crash .recursion) := by rw [hc]; exact hrec
    rw [execBlockP_append, parent_set_checks s st hh t p F (by omega) hne ρ hself hpar, hc]
    rfl
  | none =>
    simp only [hc] at hrec ⊢
    obtain ⟨desc, hd⟩ := chkParentSome_none_desc s t p hc
    rw [execBlockP_append, parent_set_checks s st hh t p F (by omega) (by rw [hc]; simp) ρ hself hpar, hc]
    simp only []
    rw [mutParentSome_eq']
    simp only [subtreeF, hd, Option.map_some]
    rw [psMut_eq, execBlockP_cons, ps_s3 s st hh t F ρ hself]
    simp only []
    rw [execBlockP_cons, ps_s4_some (detachOld s t) (withG st (detachOld s t)) rfl t p s.fuel desc
      (descF_detachOld s _ t desc hd) F (by omega) ρ hself hpar]
    simp only [execBlockP_nil, withG_withG, setterResult]

/-! `t.parent = None` -/

theorem ancF_congr (s s' : G) (hp : s'.parent = s.parent) (ht : s'.tid = s.tid) :
    ∀ (f : Nat) (o : Option Uid), ancF s' f o = ancF s f o := by
  have hh : ∀ u, s'.hidden u = s.hidden u := by intro u; simp only [G.hidden, ht]
  have hpp : ∀ u, s'.pubParent u = s.pubParent u := by
    intro u; simp only [G.pubParent, hp, hh]
  intro f
  induction f with
  | zero => intro o; rfl
  | succ f ih =>
    intro o
    cases o with
    | none => rfl
    | some p => simp only [ancF, hh, hpp, ih]

theorem linkedWithAny_congr (s s' : G) (hp : s'.preds = s.preds) (hs : s'.succs = s.succs) (a b : List Uid) :
    linkedWithAny s' a b = linkedWithAny s a b := by
  unfold linkedWithAny; rw [hp, hs]

theorem detachOld_n (s : G) (t : Uid) : (detachOld s t).n = s.n := by
  unfold detachOld
  split
  · split <;> rfl
  · rfl

/-- after `t` was removed from the list of its old parent there is nothing left to remove, provided the list named
    `t` at most once -/
theorem detachOld_idem (s : G) (t : Uid) (honce : ∀ q, s.parent t = some q → (s.children q).count t ≤ 1) :
    detachOld (detachOld s t) t = detachOld s t := by
  cases hq : s.parent t with
  | none =>
    have : detachOld s t = s := by unfold detachOld; simp only [hq]
    rw [this, this]
  | some q =>
    by_cases hc : (s.children q).contains t = true
    · have h1 : detachOld s t = { s with children := upd s.children q ((s.children q).erase t) } := by
        unfold detachOld; simp only [hq]; rw [if_pos hc]
      have h2 : ((s.children q).erase t).contains t = false := by
        have hcnt := honce q hq
        have : t ∉ (s.children q).erase t := by
          rw [← List.count_eq_zero, List.count_erase_self]; omega
        simpa using this
      rw [h1]
      conv => lhs; unfold detachOld
      simp only [hq, upd_same, h2, Bool.false_eq_true, if_false]
    · have : detachOld s t = s := by unfold detachOld; simp only [hq]; rw [if_neg hc]
      rw [this, this]

theorem chkParentSome_detachOld (s : G) (t p w0 : Uid) (how : s.owner t = some w0)
    (hrec : chkParentSome s t p ≠ some (.crash .recursion)) :
    chkParentSome (detachOld s t) t p = chkParentSome s t p := by
  obtain ⟨hp, hpr, hsu, hti, hown⟩ := detachOld_fields s t
  rw [chkParentSome_eq] at hrec ⊢
  rw [chkParentSome_eq]
  have hc1 : chkC1 (detachOld s t) t p = chkC1 s t p := by
    unfold chkC1; simp only [hown, how]
  rw [hc1]
  cases h1 : chkC1 s t p with
  | some e => rfl
  | none =>
    simp only [h1] at hrec ⊢
    unfold chkC2 at hrec ⊢
    rw [G.fuel, detachOld_n, ← G.fuel]
    cases hd : descF s.children s.fuel t with
    | none => simp [hd] at hrec
    | some desc =>
      rw [descF_detachOld s _ t desc hd]
      simp only [hp, ancF_congr s (detachOld s t) hp hti, linkedWithAny_congr s (detachOld s t) hpr hsu]

theorem mutParentSome_detachOld (s : G) (t p : Uid) (desc : List Uid) (hd : descF s.children s.fuel t = some desc)
    (honce : ∀ q, s.parent t = some q → (s.children q).count t ≤ 1) :
    mutParentSome (detachOld s t) t p = mutParentSome s t p := by
  rw [mutParentSome_eq', mutParentSome_eq']
  rw [G.fuel, detachOld_n, ← G.fuel]
  simp only [subtreeF, hd, descF_detachOld s _ t desc hd, Option.map_some, detachOld_idem s t honce]

theorem tf_children_append : taskFuns fn_ChildrenList_append =
    some (src_ChildrenList_append_params, src_ChildrenList_append) := rfl

/-- `<owner>.children.append(t)` = `t.parent = owner` -/
theorem children_append_spec (s : G) (st : PState) (hh : st.heap = encHeap s) (o t : Uid) (F : Nat)
    (hF : s.fuel + 4 ≤ F) (hrec : (setParentSome s t o).2 ≠ some (.crash .recursion)) :
    (Hd F).fnV fn_ChildrenList_append [.atom (.ref o), .atom (.ref t)] st = setterResult st (setParentSome s t o) := by
  obtain ⟨F, rfl⟩ : ∃ F', F = F' + 2 := ⟨F - 2, by omega⟩
  rw [fnV_succ _ _ _ _ tf_children_append]
  have h1 := check_not_none_spec st F t
  have h2 := parent_set_some s st hh t o (F + 1) (by omega) hrec
  cases hr : setParentSome s t o with
  | mk s' e =>
    rw [hr] at h2
    cases e with
    | none =>
      simp only [setterResult] at h2 ⊢
      pyl [src_ChildrenList_append_params, src_ChildrenList_append, h1, h2]
    | some e =>
      simp only [setterResult] at h2 ⊢
      pyl [src_ChildrenList_append_params, src_ChildrenList_append, h1, h2]

/-- the validations do nothing when the new parent is `None` -/
theorem parent_set_checks_none (s : G) (st : PState) (hh : st.heap = encHeap s) (t : Uid) (F : Nat) (ρ : PyLite.Env)
    (hself : ρ.get? "self" = some (.atom (.ref t))) (hpar : ρ.get? "parent" = some (.atom .none)) :
    execBlockP (Hd F) [] noRec psChecks ρ st = .normal ρ st := by
  unfold psChecks
  simp only [src_Task_parent_set, List.take]
  cases how : s.owner t <;> pyl [hself, hpar, hh, how]

theorem ps_s4_none_detached (s1 : G) (st : PState) (hh : st.heap = encHeap s1) (t : Uid) (how : s1.owner t = none)
    (F : Nat) (ρ : PyLite.Env) (hself : ρ.get? "self" = some (.atom (.ref t)))
    (hpar : ρ.get? "parent" = some (.atom .none)) :
    psS4.execP (Hd F) [] noRec ρ st = .normal ρ (withG st { s1 with parent := upd s1.parent t none }) := by
  unfold psS4
  simp only [src_Task_parent_set]
  have hset := heapSet_parent s1 t none
  simp only [optRef_none] at hset
  pyl [hself, hpar, hh, how, hset, mk_withG]

theorem ps_s4_none_member (s1 : G) (st : PState) (hh : st.heap = encHeap s1) (t w : Uid) (how : s1.owner t = some w)
    (F : Nat) (hF : s1.fuel + 4 ≤ F) (hrec : (setParentSome s1 t w).2 ≠ some (.crash .recursion))
    (ρ : PyLite.Env) (hself : ρ.get? "self" = some (.atom (.ref t))) (hpar : ρ.get? "parent" = some (.atom .none)) :
    psS4.execP (Hd F) [] noRec ρ st =
      match setParentSome s1 t w with
      | (s', none) => .normal ρ (withG st s')
      | (_, some e) => .raise e := by
  unfold psS4
  simp only [src_Task_parent_set]
  have happ := children_append_spec s1 st hh w t F hF hrec
  have hprim : (Hd F).prim = taskPrim := Hd_prim F
  cases hr : setParentSome s1 t w with
  | mk s' e =>
    rw [hr] at happ
    cases e with
    | none =>
      simp only [setterResult] at happ
      pyl [hself, hpar, hh, how, hprim, taskPrim, happ]
    | some e =>
      simp only [setterResult] at happ
      pyl [hself, hpar, hh, how, hprim, taskPrim, happ]

/-- STAGE B, `None`.  `t.parent = None` = `setParentNone`.  For a member of a WBS the list of the old parent must name
    `t` at most once (`WF.once`): Python removes `t` from that list before AND inside the inner assignment
    `root.children.append(t)`, the model once -/
theorem parent_set_none (s : G) (st : PState) (hh : st.heap = encHeap s) (t : Uid) (F : Nat)
    (hF : s.fuel + 5 ≤ F)
    (honce : ∀ w q, s.owner t = some w → s.parent t = some q → (s.children q).count t ≤ 1)
    (hrec : (setParentNone s t).2 ≠ some (.crash .recursion)) :
    (Hd F).fnV fn_Task_parent_set [.atom (.ref t), .atom .none] st = setterResult st (setParentNone s t) := by
  obtain ⟨F, rfl⟩ : ∃ F', F = F' + 1 := ⟨F - 1, by omega⟩
  rw [fnV_succ _ _ _ _ tf_parent_set, callPV_eq]
  simp only [src_Task_parent_set_params, bindParamsV, pure, Except.pure, bind, Except.bind, ps_shape]
  unfold setParentNone at hrec ⊢
  have hself : Env.get? [("self", Val.atom (Atom.ref t)), ("parent", Val.atom Atom.none)] "self" =
      some (.atom (.ref t)) := rfl
  have hpar : Env.get? [("self", Val.atom (Atom.ref t)), ("parent", Val.atom Atom.none)] "parent" =
      some (.atom .none) := rfl
  generalize ([("self", Val.atom (Atom.ref t)), ("parent", Val.atom Atom.none)] : PyLite.Env) = ρ at hself hpar
  rw [execBlockP_append, parent_set_checks_none s st hh t F ρ hself hpar]
  simp only []
  rw [psMut_eq, execBlockP_cons, ps_s3 s st hh t F ρ hself]
  simp only []
  obtain ⟨hp, hpr, hsu, hti, hown⟩ := detachOld_fields s t
  cases how : s.owner t with
  | none =>
    simp only [how]
    rw [execBlockP_cons, ps_s4_none_detached (detachOld s t) (withG st (detachOld s t)) rfl t (by rw [hown]; exact how)
      F ρ hself hpar]
    simp only [execBlockP_nil, withG_withG, setterResult]
  | some w =>
    simp only [how] at hrec ⊢
    -- the inner assignment runs on the state after the removal; the model runs it on `s`
    have hchk : chkParentSome (detachOld s t) t w = chkParentSome s t w := by
      apply chkParentSome_detachOld s t w w how
      intro hcr
      apply hrec
      unfold setParentSome; simp only [hcr]
    have hres : setterResult st (setParentSome (detachOld s t) t w) = setterResult st (setParentSome s t w) ∧
        (setParentSome (detachOld s t) t w).2 = (setParentSome s t w).2 := by
      unfold setParentSome
      rw [hchk]
      cases hc : chkParentSome s t w with
      | some e => exact ⟨rfl, rfl⟩
      | none =>
        obtain ⟨desc, hd⟩ := chkParentSome_none_desc s t w hc
        simp only []
        rw [mutParentSome_detachOld s t w desc hd (fun q hq => honce w q how hq)]
        exact ⟨rfl, rfl⟩
    have hrec' : (setParentSome (detachOld s t) t w).2 ≠ some (.crash .recursion) := by rw [hres.2]; exact hrec
    rw [execBlockP_cons, ps_s4_none_member (detachOld s t) (withG st (detachOld s t)) rfl t w (by rw [hown]; exact how)
      F (by rw [G.fuel, detachOld_n, ← G.fuel]; omega) hrec' ρ hself hpar]
    rw [← hres.1]
    cases hr : setParentSome (detachOld s t) t w with
    | mk s' e => cases e <;> simp only [execBlockP_nil, withG_withG, setterResult]

/-- `t.parent = p` for `p : Option Uid` -/
theorem parent_set_spec (s : G) (st : PState) (hh : st.heap = encHeap s) (t : Uid) (p : Option Uid) (F : Nat)
    (hF : s.fuel + 5 ≤ F)
    (honce : p = none → ∀ w q, s.owner t = some w → s.parent t = some q → (s.children q).count t ≤ 1)
    (hrec : (setParent s t p).2 ≠ some (.crash .recursion)) :
    (Hd F).fnV fn_Task_parent_set [.atom (.ref t), .atom (optRef p)] st = setterResult st (setParent s t p) := by
  cases p with
  | none => exact parent_set_none s st hh t F hF (honce rfl) hrec
  | some p => exact parent_set_some s st hh t p F (by omega) hrec

/-- STAGE B.  For every graph state `s`, every Python state `st` whose store is the encoding of `s`, every task `t`,
    every `p` (a task or `None`) and every recursion limit `F ≥ s.n + 6`: unless the model ends in RecursionError,
    running the translated `parent` setter gives `None` and the encoding of the model's new state when the model
    accepts, and raises the model's error when it rejects.  `honce` (only for `p = None` on a member of a WBS): the
    children list of the old parent names `t` at most once -/
theorem interpSetParent_eq (s : G) (st : PState) (hh : st.heap = encHeap s) (t : Uid) (p : Option Uid) (F : Nat)
    (hF : s.n + 6 ≤ F)
    (honce : p = none → ∀ w q, s.owner t = some w → s.parent t = some q → (s.children q).count t ≤ 1)
    (hrec : (setParent s t p).2 ≠ some (.crash .recursion)) :
    interpSetParent F t p st = setterResult st (setParent s t p) :=
  parent_set_spec s st hh t p F (by unfold G.fuel; omega) honce hrec

/-- the same on a well-formed state (C01) started from the canonical encoding -/
theorem interpSetParent_eq_wf (s : G) (hw : WF s) (t : Uid) (p : Option Uid) (F : Nat) (hF : s.n + 6 ≤ F)
    (hrec : (setParent s t p).2 ≠ some (.crash .recursion)) :
    interpSetParent F t p (encSt s) = setterResult (encSt s) (setParent s t p) :=
  interpSetParent_eq s (encSt s) rfl t p F hF (fun _ _ q _ _ => List.nodup_iff_count.1 (hw.once q) t) hrec

end Pj.TaskSrc
