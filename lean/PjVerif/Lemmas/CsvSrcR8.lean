/-
  Lemmas/CsvSrcR8.lean — CSV I/O, towards the READ side: `read_csv` reduced to `raws_to_wbs` on the raw objects of the
  data rows (`read_csv_reduce`).
-/
import PjVerif.Lemmas.CsvSrcR7
namespace Pj.CsvSrc
open Pj.PyLite Pj.Extracted.Csv Pj.Csv

/-! ### the reader -/

def boxPairs : Nat → List (List Str) → List (Nat × List Str)
  | _, [] => []
  | o, r :: rs => (o, r) :: boxPairs (o + 1) rs

theorem boxPairs_snd : ∀ (o : Nat) (rows : List (List Str)), (boxPairs o rows).map (·.2) = rows
  | _, [] => rfl
  | o, r :: rs => by simp [boxPairs, boxPairs_snd (o + 1) rs]

theorem boxPairs_get : ∀ (pre : List (List Atom)) (rows : List (List Str)) (post : List (List Atom)),
    ∀ p ∈ boxPairs pre.length rows, (pre ++ rows.map atomsOf ++ post)[p.1]? = some (atomsOf p.2)
  | _, [], _, p, h => by cases h
  | pre, r :: rs, post, p, h => by
    rcases List.mem_cons.1 h with rfl | h
    · simp
    · have := boxPairs_get (pre ++ [atomsOf r]) rs post p (by simpa using h)
      simpa using this

theorem allocRows_spec : ∀ (rows : List (List Str)) (st : PState),
    allocRows rows st = ((boxPairs st.boxes.length rows).map (fun p => Atom.box p.1),
      { st with boxes := st.boxes ++ rows.map atomsOf })
  | [], st => by simp [allocRows, boxPairs]
  | r :: rs, st => by
    simp only [allocRows, boxPairs, List.map_cons]
    rw [allocRows_spec rs]
    simp [List.append_assoc]

theorem prim_open (L : IOLib) (st : PState) (k : Nat) : ioPrim L "open" [.str k] st = .ok (.atom (.str k)) := by
  unfold ioPrim
  rw [if_neg (by decide +kernel), if_neg (by decide +kernel), if_neg (by decide +kernel), if_neg (by decide +kernel),
    if_neg (by decide +kernel), if_neg (by decide +kernel), if_neg (by decide +kernel), if_neg (by decide +kernel),
    if_neg (by decide +kernel), if_neg (by decide +kernel), if_neg (by decide +kernel), if_neg (by decide +kernel),
    if_neg (by decide +kernel), if_neg (by decide +kernel), if_pos (by decide +kernel)]
  rfl

theorem prim_rest (L : IOLib) (st : PState) (as : List Atom) : ioPrim L "rest" as st = .ok (.list as.tail) := by
  unfold ioPrim
  rw [if_neg (by decide +kernel), if_neg (by decide +kernel), if_neg (by decide +kernel), if_neg (by decide +kernel),
    if_neg (by decide +kernel), if_neg (by decide +kernel), if_neg (by decide +kernel), if_neg (by decide +kernel),
    if_neg (by decide +kernel), if_neg (by decide +kernel), if_neg (by decide +kernel), if_neg (by decide +kernel),
    if_neg (by decide +kernel), if_neg (by decide +kernel), if_neg (by decide +kernel), if_neg (by decide +kernel),
    if_pos (by decide +kernel)]
  rfl

theorem ioFn_reader (L : IOLib) (st : PState) (text : List Char) (rows : List (List Str))
    (hp : parse text = some rows) :
    ioFn L 103 [.atom (strA text), .atom (strA [';'])] st =
      .ok (.list ((boxPairs st.boxes.length rows).map (fun p => Atom.box p.1)),
        { st with boxes := st.boxes ++ rows.map atomsOf }) := by
  unfold ioFn
  rw [if_neg (by decide), if_neg (by decide), if_neg (by decide), if_pos rfl]
  simp only [strA, strDecode_code]
  rw [if_pos (by rfl), hp]
  simp only [allocRows_spec]
  rfl

section more
variable {H : PHandlers} {self : PyLite.Env} {rec : List Atom → PState → Res (Val × PState)}

theorem eval_next_head {x : String} {it : Expr} {env : PyLite.Env} {st : PState} {b : Atom} {bs : List Atom}
    (hit : it.evalP H self env st = .ok (.list (b :: bs), st)) :
    (Expr.nextComp (.var x) x it (.bool true)).evalP H self env st = .ok (.atom b, st) := by
  simp only [Expr.evalP, hit, iterOf, nextLoopP, envGet_set, if_true, truthP, bind, Except.bind, pure, Except.pure]

theorem eval_prim_list {name : String} {args : Expr} {env : PyLite.Env} {st st' : PState} {as : List Atom} {v : Val}
    (ha : args.evalP H self env st = .ok (.list as, st')) (hp : H.prim name as st' = .ok v) :
    (Expr.prim name args).evalP H self env st = .ok (v, st') := eval_prim ha hp

/-- a function body that ends with `return e` -/
theorem block_ret_call {e : Expr} {env : PyLite.Env} {st : PState} :
    (match execBlockP H self rec [.ret e] env st with
      | .normal _ st' => (Except.ok (Val.atom Atom.none, st') : Res (Val × PState))
      | .cont _ st' => .ok (Val.atom Atom.none, st')
      | .ret v st' => .ok (v, st')
      | .raise err => .error err) = e.evalP H self env st := by
  rw [execBlockP, Stmt.execP]
  cases e.evalP H self env st with
  | error err => rfl
  | ok r => rfl

end more

/-- the store when `raws_to_wbs` is called: the rows of the file as list objects, one raw object per data row -/
def readSt (hdr : List Str) (rows : List (List Str)) (es : List PyLite.Env) : PState :=
  es.foldl allocSt { emptySt with boxes := (hdr :: rows).map atomsOf }

set_option maxRecDepth 8000 in
/-- `read_csv(path)` on a file whose text parses to the header `hdr` and the data rows `rows`, each data row giving the
    raw object `es[i]` (`RowsRaw`: the standard cells present and parsed by `L`, the other columns as keyword arguments):
    the call `raws_to_wbs(raws)` on these raw objects -/
theorem read_csv_reduce (L : IOLib) (F : Nat) (text : List Char) (hdr : List Str) (rows : List (List Str))
    (es : List PyLite.Env) (hp : parse text = some (hdr :: rows)) (hes : RowsRaw L hdr rows es) :
    interpRead L (F + 3) text =
      runIO L csvFuns (F + 2) fn_raws_to_wbs [.list (rawRefs 0 es.length)] (readSt hdr rows es) := by
  let H := HH L (F + 2)
  let rec_ : List Atom → PState → Res (Val × PState) := fun _ _ => throw stuck
  let env0 : PyLite.Env := [("path", .atom (strA text)), ("encoding", utf8), ("delimiter", semi)]
  let env1 := env0.set "raws" (.list [])
  let env2 := env1.set "input_file" (.atom (strA text))
  let bsAll : List Atom := (boxPairs 0 (hdr :: rows)).map (fun p => Atom.box p.1)
  let st1 : PState := { emptySt with boxes := (hdr :: rows).map atomsOf }
  let env3 := env2.set "csvfile" (.list bsAll)
  let env4 := env3.set "header" (.dict (hdrDict hdr))
  have h1 : (Stmt.assign "raws" .listNil).execP H [] rec_ env0 emptySt = .normal env1 emptySt := exec_assign rfl
  have h2 : (Stmt.assign "input_file" (.prim "open" (.listCons (.var "path") .listNil))).execP H [] rec_ env1 emptySt =
      .normal env2 emptySt :=
    exec_assign (eval_prim (eval_cons (eval_var (x := "path") (v := .atom (strA text)) (by
      rw [envGet_set, if_neg (by decide)]; rfl)) eval_nil) (by rw [HH_prim]; exact prim_open L _ _))
  have h3 : (Stmt.assign "csvfile" (.callFn 103 (.listCons (.var "input_file") (.listCons (.var "delimiter") .listNil)))).execP
      H [] rec_ env2 emptySt = .normal env3 st1 := by
    refine exec_assign ((eval_callFn (evalArgs_cons (eval_var (by rw [envGet_set, if_pos rfl]))
      (evalArgs_cons (eval_var (x := "delimiter") (v := .atom (strA [';'])) (by
        rw [envGet_set, if_neg (by decide), envGet_set, if_neg (by decide)]; rfl)) evalArgs_nil))).trans
      ((HH_fnV_lib L (F + 1) 103 _ _ rfl).trans ?_))
    rw [ioFn_reader L emptySt text (hdr :: rows) hp]; rfl
  have hcsv3 : env3.get? "csvfile" = some (.list bsAll) := by rw [envGet_set, if_pos rfl]
  have h4 : (Stmt.assign "header" (.callFn fn_parse_header (.listCons (.nextComp (.var "_r") "_r" (.var "csvfile") (.bool true)) .listNil))).execP
      H [] rec_ env3 st1 = .normal env4 st1 := by
    refine exec_assign ((eval_callFn (evalArgs_cons (eval_next_head (b := .box 0)
      (bs := (boxPairs 1 rows).map (fun p => Atom.box p.1)) (eval_var hcsv3)) evalArgs_nil)).trans ?_)
    exact parse_header_run L (F + 1) hdr 0 st1 rfl
  have hraws4 : env4.get? "raws" = some (.list []) := by
    rw [envGet_set, if_neg (by decide), envGet_set, if_neg (by decide), envGet_set, if_neg (by decide),
      envGet_set, if_pos rfl]
  obtain ⟨env5, h5, hraws5⟩ := read_rows_loop L F rec_ hdr (boxPairs 1 rows) es env4 st1 []
    (by rw [boxPairs_snd]; exact hes)
    (fun p hp' => by
      have := boxPairs_get [atomsOf hdr] rows [] p hp'
      simpa [st1] using this)
    (by rw [envGet_set, if_pos rfl]) hraws4
  have h5' : (Stmt.forIn "row" (.prim "rest" (.var "csvfile")) rowBody).execP H [] rec_ env4 st1 =
      .normal env5 (es.foldl allocSt st1) := by
    rw [exec_forIn (eval_prim_list (v := .list ((boxPairs 1 rows).map (fun p => Atom.box p.1)))
      (eval_var (by rw [envGet_set, if_neg (by decide)]; exact hcsv3)) (by rw [HH_prim, prim_rest]; rfl)) rfl]
    exact h5
  unfold interpRead
  rw [runIO_fn L (F + 2) fn_read_csv _ _ _ _ rfl, src_read_csv_shape]
  simp only [callPV, bindParamsV, src_read_csv_params, pure, Except.pure, bind, Except.bind]
  rw [block_cons_normal h1, block_cons_normal h2, block_cons_normal h3, block_cons_normal h4, block_cons_normal h5',
    execBlockP, Stmt.execP, eval_callFn (evalArgs_cons (eval_var hraws5) evalArgs_nil)]
  have hcall : H.fnV fn_raws_to_wbs [.list ([] ++ rawRefs st1.reads es.length)] (es.foldl allocSt st1) =
      runIO L csvFuns (F + 2) fn_raws_to_wbs [.list (rawRefs 0 es.length)] (readSt hdr rows es) := rfl
  rw [hcall]
  cases runIO L csvFuns (F + 2) fn_raws_to_wbs [.list (rawRefs 0 es.length)] (readSt hdr rows es) with
  | error e => rfl
  | ok r => rfl

end Pj.CsvSrc
