/-
  Lemmas/CritPathSrcCheckC.lean — the hypotheses of the general theorems of Lemmas/CritPathSrcD.lean are satisfiable and
  decidable on a concrete WBS description: the theorem `interpCriticalPath_grid` instantiated (kernel-checked
  hypotheses) on three of the WBSs of Lemmas/CritPathSrcCheck*.lean.  See Lemmas/CritPathSrc.lean.
-/
import PjVerif.Lemmas.CritPathSrcD
import PjVerif.Lemmas.CritPathSrcCheckB
namespace Pj.CritPathSrc
open Pj.PyLite Pj.CPEnv

theorem G8_of_den (q : Rat) (h : (8 * q).den = 1) : G8 q := ⟨(8 * q).num, Rat.ext rfl h⟩

/-- the grid hypothesis, executable -/
def onGridB (e : CPEnv) : Bool := (leaves e).all (fun t => (8 * e.dur t).den == 1)

theorem onGrid_of_B (e : CPEnv) (h : onGridB e = true) : OnGrid e := by
  intro t ht
  have := List.all_eq_true.mp h t ht
  exact G8_of_den _ (by simpa using this)

instance (e : CPEnv) (tid : Uid → Int) : Decidable (IdInj e tid) := by unfold IdInj; infer_instance
instance (e : CPEnv) : Decidable (DescOK e) := by unfold DescOK; infer_instance

theorem lt_of_projectLen (e : CPEnv) (v : Rat) (h : projectLen e = some v) (hv : v < 100000000) :
    ∀ len, projectLen e = some len → len < 100000000 := by
  intro len hl
  rw [h] at hl
  cases hl
  exact hv

namespace Check

/-- the general theorem applies to the WBS `eighths` (fractional lengths, a tie) … -/
example : ∃ (r l : List Uid), interpCriticalPath 40 eighths tidOf = .ok (refs r) ∧ eighths.criticalPath = .ok l ∧ r.Nodup ∧
    ∀ t, t ∈ r ↔ t ∈ l :=
  interpCriticalPath_grid eighths tidOf (by decide +kernel) (by decide +kernel) (by decide +kernel)
    (onGrid_of_B _ (by decide +kernel))
    (lt_of_projectLen _ (9 / 8) (by decide +kernel) (by decide +kernel)) 40 (by decide)

/-- … to `deep` (nested summaries with links) … -/
example : ∃ (r l : List Uid), interpCriticalPath 40 deep tidOf = .ok (refs r) ∧ deep.criticalPath = .ok l ∧ r.Nodup ∧
    ∀ t, t ∈ r ↔ t ∈ l :=
  interpCriticalPath_grid deep tidOf (by decide +kernel) (by decide +kernel) (by decide +kernel)
    (onGrid_of_B _ (by decide +kernel))
    (lt_of_projectLen _ 9 (by decide +kernel) (by decide +kernel)) 40 (by decide)

/-- … and to `sharedid` (a non-member shares the id of a member): the ids of the member leaves are their own -/
example : ∃ (r l : List Uid), interpCriticalPath 40 sharedid sharedidTid = .ok (refs r) ∧ sharedid.criticalPath = .ok l ∧
    r.Nodup ∧ ∀ t, t ∈ r ↔ t ∈ l :=
  interpCriticalPath_grid sharedid sharedidTid (by decide +kernel) (by decide +kernel) (by decide +kernel)
    (onGrid_of_B _ (by decide +kernel))
    (lt_of_projectLen _ 6 (by decide +kernel) (by decide +kernel)) 40 (by decide)

/-- the hypotheses that fail on the WBSs "outside the hypotheses" of CritPathSrcCheckB.lean -/
example : acyclicB cycle = false := by decide +kernel
example : acyclicB hcycle = false := by decide +kernel
example : acyclicB hcycle2 = false := by decide +kernel
example : onGridB offgrid = false := by decide +kernel
example : ¬ IdInj sharedmembers sharedmembersTid := by decide +kernel

end Check
end Pj.CritPathSrc
