/-
  Lemmas/WbsSrcB.lean — stage 2 of the translated tie for wbs.py (general theorems): `_ChildrenList.remove`,
  `WBS.__remove`, `WBS.remove`, `WBS.remove_all`.  See Lemmas/WbsSrc.lean.
-/
import PjVerif.Lemmas.WbsSrcA
namespace Pj.WbsSrc
open Pj.PyLite Pj.Extracted Pj.TaskSrc
set_option linter.unusedSimpArgs false
set_option linter.unusedVariables false

variable (filt : List Atom → PState → List Uid)

theorem wf_children_remove : wbsFuns fn_ChildrenList_remove =
    some (src_ChildrenList_remove_params, src_ChildrenList_remove) := rfl
theorem wf_remove_rec : wbsFuns fn_WBS_remove_rec = some (src_WBS_remove_rec_params, src_WBS_remove_rec) := rfl
theorem wf_remove : wbsFuns fn_WBS_remove = some (src_WBS_remove_params, src_WBS_remove) := rfl
theorem wf_remove_all : wbsFuns fn_WBS_remove_all = some (src_WBS_remove_all_params, src_WBS_remove_all) := rfl

/-! ### `_ChildrenList.remove` -/

theorem filter_ne_refs (l : List Uid) (t : Uid) :
    (l.map Atom.ref).filter (fun a => !a.pyEq (Atom.ref t)) = (l.filter (fun x => x != t)).map Atom.ref := by
  induction l with
  | nil => rfl
  | cons a l ih =>
    simp only [List.map_cons, List.filter_cons, pyEq_ref]
    by_cases h : a = t
    · subst h; simp [ih]
    · simp [h, ih]

/-- `h.children.remove(t)` = `chRemove`; the value tells whether the task was a child -/
theorem children_remove_spec (s : G) (st : PState) (hh : st.heap = encHeap s) (h t : Uid) (F : Nat)
    (hF : s.n + 8 ≤ F) (hrec : (chRemove s h t).2 ≠ some (.crash .recursion)) :
    (Hw filt F).fnV fn_ChildrenList_remove [.atom (.ref h), .atom (.ref t)] st =
      if (s.children h).contains t then resultV st (.atom (.bool true)) (chRemove s h t)
      else .ok (.atom (.bool false), st) := by
  obtain ⟨F, rfl⟩ : ∃ F', F = F' + 2 := ⟨F - 2, by omega⟩
  rw [fnW_top _ _ _ _ _ wf_children_remove, callPV_eq]
  have hchk := check_not_none_spec st F t
  simp only [src_ChildrenList_remove_params, src_ChildrenList_remove, bindParamsV, pure, Except.pure, bind, Except.bind]
  rw [execBlockP_cons, execP_expr (st' := st) (v := .atom .none)
    (he := by pyo [fnW_base _ _ _ wf_base_check_not_none, hchk, String.reduceEq, if_false, if_true, reduceIte])]
  simp only []
  have hcond : (Expr.not (.isIn (.var "task") (.attr (.var "_facade_parent") "children"))).evalP (Hw filt (F + 1)) []
      [("_facade_parent", .atom (.ref h)), ("task", .atom (.ref t))] st =
      .ok (.atom (.bool (!(s.children h).contains t)), st) := by
    pyo [hh, refs, any_ref_pyEq, String.reduceEq, if_false, if_true, reduceIte]
  by_cases hc : (s.children h).contains t = true
  · rw [if_pos hc]
    rw [execBlockP_cons, execP_ifElse (hc := hcond) (hb := rfl)]
    simp only [hc, Bool.not_true, Bool.false_eq_true, if_false, execBlockP_nil]
    unfold chRemove at hrec ⊢
    rw [if_pos hc] at hrec ⊢
    have hset := interpSetChildren_eq s st hh h (refs ((s.children h).filter (fun x => x != t))) _ (valueOf_refs _)
      (F + 1) (by omega) hrec
    unfold interpSetChildren at hset
    rw [interp_eq] at hset
    have hcomp : (Expr.listComp (.var "t") "t" (.attr (.var "_facade_parent") "children")
        (.cmp .ne (.var "t") (.var "task"))).evalP (Hw filt (F + 1)) []
        [("_facade_parent", .atom (.ref h)), ("task", .atom (.ref t))] st =
        .ok (refs ((s.children h).filter (fun x => x != t)), st) := by
      rw [evalP_listComp_pure (vs := (s.children h).map Atom.ref) (st := st)
        (p := fun a => !a.pyEq (Atom.ref t)) (e := fun a => a)
        (hit := by pyw [hh, refs])
        (hc := by intro v hv; pyw [])
        (he := by intro v hv _; pyw [])]
      rw [filter_ne_refs]
      simp [refs]
    have hcall : (Expr.callFn fn_Task_children_set (.listCons (.var "_facade_parent") (.listCons
        (.listComp (.var "t") "t" (.attr (.var "_facade_parent") "children") (.cmp .ne (.var "t") (.var "task")))
        .listNil))).evalP (Hw filt (F + 1)) [] [("_facade_parent", .atom (.ref h)), ("task", .atom (.ref t))] st =
        setterResult st (setChildren s h ((s.children h).filter (fun x => x != t))) := by
      rw [evalP_callFn2 (ha := evalP_var _ _ _ _ _ _ rfl) (hb := hcomp), fnW_base _ _ _ wf_base_children_set, hset]
    cases hr : setChildren s h ((s.children h).filter (fun x => x != t)) with
    | mk s' e =>
      rw [hr] at hcall
      cases e with
      | none =>
        rw [execBlockP_cons, execP_expr (he := hcall)]
        simp only []
        rw [execBlockP_cons, execP_ret (he := evalP_bool _ _ _ _ true)]
        rfl
      | some e =>
        rw [execBlockP_cons, execP_expr_err (he := hcall)]
        rfl
  · rw [if_neg hc]
    rw [execBlockP_cons, execP_ifElse (hc := hcond) (hb := rfl)]
    have hc' : (s.children h).contains t = false := by simpa using hc
    simp only [hc', Bool.not_false, if_true]
    rw [execBlockP_cons, execP_ret (he := evalP_bool _ _ _ _ false)]

/-! ### `WBS.__remove` -/

/-- `f(a, b, c)` -/
theorem evalP_callFn3 (H : PHandlers) (self ρ : PyLite.Env) (st st1 st2 st3 : PState) (k : Nat) (a b c : Expr)
    (u v w : Val) (ha : a.evalP H self ρ st = .ok (u, st1)) (hb : b.evalP H self ρ st1 = .ok (v, st2))
    (hc : c.evalP H self ρ st2 = .ok (w, st3)) :
    (Expr.callFn k (.listCons a (.listCons b (.listCons c .listNil)))).evalP H self ρ st = H.fnV k [u, v, w] st3 := by
  simp only [Expr.evalP, Expr.evalArgsP, ha, hb, hc, bind, Except.bind, pure, Except.pure]

/-- a search that fails leaves the state alone -/
theorem removeGo_false (rec : G → Uid → Option (G × Option Err × Bool)) (s s' : G) :
    ∀ (l : List Uid), removeGo rec s l = some (s', none, false) → s' = s := by
  intro l
  induction l with
  | nil => intro h; simp only [removeGo] at h; cases h; rfl
  | cons c cs ih =>
    intro h
    simp only [removeGo] at h
    rcases hr : rec s c with _ | ⟨s1, _ | e, _ | _⟩ <;> rw [hr] at h <;> simp only [] at h
    · cases h
    · exact ih h
    · cases h
    · cases h
    · cases h

theorem removeRecS_false (t : Uid) (f : Nat) (s s' : G) (cur : Uid)
    (h : removeRecS t f s cur = some (s', none, false)) : s' = s := by
  cases f with
  | zero => simp [removeRecS] at h
  | succ f =>
    simp only [removeRecS] at h
    split at h
    · simp at h
    · exact removeGo_false _ s s' _ h

/-- what a run of `__remove` is compared with: the flag and the model's new state, or the model's error -/
def removeResult (st : PState) (r : G × Option Err × Bool) : Res (Val × PState) :=
  match r with
  | (s', none, b) => .ok (.atom (.bool b), withG st s')
  | (_, some e, _) => .error e

/-- the local environment of `__remove` -/
structure RmEnv (ρ : PyLite.Env) (w t cur : Uid) : Prop where
  self : ρ.get? "self" = some (.atom (.ref w))
  task : ρ.get? "task_to_remove" = some (.atom (.ref t))
  current : ρ.get? "current" = some (.atom (.ref cur))

theorem RmEnv.set {ρ : PyLite.Env} {w t cur : Uid} (hρ : RmEnv ρ w t cur) (v : Val) : RmEnv (Env.set ρ "ch" v) w t cur :=
  ⟨by rw [Env.get?_set, if_neg (by decide)]; exact hρ.self, by rw [Env.get?_set, if_neg (by decide)]; exact hρ.task,
   by rw [Env.get?_set, if_neg (by decide)]; exact hρ.current⟩

def rmLoop : Stmt := match src_WBS_remove_rec with | [_, _, l, _] => l | _ => .pass
def rmBody : List Stmt := match rmLoop with | .forLive _ _ _ b => b | _ => []
theorem rm_shape : src_WBS_remove_rec =
    [.ifElse (.isNone (.var "task_to_remove")) [.ret (.bool false)] [],
     .ifElse (.callFn fn_ChildrenList_remove (.listCons (.var "current") (.listCons (.var "task_to_remove") .listNil)))
       [.ret (.bool true)] [],
     rmLoop, .ret (.bool false)] := rfl
theorem rmLoop_eq : rmLoop = .forLive "ch" (.var "current") "children" rmBody := rfl
theorem rmBody_eq : rmBody = [.ifElse (.callFn fn_WBS_remove_rec (.listCons (.var "self") (.listCons
    (.var "task_to_remove") (.listCons (.var "ch") .listNil)))) [.ret (.bool true)] []] := rfl

/-- the loop `for ch in current.children: if self.__remove(task_to_remove, ch): return True` over the LIVE list: as
    long as the recursive calls fail the store - and with it the list - is unchanged; a call that succeeds (or raises)
    ends the loop.  `call` = the recursive call, which agrees with the model on the items of the list (the induction
    hypothesis of `remove_rec_spec`). -/
theorem rm_loop (H : PHandlers) (s : G) (st : PState) (hh : st.heap = encHeap s) (w t cur : Uid)
    (rec : G → Uid → Option (G × Option Err × Bool)) (snap : List Atom)
    (hsnap : (st.heap cur).get? "children" = some (Val.list snap))
    (hfalse : ∀ c s', rec s c = some (s', none, false) → s' = s) :
    ∀ (l : List Uid),
      (∀ c ∈ l, ∀ r, rec s c = some r → r.2.1 ≠ some (.crash .recursion) →
        H.fnV fn_WBS_remove_rec [.atom (.ref w), .atom (.ref t), .atom (.ref c)] st = removeResult st r) →
      ∀ r, removeGo rec s l = some r → r.2.1 ≠ some (.crash .recursion) →
      ∀ ρ, RmEnv ρ w t cur →
        match r with
        | (s', none, true) =>
          forLiveLoopP "ch" cur "children" snap (fun ρ st => execBlockP H [] noRec rmBody ρ st) (l.map Atom.ref) ρ st =
            .ret (.atom (.bool true)) (withG st s')
        | (_, none, false) => ∃ ρ', RmEnv ρ' w t cur ∧
          forLiveLoopP "ch" cur "children" snap (fun ρ st => execBlockP H [] noRec rmBody ρ st) (l.map Atom.ref) ρ st =
            .normal ρ' st
        | (_, some e, _) =>
          forLiveLoopP "ch" cur "children" snap (fun ρ st => execBlockP H [] noRec rmBody ρ st) (l.map Atom.ref) ρ st =
            .raise e := by
  intro l
  induction l with
  | nil =>
    intro _ r hr _ ρ hρ
    simp only [removeGo] at hr
    cases hr
    exact ⟨ρ, hρ, by simp only [List.map_nil, forLiveLoopP, hsnap, if_true]⟩
  | cons c cs ih =>
    intro hcall r hr hne ρ hρ
    simp only [removeGo] at hr
    have hρ' := hρ.set (.atom (.ref c))
    have hev : ∀ r1, rec s c = some r1 → r1.2.1 ≠ some (.crash .recursion) →
        (Expr.callFn fn_WBS_remove_rec (.listCons (.var "self") (.listCons (.var "task_to_remove")
          (.listCons (.var "ch") .listNil)))).evalP H [] (Env.set ρ "ch" (.atom (.ref c))) st = removeResult st r1 := by
      intro r1 h1 h2
      rw [evalP_callFn3 (ha := evalP_var _ _ _ _ _ _ hρ'.self) (hb := evalP_var _ _ _ _ _ _ hρ'.task)
        (hc := evalP_var _ _ _ _ _ _ (by rw [Env.get?_set, if_pos rfl]))]
      exact hcall c List.mem_cons_self r1 h1 h2
    rcases hrc : rec s c with _ | ⟨s1, _ | e, _ | _⟩ <;> rw [hrc] at hr <;> simp only [] at hr
    · cases hr
    · -- the call fails: the store is unchanged, the loop goes on
      have h1 := hev _ hrc (by simp)
      have hs1 : s1 = s := hfalse c s1 hrc
      subst hs1
      have := ih (fun c hc => hcall c (List.mem_cons_of_mem _ hc)) r hr hne (Env.set ρ "ch" (.atom (.ref c))) hρ'
      have hbody : execBlockP H [] noRec rmBody (Env.set ρ "ch" (.atom (.ref c))) st =
          .normal (Env.set ρ "ch" (.atom (.ref c))) st := by
        rw [rmBody_eq, execBlockP_cons, execP_ifElse (hc := h1) (hb := rfl)]
        simp only [Bool.false_eq_true, if_false, execBlockP_nil, withG_self st s1 hh]
      simp only [List.map_cons, forLiveLoopP, hsnap, if_true, hbody]
      exact this
    · -- the call succeeds: `return True`
      cases hr
      have h1 := hev _ hrc (by simp)
      have hbody : execBlockP H [] noRec rmBody (Env.set ρ "ch" (.atom (.ref c))) st =
          .ret (.atom (.bool true)) (withG st s1) := by
        rw [rmBody_eq, execBlockP_cons, execP_ifElse (hc := h1) (hb := rfl)]
        simp only [if_true]
        rw [execBlockP_cons, execP_ret (he := evalP_bool _ _ _ _ true)]
      simp only [List.map_cons, forLiveLoopP, hsnap, if_true, hbody]
    all_goals
      -- the call raises
      cases hr
      have h1 := hev _ hrc hne
      have hbody : execBlockP H [] noRec rmBody (Env.set ρ "ch" (.atom (.ref c))) st = .raise e := by
        rw [rmBody_eq, execBlockP_cons]
        simp only [Stmt.execP, h1, removeResult, bind, Except.bind]
      simp only [List.map_cons, forLiveLoopP, hsnap, if_true, hbody]

/-- `self.__remove(t, cur)` = `removeRec t` from `cur` -/
theorem remove_rec_spec (s : G) (st : PState) (hh : st.heap = encHeap s) (w t : Uid) :
    ∀ (f : Nat) (cur : Uid) (r : G × Option Err × Bool), removeRecS t f s cur = some r →
      r.2.1 ≠ some (.crash .recursion) → ∀ F, f + s.n + 9 ≤ F →
      (Hw filt F).fnV fn_WBS_remove_rec [.atom (.ref w), .atom (.ref t), .atom (.ref cur)] st = removeResult st r := by
  intro f
  induction f with
  | zero => intro cur r h; simp [removeRecS] at h
  | succ f ih =>
    intro cur r h hne F hF
    obtain ⟨F, rfl⟩ : ∃ F', F = F' + 1 := ⟨F - 1, by omega⟩
    rw [fnW_top _ _ _ _ _ wf_remove_rec, callPV_eq]
    simp only [src_WBS_remove_rec_params, rm_shape, bindParamsV, pure, Except.pure, bind, Except.bind]
    have hρ : RmEnv [("self", .atom (.ref w)), ("task_to_remove", .atom (.ref t)), ("current", .atom (.ref cur))] w t cur :=
      ⟨rfl, rfl, rfl⟩
    generalize hρe : ([("self", Val.atom (.ref w)), ("task_to_remove", .atom (.ref t)), ("current", .atom (.ref cur))] :
      PyLite.Env) = ρ at hρ
    -- `if task_to_remove is None`
    rw [execBlockP_cons, execP_ifElse (v := .atom (.bool false)) (st' := st)
      (hc := by simp only [Expr.evalP, hρ.task, bind, Except.bind, pure, Except.pure]; rfl) (hb := rfl)]
    simp only [Bool.false_eq_true, if_false, execBlockP_nil]
    simp only [removeRecS] at h
    have hcr : (Expr.callFn fn_ChildrenList_remove (.listCons (.var "current") (.listCons (.var "task_to_remove")
        .listNil))).evalP (Hw filt F) [] ρ st =
        (Hw filt F).fnV fn_ChildrenList_remove [.atom (.ref cur), .atom (.ref t)] st :=
      evalP_callFn2 (ha := evalP_var _ _ _ _ _ _ hρ.current) (hb := evalP_var _ _ _ _ _ _ hρ.task) ..
    by_cases hc : (s.children cur).contains t = true
    · -- the task is a child of `current`: `chRemove`
      rw [if_pos hc] at h
      cases h
      have hsp := children_remove_spec filt s st hh cur t F (by omega) hne
      rw [if_pos hc] at hsp
      rw [hsp] at hcr
      cases hr : chRemove s cur t with
      | mk s' e =>
        rw [hr] at hcr
        cases e with
        | none =>
          rw [execBlockP_cons, execP_ifElse (hc := hcr) (hb := rfl)]
          simp only [if_true]
          rw [execBlockP_cons, execP_ret (he := evalP_bool _ _ _ _ true)]
          rfl
        | some e =>
          rw [execBlockP_cons]
          simp only [Stmt.execP, hcr, resultV, bind, Except.bind]
          rfl
    · -- search below the children
      rw [if_neg hc] at h
      have hsp := children_remove_spec filt s st hh cur t F (by omega)
        (by unfold chRemove; rw [if_neg hc]; simp)
      rw [if_neg hc] at hsp
      rw [hsp] at hcr
      rw [execBlockP_cons, execP_ifElse (hc := hcr) (hb := rfl)]
      simp only [Bool.false_eq_true, if_false, execBlockP_nil]
      have hsnap : (st.heap cur).get? "children" = some (Val.list ((s.children cur).map Atom.ref)) := by
        rw [hh, encHeap_apply, encTask_children]; rfl
      have hl := rm_loop (Hw filt F) s st hh w t cur (removeRecS t f) ((s.children cur).map Atom.ref) hsnap
        (fun c s' hc => removeRecS_false t f s s' c hc) (s.children cur)
        (fun c _ r1 h1 h2 => ih c r1 h1 h2 F (by omega)) r h hne ρ hρ
      rw [execBlockP_cons, rmLoop_eq]
      simp only [Stmt.execP, evalP_var _ _ _ _ _ _ hρ.current, hsnap]
      rcases r with ⟨s', _ | e, _ | _⟩
      · -- not found
        obtain ⟨ρ', hρ', hloop⟩ := hl
        have hs' : s' = s := removeGo_false _ s s' _ h
        subst hs'
        rw [hloop]
        simp only []
        rw [execBlockP_cons, execP_ret (he := evalP_bool _ _ _ _ false)]
        simp only [removeResult, withG_self st s' hh]
      · simp only [] at hl
        rw [hl]
        rfl
      · simp only [] at hl
        rw [hl]
        rfl
      · simp only [] at hl
        rw [hl]
        rfl

/-- what `wbs.remove(t)` is compared with: the flag of `removeRec` and the new state of `wbsRemove` -/
def wbsRemoveResult (st : PState) (s : G) (w t : Uid) : Res (Val × PState) :=
  match removeRec t s.fuel s w with
  | none => .error (.crash .recursion)
  | some r => removeResult st r

theorem wbsRemoveResult_state (st : PState) (s : G) (w t : Uid) :
    (wbsRemoveResult st s w t).map (·.2) = (setterResult st (wbsRemove s w t)).map (·.2) := by
  unfold wbsRemoveResult wbsRemove
  rcases removeRec t s.fuel s w with _ | ⟨s', _ | e, b⟩ <;> rfl

/-- STAGE 2, `WBS.remove(t)` = `wbsRemove` (with the flag of `removeRec` as the value) -/
theorem interpRemove_eq (s : G) (st : PState) (hh : st.heap = encHeap s) (w t : Uid) (F : Nat)
    (hF : 2 * s.n + 12 ≤ F) (hrec : (wbsRemove s w t).2 ≠ some (.crash .recursion)) :
    interpRemove F w (.atom (.ref t)) st = wbsRemoveResult st s w t := by
  obtain ⟨F, rfl⟩ : ∃ F', F = F' + 1 := ⟨F - 1, by omega⟩
  unfold interpRemove wbsRemoveResult
  unfold wbsRemove at hrec
  rw [interpW_eq, fnW_top _ _ _ _ _ wf_remove]
  cases hr : removeRec t s.fuel s w with
  | none => rw [hr] at hrec; exact absurd rfl hrec
  | some r =>
    rw [hr] at hrec
    have hsp := remove_rec_spec noFilt s st hh w t s.fuel w r (by rw [removeRecS_eq]; exact hr)
      (by rcases r with ⟨s', e, b⟩; exact hrec) F (by unfold G.fuel; omega)
    pyo [src_WBS_remove_params, src_WBS_remove, pyTypeIs, hsp, Bool.not_true, Bool.false_eq_true, if_false,
      String.reduceEq, if_true, reduceIte, true_or, decide_true]
    rcases removeResult st r with e | ⟨v, st'⟩ <;> rfl

/-- `wbs.remove(x)` for `x` that is not a task (`None`, a list): RuntimeError -/
theorem interpRemove_none (st : PState) (w : Uid) (F : Nat) :
    interpRemove (F + 1) w (.atom .none) st = .error .runtime := by
  unfold interpRemove
  rw [interpW_eq, fnW_top _ _ _ _ _ wf_remove]
  pyo [src_WBS_remove_params, src_WBS_remove, pyTypeIs, String.reduceEq, if_true, reduceIte, true_or,
    Bool.not_false]

theorem interpRemove_list (st : PState) (w : Uid) (vs : List Atom) (F : Nat) :
    interpRemove (F + 1) w (.list vs) st = .error .runtime := by
  unfold interpRemove
  rw [interpW_eq, fnW_top _ _ _ _ _ wf_remove]
  pyo [src_WBS_remove_params, src_WBS_remove, pyTypeIs, String.reduceEq, if_true, reduceIte, true_or,
    Bool.not_false, decide_false, or_self, or_false, false_or]

/-! ### `WBS.remove_all` -/

/-- the local environment of `remove_all` inside its loop -/
structure RaEnv (ρ : PyLite.Env) (w : Uid) (v : Val) : Prop where
  self : ρ.get? "self" = some (.atom (.ref w))
  lst : ρ.get? "tasks_to_delete" = some v

def raBody : List Stmt :=
  [.expr (.callFn fn_WBS_remove_rec (.listCons (.var "self") (.listCons (.var "t")
    (.listCons (.prim "_root" (.listCons (.var "self") .listNil)) .listNil))))]

/-- `for t in tasks_to_delete: self.__remove(t, self.__root)` = `forEach wbsRemove` -/
theorem ra_loop (st : PState) (w : Uid) (lv : Val) (n F : Nat) (hF : 2 * n + 10 ≤ F) :
    ∀ (ts : List Uid) (s0 : G), s0.n = n →
      (forEach (fun s t => wbsRemove s w t) s0 ts).2 ≠ some (.crash .recursion) →
      ∀ ρ, RaEnv ρ w lv →
        match forEach (fun s t => wbsRemove s w t) s0 ts with
        | (s', none) => ∃ ρ', RaEnv ρ' w lv ∧
            forLoopP "t" (fun ρ st => execBlockP (Hw filt F) [] noRec raBody ρ st) (ts.map Atom.ref) ρ (withG st s0) =
              .normal ρ' (withG st s')
        | (_, some e) =>
            forLoopP "t" (fun ρ st => execBlockP (Hw filt F) [] noRec raBody ρ st) (ts.map Atom.ref) ρ (withG st s0) =
              .raise e := by
  intro ts
  induction ts with
  | nil => intro s0 _ _ ρ hρ; exact ⟨ρ, hρ, rfl⟩
  | cons t ts ih =>
    intro s0 hn hrec ρ hρ
    simp only [forEach] at hrec ⊢
    have hρ' : RaEnv (Env.set ρ "t" (.atom (.ref t))) w lv :=
      ⟨by rw [Env.get?_set, if_neg (by decide)]; exact hρ.self,
       by rw [Env.get?_set, if_neg (by decide)]; exact hρ.lst⟩
    have hev : (Expr.callFn fn_WBS_remove_rec (.listCons (.var "self") (.listCons (.var "t")
        (.listCons (.prim "_root" (.listCons (.var "self") .listNil)) .listNil)))).evalP (Hw filt F) []
        (Env.set ρ "t" (.atom (.ref t))) (withG st s0) =
        (Hw filt F).fnV fn_WBS_remove_rec [.atom (.ref w), .atom (.ref t), .atom (.ref w)] (withG st s0) :=
      evalP_callFn3 (ha := evalP_var _ _ _ _ _ _ hρ'.self)
        (hb := evalP_var _ _ _ _ _ _ (by rw [Env.get?_set, if_pos rfl]))
        (hc := evalP_root filt F [] _ _ "self" w hρ'.self) ..
    rw [← wbsRemoveS_eq s0 w t] at hrec ⊢
    unfold wbsRemoveS at hrec ⊢
    cases hr : removeRecS t s0.fuel s0 w with
    | none => rw [hr] at hrec; exact absurd rfl hrec
    | some r =>
      rw [hr] at hrec
      rcases r with ⟨s1, _ | e, b⟩
      · simp only [] at hrec ⊢
        have hsp := remove_rec_spec filt s0 (withG st s0) rfl w t s0.fuel w _ hr (by simp) F
          (by unfold G.fuel; omega)
        rw [hsp] at hev
        have hn1 : s1.n = n := by
          have := wbsRemove_n s0 w t
          rw [← wbsRemoveS_eq s0 w t] at this
          unfold wbsRemoveS at this
          rw [hr] at this
          exact this.trans hn
        have := ih s1 hn1 hrec (Env.set ρ "t" (.atom (.ref t))) hρ'
        have hbody : execBlockP (Hw filt F) [] noRec raBody (Env.set ρ "t" (.atom (.ref t))) (withG st s0) =
            .normal (Env.set ρ "t" (.atom (.ref t))) (withG st s1) := by
          rw [raBody, execBlockP_cons, execP_expr (he := hev)]
          rfl
        simp only [List.map_cons, forLoopP, hbody]
        exact this
      · simp only [] at hrec ⊢
        have hsp := remove_rec_spec filt s0 (withG st s0) rfl w t s0.fuel w _ hr hrec F
          (by unfold G.fuel; omega)
        rw [hsp] at hev
        have hbody : execBlockP (Hw filt F) [] noRec raBody (Env.set ρ "t" (.atom (.ref t))) (withG st s0) =
            .raise e := by
          rw [raBody, execBlockP_cons, execP_expr_err (he := hev)]
        simp only [List.map_cons, forLoopP, hbody]

/-- STAGE 2, `WBS.remove_all(key, **kwargs)`: the filter evaluation `self.tasks(key, **kwargs)` yields the tasks
    `filt [self, key, kwargs] st`; they are removed one by one (`forEach wbsRemove`, the `wbsRemoveAll` of `step`);
    the value is the list of the chosen tasks -/
theorem interpRemoveAll_eq (s : G) (st : PState) (hh : st.heap = encHeap s) (w : Uid) (key kw : Atom) (F : Nat)
    (hF : 2 * s.n + 12 ≤ F)
    (hrec : (forEach (fun s t => wbsRemove s w t) s (filt [.ref w, key, kw] st)).2 ≠ some (.crash .recursion)) :
    interpRemoveAll filt F w key kw st =
      resultV st (refs (filt [.ref w, key, kw] st))
        (forEach (fun s t => wbsRemove s w t) s (filt [.ref w, key, kw] st)) := by
  obtain ⟨F, rfl⟩ : ∃ F', F = F' + 1 := ⟨F - 1, by omega⟩
  unfold interpRemoveAll
  rw [interpW_eq, fnW_top _ _ _ _ _ wf_remove_all, callPV_eq]
  generalize hts : filt [.ref w, key, kw] st = ts at hrec ⊢
  simp only [src_WBS_remove_all_params, src_WBS_remove_all, bindParamsV, pure, Except.pure, bind, Except.bind]
  rw [execBlockP_cons, execP_assign (v := refs ts) (st' := st)
    (he := by pyo [wbsPrim, hts, String.reduceEq, if_false, if_true, reduceIte])]
  simp only []
  have hlen : (Expr.cmp .eq (.len (.var "tasks_to_delete")) (.num 0)).evalP (Hw filt F) []
      (Env.set [("self", .atom (.ref w)), ("key", .atom key), ("kwargs", .atom kw)] "tasks_to_delete" (refs ts)) st =
      .ok (.atom (.bool (decide (ts.length = 0))), st) := by
    pyo [refs, String.reduceEq, if_false, if_true, reduceIte, List.length_map, Atom.pyEq, Atom.norm]
    congr 3
    simp [Rat.natCast_eq_zero_iff]
  rw [execBlockP_cons, execP_ifElse (hc := hlen) (hb := rfl)]
  cases ts with
  | nil =>
    simp only [List.length_nil, decide_true, if_true]
    rw [execBlockP_cons, execP_ret (v := .list []) (st' := st) (he := by pyo [])]
    simp only [forEach, resultV, refs, List.map_nil, withG_self st s hh]
  | cons t ts =>
    simp only [List.length_cons, Nat.add_one_ne_zero, decide_false, Bool.false_eq_true, if_false, execBlockP_nil]
    have hρ : RaEnv (Env.set [("self", .atom (.ref w)), ("key", .atom key), ("kwargs", .atom kw)] "tasks_to_delete"
        (refs (t :: ts))) w (refs (t :: ts)) :=
      ⟨by rw [Env.get?_set, if_neg (by decide)]; rfl, by rw [Env.get?_set, if_pos rfl]⟩
    have hl := ra_loop filt st w (refs (t :: ts)) s.n F (by omega) (t :: ts) s rfl hrec _ hρ
    rw [execBlockP_cons, execP_forIn (vs := (t :: ts).map Atom.ref) (st' := st)
      (hit := evalP_var _ _ _ _ _ _ (by rw [Env.get?_set, if_pos rfl]; rfl))]
    rw [← withG_self st s hh]
    change (match (match forLoopP "t" (fun ρ st => execBlockP (Hw filt F) [] noRec raBody ρ st) _ _ _ with
      | .normal ρ' st' => _ | r => r) with | .normal _ st' => _ | .cont _ st' => _ | .ret v st' => _ | .raise e => _) = _
    cases hfe : forEach (fun s t => wbsRemove s w t) s (t :: ts) with
    | mk s' e =>
      rw [hfe] at hl
      cases e with
      | none =>
        obtain ⟨ρ', hρ', hloop⟩ := hl
        rw [hloop]
        simp only []
        rw [execBlockP_cons, execP_ret (he := evalP_var _ _ _ _ _ _ hρ'.lst)]
        rfl
      | some e =>
        simp only [] at hl
        rw [hl]
        rfl

end Pj.WbsSrc
