/-
  Lemmas/PrintSrcCheckB.lean — stage 3, kernel-checked concrete runs: the calls `__print_task_subtree` / `repr` make on the
  table (the log) are the model's rows (`subtreeRows`, the header row of `sheet`), and the value of `repr` is the model's
  `sheet` (through the primitive "text_repr" = `render`).  See Lemmas/PrintSrc.lean, Lemmas/PrintSrcCheck.lean (the WBS).
-/
import PjVerif.Lemmas.PrintSrcCheck
namespace Pj.PrintSrc
open Pj.PyLite Pj.Print Pj.Extracted.Print
namespace Check

/-- two level colours only: level 2 falls back to GREY -/
def th1 : PyTheme := { header := some (some "91m".toList), levels := ["94m".toList, "96m".toList] }
/-- no header colour key (GREY), no level colours -/
def th2 : PyTheme := { header := none, levels := [] }
/-- header colour None -/
def th3 : PyTheme := { header := some none, levels := ["94m".toList] }

def fs1 : List Str := ["id", "name", "Prio", "predecessors", "nosuch"].map String.toList

def subtreeOK (th : PyTheme) (fields : List Str) (children : Bool) (level t : Nat) (log : List Atom) : Bool :=
  decide (interpSubtree S w1 th FC t fields level children log =
    .ok (log ++ logOfRows S (subtreeRows ts1 fields children (toTheme th) 8 level t)))

example : ([th1, th2, th3].all (fun th => [true, false].all (fun ch => [0, 1, 3, 5].all (fun t =>
    subtreeOK th fs1 ch 0 t [] && subtreeOK th fs1 ch 1 t [.bool true, .none])))) = true := by decide +kernel

/-- the exact log: depth first, three blanks per level, `print_color` "91m" overrides the level colour of task 2, a
    `print_color` None does not (task 3: level 2, beyond the two level colours: GREY "97m") -/
example : interpSubtree S w1 th1 FC 1 (["id", "name"].map String.toList) 0 true [] = .ok
    [.bool true, S.s "94m".toList, S.s "1".toList, S.s "Alpha".toList,
     .bool true, S.s "91m".toList, S.s "2".toList, S.s "   beta".toList,
     .bool true, S.s "97m".toList, S.s "x-3".toList, S.s "      ".toList,
     .bool true, S.s "96m".toList, S.s "4".toList, S.s "   Gamma".toList] := by decide +kernel

/-- `children=False`: one row -/
example : interpSubtree S w1 th1 FC 1 (["id", "name"].map String.toList) 0 false [] = .ok
    [.bool true, S.s "94m".toList, S.s "1".toList, S.s "Alpha".toList] := by decide +kernel

def reprOK (th : PyTheme) (tasks : List Nat) (fields : List Str) (children : Bool) : Bool :=
  let header : Option Str × List Cell :=
    ((toTheme th).header, fields.map (fun f => { text := f.map asciiUpper, color := (toTheme th).header }))
  let rows := header :: (tasks.map (subtreeRows ts1 fields children (toTheme th) 8 0)).flatten
  decide (interpRepr S w1 th FC tasks fields children =
    .ok (.atom (S.s (sheet ts1 7 tasks fields children (toTheme th))), logOfRows S rows))
  && decide (rowsOfLog S (logOfRows S rows) = some rows)

example : reprOK th1 [1, 5] fs1 true = true := by decide +kernel
example : reprOK th2 [0] fs1 true = true := by decide +kernel
example : reprOK th3 [2, 4] fs1 false = true := by decide +kernel
example : reprOK th1 [] fs1 true = true := by decide +kernel
example : reprOK th1 [1] [] true = true := by decide +kernel

end Check
end Pj.PrintSrc
