/-
  Lemmas/CsvSrcS2.lean — CSV I/O, READ side, `raws_to_wbs`: the body of the first loop and the loop.
-/
import PjVerif.Lemmas.CsvSrcS1
namespace Pj.CsvSrc
open Pj.PyLite Pj.Extracted.Csv Pj.Csv

def msE : Expr :=
  .ite (.isIn (.prim "lit:min_start" .listNil) (.prim "__dict__" (.listCons (.var "raw") .listNil)))
    (.prim "__getattribute__" (.listCons (.var "raw") (.listCons (.prim "lit:min_start" .listNil) .listNil))) .none

theorem hasKey_of_get (e : PyLite.Env) (k : String) (v : Val) (h : e.get? k = some v) : hasKey e k = true := by
  have := mem_keys_of_get e k v h
  simp only [hasKey, List.any_eq_true]
  obtain ⟨p, hp, hk⟩ := List.mem_map.1 this
  exact ⟨p, hp, by simp [hk]⟩

/-- `raw.min_start if 'min_start' in raw.__dict__ else None` -/
theorem eval_msE (L : IOLib) (F : Nat) (env : PyLite.Env) (st : PState) (o : Nat)
    (hraw : env.get? "raw" = some (.atom (.ref o))) (h : RawOK (st.heap o)) :
    msE.evalP (HH L F) [] env st = .ok (.atom (msOf (st.heap o)), st) := by
  have hin : (Expr.isIn (.prim "lit:min_start" .listNil) (.prim "__dict__" (.listCons (.var "raw") .listNil))).evalP
      (HH L F) [] env st =
      .ok (.atom (.bool (((dictNames (st.heap o)).map nameA).any (fun v => v.pyEq (nameA "min_start")))), st) :=
    eval_isIn (eval_prim eval_nil (by rw [HH_prim]; exact prim_lit_min_start L st))
      (eval_prim (eval_cons (eval_var hraw) eval_nil) (by rw [HH_prim, prim_dict]))
  rw [names_any _ _ h.noTask] at hin
  unfold msE
  rw [eval_ite hin rfl]
  cases hk : hasKey (st.heap o) "min_start" with
  | false =>
    simp only [Bool.false_eq_true, if_false]
    rw [eval_noneE]
    simp [msOf, hk]
  | true =>
    obtain ⟨a, ha⟩ := h.ms hk
    simp only [if_true]
    rw [eval_prim (v := .atom a) (eval_cons (eval_var hraw) (eval_cons (eval_prim eval_nil (by
        rw [HH_prim]; exact prim_lit_min_start L st)) eval_nil))
      (by rw [HH_prim]; exact (prim_getattr L st o "min_start").trans (by rw [ha]))]
    simp [msOf, hk, slot, ha]

def taskCallE : Expr :=
  .callFn 101 (.listCons (.attr (.var "raw") "id") (.listCons (.attr (.var "raw") "name") (.listCons (.attr (.var "raw") "resource") (.listCons (.attr (.var "raw") "start") (.listCons (.attr (.var "raw") "end") (.listCons (.attr (.var "raw") "estimate") (.listCons (.attr (.var "raw") "spent") (.listCons (.attr (.var "raw") "milestone") (.listCons msE .listNil)))))))))

/-- `Task(raw.id, raw.name, …)` -/
theorem eval_taskCall (L : IOLib) (F : Nat) (env : PyLite.Env) (st : PState) (o : Nat)
    (hraw : env.get? "raw" = some (.atom (.ref o))) (h : RawOK (st.heap o)) :
    taskCallE.evalP (HH L (F + 1)) [] env st = .ok (.atom (.ref st.reads), allocSt st (taskEnvOf (st.heap o))) := by
  have ha : ∀ f ∈ rawAtomFields, (Expr.attr (.var "raw") f).evalP (HH L (F + 1)) [] env st =
      .ok (.atom (slot (st.heap o) f), st) := fun f hf => eval_attr (eval_var hraw) (h.get f hf)
  unfold taskCallE
  rw [eval_callFn (evalArgs_cons (ha "id" (by decide)) (evalArgs_cons (ha "name" (by decide))
    (evalArgs_cons (ha "resource" (by decide)) (evalArgs_cons (ha "start" (by decide))
    (evalArgs_cons (ha "end" (by decide)) (evalArgs_cons (ha "estimate" (by decide))
    (evalArgs_cons (ha "spent" (by decide)) (evalArgs_cons (ha "milestone" (by decide))
    (evalArgs_cons (eval_msE L (F + 1) env st o hraw h) evalArgs_nil))))))))),
    HH_fnV_lib L F 101 _ _ rfl, ioFn_task L st _ _ _ _ _ _ _ _ _ h.est h.spent]
  rfl

def mkBody : List Stmt :=
  [.assign "t" taskCallE,
   .forIn "k" (.prim "__dict__" (.listCons (.var "raw") .listNil)) attrBody,
   .assign "tasks_by_id" (.dictSet (.var "tasks_by_id") (.attr (.var "t") "id") (.var "t"))]

theorem dictNames_raw (e : PyLite.Env) (h : isTask e = false) : dictNames e = e.map (·.1) := by
  unfold dictNames
  rw [h]; rfl

/-- one round of the first loop: the task object is allocated, `tasks_by_id[t.id] = t` -/
theorem mk_body (L : IOLib) (F : Nat) (rec) (env : PyLite.Env) (st : PState) (o : Nat) (D : List (Atom × Atom))
    (hraw : env.get? "raw" = some (.atom (.ref o))) (hD : env.get? "tasks_by_id" = some (.dict D))
    (ho : o < st.reads) (h : RawOK (st.heap o)) :
    ∃ env', execBlockP (HH L (F + 1)) [] rec mkBody env st = .normal env' (allocSt st (mkTask (st.heap o))) ∧
      env'.get? "tasks_by_id" = some (.dict (Dict.insert D (slot (st.heap o) "id") (.ref st.reads))) ∧
      Frame ["t", "k", "tasks_by_id"] env env' := by
  let e := st.heap o
  let i := st.reads
  have hoi : o ≠ i := Nat.ne_of_lt ho
  let env1 := env.set "t" (.atom (.ref i))
  let st1 := allocSt st (taskEnvOf e)
  have h1 : (Stmt.assign "t" taskCallE).execP (HH L (F + 1)) [] rec env st = .normal env1 st1 :=
    exec_assign (eval_taskCall L F env st o hraw h)
  have hraw1 : env1.get? "raw" = some (.atom (.ref o)) := by rw [envGet_set, if_neg (by decide)]; exact hraw
  have ht1 : env1.get? "t" = some (.atom (.ref i)) := by rw [envGet_set, if_pos rfl]
  have he1 : st1.heap o = e := by
    show (if o = st.reads then _ else _) = _
    rw [if_neg hoi]
  obtain ⟨env2, h2, hfr2⟩ := attr_loop L F rec o i e hoi (e.map (·.1)) env1 st1 hraw1 ht1 he1
    (fun k hk => get_of_mem_keys e k hk)
  have hst2 : ({ st1 with heap := fun j => if j = i then (e.map (·.1)).foldl (attrStep e) (st1.heap i) else st1.heap j } :
      PState) = allocSt st (mkTask e) := by
    simp only [st1, allocSt]
    congr 1
    funext j
    by_cases hj : j = i
    · simp [hj, i, mkTask]
    · simp [hj, i]
  rw [hst2] at h2
  have h2' : (Stmt.forIn "k" (.prim "__dict__" (.listCons (.var "raw") .listNil)) attrBody).execP (HH L (F + 1)) [] rec
      env1 st1 = .normal env2 (allocSt st (mkTask e)) := by
    rw [exec_forIn (v := .list ((e.map (·.1)).map nameA)) (eval_prim (eval_cons (eval_var hraw1) eval_nil)
      (by rw [HH_prim, prim_dict, he1, dictNames_raw e h.noTask])) rfl]
    exact h2
  have ht2 : env2.get? "t" = some (.atom (.ref i)) := by rw [hfr2 "t" (by decide)]; exact ht1
  have hD2 : env2.get? "tasks_by_id" = some (.dict D) := by
    rw [hfr2 "tasks_by_id" (by decide), envGet_set, if_neg (by decide)]; exact hD
  have hid : ((allocSt st (mkTask e)).heap i).get? "id" = some (.atom (slot e "id")) := by
    simp only [allocSt, i, if_true]
    exact mkTask_get e "id" _ (by simp [taskEnvOf, PyLite.Env.get?])
  have h3 : (Stmt.assign "tasks_by_id" (.dictSet (.var "tasks_by_id") (.attr (.var "t") "id") (.var "t"))).execP
      (HH L (F + 1)) [] rec env2 (allocSt st (mkTask e)) =
      .normal (env2.set "tasks_by_id" (.dict (Dict.insert D (slot e "id") (.ref i)))) (allocSt st (mkTask e)) :=
    exec_assign (eval_dictSet (eval_var ht2) (eval_var hD2) (eval_attr (eval_var ht2) hid))
  refine ⟨env2.set "tasks_by_id" (.dict (Dict.insert D (slot e "id") (.ref i))), ?_,
    by rw [envGet_set, if_pos rfl], ?_⟩
  · unfold mkBody
    rw [block_cons_normal h1, block_cons_normal h2', block_cons_normal h3]
    rfl
  · intro x hx
    rw [envGet_set, if_neg (fun hh => hx (by simp [← hh])), hfr2 x (fun hh => hx (by simp [hh])),
      envGet_set, if_neg (fun hh => hx (by simp [← hh]))]

/-- the dict `tasks_by_id` after the raw objects `os` (their tasks at `r`, `r + 1`, …) -/
def byId (E : Nat → PyLite.Env) : List Nat → Nat → List (Atom × Atom) → List (Atom × Atom)
  | [], _, D => D
  | o :: os, r, D => byId E os (r + 1) (Dict.insert D (slot (E o) "id") (.ref r))

/-- the first loop: one task per raw object, allocated in order -/
theorem mk_loop (L : IOLib) (F : Nat) (rec) (E : Nat → PyLite.Env) :
    ∀ (os : List Nat) (env : PyLite.Env) (st : PState) (D : List (Atom × Atom)),
      env.get? "tasks_by_id" = some (.dict D) → (∀ o ∈ os, o < st.reads ∧ st.heap o = E o ∧ RawOK (E o)) →
      ∃ env', forLoopP "raw" (fun e s => execBlockP (HH L (F + 1)) [] rec mkBody e s) (os.map Atom.ref) env st =
          .normal env' (os.foldl (fun s o => allocSt s (mkTask (E o))) st) ∧
        env'.get? "tasks_by_id" = some (.dict (byId E os st.reads D)) ∧
        Frame ["raw", "t", "k", "tasks_by_id"] env env'
  | [], env, st, D, hD, _ => ⟨env, rfl, hD, Frame.refl _ _⟩
  | o :: os, env, st, D, hD, hos => by
    obtain ⟨ho, he, hok⟩ := hos o (List.mem_cons_self ..)
    obtain ⟨env1, g1, g2, g3⟩ := mk_body L F rec (env.set "raw" (.atom (.ref o))) st o D
      (by rw [envGet_set, if_pos rfl]) (by rw [envGet_set, if_neg (by decide)]; exact hD) ho (by rw [he]; exact hok)
    rw [he] at g1 g2
    obtain ⟨env2, g4, g5, g6⟩ := mk_loop L F rec E os env1 (allocSt st (mkTask (E o))) _ g2 (fun o' ho' => by
      obtain ⟨a, b, c⟩ := hos o' (List.mem_cons_of_mem _ ho')
      refine ⟨Nat.lt_succ_of_lt a, ?_, c⟩
      simp only [allocSt, if_neg (Nat.ne_of_lt a)]; exact b)
    refine ⟨env2, ?_, g5, ?_⟩
    · rw [List.map_cons, forLoopP, g1]
      dsimp only
      rw [g4]; rfl
    · intro x hx
      rw [g6 x hx, g3 x (fun hh => hx (by simp at hh ⊢; rcases hh with h | h | h <;> simp [h])),
        envGet_set, if_neg (fun hh => hx (by simp [← hh]))]

end Pj.CsvSrc
