/-
  Lemmas/FacadeSrcCheckI.lean — stage 1 of the translated tie for the list facades of task.py, continued: kernel-checked
  concrete runs of `_ChildrenList.insert` (Extracted/FacadeSrc.lean) against `chInsert` / `pyInsert` (Model/GraphOps.lean).
  See Lemmas/FacadeSrcCheck.lean / Lemmas/FacadeSrc.lean.
-/
import PjVerif.Lemmas.FacadeSrcCheck
namespace Pj.FacadeSrc
open Pj.PyLite Pj.Extracted Pj.Extracted.Facade Pj.TaskSrc Pj.TaskSrc.Check
namespace Check

/-! #### `_ChildrenList.insert(i, t)` = `chInsert` (`pyInsert`): every owner, every task, indexes inside, at the ends,
    negative and out of range -/

def agreeChInsert (s : G) (h : Uid) (i : Int) (t : Uid) : Prop :=
  runE s (interpChInsert FF h i t) = expectR s.n noneV (chInsert s h i t)
instance (s h i t) : Decidable (agreeChInsert s h i t) := by unfold agreeChInsert; infer_instance

def insertAgree (s : G) (is : List Int) : Bool :=
  allU s (fun h => allU s (fun t => is.all (fun i => decide (agreeChInsert s h i t))))

example : insertAgree g2 [0, 1, 2, 5, -1, -2, -7] = true := by decide +kernel
example : insertAgree g3 [0, 1, -1] = true := by decide +kernel
example : allU g1 (fun h => [1, 2, 5, 9, 10, 12].all (fun t => [0, -1].all (fun i => decide (agreeChInsert g1 h i t)))) = true := by
  decide +kernel
example : (chInsert g1 0 1 10).2 = none ∧ (chInsert g1 0 1 10).1.children 0 = [1, 10, 3] ∧ agreeChInsert g1 0 1 10 := by
  decide +kernel                                                              -- a detached task between the roots
example : (chInsert g1 0 0 3).2 = none ∧ (chInsert g1 0 0 3).1.children 0 = [3, 1] ∧ agreeChInsert g1 0 0 3 := by
  decide +kernel                                                              -- an existing child moves to the front
example : (chInsert g1 0 (-1) 2).2 = none ∧ (chInsert g1 0 (-1) 2).1.children 0 = [1, 2, 3] ∧
    (chInsert g1 0 (-1) 2).1.children 1 = [] ∧ agreeChInsert g1 0 (-1) 2 := by decide +kernel   -- from another parent
example : (chInsert g1 1 7 9).2 = some .runtime ∧ agreeChInsert g1 1 7 9 := by decide +kernel     -- another WBS
example : (chInsert g1 2 0 1).2 = some .runtime ∧ agreeChInsert g1 2 0 1 := by decide +kernel     -- an ancestor
/-- an index that is not an `int` is outside the encoding: the run is stuck -/
example : runE g1 (interpF noLib FF fn_ChildrenList_insert [refV 0, noneV, refV 10]) = .error stuck := by decide +kernel
/-- `None` as the task: RuntimeError (`_check_not_none`) -/
example : runE g1 (interpF noLib FF fn_ChildrenList_insert [refV 0, intV 0, noneV]) = .error .runtime := by decide +kernel
example : runE g1 (interpF noLib FF fn_ChildrenList_remove [refV 0, noneV]) = .error .runtime := by decide +kernel

end Check
end Pj.FacadeSrc
