/-
  Lemmas/CsvSrcR2.lean — CSV I/O, towards the READ side: `TaskRaw(..., **kwargs)` with keyword arguments.
-/
import PjVerif.Lemmas.CsvSrcR
namespace Pj.CsvSrc
open Pj.PyLite Pj.Extracted.Csv Pj.Csv

section more
variable {H : PHandlers} {self : PyLite.Env}
theorem eval_dictIndex {d k : Expr} {env : PyLite.Env} {st st1 st2 : PState} {kvs : List (Atom × Atom)} {kk v : Atom}
    (hd : d.evalP H self env st = .ok (.dict kvs, st1)) (hk : k.evalP H self env st1 = .ok (.atom kk, st2))
    (hg : Dict.get? kvs kk = some v) :
    (Expr.dictIndex d k).evalP H self env st = .ok (.atom v, st2) := by
  simp only [Expr.evalP, hd, hk, hg, bind, Except.bind, pure, Except.pure]
end more

def kwBody : List Stmt :=
  [.assign "v" (.dictIndex (.var "kwargs") (.var "k")),
   .expr (.callFn 100 (.listCons (.var "self") (.listCons (.var "k") (.listCons (.var "v") .listNil))))]

/-- `setattr(self, k, v)` for one keyword argument -/
def setKw (e : PyLite.Env) (p : Atom × Atom) : PyLite.Env :=
  match p.1 with
  | .str n => e.set (String.ofList (strDecode n)) (.atom p.2)
  | _ => e

theorem ioFn_setattr_str (L : IOLib) (st : PState) (i n : Nat) (v : Val) :
    ioFn L 100 [.atom (.ref i), .atom (.str n), v] st =
      .ok (.atom .none, { st with heap := heapSet st.heap i (String.ofList (strDecode n)) v }) := by
  unfold ioFn
  rw [if_pos rfl]; rfl

theorem kw_body (L : IOLib) (F : Nat) (rec) (env : PyLite.Env) (st : PState) (o n : Nat) (a : Atom)
    (kvs : List (Atom × Atom)) (hself : env.get? "self" = some (.atom (.ref o)))
    (hkw : env.get? "kwargs" = some (.dict kvs)) (hk : env.get? "k" = some (.atom (.str n)))
    (hg : Dict.get? kvs (.str n) = some a) :
    execBlockP (HH L (F + 1)) [] rec kwBody env st =
      .normal (env.set "v" (.atom a))
        { st with heap := fun j => if j = o then setKw (st.heap o) (.str n, a) else st.heap j } := by
  let env1 := env.set "v" (.atom a)
  have hself1 : env1.get? "self" = some (.atom (.ref o)) := by rw [envGet_set, if_neg (by decide)]; exact hself
  have hk1 : env1.get? "k" = some (.atom (.str n)) := by rw [envGet_set, if_neg (by decide)]; exact hk
  have hv1 : env1.get? "v" = some (.atom a) := by rw [envGet_set, if_pos rfl]
  unfold kwBody
  rw [block_cons_normal (exec_assign (eval_dictIndex (eval_var hkw) (eval_var hk) hg)),
    block_cons_normal (exec_expr (v := .atom .none)
      ((eval_callFn (evalArgs_cons (eval_var hself1) (evalArgs_cons (eval_var hk1) (evalArgs_cons (eval_var hv1)
        evalArgs_nil)))).trans ((HH_fnV_lib L F 100 _ _ rfl).trans (ioFn_setattr_str L st o n (.atom a)))))]
  have hh : heapSet st.heap o (String.ofList (strDecode n)) (.atom a) =
      fun j => if j = o then setKw (st.heap o) (.str n, a) else st.heap j := by
    funext j
    by_cases hj : j = o
    · subst hj; simp [heapSet, setKw]
    · simp [heapSet, hj]
  rw [hh]; rfl

theorem kw_loop (L : IOLib) (F : Nat) (rec) (o : Nat) (kvs : List (Atom × Atom)) :
    ∀ (l : List (Atom × Atom)) (env : PyLite.Env) (st : PState),
      env.get? "self" = some (.atom (.ref o)) → env.get? "kwargs" = some (.dict kvs) →
      (∀ p ∈ l, ∃ n, p.1 = .str n ∧ Dict.get? kvs p.1 = some p.2) →
      ∃ env', forLoopP "k" (fun e s => execBlockP (HH L (F + 1)) [] rec kwBody e s) (l.map (·.1)) env st =
        .normal env' { st with heap := fun j => if j = o then l.foldl setKw (st.heap o) else st.heap j }
  | [], env, st, _, _, _ => by
    refine ⟨env, ?_⟩
    have hh : (fun j => if j = o then st.heap o else st.heap j) = st.heap := by
      funext j; by_cases hj : j = o <;> simp [hj]
    simp only [List.map_nil, forLoopP, List.foldl_nil, hh]
  | p :: l, env, st, hself, hkw, hl => by
    obtain ⟨n, hn, hg⟩ := hl p (List.mem_cons_self ..)
    have hb := kw_body L F rec (env.set "k" (.atom p.1)) st o n p.2 kvs
      (by rw [envGet_set, if_neg (by decide)]; exact hself) (by rw [envGet_set, if_neg (by decide)]; exact hkw)
      (by rw [envGet_set, if_pos rfl, hn]) (by rw [← hn]; exact hg)
    obtain ⟨env', h1⟩ := kw_loop L F rec o kvs l ((env.set "k" (.atom p.1)).set "v" (.atom p.2))
      { st with heap := fun j => if j = o then setKw (st.heap o) (.str n, p.2) else st.heap j }
      (by rw [envGet_set, if_neg (by decide), envGet_set, if_neg (by decide)]; exact hself)
      (by rw [envGet_set, if_neg (by decide), envGet_set, if_neg (by decide)]; exact hkw)
      (fun q hq => hl q (List.mem_cons_of_mem _ hq))
    refine ⟨env', ?_⟩
    rw [List.map_cons, forLoopP, hb]
    dsimp only
    rw [h1]
    congr 2
    funext j
    by_cases hj : j = o
    · subst hj
      have : (Atom.str n, p.2) = p := by rw [← hn]
      simp [this]
    · simp [hj]

def initEnv (o : Nat) (a : List Val) (kw : Val) : PyLite.Env :=
  [("self", .atom (.ref o)), ("id", a.getD 0 (.atom .none)), ("name", a.getD 1 (.atom .none)),
   ("resource", a.getD 2 (.atom .none)), ("start", a.getD 3 (.atom .none)), ("end", a.getD 4 (.atom .none)),
   ("milestone", a.getD 5 (.atom .none)), ("estimate", a.getD 6 (.atom .none)), ("spent", a.getD 7 (.atom .none)),
   ("parent_id", a.getD 8 (.atom .none)), ("predecessor_ids", a.getD 9 (.atom .none)), ("kwargs", kw)]

def tenSets : List Stmt :=
  [.setAttr (.var "self") "id" (.var "id"), .setAttr (.var "self") "name" (.var "name"),
   .setAttr (.var "self") "resource" (.var "resource"), .setAttr (.var "self") "start" (.var "start"),
   .setAttr (.var "self") "end" (.var "end"), .setAttr (.var "self") "milestone" (.var "milestone"),
   .setAttr (.var "self") "estimate" (.var "estimate"), .setAttr (.var "self") "spent" (.var "spent"),
   .setAttr (.var "self") "parent_id" (.var "parent_id"),
   .setAttr (.var "self") "predecessor_ids" (.var "predecessor_ids")]

theorem ten_sets (H : PHandlers) (rec) (o : Nat) (a : List Val) (kw : Val) (rest : List Stmt) (st : PState)
    (ho : st.heap o = []) :
    execBlockP H [] rec (tenSets ++ rest) (initEnv o a kw) st =
      execBlockP H [] rec rest (initEnv o a kw)
        { st with heap := fun j => if j = o then rawBase a else st.heap j } := by
  have hs : (initEnv o a kw).get? "self" = some (.atom (.ref o)) := by simp [initEnv, PyLite.Env.get?]
  simp only [tenSets, List.cons_append, List.nil_append]
  rw [block_cons_normal (exec_setAttr_var (i := o) (v := a.getD 0 (.atom .none)) (by simp [initEnv, PyLite.Env.get?]) hs),
    block_cons_normal (exec_setAttr_var (i := o) (v := a.getD 1 (.atom .none)) (by simp [initEnv, PyLite.Env.get?]) hs),
    block_cons_normal (exec_setAttr_var (i := o) (v := a.getD 2 (.atom .none)) (by simp [initEnv, PyLite.Env.get?]) hs),
    block_cons_normal (exec_setAttr_var (i := o) (v := a.getD 3 (.atom .none)) (by simp [initEnv, PyLite.Env.get?]) hs),
    block_cons_normal (exec_setAttr_var (i := o) (v := a.getD 4 (.atom .none)) (by simp [initEnv, PyLite.Env.get?]) hs),
    block_cons_normal (exec_setAttr_var (i := o) (v := a.getD 5 (.atom .none)) (by simp [initEnv, PyLite.Env.get?]) hs),
    block_cons_normal (exec_setAttr_var (i := o) (v := a.getD 6 (.atom .none)) (by simp [initEnv, PyLite.Env.get?]) hs),
    block_cons_normal (exec_setAttr_var (i := o) (v := a.getD 7 (.atom .none)) (by simp [initEnv, PyLite.Env.get?]) hs),
    block_cons_normal (exec_setAttr_var (i := o) (v := a.getD 8 (.atom .none)) (by simp [initEnv, PyLite.Env.get?]) hs),
    block_cons_normal (exec_setAttr_var (i := o) (v := a.getD 9 (.atom .none)) (by simp [initEnv, PyLite.Env.get?]) hs)]
  congr 2
  funext j
  by_cases hj : j = o
  · subst hj
    simp [heapSet, ho, PyLite.Env.set, rawBase]
  · simp [heapSet, hj]

/-- `TaskRaw.__init__(self, id, …, predecessor_ids, kwargs)` on a fresh object: the ten slots, then one attribute per
    keyword argument (in the order of the dict) -/
theorem taskRaw_init_kw (L : IOLib) (F o : Nat) (a0 a1 a2 a3 a4 a5 a6 a7 a8 a9 : Val) (kvs : List (Atom × Atom))
    (st : PState) (ho : st.heap o = []) (hk : ∀ p ∈ kvs, ∃ n, p.1 = .str n ∧ Dict.get? kvs p.1 = some p.2) :
    callPV (HH L (F + 1)) src_TaskRaw_init_params src_TaskRaw_init
      [.atom (.ref o), a0, a1, a2, a3, a4, a5, a6, a7, a8, a9, .dict kvs] st =
    .ok (.atom .none, { st with heap := fun j =>
      if j = o then (List.foldl setKw (rawBase [a0, a1, a2, a3, a4, a5, a6, a7, a8, a9]) kvs) else st.heap j }) := by
  have hshape : src_TaskRaw_init = tenSets ++ [.forIn "k" (.var "kwargs") kwBody] := rfl
  let a := [a0, a1, a2, a3, a4, a5, a6, a7, a8, a9]
  let st1 : PState := { st with heap := fun j => if j = o then rawBase a else st.heap j }
  obtain ⟨env', h1⟩ := kw_loop L F (fun _ _ => throw stuck) o kvs kvs (initEnv o a (.dict kvs)) st1
    (by simp [initEnv, PyLite.Env.get?]) (by simp [initEnv, PyLite.Env.get?]) hk
  have henv : ([("self", .atom (.ref o)), ("id", a0), ("name", a1), ("resource", a2), ("start", a3), ("end", a4),
      ("milestone", a5), ("estimate", a6), ("spent", a7), ("parent_id", a8), ("predecessor_ids", a9),
      ("kwargs", .dict kvs)] : PyLite.Env) = initEnv o a (.dict kvs) := rfl
  simp only [callPV, bindParamsV, src_TaskRaw_init_params, pure, Except.pure, bind, Except.bind]
  rw [henv, hshape, ten_sets _ _ o a _ _ st ho,
    block_cons_normal ((exec_forIn (v := .dict kvs) (vs := kvs.map (·.1))
      (eval_var (by simp [initEnv, PyLite.Env.get?])) rfl).trans h1)]
  simp only [execBlockP]
  congr 3
  funext j
  by_cases hj : j = o <;> simp [hj, st1, a]

end Pj.CsvSrc
