/-
  Lemmas/CsvSrcR9.lean — CSV I/O, towards the READ side: the standard cells of a data row (`RowOK`) from the model's
  `readRow` and the library's parsers, as `expectRead` (CsvSrc.lean) applies them.
-/
import PjVerif.Lemmas.CsvSrcR8
import PjVerif.Lemmas.CsvLemmas
namespace Pj.CsvSrc
open Pj.PyLite Pj.Extracted.Csv Pj.Csv

theorem cellParse_of_optParse {α} (f : Str → Res α) (g : α → Atom) (c : Str) (a : Atom)
    (h : optParse f g (nonEmpty c) = some a) : cellParse f g c = .ok (.atom a) := by
  unfold cellParse
  cases hn : nonEmpty c with
  | none =>
    rw [hn] at h
    simp only [optParse, Option.some.injEq] at h
    subst h; rfl
  | some s =>
    rw [hn] at h
    simp only [optParse] at h
    cases hf : f s with
    | error e => simp [hf] at h
    | ok x =>
      simp only [hf, Option.some.injEq] at h
      subst h
      show Except.map (fun a => Val.atom (g a)) (f s) = _
      rw [hf]; rfl

theorem rowOK_of_readRow (L : IOLib) (hdr row : List Str) (r : Rec) (h : readRow hdr row = some r)
    (q0 : Rat) (a3 a4 a6 a7 a8 : Atom) (ps : List Rat) (hq0 : L.toInt r.id = .ok q0)
    (h3 : optParse L.strptime Atom.time r.start = some a3) (h4 : optParse L.strptime Atom.time r.end_ = some a4)
    (h6 : optParse L.toFloat Atom.num r.estimate = some a6) (h7 : optParse L.toFloat Atom.num r.spent = some a7)
    (h8 : optParse L.toInt Atom.num r.parentId = some a8) (h9 : r.predIds.mapM L.toInt = .ok ps) :
    RowOK L hdr row [.atom (.num q0), .atom (optStr r.name), .atom (optStr r.resource), .atom a3, .atom a4,
      .atom (.bool r.milestone), .atom a6, .atom a7, .atom a8, .list (ps.map Atom.num)] := by
  rw [readRow_def] at h
  simp only [Option.bind_eq_some_iff] at h
  obtain ⟨c0, g0, c1, g1, c2, g2, c3, g3, c4, g4, c6, g6, c7, g7, c5, g5, c8, g8, c9, g9, cu, -, hr⟩ := h
  simp only [Option.some.injEq] at hr
  subst hr
  refine ⟨c0, c1, c2, c3, c4, c5, c6, c7, c8, c9, q0, .atom a3, .atom a4, .atom a6, .atom a7, .atom a8,
    .list (ps.map Atom.num), g0, g1, g2, g3, g4, g5, g6, g7, g8, g9, hq0, cellParse_of_optParse _ _ _ _ h3,
    cellParse_of_optParse _ _ _ _ h4, cellParse_of_optParse _ _ _ _ h6, cellParse_of_optParse _ _ _ _ h7,
    cellParse_of_optParse _ _ _ _ h8, ?_, rfl⟩
  by_cases hc : c9 = []
  · subst hc
    have : ps = [] := by simpa [pure, Except.pure] using h9.symm
    subst this; rfl
  · have hne : c9.isEmpty = false := by cases c9 with
      | nil => exact absurd rfl hc
      | cons _ _ => rfl
    simp only [hne, Bool.false_eq_true, if_false] at h9
    rw [if_neg hc, h9]; rfl

end Pj.CsvSrc
