/- Lemmas/Query.lean — helper lemmas for Props/C18.lean -/
import PjVerif.Spec.Query
namespace Pj

/-! ### generic list facts -/

/-- `find?` over two lists of equal length whose predicates agree position by position: both find nothing, or both
    find the elements at the same position -/
theorem find?_zip_agree {α β : Type} (p : α → Bool) (q : β → Bool) :
    ∀ (l1 : List α) (l2 : List β), l1.length = l2.length → (∀ x ∈ l1.zip l2, p x.1 = q x.2) →
      (l1.find? p = none ∧ l2.find? q = none) ∨
      ∃ a b, (a, b) ∈ l1.zip l2 ∧ l1.find? p = some a ∧ l2.find? q = some b
  | [], [], _, _ => Or.inl ⟨rfl, rfl⟩
  | [], _ :: _, h, _ => by simp at h
  | _ :: _, [], h, _ => by simp at h
  | a :: l1, b :: l2, hlen, h => by
    have hab : p a = q b := h (a, b) (by simp)
    cases hq : q b with
    | true =>
      refine Or.inr ⟨a, b, by simp, ?_, ?_⟩
      · simp [hab, hq]
      · simp [hq]
    | false =>
      have hp : p a = false := by rw [hab, hq]
      have ih := find?_zip_agree p q l1 l2 (by simpa using hlen)
        (fun x hx => h x (by simp only [List.zip_cons_cons]; exact List.mem_cons_of_mem _ hx))
      rcases ih with ⟨h1, h2⟩ | ⟨a', b', hm, h1, h2⟩
      · exact Or.inl ⟨by simp [hp, h1], by simp [hq, h2]⟩
      · refine Or.inr ⟨a', b', ?_, ?_, ?_⟩
        · simp only [List.zip_cons_cons]; exact List.mem_cons_of_mem _ hm
        · simp [hp, h1]
        · simp [hq, h2]

/-- the head of a filtered list is what `find?` finds -/
theorem find?_of_filter_eq_cons {α : Type} (p : α → Bool) :
    ∀ (l : List α) (m : α) (rest : List α), l.filter p = m :: rest → l.find? p = some m
  | [], _, _, h => by simp at h
  | a :: l, m, rest, h => by
    cases hp : p a with
    | true =>
      rw [List.filter_cons_of_pos hp] at h
      obtain ⟨rfl, -⟩ := List.cons.inj h
      simp [hp]
    | false =>
      rw [List.filter_cons_of_neg (by simp [hp])] at h
      simp [hp, find?_of_filter_eq_cons p l m rest h]

/-- "keep the strictly longer one" never leaves `m` when nothing in the list is longer than `m` -/
theorem foldl_best_eq (len : Kind → Nat) (m : Kind) :
    ∀ rest : List Kind, (∀ kd ∈ rest, len kd ≤ len m) →
      rest.foldl (fun b kd => if len b < len kd then kd else b) m = m
  | [], _ => rfl
  | kd :: rest, h => by
    have h1 : ¬ len m < len kd := Nat.not_lt.mpr (h kd (by simp))
    simp only [List.foldl_cons, h1, if_false]
    exact foldl_best_eq len m rest (fun x hx => h x (List.mem_cons_of_mem _ hx))

/-! ### the documented suffixes: an earlier kind is never a proper suffix of a later one -/

/-- evaluated on the concrete list `allKinds`: whenever a later suffix is strictly longer than an earlier one, the
    earlier one is not a suffix of it (so both cannot end the same keyword) -/
theorem allKinds_order :
    allKinds.Pairwise (fun a b => (kindSuffix a).length < (kindSuffix b).length →
      ¬ ((kindSuffix a).toList.isSuffixOf (kindSuffix b).toList = true)) := by
  decide

/-- the longest documented suffix a keyword ends with is the first one in `allKinds` it ends with -/
theorem specParse_eq_find (k : List Char) :
    specParse k =
      match allKinds.find? (fun kd => endsWith k (kindSuffix kd).toList) with
      | some kd => (cutLast k (kindSuffix kd).length, kd)
      | none => (k, .eq) := by
  unfold specParse
  cases hms : allKinds.filter (fun kd => endsWith k (kindSuffix kd).toList) with
  | nil =>
    have : allKinds.find? (fun kd => endsWith k (kindSuffix kd).toList) = none := by
      rw [List.find?_eq_none]; exact List.filter_eq_nil_iff.mp hms
    simp only [this]
  | cons m rest =>
    have hfind := find?_of_filter_eq_cons _ _ _ _ hms
    have hpw := List.Pairwise.filter (fun kd => endsWith k (kindSuffix kd).toList) allKinds_order
    rw [hms, List.pairwise_cons] at hpw
    have hmem : ∀ kd ∈ m :: rest, (kindSuffix kd).toList <:+ k := by
      intro kd hkd
      rw [← hms, List.mem_filter] at hkd
      exact List.isSuffixOf_iff_suffix.mp hkd.2
    have hle : ∀ kd ∈ rest, (kindSuffix kd).length ≤ (kindSuffix m).length := by
      intro kd hkd
      apply Nat.le_of_not_lt
      intro hlt
      apply hpw.1 kd hkd hlt
      apply List.isSuffixOf_iff_suffix.mpr
      apply List.suffix_of_suffix_length_le (hmem m (by simp)) (hmem kd (List.mem_cons_of_mem _ hkd))
      rw [String.length_toList, String.length_toList]
      exact Nat.le_of_lt hlt
    simp only [hfind, foldl_best_eq (fun kd => (kindSuffix kd).length) m rest hle]

/-! ### the `Except` plumbing -/

theorem map_not_bind_not (x : Res Bool) :
    (do let r ← x.map (fun b => !b); pure (!r) : Res Bool) = x := by
  cases x with
  | error e => rfl
  | ok b => cases b <;> rfl

/-- `holds`, with the pair pattern replaced by projections -/
theorem holds_eq (re : String → String → Bool) (attr : List Char → Val) (k : List Char) (v : FVal) :
    holds re attr k v =
      (do let r ← (parseKey Extracted.queryChain Extracted.queryDefault k).2.eval re
                    (attr (parseKey Extracted.queryChain Extracted.queryDefault k).1) v
          pure (!r)) := rfl

theorem specHolds_eq (re : String → String → Bool) (attr : List Char → Val) (k : List Char) (v : FVal) :
    specHolds re attr k v = meaning re (specParse k).2 (attr (specParse k).1) v := rfl

/-! ### the list comprehension -/

/-- the accumulating fold of `queryIdx` over an arbitrary list of positions: it fails when some `h i` fails, and
    otherwise appends the positions with `h i = ok true` -/
theorem foldlM_select (h : Nat → Res Bool) :
    ∀ (l : List Nat) (acc idx : List Nat),
      l.foldlM (fun acc i => do
        let b ← h i
        pure (if b then acc ++ [i] else acc)) acc = (.ok idx : Res (List Nat)) →
      idx = acc ++ l.filter (fun i => isOkTrue (h i))
  | [], acc, idx, hf => by
    simp only [List.foldlM_nil] at hf
    cases hf; simp
  | i :: l, acc, idx, hf => by
    rw [List.foldlM_cons] at hf
    cases hi : h i with
    | error e => rw [hi] at hf; cases hf
    | ok b =>
      rw [hi] at hf
      cases b with
      | true =>
        have := foldlM_select h l (acc ++ [i]) idx hf
        simp [this, hi, isOkTrue]
      | false =>
        have := foldlM_select h l acc idx hf
        simp [this, hi, isOkTrue]

end Pj
