/-
  Lemmas/FacadeSrcCheckB.lean — stage 2 of the translated tie for the list facades of task.py: kernel-checked concrete
  runs of `_ChildrenList.move` and `_ChildrenList.reorder` (Extracted/FacadeSrc.lean) against `chMove` / `chReorder`
  (Model/GraphOps.lean).  See Lemmas/FacadeSrcCheck.lean / Lemmas/FacadeSrc.lean.
-/
import PjVerif.Lemmas.FacadeSrcCheck
namespace Pj.FacadeSrc
open Pj.PyLite Pj.Extracted Pj.Extracted.Facade Pj.TaskSrc Pj.TaskSrc.Check
namespace Check

/-- a detached task 0 with the children 1 … 5 (3 and 5 share their id), and a stranger 6 -/
def g6 : G := mk [
  { tid := 100, children := [1, 2, 3, 4, 5] },
  { tid := 10, parent := some 0 },
  { tid := 20, parent := some 0 },
  { tid := 30, parent := some 0 },
  { tid := 40, parent := some 0 },
  { tid := 30, parent := some 0 },
  { tid := 60 }]

/-- NOT well formed: the children list of 0 names 1 twice -/
def g7 : G := mk [
  { tid := 100, children := [1, 2, 1, 3] },
  { tid := 10, parent := some 0 },
  { tid := 20, parent := some 0 },
  { tid := 30, parent := some 0 }]

/-! #### `h.children.move(v, before=b, after=a)` = `chMove` -/

def agreeMove (s : G) (h : Uid) (v : Val) (ts : List Uid) (b a : Option Uid) : Prop :=
  runE s (interpChMove FF h v b a) = expectR s.n noneV (chMove s h ts b a)
instance (s h v ts b a) : Decidable (agreeMove s h v ts b a) := by unfold agreeMove; infer_instance

def anchors (s : G) : List (Option Uid) := none :: (List.range s.n).map some

/-- every owner, one task / two tasks / a repeated task / no task, every `before` and every `after` (also both, also none) -/
def moveAgree (s : G) : Bool :=
  allU s (fun h => allU s (fun t => (anchors s).all (fun x =>
    decide (agreeMove s h (refV t) [t] x none) && decide (agreeMove s h (refs [t, 4]) [t, 4] none x) &&
    decide (agreeMove s h (refs [t, 2, t]) [t, 2, t] x none) && decide (agreeMove s h (refs [t]) [t] x (some 2)))))

example : moveAgree g6 = true := by decide +kernel
example : moveAgree g7 = true := by decide +kernel
example : allU g2 (fun h => allU g2 (fun t => (anchors g2).all (fun x =>
    decide (agreeMove g2 h (refV t) [t] x none) && decide (agreeMove g2 h (refV t) [t] none x)))) = true := by
  decide +kernel
example : (chMove g6 0 [4] (some 1) none).2 = none ∧ (chMove g6 0 [4] (some 1) none).1.children 0 = [4, 1, 2, 3, 5] := by
  decide +kernel                                                               -- before, not after
example : (chMove g6 0 [1] none (some 4)).2 = none ∧ (chMove g6 0 [1] none (some 4)).1.children 0 = [2, 3, 4, 1, 5] := by
  decide +kernel
example : (chMove g6 0 [1, 2] none (some 5)).2 = none ∧
    (chMove g6 0 [1, 2] none (some 5)).1.children 0 = [3, 4, 5, 2, 1] := by decide +kernel
example : (chMove g6 0 [5, 4] (some 2) none).2 = none ∧
    (chMove g6 0 [5, 4] (some 2) none).1.children 0 = [1, 5, 4, 2, 3] := by decide +kernel
example : (chMove g6 0 [6] (some 1) none).2 = some .runtime ∧ (chMove g6 0 [1] (some 6) none).2 = some .runtime ∧
    (chMove g6 0 [1] (some 1) none).2 = some .runtime ∧ (chMove g6 0 [1] (some 2) (some 3)).2 = some .runtime ∧
    (chMove g6 0 [1] none none).2 = some .runtime := by decide +kernel
example : agreeMove g6 0 noneV [] (some 1) none ∧ agreeMove g6 0 (.list [.ref 3, .none, .ref 1]) [3, 1] none (some 5) := by
  decide +kernel

/-! #### `h.children.reorder(ids)` = `chReorder`: StopIteration for an unknown id, ValueError for a repeated one -/

def agreeReorder (s : G) (h : Uid) (ids : List Int) : Prop :=
  runE s (interpChReorder FF h ids) = expectR s.n noneV (chReorder s h ids)
instance (s h ids) : Decidable (agreeReorder s h ids) := by unfold agreeReorder; infer_instance

def reorderAgree (s : G) (idss : List (List Int)) : Bool :=
  allU s (fun h => idss.all (fun ids => decide (agreeReorder s h ids)))

example : reorderAgree g6 [[], [40], [40, 10], [30, 30], [30, 30, 30], [20, 77], [10, 10], [40, 30, 20, 10, 30]] = true := by
  decide +kernel
example : reorderAgree g7 [[], [10], [10, 10], [10, 10, 10], [30, 20]] = true := by decide +kernel
example : reorderAgree g1 [[], [30], [30, 10], [10, 10], [20]] = true := by decide +kernel
example : reorderAgree g2 [[], [3, 2], [6], [2, 2]] = true := by decide +kernel
example : (chReorder g6 0 [40, 10]).2 = none ∧ (chReorder g6 0 [40, 10]).1.children 0 = [4, 1, 2, 3, 5] := by decide +kernel
/-- two children share the id 30: the id always finds the FIRST of them, so naming it twice is a ValueError -/
example : (chReorder g6 0 [30]).1.children 0 = [3, 1, 2, 4, 5] ∧ (chReorder g6 0 [30, 30]).2 = some (.crash .value) := by
  decide +kernel
example : (chReorder g6 0 [20, 77]).2 = some (.crash .stopIteration) := by decide +kernel
/-- on the list that names 1 twice the second `10` removes the second entry: no error -/
example : (chReorder g7 0 [10, 10]).2 = none ∧ (chReorder g7 0 [10, 10]).1.children 0 = [1, 1, 2, 3] := by decide +kernel

end Check
end Pj.FacadeSrc
