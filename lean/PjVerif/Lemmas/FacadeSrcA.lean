/-
  Lemmas/FacadeSrcA.lean — stage 1 of the translated tie for the list facades of task.py (general theorems):
  `_ChildrenList.remove / insert`, `_PredecessorsList.append / remove`, `_SuccessorsList.append / remove`,
  `_ImmutableTaskList.__add__`, `Task.__floordiv__ / __lshift__ / __rshift__`, `Task.__set_children`.
  See Lemmas/FacadeSrc.lean for the setting and Lemmas/FacadeSrcD.lean for the list of results.
-/
import PjVerif.Lemmas.FacadeSrc
import PjVerif.Lemmas.FacadeSrcMono
import PjVerif.Lemmas.TaskSrcD
namespace Pj.FacadeSrc
open Pj.PyLite Pj.Extracted Pj.Extracted.Facade Pj.TaskSrc
set_option linter.unusedSimpArgs false
set_option linter.unusedVariables false

/-! ### the extended program -/

/-- the handlers of the extended program with `F` units of fuel -/
abbrev Hf (L : Lib) (F : Nat) : PHandlers := progH (facPrim L) facadeFuns F

theorem interpF_eq (L : Lib) (F k : Nat) (args : List Val) (st : PState) :
    interpF L F k args st = (Hf L F).fnV k args st := rfl

theorem taskFuns_none (k : Nat) (hk : 25 ≤ k) : taskFuns k = none := by
  unfold taskFuns
  rw [if_neg (show ¬ k = fn_to_list by unfold fn_to_list; omega)]
  rw [if_neg (show ¬ k = fn_find_root by unfold fn_find_root; omega)]
  rw [if_neg (show ¬ k = fn_collect_subtree by unfold fn_collect_subtree; omega)]
  rw [if_neg (show ¬ k = fn_has_id_intersection by unfold fn_has_id_intersection; omega)]
  rw [if_neg (show ¬ k = fn_linked_with_any by unfold fn_linked_with_any; omega)]
  rw [if_neg (show ¬ k = fn_unique_objects by unfold fn_unique_objects; omega)]
  rw [if_neg (show ¬ k = fn_check_not_none by unfold fn_check_not_none; omega)]
  rw [if_neg (show ¬ k = fn_check_no_nones_in_list by unfold fn_check_no_nones_in_list; omega)]
  rw [if_neg (show ¬ k = fn_Task_attach by unfold fn_Task_attach; omega)]
  rw [if_neg (show ¬ k = fn_Task_raw_parent by unfold fn_Task_raw_parent; omega)]
  rw [if_neg (show ¬ k = fn_Task_detach by unfold fn_Task_detach; omega)]
  rw [if_neg (show ¬ k = fn_Task_parent_get by unfold fn_Task_parent_get; omega)]
  rw [if_neg (show ¬ k = fn_Task_parent_set by unfold fn_Task_parent_set; omega)]
  rw [if_neg (show ¬ k = fn_Task_get_all_parents by unfold fn_Task_get_all_parents; omega)]
  rw [if_neg (show ¬ k = fn_Task_get_all_parents_get_parent by unfold fn_Task_get_all_parents_get_parent; omega)]
  rw [if_neg (show ¬ k = fn_Task_children_set by unfold fn_Task_children_set; omega)]
  rw [if_neg (show ¬ k = fn_Task_get_all_children by unfold fn_Task_get_all_children; omega)]
  rw [if_neg (show ¬ k = fn_Task_get_all_children_get_children by unfold fn_Task_get_all_children_get_children; omega)]
  rw [if_neg (show ¬ k = fn_Task_predecessors_set by unfold fn_Task_predecessors_set; omega)]
  rw [if_neg (show ¬ k = fn_Task_get_all_predecessors by unfold fn_Task_get_all_predecessors; omega)]
  rw [if_neg (show ¬ k = fn_Task_get_all_predecessors_get_predecessor by unfold fn_Task_get_all_predecessors_get_predecessor; omega)]
  rw [if_neg (show ¬ k = fn_Task_successors_set by unfold fn_Task_successors_set; omega)]
  rw [if_neg (show ¬ k = fn_Task_get_all_successors by unfold fn_Task_get_all_successors; omega)]
  rw [if_neg (show ¬ k = fn_Task_get_all_successors_get_successor by unfold fn_Task_get_all_successors_get_successor; omega)]
  rw [if_neg (show ¬ k = fn_ChildrenList_append by unfold fn_ChildrenList_append; omega)]

theorem facadeFuns_old (k : Nat) (hk : k < 25) : facadeFuns k = taskFuns k := by
  unfold facadeFuns
  rw [if_neg (show ¬ k = fn_Task_set_children by unfold fn_Task_set_children; omega)]
  rw [if_neg (show ¬ k = fn_ImmutableTaskList_add by unfold fn_ImmutableTaskList_add; omega)]
  rw [if_neg (show ¬ k = fn_ChildrenList_remove by unfold fn_ChildrenList_remove; omega)]
  rw [if_neg (show ¬ k = fn_ChildrenList_insert by unfold fn_ChildrenList_insert; omega)]
  rw [if_neg (show ¬ k = fn_PredecessorsList_append by unfold fn_PredecessorsList_append; omega)]
  rw [if_neg (show ¬ k = fn_PredecessorsList_remove by unfold fn_PredecessorsList_remove; omega)]
  rw [if_neg (show ¬ k = fn_SuccessorsList_append by unfold fn_SuccessorsList_append; omega)]
  rw [if_neg (show ¬ k = fn_SuccessorsList_remove by unfold fn_SuccessorsList_remove; omega)]
  rw [if_neg (show ¬ k = fn_Task_floordiv by unfold fn_Task_floordiv; omega)]
  rw [if_neg (show ¬ k = fn_Task_lshift by unfold fn_Task_lshift; omega)]
  rw [if_neg (show ¬ k = fn_Task_rshift by unfold fn_Task_rshift; omega)]
  rw [if_neg (show ¬ k = fn_ChildrenList_move by unfold fn_ChildrenList_move; omega)]
  rw [if_neg (show ¬ k = fn_ChildrenList_reorder by unfold fn_ChildrenList_reorder; omega)]
  rw [if_neg (show ¬ k = fn_ChildrenList_sort by unfold fn_ChildrenList_sort; omega)]
  rw [if_neg (show ¬ k = fn_ImmutableTaskList_lshift by unfold fn_ImmutableTaskList_lshift; omega)]
  rw [if_neg (show ¬ k = fn_ImmutableTaskList_rshift by unfold fn_ImmutableTaskList_rshift; omega)]
  rw [if_neg (show ¬ k = fn_ImmutableTaskList_set_parent by unfold fn_ImmutableTaskList_set_parent; omega)]

theorem tblLe : TblLe taskFuns facadeFuns := by
  intro k x h
  have hk : k < 25 := by
    refine Nat.lt_of_not_le (fun hc => ?_)
    rw [taskFuns_none k hc] at h
    cases h
  rw [facadeFuns_old k hk]
  exact h

/-- no `try … except` of the program task.py handles `stuck` (it has no `try` at all): the side condition of
    `progH_mono` in the merged language, see Lemmas/FacadeSrcMono.lean -/
theorem tblOk : TblOk taskFuns := by
  intro k params body h
  have hk : k < 25 := by
    refine Nat.lt_of_not_le (fun hc => ?_)
    rw [taskFuns_none k hc] at h
    cases h
  have key : ∀ k < 25, (match taskFuns k with | some x => noCatchStuckL x.2 | none => true) = true := by
    decide +kernel
  have := key k hk
  rw [h] at this
  exact this

theorem primLe (L : Lib) : PrimLe taskPrim (facPrim L) := by
  intro n as st
  unfold facPrim
  by_cases hn : n = "_root"
  · rw [if_pos hn]; exact RLe.refl _
  · left
    unfold taskPrim
    split
    · rw [if_neg hn]; rfl
    · rfl

/-- what was proved about a run of the program task.py holds in the extended program -/
theorem lift (L : Lib) {F k : Nat} {args : List Val} {st : PState} {r : Res (Val × PState)}
    (h : (Hd F).fnV k args st = r) (hns : r ≠ .error stuck) : (Hf L F).fnV k args st = r :=
  progH_mono (primLe L) tblLe tblOk F k args st r h hns

/-! ### the model never produces `stuck` (`.crash .other`): its errors are RuntimeError and RecursionError -/

theorem findSome?_ns {α : Type} (f : α → Option Err) (hf : ∀ v, f v ≠ some stuck) (l : List α) :
    l.findSome? f ≠ some stuck := by
  induction l with
  | nil => simp
  | cons a l ih =>
    simp only [List.findSome?_cons]
    cases h : f a with
    | none => exact ih
    | some e => intro he; exact hf a (by rw [h]; exact he)

syntax "ns_tac" : tactic
macro_rules
  | `(tactic| ns_tac) => `(tactic|
      (intro he; repeat' split at he
       all_goals first
         | (simp [stuck] at he; done)
         | (cases he; done)))

theorem chkParentSome_ns (s : G) (t p : Uid) : chkParentSome s t p ≠ some stuck := by
  unfold chkParentSome
  dsimp only
  intro he
  split at he
  · rename_i e heq
    cases he
    revert heq
    ns_tac
  · revert he
    ns_tac

theorem mutParentSome_ns (s : G) (t p : Uid) : (mutParentSome s t p).2 ≠ some stuck := by
  unfold mutParentSome
  dsimp only
  ns_tac

theorem setParentSome_ns (s : G) (t p : Uid) : (setParentSome s t p).2 ≠ some stuck := by
  unfold setParentSome
  cases h : chkParentSome s t p with
  | none => exact mutParentSome_ns s t p
  | some e => intro he; exact chkParentSome_ns s t p (by rw [h]; exact he)

theorem setParent_ns (s : G) (t : Uid) (p : Option Uid) : (setParent s t p).2 ≠ some stuck := by
  cases p with
  | some p => exact setParentSome_ns s t p
  | none =>
    unfold setParent setParentNone
    cases s.owner t with
    | none => simp
    | some w => exact setParentSome_ns s t w

theorem chkLinks_ns (s : G) (next : Uid → List Uid) (t : Uid) (l : List Uid) : chkLinks s next t l ≠ some stuck := by
  unfold chkLinks
  cases ancF s s.fuel (s.parent t) with
  | none => simp [stuck]
  | some anc =>
    cases descF s.children s.fuel t with
    | none => simp [stuck]
    | some desc =>
      dsimp only
      split
      · simp [stuck]
      · apply findSome?_ns
        intro v
        ns_tac

theorem setPreds_ns (s : G) (t : Uid) (l : List Uid) : (setPreds s t l).2 ≠ some stuck := by
  unfold setPreds
  cases h : chkLinks s s.preds t l with
  | none => simp
  | some e => intro he; exact chkLinks_ns s s.preds t l (by rw [h]; exact he)

theorem setSuccs_ns (s : G) (t : Uid) (l : List Uid) : (setSuccs s t l).2 ≠ some stuck := by
  unfold setSuccs
  cases h : chkLinks s s.succs t l with
  | none => simp
  | some e => intro he; exact chkLinks_ns s s.succs t l (by rw [h]; exact he)

theorem chkChildren_ns (s : G) (h : Uid) (l : List Uid) : chkChildren s h l ≠ some stuck := by
  unfold chkChildren
  dsimp only
  intro he
  split at he
  · rename_i e heq
    cases he
    revert heq
    ns_tac
  · revert he
    split
    · simp [stuck]
    · simp [stuck]
    · split
      · simp [stuck]
      · apply findSome?_ns
        intro v
        ns_tac

theorem releaseChildren_ns (s : G) (h : Uid) (l : List Uid) : (releaseChildren s h l).2 ≠ some stuck := by
  unfold releaseChildren
  dsimp only
  ns_tac

theorem foldSetParent_ns (h : Uid) : ∀ (l : List Uid) (s : G), (foldSetParent s l h).2 ≠ some stuck := by
  intro l
  induction l with
  | nil => intro s; simp [foldSetParent]
  | cons v vs ih =>
    intro s
    simp only [foldSetParent]
    have := setParent_ns s v (some h)
    cases hr : setParent s v (some h) with
    | mk s' e =>
      rw [hr] at this
      cases e with
      | none => exact ih s'
      | some e => exact this

theorem setChildren_ns (s : G) (h : Uid) (l : List Uid) : (setChildren s h l).2 ≠ some stuck := by
  unfold setChildren
  cases hc : chkChildren s h l with
  | some e => intro he; exact chkChildren_ns s h l (by rw [hc]; exact he)
  | none =>
    dsimp only
    have := releaseChildren_ns s h l
    cases hr : releaseChildren s h l with
    | mk s1 e =>
      rw [hr] at this
      cases e with
      | none => exact foldSetParent_ns h l s1
      | some e => exact this

theorem setterResult_ns (st : PState) (r : G × Option Err) (h : r.2 ≠ some stuck) :
    setterResult st r ≠ .error stuck := by
  obtain ⟨s', e⟩ := r
  cases e with
  | none => simp [setterResult]
  | some e => intro he; apply h; simp only [setterResult] at he; cases he; rfl

/-! ### the callees, in the extended program -/

theorem fnVf_succ (L : Lib) (F k : Nat) (params : List String) (body : List Stmt)
    (h : facadeFuns k = some (params, body)) (args : List Val) (st : PState) :
    (Hf L (F + 1)).fnV k args st = callPV (Hf L F) params body args st := by
  simp only [Hf, progH, h]

theorem check_not_none_f (L : Lib) (st : PState) (F : Nat) (t : Uid) :
    (Hf L (F + 1)).fnV fn_check_not_none [.atom (.ref t)] st = .ok (.atom .none, st) :=
  lift L (check_not_none_spec st F t) (by simp)

theorem to_list_f (L : Lib) {v : Val} {l : List Uid} (hv : ValueOf v l) (st : PState) (F : Nat) :
    (Hf L (F + 1)).fnV fn_to_list [v] st = .ok (refs l, st) :=
  lift L (hv st F) (by simp)

theorem children_set_f (L : Lib) (s : G) (st : PState) (hh : st.heap = encHeap s) (h : Uid) (l : List Uid) (F : Nat)
    (v : Val) (hv : ValueOf v l) (hF : s.fuel + 5 ≤ F) (hrec : (setChildren s h l).2 ≠ some (.crash .recursion)) :
    (Hf L F).fnV fn_Task_children_set [.atom (.ref h), v] st = setterResult st (setChildren s h l) :=
  lift L (children_set_spec s st hh h l F v hv hF hrec) (setterResult_ns _ _ (setChildren_ns s h l))

theorem preds_set_f (L : Lib) (s : G) (st : PState) (hh : st.heap = encHeap s) (t : Uid) (l : List Uid) (F : Nat)
    (v : Val) (hv : ValueOf v l) (hF : s.fuel + 3 ≤ F) (hrec : (setPreds s t l).2 ≠ some (.crash .recursion)) :
    (Hf L F).fnV fn_Task_predecessors_set [.atom (.ref t), v] st = setterResult st (setPreds s t l) :=
  lift L (preds_set_spec s st hh t l F v hv hF hrec) (setterResult_ns _ _ (setPreds_ns s t l))

theorem succs_set_f (L : Lib) (s : G) (st : PState) (hh : st.heap = encHeap s) (t : Uid) (l : List Uid) (F : Nat)
    (v : Val) (hv : ValueOf v l) (hF : s.fuel + 3 ≤ F) (hrec : (setSuccs s t l).2 ≠ some (.crash .recursion)) :
    (Hf L F).fnV fn_Task_successors_set [.atom (.ref t), v] st = setterResult st (setSuccs s t l) :=
  lift L (succs_set_spec s st hh t l F v hv hF hrec) (setterResult_ns _ _ (setSuccs_ns s t l))

theorem parent_set_f (L : Lib) (s : G) (st : PState) (hh : st.heap = encHeap s) (t : Uid) (p : Option Uid) (F : Nat)
    (hF : s.fuel + 5 ≤ F)
    (honce : p = none → ∀ w q, s.owner t = some w → s.parent t = some q → (s.children q).count t ≤ 1)
    (hrec : (setParent s t p).2 ≠ some (.crash .recursion)) :
    (Hf L F).fnV fn_Task_parent_set [.atom (.ref t), .atom (optRef p)] st = setterResult st (setParent s t p) :=
  lift L (parent_set_spec s st hh t p F hF honce hrec) (setterResult_ns _ _ (setParent_ns s t p))

/-- what a run of a facade method / operator is compared with: the returned value `v` and the encoding of the model's
    new state when the model accepts, the model's error when it rejects (`setterResult` = `opResult` with `None`) -/
def opResult (st : PState) (v : Val) (r : G × Option Err) : Res (Val × PState) :=
  match r with
  | (s', none) => .ok (v, withG st s')
  | (_, some e) => .error e

theorem setterResult_eq (st : PState) (r : G × Option Err) : setterResult st r = opResult st (.atom .none) r := rfl

/-! ### comprehensions over a list of tasks -/

theorem filter_ne_refs (l : List Uid) (t : Uid) :
    (l.map Atom.ref).filter (fun a => !a.pyEq (Atom.ref t)) = (l.filter (fun v => v != t)).map Atom.ref := by
  induction l with
  | nil => rfl
  | cons a l ih =>
    simp only [List.map_cons, List.filter_cons, pyEq_ref, ih]
    by_cases h : a = t
    · subst h; simp
    · have hb : (a != t) = true := by simpa using h
      simp [h, hb]

/-- `[x for x in it if x != y]` (`!=` on tasks is identity) -/
theorem evalP_comp_ne (H : PHandlers) (self ρ : PyLite.Env) (st0 st : PState) (it : Expr) (x y : String) (l : List Uid)
    (t : Uid) (hxy : x ≠ y) (hit : it.evalP H self ρ st0 = .ok (refs l, st)) (hy : ρ.get? y = some (.atom (.ref t))) :
    (Expr.listComp (.var x) x it (.cmp .ne (.var x) (.var y))).evalP H self ρ st0 =
      .ok (refs (l.filter (fun v => v != t)), st) := by
  rw [evalP_listComp_pure H self ρ st0 st (.var x) (.cmp .ne (.var x) (.var y)) it x (l.map Atom.ref)
    (fun a => !a.pyEq (Atom.ref t)) (fun a => a) hit]
  · simp only [List.map_id', filter_ne_refs, refs, id]
  · intro v _
    simp [Expr.evalP, Env.get?_set, hxy, hy, PyLite.compare, pure, Except.pure, bind, Except.bind]
  · intro v _ _
    simp [Expr.evalP, Env.get?_set, pure, Except.pure]

/-- `[x for x in it if x is not y]` -/
theorem evalP_comp_notSame (H : PHandlers) (self ρ : PyLite.Env) (st0 st : PState) (it : Expr) (x y : String)
    (l : List Uid) (t : Uid) (hxy : x ≠ y) (hit : it.evalP H self ρ st0 = .ok (refs l, st))
    (hy : ρ.get? y = some (.atom (.ref t))) :
    (Expr.listComp (.var x) x it (.not (.isSame (.var x) (.var y)))).evalP H self ρ st0 =
      .ok (refs (l.filter (fun v => v != t)), st) := by
  rw [evalP_listComp_pure H self ρ st0 st (.var x) (.not (.isSame (.var x) (.var y))) it x (l.map Atom.ref)
    (fun a => !a.pyEq (Atom.ref t)) (fun a => a) hit]
  · simp only [List.map_id', filter_ne_refs, refs, id]
  · intro v hv
    obtain ⟨c, _, rfl⟩ := List.mem_map.1 hv
    simp [Expr.evalP, Env.get?_set, hxy, hy, pyEq_ref, truthP, pure, Except.pure, bind, Except.bind]
  · intro v _ _
    simp [Expr.evalP, Env.get?_set, pure, Except.pure]

/-- `owner.<field>` for `field` = children / predecessors / successors -/
theorem evalP_attr_children (H : PHandlers) (self ρ : PyLite.Env) (s : G) (st : PState) (hh : st.heap = encHeap s)
    (x : String) (h : Uid) (hx : ρ.get? x = some (.atom (.ref h))) :
    (Expr.attr (.var x) "children").evalP H self ρ st = .ok (refs (s.children h), st) := by
  pyl [hx, hh]
theorem evalP_attr_preds (H : PHandlers) (self ρ : PyLite.Env) (s : G) (st : PState) (hh : st.heap = encHeap s)
    (x : String) (h : Uid) (hx : ρ.get? x = some (.atom (.ref h))) :
    (Expr.attr (.var x) "predecessors").evalP H self ρ st = .ok (refs (s.preds h), st) := by
  pyl [hx, hh]
theorem evalP_attr_succs (H : PHandlers) (self ρ : PyLite.Env) (s : G) (st : PState) (hh : st.heap = encHeap s)
    (x : String) (h : Uid) (hx : ρ.get? x = some (.atom (.ref h))) :
    (Expr.attr (.var x) "successors").evalP H self ρ st = .ok (refs (s.succs h), st) := by
  pyl [hx, hh]

/-! ### `_ChildrenList.remove` -/

theorem tf_ch_remove : facadeFuns fn_ChildrenList_remove = some (src_ChildrenList_remove_params, src_ChildrenList_remove) :=
  rfl

theorem ch_remove_spec (L : Lib) (s : G) (st : PState) (hh : st.heap = encHeap s) (h t : Uid) (F : Nat)
    (hF : s.fuel + 6 ≤ F) (hrec : (chRemove s h t).2 ≠ some (.crash .recursion)) :
    (Hf L F).fnV fn_ChildrenList_remove [.atom (.ref h), .atom (.ref t)] st =
      opResult st (.atom (.bool ((s.children h).contains t))) (chRemove s h t) := by
  obtain ⟨F, rfl⟩ : ∃ F', F = F' + 2 := ⟨F - 2, by omega⟩
  rw [fnVf_succ _ _ _ _ _ tf_ch_remove]
  have h1 := check_not_none_f L st F t
  have hany := any_ref_pyEq (s.children h) t
  unfold chRemove at hrec ⊢
  cases hc : (s.children h).contains t with
  | false =>
    rw [hc] at hany
    simp only [Bool.false_eq_true, if_false, opResult, withG_self st s hh]
    pyl [src_ChildrenList_remove_params, src_ChildrenList_remove, h1, hh, refs, hany]
  | true =>
    rw [hc] at hany
    simp only [hc, if_true] at hrec ⊢
    have hcomp := evalP_comp_ne (Hf L (F + 1)) [] [("_facade_parent", .atom (.ref h)), ("task", .atom (.ref t))] st st
      (.attr (.var "_facade_parent") "children") "t" "task" (s.children h) t (by decide)
      (evalP_attr_children _ _ _ s st hh _ h rfl) rfl
    have h2 := children_set_f L s st hh h _ (F + 1) _ (valueOf_refs _) (by omega) hrec
    cases hr : setChildren s h (List.filter (fun x => x != t) (s.children h)) with
    | mk s' e =>
      rw [hr] at h2
      cases e with
      | none =>
        simp only [setterResult, refs] at h2 hcomp
        simp only [opResult]
        pyl [src_ChildrenList_remove_params, src_ChildrenList_remove, h1, hh, refs, hany, ↓hcomp, h2]
      | some e =>
        simp only [setterResult, refs] at h2 hcomp
        simp only [opResult]
        pyl [src_ChildrenList_remove_params, src_ChildrenList_remove, h1, hh, refs, hany, ↓hcomp, h2]

/-! ### `_ChildrenList.insert` -/

theorem asInt?_int (i : Int) : (Atom.num (i : Rat)).asInt? = some i := by
  simp [Atom.asInt?]

theorem pyInsertA_refs (l : List Uid) (i : Int) (t : Uid) :
    pyInsertA (l.map Atom.ref) i (Atom.ref t) = (pyInsert l i t).map Atom.ref := by
  simp [pyInsertA, pyInsert, List.map_take, List.map_drop]

theorem tf_ch_insert : facadeFuns fn_ChildrenList_insert = some (src_ChildrenList_insert_params, src_ChildrenList_insert) :=
  rfl

theorem ch_insert_spec (L : Lib) (s : G) (st : PState) (hh : st.heap = encHeap s) (h : Uid) (i : Int) (t : Uid) (F : Nat)
    (hF : s.fuel + 6 ≤ F) (hrec : (chInsert s h i t).2 ≠ some (.crash .recursion)) :
    (Hf L F).fnV fn_ChildrenList_insert [.atom (.ref h), intV i, .atom (.ref t)] st =
      opResult st (.atom .none) (chInsert s h i t) := by
  obtain ⟨F, rfl⟩ : ∃ F', F = F' + 2 := ⟨F - 2, by omega⟩
  rw [fnVf_succ _ _ _ _ _ tf_ch_insert]
  have h1 := check_not_none_f L st F t
  unfold chInsert at hrec ⊢
  have hcomp := evalP_comp_notSame (Hf L (F + 1)) []
    [("_facade_parent", .atom (.ref h)), ("index", intV i), ("task", .atom (.ref t))] st st
    (.attr (.var "_facade_parent") "children") "t" "task" (s.children h) t (by decide)
    (evalP_attr_children _ _ _ s st hh _ h rfl) rfl
  have h2 := children_set_f L s st hh h _ (F + 1) _ (valueOf_refs _) (by omega) hrec
  simp only [refs, intV] at h2 hcomp
  cases hr : setChildren s h (pyInsert (List.filter (fun x => x != t) (s.children h)) i t) with
  | mk s' e =>
    rw [hr] at h2
    cases e with
    | none =>
      simp only [setterResult] at h2
      simp only [opResult, intV]
      pyl [src_ChildrenList_insert_params, src_ChildrenList_insert, h1, ↓hcomp, asInt?_int, pyInsertA_refs, h2]
    | some e =>
      simp only [setterResult] at h2
      simp only [opResult, intV]
      pyl [src_ChildrenList_insert_params, src_ChildrenList_insert, h1, ↓hcomp, asInt?_int, pyInsertA_refs, h2]

/-! ### `_PredecessorsList` / `_SuccessorsList` -/

theorem valueOf_append (l : List Uid) (x : Uid) : ValueOf (.list (l.map Atom.ref ++ [Atom.ref x])) (l ++ [x]) := by
  have := valueOf_refs (l ++ [x])
  simpa [refs] using this

theorem tf_pr_append : facadeFuns fn_PredecessorsList_append =
    some (src_PredecessorsList_append_params, src_PredecessorsList_append) := rfl
theorem tf_pr_remove : facadeFuns fn_PredecessorsList_remove =
    some (src_PredecessorsList_remove_params, src_PredecessorsList_remove) := rfl
theorem tf_su_append : facadeFuns fn_SuccessorsList_append =
    some (src_SuccessorsList_append_params, src_SuccessorsList_append) := rfl
theorem tf_su_remove : facadeFuns fn_SuccessorsList_remove =
    some (src_SuccessorsList_remove_params, src_SuccessorsList_remove) := rfl

theorem pr_append_spec (L : Lib) (s : G) (st : PState) (hh : st.heap = encHeap s) (t x : Uid) (F : Nat)
    (hF : s.fuel + 4 ≤ F) (hrec : (prAppend s t x).2 ≠ some (.crash .recursion)) :
    (Hf L F).fnV fn_PredecessorsList_append [.atom (.ref t), .atom (.ref x)] st =
      opResult st (.atom .none) (prAppend s t x) := by
  obtain ⟨F, rfl⟩ : ∃ F', F = F' + 2 := ⟨F - 2, by omega⟩
  rw [fnVf_succ _ _ _ _ _ tf_pr_append]
  have h1 := check_not_none_f L st F x
  unfold prAppend at hrec ⊢
  have hcomp := evalP_listComp_id (Hf L (F + 1)) [] [("_facade_parent", .atom (.ref t)), ("task", .atom (.ref x))] st st
    (.attr (.var "_facade_parent") "predecessors") "v" ((s.preds t).map Atom.ref)
    (evalP_attr_preds _ _ _ s st hh _ t rfl)
  have h2 := preds_set_f L s st hh t _ (F + 1) _ (valueOf_append (s.preds t) x) (by omega) hrec
  cases hr : setPreds s t (s.preds t ++ [x]) with
  | mk s' e =>
    rw [hr] at h2
    cases e with
    | none =>
      simp only [setterResult] at h2
      simp only [opResult]
      pyl [src_PredecessorsList_append_params, src_PredecessorsList_append, h1, ↓hcomp, h2]
    | some e =>
      simp only [setterResult] at h2
      simp only [opResult]
      pyl [src_PredecessorsList_append_params, src_PredecessorsList_append, h1, ↓hcomp, h2]

theorem su_append_spec (L : Lib) (s : G) (st : PState) (hh : st.heap = encHeap s) (t x : Uid) (F : Nat)
    (hF : s.fuel + 4 ≤ F) (hrec : (suAppend s t x).2 ≠ some (.crash .recursion)) :
    (Hf L F).fnV fn_SuccessorsList_append [.atom (.ref t), .atom (.ref x)] st =
      opResult st (.atom .none) (suAppend s t x) := by
  obtain ⟨F, rfl⟩ : ∃ F', F = F' + 2 := ⟨F - 2, by omega⟩
  rw [fnVf_succ _ _ _ _ _ tf_su_append]
  have h1 := check_not_none_f L st F x
  unfold suAppend at hrec ⊢
  have hcomp := evalP_listComp_id (Hf L (F + 1)) [] [("_facade_parent", .atom (.ref t)), ("task", .atom (.ref x))] st st
    (.attr (.var "_facade_parent") "successors") "v" ((s.succs t).map Atom.ref)
    (evalP_attr_succs _ _ _ s st hh _ t rfl)
  have h2 := succs_set_f L s st hh t _ (F + 1) _ (valueOf_append (s.succs t) x) (by omega) hrec
  cases hr : setSuccs s t (s.succs t ++ [x]) with
  | mk s' e =>
    rw [hr] at h2
    cases e with
    | none =>
      simp only [setterResult] at h2
      simp only [opResult]
      pyl [src_SuccessorsList_append_params, src_SuccessorsList_append, h1, ↓hcomp, h2]
    | some e =>
      simp only [setterResult] at h2
      simp only [opResult]
      pyl [src_SuccessorsList_append_params, src_SuccessorsList_append, h1, ↓hcomp, h2]

theorem pr_remove_spec (L : Lib) (s : G) (st : PState) (hh : st.heap = encHeap s) (t x : Uid) (F : Nat)
    (hF : s.fuel + 4 ≤ F) (hrec : (prRemove s t x).2 ≠ some (.crash .recursion)) :
    (Hf L F).fnV fn_PredecessorsList_remove [.atom (.ref t), .atom (.ref x)] st =
      opResult st (.atom (.bool ((s.preds t).contains x))) (prRemove s t x) := by
  obtain ⟨F, rfl⟩ : ∃ F', F = F' + 2 := ⟨F - 2, by omega⟩
  rw [fnVf_succ _ _ _ _ _ tf_pr_remove]
  have h1 := check_not_none_f L st F x
  have hany := any_ref_pyEq (s.preds t) x
  unfold prRemove at hrec ⊢
  cases hc : (s.preds t).contains x with
  | false =>
    rw [hc] at hany
    simp only [Bool.false_eq_true, if_false, opResult, withG_self st s hh]
    pyl [src_PredecessorsList_remove_params, src_PredecessorsList_remove, h1, hh, refs, hany]
  | true =>
    rw [hc] at hany
    simp only [hc, if_true] at hrec ⊢
    have hcomp := evalP_comp_ne (Hf L (F + 1)) [] [("_facade_parent", .atom (.ref t)), ("task", .atom (.ref x))] st st
      (.attr (.var "_facade_parent") "predecessors") "v" "task" (s.preds t) x (by decide)
      (evalP_attr_preds _ _ _ s st hh _ t rfl) rfl
    have h2 := preds_set_f L s st hh t _ (F + 1) _ (valueOf_refs _) (by omega) hrec
    cases hr : setPreds s t (List.filter (fun v => v != x) (s.preds t)) with
    | mk s' e =>
      rw [hr] at h2
      cases e with
      | none =>
        simp only [setterResult, refs] at h2 hcomp
        simp only [opResult]
        pyl [src_PredecessorsList_remove_params, src_PredecessorsList_remove, h1, hh, refs, hany, ↓hcomp, h2]
      | some e =>
        simp only [setterResult, refs] at h2 hcomp
        simp only [opResult]
        pyl [src_PredecessorsList_remove_params, src_PredecessorsList_remove, h1, hh, refs, hany, ↓hcomp, h2]

theorem su_remove_spec (L : Lib) (s : G) (st : PState) (hh : st.heap = encHeap s) (t x : Uid) (F : Nat)
    (hF : s.fuel + 4 ≤ F) (hrec : (suRemove s t x).2 ≠ some (.crash .recursion)) :
    (Hf L F).fnV fn_SuccessorsList_remove [.atom (.ref t), .atom (.ref x)] st =
      opResult st (.atom (.bool ((s.succs t).contains x))) (suRemove s t x) := by
  obtain ⟨F, rfl⟩ : ∃ F', F = F' + 2 := ⟨F - 2, by omega⟩
  rw [fnVf_succ _ _ _ _ _ tf_su_remove]
  have h1 := check_not_none_f L st F x
  have hany := any_ref_pyEq (s.succs t) x
  unfold suRemove at hrec ⊢
  cases hc : (s.succs t).contains x with
  | false =>
    rw [hc] at hany
    simp only [Bool.false_eq_true, if_false, opResult, withG_self st s hh]
    pyl [src_SuccessorsList_remove_params, src_SuccessorsList_remove, h1, hh, refs, hany]
  | true =>
    rw [hc] at hany
    simp only [hc, if_true] at hrec ⊢
    have hcomp := evalP_comp_ne (Hf L (F + 1)) [] [("_facade_parent", .atom (.ref t)), ("task", .atom (.ref x))] st st
      (.attr (.var "_facade_parent") "successors") "v" "task" (s.succs t) x (by decide)
      (evalP_attr_succs _ _ _ s st hh _ t rfl) rfl
    have h2 := succs_set_f L s st hh t _ (F + 1) _ (valueOf_refs _) (by omega) hrec
    cases hr : setSuccs s t (List.filter (fun v => v != x) (s.succs t)) with
    | mk s' e =>
      rw [hr] at h2
      cases e with
      | none =>
        simp only [setterResult, refs] at h2 hcomp
        simp only [opResult]
        pyl [src_SuccessorsList_remove_params, src_SuccessorsList_remove, h1, hh, refs, hany, ↓hcomp, h2]
      | some e =>
        simp only [setterResult, refs] at h2 hcomp
        simp only [opResult]
        pyl [src_SuccessorsList_remove_params, src_SuccessorsList_remove, h1, hh, refs, hany, ↓hcomp, h2]

/-! ### `_ImmutableTaskList.__add__` and the operators of `Task` -/

theorem tf_add : facadeFuns fn_ImmutableTaskList_add = some (src_ImmutableTaskList_add_params, src_ImmutableTaskList_add) :=
  rfl

/-- `<facade of the list l0> + v` = the list `l0 ++ _to_list(v)` (a new list; nothing is written) -/
theorem add_spec (L : Lib) (st : PState) (F : Nat) (l0 : List Uid) (v : Val) (l : List Uid) (hv : ValueOf v l) :
    (Hf L (F + 2)).fnV fn_ImmutableTaskList_add [refs l0, v] st = .ok (refs (l0 ++ l), st) := by
  rw [fnVf_succ _ _ _ _ _ tf_add]
  have h1 := to_list_f L hv st F
  simp only [refs] at h1 ⊢
  pyl [src_ImmutableTaskList_add_params, src_ImmutableTaskList_add, h1]

theorem tf_floordiv : facadeFuns fn_Task_floordiv = some (src_Task_floordiv_params, src_Task_floordiv) := rfl
theorem tf_lshift : facadeFuns fn_Task_lshift = some (src_Task_lshift_params, src_Task_lshift) := rfl
theorem tf_rshift : facadeFuns fn_Task_rshift = some (src_Task_rshift_params, src_Task_rshift) := rfl

theorem floordiv_spec (L : Lib) (s : G) (st : PState) (hh : st.heap = encHeap s) (h : Uid) (v : Val) (l : List Uid)
    (hv : ValueOf v l) (F : Nat) (hF : s.fuel + 6 ≤ F) (hrec : (floordiv s h l).2 ≠ some (.crash .recursion)) :
    (Hf L F).fnV fn_Task_floordiv [.atom (.ref h), v] st = opResult st v (floordiv s h l) := by
  obtain ⟨F, rfl⟩ : ∃ F', F = F' + 3 := ⟨F - 3, by unfold G.fuel at hF; omega⟩
  rw [fnVf_succ _ _ _ _ _ tf_floordiv]
  unfold floordiv at hrec ⊢
  have h1 := add_spec L st F (s.children h) v l hv
  have h2 := children_set_f L s st hh h _ (F + 2) _ (valueOf_refs _) (by omega) hrec
  cases hr : setChildren s h (s.children h ++ l) with
  | mk s' e =>
    rw [hr] at h2
    cases e with
    | none =>
      simp only [setterResult] at h2
      simp only [opResult]
      pyl [src_Task_floordiv_params, src_Task_floordiv, hh, h1, h2]
    | some e =>
      simp only [setterResult] at h2
      simp only [opResult]
      pyl [src_Task_floordiv_params, src_Task_floordiv, hh, h1, h2]

theorem lshift_spec (L : Lib) (s : G) (st : PState) (hh : st.heap = encHeap s) (t : Uid) (v : Val) (l : List Uid)
    (hv : ValueOf v l) (F : Nat) (hF : s.fuel + 4 ≤ F) (hrec : (lshift s t l).2 ≠ some (.crash .recursion)) :
    (Hf L F).fnV fn_Task_lshift [.atom (.ref t), v] st = opResult st v (lshift s t l) := by
  obtain ⟨F, rfl⟩ : ∃ F', F = F' + 3 := ⟨F - 3, by unfold G.fuel at hF; omega⟩
  rw [fnVf_succ _ _ _ _ _ tf_lshift]
  unfold lshift at hrec ⊢
  have h1 := add_spec L st F (s.preds t) v l hv
  have h2 := preds_set_f L s st hh t _ (F + 2) _ (valueOf_refs _) (by omega) hrec
  cases hr : setPreds s t (s.preds t ++ l) with
  | mk s' e =>
    rw [hr] at h2
    cases e with
    | none =>
      simp only [setterResult] at h2
      simp only [opResult]
      pyl [src_Task_lshift_params, src_Task_lshift, hh, h1, h2]
    | some e =>
      simp only [setterResult] at h2
      simp only [opResult]
      pyl [src_Task_lshift_params, src_Task_lshift, hh, h1, h2]

theorem rshift_spec (L : Lib) (s : G) (st : PState) (hh : st.heap = encHeap s) (t : Uid) (v : Val) (l : List Uid)
    (hv : ValueOf v l) (F : Nat) (hF : s.fuel + 4 ≤ F) (hrec : (rshift s t l).2 ≠ some (.crash .recursion)) :
    (Hf L F).fnV fn_Task_rshift [.atom (.ref t), v] st = opResult st v (rshift s t l) := by
  obtain ⟨F, rfl⟩ : ∃ F', F = F' + 3 := ⟨F - 3, by unfold G.fuel at hF; omega⟩
  rw [fnVf_succ _ _ _ _ _ tf_rshift]
  unfold rshift at hrec ⊢
  have h1 := add_spec L st F (s.succs t) v l hv
  have h2 := succs_set_f L s st hh t _ (F + 2) _ (valueOf_refs _) (by omega) hrec
  cases hr : setSuccs s t (s.succs t ++ l) with
  | mk s' e =>
    rw [hr] at h2
    cases e with
    | none =>
      simp only [setterResult] at h2
      simp only [opResult]
      pyl [src_Task_rshift_params, src_Task_rshift, hh, h1, h2]
    | some e =>
      simp only [setterResult] at h2
      simp only [opResult]
      pyl [src_Task_rshift_params, src_Task_rshift, hh, h1, h2]

/-! ### `None` as the task: every facade method that takes a task starts with `_check_not_none(task, 'Task')` -/

theorem check_not_none_none (st : PState) (F : Nat) :
    (Hd (F + 1)).fnV fn_check_not_none [.atom .none] st = .error .runtime := by
  rw [fnV_succ _ _ _ _ tf_check_not_none]
  pyl [src_check_not_none_params, src_check_not_none]

theorem check_not_none_none_f (L : Lib) (st : PState) (F : Nat) :
    (Hf L (F + 1)).fnV fn_check_not_none [.atom .none] st = .error .runtime :=
  lift L (check_not_none_none st F) (by simp [stuck])

/-- `h.children.remove(None)`, `.insert(i, None)`, `.append(None)`, `t.predecessors.append(None)` / `.remove(None)`,
    `t.successors.append(None)` / `.remove(None)`: RuntimeError, in every state, whatever the facade -/
theorem none_arg_spec (L : Lib) (st : PState) (F : Nat) (o : Val) (i : Val) :
    (Hf L (F + 2)).fnV fn_ChildrenList_remove [o, .atom .none] st = .error .runtime ∧
    (Hf L (F + 2)).fnV fn_ChildrenList_insert [o, i, .atom .none] st = .error .runtime ∧
    (Hf L (F + 2)).fnV fn_ChildrenList_append [o, .atom .none] st = .error .runtime ∧
    (Hf L (F + 2)).fnV fn_PredecessorsList_append [o, .atom .none] st = .error .runtime ∧
    (Hf L (F + 2)).fnV fn_PredecessorsList_remove [o, .atom .none] st = .error .runtime ∧
    (Hf L (F + 2)).fnV fn_SuccessorsList_append [o, .atom .none] st = .error .runtime ∧
    (Hf L (F + 2)).fnV fn_SuccessorsList_remove [o, .atom .none] st = .error .runtime := by
  have h1 := check_not_none_none_f L st F
  have h0 := check_not_none_none st F
  refine ⟨?_, ?_, ?_, ?_, ?_, ?_, ?_⟩
  · rw [fnVf_succ _ _ _ _ _ tf_ch_remove]
    pyl [src_ChildrenList_remove_params, src_ChildrenList_remove, h1]
  · rw [fnVf_succ _ _ _ _ _ tf_ch_insert]
    pyl [src_ChildrenList_insert_params, src_ChildrenList_insert, h1]
  · refine lift L ?_ (by simp [stuck])
    rw [fnV_succ _ _ _ _ tf_children_append]
    pyl [src_ChildrenList_append_params, src_ChildrenList_append, h0]
  · rw [fnVf_succ _ _ _ _ _ tf_pr_append]
    pyl [src_PredecessorsList_append_params, src_PredecessorsList_append, h1]
  · rw [fnVf_succ _ _ _ _ _ tf_pr_remove]
    pyl [src_PredecessorsList_remove_params, src_PredecessorsList_remove, h1]
  · rw [fnVf_succ _ _ _ _ _ tf_su_append]
    pyl [src_SuccessorsList_append_params, src_SuccessorsList_append, h1]
  · rw [fnVf_succ _ _ _ _ _ tf_su_remove]
    pyl [src_SuccessorsList_remove_params, src_SuccessorsList_remove, h1]

end Pj.FacadeSrc
