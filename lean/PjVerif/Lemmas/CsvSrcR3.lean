/-
  Lemmas/CsvSrcR3.lean — CSV I/O, towards the READ side: a cell of a data row by column name, the arguments of
  `TaskRaw(...)` in `read_csv`.
-/
import PjVerif.Lemmas.CsvSrcR2
namespace Pj.CsvSrc
open Pj.PyLite Pj.Extracted.Csv Pj.Csv

section more
variable {H : PHandlers} {self : PyLite.Env}

theorem eval_items {b : Expr} {env : PyLite.Env} {st st' : PState} {i : Nat} {vs : List Atom}
    (hb : b.evalP H self env st = .ok (.atom (.box i), st')) (hi : st'.boxes[i]? = some vs) :
    (Expr.items b).evalP H self env st = .ok (.list vs, st') := by
  simp only [Expr.evalP, hb, hi, bind, Except.bind, pure, Except.pure]

theorem eval_listIndex {l i : Expr} {env : PyLite.Env} {st st' st'' : PState} {vs : List Atom} {n : Nat} {v : Atom}
    (hl : l.evalP H self env st = .ok (.list vs, st')) (hi : i.evalP H self env st' = .ok (.atom (numI n), st''))
    (hv : vs[n]? = some v) :
    (Expr.listIndex l i).evalP H self env st = .ok (.atom v, st'') := by
  have hneg : ¬ ((n : Int) < 0) := by omega
  simp only [Expr.evalP, hl, hi, asInt_numI, hneg, if_false, Int.toNat_natCast, hv, bind, Except.bind, pure, Except.pure]

end more

/-- the state of `read_csv` while a data row is processed -/
structure RowCtx (hdr row : List Str) (rb : Nat) (env : PyLite.Env) (st : PState) : Prop where
  hrow : env.get? "row" = some (.atom (.box rb))
  hbox : st.boxes[rb]? = some (atomsOf row)
  hheader : env.get? "header" = some (.dict (hdrDict hdr))

def rowCellE (lit : String) : Expr :=
  .listIndex (.items (.var "row")) (.dictIndex (.var "header") (.prim lit .listNil))

theorem cellAt_some {hdr row : List Str} {name cell : Str} (h : cellAt hdr row name = some cell) :
    ∃ i, headerIndex hdr name = some i ∧ row[i]? = some cell := by
  unfold cellAt at h
  cases hi : headerIndex hdr name with
  | none => rw [hi] at h; cases h
  | some i => rw [hi] at h; exact ⟨i, rfl, h⟩

theorem eval_rowCell (L : IOLib) (F : Nat) {hdr row : List Str} {rb : Nat} {env : PyLite.Env} {st : PState}
    (hc : RowCtx hdr row rb env st) (lit : String) (name cell : Str)
    (hlit : ∀ st', ioPrim L lit [] st' = .ok (.atom (strA name))) (hcell : cellAt hdr row name = some cell) :
    (rowCellE lit).evalP (HH L F) [] env st = .ok (.atom (strA cell), st) := by
  obtain ⟨i, h1, h2⟩ := cellAt_some hcell
  have hidx : (Expr.dictIndex (.var "header") (.prim lit .listNil)).evalP (HH L F) [] env st =
      .ok (.atom (numI i), st) :=
    eval_dictIndex (eval_var hc.hheader) (eval_prim eval_nil (by rw [HH_prim, hlit]))
      (by rw [hdrDict_get, h1]; rfl)
  exact eval_listIndex (eval_items (eval_var hc.hrow) hc.hbox) hidx
    (by simp [atomsOf, List.getElem?_map, h2])

/-- a cell through one of the parsers of the program -/
theorem eval_cellCall (L : IOLib) (F k : Nat) {hdr row : List Str} {rb : Nat} {env : PyLite.Env} {st : PState}
    (hc : RowCtx hdr row rb env st) (lit : String) (name cell : Str)
    (hlit : ∀ st', ioPrim L lit [] st' = .ok (.atom (strA name))) (hcell : cellAt hdr row name = some cell) :
    (Expr.callFn k (.listCons (rowCellE lit) .listNil)).evalP (HH L (F + 1)) [] env st =
      runIO L csvFuns (F + 1) k [.atom (strA cell)] st := by
  rw [eval_callFn (evalArgs_cons (eval_rowCell L (F + 1) hc lit name cell hlit hcell) evalArgs_nil)]
  rfl

end Pj.CsvSrc
