/-
  Lemmas/CsvSrcT.lean — CSV I/O, READ side, `raws_to_wbs` (io/raw.py), top file of the chain CsvSrcT1 … CsvSrcT11
  (continues CsvSrcS: `mk_loop`, `link_loop`).  Proven (general, every library `L`, any store):
  * T1: `wbs = WBS()` (`exec_wbsAssign`) and the `roots` loop (`root_loop` = the fold of `addRoot`; `addRoots_wbs`).
  * T2: the third loop (`pred_inner_loop`, `pred_body`, `pred_loop` = the fold `predAll` of `predStep`, library function
    107).  `wbs[id]` is `wbsFind` (`prim_wbs_getitem`); it reads `roots` / `children` / `id` only and 107 writes
    `predecessors` / `successors` only (`SameTree`, `wbsFind_same`): the lookups are those of the store the loop starts with.
  * T3, T4: the composition `raws_to_wbs_run` - a run of `fn_raws_to_wbs` on raw objects `os` below the allocation pointer
    (`RawOK2`; no `parent` slot holding an object below the pointer, `ParInv`; pairwise different ids; every predecessor
    id in `tasks_by_id`) returns the object `wbsRef` and the store `predAll (predRows st os) (treeSt st os)`;
    hypothesis `hfind`: `wbs[k]` on `treeSt` is `tasks_by_id.get(k)`.
  * T5, T6: `hfind` PROVEN from acyclic parent ids (`Acyclic`: a rank bounded by the number of rows that grows from
    parent to child): `wbsFind_tree` (depth first reaches every task, `tree_tasks_all`, and only tasks,
    `tree_tasks_only`); `raws_to_wbs_run'`.
  * T7, T8: the store read off in closed form, the shape of `rebuildForest`: `final_roots` (rows whose parent id is None
    or names no row, in row order), `final_kids` (rows whose parent id names the task, in row order), `final_parent`,
    `final_id`, `final_preds` (the tasks of the predecessor ids, in order).
  * T9: `read_csv_run` = `read_csv_reduce` + `raws_to_wbs_run'`.
  * T10: `final_tasks` - `wbs.tasks` of the result = the depth-first enumeration `dfsT` over the table of the rows
    (`rootsT`, `kidsT`), no store left.
  * T11: the store `readSt` (`readSt_reads`, `readSt_at`, `readSt_high`, `readSt_par`); `read_csv_run2` = `read_csv_run`
    with the hypotheses on the raw objects `es` (`RawOK2`, no `parent` attribute holding an object, ids pairwise different).
  NOT done: `RawOK2` / no object-valued `parent` attribute from `RowsRaw` (estimates not negative has to stay a
  hypothesis); `Acyclic` from a plain "no cycle" statement; the step from the closed forms over (Atom id,
  `parOf`) to `rebuildForest` over (Str id, Str parent id) - needs `L.toInt` injective on the ids of the file (the
  program compares numbers, the model texts); the `successors` lists; the statement of CsvSrcCheckC (`expectRead`).
-/
import PjVerif.Lemmas.CsvSrcS
import PjVerif.Lemmas.CsvSrcT11
namespace Pj.CsvSrc

#print axioms root_loop
#print axioms pred_loop
#print axioms raws_to_wbs_run
#print axioms wbsFind_tree
#print axioms raws_to_wbs_run'
#print axioms final_roots
#print axioms final_kids
#print axioms final_parent
#print axioms final_preds
#print axioms read_csv_run
#print axioms final_tasks
#print axioms read_csv_run2

end Pj.CsvSrc
