/-
  Lemmas/SchedFill.lean — the day-by-day reservation loops (`fillFwd`, `fillBwd`) and the date derivations around
  them (`shiftFwd`, `shiftBwd`, `nearestFwd`, `nearestBwd`): conservation, capacity, monotone days, tightness.
-/
import PjVerif.Model.Sched
namespace Pj

/-! ### helpers -/

theorem sum_units_pos : ∀ (l : List (Int × Rat)), (∀ p ∈ l, 0 < p.2) → l ≠ [] → 0 < (l.map (·.2)).sum
  | [], _, h => absurd rfl h
  | [p], hp, _ => by
    have := hp p (by simp)
    simp only [List.map_cons, List.map_nil, List.sum_cons, List.sum_nil]
    grind
  | p :: q :: l, hp, _ => by
    have h1 := hp p (by simp)
    have h2 := sum_units_pos (q :: l) (fun x hx => hp x (List.mem_cons_of_mem _ hx)) (by simp)
    simp only [List.map_cons, List.sum_cons] at h2 ⊢
    grind

theorem fillFwd_succ (cal : Cal) (used : Int → Rat) (maxSteps fuel days : Nat) (day : Int) (left dau : Rat)
    (acc : List (Int × Rat)) (hl : ¬ left ≤ 0) :
    fillFwd cal used maxSteps (fuel + 1) days day left dau acc =
      (capR cal ((day + 1 : Int) : Rat) >>= fun c =>
        if days + 1 > maxSteps then throw .runtime
        else fillFwd cal used maxSteps fuel (days + 1) (day + 1)
          (if 0 < c - used (day + 1) then left - min left (c - used (day + 1)) else left) c
          (if 0 < c - used (day + 1) then acc ++ [(day + 1, min left (c - used (day + 1)))] else acc)) := by
  simp only [fillFwd, if_neg hl]
  congr 1
  funext c
  split
  · rfl
  · split <;> rfl


theorem div_pos_le_one {r c : Rat} (h0 : 0 < r) (h1 : r ≤ c) : 0 < r / c ∧ r / c ≤ 1 := by
  have hc : 0 < c := by grind
  have hi : 0 < c⁻¹ := Rat.inv_pos.2 hc
  have h2 := Rat.mul_pos h0 hi
  have h3 := Rat.mul_le_mul_of_nonneg_right h1 (Rat.le_of_lt hi)
  have h4 : c * c⁻¹ = 1 := Rat.mul_inv_cancel c (by grind)
  rw [Rat.div_def]
  grind

theorem div_nonneg_lt_one {u c : Rat} (h0 : 0 ≤ u) (h1 : u < c) : 0 ≤ u / c ∧ u / c < 1 := by
  have hc : 0 < c := by grind
  have hi : 0 < c⁻¹ := Rat.inv_pos.2 hc
  have h2 := Rat.mul_nonneg h0 (Rat.le_of_lt hi)
  have h3 := Rat.mul_lt_mul_of_pos_right h1 hi
  have h4 : c * c⁻¹ = 1 := Rat.mul_inv_cancel c (by grind)
  rw [Rat.div_def]
  grind

theorem dayOf_intCast (d : Int) : dayOf (d : Rat) = d := Rat.floor_intCast d

theorem midnight_intCast (d : Int) : midnight (d : Rat) = (d : Rat) := by
  unfold midnight; rw [dayOf_intCast]

theorem dayOf_add_frac (d : Int) (x : Rat) (h0 : 0 ≤ x) (h1 : x < 1) : dayOf ((d : Rat) + x) = d := by
  unfold dayOf
  have h2 : d ≤ ((d : Rat) + x).floor := Rat.le_floor_iff.2 (by grind)
  have h3 : ((d : Rat) + x).floor < d + 1 := Rat.floor_lt_iff.2 (by rw [Rat.intCast_add]; grind)
  omega

/-- in a list whose days are pairwise distinct, the units reserved on the day of the last entry are that entry's -/
theorem filter_last_sum : ∀ (l : List (Int × Rat)) (d : Int) (u : Rat),
    (l.map (·.1)).Pairwise (· ≠ ·) → l.getLast? = some (d, u) →
    ((l.filter (fun p => p.1 == d)).map (·.2)).sum = u
  | [], _, _, _, h => by simp at h
  | [p], d, u, _, h => by
    simp only [List.getLast?_singleton, Option.some.injEq] at h
    subst h
    simp
    grind
  | p :: q :: l, d, u, hp, h => by
    rw [List.getLast?_cons_cons] at h
    simp only [List.map_cons, List.pairwise_cons] at hp
    have hmem : (d, u) ∈ q :: l := List.mem_of_getLast? h
    have hne : p.1 ≠ d := hp.1 d (by
      have := List.mem_map_of_mem (f := (·.1)) hmem
      simpa using this)
    have ih := filter_last_sum (q :: l) d u (by simpa using hp.2) h
    rw [List.filter_cons_of_neg (by simpa using hne)]
    exact ih

/-- what one run of the forward fill loop produced, starting after day `day0` with `left` units to place:
    `new` = the reservations it appended, `dayL` = the last day it visited, `dauL` = that day's capacity -/
structure FillFwdSpec (cal : Cal) (used : Int → Rat) (day0 : Int) (left : Rat)
    (new : List (Int × Rat)) (dayL : Int) (dauL : Rat) : Prop where
  /-- every reservation is positive and fits into what the day still offers -/
  fits : ∀ p ∈ new, ∃ c, capR cal (p.1 : Rat) = .ok c ∧ 0 < p.2 ∧ p.2 ≤ c - used p.1
  /-- days strictly increase (so at most one reservation per day), all after `day0`, none after `dayL` -/
  incr : (new.map (·.1)).Pairwise (· < ·)
  range : ∀ p ∈ new, day0 < p.1 ∧ p.1 ≤ dayL
  /-- conservation: exactly `left` units are placed -/
  total : (new.map (·.2)).sum = left
  /-- when something was placed, the last visited day is the last reserved day and `dauL` its (positive) capacity -/
  last : new ≠ [] → (∃ u, new.getLast? = some (dayL, u)) ∧ capR cal (dayL : Rat) = .ok dauL ∧ 0 < dauL
  /-- tightness: a visited day without reservation had no free capacity, and every reserved day except the last
      one is filled completely -/
  skipped : ∀ d, day0 < d → d ≤ dayL → (∀ p ∈ new, p.1 ≠ d) → ∃ c, capR cal (d : Rat) = .ok c ∧ c - used d ≤ 0
  full : ∀ p ∈ new, p.1 ≠ dayL → ∃ c, capR cal (p.1 : Rat) = .ok c ∧ p.2 = c - used p.1

theorem FillFwdSpec.nil (cal : Cal) (used : Int → Rat) (day : Int) (dau : Rat) :
    FillFwdSpec cal used day 0 [] day dau where
  fits := by simp
  incr := by simp
  range := by simp
  total := by simp
  last := by simp
  skipped := by intro d h1 h2; omega
  full := by simp

theorem FillFwdSpec.le {cal : Cal} {used : Int → Rat} {day0 : Int} {left : Rat} {new : List (Int × Rat)}
    {dayL : Int} {dauL : Rat} (hs : FillFwdSpec cal used day0 left new dayL dauL)
    (hnil : new = [] → dayL = day0) : day0 ≤ dayL := by
  cases new with
  | nil => have := hnil rfl; omega
  | cons p l => have := hs.range p (by simp); omega

theorem FillFwdSpec.left_pos {cal : Cal} {used : Int → Rat} {day0 : Int} {left : Rat} {new : List (Int × Rat)}
    {dayL : Int} {dauL : Rat} (hs : FillFwdSpec cal used day0 left new dayL dauL) (hne : new ≠ []) :
    0 < left := by
  rw [← hs.total]
  exact sum_units_pos new (fun p hp => (hs.fits p hp).choose_spec.2.1) hne

theorem FillFwdSpec.cons {cal : Cal} {used : Int → Rat} {day : Int} {left c m : Rat}
    {new' : List (Int × Rat)} {dayL : Int} {dauL : Rat}
    (hc : capR cal ((day + 1 : Int) : Rat) = .ok c) (hu : 0 ≤ used (day + 1))
    (hm0 : 0 < m) (hm1 : m ≤ c - used (day + 1)) (hfull : m < left → m = c - used (day + 1))
    (hs : FillFwdSpec cal used (day + 1) (left - m) new' dayL dauL)
    (hnil : new' = [] → dayL = day + 1 ∧ dauL = c) :
    FillFwdSpec cal used day left ((day + 1, m) :: new') dayL dauL := by
  have hle : day + 1 ≤ dayL := hs.le (fun h => (hnil h).1)
  refine ⟨?_, ?_, ?_, ?_, ?_, ?_, ?_⟩
  · intro p hp
    rcases List.mem_cons.1 hp with rfl | hp
    · exact ⟨c, hc, hm0, hm1⟩
    · exact hs.fits p hp
  · simp only [List.map_cons, List.pairwise_cons]
    refine ⟨?_, hs.incr⟩
    intro a ha
    obtain ⟨p, hp, rfl⟩ := List.mem_map.1 ha
    have := hs.range p hp
    omega
  · intro p hp
    rcases List.mem_cons.1 hp with rfl | hp
    · simp only; omega
    · have := hs.range p hp; omega
  · simp only [List.map_cons, List.sum_cons, hs.total]
    grind
  · intro _
    cases new' with
    | nil =>
      obtain ⟨h1, h2⟩ := hnil rfl
      subst h1 h2
      refine ⟨⟨m, rfl⟩, hc, by grind⟩
    | cons q l =>
      obtain ⟨⟨u, hu'⟩, h2⟩ := hs.last (by simp)
      exact ⟨⟨u, by rw [List.getLast?_cons_cons]; exact hu'⟩, h2⟩
  · intro d h1 h2 h3
    by_cases hd : d = day + 1
    · exact absurd hd.symm (h3 (day + 1, m) (by simp))
    · exact hs.skipped d (by omega) h2 (fun p hp => h3 p (List.mem_cons_of_mem _ hp))
  · intro p hp hne
    rcases List.mem_cons.1 hp with rfl | hp
    · refine ⟨c, hc, hfull ?_⟩
      have hne' : new' ≠ [] := fun h => hne (hnil h).1.symm
      have := hs.left_pos hne'
      grind
    · exact hs.full p hp hne

theorem FillFwdSpec.skip {cal : Cal} {used : Int → Rat} {day : Int} {left c : Rat}
    {new : List (Int × Rat)} {dayL : Int} {dauL : Rat}
    (hc : capR cal ((day + 1 : Int) : Rat) = .ok c) (hav : c - used (day + 1) ≤ 0)
    (hs : FillFwdSpec cal used (day + 1) left new dayL dauL)
    (hnil : new = [] → dayL = day + 1) :
    FillFwdSpec cal used day left new dayL dauL := by
  have hle : day + 1 ≤ dayL := hs.le hnil
  refine ⟨hs.fits, hs.incr, ?_, hs.total, hs.last, ?_, hs.full⟩
  · intro p hp
    have := hs.range p hp; omega
  · intro d h1 h2 h3
    by_cases hd : d = day + 1
    · subst hd; exact ⟨c, hc, hav⟩
    · exact hs.skipped d (by omega) h2 h3

theorem fillFwd_spec (cal : Cal) (used : Int → Rat) (maxSteps : Nat) (hu : ∀ d, 0 ≤ used d) :
    ∀ (fuel days : Nat) (day : Int) (left dau : Rat) (acc rows : List (Int × Rat)) (dayL : Int) (dauL : Rat),
      0 ≤ left →
      fillFwd cal used maxSteps fuel days day left dau acc = .ok (rows, dayL, dauL) →
      ∃ new, rows = acc ++ new ∧ FillFwdSpec cal used day left new dayL dauL ∧ (new = [] → dayL = day ∧ dauL = dau) := by
  intro fuel
  induction fuel with
  | zero => intro days day left dau acc rows dayL dauL _ h; cases h
  | succ fuel ih =>
    intro days day left dau acc rows dayL dauL hl h
    by_cases hle : left ≤ 0
    · simp only [fillFwd, if_pos hle] at h
      cases h
      have h0 : left = 0 := by grind
      subst h0
      exact ⟨[], by simp, FillFwdSpec.nil cal used day dau, fun _ => ⟨rfl, rfl⟩⟩
    · rw [fillFwd_succ _ _ _ _ _ _ _ _ _ hle] at h
      cases hc : capR cal ((day + 1 : Int) : Rat) with
      | error e => rw [hc] at h; cases h
      | ok c =>
        rw [hc] at h
        simp only [bind, Except.bind] at h
        split at h
        · cases h
        · by_cases hav : 0 < c - used (day + 1)
          · simp only [if_pos hav] at h
            obtain ⟨new', hrows, hspec, hnil⟩ := ih _ _ _ _ _ _ _ _ (by grind) h
            refine ⟨(day + 1, min left (c - used (day + 1))) :: new', by simp [hrows], ?_, by simp⟩
            exact FillFwdSpec.cons hc (hu _) (by grind) (by grind) (by grind) hspec hnil
          · simp only [if_neg hav] at h
            obtain ⟨new', hrows, hspec, hnil⟩ := ih _ _ _ _ _ _ _ _ hl h
            refine ⟨new', hrows, FillFwdSpec.skip hc (by grind) hspec (fun h => (hnil h).1), ?_⟩
            intro hn
            subst hn
            have := hspec.total
            simp at this
            grind

/-- without the hypothesis `0 ≤ used d` the `last` field (`0 < dauL`) fails: a negative ledger entry makes a
    day of capacity 0 look available -/
example :
    (match fillFwd (.fixed 0 none none) (fun _ => -5) 5 2 0 0 1 0 [] with
     | .ok (rows, dayL, dauL) => decide (rows = [(1, 1)] ∧ dayL = 1 ∧ dauL = 0)
     | .error _ => false) = true := by
  decide +kernel

/-- the backward loop: days strictly decrease, all before `day0` -/
structure FillBwdSpec (cal : Cal) (used : Int → Rat) (day0 : Int) (left : Rat)
    (new : List (Int × Rat)) (dayL : Int) : Prop where
  fits : ∀ p ∈ new, ∃ c, capR cal (p.1 : Rat) = .ok c ∧ 0 < p.2 ∧ p.2 ≤ c - used p.1
  decr : (new.map (·.1)).Pairwise (· > ·)
  range : ∀ p ∈ new, p.1 < day0 ∧ dayL ≤ p.1
  total : (new.map (·.2)).sum = left
  last : new ≠ [] → ∃ u, new.getLast? = some (dayL, u)
  skipped : ∀ d, d < day0 → dayL ≤ d → (∀ p ∈ new, p.1 ≠ d) → ∃ c, capR cal (d : Rat) = .ok c ∧ c - used d ≤ 0
  full : ∀ p ∈ new, p.1 ≠ dayL → ∃ c, capR cal (p.1 : Rat) = .ok c ∧ p.2 = c - used p.1

theorem fillBwd_succ (cal : Cal) (used : Int → Rat) (maxSteps fuel days : Nat) (day : Int) (left : Rat)
    (acc : List (Int × Rat)) (hl : ¬ left ≤ 0) :
    fillBwd cal used maxSteps (fuel + 1) days day left acc =
      (capR cal ((day - 1 : Int) : Rat) >>= fun c =>
        if days + 1 > maxSteps then throw .runtime
        else fillBwd cal used maxSteps fuel (days + 1) (day - 1)
          (if 0 < c - used (day - 1) then left - min left (c - used (day - 1)) else left)
          (if 0 < c - used (day - 1) then acc ++ [(day - 1, min left (c - used (day - 1)))] else acc)) := by
  simp only [fillBwd, if_neg hl]
  congr 1
  funext c
  split
  · rfl
  · split <;> rfl

theorem FillBwdSpec.nil (cal : Cal) (used : Int → Rat) (day : Int) :
    FillBwdSpec cal used day 0 [] day where
  fits := by simp
  decr := by simp
  range := by simp
  total := by simp
  last := by simp
  skipped := by intro d h1 h2; omega
  full := by simp

theorem FillBwdSpec.le {cal : Cal} {used : Int → Rat} {day0 : Int} {left : Rat} {new : List (Int × Rat)}
    {dayL : Int} (hs : FillBwdSpec cal used day0 left new dayL)
    (hnil : new = [] → dayL = day0) : dayL ≤ day0 := by
  cases new with
  | nil => have := hnil rfl; omega
  | cons p l => have := hs.range p (by simp); omega

theorem FillBwdSpec.left_pos {cal : Cal} {used : Int → Rat} {day0 : Int} {left : Rat} {new : List (Int × Rat)}
    {dayL : Int} (hs : FillBwdSpec cal used day0 left new dayL) (hne : new ≠ []) :
    0 < left := by
  rw [← hs.total]
  exact sum_units_pos new (fun p hp => (hs.fits p hp).choose_spec.2.1) hne

theorem FillBwdSpec.cons {cal : Cal} {used : Int → Rat} {day : Int} {left c m : Rat}
    {new' : List (Int × Rat)} {dayL : Int}
    (hc : capR cal ((day - 1 : Int) : Rat) = .ok c)
    (hm0 : 0 < m) (hm1 : m ≤ c - used (day - 1)) (hfull : m < left → m = c - used (day - 1))
    (hs : FillBwdSpec cal used (day - 1) (left - m) new' dayL)
    (hnil : new' = [] → dayL = day - 1) :
    FillBwdSpec cal used day left ((day - 1, m) :: new') dayL := by
  have hle : dayL ≤ day - 1 := hs.le hnil
  refine ⟨?_, ?_, ?_, ?_, ?_, ?_, ?_⟩
  · intro p hp
    rcases List.mem_cons.1 hp with rfl | hp
    · exact ⟨c, hc, hm0, hm1⟩
    · exact hs.fits p hp
  · simp only [List.map_cons, List.pairwise_cons]
    refine ⟨?_, hs.decr⟩
    intro a ha
    obtain ⟨p, hp, rfl⟩ := List.mem_map.1 ha
    have := hs.range p hp
    omega
  · intro p hp
    rcases List.mem_cons.1 hp with rfl | hp
    · simp only; omega
    · have := hs.range p hp; omega
  · simp only [List.map_cons, List.sum_cons, hs.total]
    grind
  · intro _
    cases new' with
    | nil =>
      have h1 := hnil rfl
      subst h1
      exact ⟨m, rfl⟩
    | cons q l =>
      obtain ⟨u, hu'⟩ := hs.last (by simp)
      exact ⟨u, by rw [List.getLast?_cons_cons]; exact hu'⟩
  · intro d h1 h2 h3
    by_cases hd : d = day - 1
    · exact absurd hd.symm (h3 (day - 1, m) (by simp))
    · exact hs.skipped d (by omega) h2 (fun p hp => h3 p (List.mem_cons_of_mem _ hp))
  · intro p hp hne
    rcases List.mem_cons.1 hp with rfl | hp
    · refine ⟨c, hc, hfull ?_⟩
      have hne' : new' ≠ [] := fun h => hne (hnil h).symm
      have := hs.left_pos hne'
      grind
    · exact hs.full p hp hne

theorem FillBwdSpec.skip {cal : Cal} {used : Int → Rat} {day : Int} {left c : Rat}
    {new : List (Int × Rat)} {dayL : Int}
    (hc : capR cal ((day - 1 : Int) : Rat) = .ok c) (hav : c - used (day - 1) ≤ 0)
    (hs : FillBwdSpec cal used (day - 1) left new dayL)
    (hnil : new = [] → dayL = day - 1) :
    FillBwdSpec cal used day left new dayL := by
  have hle : dayL ≤ day - 1 := hs.le hnil
  refine ⟨hs.fits, hs.decr, ?_, hs.total, hs.last, ?_, hs.full⟩
  · intro p hp
    have := hs.range p hp; omega
  · intro d h1 h2 h3
    by_cases hd : d = day - 1
    · subst hd; exact ⟨c, hc, hav⟩
    · exact hs.skipped d (by omega) h2 h3

theorem fillBwd_spec (cal : Cal) (used : Int → Rat) (maxSteps : Nat) :
    ∀ (fuel days : Nat) (day : Int) (left : Rat) (acc rows : List (Int × Rat)) (dayL : Int),
      0 ≤ left →
      fillBwd cal used maxSteps fuel days day left acc = .ok (rows, dayL) →
      ∃ new, rows = acc ++ new ∧ FillBwdSpec cal used day left new dayL ∧ (new = [] → dayL = day) := by
  intro fuel
  induction fuel with
  | zero => intro days day left acc rows dayL _ h; cases h
  | succ fuel ih =>
    intro days day left acc rows dayL hl h
    by_cases hle : left ≤ 0
    · simp only [fillBwd, if_pos hle] at h
      cases h
      have h0 : left = 0 := by grind
      subst h0
      exact ⟨[], by simp, FillBwdSpec.nil cal used day, fun _ => rfl⟩
    · rw [fillBwd_succ _ _ _ _ _ _ _ _ hle] at h
      cases hc : capR cal ((day - 1 : Int) : Rat) with
      | error e => rw [hc] at h; cases h
      | ok c =>
        rw [hc] at h
        simp only [bind, Except.bind] at h
        split at h
        · cases h
        · by_cases hav : 0 < c - used (day - 1)
          · simp only [if_pos hav] at h
            obtain ⟨new', hrows, hspec, hnil⟩ := ih _ _ _ _ _ _ (by grind) h
            refine ⟨(day - 1, min left (c - used (day - 1))) :: new', by simp [hrows], ?_, by simp⟩
            exact FillBwdSpec.cons hc (by grind) (by grind) (by grind) hspec hnil
          · simp only [if_neg hav] at h
            obtain ⟨new', hrows, hspec, hnil⟩ := ih _ _ _ _ _ _ hl h
            refine ⟨new', hrows, FillBwdSpec.skip hc (by grind) hspec hnil, ?_⟩
            intro hn
            subst hn
            have := hspec.total
            simp at this
            grind

/-- `shiftFwd`: with nothing to place the date is returned unchanged; otherwise the rows satisfy the fill
    specification from the start day on and the end date lies in (last reserved day, last reserved day + 1]
    provided the ledger never exceeded the capacity (`used d ≥ 0`, and `used + placed ≤ capacity` follows from
    `fits`) -/
theorem shiftFwd_spec (cal : Cal) (used : Int → Rat) (start : Time) (left : Rat) (e : Time)
    (rows : List (Int × Rat)) (hl : 0 ≤ left) (hu : ∀ d, 0 ≤ used d)
    (h : shiftFwd cal used start left = .ok (e, rows)) :
    (left = 0 → e = start ∧ rows = []) ∧
    (0 < left → ∃ dayL dauL, FillFwdSpec cal used (dayOf start - 1) left rows dayL dauL ∧ rows ≠ [] ∧
        (dayL : Rat) < e ∧ e ≤ (dayL : Rat) + 1 ∧
        e = (dayL : Rat) + (used dayL + ((rows.filter (fun p => p.1 == dayL)).map (·.2)).sum) / dauL) := by
  unfold shiftFwd at h
  by_cases h0 : left = 0
  · simp only [if_pos h0] at h
    cases h
    exact ⟨fun _ => ⟨rfl, rfl⟩, fun hp => by grind⟩
  · simp only [if_neg h0] at h
    refine ⟨fun hz => absurd hz h0, fun hpos => ?_⟩
    cases hf : fillFwd cal used Extracted.fwdShiftMaxSteps (Extracted.fwdShiftMaxSteps + 2) 0
        (dayOf start - 1) left 0 [] with
    | error err => rw [hf] at h; cases h
    | ok res =>
      obtain ⟨rows', dayL, dauL⟩ := res
      rw [hf] at h
      simp only [bind, Except.bind] at h
      split at h
      · cases h
      · cases h
        obtain ⟨new, hrows, hspec, _⟩ := fillFwd_spec cal used _ hu _ _ _ _ _ _ _ _ _ hl hf
        simp only [List.nil_append] at hrows
        subst hrows
        have hne : rows ≠ [] := by
          intro hn
          subst hn
          have := hspec.total
          simp at this
          grind
        obtain ⟨⟨u, hlast⟩, hcap, hdau⟩ := hspec.last hne
        have hsum := filter_last_sum rows dayL u (hspec.incr.imp (fun h => Int.ne_of_lt h)) hlast
        obtain ⟨c, hc, hu0, hu1⟩ := hspec.fits (dayL, u) (List.mem_of_getLast? hlast)
        simp only at hc hu0 hu1
        rw [hcap] at hc
        cases hc
        have hd := div_pos_le_one (r := used dayL + u) (c := dauL) (by have := hu dayL; grind) (by grind)
        refine ⟨dayL, dauL, hspec, hne, ?_, ?_, rfl⟩
        · rw [hsum]; grind
        · rw [hsum]; grind

theorem shiftBwd_spec (cal : Cal) (used : Int → Rat) (end_ : Time) (left : Rat) (s : Time)
    (rows : List (Int × Rat)) (hl : 0 ≤ left) (hu : ∀ d, 0 ≤ used d)
    (h : shiftBwd cal used end_ left = .ok (s, rows)) :
    (left = 0 → s = end_ ∧ rows = []) ∧
    (0 < left → ∃ dayL, FillBwdSpec cal used (dayOf end_) left rows dayL ∧ rows ≠ [] ∧
        (dayL : Rat) ≤ s ∧ s < (dayL : Rat) + 1) := by
  unfold shiftBwd at h
  by_cases h0 : left = 0
  · simp only [if_pos h0] at h
    cases h
    exact ⟨fun _ => ⟨rfl, rfl⟩, fun hp => by grind⟩
  · simp only [if_neg h0] at h
    refine ⟨fun hz => absurd hz h0, fun hpos => ?_⟩
    cases hf : fillBwd cal used Extracted.bwdShiftMaxSteps (Extracted.bwdShiftMaxSteps + 2) 0
        (dayOf end_) left [] with
    | error err => rw [hf] at h; cases h
    | ok res =>
      obtain ⟨rows', dayL⟩ := res
      rw [hf] at h
      simp only [bind, Except.bind] at h
      cases hcap : capR cal (dayL : Rat) with
      | error err => rw [hcap] at h; cases h
      | ok c =>
        rw [hcap] at h
        simp only at h
        split at h
        · cases h
        · cases h
          obtain ⟨new, hrows, hspec, _⟩ := fillBwd_spec cal used _ _ _ _ _ _ _ _ hl hf
          simp only [List.nil_append] at hrows
          subst hrows
          have hne : rows ≠ [] := by
            intro hn
            subst hn
            have := hspec.total
            simp at this
            grind
          obtain ⟨u, hlast⟩ := hspec.last hne
          have hsum := filter_last_sum rows dayL u (hspec.decr.imp (fun h => Int.ne_of_gt h)) hlast
          obtain ⟨c', hc, hu0, hu1⟩ := hspec.fits (dayL, u) (List.mem_of_getLast? hlast)
          simp only at hc hu0 hu1
          rw [hcap] at hc
          cases hc
          have hd := div_pos_le_one (r := used dayL + u) (c := c) (by have := hu dayL; grind) (by grind)
          refine ⟨dayL, hspec, hne, ?_, ?_⟩
          · rw [hsum]; grind
          · rw [hsum]; grind

/-! ### the nearest-available-date loops -/

theorem nearestFwdLoop_spec (cal : Cal) (used : Int → Rat) :
    ∀ (k : Nat) (d0 : Int) (r : Time), nearestFwdLoop cal used k (d0 : Rat) = .ok r →
      ∃ (d : Int) (c : Rat), d0 ≤ d ∧ capR cal (d : Rat) = .ok c ∧ 0 < c - used d ∧
        r = (d : Rat) + used d / c ∧
        (∀ d', d0 ≤ d' → d' < d → ∃ c', capR cal (d' : Rat) = .ok c' ∧ c' - used d' ≤ 0) := by
  intro k
  induction k with
  | zero => intro d0 r h; cases h
  | succ k ih =>
    intro d0 r h
    unfold nearestFwdLoop at h
    cases hc : capR cal (d0 : Rat) with
    | error err => rw [hc] at h; cases h
    | ok c =>
      rw [hc] at h
      simp only [bind, Except.bind, dayOf_intCast, midnight_intCast] at h
      by_cases hav : 0 < c - used d0
      · rw [if_pos hav] at h
        split at h
        · cases h
        · cases h
          refine ⟨d0, c, Int.le_refl _, hc, hav, by grind, fun d' h1 h2 => by omega⟩
      · rw [if_neg hav] at h
        have hcast : (d0 : Rat) + 1 = ((d0 + 1 : Int) : Rat) := by rw [Rat.intCast_add]; rfl
        rw [hcast] at h
        obtain ⟨d, c2, h1, h2, h3, h4, h5⟩ := ih _ _ h
        refine ⟨d, c2, by omega, h2, h3, h4, ?_⟩
        intro d' hd1 hd2
        by_cases hd : d' = d0
        · subst hd; exact ⟨c, hc, by grind⟩
        · exact h5 d' (by omega) hd2

theorem nearestBwdLoop_spec (cal : Cal) (used : Int → Rat) :
    ∀ (k : Nat) (d0 : Int) (r : Time), nearestBwdLoop cal used k (d0 : Rat) = .ok r →
      ∃ (d : Int) (c : Rat), d ≤ d0 ∧ capR cal (d : Rat) = .ok c ∧ 0 < c - used d ∧
        r = (d : Rat) - used d / c ∧
        (∀ d', d < d' → d' ≤ d0 → ∃ c', capR cal (d' : Rat) = .ok c' ∧ c' - used d' ≤ 0) := by
  intro k
  induction k with
  | zero => intro d0 r h; cases h
  | succ k ih =>
    intro d0 r h
    unfold nearestBwdLoop at h
    cases hc : capR cal (d0 : Rat) with
    | error err => rw [hc] at h; cases h
    | ok c =>
      rw [hc] at h
      simp only [bind, Except.bind, dayOf_intCast, midnight_intCast] at h
      by_cases hav : 0 < c - used d0
      · rw [if_pos hav] at h
        split at h
        · cases h
        · cases h
          refine ⟨d0, c, Int.le_refl _, hc, hav, by grind, fun d' h1 h2 => by omega⟩
      · rw [if_neg hav] at h
        have hcast : (d0 : Rat) - 1 = ((d0 - 1 : Int) : Rat) := by rw [Rat.intCast_sub]; rfl
        rw [hcast] at h
        obtain ⟨d, c2, h1, h2, h3, h4, h5⟩ := ih _ _ h
        refine ⟨d, c2, by omega, h2, h3, h4, ?_⟩
        intro d' hd1 hd2
        by_cases hd : d' = d0
        · subst hd; exact ⟨c, hc, by grind⟩
        · exact h5 d' hd1 (by omega)

/-- the forward availability search from an integer day: stops on an integer day, all days before have
    non-positive capacity -/
theorem search_fwd_spec (cal : Cal) : ∀ (H : Nat) (d0 : Int) (r : Time),
    search cal 1 H (d0 : Rat) = .ok r →
      ∃ d : Int, d0 ≤ d ∧ r = (d : Rat) ∧
        ∀ d', d0 ≤ d' → d' < d → ∃ c', capR cal (d' : Rat) = .ok c' ∧ c' ≤ 0 := by
  intro H
  induction H with
  | zero => intro d0 r h; cases h
  | succ H ih =>
    intro d0 r h
    unfold search at h
    simp only [show ¬ ((1 : Int) < 0) by decide, if_false] at h
    cases hc : capR cal (d0 : Rat) with
    | error err => rw [hc] at h; cases h
    | ok c =>
      rw [hc] at h
      simp only [bind, Except.bind] at h
      by_cases hpos : 0 < c
      · rw [if_pos hpos] at h
        cases h
        exact ⟨d0, Int.le_refl _, rfl, fun d' h1 h2 => by omega⟩
      · rw [if_neg hpos] at h
        have hcast : (d0 : Rat) + ((1 : Int) : Rat) = ((d0 + 1 : Int) : Rat) := by rw [Rat.intCast_add]
        rw [hcast] at h
        obtain ⟨d, h1, h2, h3⟩ := ih _ _ h
        refine ⟨d, by omega, h2, ?_⟩
        intro d' hd1 hd2
        by_cases hd : d' = d0
        · subst hd; exact ⟨c, hc, by grind⟩
        · exact h3 d' (by omega) hd2

/-- the backward search from an integer day `d0`: stops on an integer day `d ≤ d0`, the days `d … d0 - 1` have
    non-positive capacity -/
theorem search_bwd_spec (cal : Cal) : ∀ (H : Nat) (d0 : Int) (r : Time),
    search cal (-1) H (d0 : Rat) = .ok r →
      ∃ d : Int, d ≤ d0 ∧ r = (d : Rat) ∧
        ∀ d', d ≤ d' → d' < d0 → ∃ c', capR cal (d' : Rat) = .ok c' ∧ c' ≤ 0 := by
  intro H
  induction H with
  | zero => intro d0 r h; cases h
  | succ H ih =>
    intro d0 r h
    unfold search at h
    simp only [show ((-1 : Int) < 0) by decide, if_true] at h
    have hcast : (d0 : Rat) - 1 = ((d0 - 1 : Int) : Rat) := by rw [Rat.intCast_sub]; rfl
    have hcast' : (d0 : Rat) + ((-1 : Int) : Rat) = ((d0 - 1 : Int) : Rat) := by
      rw [Int.sub_eq_add_neg, Rat.intCast_add]
    rw [hcast, hcast'] at h
    cases hc : capR cal ((d0 - 1 : Int) : Rat) with
    | error err => rw [hc] at h; cases h
    | ok c =>
      rw [hc] at h
      simp only [bind, Except.bind] at h
      by_cases hpos : 0 < c
      · rw [if_pos hpos] at h
        cases h
        exact ⟨d0, Int.le_refl _, rfl, fun d' h1 h2 => by omega⟩
      · rw [if_neg hpos] at h
        obtain ⟨d, h1, h2, h3⟩ := ih _ _ h
        refine ⟨d, by omega, h2, ?_⟩
        intro d' hd1 hd2
        by_cases hd : d' = d0 - 1
        · subst hd; exact ⟨c, hc, by grind⟩
        · exact h3 d' hd1 (by omega)

/-- `nearestFwd`: the result lies on the first day `d ≥ day(start)` that has capacity left, every day in between
    has none, and the time of day encodes the share of that day's capacity already used -/
theorem nearestFwd_spec (cal : Cal) (used : Int → Rat) (start r : Time) (hu : ∀ d, 0 ≤ used d)
    (h : nearestFwd cal used start = .ok r) :
    ∃ (d : Int) (c : Rat), dayOf start ≤ d ∧ capR cal (d : Rat) = .ok c ∧ 0 < c - used d ∧
      r = (d : Rat) + used d / c ∧ dayOf r = d ∧
      (∀ d', dayOf start ≤ d' → d' < d → ∃ c', capR cal (d' : Rat) = .ok c' ∧ c' - used d' ≤ 0) := by
  unfold nearestFwd at h
  cases hs : search cal 1 Extracted.maxDays (midnight start) with
  | error err => rw [hs] at h; cases h
  | ok t =>
    rw [hs] at h
    simp only [bind, Except.bind] at h
    obtain ⟨d1, h1, rfl, h3⟩ := search_fwd_spec cal _ (dayOf start) t hs
    obtain ⟨d, c, g1, g2, g3, g4, g5⟩ := nearestFwdLoop_spec cal used _ _ _ h
    have hfrac := div_nonneg_lt_one (u := used d) (c := c) (hu d) (by grind)
    refine ⟨d, c, by omega, g2, g3, g4, ?_, ?_⟩
    · rw [g4]; exact dayOf_add_frac d _ hfrac.1 hfrac.2
    · intro d' hd1 hd2
      by_cases hd : d' < d1
      · obtain ⟨c', hc1, hc2⟩ := h3 d' hd1 hd
        exact ⟨c', hc1, by have := hu d'; grind⟩
      · exact g5 d' (by omega) hd2

/-- `nearestBwd`: the result (before the caller adds one day) is the midnight of the last day `d < day(start)`
    that has capacity left, minus the share of that day already used -/
theorem nearestBwd_spec (cal : Cal) (used : Int → Rat) (start r : Time) (hu : ∀ d, 0 ≤ used d)
    (h : nearestBwd cal used start = .ok r) :
    ∃ (d : Int) (c : Rat), d < dayOf start ∧ capR cal (d : Rat) = .ok c ∧ 0 < c - used d ∧
      r = (d : Rat) - used d / c ∧
      (∀ d', d < d' → d' < dayOf start → ∃ c', capR cal (d' : Rat) = .ok c' ∧ c' - used d' ≤ 0) := by
  unfold nearestBwd at h
  cases hs : search cal (-1) Extracted.maxDays (midnight start) with
  | error err => rw [hs] at h; cases h
  | ok t =>
    rw [hs] at h
    simp only [bind, Except.bind] at h
    obtain ⟨d1, h1, rfl, h3⟩ := search_bwd_spec cal _ (dayOf start) t hs
    have hcast : (d1 : Rat) - 1 = ((d1 - 1 : Int) : Rat) := by rw [Rat.intCast_sub]; rfl
    rw [hcast] at h
    obtain ⟨d, c, g1, g2, g3, g4, g5⟩ := nearestBwdLoop_spec cal used _ _ _ h
    refine ⟨d, c, by omega, g2, g3, g4, ?_⟩
    intro d' hd1 hd2
    by_cases hd : d1 ≤ d'
    · obtain ⟨c', hc1, hc2⟩ := h3 d' hd hd2
      exact ⟨c', hc1, by have := hu d'; grind⟩
    · exact g5 d' hd1 (by omega)

end Pj
